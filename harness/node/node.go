// Package node is an in-process multi-node harness built on the REAL canopy controller.
//
// A Network is a genesis (N validators with real BLS keys and weighted stakes, funded accounts)
// plus the keys; a Node is one real controller.Controller over a real fsm.StateMachine over a real
// store.Store on an in-memory pebble file system that the node owns (so it can be closed and
// reopened = process restart). Nothing listens, no timers and no controller goroutines run:
// controller.New is called, controller.Start never is. What Start does synchronously before going
// to the network (the initial CheckMempool) is done by NewNode.
//
// The chain is its own root chain (params.consensus.rootChainID == config.chainId == 1). The
// controller still routes committee / lottery / order / evidence-height lookups through its
// RCManager; selfRC answers them from the node's own FSM with the same calls the node's RPC server
// makes for a remote subscriber (cmd/rpc/query.go), i.e. what a single-chain deployment computes.
//
// API (small on purpose; drivers of several properties import it):
//
//	net := node.NewNetwork(seed, nValidators, stakes, nAccounts)  // genesis + keys
//	a := net.NewNode(i)                                           // independent node, validator i's key
//	a.Submit(tx)                                                  // mempool.HandleTransactions
//	block, results, rcBuild, err := a.Propose()                   // real CheckMempool + ProduceProposal
//	qc := net.Certify(a.Committee(), block, results, signerIdxs, phase, rcBuild, a.Key) // real SignBytes, BLS sign, multikey aggregate
//	br, err := b.Validate(qc, rcBuild)                            // real ValidateProposal; br cached as the BFT does
//	b.RoundInterrupt()                                            // BFT round interrupt: drop cached result, reset FSM
//	err = b.Commit(qc, br)                                        // real CommitCertificate (br=nil: replay)
//	err = b.HandlePeerBlock(qc, syncing)                          // real HandlePeerBlock (uses the cached result on hash match)
//	msg, err := a.Serve(height)                                   // what ListenForBlockRequests sends (wire bytes)
//	err = c.HandlePeerBlockBytes(msg, syncing)                    // receive side of the sync path
//	b.Reopen()                                                    // close store, purge process caches, reopen
//	b.Header(h), b.StateRoot(h), b.StateDump(), b.QCByHeight(h), b.Height()
//	net.SendTx(from, to, amount, fee, createdHeight, memo) ...    // signed transaction builders
//
// Process-wide state: store.blockCache is one LRU keyed by height for the whole process. Nodes of
// one Network live in one process, so by default (Network.IsolateProcessCaches) the cache is purged
// whenever the harness switches from one node to another; this makes each node behave as its own
// process. With the flag off all nodes share the cache, which is wrong for more than one node (a
// node at height 1 would read another node's block 1 as "the last block"): keep it on and sample
// warm/cold cache contents by running one node for several heights in a row, and by Reopen().
// A second process-wide cache, crypto's signature cache, is keyed by (key, message, signature) and
// is shared on purpose.
package node

import (
	"crypto/ed25519"
	"crypto/sha256"
	"encoding/binary"
	"encoding/hex"
	"encoding/json"
	"fmt"
	"os"
	"path/filepath"
	"sort"
	"strings"
	"time"

	"github.com/canopy-network/canopy/bft"
	"github.com/canopy-network/canopy/controller"
	"github.com/canopy-network/canopy/fsm"
	"github.com/canopy-network/canopy/lib"
	"github.com/canopy-network/canopy/lib/crypto"
	"github.com/canopy-network/canopy/store"
	"github.com/cockroachdb/pebble/v2/vfs"
)

const (
	ChainId   = uint64(1)
	NetworkId = uint64(1)
)

// RealCodeError is what the harness panics with when the REAL code (store, fsm, controller, crypto)
// returns an error in a place where an honest run cannot fail (opening a store it closed itself,
// scanning the state, deriving a committee, aggregating signatures). Such an error is an observation
// about the code under test, not a harness bug: drivers recover it (execdrv.Guard) and report it as
// an oracle failure with the history. Plain panics are left for harness-internal impossibilities.
type RealCodeError struct {
	Where string
	Err   string
}

func (e RealCodeError) Error() string { return e.Where + ": " + e.Err }

func realCode(where string, err error) {
	if err != nil {
		panic(RealCodeError{Where: where, Err: oneLine(err.Error())})
	}
}

func oneLine(s string) string {
	return strings.Join(strings.Fields(s), " ")
}

// Network is the shared genesis and key material of a set of independent nodes.
type Network struct {
	Seed     int64
	Dir      string               // scratch data dir holding genesis.json (removed by Close)
	ValKeys  []crypto.PrivateKeyI // validator BLS keys, index = validator number
	Stakes   []uint64
	AcctKeys []crypto.PrivateKeyI // funded accounts (ed25519; every 4th is BLS)
	SecpKeys []crypto.PrivateKeyI // funded secp256k1 accounts (Options.SchemeAccounts)
	EthKeys  []crypto.PrivateKeyI // funded Ethereum-style secp256k1 accounts (Options.SchemeAccounts)
	Genesis  *fsm.GenesisState
	Config   lib.Config
	Log      lib.LoggerI
	// IsolateProcessCaches: purge the process-wide block cache when the active node changes.
	IsolateProcessCaches bool
	active               *Node
	nodes                []*Node
	voteWindow           bool
}

// Options tweak the genesis before it is written.
type Options struct {
	BlockSize      uint64 // params.consensus.blockSize (0 = default 1MB)
	AccountBalance uint64 // balance of each funded account (0 = 1e12)
	MutateGenesis  func(g *fsm.GenesisState)
	// ProposalVoteWindow: every node is put inside the "proposal vote window" of a height (the first
	// rounds of a young height), in which the controller runs proposers and validators in APPROVE_LIST
	// mode (governance proposals listed in <dataDir>/proposals.json are accepted) instead of
	// REJECT_ALL. See Node.OpenProposalVoteWindow.
	ProposalVoteWindow bool
	// SchemeAccounts: that many funded secp256k1 accounts and as many Ethereum-style secp256k1 accounts
	// on top of AcctKeys (Network.SecpKeys, Network.EthKeys), so that blocks mix all four signature schemes.
	SchemeAccounts int
	// TokensPerBlock: Config.InitialTokensPerBlock (0 = the default 80e6 micro tokens minted per block).
	TokensPerBlock uint64
}

// detKeyBytes derives 32 deterministic bytes for key number i of a kind.
func detKeyBytes(seed int64, kind string, i int) []byte {
	var b [16]byte
	binary.BigEndian.PutUint64(b[:8], uint64(seed))
	binary.BigEndian.PutUint64(b[8:], uint64(i))
	h := sha256.Sum256(append([]byte("verif-node-"+kind), b[:]...))
	return h[:]
}

func detBLS(seed int64, kind string, i int) crypto.PrivateKeyI {
	bz := detKeyBytes(seed, kind, i)
	bz[0] = 0 // stay below the group order
	k, err := crypto.BytesToBLS12381PrivateKey(bz)
	if err != nil {
		panic(err)
	}
	return k
}

func detEd25519(seed int64, kind string, i int) crypto.PrivateKeyI {
	return crypto.BytesToED25519Private(ed25519.NewKeyFromSeed(detKeyBytes(seed, kind, i)))
}

func detSecp(seed int64, kind string, i int) crypto.PrivateKeyI {
	k, err := crypto.BytesToSECP256K1Private(detKeyBytes(seed, kind, i))
	if err != nil {
		panic(err)
	}
	return k
}

func detEth(seed int64, kind string, i int) crypto.PrivateKeyI {
	k, err := crypto.BytesToEthSECP256K1Private(detKeyBytes(seed, kind, i))
	if err != nil {
		panic(err)
	}
	return k
}

// ColdSignatureCache empties the process-wide signature cache (crypto.SignatureCache): what a node has
// after a restart, or for signatures it never saw. All nodes of the harness live in one process and
// share that cache; the next verification of any signature on any node is a cold one.
func ColdSignatureCache() {
	if err := crypto.SignatureCache.Reset(); err != nil {
		panic(RealCodeError{Where: "crypto.SignatureCache.Reset", Err: err.Error()})
	}
}

// InvalidSignatureTxs verifies the signature of every transaction one by one with the key's own
// VerifyBytes on a cold cache and returns the indices of those that do not verify (RLP-wrapped
// Ethereum transactions, which are not verified over the sign bytes, are skipped).
func InvalidSignatureTxs(txs [][]byte) (bad []int) {
	was := crypto.DisableCache
	crypto.DisableCache = true
	defer func() { crypto.DisableCache = was }()
	for i, bz := range txs {
		tx := new(lib.Transaction)
		if err := lib.Unmarshal(bz, tx); err != nil || tx.Signature == nil {
			bad = append(bad, i)
			continue
		}
		if tx.Memo == fsm.RLPIndicator || tx.Memo == fsm.RLPV2Indicator {
			continue
		}
		pk, e := crypto.NewPublicKeyFromBytes(tx.Signature.PublicKey)
		sb, err := tx.GetSignBytes()
		if e != nil || err != nil || !pk.VerifyBytes(sb, tx.Signature.Signature) {
			bad = append(bad, i)
		}
	}
	return
}

// NewNetwork builds the genesis: nValidators validators (stakes[i], or 1e9 when stakes is short),
// each also owning a funded account at its address, plus nAccounts funded non-validator accounts.
func NewNetwork(seed int64, nValidators int, stakes []uint64, nAccounts int, opts ...Options) *Network {
	var opt Options
	if len(opts) != 0 {
		opt = opts[0]
	}
	if opt.AccountBalance == 0 {
		opt.AccountBalance = 1_000_000_000_000
	}
	dir, err := os.MkdirTemp("", "verif-node-")
	if err != nil {
		panic(err)
	}
	n := &Network{Seed: seed, Dir: dir, Log: lib.NewNullLogger(), IsolateProcessCaches: true}
	params := fsm.DefaultParams()
	if opt.BlockSize != 0 {
		params.Consensus.BlockSize = opt.BlockSize
	}
	g := &fsm.GenesisState{Time: 1_700_000_000_000_000, Params: params}
	for i := 0; i < nValidators; i++ {
		k := detBLS(seed, "val", i)
		stake := uint64(1_000_000_000)
		if i < len(stakes) && stakes[i] != 0 {
			stake = stakes[i]
		}
		n.ValKeys, n.Stakes = append(n.ValKeys, k), append(n.Stakes, stake)
		addr := k.PublicKey().Address().Bytes()
		g.Validators = append(g.Validators, &fsm.Validator{
			Address: addr, PublicKey: k.PublicKey().Bytes(), NetAddress: fmt.Sprintf("tcp://val%d", i),
			StakedAmount: stake, Committees: []uint64{ChainId}, Output: addr, Compound: true,
		})
		g.Accounts = append(g.Accounts, &fsm.Account{Address: addr, Amount: opt.AccountBalance})
	}
	for i := 0; i < nAccounts; i++ {
		var k crypto.PrivateKeyI
		if i%4 == 3 {
			k = detBLS(seed, "acct", i)
		} else {
			k = detEd25519(seed, "acct", i)
		}
		n.AcctKeys = append(n.AcctKeys, k)
		g.Accounts = append(g.Accounts, &fsm.Account{Address: k.PublicKey().Address().Bytes(), Amount: opt.AccountBalance})
	}
	for i := 0; i < opt.SchemeAccounts; i++ {
		sk, ek := detSecp(seed, "secp", i), detEth(seed, "eth", i)
		n.SecpKeys, n.EthKeys = append(n.SecpKeys, sk), append(n.EthKeys, ek)
		for _, k := range []crypto.PrivateKeyI{sk, ek} {
			g.Accounts = append(g.Accounts, &fsm.Account{Address: k.PublicKey().Address().Bytes(), Amount: opt.AccountBalance})
		}
	}
	if opt.MutateGenesis != nil {
		opt.MutateGenesis(g)
	}
	n.Genesis = g
	bz, err := json.Marshal(g)
	if err != nil {
		panic(err)
	}
	if err = os.WriteFile(filepath.Join(dir, lib.GenesisFilePath), bz, 0o644); err != nil {
		panic(err)
	}
	cfg := lib.DefaultConfig()
	cfg.DataDirPath = dir
	cfg.ChainId = ChainId
	cfg.RunVDF = false
	cfg.Headless = true
	cfg.AutoUpdate = false
	cfg.StoreConfig.InMemory = true
	cfg.MetricsConfig.MetricsEnabled = false
	cfg.MempoolConfig.LazyMempoolCheckFrequencyS = 0
	if opt.TokensPerBlock != 0 {
		cfg.InitialTokensPerBlock = opt.TokensPerBlock
	}
	if opt.ProposalVoteWindow {
		// a block time of ~12 days: the BFT's phase timer never fires and the vote window never closes
		cfg.NewHeightTimeoutMs = 1_000_000_000
		n.voteWindow = true
	}
	n.Config = cfg
	return n
}

// Close closes every node's store and removes the scratch directory.
func (n *Network) Close() {
	for _, nd := range n.nodes {
		nd.close()
	}
	os.RemoveAll(n.Dir)
}

// Node is one real controller with its own store on its own in-memory file system.
type Node struct {
	Net   *Network
	Name  string
	Key   crypto.PrivateKeyI
	C     *controller.Controller
	fs    vfs.FS
	db    lib.StoreI
	dead  bool
	Opens int // number of times the store was (re)opened
}

// NewNode creates an independent node that signs with validator valIdx's key (a negative index
// gives a non-validator key) and holds only the genesis.
func (n *Network) NewNode(valIdx int) *Node {
	var key crypto.PrivateKeyI
	if valIdx >= 0 && valIdx < len(n.ValKeys) {
		key = n.ValKeys[valIdx]
	} else {
		key = detBLS(n.Seed, "observer", len(n.nodes))
	}
	nd := &Node{Net: n, Name: fmt.Sprintf("n%d", len(n.nodes)), Key: key, fs: vfs.NewMem()}
	n.nodes = append(n.nodes, nd)
	if stage, err := nd.open(); err != nil {
		realCode("new node on the genesis: "+stage, err)
	}
	return nd
}

// enter marks nd as the node the "process" is currently running.
func (nd *Node) enter() {
	if nd.Net.active != nd {
		if nd.Net.IsolateProcessCaches {
			store.VerifPurgeBlockCache()
		}
		nd.Net.active = nd
	}
}

// open builds store, state machine and controller over the node's files and rebuilds the mempool
// proposal. A real-code error is returned with the stage it occurred in; after "rebuild-mempool-proposal"
// the node is still usable (it has a controller), after the earlier stages it is not.
func (nd *Node) open() (stage string, rerr lib.ErrorI) {
	nd.enter()
	defer func() {
		if r := recover(); r != nil {
			rerr = lib.NewError(lib.NoCode, "verif-panic", fmt.Sprint(r))
		}
	}()
	stage = "open-store"
	db, err := store.VerifOpenStoreOnFS(nd.fs, nd.Net.Config, nd.Net.Log)
	if err != nil {
		nd.dead = true
		return stage, err
	}
	stage = "fsm.New"
	sm, err := fsm.New(nd.Net.Config, db, nil, nil, nd.Net.Log)
	if err != nil {
		nd.dead = true
		return stage, err
	}
	stage = "controller.New"
	c, err := controller.New(sm, nd.Net.Config, nd.Key, nil, nd.Net.Log)
	if err != nil {
		nd.dead = true
		return stage, err
	}
	c.RCManager = &selfRC{c: c}
	nd.C, nd.db, nd.dead = c, db, false
	nd.Opens++
	// what Controller.Start does before anything else: build the first cached proposal
	stage = "rebuild-mempool-proposal"
	reset := c.SetFSMInConsensusModeForProposals()
	e := c.Mempool.CheckMempool()
	reset()
	if nd.Net.voteWindow {
		nd.OpenProposalVoteWindow()
	}
	if e != nil {
		return stage, e
	}
	return "", nil
}

// OpenProposalVoteWindow makes currentProposalVoteConfig() answer APPROVE_LIST, as it does in a node
// during the first rounds of a height less than three block times old. The deadline it reads is an
// unexported field of the BFT that only the BFT's own loop sets (on a NEW_HEIGHT reset), so the loop
// is started and handed exactly one reset; with the network's very long NewHeightTimeout its phase
// timer never fires, it never sends anything and it only parks on its select. This is the one place
// where the harness runs a goroutine of the node, and only for networks built with
// Options.ProposalVoteWindow.
func (nd *Node) OpenProposalVoteWindow() {
	if nd.C.Consensus.ProposalVoteDeadlineUnixMilli() != 0 {
		return
	}
	go nd.C.Consensus.Start()
	nd.C.Consensus.ResetBFT <- bft.ResetBFT{}
	for i := 0; nd.C.Consensus.ProposalVoteDeadlineUnixMilli() == 0; i++ {
		if i > 60000 {
			panic("harness: the BFT loop did not take the reset")
		}
		time.Sleep(time.Millisecond)
	}
}

// ApproveProposals writes <dataDir>/proposals.json (shared by every node of the network: one vote
// configuration) approving the given governance transactions.
func (n *Network) ApproveProposals(txs ...[]byte) {
	m := map[string]any{}
	for _, tx := range txs {
		m[crypto.HashString(tx)] = map[string]any{"proposal": map[string]any{}, "approve": true}
	}
	bz, err := json.Marshal(m)
	if err != nil {
		panic(err)
	}
	if err = os.WriteFile(filepath.Join(n.Dir, lib.ProposalsFilePath), bz, 0o644); err != nil {
		panic(err)
	}
}

func (nd *Node) close() {
	if nd.dead {
		return
	}
	nd.dead = true
	// what Controller.Stop does to the stores
	nd.C.Mempool.FSM.Discard()
	_ = nd.C.FSM.Store().(lib.StoreI).Close()
}

// Reopen closes the store, purges the process-wide block cache and builds a new FSM and controller
// over the same (in-memory) files: a process restart. The mempool content is lost, as in a restart.
// It returns the stage and the error when the real code cannot come back up.
func (nd *Node) Reopen() (stage string, err lib.ErrorI) {
	nd.close()
	store.VerifPurgeBlockCache()
	nd.Net.active = nil
	return nd.open()
}

// Dead reports that the node has no usable controller (a failed reopen before the controller existed).
func (nd *Node) Dead() bool { return nd.dead }

// PurgeProcessCaches empties the process-wide block cache without touching the node.
func (nd *Node) PurgeProcessCaches() { store.VerifPurgeBlockCache() }

// Height is the FSM height = the height of the next block.
func (nd *Node) Height() uint64 { return nd.C.FSM.Height() }

// SetSyncing flips the controller's syncing flag (as Sync()/finishSyncing do).
func (nd *Node) SetSyncing(v bool) { nd.C.Syncing().Store(v) }

// Submit hands raw transaction bytes to the mempool (the path ListenForTx uses).
func (nd *Node) Submit(txs ...[]byte) lib.ErrorI {
	nd.enter()
	return nd.C.Mempool.HandleTransactions(txs...)
}

// MempoolCount is the number of transactions the mempool currently holds.
func (nd *Node) MempoolCount() int { return nd.C.Mempool.TxCount() }

func noEvidence() *bft.ByzantineEvidence {
	return &bft.ByzantineEvidence{DSE: bft.DoubleSignEvidences{}}
}

// Propose runs the leader path: ProduceProposal (which re-checks the mempool when the cached
// proposal is stale) and returns the block bytes, certificate results and root build height.
func (nd *Node) Propose() (block []byte, results *lib.CertificateResult, rcBuildHeight uint64, err lib.ErrorI) {
	nd.enter()
	defer recoverTo(&err)
	rcBuildHeight, block, results, err = nd.C.ProduceProposal(noEvidence(), nil)
	return
}

// ProposeVDF is Propose with a verifiable-delay-function result handed to ProduceProposal, as the BFT
// does when the node runs a VDF (nil = none). Use MakeVDF for a valid one.
func (nd *Node) ProposeVDF(vdf *crypto.VDF) (block []byte, results *lib.CertificateResult, rcBuildHeight uint64, err lib.ErrorI) {
	nd.enter()
	defer recoverTo(&err)
	rcBuildHeight, block, results, err = nd.C.ProduceProposal(noEvidence(), vdf)
	return
}

// MakeVDF computes a real VDF over the hash of the node's last committed block (the seed
// ProduceProposal and ApplyAndValidateBlock verify against). Only meaningful from height 2 on.
func (nd *Node) MakeVDF(iterations int) *crypto.VDF {
	seed := nd.BlockHash(nd.Height() - 1)
	out, proof := crypto.GenerateVDF(seed, iterations, nil)
	if out == nil {
		realCode("crypto.GenerateVDF", fmt.Errorf("no output for %d iterations", iterations))
	}
	return &crypto.VDF{Output: out, Proof: proof, Iterations: uint64(iterations)}
}

// CheckMempool re-runs the mempool check explicitly (what CommitCertificate and the lazy checker do).
func (nd *Node) CheckMempool() (err lib.ErrorI) {
	nd.enter()
	defer recoverTo(&err)
	nd.C.Mempool.L.Lock()
	defer nd.C.Mempool.L.Unlock()
	reset := nd.C.SetFSMInConsensusModeForProposals()
	defer reset()
	nd.C.Mempool.FSM.Reset()
	return nd.C.Mempool.CheckMempool()
}

// Validate runs the replica path on a proposal certificate and then does what the BFT does with
// the answer (bft.StartProposeVotePhase): the returned block result becomes the BFT's cached
// result (Consensus.BlockResult), and on error the round is interrupted (RoundInterrupt).
func (nd *Node) Validate(qc *lib.QuorumCertificate, rcBuildHeight uint64) (br *lib.BlockResult, err lib.ErrorI) {
	nd.enter()
	defer recoverTo(&err)
	br, err = nd.C.ValidateProposal(rcBuildHeight, qc, noEvidence())
	nd.C.Consensus.BlockResult = br
	if err != nil {
		nd.RoundInterrupt()
	}
	return
}

// ValidateRaw is ValidateProposal alone, without the BFT's bookkeeping (for rejection probes that
// want to look at the node before anything resets it).
func (nd *Node) ValidateRaw(qc *lib.QuorumCertificate, rcBuildHeight uint64) (br *lib.BlockResult, err lib.ErrorI) {
	nd.enter()
	defer recoverTo(&err)
	return nd.C.ValidateProposal(rcBuildHeight, qc, noEvidence())
}

// RoundInterrupt is the controller-visible part of bft.RoundInterrupt: drop the cached block result
// and reset the FSM.
func (nd *Node) RoundInterrupt() {
	nd.C.Consensus.BlockResult = nil
	nd.C.ResetFSM()
}

// CachedBlockHash is the block hash of the BFT's cached block result ("" when none).
func (nd *Node) CachedBlockHash() string {
	if r := nd.C.Consensus.BlockResult; r != nil && r.BlockHeader != nil {
		return hex.EncodeToString(r.BlockHeader.Hash)
	}
	return ""
}

// Commit runs CommitCertificate; cached == nil means "no cached result": the block is replayed.
func (nd *Node) Commit(qc *lib.QuorumCertificate, cached *lib.BlockResult) (err lib.ErrorI) {
	nd.enter()
	defer recoverTo(&err)
	block := new(lib.Block)
	if err = lib.Unmarshal(qc.Block, block); err != nil {
		return
	}
	return nd.C.CommitCertificate(qc, block, cached, 0)
}

// HandlePeerBlock runs the peer-block path. With syncing the controller is put into syncing mode
// for the call, as Sync() does. As in the node, the commit uses the BFT's cached block result when
// its block hash equals the peer block's (a replica that validated the proposal: "commit with
// cached result") and replays the block otherwise.
func (nd *Node) HandlePeerBlock(qc *lib.QuorumCertificate, syncing bool) (err lib.ErrorI) {
	nd.enter()
	defer recoverTo(&err)
	was := nd.C.Syncing().Load()
	nd.C.Syncing().Store(syncing)
	defer nd.C.Syncing().Store(was)
	_, err = nd.C.HandlePeerBlock(&lib.BlockMessage{ChainId: ChainId, BlockAndCertificate: qc}, syncing)
	return
}

// Serve returns the wire bytes of the block message the node sends for a block request at height:
// LoadCertificate (archive read: GetQCByHeight) wrapped as SendBlock does.
func (nd *Node) Serve(height uint64) (wire []byte, err lib.ErrorI) {
	nd.enter()
	defer recoverTo(&err)
	qc, err := nd.C.LoadCertificate(height)
	if err != nil {
		return nil, err
	}
	return lib.Marshal(&lib.BlockMessage{
		ChainId: ChainId, MaxHeight: nd.C.FSM.Height(), TotalVdfIterations: nd.C.FSM.TotalVDFIterations(),
		BlockAndCertificate: qc,
	})
}

// HandlePeerBlockBytes is the receive side: unmarshal a served block message and handle it.
func (nd *Node) HandlePeerBlockBytes(wire []byte, syncing bool) (err lib.ErrorI) {
	msg := new(lib.BlockMessage)
	if err = lib.Unmarshal(wire, msg); err != nil {
		return
	}
	return nd.HandlePeerBlock(msg.BlockAndCertificate, syncing)
}

// ResetFSM is what the BFT calls on a round interrupt.
func (nd *Node) ResetFSM() { nd.C.ResetFSM() }

// ---- readers ---------------------------------------------------------------------------------

// Header returns the indexed block header at a height (nil when absent).
func (nd *Node) Header(height uint64) *lib.BlockHeader {
	nd.enter()
	br, err := nd.C.FSM.LoadBlock(height)
	if err != nil || br == nil || br.BlockHeader == nil || br.BlockHeader.Height != height {
		return nil
	}
	return br.BlockHeader
}

// HeaderBytes is the canonical marshalling of Header(height) ("" when absent).
func (nd *Node) HeaderBytes(height uint64) string {
	h := nd.Header(height)
	if h == nil {
		return ""
	}
	bz, _ := lib.Marshal(h)
	return hex.EncodeToString(bz)
}

func (nd *Node) BlockHash(height uint64) []byte {
	if h := nd.Header(height); h != nil {
		return h.Hash
	}
	return nil
}

func (nd *Node) StateRoot(height uint64) []byte {
	if h := nd.Header(height); h != nil {
		return h.StateRoot
	}
	return nil
}

// Balance reads an account balance from the node's working FSM view (0 when the account is absent).
func (nd *Node) Balance(address []byte) uint64 {
	nd.enter()
	a, err := nd.C.FSM.GetAccount(crypto.NewAddress(address))
	if err != nil || a == nil {
		return 0
	}
	return a.Amount
}

// VoteConfigs is the governance-proposal mode of the controller's and the mempool's state machine
// (ACCEPT_ALL outside proposal building / proposal validation).
func (nd *Node) VoteConfigs() string {
	return fmt.Sprintf("controller FSM %s, mempool FSM %s", nd.C.FSM.ProposalVoteConfig(), nd.C.Mempool.FSM.ProposalVoteConfig())
}

// PoolAmount is the balance of a pool of the node's working state (0 when absent).
func (nd *Node) PoolAmount(id uint64) uint64 {
	nd.enter()
	p, err := nd.C.FSM.GetPool(id)
	if err != nil || p == nil {
		return 0
	}
	return p.Amount
}

// Order reads a sell order of the order book of committee chainId (nil when absent).
func (nd *Node) Order(chainId uint64, id []byte) *lib.SellOrder {
	nd.enter()
	o, err := nd.C.FSM.GetOrder(id, chainId)
	if err != nil {
		return nil
	}
	return o
}

// BlockEvents returns the indexed events of a height, marshalled, in index order.
func (nd *Node) BlockEvents(height uint64) (out []string) {
	nd.enter()
	br, err := nd.C.FSM.LoadBlock(height)
	if err != nil || br == nil || br.BlockHeader == nil || br.BlockHeader.Height != height {
		return nil
	}
	for _, e := range br.Events {
		bz, _ := lib.Marshal(e)
		out = append(out, hex.EncodeToString(bz))
	}
	return
}

func eventStrings(evs []*lib.Event) (out []string) {
	for _, e := range evs {
		bz, _ := lib.Marshal(e)
		out = append(out, hex.EncodeToString(bz))
	}
	return
}

// ProposalEvents are the events of the block result the mempool cached with its current proposal
// (CheckMempool: ApplyBlock over the whole mempool, failing and oversize transactions tolerated).
func (nd *Node) ProposalEvents() (out []string, ok bool) {
	p, ok := nd.C.GetProposalBlockFromMempool()
	if !ok || p == nil || p.BlockResult == nil {
		return nil, false
	}
	return eventStrings(p.BlockResult.Events), true
}

// CachedResultEvents are the events of the BFT's cached block result (what Validate last computed by
// executing exactly the block's transactions).
func (nd *Node) CachedResultEvents() (out []string, ok bool) {
	if r := nd.C.Consensus.BlockResult; r != nil {
		return eventStrings(r.Events), true
	}
	return nil, false
}

// DescribeEvents renders marshalled events (as returned by BlockEvents / ProposalEvents) readably.
func DescribeEvents(evs []string) (out []string) {
	for _, h := range evs {
		bz, _ := hex.DecodeString(h)
		e := new(lib.Event)
		if err := lib.Unmarshal(bz, e); err != nil {
			out = append(out, "?"+h)
			continue
		}
		out = append(out, fmt.Sprintf("%s(height %d, reference %s)", e.EventType, e.Height, e.Reference))
	}
	return
}

// MaxBlockSize is the transaction-bytes budget of a block (params.blockSize - header allowance).
func (nd *Node) MaxBlockSize() uint64 {
	nd.enter()
	m, err := nd.C.FSM.GetMaxBlockSize()
	realCode("FSM.GetMaxBlockSize", err)
	return m
}

// MempoolOrder returns the mempool's transactions in the order a proposal executes them.
func (nd *Node) MempoolOrder() [][]byte { return nd.C.Mempool.GetTransactions(^uint64(0)) }

// IndexDump lists what transaction handlers write into the indexer, read through the public read
// API of the node's working store: every checkpoint of the given chains, and every indexed double
// signer (address and heights). Sorted, one string per entry.
func (nd *Node) IndexDump(chains ...uint64) (out []string) {
	nd.enter()
	st := nd.C.FSM.Store().(lib.StoreI)
	for _, ch := range chains {
		cps, err := st.GetAllCheckpoints(ch)
		realCode("GetAllCheckpoints", err)
		for _, cp := range cps {
			out = append(out, fmt.Sprintf("checkpoint chain=%d height=%d hash=%s", ch, cp.Height, hex.EncodeToString(cp.BlockHash)))
		}
		mr, err := st.GetMostRecentCheckpoint(ch)
		realCode("GetMostRecentCheckpoint", err)
		if mr != nil && len(mr.BlockHash) != 0 {
			out = append(out, fmt.Sprintf("most-recent-checkpoint chain=%d height=%d hash=%s", ch, mr.Height, hex.EncodeToString(mr.BlockHash)))
		}
	}
	ds, err := st.GetDoubleSigners()
	realCode("GetDoubleSigners", err)
	for _, d := range ds {
		for _, h := range d.Heights {
			out = append(out, fmt.Sprintf("double-signer id=%s height=%d", hex.EncodeToString(d.Id), h))
		}
	}
	sort.Strings(out)
	return
}

// IndexPoints reads the same index content by point lookups (GetCheckpoint per chain and height,
// IsValidDoubleSigner per address and height) over the given probe universe. Unlike the iterators of
// IndexDump, point reads also see the writes pending in the working store of the current block (the
// top-level indexer transaction is unsorted: its iterators only see committed entries).
func (nd *Node) IndexPoints(chains, checkpointHeights []uint64, addrs [][]byte, evidenceHeights []uint64) (out []string) {
	nd.enter()
	st := nd.C.FSM.Store().(lib.StoreI)
	for _, ch := range chains {
		for _, h := range checkpointHeights {
			hash, err := st.GetCheckpoint(ch, h)
			realCode("GetCheckpoint", err)
			if len(hash) != 0 {
				out = append(out, fmt.Sprintf("checkpoint chain=%d height=%d hash=%s", ch, h, hex.EncodeToString(hash)))
			}
		}
	}
	for _, a := range addrs {
		for _, h := range evidenceHeights {
			fresh, err := st.IsValidDoubleSigner(a, h)
			realCode("IsValidDoubleSigner", err)
			if !fresh {
				out = append(out, fmt.Sprintf("double-signer id=%s height=%d", hex.EncodeToString(a), h))
			}
		}
	}
	sort.Strings(out)
	return
}

// ApplyUnnested is the plain reference for "what the successful transactions of a block write":
// the message handler of every given transaction is run, in order, directly on the node's working
// state machine — no per-transaction nested store, no fee, no mempool — and f observes the result
// (through the working store); the working state is reset afterwards. An error of a handler is
// returned with the index of the transaction.
func (nd *Node) ApplyUnnested(txs [][]byte, f func()) (failedAt int, err lib.ErrorI) {
	nd.enter()
	defer recoverTo(&err)
	defer nd.C.ResetFSM()
	nd.C.ResetFSM()
	for i, bz := range txs {
		tx := new(lib.Transaction)
		if err = lib.Unmarshal(bz, tx); err != nil {
			return i, err
		}
		pm, e := lib.FromAny(tx.Msg)
		if e != nil {
			return i, e
		}
		msg, ok := pm.(lib.MessageI)
		if !ok {
			return i, lib.NewError(lib.NoCode, "verif", "not a message")
		}
		pk, _ := crypto.NewPublicKeyFromBytes(tx.Signature.PublicKey)
		nd.C.FSM.PopulateSpecialMessageFields(tx, pk.Address(), msg)
		if err = nd.C.FSM.HandleMessage(msg); err != nil {
			return i, err
		}
	}
	f()
	return -1, nil
}

// Explorer runs read-only indexer queries the way cmd/rpc does for every explorer request
// (Server.setupStore): a fresh store over the node's database (store.NewStoreWithDB(config,
// FSM.Store().DB(), nil, log)), discarded afterwards. Nothing the queries do may change what the node
// executes, stores or serves.
func (nd *Node) Explorer(fn func(st lib.StoreI) lib.ErrorI) (err lib.ErrorI) {
	nd.enter()
	defer recoverTo(&err)
	st, err := store.NewStoreWithDB(nd.Net.Config, nd.C.FSM.Store().(lib.StoreI).DB(), nil, nd.Net.Log)
	if err != nil {
		return err
	}
	defer st.Discard()
	return fn(st)
}

// QCByHeight is the archive read (store.GetQCByHeight through the FSM).
func (nd *Node) QCByHeight(height uint64) (*lib.QuorumCertificate, lib.ErrorI) {
	nd.enter()
	return nd.C.LoadCertificate(height)
}

// KV is one state entry, hex encoded.
type KV struct{ K, V string }

// StateDump scans the whole state store of the node's working FSM view (committed state when no
// speculative execution is pending), sorted by key.
func (nd *Node) StateDump() []KV {
	nd.enter()
	var out []KV
	err := nd.C.FSM.IterateAndExecute(nil, func(k, v []byte) lib.ErrorI {
		out = append(out, KV{hex.EncodeToString(k), hex.EncodeToString(v)})
		return nil
	})
	realCode("state scan (FSM.IterateAndExecute)", err)
	sort.Slice(out, func(i, j int) bool { return out[i].K < out[j].K })
	return out
}

// MempoolStateDump scans the mempool FSM's working view: after Propose() this is the state the
// proposer computed the proposal's header from (the oversize remainder is not part of it).
func (nd *Node) MempoolStateDump() []KV {
	nd.enter()
	var out []KV
	err := nd.C.Mempool.FSM.IterateAndExecute(nil, func(k, v []byte) lib.ErrorI {
		out = append(out, KV{hex.EncodeToString(k), hex.EncodeToString(v)})
		return nil
	})
	realCode("mempool state scan (FSM.IterateAndExecute)", err)
	sort.Slice(out, func(i, j int) bool { return out[i].K < out[j].K })
	return out
}

// DiffDumps lists the keys whose values differ between two dumps (missing = "-").
func DiffDumps(a, b []KV) (diff []string) {
	ma, mb := map[string]string{}, map[string]string{}
	for _, kv := range a {
		ma[kv.K] = kv.V
	}
	for _, kv := range b {
		mb[kv.K] = kv.V
	}
	for k, v := range ma {
		w, ok := mb[k]
		if !ok {
			w = "-"
		}
		if v != w {
			diff = append(diff, fmt.Sprintf("%s: %s | %s", k, v, w))
		}
	}
	for k, w := range mb {
		if _, ok := ma[k]; !ok {
			diff = append(diff, fmt.Sprintf("%s: - | %s", k, w))
		}
	}
	sort.Strings(diff)
	return
}

// StateDigest is a short hash of StateDump plus the number of entries.
func (nd *Node) StateDigest() string {
	d := nd.StateDump()
	h := sha256.New()
	for _, kv := range d {
		fmt.Fprintf(h, "%s=%s\n", kv.K, kv.V)
	}
	return fmt.Sprintf("%d:%s", len(d), hex.EncodeToString(h.Sum(nil))[:24])
}

// WorkingRoot computes the state root of the working view (store.Root()). NOTE: Root() builds and
// keeps the store's tree object for the pending writes, so this is not a pure observation; do not
// call it between operations whose equality you are testing.
func (nd *Node) WorkingRoot() string {
	nd.enter()
	r, err := nd.C.FSM.Store().(lib.StoreI).Root()
	if err != nil {
		return "err:" + ErrCode(err)
	}
	return hex.EncodeToString(r)
}

// ---- certificates ----------------------------------------------------------------------------

// Committee is the validator set a node derives for the next block (root height = FSM height).
func (nd *Node) Committee() lib.ValidatorSet {
	nd.enter()
	vs, err := nd.C.LoadCommittee(ChainId, nd.C.FSM.Height())
	realCode("LoadCommittee at the node height", err)
	return vs
}

// Certify builds a quorum certificate for (block, results) at the given phase, signed by the chosen
// validators (indices into ValKeys) exactly as the BFT does: every signer signs QC.SignBytes() of
// {header, blockHash, resultsHash, proposerKey} with its BLS key; signatures are added to a copy of
// the committee's multi-key at the validator's committee index and aggregated.
// vs is the committee of the certificate's root height (take it from a node that holds the prefix).
func (n *Network) Certify(vs lib.ValidatorSet, block []byte, results *lib.CertificateResult, signers []int, phase lib.Phase, rcBuildHeight uint64, proposer crypto.PrivateKeyI, round ...uint64) *lib.QuorumCertificate {
	blk := new(lib.Block)
	blockHash, err := blk.BytesToBlockHash(block)
	realCode("block hash of the proposed block bytes", err)
	hdrOnly := new(lib.Block)
	if e := lib.Unmarshal(block, hdrOnly); e != nil {
		realCode("unmarshal of the proposed block bytes", e)
	}
	view := &lib.View{NetworkId: NetworkId, ChainId: ChainId, Height: hdrOnly.BlockHeader.Height, RootHeight: rcBuildHeight, Phase: phase}
	if len(round) != 0 {
		view.Round = round[0]
	}
	qc := &lib.QuorumCertificate{
		Header: view, Results: results, ResultsHash: results.Hash(), Block: block, BlockHash: blockHash,
		ProposerKey: proposer.PublicKey().Bytes(),
	}
	qc.Signature = n.Aggregate(vs, qc.SignBytes(), signers)
	return qc
}

// signerKey maps a signer index to a key: 0..len(ValKeys)-1 are the genesis validators, the indices
// after them are the funded accounts (AcctKeys), whose BLS ones can become validators by staking.
func (n *Network) signerKey(i int) crypto.PrivateKeyI {
	if i < len(n.ValKeys) {
		return n.ValKeys[i]
	}
	return n.AcctKeys[i-len(n.ValKeys)]
}

// Aggregate signs msg with the chosen signers (see signerKey) and aggregates on the committee's
// multi-key. A signer that is not (or no longer) a member of the committee cannot sign and is skipped.
func (n *Network) Aggregate(vs lib.ValidatorSet, msg []byte, signers []int) *lib.AggregateSignature {
	mk := vs.MultiKey.Copy()
	for _, i := range signers {
		k := n.signerKey(i)
		_, idx, err := vs.GetValidatorAndIdx(k.PublicKey().Bytes())
		if err != nil {
			continue
		}
		if e := mk.AddSigner(k.Sign(msg), idx); e != nil {
			realCode("multi-key AddSigner", e)
		}
	}
	sig, e := mk.AggregateSignatures()
	realCode("multi-key AggregateSignatures", e)
	return &lib.AggregateSignature{Signature: sig, Bitmap: mk.Bitmap()}
}

// SignedPower is the voting power of the chosen signers inside the committee, with the committee's
// +2/3 threshold: a driver that means to build a full certificate checks signed >= threshold.
func (n *Network) SignedPower(vs lib.ValidatorSet, signers []int) (signed, threshold uint64) {
	seen := map[int]bool{}
	for _, i := range signers {
		v, idx, err := vs.GetValidatorAndIdx(n.signerKey(i).PublicKey().Bytes())
		if err != nil || seen[idx] {
			continue
		}
		seen[idx] = true
		signed += v.VotingPower
	}
	return signed, vs.MinimumMaj23
}

// AllSigners is every key the network holds that can be a committee member: the genesis validators
// and every BLS account (which a transaction may have staked as a new validator).
func (n *Network) AllSigners() []int {
	var out []int
	for i := range n.ValKeys {
		out = append(out, i)
	}
	for j, k := range n.AcctKeys {
		if _, ok := k.(*crypto.BLS12381PrivateKey); ok {
			out = append(out, len(n.ValKeys)+j)
		}
	}
	return out
}

// ---- helpers ---------------------------------------------------------------------------------

// ErrCode canonicalises an error to "<module>/<code>".
func ErrCode(err lib.ErrorI) string {
	if err == nil {
		return "ok"
	}
	return fmt.Sprintf("%s/%d", err.Module(), err.Code())
}

func recoverTo(err *lib.ErrorI) {
	if r := recover(); r != nil {
		*err = lib.NewError(lib.NoCode, "verif-panic", fmt.Sprint(r))
	}
}

// TxBytes marshals a transaction.
func TxBytes(tx lib.TransactionI, err lib.ErrorI) []byte {
	if err != nil {
		panic(err)
	}
	bz, e := lib.Marshal(tx)
	if e != nil {
		panic(e)
	}
	return bz
}
