// Package c03 drives property C03 (deterministic replicated execution) on real controllers:
// one block is executed by independent nodes through every execution path the property names, under
// several GOMAXPROCS values and with write batches below and above the parallel tree-commit
// threshold, and every resulting header / certificate result / full state scan is compared.
//
// Op lines (one per operation, fed to lean/Driver/C03):
//
//	def <h> <pre> <blk> <post> <obs>  the proposer's answer: applyBlock(<pre>, <blk>) = (<post>, <obs>), block height <h>
//	<node> new <genesis>              a node holding only the genesis (state digest <genesis>)
//	<node> produce <blk|-> gmp=<k>    leader path on the mempool copy (ProduceProposal)
//	<node> validate <blk> gmp=<k>     replica path (ValidateProposal + BFT bookkeeping)
//	<node> commit <blk> gmp=<k>       HandlePeerBlock(syncing=false): cached result on hash match, else replay
//	<node> sync <blk> gmp=<k>         HandlePeerBlock(syncing=true)
//	<node> interrupt                  BFT round interrupt (drop cached result, reset FSM)
//	<node> restart                    close + purge process caches + reopen
//
// <pre>/<post> are digests of the full state scan, <blk> the block hash, <obs> a digest of
// (header bytes, certificate results bytes). States and blocks are opaque names for the model.
package c03

import (
	"bytes"
	"encoding/hex"
	"fmt"
	"math/rand"
	"runtime"
	"strings"

	"github.com/canopy-network/canopy/fsm"
	"github.com/canopy-network/canopy/lib"
	"github.com/canopy-network/canopy/lib/crypto"
	"verifharness/drv"
	"verifharness/execdrv"
	"verifharness/node"
)

// The stale-cached-result histories are permanent corpus scenarios (repaired in /repo by
// "the cached proposal result is dropped whenever the FSM working state is reset"): both must end
// with the block applied (commit by replay).
const (
	failOnStaleCacheA = true
	failOnStaleCacheB = true
)

type sizes struct{ sends, failing, conflicts int }

// Run is the driver entry point.
func Run(o *drv.Out) {
	execdrv.Property = "C03"
	defer runtime.GOMAXPROCS(runtime.GOMAXPROCS(0))
	nCases, nHeights := 6, 5
	bigSends := []int{300, 40, 0, 1, 700}
	if o.Tier == "thorough" || o.Search {
		nCases, nHeights = 14, 8
		bigSends = []int{300, 40, 0, 1, 700, 1500, 3, 16, 120}
	}
	execdrv.Guard(o, func() { corpusOversize(o) }) // corpus first
	execdrv.Guard(o, func() { corpusFullBlock(o) })
	execdrv.Guard(o, func() { corpusLastCertVersion(o) })
	execdrv.Guard(o, func() { corpusParamCache(o) })
	execdrv.Guard(o, func() { corpusSlashReexecuted(o) })
	execdrv.Guard(o, func() { corpusCheckpointHeight(o) })
	execdrv.Guard(o, func() { corpusRestartPatterns(o) })
	execdrv.Guard(o, func() { corpusReProposal(o) })
	execdrv.Guard(o, func() { corpusSignatureCache(o) })
	execdrv.Guard(o, func() { corpusOrderMemoWindow(o) })
	execdrv.Guard(o, func() { corpusPostCommitCopy(o) })
	for ci := 0; ci < nCases; ci++ {
		execdrv.Guard(o, func() { runCase(o, ci, nHeights, bigSends) })
	}
	o.Extra["c03_paths"] = []string{"propose", "validate", "commit-cached", "commit-replay", "sync", "restart+replay", "validate+restart+replay", "speculation(validate other, interrupt / produce own)+validate+commit"}
	o.Extra["c03_gomaxprocs"] = []int{1, 2, 3, 8, 16}
	o.Extra["c03_shapes"] = "interleaved: every node executes height h before any executes h+1 (process block cache purged at each node switch => cold); sequential: the proposer builds the whole chain, then each node replays it in a row (block cache warm)"
}

// corpusOversize is the permanent witness of the (repaired) oversize-remainder defect: a proposer
// whose mempool holds more valid transactions than fit one block. Height 1 is a small block; at
// height 2 the mempool holds first 200 sends, then exactly capacity+1 sends. The proposal must be
// accepted by the proposer itself and by replicas, and the state the proposer computed the header
// from must equal the replica's working state after validation, key for key.
func corpusOversize(o *drv.Out) {
	o.Case("corpus-oversize-remainder")
	rng := rand.New(rand.NewSource(42))
	net := node.NewNetwork(7, 4, nil, 20, node.Options{BlockSize: lib.MaxBlockHeaderSize + 24_000})
	defer net.Close()
	c := execdrv.NewChain(o, net, rng, []int{16, 1, 4})
	P, V, R := c.NewNode("P", 0), c.NewNode("V", 1), c.NewNode("R", -1)
	sends := func(n int, h uint64, base int) (out []node.MixTx) {
		for i := 0; i < n; i++ {
			out = append(out, node.MixTx{Kind: "send", Bytes: net.SendTx(net.AcctKeys[i%10], net.FreshAddr(base+i), 1000, 10000, h, ""), Expect: true})
		}
		return
	}
	round := func(txs []node.MixTx, label string) (ntx int, ok bool) {
		h := P.Height()
		pre := P.StateDigest()
		p, okp := c.Propose(P, txs, "produce")
		if !okp {
			o.Fail("C03:proposer-failed", "ProduceProposal failed", map[string]any{"case": o.CurCase(), "label": label})
			return 0, false
		}
		remainder := P.MempoolCount() - p.NTx
		proposerState := P.MempoolStateDump()
		c.Hold = true
		okP := c.Validate(P, p)
		var diff []string
		if _, err := V.ValidateRaw(p.PropQC, p.RC); err != nil || !okP {
			diff = node.DiffDumps(proposerState, V.StateDump())
			V.RoundInterrupt()
		} else {
			diff = node.DiffDumps(proposerState, V.StateDump())
		}
		if !okP || len(diff) != 0 {
			c.Release()
			o.Fail("C03:path-divergence:propose-validate:oversize-remainder",
				fmt.Sprintf("%s: height %d, mempool holds %d valid sends beyond the %d that fit; proposer accepts own block=%v; keys differing between the proposer's computed state and a replica's: %d", label, h, remainder, p.NTx, okP, len(diff)),
				map[string]any{"case": o.CurCase(), "label": label, "height": h, "included": p.NTx, "remainder": remainder, "block": hex.EncodeToString(p.Block), "differing_keys(proposer|replica)": diff})
			return p.NTx, false
		}
		resP := c.Commit(P, p, false)
		post := P.StateDigest()
		o.Op(fmt.Sprintf("def %d %s %s %s %s", h, pre, p.ID, post, p.Obs), "def")
		c.Release()
		st := &step{h: h, p: p, pre: pre, post: post, want: fmt.Sprintf("ok state=%s obs=%s", post, p.Obs)}
		check(c, st, "propose+validate+commit-cached", resP)
		c.Validate(V, p)
		check(c, st, "validate+commit-cached", c.Commit(V, p, false))
		check(c, st, "commit-replay", c.Commit(R, p, false))
		o.Count(fmt.Sprintf("corpus-oversize:%s:remainder=%d", label, remainder))
		return p.NTx, true
	}
	if _, ok := round(sends(1, 1, 900000), "h1-small"); !ok {
		return
	}
	capTx, ok := round(sends(200, 2, 0), "h2-200-sends")
	if !ok {
		return
	}
	// drop the remainder (a restart loses the mempool), then exactly capacity+1
	if !c.Restart(P) {
		return
	}
	if _, ok = round(sends(capTx+1, 3, 1000), "h3-capacity+1"); !ok {
		return
	}
	if !c.Restart(P) {
		return
	}
	round(sends(capTx, 4, 2000), "h4-capacity")
	o.Sample(fmt.Sprintf("corpus-oversize-remainder: capacity %d sends; 200 and %d sends validate on proposer and replica, no differing keys", capTx, capTx+1))
}

// corpusFullBlock: a block that is FULL of small transactions (several hundred sends, mempool
// overflowing). The proposer fills a block up to blockSize - MaxBlockHeaderSize bytes of RAW
// transaction bytes; serialized, every transaction costs a few more bytes of framing, so the
// serialized block may exceed blockSize while honouring the limit the protocol defines (raw
// transaction bytes). Every path that runs QuorumCertificate.Check with the state-derived limit
// (HandlePeerBlock outside sync) must still accept it.
func corpusFullBlock(o *drv.Out) {
	o.Case("corpus-full-block-of-small-txs")
	rng := rand.New(rand.NewSource(46))
	const room = 150_000
	net := node.NewNetwork(8, 4, nil, 24, node.Options{BlockSize: lib.MaxBlockHeaderSize + room})
	defer net.Close()
	c := execdrv.NewChain(o, net, rng, []int{16, 2})
	P, V, R, S := c.NewNode("P", 0), c.NewNode("V", 1), c.NewNode("R", -1), c.NewNode("S", -1)
	var senders []int
	for i, k := range net.AcctKeys {
		if _, isBLS := k.(*crypto.BLS12381PrivateKey); !isBLS {
			senders = append(senders, i)
		}
	}
	for hi, n := range []int{1, 900} {
		h := P.Height()
		var txs []node.MixTx
		for i := 0; i < n; i++ {
			txs = append(txs, node.MixTx{Kind: "send", Bytes: net.SendTx(net.AcctKeys[senders[i%len(senders)]], net.FreshAddr(hi*10000+i), 1000, 10000, h, ""), Expect: true})
		}
		pre := P.StateDigest()
		p, ok := c.Propose(P, txs, "produce")
		if !ok {
			o.Fail("C03:proposer-failed", "ProduceProposal failed", map[string]any{"case": o.CurCase()})
			return
		}
		blk := new(lib.Block)
		_ = lib.Unmarshal(p.Block, blk)
		raw := 0
		for _, tx := range blk.Transactions {
			raw += len(tx)
		}
		c.Hold = true
		okP := c.Validate(P, p)
		resP := ""
		if okP {
			resP = c.Commit(P, p, false)
		}
		post := P.StateDigest()
		o.Op(fmt.Sprintf("def %d %s %s %s %s", h, pre, p.ID, post, p.Obs), "def")
		c.Release()
		st := &step{h: h, p: p, pre: pre, post: post, want: fmt.Sprintf("ok state=%s obs=%s", post, p.Obs)}
		got := map[string]string{"propose+validate+commit-cached": resP}
		if okP {
			c.Validate(V, p)
			got["validate+commit-cached"] = c.Commit(V, p, false)
			got["commit-replay"] = c.Commit(R, p, false)
			got["sync"] = c.Commit(S, p, true)
		}
		for _, path := range []string{"propose+validate+commit-cached", "validate+commit-cached", "commit-replay", "sync"} {
			if g, ran := got[path]; !ran || g != st.want {
				o.Fail("C03:path-divergence:propose-"+path+":full-block-of-small-txs",
					fmt.Sprintf("height %d: a full block of %d small transactions (%d raw transaction bytes <= limit %d; serialized block %d bytes, blockSize %d) proposed from an overflowing mempool: path %q gives %q, proposer's answer %q",
						h, p.NTx, raw, room, len(p.Block), lib.MaxBlockHeaderSize+room, path, g, st.want),
					map[string]any{"case": o.CurCase(), "height": h, "ntx": p.NTx, "raw_tx_bytes": raw, "serialized_block_bytes": len(p.Block), "block_size_param": lib.MaxBlockHeaderSize + room, "block": hex.EncodeToString(p.Block)})
				return
			}
		}
		o.Count(fmt.Sprintf("corpus-full-block:%d-submitted:included=%d:serialized-minus-blocksize=%d", n, p.NTx, len(p.Block)-int(lib.MaxBlockHeaderSize+room)))
		if P.MempoolCount() > 0 && !c.Restart(P) {
			return
		}
	}
}

// corpusLastCertVersion: many valid versions of one commit certificate exist (any +2/3 signer set).
// Block h's header fixes the version of the height h-1 certificate that BeginBlock(h) consumes
// (non-signer counters, reward reduction, window-end slashing); a node that stored ANOTHER version
// when it committed h-1 must still compute the same block h on every path, the sync path included.
// Four equal validators, MaxNonSign = 1 so that the window end at height 5 slashes by the embedded
// versions: the proposer always commits with signers {0,1,2}, the syncing node with {1,2,3}, the
// replaying node with all four, the validating replica with {0,2,3}.
func corpusLastCertVersion(o *drv.Out) {
	o.Case("corpus-last-certificate-version")
	rng := rand.New(rand.NewSource(49))
	net := node.NewNetwork(9, 4, nil, 12, node.Options{MutateGenesis: func(g *fsm.GenesisState) { g.Params.Validator.MaxNonSign = 1 }})
	defer net.Close()
	c := execdrv.NewChain(o, net, rng, []int{16, 2, 5})
	P, V, R, S := c.NewNode("P", 0), c.NewNode("V", 1), c.NewNode("R", -1), c.NewNode("S", -1)
	for hi := 0; hi < 6; hi++ {
		h := P.Height()
		pre := P.StateDigest()
		p, ok := c.Propose(P, c.Mix.Mix(node.MixOpts{Height: h, Sends: 3}), "produce")
		if !ok {
			o.Fail("C03:proposer-failed", "ProduceProposal failed", map[string]any{"case": o.CurCase()})
			return
		}
		st := &step{h: h, hi: hi, pre: pre, prevCert: c.LastCert[P]}
		pP := c.Version(p, c.Quorum(p.VS, []int{3, 2, 1}))
		c.Hold = true
		okP := c.Validate(P, pP)
		resP := ""
		if okP {
			resP = c.Commit(P, pP, false)
		}
		st.p, st.post = pP, P.StateDigest()
		o.Op(fmt.Sprintf("def %d %s %s %s %s", h, pre, p.ID, st.post, p.Obs), "def")
		c.Release()
		st.want = fmt.Sprintf("ok state=%s obs=%s", st.post, p.Obs)
		check(c, st, "propose+validate+commit-cached", resP)
		if !okP || resP != st.want {
			return
		}
		storedS := c.LastCert[S]
		if !c.Validate(V, p) {
			o.Fail("C03:path-divergence:propose-validate:last-certificate-version", fmt.Sprintf("height %d: a replica that stored another version of the last certificate rejects the honest proposal", h), replayInfo(o, c, h, p, "V"))
			return
		}
		check(c, st, "validate+commit-cached", c.Commit(V, c.Version(p, c.Quorum(p.VS, []int{1, 0, 2})), false))
		check(c, st, "commit-replay", c.Commit(R, p, false))
		gotS := c.Commit(S, c.Version(p, c.Quorum(p.VS, []int{0, 1, 2})), true)
		o.Count("compared")
		if gotS != st.want {
			o.Fail("C03:sync-path-diverges:last-certificate-version",
				fmt.Sprintf("height %d: the syncing node stored version %s of the height %d commit certificate, the block's header embeds version %s (same payload, another +2/3 signer set); replaying the block on the sync path gives %q, the proposer's answer is %q", h, storedS, h-1, st.prevCert, gotS, st.want),
				replayInfo(o, c, h, p, "sync"))
			return
		}
		if storedS != st.prevCert && hi > 0 {
			o.Count("corpus-last-cert:sync-node-held-another-version")
		}
	}
	if !execdrv.SameDump(P.StateDump(), S.StateDump()) {
		o.Fail("C03:sync-path-diverges:last-certificate-version", "full state scans of the proposer and the syncing node differ", map[string]any{"case": o.CurCase()})
	}
	o.Sample("corpus-last-certificate-version: 6 heights, proposer / replica / replay / sync nodes each store another +2/3 version of every commit certificate; all paths agree")
}

// corpusParamCache: family "failed-param-change-then-dependent-tx" (harness/execdrv/govern.go), C03
// view: the proposer builds from a mempool that holds a governance transaction which edits the cached
// parameters and then fails (or succeeds inside the dropped oversize remainder), followed by a
// transaction / EndBlock that reads the parameter. The failed transaction is not in the block, so
// every other path executes the block with the stored parameters and must get the proposer's header.
func corpusParamCache(o *drv.Out) {
	rounds := 1
	if o.Tier == "thorough" || o.Search {
		rounds = 3
	}
	for r := 0; r < rounds; r++ {
		for vi, v := range execdrv.ParamVariants {
			if r == 0 && v.Space == "fee" {
				continue // kept for the thorough tier: nothing reads the fee space after the transactions
			}
			paramCacheCase(o, v, 2+(vi+r)%3, int64(100*r+vi))
		}
	}
}

func paramCacheCase(o *drv.Out, v execdrv.ParamVariant, val int, seed int64) {
	o.Case(fmt.Sprintf("failed-param-change-then-dependent-tx:%s:val%d:%d", v.Name, val, seed))
	rng := rand.New(rand.NewSource(60 + seed))
	net := execdrv.ParamNetwork(40+seed, v.Remainder)
	defer net.Close()
	c := execdrv.NewChain(o, net, rng, []int{16, 2, 5})
	P, V, R, S := c.NewNode("P", 0), c.NewNode("V", 1), c.NewNode("R", -1), c.NewNode("S", -1)
	for hi := 0; hi < 2; hi++ {
		h := P.Height()
		var mp []node.MixTx
		var gov []byte
		if hi == 0 {
			mp = []node.MixTx{{Kind: "send", Bytes: net.SendTx(net.AcctKeys[0], net.FreshAddr(7), 1000, 10000, h, "")}}
		} else {
			var txs [][]byte
			txs, gov = c.ParamMempool(v, h, val, 1000)
			for _, tx := range txs {
				mp = append(mp, node.MixTx{Kind: "param-family", Bytes: tx})
			}
		}
		pre := P.StateDigest()
		p, ok := c.Propose(P, mp, "produce")
		if !ok {
			o.Fail("C03:proposer-failed", "ProduceProposal failed", map[string]any{"case": o.CurCase()})
			return
		}
		fail := func(path, got, want string) {
			o.Fail("C03:path-diverges:failed-param-change",
				fmt.Sprintf("height %d: the proposer built the block from a mempool holding %s, followed by %s on validator %d; path %q gives %q, the proposer's header/results/state are %q", h, v.Describe(), v.Dependent, val, path, got, want),
				map[string]any{"case": o.CurCase(), "height": h, "governance_tx": hex.EncodeToString(gov), "block": hex.EncodeToString(p.Block), "path": path})
		}
		c.Hold = true
		okP := c.Validate(P, p)
		resP := ""
		if okP {
			resP = c.Commit(P, p, false)
		}
		post := P.StateDigest()
		o.Op(fmt.Sprintf("def %d %s %s %s %s", h, pre, p.ID, post, p.Obs), "def")
		c.Release()
		want := fmt.Sprintf("ok state=%s obs=%s", post, p.Obs)
		if !okP || resP != want {
			fail("propose+validate+commit-cached", fmt.Sprintf("validate ok=%v commit %q", okP, resP), want)
			return
		}
		if !c.Validate(V, p) {
			fail("validate", "rejected", want)
			return
		}
		for _, x := range []struct {
			path string
			got  string
		}{{"validate+commit-cached", c.Commit(V, p, false)}, {"commit-replay", c.Commit(R, p, false)}, {"sync", c.Commit(S, p, true)}} {
			o.Count("compared")
			if x.got != want {
				fail(x.path, x.got, want)
				return
			}
		}
	}
	o.Count("param-variant:" + v.Name)
	o.Nontrivial(o.CurCase())
}

// corpusSlashReexecuted: scenario "slashing-block-re-executed-after-reset". Protocol version 2
// (per-block slash tracker, 10 % double-sign slash, 15 % per-committee cap). The block at height 2
// carries a certificateResults transaction of chain 2 naming validator 0 a double signer, so executing
// it slashes validator 0 by 10 % for committee 2. Nodes that execute the block TWICE on the same state
// machine with a Reset() in between must get what a node that executes it once gets:
//
//	P  proposer whose mempool FSM rebuilt the proposal twice (CheckMempool, Mempool.FSM.Reset, CheckMempool)
//	X  validate, round interrupt, validate again, commit with the cached result
//	Y  validate, round interrupt, commit by replay
//	R  fresh: commit by replay          S  fresh: sync
//
// If the tracker survives Reset() the second execution sees 10 % already used, slashes only the 5 %
// left under the cap and ejects the validator from the committee: another header on that path.
func corpusSlashReexecuted(o *drv.Out) {
	o.Case("slashing-block-re-executed-after-reset")
	rng := rand.New(rand.NewSource(51))
	const nested = node.ChainId + 1
	net := node.NewNetwork(22, 4, nil, 12, node.Options{MutateGenesis: func(g *fsm.GenesisState) {
		g.Params.Consensus.ProtocolVersion = fsm.NewProtocolVersion(0, 2)
		for _, v := range g.Validators {
			v.Committees = []uint64{node.ChainId, nested}
		}
		g.Pools = append(g.Pools, &fsm.Pool{Id: nested, Amount: 1})
	}})
	defer net.Close()
	c := execdrv.NewChain(o, net, rng, []int{16, 2, 5})
	P, X, Y, R, S := c.NewNode("P", 0), c.NewNode("X", 1), c.NewNode("Y", 2), c.NewNode("R", -1), c.NewNode("S", -1)
	stake0 := func(nd *node.Node) string {
		v, err := nd.C.FSM.GetValidator(crypto.NewAddress(node.Addr(net.ValKeys[0])))
		if err != nil || v == nil {
			return "absent"
		}
		return fmt.Sprintf("stake %d committees %v", v.StakedAmount, v.Committees)
	}
	for hi := 0; hi < 2; hi++ {
		h := P.Height()
		txs := []node.MixTx{{Kind: "send", Bytes: net.SendTx(net.AcctKeys[0], net.FreshAddr(int(h)+50), 1000, 10000, h, "")}}
		if hi == 1 {
			ev := &lib.SlashRecipients{DoubleSigners: []*lib.DoubleSigner{{Id: net.ValKeys[0].PublicKey().Bytes(), Heights: []uint64{1}}}}
			rw := &lib.RewardRecipients{PaymentPercents: []*lib.PaymentPercents{{Address: net.FreshAddr(1), Percent: 100, ChainId: nested}}}
			txs = append(txs, node.MixTx{Kind: "certresults-double-signer", Bytes: net.CertificateResultsTx(P, nested, 1, h-1, 0, []int{0, 1, 2, 3},
				&lib.CertificateResult{RewardRecipients: rw, SlashRecipients: ev}, h)})
		}
		pre := P.StateDigest()
		for _, tx := range txs {
			if err := P.Submit(tx.Bytes); err != nil {
				panic(err)
			}
		}
		// the proposer's mempool state machine builds the proposal, is reset, and builds it again
		_ = P.CheckMempool()
		_ = P.CheckMempool()
		p, ok := c.Propose(P, nil, "produce")
		if !ok || p.NTx != len(txs) {
			o.Fail("C03:scenario-expectation-differs:slash-scenario-not-reached", fmt.Sprintf("height %d: the proposal does not hold the %d transactions", h, len(txs)), map[string]any{"case": o.CurCase()})
			return
		}
		before := stake0(P)
		fail := func(path, got, want string) {
			o.Fail("C03:path-diverges:slash-tracker-survives-reset",
				fmt.Sprintf("height %d: a block that slashes validator 0 (double signer, committee 2) executed on path %q gives %q; a node executing it once gives %q (validator 0 before the block: %s)", h, path, got, want, before),
				map[string]any{"case": o.CurCase(), "height": h, "path": path, "block": hex.EncodeToString(p.Block)})
		}
		// reference: the fresh replay node
		c.Hold = true
		gotR := c.Commit(R, p, false)
		post := R.StateDigest()
		o.Op(fmt.Sprintf("def %d %s %s %s %s", h, pre, p.ID, post, p.Obs), "def")
		c.Release()
		want := fmt.Sprintf("ok state=%s obs=%s", post, p.Obs)
		if gotR != want {
			fail("propose(mempool rebuilt twice) -> fresh commit-replay", gotR, want)
			return
		}
		wantStake := stake0(R)
		run := func(name string, got string, nd *node.Node) bool {
			o.Count("compared")
			if got != want || stake0(nd) != wantStake {
				fail(name, got+" / validator 0: "+stake0(nd), want+" / validator 0: "+wantStake)
				return false
			}
			return true
		}
		okP := c.Validate(P, p)
		if !okP || !run("proposer validate+commit-cached", c.Commit(P, p, false), P) {
			if !okP {
				fail("proposer validates its own (twice rebuilt) proposal", "rejected", want)
			}
			return
		}
		c.Validate(X, p)
		c.Interrupt(X)
		if !c.Validate(X, p) {
			fail("validate, round interrupt, validate again", "rejected", want)
			return
		}
		if !run("validate, interrupt, validate, commit-cached", c.Commit(X, p, false), X) {
			return
		}
		c.Validate(Y, p)
		c.Interrupt(Y)
		if !run("validate, round interrupt, commit-replay", c.Commit(Y, p, false), Y) {
			return
		}
		if !run("sync", c.Commit(S, p, true), S) {
			return
		}
		if hi == 1 {
			o.Count("slash-reexecuted:validator0:" + strings.ReplaceAll(before, " ", "_") + "->" + strings.ReplaceAll(wantStake, " ", "_"))
			if before == wantStake {
				o.Fail("C03:scenario-expectation-differs:slash-scenario-not-reached", "validator 0 was not slashed by the block", map[string]any{"case": o.CurCase()})
			}
		}
	}
	o.Nontrivial(o.CurCase())
	o.Sample("slashing-block-re-executed-after-reset: the slashing block executed twice with a Reset in between (proposer mempool, validate/interrupt/validate, validate/interrupt/replay) == executed once")
}

// corpusCheckpointHeight: heights 1..101 (201 in the thorough tier) on four paths. Every 100th height
// the certificate results carry a checkpoint (height, block hash) that the leader must take from the
// final header hash of its two-step proposal build (see harness/c11 corpusCheckpointHeight); 99 and
// 101 are the controls.
func corpusCheckpointHeight(o *drv.Out) {
	o.Case("checkpoint-height")
	rng := rand.New(rand.NewSource(53))
	net := node.NewNetwork(14, 4, nil, 8)
	defer net.Close()
	c := execdrv.NewChain(o, net, rng, []int{16, 3})
	P, V, R, S := c.NewNode("P", 0), c.NewNode("V", 1), c.NewNode("R", -1), c.NewNode("S", -1)
	last := uint64(101)
	if o.Tier == "thorough" || o.Search {
		last = 201
	}
	for P.Height() <= last {
		h := P.Height()
		var txs []node.MixTx
		if h%10 == 0 || h%100 == 99 || h%100 == 1 {
			txs = append(txs, node.MixTx{Kind: "send", Bytes: net.SendTx(net.AcctKeys[int(h)%8], net.FreshAddr(int(h)), 1000, 10000, h, "")})
		}
		pre := P.StateDigest()
		p, ok := c.Propose(P, txs, "produce")
		if !ok {
			o.Fail("C03:proposer-failed", "ProduceProposal failed", map[string]any{"case": o.CurCase(), "height": h})
			return
		}
		suffix := ""
		if h%100 == 0 {
			suffix = ":checkpoint-height"
		}
		fail := func(path, got, want string) {
			o.Fail("C03:path-divergence:propose-"+path+suffix, fmt.Sprintf("height %d: path %q gives %q, the proposer's header/results/state are %q", h, path, got, want), replayInfo(o, c, h, p, path))
		}
		c.Hold = true
		okP := c.Validate(P, p)
		resP := ""
		if okP {
			resP = c.Commit(P, p, false)
		}
		post := P.StateDigest()
		o.Op(fmt.Sprintf("def %d %s %s %s %s", h, pre, p.ID, post, p.Obs), "def")
		c.Release()
		want := fmt.Sprintf("ok state=%s obs=%s", post, p.Obs)
		if !okP || resP != want {
			fail("validate", fmt.Sprintf("the proposer validates its own proposal: %v, commit %q", okP, resP), want)
			return
		}
		if !c.Validate(V, p) {
			fail("validate", "rejected", want)
			return
		}
		for _, x := range []struct{ path, got string }{{"validate+commit-cached", c.Commit(V, p, false)}, {"commit-replay", c.Commit(R, p, false)}, {"sync", c.Commit(S, p, true)}} {
			o.Count("compared")
			if x.got != want {
				fail(x.path, x.got, want)
				return
			}
		}
		if h%100 == 0 {
			o.Count(fmt.Sprintf("checkpoint-height:%d:all-paths-agree", h))
		}
	}
	o.Nontrivial(o.CurCase())
}

// corpusRestartPatterns: restarts against validator-set changes. Every block changes a validator's
// stake (edit-stake of a rotating validator), so the validator root, the committee BeginBlock reads
// for the previous height and the compounding rewards all depend on historical reads of the height
// just committed. Nodes: R never restarts; T1 restarts after every commit, T2 after every 2nd, T3 after
// every 3rd (so: "restart, exactly one block, restart", and restarts one and two blocks after the
// change). A restarted node must come back up, rebuild its mempool proposal, apply the next committed
// block and compute the proposer's header.
func corpusRestartPatterns(o *drv.Out) {
	o.Case("restart-after-validator-change")
	rng := rand.New(rand.NewSource(54))
	net := node.NewNetwork(15, 5, nil, 8)
	defer net.Close()
	c := execdrv.NewChain(o, net, rng, []int{16, 2})
	P, R := c.NewNode("P", 0), c.NewNode("R", -1)
	ts := []*node.Node{c.NewNode("T1", -1), c.NewNode("T2", -1), c.NewNode("T3", -1)}
	nH := 7
	if o.Tier == "thorough" || o.Search {
		nH = 13
	}
	stakes := map[int]uint64{}
	for hi := 0; hi < nH; hi++ {
		h := P.Height()
		v := 1 + hi%4
		if stakes[v] == 0 {
			stakes[v] = 1_000_000_000
		}
		stakes[v] += 1_000_000 * uint64(hi+1)
		vk := net.ValKeys[v]
		txs := []node.MixTx{
			{Kind: "editstake", Bytes: net.EditStakeTx(vk, node.Addr(vk), node.Addr(vk), stakes[v], 10000, h)},
			{Kind: "send", Bytes: net.SendTx(net.AcctKeys[hi%6], net.FreshAddr(hi), 1000, 10000, h, "")},
		}
		pre := P.StateDigest()
		p, ok := c.Propose(P, txs, "produce")
		if !ok || p.NTx != 2 {
			o.Fail("C03:scenario-expectation-differs:restart-scenario-not-reached", fmt.Sprintf("height %d: the proposal does not hold the edit-stake and the send", h), map[string]any{"case": o.CurCase()})
			return
		}
		c.Hold = true
		okP := c.Validate(P, p)
		resP := ""
		if okP {
			resP = c.Commit(P, p, false)
		}
		st := &step{h: h, hi: hi, p: p, pre: pre, post: P.StateDigest()}
		o.Op(fmt.Sprintf("def %d %s %s %s %s", h, pre, p.ID, st.post, p.Obs), "def")
		c.Release()
		st.want = fmt.Sprintf("ok state=%s obs=%s", st.post, p.Obs)
		check(c, st, "propose+validate+commit-cached", resP)
		if !okP || resP != st.want {
			return
		}
		check(c, st, "commit-replay(never restarted)", c.Commit(R, p, false))
		for i, nd := range ts {
			if c.Broken[nd] {
				continue
			}
			k := i + 1
			got := c.Commit(nd, p, false)
			o.Count("compared")
			if got != st.want {
				o.Fail(fmt.Sprintf("C03:path-diverges:restart-every-%d", k),
					fmt.Sprintf("height %d (validator %d's stake changed in this block and in the previous ones): node %s, restarted after every %d commit(s) (%d reopens so far), applies the committed block as %q; the proposer and a never-restarted node have %q", h, v, c.Names[nd], k, nd.Opens-1, got, st.want),
					replayInfo(o, c, h, p, c.Names[nd]))
				c.Broken[nd] = true
				continue
			}
			if (hi+1)%k == 0 {
				c.Restart(nd)
			}
		}
	}
	for _, nd := range ts {
		if !c.Broken[nd] && !execdrv.SameDump(P.StateDump(), nd.StateDump()) {
			o.Fail("C03:path-diverges:restart-state", "full state scans of the proposer and a restarting node differ", map[string]any{"case": o.CurCase(), "node": c.Names[nd]})
		}
	}
	o.Nontrivial(o.CurCase())
	o.Sample(fmt.Sprintf("restart-after-validator-change: %d heights with a stake change each; nodes restarting after every 1/2/3 commits agree with a node that never restarts", nH))
}

// corpusReProposal: scenario "re-proposal-from-cached-proposal". A leader whose round does not commit
// and who leads again at the same height with an unchanged mempool is served the SAME cached proposal
// by ProduceProposal; everything ProduceProposal puts into the header (last certificate, VDF, total
// VDF iterations) must be a function of its inputs, not of what an earlier call left in the cached
// header. At height 3 (the chain already has non-zero total VDF iterations) the proposer produces,
// without any mempool change in between: with VDF a, again with a, with another VDF b, with no VDF.
// Every produced block must be accepted by the proposer itself and by a replica; the last one is
// committed on every path.
func corpusReProposal(o *drv.Out) {
	o.Case("re-proposal-from-cached-proposal")
	rng := rand.New(rand.NewSource(56))
	net := node.NewNetwork(17, 4, nil, 8)
	defer net.Close()
	c := execdrv.NewChain(o, net, rng, []int{16, 2})
	P, V, R, S := c.NewNode("P", 0), c.NewNode("V", 1), c.NewNode("R", -1), c.NewNode("S", -1)
	// also: earlier proposals of the same height (same transactions, same resulting state) whose
	// operations are held back until the resulting state is known
	commitAll := func(p *execdrv.Proposal, pre string, label string, also ...*execdrv.Proposal) bool {
		h := P.Height()
		c.Hold = true
		okP := c.Validate(P, p)
		resP := ""
		if okP {
			resP = c.Commit(P, p, false)
		}
		post := P.StateDigest()
		defined := map[string]bool{}
		for _, q := range append(also, p) {
			if !defined[q.ID] {
				defined[q.ID] = true
				o.Op(fmt.Sprintf("def %d %s %s %s %s", h, pre, q.ID, post, q.Obs), "def")
			}
		}
		c.Release()
		want := fmt.Sprintf("ok state=%s obs=%s", post, p.Obs)
		fail := func(path, got string) {
			o.Fail("C03:path-diverges:re-proposal", fmt.Sprintf("height %d, %s: path %q gives %q, the proposer's header/results/state are %q", h, label, path, got, want), replayInfo(o, c, h, p, path))
		}
		if !okP || resP != want {
			fail("proposer validate+commit-cached", fmt.Sprintf("validate ok=%v, commit %q", okP, resP))
			return false
		}
		if !c.Validate(V, p) {
			fail("validate", "rejected")
			return false
		}
		for _, x := range []struct{ path, got string }{{"validate+commit-cached", c.Commit(V, p, false)}, {"commit-replay", c.Commit(R, p, false)}, {"sync", c.Commit(S, p, true)}} {
			o.Count("compared")
			if x.got != want {
				fail(x.path, x.got)
				return false
			}
		}
		return true
	}
	// heights 1 and 2: ordinary blocks, the second with a VDF so that the running total is not zero
	for hi := 0; hi < 2; hi++ {
		h := P.Height()
		var vdf *crypto.VDF
		if hi == 1 {
			vdf = P.MakeVDF(40)
		}
		pre := P.StateDigest()
		p, ok := c.ProposeVDF(P, []node.MixTx{{Kind: "send", Bytes: net.SendTx(net.AcctKeys[hi], net.FreshAddr(hi), 1000, 10000, h, "")}}, "produce", vdf)
		if !ok || !commitAll(p, pre, "ordinary block") {
			return
		}
	}
	h := P.Height()
	pre := P.StateDigest()
	a, b := P.MakeVDF(30), P.MakeVDF(70)
	txs := []node.MixTx{{Kind: "send", Bytes: net.SendTx(net.AcctKeys[3], net.FreshAddr(33), 1000, 10000, h, "")}}
	rounds := []struct {
		label string
		vdf   *crypto.VDF
	}{{"first proposal, VDF a (30 iterations)", a}, {"second proposal from the same cached proposal, VDF a again", a},
		{"third proposal, VDF b (70 iterations)", b}, {"fourth proposal, no VDF", nil}}
	var last *execdrv.Proposal
	var earlier []*execdrv.Proposal
	var stateRoot []byte
	c.Hold = true
	for i, r := range rounds {
		var mp []node.MixTx
		if i == 0 {
			mp = txs
		}
		p, ok := c.ProposeVDF(P, mp, "produce", r.vdf)
		if !ok {
			o.Fail("C03:path-diverges:re-proposal", fmt.Sprintf("height %d, %s: ProduceProposal fails", h, r.label), map[string]any{"case": o.CurCase()})
			return
		}
		blk := new(lib.Block)
		_ = lib.Unmarshal(p.Block, blk)
		// the round does not commit: the proposer and a replica validate the proposal, then the round is interrupted
		okP := c.Validate(P, p)
		if okP {
			c.Interrupt(P)
		}
		okV := c.Validate(V, p)
		if okV {
			c.Interrupt(V)
		}
		o.Count("compared")
		if !okP || !okV {
			o.Fail("C03:path-diverges:re-proposal",
				fmt.Sprintf("height %d, %s (mempool unchanged since the first proposal): the produced block (TotalVdfIterations %d) is accepted by the proposer itself: %v, by a replica on the same prefix: %v", h, r.label, blk.BlockHeader.TotalVdfIterations, okP, okV),
				replayInfo(o, c, h, p, "validate"))
			return
		}
		if i > 0 && !bytes.Equal(stateRoot, blk.BlockHeader.StateRoot) {
			o.Fail("C03:path-diverges:re-proposal", fmt.Sprintf("height %d, %s: state root %x, the first proposal from the same cached proposal had %x", h, r.label, blk.BlockHeader.StateRoot, stateRoot), replayInfo(o, c, h, p, "produce"))
			return
		}
		stateRoot = blk.BlockHeader.StateRoot
		if last != nil {
			earlier = append(earlier, last)
		}
		last = p
	}
	if !commitAll(last, pre, "fourth proposal committed", earlier...) {
		return
	}
	o.Nontrivial(o.CurCase())
	o.Sample("re-proposal-from-cached-proposal: four proposals from one cached mempool proposal (VDF a, a, b, none) each validate on the proposer and a replica; the last commits on all paths")
}

// corpusSignatureCache: scenario "forged-signature-re-executed". crypto.SignatureCache is process-wide
// and outlives every Reset; the batch pre-check of ApplyTransactions is the only signature check of a
// block. One chain, one height per member (scheme of the forged signature, batch index k = number of
// valid transactions of mixed schemes ordered before it). At every height, starting from a cold cache:
//
//  1. the proposer P builds B1 from a mempool holding k valid transactions, the forged one and (odd k)
//     one more valid one: the forged one is evicted
//  2. a Byzantine block X = B1's header with the forged transaction inserted at batch index k is
//     executed repeatedly on one process: V validates (cold) -> round interrupt -> V validates again ->
//     R commits by replay -> P validates; then the cache is emptied and S handles it on the sync path.
//     Every execution must give the verdict of the cold first one
//  3. the forged transaction is submitted to P again, its mempool FSM is rebuilt twice, P builds B2: the
//     same mempool content on the same state gives the same transactions as B1
//  4. B2 commits on all paths (S on a cold cache again)
//
// Oracle: path agreement (C03:path-diverges:signature-cache-warm-vs-cold) and, in Chain.Propose for every
// block of every scenario, "a transaction whose signature does not verify is never included".
func corpusSignatureCache(o *drv.Out) {
	o.Case("forged-signature-re-executed")
	rng := rand.New(rand.NewSource(58))
	net := node.NewNetwork(24, 4, nil, 16, node.Options{SchemeAccounts: 4})
	defer net.Close()
	c := execdrv.NewChain(o, net, rng, []int{16, 2, 8})
	P, V, R, S := c.NewNode("P", 0), c.NewNode("V", 1), c.NewNode("R", -1), c.NewNode("S", -1)
	// ed25519: 0,1,2 (account 3 is BLS), 4,5,6 ...
	keysOf := map[string][]crypto.PrivateKeyI{
		"ed25519":      {net.AcctKeys[0], net.AcctKeys[1], net.AcctKeys[2], net.AcctKeys[4], net.AcctKeys[5]},
		"bls12381":     {net.AcctKeys[3], net.AcctKeys[7], net.AcctKeys[11]},
		"secp256k1":    net.SecpKeys,
		"ethsecp256k1": net.EthKeys,
	}
	order := []string{"ed25519", "secp256k1", "ethsecp256k1", "bls12381"}
	type member struct {
		scheme string
		k      int
	}
	var members []member
	for k := 0; k <= 9; k++ {
		members = append(members, member{"ed25519", k})
	}
	members = append(members, member{"secp256k1", 3}, member{"ethsecp256k1", 5}, member{"bls12381", 2})
	if o.Tier == "thorough" || o.Search {
		for _, sch := range order[1:] {
			for _, k := range []int{0, 1, 8, 9} {
				members = append(members, member{sch, k})
			}
		}
	}
	fresh := 0
	for mi, m := range members {
		h := P.Height()
		pre := P.StateDigest()
		fail := func(desc string, p *execdrv.Proposal, extra map[string]any) {
			info := replayInfo(o, c, h, p, "warm-vs-cold")
			info["forged_scheme"], info["batch_index"] = m.scheme, m.k
			for k, v := range extra {
				info[k] = v
			}
			o.Fail("C03:path-diverges:signature-cache-warm-vs-cold", fmt.Sprintf("height %d, forged %s signature at batch index %d (behind %d valid transactions of mixed schemes): %s", h, m.scheme, m.k, m.k, desc), info)
		}
		node.ColdSignatureCache()
		fee := uint64(40000)
		var mp []node.MixTx
		for i := 0; i < m.k; i++ {
			ks := keysOf[order[(i+mi)%4]]
			fee -= 100
			fresh++
			mp = append(mp, node.MixTx{Kind: "send:" + order[(i+mi)%4], Bytes: net.SendTx(ks[(i/4+mi)%len(ks)], net.FreshAddr(fresh), 1000, fee, h, ""), Expect: true})
		}
		fee -= 100
		fresh++
		fk := keysOf[m.scheme]
		forged := node.CorruptSignature(net.SendTx(fk[(mi+2)%len(fk)], net.FreshAddr(fresh), 777, fee, h, ""))
		mp = append(mp, node.MixTx{Kind: "fail:badsig:" + m.scheme, Bytes: forged})
		if m.k%2 == 1 {
			fresh++
			mp = append(mp, node.MixTx{Kind: "send:ed25519", Bytes: net.SendTx(net.AcctKeys[6], net.FreshAddr(fresh), 1000, fee-100, h, ""), Expect: true})
		}
		// 1. first build, cold cache
		c.Hold = true
		b1, ok := c.ProposeVDF(P, mp, "produce", nil)
		if !ok {
			fail("ProduceProposal fails", &execdrv.Proposal{}, nil)
			return
		}
		blk1 := new(lib.Block)
		_ = lib.Unmarshal(b1.Block, blk1)
		want := len(mp) - 1
		if len(blk1.Transactions) != want {
			o.Fail("C03:scenario-expectation-differs:forged-signature-re-executed", fmt.Sprintf("height %d: the first block has %d transactions, expected the %d valid ones", h, len(blk1.Transactions), want), replayInfo(o, c, h, b1, "produce"))
			return
		}
		// 2. the Byzantine block: B1's header, the forged transaction inserted at batch index k
		x := &lib.Block{BlockHeader: blk1.BlockHeader}
		x.Transactions = append(append(append([][]byte{}, blk1.Transactions[:m.k]...), forged), blk1.Transactions[m.k:]...)
		xBytes, e := lib.Marshal(x)
		if e != nil {
			panic(e)
		}
		xProp := net.Certify(b1.VS, xBytes, b1.Results, net.AllSigners(), lib.Phase_PROPOSE, b1.RC, P.Key)
		xQC := net.Certify(b1.VS, xBytes, b1.Results, net.AllSigners(), lib.Phase_PRECOMMIT_VOTE, b1.RC, P.Key)
		verdict := func(err lib.ErrorI) string {
			if err == nil {
				return "accepted"
			}
			return "rejected " + node.ErrCode(err)
		}
		node.ColdSignatureCache()
		_, e1 := V.Validate(xProp, b1.RC)
		cold := verdict(e1)
		var got []string
		_, e2 := V.Validate(xProp, b1.RC)
		got = append(got, "V validates again after the round interrupt: "+verdict(e2))
		got = append(got, "R commits by replay: "+verdict(R.HandlePeerBlock(xQC, false)))
		_, e3 := P.Validate(xProp, b1.RC)
		got = append(got, "P validates: "+verdict(e3))
		node.ColdSignatureCache()
		got = append(got, "S on the sync path, cold cache: "+verdict(S.HandlePeerBlock(xQC, true)))
		o.Count("compared")
		differs := e1 == nil
		for _, g := range got {
			if !strings.HasSuffix(g, ": "+cold) {
				differs = true
			}
		}
		if differs {
			fail(fmt.Sprintf("the block that carries it (%d transactions under the header of the %d valid ones) is %s by V on a cold cache; the same block bytes executed again in the same process: %s", len(x.Transactions), want, cold, strings.Join(got, "; ")),
				b1, map[string]any{"byzantine_block": hex.EncodeToString(xBytes), "forged_tx": hex.EncodeToString(forged)})
		}
		for _, nd := range []*node.Node{V, R, S, P} {
			if nd.Height() != h {
				fail(fmt.Sprintf("a node committed the block carrying the forged transaction (height %d)", nd.Height()), b1, map[string]any{"byzantine_block": hex.EncodeToString(xBytes)})
				return
			}
		}
		// 3. the forged transaction comes back; the proposer's mempool FSM is rebuilt twice
		if err := P.Submit(forged); err != nil {
			o.Count("submit-rejected:" + node.ErrCode(err))
		}
		_ = P.CheckMempool()
		if err := P.Submit(forged); err != nil {
			o.Count("submit-rejected:" + node.ErrCode(err))
		}
		_ = P.CheckMempool()
		b2, ok := c.ProposeVDF(P, []node.MixTx{{Kind: "fail:badsig-resubmitted", Bytes: forged}}, "produce", nil)
		if !ok {
			fail("the second ProduceProposal fails", b1, nil)
			return
		}
		blk2 := new(lib.Block)
		_ = lib.Unmarshal(b2.Block, blk2)
		o.Count("compared")
		if len(blk2.Transactions) != len(blk1.Transactions) || !bytes.Equal(blk2.BlockHeader.StateRoot, blk1.BlockHeader.StateRoot) || !bytes.Equal(blk2.BlockHeader.TransactionRoot, blk1.BlockHeader.TransactionRoot) {
			fail(fmt.Sprintf("the proposer built a block of %d transactions (state root %x) from this mempool on a cold cache and, after the forged transaction was evicted and submitted again, a block of %d transactions (state root %x) from the same mempool content on the same state", len(blk1.Transactions), blk1.BlockHeader.StateRoot[:6], len(blk2.Transactions), blk2.BlockHeader.StateRoot[:6]),
				b2, map[string]any{"forged_tx": hex.EncodeToString(forged)})
			return
		}
		// 4. B2 on all paths
		okP := c.Validate(P, b2)
		resP := ""
		if okP {
			resP = c.Commit(P, b2, false)
		}
		post := P.StateDigest()
		o.Op(fmt.Sprintf("def %d %s %s %s %s", h, pre, b2.ID, post, b2.Obs), "def")
		if b1.ID != b2.ID {
			o.Op(fmt.Sprintf("def %d %s %s %s %s", h, pre, b1.ID, post, b1.Obs), "def")
		}
		c.Release()
		wantRes := fmt.Sprintf("ok state=%s obs=%s", post, b2.Obs)
		if !okP || resP != wantRes {
			fail(fmt.Sprintf("the proposer's own second block: validate ok=%v, commit %q", okP, resP), b2, nil)
			return
		}
		if !c.Validate(V, b2) {
			fail("a replica rejects the proposer's second block", b2, nil)
			return
		}
		paths := []struct{ path, got string }{{"validate+commit-cached", c.Commit(V, b2, false)}, {"commit-replay", c.Commit(R, b2, false)}}
		node.ColdSignatureCache()
		paths = append(paths, struct{ path, got string }{"sync on a cold cache", c.Commit(S, b2, true)})
		for _, x := range paths {
			o.Count("compared")
			if x.got != wantRes {
				fail(fmt.Sprintf("path %q gives %q, the proposer's header/results/state are %q", x.path, x.got, wantRes), b2, nil)
				return
			}
		}
		o.Count(fmt.Sprintf("forged-at-batch-index:%s:%d", m.scheme, m.k))
		o.Nontrivial(fmt.Sprintf("%s|%s|%d", o.CurCase(), m.scheme, m.k))
	}
	o.Sample(fmt.Sprintf("forged-signature-re-executed: %d members (forged ed25519 at batch indices 0..9, secp256k1, eth, BLS); the block carrying the forged transaction gets the cold verdict on every re-execution; the re-submitted forged transaction is never included", len(members)))
}

// corpusOrderMemoWindow: scenario "order-memo-window-after-page-query". On an own-root chain the
// certificate results of height N carry the lock orders found in the send memos of the proposal block
// AND of the blocks N-15..N-11 (controller.HandleSwaps -> fsm.ProcessRootChainOrderBook -> LoadBlock),
// for sell orders of the chain's own order book that are not locked yet. Sends carrying a lock-order
// memo for five sell orders are committed at heights 5..9, the five sell orders themselves (ids known
// in advance: the first 20 bytes of the transaction hash) only at height 11: at N = 16..20 the
// certificate results must lock order N-16 because of the memo in block N-11, read from the archive.
// One height earlier the node under test restarts; at height N, on a cold block cache, it answers
// read-only explorer queries (Store.GetBlocks pages whose bottom entry is block N-10, i.e. whose "took"
// column reads the header of block N-11) and then produces (even N: the proposer P) or validates (odd
// N: the replica V) while the other one stays unqueried. Oracle: path agreement on the certificate
// results (the replica validates the proposer's proposal; replay and sync paths commit it).
func corpusOrderMemoWindow(o *drv.Out) {
	o.Case("order-memo-window-after-page-query")
	rng := rand.New(rand.NewSource(61))
	net := node.NewNetwork(27, 4, nil, 16)
	defer net.Close()
	c := execdrv.NewChain(o, net, rng, []int{16, 2})
	P, V, R, S := c.NewNode("P", 0), c.NewNode("V", 1), c.NewNode("R", -1), c.NewNode("S", -1)
	var orders [][]byte
	for i := 0; i < 5; i++ {
		orders = append(orders, net.CreateOrderTx(net.AcctKeys[8+i%3], node.ChainId, 2_000_000_000+uint64(i), 5+uint64(i), net.FreshAddr(900+i), 15000, 1))
	}
	lockMemo := func(i int) string {
		bz, err := lib.MarshalJSON(&lib.LockOrder{OrderId: node.OrderId(orders[i]), ChainId: node.ChainId, BuyerReceiveAddress: net.FreshAddr(950 + i)})
		if err != nil {
			panic(err)
		}
		return string(bz)
	}
	for P.Height() <= 20 {
		h := P.Height()
		queried, other := P, V
		if h%2 == 1 {
			queried, other = V, P
		}
		txs := []node.MixTx{{Kind: "send", Bytes: net.SendTx(net.AcctKeys[int(h)%3], net.FreshAddr(int(h)), 1000, 10000, h, ""), Expect: true}}
		if h >= 5 && h <= 9 {
			txs = append(txs, node.MixTx{Kind: "send:lock-order-memo", Bytes: net.SendTx(net.AcctKeys[4+int(h)%3], net.FreshAddr(970+int(h)), 7, 30000, h, lockMemo(int(h)-5)), Expect: true})
		}
		if h == 11 {
			for _, tx := range orders {
				txs = append(txs, node.MixTx{Kind: "create-order", Bytes: tx, Expect: true})
			}
		}
		inWindow := h >= 16 && h <= 20 // ProcessRootChainOrderBook looks back only from height 16 on
		if h >= 15 && h <= 19 {
			// the node queried at the next height restarts now
			next := P
			if (h+1)%2 == 1 {
				next = V
			}
			if !c.Restart(next) {
				return
			}
		}
		traffic := ""
		query := func(nd *node.Node) {
			if !inWindow {
				return
			}
			nd.PurgeProcessCaches() // nothing since its restart made this node read block N-11
			newest, bottom := h-1, h-10
			err := nd.Explorer(func(st lib.StoreI) lib.ErrorI {
				for _, pp := range []int{1, 2, 5, 10} {
					if int(newest-bottom+1)%pp != 0 {
						continue
					}
					if _, e := st.GetBlocks(lib.PageParams{PageNumber: int(newest-bottom+1) / pp, PerPage: pp}); e != nil {
						return e
					}
					o.Count("explorer:blocks-page")
				}
				_, e := st.GetBlockHeaderByHeight(bottom)
				return e
			})
			if err != nil {
				o.Fail("C03:explorer-query-failed", err.Error(), map[string]any{"case": o.CurCase(), "height": h})
			}
			traffic = fmt.Sprintf("node %s, restarted one height earlier, answered Store.GetBlocks pages (sizes 1, 2, 5, 10) whose bottom entry is block %d and GetBlockHeaderByHeight(%d) on a cold block cache", c.Names[nd], bottom, bottom)
		}
		pre := P.StateDigest()
		c.Hold = true
		if queried == P {
			query(P)
		}
		p, ok := c.ProposeVDF(P, txs, "produce", nil)
		if !ok {
			o.Fail("C03:proposer-failed", "ProduceProposal failed on an honest mempool", map[string]any{"case": o.CurCase(), "height": h})
			return
		}
		nLocks := 0
		if p.Results != nil && p.Results.Orders != nil {
			nLocks = len(p.Results.Orders.LockOrders)
		}
		fail := func(path, got, want string) {
			info := replayInfo(o, c, h, p, path)
			info["explorer_queries"], info["lock_orders_in_the_proposers_results"] = traffic, nLocks
			o.Fail("C03:path-diverges:block-cache-after-page-query",
				fmt.Sprintf("height %d: the send in block %d carries a lock-order memo for a sell order that is on the book and unlocked; %s; the proposer's certificate results carry %d lock order(s); path %q gives %q, expected %q (unqueried node: %s)", h, h-11, traffic, nLocks, path, got, want, c.Names[other]), info)
		}
		okP := c.Validate(P, p)
		resP := ""
		if okP {
			resP = c.Commit(P, p, false)
		}
		post := P.StateDigest()
		o.Op(fmt.Sprintf("def %d %s %s %s %s", h, pre, p.ID, post, p.Obs), "def")
		c.Release()
		want := fmt.Sprintf("ok state=%s obs=%s", post, p.Obs)
		if !okP || resP != want {
			fail("propose+validate+commit-cached", fmt.Sprintf("validate ok=%v commit %q", okP, resP), want)
			return
		}
		if queried == V {
			query(V)
		}
		o.Count("compared")
		if !c.Validate(V, p) {
			fail("validate on the replica", "rejected", "ok")
			return
		}
		for _, x := range []struct{ path, got string }{{"validate+commit-cached", c.Commit(V, p, false)}, {"commit-replay", c.Commit(R, p, false)}, {"sync", c.Commit(S, p, true)}} {
			o.Count("compared")
			if x.got != want {
				fail(x.path, x.got, want)
				return
			}
		}
		wantLocks := 0
		if inWindow {
			wantLocks = 1
		}
		if nLocks != wantLocks {
			o.Fail("C03:scenario-expectation-differs:order-memo-window-after-page-query", fmt.Sprintf("height %d: the proposer's certificate results carry %d lock orders, the scenario expects %d (%d transactions included of %d)", h, nLocks, wantLocks, p.NTx, len(txs)), replayInfo(o, c, h, p, "produce"))
			return
		}
		if inWindow {
			o.Count("lock-order-from-archived-block")
			o.Nontrivial(fmt.Sprintf("%s|%d", o.CurCase(), h))
		}
	}
	o.Sample("order-memo-window-after-page-query: at heights 16..20 the certificate results lock the sell order whose lock memo sits in block N-11, on a proposer / replica that restarted and answered block-list pages ending right above that block")
}

// corpusPostCommitCopy: scenario "proposal-built-on-post-commit-copy". Right after a commit the
// controller replaces the mempool state machine by a COPY of the new controller state machine
// (StateMachine.Copy -> Store.Copy -> Txn.Copy) and rebuilds the cached proposal on it; ProduceProposal
// serves that cached proposal as long as the mempool does not change. Replicas execute the block on
// stores built by Reset() / NewStoreWithDB. The transactions of height h+1 are therefore handed to the
// proposer BEFORE it commits height h, and nothing is submitted afterwards. The traffic is what makes
// one transaction depend, through an ITERATOR of the working store, on a write an earlier transaction
// of the same block made: two certificate-results transactions of the nested chain 2 per block, the
// second carrying a checkpoint above (both included) / equal to / below (second one rejected:
// HandleCheckpoint -> GetMostRecentCheckpoint, a reverse iterator over the indexer) the first one's.
func corpusPostCommitCopy(o *drv.Out) {
	o.Case("proposal-built-on-post-commit-copy")
	rng := rand.New(rand.NewSource(63))
	const nested = node.ChainId + 1
	net := node.NewNetwork(29, 4, nil, 12, node.Options{MutateGenesis: func(g *fsm.GenesisState) {
		for _, v := range g.Validators {
			v.Committees = []uint64{node.ChainId, nested}
		}
		g.Pools = append(g.Pools, &fsm.Pool{Id: nested, Amount: 1})
	}})
	defer net.Close()
	c := execdrv.NewChain(o, net, rng, []int{16, 2, 5})
	P, V, R, S := c.NewNode("P", 0), c.NewNode("V", 1), c.NewNode("R", -1), c.NewNode("S", -1)
	nestedHeight, top := uint64(0), uint64(100)
	cert := func(h uint64, checkpoint uint64) []byte {
		nestedHeight++
		rw := &lib.RewardRecipients{PaymentPercents: []*lib.PaymentPercents{{Address: net.FreshAddr(1), Percent: 100, ChainId: nested}}}
		return net.CertificateResultsTx(P, nested, nestedHeight, h-1, 0, []int{0, 1, 2, 3},
			&lib.CertificateResult{RewardRecipients: rw, Checkpoint: &lib.Checkpoint{Height: checkpoint, BlockHash: net.FreshAddr(int(checkpoint) + int(nestedHeight)*1000)}}, h)
	}
	kinds := []string{"above", "equal", "below", "above", "below", "equal"}
	wantNTx, kind := 0, "none"
	for hi := 0; hi <= len(kinds); hi++ {
		h := P.Height()
		pre := P.StateDigest()
		c.Hold = true
		// nothing is submitted now: the proposal is the one cached right after the last commit
		p, ok := c.ProposeVDF(P, nil, "produce", nil)
		if !ok {
			o.Fail("C03:proposer-failed", "ProduceProposal failed on an honest mempool", map[string]any{"case": o.CurCase(), "height": h})
			return
		}
		what := fmt.Sprintf("the proposer's mempool held, before it committed height %d, a send and two certificate results of chain 2 whose second checkpoint is %s the first one's; the proposal of height %d (%d transactions) was built right after that commit on the copied state machine", h-1, kind, h, p.NTx)
		fail := func(path, got, want string) {
			o.Fail("C03:path-diverges:post-commit-mempool-copy", fmt.Sprintf("height %d: %s; path %q gives %q, expected %q", h, what, path, got, want), replayInfo(o, c, h, p, path))
		}
		// the mempool of the NEXT height, handed over before this height commits
		nextKind := "none"
		if hi < len(kinds) {
			nextKind = kinds[hi]
			first := top + 10
			second := map[string]uint64{"above": first + 5, "equal": first, "below": first - 3}[nextKind]
			top = max(first, second)
			for _, tx := range [][]byte{net.SendTx(net.AcctKeys[hi%3], net.FreshAddr(300+hi), 1000, 10000, h, ""), cert(h, first), cert(h, second)} {
				if err := P.Submit(tx); err != nil {
					panic(err)
				}
			}
		}
		okP := c.Validate(P, p)
		resP := ""
		if okP {
			resP = c.Commit(P, p, false)
		}
		post := P.StateDigest()
		o.Op(fmt.Sprintf("def %d %s %s %s %s", h, pre, p.ID, post, p.Obs), "def")
		c.Release()
		want := fmt.Sprintf("ok state=%s obs=%s", post, p.Obs)
		o.Count("compared")
		if !okP || resP != want {
			fail("propose+validate+commit-cached", fmt.Sprintf("validate ok=%v commit %q", okP, resP), want)
			return
		}
		if !c.Validate(V, p) {
			fail("validate on a replica", "rejected", "ok")
			return
		}
		for _, x := range []struct{ path, got string }{{"validate+commit-cached", c.Commit(V, p, false)}, {"commit-replay", c.Commit(R, p, false)}, {"sync", c.Commit(S, p, true)}} {
			o.Count("compared")
			if x.got != want {
				fail(x.path, x.got, want)
				return
			}
		}
		if p.NTx != wantNTx {
			o.Fail("C03:scenario-expectation-differs:proposal-built-on-post-commit-copy", fmt.Sprintf("height %d: %s; the scenario expects %d transactions", h, what, wantNTx), replayInfo(o, c, h, p, "produce"))
			return
		}
		if hi > 0 {
			o.Count("post-commit-copy:second-checkpoint-" + kind)
			o.Nontrivial(fmt.Sprintf("%s|%d", o.CurCase(), hi))
		}
		kind = nextKind
		wantNTx = map[string]int{"above": 3, "equal": 2, "below": 2, "none": 0}[kind]
	}
	o.Sample("proposal-built-on-post-commit-copy: six proposals built on the post-commit copy of the state machine from two certificate results per block (second checkpoint above / equal / below the first): every path reproduces them")
}

// step is one height of the chain as the proposer saw it.
type step struct {
	h         uint64
	p, alt    *execdrv.Proposal
	pre, post string
	want      string
	hi        int
	// prevCert: the version of the height h-1 commit certificate the proposer stored, i.e. the one
	// embedded in this block's header as LastQuorumCertificate
	prevCert string
}

func runCase(o *drv.Out, ci, nHeights int, bigSends []int) {
	rng := rand.New(rand.NewSource(o.Rng.Int63()))
	nVal := []int{4, 1, 7, 5, 4, 10}[ci%6]
	stakes := make([]uint64, nVal)
	for i := range stakes {
		stakes[i] = uint64(1_000_000_000 + rng.Intn(9)*500_000_000)
	}
	opts := node.Options{SchemeAccounts: 6} // ordinary senders of all four signature schemes
	smallBlocks := ci%3 == 2
	if smallBlocks {
		// room for roughly 106 sends: larger mempools overflow the block (oversize on the proposer path)
		opts.BlockSize = lib.MaxBlockHeaderSize + 24_000
	}
	sequential := ci%2 == 1
	net := node.NewNetwork(o.Seed*1000+int64(ci), nVal, stakes, 40, opts)
	defer net.Close()
	shape := "interleaved"
	if sequential {
		shape = "sequential"
	}
	o.Case(fmt.Sprintf("chain-%d-v%d-small%v-%s", ci, nVal, smallBlocks, shape))
	c := execdrv.NewChain(o, net, rng, []int{16, 1, 2, 8, 3})
	rng.Shuffle(len(c.Gmps), func(i, j int) { c.Gmps[i], c.Gmps[j] = c.Gmps[j], c.Gmps[i] })

	P := c.NewNode("P", 0)      // proposer (leader flow: produce, validate own, commit cached)
	V := c.NewNode("V", 1%nVal) // replica: validate, commit cached
	R := c.NewNode("R", -1)     // commit by replay (never validates)
	S := c.NewNode("S", -1)     // sync path
	T := c.NewNode("T", -1)     // restart before every commit
	U := c.NewNode("U", 2%nVal) // validate, restart (cache lost), commit
	X := c.NewNode("X", 3%nVal) // speculation: validates other blocks / produces own junk first
	Q := c.NewNode("Q", 1%nVal) // alternative proposer (its blocks are never committed)
	T2 := c.NewNode("T2", -1)   // restart after every 2nd commit
	T3 := c.NewNode("T3", -1)   // restart after every 3rd commit
	followers := []*node.Node{V, R, S, T, T2, T3, U, X, Q}

	var lastIncluded [][]byte
	noOversize := false
	var steps []*step
	for hi := 0; hi < nHeights; hi++ {
		h := P.Height()
		sz := sizes{sends: bigSends[(hi+ci)%len(bigSends)], failing: rng.Intn(7), conflicts: rng.Intn(2)}
		if noOversize && sz.sends > 60 {
			sz.sends = 60
		}
		var replay [][]byte
		if len(lastIncluded) != 0 && rng.Intn(2) == 0 {
			replay = lastIncluded[:1+rng.Intn(min(3, len(lastIncluded)))]
		}
		st := &step{h: h, hi: hi, pre: P.StateDigest()}
		txs := c.Mix.Mix(node.MixOpts{Height: h, Sends: sz.sends, Failing: sz.failing, Conflicts: sz.conflicts, ValOps: hi%2 == 1, Replay: replay, ResubmitForged: hi >= 1})
		// the alternative proposer builds a different block on the same prefix first
		if hi%2 == 0 && !sequential {
			altTxs := c.Mix.Mix(node.MixOpts{Height: h, Sends: 2 + rng.Intn(20), Failing: rng.Intn(3)})
			st.alt, _ = c.Propose(Q, altTxs, "produce")
		}
		// from height 2 on, every other block carries a real VDF (non-zero TotalVdfIterations)
		var vdf *crypto.VDF
		if h >= 2 && hi%2 == 1 {
			vdf = P.MakeVDF(20 + 10*hi)
			o.Count("blocks-with-vdf")
		}
		p, ok := c.ProposeVDF(P, txs, "produce", vdf)
		if !ok {
			o.Fail("C03:proposer-failed", "ProduceProposal failed on an honest mempool", map[string]any{"case": o.CurCase(), "height": h})
			return
		}
		// every node receives its own valid version of the commit certificate (another +2/3 signer set)
		p = c.Version(p, c.RandomQuorum(p.VS, 2))
		st.prevCert = c.LastCert[P]
		remainder := P.MempoolCount() - p.NTx // valid transactions that did not fit the block
		if remainder > 0 {
			o.Count("proposer-oversize-remainder")
		}
		// leader flow on P
		c.Hold = true
		if !c.Validate(P, p) {
			c.Release()
			if remainder > 0 {
				// known mechanism: the oversize remainder's effects stay in the FSM caches and reach EndBlock
				okV := c.Validate(V, p)
				o.Fail("C03:path-divergence:propose-validate:oversize-remainder",
					fmt.Sprintf("height %d: mempool holds %d valid transactions beyond the %d that fit; the proposer's own block is rejected by the proposer (unequal block hash) and by a replica on the same prefix (accepted=%v)", h, remainder, p.NTx, okV),
					replayInfo(o, c, h, p, "P"))
				// the remainder never leaves the mempool: restart the proposer (drops the mempool) and go on below capacity
				if !c.Restart(P) {
					return
				}
				c.Interrupt(V)
				noOversize = true
				hi--
				continue
			}
			o.Fail("C03:path-divergence:propose-validate", "the proposer rejects its own proposal", replayInfo(o, c, h, p, "P"))
			return
		}
		resP := c.Commit(P, p, false)
		st.p, st.post = p, P.StateDigest()
		o.Op(fmt.Sprintf("def %d %s %s %s %s", h, st.pre, p.ID, st.post, p.Obs), "def")
		if st.alt != nil {
			o.Op(fmt.Sprintf("def %d %s %s ?alt-%s %s", h, st.pre, st.alt.ID, st.alt.ID, st.alt.Obs), "def")
		}
		c.Release()
		st.want = fmt.Sprintf("ok state=%s obs=%s", st.post, p.Obs)
		check(c, st, "propose+validate+commit-cached", resP)
		if p.NTx > 0 || sz.failing > 0 {
			o.Nontrivial(fmt.Sprintf("%s|%d|%d|%d|%d", o.CurCase(), hi, p.NTx, sz.failing, sz.conflicts))
		}
		if hi == 0 {
			o.Sample(fmt.Sprintf("%s h=%d txs=%d(of %d submitted) block=%s obs=%s", o.CurCase(), h, p.NTx, len(txs), p.ID, p.Obs))
		}
		blk := new(lib.Block)
		_ = lib.Unmarshal(p.Block, blk)
		lastIncluded = blk.Transactions
		steps = append(steps, st)
		if !sequential {
			for _, nd := range followers {
				follow(c, nd, st)
			}
			if !execdrv.SameDump(P.StateDump(), R.StateDump()) {
				o.Fail("C03:path-divergence:propose-commit-replay", "full state scans differ", replayInfo(o, c, h, p, "R"))
			}
		}
	}
	if sequential {
		for _, nd := range followers {
			for _, st := range steps {
				follow(c, nd, st)
			}
			if !c.Broken[nd] && !execdrv.SameDump(P.StateDump(), nd.StateDump()) {
				o.Fail("C03:path-divergence:propose-"+c.Names[nd], "full state scans differ at the end of the chain", map[string]any{"case": o.CurCase(), "node": c.Names[nd]})
			}
		}
	}
	// discipline probe: validate p, then produce an own proposal (whose deferred FSM.Reset drops the
	// working copy but not the BFT's cached result), then receive p. The BFT excludes this order for
	// an honest 2/3 (see checks/C03.py); the model reproduces the code's answer either way.
	staleProbe(c, P, X, V)
}

// check is the oracle: every path must give the proposer's answer.
func check(c *execdrv.Chain, st *step, path, got string) {
	c.O.Count("compared")
	if got != st.want {
		c.O.Fail(fmt.Sprintf("C03:path-divergence:propose-%s", path),
			fmt.Sprintf("height %d: path %q gives %q, the proposer's header/results/state are %q", st.h, path, got, st.want),
			replayInfo(c.O, c, st.h, st.p, path))
	}
}

// follow executes one height on a follower node through that node's path.
func follow(c *execdrv.Chain, nd *node.Node, st *step) {
	if c.Broken[nd] {
		return // its restart failed and was reported
	}
	p, rng := st.p, c.Rng
	if p.VS.NumValidators != 0 {
		p = c.Version(p, c.RandomQuorum(p.VS, 2))
	}
	storedPrev := c.LastCert[nd]
	if nd.Height() != st.h {
		c.O.Fail("C03:path-divergence:height", fmt.Sprintf("node %s at height %d, expected %d", c.Names[nd], nd.Height(), st.h), replayInfo(c.O, c, st.h, p, c.Names[nd]))
		return
	}
	switch c.Names[nd] {
	case "V": // replica: validate then commit with the cached result
		if !c.Validate(nd, p) {
			c.O.Fail("C03:path-divergence:propose-validate", "a replica on the same prefix rejects the honest proposal", replayInfo(c.O, c, st.h, p, "V"))
		}
		check(c, st, "validate+commit-cached", c.Commit(nd, p, false))
	case "R":
		check(c, st, "commit-replay", c.Commit(nd, p, false))
	case "S":
		got := c.Commit(nd, p, true)
		if got != st.want && storedPrev != st.prevCert {
			c.O.Count("compared")
			c.O.Fail("C03:sync-path-diverges:last-certificate-version",
				fmt.Sprintf("height %d: the syncing node stored version %s of the height %d commit certificate, the block's header embeds version %s (same payload, another +2/3 signer set); replaying the block on the sync path gives %q, the proposer's answer is %q", st.h, storedPrev, st.h-1, st.prevCert, got, st.want),
				replayInfo(c.O, c, st.h, p, "sync"))
		} else {
			check(c, st, "sync", got)
		}
	case "T": // restart before every commit (after every commit: k = 1)
		if !c.Restart(nd) {
			return
		}
		check(c, st, "restart+commit-replay", c.Commit(nd, p, false))
	case "T2", "T3": // restart after every 2nd / 3rd commit
		k := 2
		if c.Names[nd] == "T3" {
			k = 3
		}
		check(c, st, fmt.Sprintf("commit-replay+restart-every-%d", k), c.Commit(nd, p, false))
		if (st.hi+1)%k == 0 {
			c.Restart(nd)
		}
	case "U":
		c.Validate(nd, p)
		if !c.Restart(nd) {
			return
		}
		check(c, st, "validate+restart+commit-replay", c.Commit(nd, p, false))
	case "X": // speculation: other executions first, each discarded, then the real block
		switch {
		case st.alt != nil && st.hi%4 == 0:
			c.Validate(nd, st.alt)
			c.Interrupt(nd)
			c.Validate(nd, p)
		case st.alt != nil:
			c.Validate(nd, st.alt) // no interrupt in between: ValidateProposal itself must reset
			c.Validate(nd, p)
		default:
			junk := c.Mix.Mix(node.MixOpts{Height: st.h, Sends: 3 + rng.Intn(10), Failing: 2})
			c.Propose(nd, junk, "produce")
			c.Interrupt(nd)
			c.Validate(nd, p)
		}
		check(c, st, "speculation+validate+commit-cached", c.Commit(nd, p, false))
	case "Q": // the alternative proposer drops its own block and follows the chain by replay
		check(c, st, "other-proposal+commit-replay", c.Commit(nd, p, false))
	}
}

// staleProbe replays the two histories in which the BFT's cached block result outlives the working
// copy it describes (Props/C03.lean: stale_cache_after_produce, stale_cache_after_failed_replay).
//
//	A (on X): validate(p); ProduceProposal (its deferred c.FSM.Reset() drops the working copy); HandlePeerBlock(p)
//	B (on V): validate(p); while syncing a peer serves garbage g for the same height (p with one
//	          state-root bit flipped; no signature is checked below a checkpoint height): replayed and
//	          rejected, working copy reset; then the real p is served: cached result on hash match.
//
// In both the node stores p's header over an unchanged state. A needs more than 1/3 Byzantine power or
// a narrow election race to occur; B needs only one lying peer and a cached result at sync start.
func staleProbe(c *execdrv.Chain, P, X, V *node.Node) {
	o := c.O
	h := P.Height()
	if X.Height() != h || V.Height() != h {
		return
	}
	pre := P.StateDigest()
	p, ok := c.Propose(P, c.Mix.Mix(node.MixOpts{Height: h, Sends: 5}), "produce")
	if !ok {
		return
	}
	c.Hold = true
	okP := c.Validate(P, p)
	resP := ""
	if okP {
		resP = c.Commit(P, p, false)
	}
	post := P.StateDigest()
	o.Op(fmt.Sprintf("def %d %s %s %s %s", h, pre, p.ID, post, p.Obs), "def")
	c.Release()
	want := fmt.Sprintf("ok state=%s obs=%s", post, p.Obs)
	if !okP || resP != want {
		// the reference execution itself did not go through: nothing to compare the probes with
		o.Count("probe:skipped-reference-failed")
		o.Fail("C03:path-divergence:propose-propose+validate+commit-cached",
			fmt.Sprintf("height %d: the proposer's own leader flow fails: validate ok=%v, commit %q", h, okP, resP), map[string]any{"case": o.CurCase(), "height": h})
		return
	}
	// A
	c.Validate(X, p)
	c.Propose(X, c.Mix.Mix(node.MixOpts{Height: h, Sends: 2}), "produce")
	gotA := c.Commit(X, p, false)
	if gotA != want {
		o.Count("probe:stale-cached-result-after-produce:diverges")
		o.Extra["c03_stale_cache_probe_A"] = fmt.Sprintf("validate(b); ProduceProposal; HandlePeerBlock(b): got %q want %q", gotA, want)
		if failOnStaleCacheA {
			o.Fail("C03:stale-cached-result-after-produce", "commit with cached result after ProduceProposal's deferred FSM.Reset stores the block over an unchanged state",
				map[string]any{"case": o.CurCase(), "height": h, "got": gotA, "want": want, "block": hex.EncodeToString(p.Block)})
		}
	} else {
		o.Count("probe:stale-cached-result-after-produce:agrees")
	}
	// B
	blk := new(lib.Block)
	if err := lib.Unmarshal(p.Block, blk); err != nil {
		panic(err)
	}
	blk.BlockHeader.StateRoot[0] ^= 1
	if _, err := blk.BlockHeader.SetHash(); err != nil {
		panic(err)
	}
	gb, _ := lib.Marshal(blk)
	ghb, _ := lib.Marshal(blk.BlockHeader)
	g := &execdrv.Proposal{ID: hex.EncodeToString(blk.BlockHeader.Hash)[:16], Block: gb, Results: p.Results, RC: p.RC, NTx: p.NTx, Obs: execdrv.Dig(ghb, execdrv.ResBytes(p.Results))}
	g.QC = &lib.QuorumCertificate{Header: p.QC.Header, Results: p.QC.Results, ResultsHash: p.QC.ResultsHash, Block: gb, BlockHash: blk.BlockHeader.Hash,
		ProposerKey: p.QC.ProposerKey, Signature: p.QC.Signature}
	// executing g computes p's header (same transactions, same time and proposer); g claims another one
	o.Op(fmt.Sprintf("def %d %s %s %s %s %s", h, pre, g.ID, post, p.Obs, g.Obs), "def")
	c.Validate(V, p)
	c.Commit(V, g, true)
	gotB := c.Commit(V, p, true)
	if gotB != want {
		o.Count("probe:stale-cached-result-after-failed-replay:diverges")
		o.Extra["c03_stale_cache_probe_B"] = fmt.Sprintf("validate(b); sync(garbage) rejected; sync(b): got %q want %q", gotB, want)
		if failOnStaleCacheB {
			o.Fail("C03:stale-cached-result-after-failed-replay",
				fmt.Sprintf("height %d: a node that validated block %s, then (syncing) was served a garbage block for the same height (rejected: unequal block hash), then the real block: the cached result is used although the working copy was reset; the node stores the block's header over an unchanged state: %s, proposer: %s", h, p.ID, gotB, want),
				map[string]any{"case": o.CurCase(), "height": h, "got": gotB, "want": want, "block": hex.EncodeToString(p.Block), "garbage_block": hex.EncodeToString(gb)})
		}
	} else {
		o.Count("probe:stale-cached-result-after-failed-replay:agrees")
	}
}

func replayInfo(o *drv.Out, c *execdrv.Chain, h uint64, p *execdrv.Proposal, path string) map[string]any {
	return map[string]any{"case": o.CurCase(), "seed": o.Seed, "height": h, "block": hex.EncodeToString(p.Block), "path": path, "ntx": p.NTx}
}
