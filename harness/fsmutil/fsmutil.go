// Package fsmutil builds a REAL fsm.StateMachine on an in-memory store for harness drivers.
package fsmutil

import (
	"encoding/json"
	"os"
	"path/filepath"

	"github.com/canopy-network/canopy/fsm"
	"github.com/canopy-network/canopy/lib"
	"github.com/canopy-network/canopy/lib/crypto"
	"github.com/canopy-network/canopy/store"
)

// quietLogger discards everything.
func QuietLogger() lib.LoggerI { return lib.NewNullLogger() }

// NewFSM writes the genesis to a scratch data dir, opens an in-memory store and constructs the
// state machine exactly as the node does (fsm.New -> genesis applied and committed, height 1).
func NewFSM(genesis *fsm.GenesisState, chainId uint64) (*fsm.StateMachine, lib.StoreI, func(), error) {
	dir, err := os.MkdirTemp("", "verif-fsm-")
	if err != nil {
		return nil, nil, nil, err
	}
	cleanup := func() { os.RemoveAll(dir) }
	bz, err := json.Marshal(genesis)
	if err != nil {
		cleanup()
		return nil, nil, nil, err
	}
	if err = os.WriteFile(filepath.Join(dir, lib.GenesisFilePath), bz, 0o644); err != nil {
		cleanup()
		return nil, nil, nil, err
	}
	log := QuietLogger()
	db, e := store.NewStoreInMemory(log)
	if e != nil {
		cleanup()
		return nil, nil, nil, e
	}
	cfg := lib.DefaultConfig()
	cfg.DataDirPath = dir
	cfg.ChainId = chainId
	sm, e := fsm.New(cfg, db, nil, nil, log)
	if e != nil {
		cleanup()
		return nil, nil, nil, e
	}
	return sm, db, cleanup, nil
}

// BLSKeys returns n deterministic BLS private keys (seeded).
func BLSKeys(n int, seed int64) []crypto.PrivateKeyI {
	out := make([]crypto.PrivateKeyI, 0, n)
	for i := 0; i < n; i++ {
		k, err := crypto.NewBLS12381PrivateKey()
		if err != nil {
			panic(err)
		}
		out = append(out, k)
	}
	return out
}
