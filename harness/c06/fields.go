package c06

import (
	"fmt"

	"github.com/canopy-network/canopy/fsm"
	"github.com/canopy-network/canopy/lib"
	"google.golang.org/protobuf/proto"
	"google.golang.org/protobuf/reflect/protoreflect"
)

// fieldValueVariants: for EACH field of the Transaction schema (taken from the message descriptor,
// so a field added to tx.proto is covered automatically) except the signature itself, the canonical
// marshalling of the transaction with just that field set to another value and the ORIGINAL
// signature kept. Every one of them must be refused: the signature was made over other sign bytes.
// If one executes, that field is outside what the signature covers.
func fieldValueVariants(tx *lib.Transaction) (out []variant, unsupported []string) {
	fields := tx.ProtoReflect().Descriptor().Fields()
	for i := 0; i < fields.Len(); i++ {
		fd := fields.Get(i)
		name := string(fd.Name())
		if name == "signature" {
			continue
		}
		c := proto.Clone(tx).(*lib.Transaction)
		m := c.ProtoReflect()
		v := m.Get(fd)
		desc := ""
		switch {
		case fd.IsList() || fd.IsMap():
			unsupported = append(unsupported, name)
			continue
		case fd.Kind() == protoreflect.Uint64Kind || fd.Kind() == protoreflect.Uint32Kind || fd.Kind() == protoreflect.Fixed64Kind || fd.Kind() == protoreflect.Fixed32Kind:
			m.Set(fd, protoreflect.ValueOfUint64(v.Uint()+1))
			if fd.Kind() == protoreflect.Uint32Kind || fd.Kind() == protoreflect.Fixed32Kind {
				m.Set(fd, protoreflect.ValueOfUint32(uint32(v.Uint())+1))
			}
			desc = fmt.Sprintf("%s: %d -> %d", name, v.Uint(), v.Uint()+1)
		case fd.Kind() == protoreflect.Int64Kind || fd.Kind() == protoreflect.Sint64Kind || fd.Kind() == protoreflect.Sfixed64Kind:
			m.Set(fd, protoreflect.ValueOfInt64(v.Int()+1))
			desc = fmt.Sprintf("%s: %d -> %d", name, v.Int(), v.Int()+1)
		case fd.Kind() == protoreflect.Int32Kind || fd.Kind() == protoreflect.Sint32Kind || fd.Kind() == protoreflect.Sfixed32Kind:
			m.Set(fd, protoreflect.ValueOfInt32(int32(v.Int())+1))
			desc = fmt.Sprintf("%s: %d -> %d", name, v.Int(), v.Int()+1)
		case fd.Kind() == protoreflect.BoolKind:
			m.Set(fd, protoreflect.ValueOfBool(!v.Bool()))
			desc = fmt.Sprintf("%s: %v -> %v", name, v.Bool(), !v.Bool())
		case fd.Kind() == protoreflect.EnumKind:
			m.Set(fd, protoreflect.ValueOfEnum(v.Enum()+1))
			desc = fmt.Sprintf("%s: enum %d -> %d", name, v.Enum(), v.Enum()+1)
		case fd.Kind() == protoreflect.StringKind:
			m.Set(fd, protoreflect.ValueOfString(v.String()+"x"))
			desc = fmt.Sprintf("%s: %q -> %q", name, v.String(), v.String()+"x")
		case fd.Kind() == protoreflect.BytesKind:
			m.Set(fd, protoreflect.ValueOfBytes(append(append([]byte{}, v.Bytes()...), 1)))
			desc = name + ": one byte appended"
		case fd.Kind() == protoreflect.MessageKind && fd.Message().FullName() == "google.protobuf.Any":
			// the payload: the same send with amount + 1
			msg, err := lib.FromAny(tx.Msg)
			if err != nil {
				unsupported = append(unsupported, name)
				continue
			}
			send, ok := msg.(*fsm.MessageSend)
			if !ok {
				unsupported = append(unsupported, name)
				continue
			}
			a, err := lib.NewAny(&fsm.MessageSend{FromAddress: send.FromAddress, ToAddress: send.ToAddress, Amount: send.Amount + 1})
			if err != nil {
				panic(err)
			}
			c.Msg = a
			desc = fmt.Sprintf("%s: send amount %d -> %d", name, send.Amount, send.Amount+1)
		default:
			unsupported = append(unsupported, name)
			continue
		}
		raw, err := lib.Marshal(c)
		if err != nil {
			panic(err)
		}
		out = append(out, variant{family: "unsigned-field", kind: "field-value:" + name, desc: desc, raw: raw})
	}
	return
}
