package c06

import (
	"math/big"
	"math/rand"

	"github.com/canopy-network/canopy/fsm"
	"github.com/canopy-network/canopy/lib"
	"github.com/canopy-network/canopy/lib/crypto"
	"github.com/ethereum/go-ethereum/common"
	ethTypes "github.com/ethereum/go-ethereum/core/types"
	"google.golang.org/protobuf/proto"
	"google.golang.org/protobuf/reflect/protoreflect"
)

// Helpers shared with the C19 decoder driver.

// RandWire returns n generated protobuf fields (valid and invalid tags, wire types, lengths, UTF-8).
func RandWire(r *rand.Rand, n int) []byte {
	var b []byte
	for i := 0; i < n; i++ {
		b = append(b, randField(r, 0)...)
	}
	return b
}

// Mutate applies 1..3 byte-level mutations.
func Mutate(r *rand.Rand, b []byte) []byte { return mutate(r, b) }

// GroupInputs is the permanent corpus of protobuf-group shapes spliced into an honest transaction.
func GroupInputs() [][]byte {
	_, in := GroupCorpus(HonestSend("decoders", ""))
	return in
}

// DecodeTxReal is lib.Unmarshal into a Transaction, canonicalised as the `decode` op expects.
func DecodeTxReal(raw []byte) string { return decodeReal(raw) }

// Reencodings returns the byte strings of the structural re-encoding family of a marshalled message
// whose sub-message fields are 2 and 3 (Transaction layout); used as decoder inputs.
func Reencodings(raw []byte, r *rand.Rand) [][]byte {
	vs, err := reencodings(raw, r)
	if err != nil {
		return nil
	}
	var out [][]byte
	for _, v := range vs {
		out = append(out, v.raw)
	}
	return out
}

// HonestSend returns a real signed send (ed25519) for (network 1, chain 1).
func HonestSend(label string, memo string) []byte {
	k, err := newSigner("ed25519", label)
	if err != nil {
		panic(err)
	}
	_, raw, err := signedSend(k, recipient, amount, netID, chainID, 10000, 1, txTime, memo, 0)
	if err != nil {
		panic(err)
	}
	return raw
}

// HonestEthTxs returns real signed Ethereum transactions (legacy RLP and RLP.V2 chain ids) and the
// Canopy transactions they convert to.
func HonestEthTxs() [][]byte {
	k, err := newSigner("ethsecp256k1", "rlp-sender")
	if err != nil {
		panic(err)
	}
	var out [][]byte
	one := new(big.Int).Mul(big.NewInt(int64(amount)), scale)
	v2, _ := fsm.CanopyIdsToEVMChainIdV2(chainID, netID)
	for _, evm := range []uint64{fsm.CanopyIdsToEVMChainId(chainID, netID), v2} {
		eth := signedEthTx(k, evm, ethTxSpec{nonce: 1, gas: 21000, gasPrice: new(big.Int).Set(scale), value: one}, recipient)
		out = append(out, eth)
		if tx, e := fsm.RLPToCanopyTransaction(eth); e == nil {
			if bz, e2 := lib.Marshal(tx); e2 == nil {
				out = append(out, bz)
			}
		}
		if tx, e := fsm.RLPToCanopyTransactionV2(eth); e == nil {
			if bz, e2 := lib.Marshal(tx); e2 == nil {
				out = append(out, bz)
			}
		}
	}
	return out
}

// Probe is a live state machine whose CheckTx is the handler behind the transaction decoder.
type Probe struct{ c *chain }

func NewProbe() *Probe {
	k, err := newSigner("ed25519", "probe")
	if err != nil {
		panic(err)
	}
	c, err := newChain(netID, chainID, []genesisAccount{{k.addr, funds}})
	if err != nil {
		panic(err)
	}
	c.applyBlock(nil, true)
	return &Probe{c}
}

func (p *Probe) Close() { p.c.close() }

// CheckTx runs the real fsm.CheckTx (with hash) and returns the error, if any.
func (p *Probe) CheckTx(raw []byte, hash string) lib.ErrorI {
	_, err := p.c.sm.CheckTx(raw, hash, nil)
	p.c.sm.Reset()
	return err
}

// ---- RLP-backed transactions for the C19 wrapper-binding family -----------------------------------

// EthWrapped is an honest RLP-backed Canopy transaction: the raw signed Ethereum transaction and the
// wrapper the repository's own conversion produces for it.
type EthWrapped struct {
	Name  string
	V2    bool
	EthTx []byte
	Tx    *lib.Transaction
	Raw   []byte
	Pub   []byte // the signer's canonical (64-byte) key
}

// EthWrappedCorpus: legacy-type and typed Ethereum transactions x (RLP, RLP.V2) x (plain transfer,
// subsidy call whose authorized signer is named inside the signed data).
func EthWrappedCorpus() []EthWrapped {
	k, err := newSigner("ethsecp256k1", "rlp-sender")
	if err != nil {
		panic(err)
	}
	ek := k.priv.(*crypto.ETHSECP256K1PrivateKey)
	one := new(big.Int).Mul(big.NewInt(int64(amount)), scale)
	var out []EthWrapped
	for _, v2 := range []bool{false, true} {
		evm := fsm.CanopyIdsToEVMChainId(chainID, netID)
		memo := "RLP"
		if v2 {
			evm, _ = fsm.CanopyIdsToEVMChainIdV2(chainID, netID)
			memo = "RLP.V2"
		}
		for _, payload := range []string{"transfer", "subsidy"} {
			to := common.BytesToAddress(recipient)
			value := one
			var data []byte
			if payload == "subsidy" {
				to = common.HexToAddress(fsm.CNPYContractAddress)
				value = big.NewInt(0)
				sub, e := lib.Marshal(&fsm.MessageSubsidy{Address: k.addr, ChainId: chainID, Amount: amount, Opcode: []byte("note")})
				if e != nil {
					panic(e)
				}
				sel, _ := lib.StringToBytes(fsm.SubsidySelector)
				data = append(sel, sub...)
			}
			for _, typed := range []bool{false, true} {
				var inner ethTypes.TxData
				if typed {
					tip := new(big.Int).Set(scale)
					inner = &ethTypes.DynamicFeeTx{ChainID: new(big.Int).SetUint64(evm), Nonce: 1, GasTipCap: tip,
						GasFeeCap: new(big.Int).Add(tip, big.NewInt(fsm.EthereumBaseFeePerGas)), Gas: 50000, To: &to, Value: value, Data: data}
				} else {
					inner = &ethTypes.LegacyTx{Nonce: 1, GasPrice: new(big.Int).Set(scale), Gas: 50000, To: &to, Value: value, Data: data}
				}
				signed, e := ethTypes.SignTx(ethTypes.NewTx(inner), ethTypes.LatestSignerForChainID(new(big.Int).SetUint64(evm)), ek.PrivateKey)
				if e != nil {
					panic(e)
				}
				bz, _ := signed.MarshalBinary()
				var tx *lib.Transaction
				var ce lib.ErrorI
				if v2 {
					tx, ce = fsm.RLPToCanopyTransactionV2(bz)
				} else {
					tx, ce = fsm.RLPToCanopyTransaction(bz)
				}
				if ce != nil {
					continue
				}
				raw, e2 := lib.Marshal(tx)
				if e2 != nil {
					panic(e2)
				}
				kind := "legacy-type"
				if typed {
					kind = "typed"
				}
				out = append(out, EthWrapped{Name: memo + "/" + kind + "/" + payload, V2: v2, EthTx: bz, Tx: tx, Raw: raw, Pub: k.pub})
			}
		}
	}
	return out
}

// OtherEthKey: another valid Ethereum key in canonical encoding, and its address.
func OtherEthKey() (pub, addr []byte) {
	k, err := newSigner("ethsecp256k1", "other-claimed-signer")
	if err != nil {
		panic(err)
	}
	return k.pub, k.addr
}

// FieldVariants: the canonical marshalling of tx with exactly one field (other than the signature
// container) set to another value.
func FieldVariants(tx *lib.Transaction) (names []string, txs []*lib.Transaction) {
	fields := tx.ProtoReflect().Descriptor().Fields()
	for i := 0; i < fields.Len(); i++ {
		fd := fields.Get(i)
		name := string(fd.Name())
		if name == "signature" {
			continue
		}
		c := proto.Clone(tx).(*lib.Transaction)
		m := c.ProtoReflect()
		v := m.Get(fd)
		switch {
		case fd.Kind() == protoreflect.Uint64Kind:
			m.Set(fd, protoreflect.ValueOfUint64(v.Uint()+1))
		case fd.Kind() == protoreflect.StringKind:
			m.Set(fd, protoreflect.ValueOfString(v.String()+"x"))
		case fd.Kind() == protoreflect.MessageKind && c.Msg != nil:
			c.Msg.Value = append(append([]byte{}, c.Msg.Value...), 0x30, 0x01) // one more field in the payload
		default:
			continue
		}
		names, txs = append(names, name), append(txs, c)
	}
	return
}

// VerifyRLP is the real StateMachine.VerifyRLPBytes.
func (p *Probe) VerifyRLP(tx *lib.Transaction) lib.ErrorI { return p.c.sm.VerifyRLPBytes(tx) }

// CheckSignature is the real StateMachine.CheckSignature (no batch verifier).
func (p *Probe) CheckSignature(tx *lib.Transaction, authorized [][]byte) (crypto.AddressI, lib.ErrorI) {
	return p.c.sm.CheckSignature(tx, authorized, nil)
}
