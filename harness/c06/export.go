package c06

import (
	"math/big"
	"math/rand"

	"github.com/canopy-network/canopy/fsm"
	"github.com/canopy-network/canopy/lib"
)

// Helpers shared with the C19 decoder driver.

// RandWire returns n generated protobuf fields (valid and invalid tags, wire types, lengths, UTF-8).
func RandWire(r *rand.Rand, n int) []byte {
	var b []byte
	for i := 0; i < n; i++ {
		b = append(b, randField(r, 0)...)
	}
	return b
}

// Mutate applies 1..3 byte-level mutations.
func Mutate(r *rand.Rand, b []byte) []byte { return mutate(r, b) }

// GroupInputs is the permanent corpus of protobuf-group shapes spliced into an honest transaction.
func GroupInputs() [][]byte {
	_, in := GroupCorpus(HonestSend("decoders", ""))
	return in
}

// DecodeTxReal is lib.Unmarshal into a Transaction, canonicalised as the `decode` op expects.
func DecodeTxReal(raw []byte) string { return decodeReal(raw) }

// Reencodings returns the byte strings of the structural re-encoding family of a marshalled message
// whose sub-message fields are 2 and 3 (Transaction layout); used as decoder inputs.
func Reencodings(raw []byte, r *rand.Rand) [][]byte {
	vs, err := reencodings(raw, r)
	if err != nil {
		return nil
	}
	var out [][]byte
	for _, v := range vs {
		out = append(out, v.raw)
	}
	return out
}

// HonestSend returns a real signed send (ed25519) for (network 1, chain 1).
func HonestSend(label string, memo string) []byte {
	k, err := newSigner("ed25519", label)
	if err != nil {
		panic(err)
	}
	_, raw, err := signedSend(k, recipient, amount, netID, chainID, 10000, 1, txTime, memo, 0)
	if err != nil {
		panic(err)
	}
	return raw
}

// HonestEthTxs returns real signed Ethereum transactions (legacy RLP and RLP.V2 chain ids) and the
// Canopy transactions they convert to.
func HonestEthTxs() [][]byte {
	k, err := newSigner("ethsecp256k1", "rlp-sender")
	if err != nil {
		panic(err)
	}
	var out [][]byte
	one := new(big.Int).Mul(big.NewInt(int64(amount)), scale)
	v2, _ := fsm.CanopyIdsToEVMChainIdV2(chainID, netID)
	for _, evm := range []uint64{fsm.CanopyIdsToEVMChainId(chainID, netID), v2} {
		eth := signedEthTx(k, evm, ethTxSpec{nonce: 1, gas: 21000, gasPrice: new(big.Int).Set(scale), value: one}, recipient)
		out = append(out, eth)
		if tx, e := fsm.RLPToCanopyTransaction(eth); e == nil {
			if bz, e2 := lib.Marshal(tx); e2 == nil {
				out = append(out, bz)
			}
		}
		if tx, e := fsm.RLPToCanopyTransactionV2(eth); e == nil {
			if bz, e2 := lib.Marshal(tx); e2 == nil {
				out = append(out, bz)
			}
		}
	}
	return out
}

// Probe is a live state machine whose CheckTx is the handler behind the transaction decoder.
type Probe struct{ c *chain }

func NewProbe() *Probe {
	k, err := newSigner("ed25519", "probe")
	if err != nil {
		panic(err)
	}
	c, err := newChain(netID, chainID, []genesisAccount{{k.addr, funds}})
	if err != nil {
		panic(err)
	}
	c.applyBlock(nil, true)
	return &Probe{c}
}

func (p *Probe) Close() { p.c.close() }

// CheckTx runs the real fsm.CheckTx (with hash) and returns the error, if any.
func (p *Probe) CheckTx(raw []byte, hash string) lib.ErrorI {
	_, err := p.c.sm.CheckTx(raw, hash, nil)
	p.c.sm.Reset()
	return err
}
