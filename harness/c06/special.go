package c06

import (
	"bytes"
	"fmt"
	"math/big"

	"github.com/canopy-network/canopy/fsm"
	"github.com/canopy-network/canopy/lib"
	"github.com/canopy-network/canopy/lib/crypto"
	"github.com/drand/kyber"
	"github.com/ethereum/go-ethereum/common"
	ethTypes "github.com/ethereum/go-ethereum/core/types"

	"verifharness/drv"
)

// ---- multi-signature accounts: signer-subset and key-order variants --------------------------------

type multiVariant struct {
	desc string
	pub  []byte
	sig  []byte
}

// runMultisig: a 2-of-3 BLS account; all three members sign the same send; every admissible
// (key order, signer subset) pair is a different byte string with the same signed content.
func runMultisig(o *drv.Out, fo *failOnce) {
	var members []*signer
	for i := 0; i < 3; i++ {
		k, err := newSigner("bls", fmt.Sprintf("member-%d", i))
		if err != nil {
			panic(err)
		}
		members = append(members, k)
	}
	build := func(order []int, subset []int, msg []byte) (*multiVariant, []byte) {
		var points []kyber.Point
		for _, i := range order {
			p, err := crypto.BytesToBLS12381Point(members[i].pub)
			if err != nil {
				panic(err)
			}
			points = append(points, p)
		}
		mk, err := crypto.NewAccountAuthMultiBLSFromPoints(points, nil, 2)
		if err != nil {
			panic(err)
		}
		addr := mk.Address().Bytes()
		if msg == nil {
			return nil, addr
		}
		for pos, i := range order {
			for _, s := range subset {
				if s == i {
					if err := mk.AddSigner(members[i].priv.Sign(msg), pos); err != nil {
						panic(err)
					}
				}
			}
		}
		agg, err := mk.AggregateSignatures()
		if err != nil {
			panic(err)
		}
		return &multiVariant{desc: fmt.Sprintf("key order %v, signers %v", order, subset), pub: mk.Bytes(), sig: agg}, addr
	}
	_, addr := build([]int{0, 1, 2}, nil, nil)
	s := newScenario(o, "replay-multisig-bls-2of3", netID, chainID, []genesisAccount{{addr, funds}, {recipient, 0}})
	defer s.c.close()
	fee := s.c.minSendFee()
	a, err := lib.NewAny(&fsm.MessageSend{FromAddress: addr, ToAddress: recipient, Amount: amount})
	if err != nil {
		panic(err)
	}
	tx := &lib.Transaction{MessageType: fsm.MessageSendName, Msg: a, CreatedHeight: 1, Time: txTime, Fee: fee, NetworkId: netID, ChainId: chainID}
	sb, _ := tx.GetSignBytes()
	var vs []*multiVariant
	for _, order := range [][]int{{0, 1, 2}, {1, 0, 2}, {2, 1, 0}} {
		for _, subset := range [][]int{{0, 2}, {0, 1}, {1, 2}, {0, 1, 2}, {1}} {
			v, ad := build(order, subset, sb)
			if !bytes.Equal(ad, addr) {
				panic("c06: multisig address depends on key order")
			}
			vs = append(vs, v)
		}
	}
	rcp := crypto.NewAddressFromBytes(recipient)
	var first []byte
	executed := 0
	for i, v := range vs {
		t2 := &lib.Transaction{MessageType: tx.MessageType, Msg: tx.Msg, CreatedHeight: tx.CreatedHeight, Time: tx.Time, Fee: tx.Fee, NetworkId: tx.NetworkId, ChainId: tx.ChainId,
			Signature: &lib.Signature{PublicKey: v.pub, Signature: v.sig}}
		raw, err := lib.Marshal(t2)
		if err != nil {
			panic(err)
		}
		// tell the model what exists: this byte string is a key of the account, and whether the real
		// verifier accepts the aggregate under it (threshold included)
		pk, e := crypto.NewPublicKeyFromBytes(v.pub)
		if e != nil {
			panic(e)
		}
		s.o.Op(fmt.Sprintf("key %s %s", drv.Hex(v.pub), drv.Hex(pk.Address().Bytes())), "ok")
		if pk.VerifyBytes(sb, v.sig) {
			s.o.Op(fmt.Sprintf("sig %s %s %s", drv.Hex(v.pub), drv.Hex(sb), drv.Hex(v.sig)), "ok")
		}
		before, _ := s.c.account(rcp)
		s.block([][]byte{raw}, true)
		after, _ := s.c.account(rcp)
		o.Count("multisig-variant")
		o.Nontrivial("multisig|" + v.desc)
		if after > before {
			executed++
			if first == nil {
				first = raw
				o.Sample("multisig 2-of-3: " + v.desc + " executed (first inclusion)")
				continue
			}
			// recorded, not failed: a different signer subset is a different authorisation, producible
			// only by someone who holds the members' individual signatures (see checks/C06.py)
			o.Count("multisig-variant-executed-again")
			if executed <= 3 {
				o.Sample(fmt.Sprintf("multisig 2-of-3: %s executed AGAIN (recipient %d -> %d) after %d earlier execution(s) of the same signed content", v.desc, before, after, executed-1))
			}
			if _, ok := o.Extra["multisig_replay_example"]; !ok {
				o.Extra["multisig_replay_example"] = map[string]any{"included": drv.Hex(first), "executed_again": drv.Hex(raw), "variant": v.desc, "index": i}
			}
		}
	}
	o.Extra["multisig_signed_content_executions"] = executed
	o.Extra["multisig_variants_offered"] = len(vs)
	// an OUTSIDER holds only what is on chain: the key list, the bitmap and the aggregate of the first
	// inclusion (key order [0 1 2], signers [0 2]). Everything he can assemble from that:
	incl := vs[0]
	pointsIn := func(order []int) []kyber.Point {
		var ps []kyber.Point
		for _, i := range order {
			p, _ := crypto.BytesToBLS12381Point(members[i].pub)
			ps = append(ps, p)
		}
		return ps
	}
	type attempt struct {
		desc      string
		order     []int
		bitmap    []byte
		threshold uint32
	}
	attempts := []attempt{
		{"aggregate reused under key order [1 0 2] (bitmap follows the members)", []int{1, 0, 2}, []byte{0b110}, 2},
		{"aggregate reused under key order [2 1 0]", []int{2, 1, 0}, []byte{0b101}, 2},
		{"aggregate reused with all three bits set", []int{0, 1, 2}, []byte{0b111}, 2},
		{"aggregate reused with signers [0 1] claimed", []int{0, 1, 2}, []byte{0b011}, 2},
		{"aggregate reused with threshold 1", []int{0, 1, 2}, []byte{0b101}, 1},
		{"aggregate reused with threshold 3", []int{0, 1, 2}, []byte{0b101}, 3},
	}
	outsider := 0
	for _, at := range attempts {
		mk, err := crypto.NewAccountAuthMultiBLSFromPoints(pointsIn(at.order), at.bitmap, at.threshold)
		if err != nil {
			continue
		}
		pub := mk.Bytes()
		t2 := &lib.Transaction{MessageType: tx.MessageType, Msg: tx.Msg, CreatedHeight: tx.CreatedHeight, Time: tx.Time, Fee: tx.Fee, NetworkId: tx.NetworkId, ChainId: tx.ChainId,
			Signature: &lib.Signature{PublicKey: pub, Signature: incl.sig}}
		raw, err2 := lib.Marshal(t2)
		if err2 != nil {
			panic(err2)
		}
		pk, e := crypto.NewPublicKeyFromBytes(pub)
		if e != nil {
			continue
		}
		s.o.Op(fmt.Sprintf("key %s %s", drv.Hex(pub), drv.Hex(pk.Address().Bytes())), "ok")
		if pk.VerifyBytes(sb, incl.sig) {
			s.o.Op(fmt.Sprintf("sig %s %s %s", drv.Hex(pub), drv.Hex(sb), drv.Hex(incl.sig)), "ok")
		}
		before, _ := s.c.account(rcp)
		s.block([][]byte{raw}, true)
		after, _ := s.c.account(rcp)
		o.Count("multisig-outsider-attempt")
		o.Nontrivial("multisig-outsider|" + at.desc)
		if after > before {
			outsider++
			fo.fail("C06:replay-by-multisig-variant", "2-of-3 BLS account: an outsider variant built from on-chain data only ("+at.desc+") executed again",
				map[string]any{"included": drv.Hex(first), "replayed": drv.Hex(raw), "variant": at.desc})
		}
	}
	o.Extra["multisig_outsider_replays"] = outsider
}

// ---- Ethereum-wrapped transactions (RLP, RLP.V2) ---------------------------------------------------

type ethTxSpec struct {
	nonce    uint64
	gas      uint64
	gasPrice *big.Int
	value    *big.Int
}

var scale = new(big.Int).Exp(big.NewInt(10), big.NewInt(12), nil)

// signedEthTx returns the raw signed Ethereum transaction (legacy type) for the given EVM chain id.
func signedEthTx(k *signer, evmChainID uint64, sp ethTxSpec, to []byte) []byte {
	ek, ok := k.priv.(*crypto.ETHSECP256K1PrivateKey)
	if !ok {
		panic("c06: not an eth key")
	}
	toAddr := common.BytesToAddress(to)
	t := ethTypes.NewTx(&ethTypes.LegacyTx{Nonce: sp.nonce, GasPrice: sp.gasPrice, Gas: sp.gas, To: &toAddr, Value: sp.value})
	signed, err := ethTypes.SignTx(t, ethTypes.LatestSignerForChainID(new(big.Int).SetUint64(evmChainID)), ek.PrivateKey)
	if err != nil {
		panic(err)
	}
	bz, err := signed.MarshalBinary()
	if err != nil {
		panic(err)
	}
	return bz
}

// declareRLP tells the model the two uninterpreted functions at this point: the Ethereum hash of the
// raw transaction and the canonical Canopy transaction the real conversion yields (empty when the
// conversion fails: then nothing can equal it).
func (s *scenario) declareRLP(v2 bool, ethTx []byte) (raw []byte, ok bool) {
	var et ethTypes.Transaction
	if err := et.UnmarshalBinary(ethTx); err != nil {
		return nil, false
	}
	var conv *lib.Transaction
	var err lib.ErrorI
	if v2 {
		conv, err = fsm.RLPToCanopyTransactionV2(ethTx)
	} else {
		conv, err = fsm.RLPToCanopyTransaction(ethTx)
	}
	flag := 0
	if v2 {
		flag = 1
	}
	if err != nil {
		cl := class(txOutcome{code: err.Code(), lerr: err})
		s.o.Op(fmt.Sprintf("rlp %d %s %s err:%s", flag, drv.Hex(ethTx), drv.Hex(et.Hash().Bytes()), cl[len("rej:"):]), "ok")
		return nil, false
	}
	raw, e := lib.Marshal(conv)
	if e != nil {
		panic(e)
	}
	s.o.Op(fmt.Sprintf("rlp %d %s %s %s", flag, drv.Hex(ethTx), drv.Hex(et.Hash().Bytes()), drv.Hex(raw)), "ok")
	return raw, true
}

func runRLP(o *drv.Out, fo *failOnce) {
	k, err := newSigner("ethsecp256k1", "rlp-sender")
	if err != nil {
		panic(err)
	}
	rcp := crypto.NewAddressFromBytes(recipient)
	one := new(big.Int).Mul(big.NewInt(int64(amount)), scale) // 1000 uCNPY in 18 decimals
	spec := func(nonce uint64) ethTxSpec {
		return ethTxSpec{nonce: nonce, gas: 21000, gasPrice: new(big.Int).Set(scale), value: one}
	}
	for _, v2 := range []bool{true, false} {
		name := "rlp-legacy"
		evm := fsm.CanopyIdsToEVMChainId(chainID, netID)
		if v2 {
			name = "rlp-v2"
			var ok bool
			evm, ok = fsm.CanopyIdsToEVMChainIdV2(chainID, netID)
			if !ok {
				panic("c06: no RLP.V2 chain id")
			}
		}
		s := newScenario(o, name, netID, chainID, []genesisAccount{{k.addr, funds}, {recipient, 0}})
		s.declareKey(k)
		offer := func(desc string, raw []byte, expectReplayOf []byte) (executed bool) {
			before, _ := s.c.account(rcp)
			s.block([][]byte{raw}, true)
			after, _ := s.c.account(rcp)
			o.Count(name + ":" + desc)
			o.Nontrivial(name + "|" + desc + "|" + drv.Hex(raw))
			if after > before && expectReplayOf != nil {
				same, identical, _, _ := sameSignedContent(expectReplayOf, raw)
				if same || identical {
					fo.fail("C06:replay-by-reencoding", fmt.Sprintf("%s: %s of an included Ethereum-wrapped send executed again", name, desc),
						map[string]any{"included": drv.Hex(expectReplayOf), "replayed": drv.Hex(raw)})
				}
			}
			return after > before
		}
		// created height / nonce: legacy RLP uses the eth nonce as created height (must be >= 1)
		n0 := uint64(1)
		eth0 := signedEthTx(k, evm, spec(n0), recipient)
		raw0, ok := s.declareRLP(v2, eth0)
		if !ok {
			panic("c06: honest RLP conversion failed: " + name)
		}
		if !offer("honest", raw0, nil) {
			// the honest transaction must execute, otherwise the scenario proves nothing
			o.Count(name + ":honest-not-executed")
			s.c.close()
			continue
		}
		o.Sample(fmt.Sprintf("%s honest eth tx=%s canopy tx=%s", name, drv.Hex(eth0), drv.Hex(raw0)))
		offer("identical-bytes", raw0, raw0)
		// the same Canopy transaction with the 65-byte form of the recovered key
		if b, err := replaceSigField(raw0, 1, append([]byte{4}, k.pub...)); err == nil {
			if offer("pubkey-65", b, raw0) {
				fo.fail("C06:replay-by-pubkey-encoding", name+": the 65-byte key form of an included Ethereum-wrapped send executed again", map[string]any{"included": drv.Hex(raw0), "replayed": drv.Hex(b)})
			}
		}
		// the same eth transaction wrapped with the other memo
		other, _ := func() ([]byte, bool) {
			tx := new(lib.Transaction)
			if lib.Unmarshal(raw0, tx) != nil {
				return nil, false
			}
			if v2 {
				tx.Memo = lib.RLPIndicator
			} else {
				tx.Memo = lib.RLPV2Indicator
			}
			b, e := lib.Marshal(tx)
			return b, e == nil
		}()
		if other != nil {
			s.declareRLP(!v2, eth0)
			if offer("other-memo", other, nil) {
				fo.fail("C06:replay-by-reencoding", name+": an included Ethereum transaction executed again under the other RLP memo", map[string]any{"included": drv.Hex(raw0), "replayed": drv.Hex(other)})
			}
		}
		// ECDSA twin (r, n-s, flipped v) of the Ethereum signature
		if twin := ethHighSTwin(eth0, evm); twin != nil {
			if traw, ok := s.declareRLP(v2, twin); ok {
				if offer("eth-high-s-twin", traw, raw0) {
					fo.fail("C06:replay-by-signature-malleation", name+": the high-S twin of an included Ethereum transaction executed again", map[string]any{"included": drv.Hex(raw0), "replayed": drv.Hex(traw)})
				}
			} else {
				// conversion refused: wrap it by hand so that the state machine sees it
				tx := new(lib.Transaction)
				_ = lib.Unmarshal(raw0, tx)
				tx.Signature.Signature = twin
				if b, e := lib.Marshal(tx); e == nil {
					if offer("eth-high-s-twin", b, raw0) {
						fo.fail("C06:replay-by-signature-malleation", name+": the high-S twin of an included Ethereum transaction executed again", map[string]any{"included": drv.Hex(raw0), "replayed": drv.Hex(b)})
					}
				}
			}
		}
		if v2 {
			// nonce floor: after nonce 1 the floor is 2
			for _, n := range []uint64{0, 1, 2, 7, 5, 7, 8, ^uint64(0)} {
				_, floor := s.c.account(crypto.NewAddressFromBytes(k.addr))
				sp := spec(n)
				sp.gasPrice = new(big.Int).Add(scale, big.NewInt(int64(n%5)+1)) // distinct content per attempt
				eth := signedEthTx(k, evm, sp, recipient)
				raw, ok := s.declareRLP(true, eth)
				if !ok {
					continue
				}
				ex := offer(fmt.Sprintf("nonce-%d-floor-%d", n, floor), raw, nil)
				if ex && (n < floor || n == ^uint64(0)) {
					fo.fail("C06:nonce-floor-not-enforced", fmt.Sprintf("an RLP.V2 transaction with nonce %d executed although the account floor was %d", n, floor),
						map[string]any{"raw": drv.Hex(raw), "nonce": n, "floor": floor})
				}
				if ex {
					if _, nf := s.c.account(crypto.NewAddressFromBytes(k.addr)); nf != n+1 {
						fo.fail("C06:nonce-floor-not-enforced", fmt.Sprintf("after executing nonce %d the floor is %d", n, nf), map[string]any{"raw": drv.Hex(raw)})
					}
				}
			}
		}
		s.c.close()
	}
}

// ethHighSTwin returns the same legacy transaction with signature (r, n-s) and the recovery bit
// flipped; nil if it cannot be built.
func ethHighSTwin(ethTx []byte, evmChainID uint64) []byte {
	var t ethTypes.Transaction
	if err := t.UnmarshalBinary(ethTx); err != nil || t.Type() != ethTypes.LegacyTxType {
		return nil
	}
	v, r, sv := t.RawSignatureValues()
	ns := new(big.Int).Sub(secpN, sv)
	// EIP-155: v = 35 + 2*chainId + recid
	base := new(big.Int).Add(big.NewInt(35), new(big.Int).Mul(big.NewInt(2), new(big.Int).SetUint64(evmChainID)))
	rec := new(big.Int).Sub(v, base)
	nv := new(big.Int).Add(base, new(big.Int).Sub(big.NewInt(1), rec))
	tw := ethTypes.NewTx(&ethTypes.LegacyTx{Nonce: t.Nonce(), GasPrice: t.GasPrice(), Gas: t.Gas(), To: t.To(), Value: t.Value(), Data: t.Data(), V: nv, R: r, S: ns})
	bz, err := tw.MarshalBinary()
	if err != nil {
		return nil
	}
	return bz
}
