package c06

import (
	"math/rand"

	"google.golang.org/protobuf/encoding/protowire"
)

// Protobuf groups (wire types 3 / 4). The Go decoder skips a well-formed group under any field number
// as an UNKNOWN field (protowire.ConsumeFieldValue); malformed groups and stray end-group tags are
// decode errors; lib.preflightProtoBytes refuses both wire types at the top level of a critical message.

func tagBytes(num uint64, wt uint64) []byte { return protowire.AppendVarint(nil, num<<3|wt) }

// wellFormedGroup: start tag, generated content (values of every wire type, nested groups), end tag.
func wellFormedGroup(r *rand.Rand, num uint64, depth int) []byte {
	out := tagBytes(num, 3)
	for i := 0; i < r.Intn(4); i++ {
		inner := []uint64{1, 2, 3, 15, 16, 1<<29 - 1, 1 << 29, 1<<31 - 1}[r.Intn(8)]
		switch r.Intn(5) {
		case 0:
			out = append(out, tagBytes(inner, 0)...)
			out = protowire.AppendVarint(out, r.Uint64()>>uint(r.Intn(64)))
		case 1:
			out = append(out, tagBytes(inner, 1)...)
			out = append(out, 1, 2, 3, 4, 5, 6, 7, 8)
		case 2:
			out = append(out, tagBytes(inner, 5)...)
			out = append(out, 1, 2, 3, 4)
		case 3:
			out = append(out, tagBytes(inner, 2)...)
			n := r.Intn(5)
			out = protowire.AppendVarint(out, uint64(n))
			for j := 0; j < n; j++ {
				out = append(out, byte(r.Intn(256)))
			}
		case 4:
			if depth < 3 {
				out = append(out, wellFormedGroup(r, inner, depth+1)...)
			}
		}
	}
	return append(out, tagBytes(num, 4)...)
}

// randGroup: mostly well-formed, otherwise one of the malformed shapes.
func randGroup(r *rand.Rand) []byte {
	num := []uint64{1, 2, 3, 4, 7, 10, 11, 15, 1000, 1<<29 - 1, 1 << 29}[r.Intn(11)]
	g := wellFormedGroup(r, num, 0)
	switch r.Intn(8) {
	case 0: // end tag of another number
		g = append(g[:len(g)-len(tagBytes(num, 4))], tagBytes(num+1, 4)...)
	case 1: // truncated
		if len(g) > 1 {
			g = g[:1+r.Intn(len(g)-1)]
		}
	case 2: // stray end-group tag only
		g = tagBytes(num, 4)
	case 3: // reserved wire type inside
		g = append(append(tagBytes(num, 3), tagBytes(1, uint64(6+r.Intn(2)))...), tagBytes(num, 4)...)
	}
	return g
}

// groupShapes: the permanent corpus of group shapes (name, bytes).
func groupShapes() []struct {
	name string
	b    []byte
} {
	cat := func(bs ...[]byte) []byte {
		var o []byte
		for _, b := range bs {
			o = append(o, b...)
		}
		return o
	}
	deep := []byte{}
	for i := 0; i < 60; i++ {
		deep = append(deep, tagBytes(15, 3)...)
	}
	for i := 0; i < 60; i++ {
		deep = append(deep, tagBytes(15, 4)...)
	}
	return []struct {
		name string
		b    []byte
	}{
		{"empty-group-15", cat(tagBytes(15, 3), tagBytes(15, 4))},
		{"group-with-values", cat(tagBytes(15, 3), []byte{0x08, 0x01, 0x12, 0x02, 0x61, 0x62, 0x1d, 1, 2, 3, 4, 0x21, 1, 2, 3, 4, 5, 6, 7, 8}, tagBytes(15, 4))},
		{"nested-groups", cat(tagBytes(15, 3), tagBytes(16, 3), tagBytes(17, 3), tagBytes(17, 4), tagBytes(16, 4), tagBytes(15, 4))},
		{"known-number-1-as-group", cat(tagBytes(1, 3), tagBytes(1, 4))},
		{"known-number-4-as-group", cat(tagBytes(4, 3), []byte{0x08, 0x05}, tagBytes(4, 4))},
		{"end-number-mismatch", cat(tagBytes(15, 3), tagBytes(16, 4))},
		{"nested-end-number-mismatch", cat(tagBytes(15, 3), tagBytes(16, 3), tagBytes(15, 4), tagBytes(16, 4))},
		{"truncated-no-end", cat(tagBytes(15, 3), []byte{0x08, 0x01})},
		{"truncated-inside-bytes", cat(tagBytes(15, 3), []byte{0x12, 0x05, 0x61}, tagBytes(15, 4))},
		{"stray-end-group", tagBytes(15, 4)},
		{"stray-end-group-known-number", tagBytes(3, 4)},
		{"reserved-wiretype-6-inside", cat(tagBytes(15, 3), tagBytes(1, 6), tagBytes(15, 4))},
		{"reserved-wiretype-7-inside", cat(tagBytes(15, 3), tagBytes(1, 7), tagBytes(15, 4))},
		{"inner-number-2^30", cat(tagBytes(15, 3), tagBytes(1<<30, 0), []byte{1}, tagBytes(15, 4))},
		{"inner-number-2^31-1", cat(tagBytes(15, 3), tagBytes(1<<31-1, 0), []byte{1}, tagBytes(15, 4))},
		{"inner-number-2^31", cat(tagBytes(15, 3), tagBytes(1<<31, 0), []byte{1}, tagBytes(15, 4))},
		{"inner-number-0", cat(tagBytes(15, 3), tagBytes(0, 0), []byte{1}, tagBytes(15, 4))},
		{"group-number-2^29-1", cat(tagBytes(1<<29-1, 3), tagBytes(1<<29-1, 4))},
		{"group-number-2^29", cat(tagBytes(1<<29, 3), tagBytes(1<<29, 4))},
		{"inner-group-number-2^30", cat(tagBytes(15, 3), tagBytes(1<<30, 3), tagBytes(1<<30, 4), tagBytes(15, 4))},
		{"inner-varint-overflow", cat(tagBytes(15, 3), []byte{0x08, 0xff, 0xff, 0xff, 0xff, 0xff, 0xff, 0xff, 0xff, 0xff, 0x02}, tagBytes(15, 4))},
		{"inner-length-2^64-1", cat(tagBytes(15, 3), []byte{0x12, 0xff, 0xff, 0xff, 0xff, 0xff, 0xff, 0xff, 0xff, 0xff, 0x01}, tagBytes(15, 4))},
		{"non-minimal-group-tags", cat(paddedVarint(15<<3|3, 2), paddedVarint(15<<3|4, 3))},
		{"deep-60", deep},
		{"two-groups", cat(tagBytes(15, 3), tagBytes(15, 4), tagBytes(16, 3), tagBytes(16, 4))},
	}
}

// spliceInto puts extra at the front / end of the message, or of the sub-message in field sub.
func spliceInto(raw []byte, sub protowire.Number, front bool, extra []byte) []byte {
	top, err := parseWire(raw)
	if err != nil {
		return append(append([]byte{}, raw...), extra...)
	}
	if sub == 0 {
		if front {
			return append(append([]byte{}, extra...), raw...)
		}
		return append(append([]byte{}, raw...), extra...)
	}
	for i := range top {
		if top[i].num == sub && top[i].typ == protowire.BytesType {
			if front {
				top[i].data = append(append([]byte{}, extra...), top[i].data...)
			} else {
				top[i].data = append(append([]byte{}, top[i].data...), extra...)
			}
			break
		}
	}
	return encodeWire(top)
}

// GroupCorpus: every group shape at the top level, inside the signature and inside the Any of an
// honest transaction (front and end), plus each shape alone.
func GroupCorpus(honest []byte) (names []string, inputs [][]byte) {
	for _, g := range groupShapes() {
		names, inputs = append(names, g.name+"@alone"), append(inputs, g.b)
		for _, pl := range []struct {
			n     string
			sub   protowire.Number
			front bool
		}{{"top-end", 0, false}, {"top-front", 0, true}, {"signature-end", 3, false}, {"signature-front", 3, true}, {"any-end", 2, false}, {"any-front", 2, true}} {
			names, inputs = append(names, g.name+"@"+pl.n), append(inputs, spliceInto(honest, pl.sub, pl.front, g.b))
		}
	}
	return
}

// insertGroup splices a generated group at a random place of b (field boundary inside the message,
// the signature or the Any when b parses, any byte offset otherwise).
func insertGroup(r *rand.Rand, b []byte) []byte {
	g := randGroup(r)
	if _, err := parseWire(b); err == nil && r.Intn(4) != 0 {
		return spliceInto(b, []protowire.Number{0, 0, 2, 3, 3}[r.Intn(5)], r.Intn(2) == 0, g)
	}
	i := 0
	if len(b) > 0 {
		i = r.Intn(len(b) + 1)
	}
	out := append([]byte{}, b[:i]...)
	out = append(out, g...)
	return append(out, b[i:]...)
}
