package c06

import (
	"fmt"
	"math/rand"

	"google.golang.org/protobuf/encoding/protowire"
)

// A wire-level view of one protobuf message: the list of its fields exactly as encoded, so that
// every re-encoding the wire format allows can be produced mechanically.
type wfield struct {
	num  protowire.Number
	typ  protowire.Type
	v    uint64 // varint value
	data []byte // payload of a length-delimited / fixed field
	// encoding choices (0 = minimal)
	tagPad, lenPad, valPad int
}

func parseWire(b []byte) ([]wfield, error) {
	var out []wfield
	for len(b) > 0 {
		num, typ, n := protowire.ConsumeTag(b)
		if n < 0 {
			return nil, fmt.Errorf("bad tag")
		}
		b = b[n:]
		f := wfield{num: num, typ: typ}
		switch typ {
		case protowire.VarintType:
			v, n := protowire.ConsumeVarint(b)
			if n < 0 {
				return nil, fmt.Errorf("bad varint")
			}
			f.v = v
			b = b[n:]
		case protowire.BytesType:
			d, n := protowire.ConsumeBytes(b)
			if n < 0 {
				return nil, fmt.Errorf("bad bytes")
			}
			f.data = append([]byte{}, d...)
			b = b[n:]
		case protowire.Fixed32Type:
			if len(b) < 4 {
				return nil, fmt.Errorf("bad fixed32")
			}
			f.data = append([]byte{}, b[:4]...)
			b = b[4:]
		case protowire.Fixed64Type:
			if len(b) < 8 {
				return nil, fmt.Errorf("bad fixed64")
			}
			f.data = append([]byte{}, b[:8]...)
			b = b[8:]
		default:
			return nil, fmt.Errorf("wire type %d", typ)
		}
		out = append(out, f)
	}
	return out, nil
}

// paddedVarint encodes v with `pad` extra continuation bytes (a non-minimal encoding of the same value).
func paddedVarint(v uint64, pad int) []byte {
	b := protowire.AppendVarint(nil, v)
	if pad == 0 {
		return b
	}
	b[len(b)-1] |= 0x80
	for i := 0; i < pad-1; i++ {
		b = append(b, 0x80)
	}
	return append(b, 0x00)
}

func (f wfield) encode() []byte {
	out := paddedVarint(protowire.EncodeTag(f.num, f.typ), f.tagPad)
	switch f.typ {
	case protowire.VarintType:
		out = append(out, paddedVarint(f.v, f.valPad)...)
	case protowire.BytesType:
		out = append(out, paddedVarint(uint64(len(f.data)), f.lenPad)...)
		out = append(out, f.data...)
	default:
		out = append(out, f.data...)
	}
	return out
}

func encodeWire(fs []wfield) []byte {
	var out []byte
	for _, f := range fs {
		out = append(out, f.encode()...)
	}
	return out
}

func cloneFields(fs []wfield) []wfield {
	out := make([]wfield, len(fs))
	copy(out, fs)
	for i := range out {
		out[i].data = append([]byte{}, fs[i].data...)
	}
	return out
}

func varintLen(v uint64) int { return protowire.SizeVarint(v) }

// variant is one member of the re-encoding family of a transaction.
type variant struct {
	family string // C06 oracle family: reencoding | pubkey | sigmall
	kind   string // generator that produced it (histogram)
	desc   string
	raw    []byte
}

// Transaction schema positions (lib/.proto/tx.proto); the generator itself is schema-agnostic
// except for knowing which numbers are scalars / strings / sub-messages.
var txVarintFields = []protowire.Number{4, 5, 6, 8, 9, 10}
var txStringFields = []protowire.Number{1, 7}
var txMessageFields = []protowire.Number{2, 3}

func has(fs []wfield, n protowire.Number) bool {
	for _, f := range fs {
		if f.num == n {
			return true
		}
	}
	return false
}

// wireVariants generates the re-encodings of one message at one nesting level. `emit` receives the
// new encoding of that level.
func wireVariants(fs []wfield, level string, varints, strs, msgs []protowire.Number, r *rand.Rand, emit func(kind, desc string, enc []byte)) {
	n := len(fs)
	// 1. field order: reverse, every rotation, every adjacent swap, a few random permutations
	if n > 1 {
		rev := cloneFields(fs)
		for i, j := 0, n-1; i < j; i, j = i+1, j-1 {
			rev[i], rev[j] = rev[j], rev[i]
		}
		emit("perm", level+":reverse", encodeWire(rev))
		for k := 1; k < n; k++ {
			rot := append(cloneFields(fs[k:]), cloneFields(fs[:k])...)
			emit("perm", fmt.Sprintf("%s:rotate%d", level, k), encodeWire(rot))
		}
		for k := 0; k+1 < n; k++ {
			sw := cloneFields(fs)
			sw[k], sw[k+1] = sw[k+1], sw[k]
			emit("perm", fmt.Sprintf("%s:swap%d", level, k), encodeWire(sw))
		}
		for k := 0; k < 4; k++ {
			p := cloneFields(fs)
			r.Shuffle(n, func(i, j int) { p[i], p[j] = p[j], p[i] })
			emit("perm", fmt.Sprintf("%s:shuffle%d", level, k), encodeWire(p))
		}
	}
	// 2. explicit default for every absent scalar / string; empty extra occurrence of a present sub-message
	for _, num := range varints {
		if !has(fs, num) {
			for _, at := range []string{"end", "front"} {
				g := cloneFields(fs)
				z := wfield{num: num, typ: protowire.VarintType, v: 0}
				if at == "end" {
					g = append(g, z)
				} else {
					g = append([]wfield{z}, g...)
				}
				emit("explicit-default", fmt.Sprintf("%s:field%d=0@%s", level, num, at), encodeWire(g))
			}
		}
	}
	for _, num := range strs {
		if !has(fs, num) {
			g := append(cloneFields(fs), wfield{num: num, typ: protowire.BytesType})
			emit("explicit-default", fmt.Sprintf("%s:field%d=empty", level, num), encodeWire(g))
		}
	}
	for _, num := range msgs {
		if has(fs, num) {
			g := append(cloneFields(fs), wfield{num: num, typ: protowire.BytesType})
			emit("empty-merge", fmt.Sprintf("%s:field%d+empty-occurrence", level, num), encodeWire(g))
			g = append([]wfield{{num: num, typ: protowire.BytesType}}, cloneFields(fs)...)
			emit("empty-merge", fmt.Sprintf("%s:empty-occurrence+field%d", level, num), encodeWire(g))
		}
	}
	// 3. non-minimal varints: tag, length and value of every field, every admissible padding
	for i, f := range fs {
		tag := protowire.EncodeTag(f.num, f.typ)
		for pad := 1; varintLen(tag)+pad <= 10; pad++ {
			g := cloneFields(fs)
			g[i].tagPad = pad
			emit("varint-pad-tag", fmt.Sprintf("%s:field%d tag+%d", level, f.num, pad), encodeWire(g))
		}
		switch f.typ {
		case protowire.VarintType:
			for pad := 1; varintLen(f.v)+pad <= 10; pad++ {
				g := cloneFields(fs)
				g[i].valPad = pad
				emit("varint-pad-value", fmt.Sprintf("%s:field%d value+%d", level, f.num, pad), encodeWire(g))
			}
		case protowire.BytesType:
			for pad := 1; varintLen(uint64(len(f.data)))+pad <= 10; pad++ {
				g := cloneFields(fs)
				g[i].lenPad = pad
				emit("varint-pad-len", fmt.Sprintf("%s:field%d len+%d", level, f.num, pad), encodeWire(g))
			}
		}
	}
	// 4. duplicated scalar with a different earlier value (last occurrence wins)
	for i, f := range fs {
		g := cloneFields(fs)
		d := f
		d.data = append([]byte{}, f.data...)
		switch f.typ {
		case protowire.VarintType:
			d.v = f.v + 1
		case protowire.BytesType:
			isMsg := false
			for _, m := range msgs {
				if m == f.num {
					isMsg = true
				}
			}
			if isMsg {
				continue // sub-messages merge: handled by split below
			}
			d.data = append([]byte("x"), f.data...)
		default:
			continue
		}
		g = append(g[:i], append([]wfield{d}, g[i:]...)...)
		emit("dup-last-wins", fmt.Sprintf("%s:field%d decoy-before", level, f.num), encodeWire(g))
		// decoy placed first in the message
		g2 := append([]wfield{d}, cloneFields(fs)...)
		emit("dup-last-wins", fmt.Sprintf("%s:field%d decoy-first", level, f.num), encodeWire(g2))
	}
}

// splitMessage re-encodes a sub-message field as two occurrences that merge to the original.
func splitMessage(fs []wfield, idx int) ([]wfield, bool) {
	inner, err := parseWire(fs[idx].data)
	if err != nil || len(inner) < 2 {
		return nil, false
	}
	a := fs[idx]
	a.data = encodeWire(inner[:1])
	b := fs[idx]
	b.data = encodeWire(inner[1:])
	g := cloneFields(fs[:idx])
	g = append(g, a, b)
	g = append(g, cloneFields(fs[idx+1:])...)
	return g, true
}

// reencodings generates the structural re-encoding family of raw (a marshalled lib.Transaction):
// all members decode to the same Transaction (same sign bytes, same signature) unless stated
// otherwise (unknown-field members are expected to be refused).
func reencodings(raw []byte, r *rand.Rand) ([]variant, error) {
	top, err := parseWire(raw)
	if err != nil {
		return nil, err
	}
	var out []variant
	add := func(family string) func(kind, desc string, enc []byte) {
		return func(kind, desc string, enc []byte) {
			out = append(out, variant{family: family, kind: kind, desc: desc, raw: enc})
		}
	}
	wireVariants(top, "tx", txVarintFields, txStringFields, txMessageFields, r, add("reencoding"))
	for i, f := range top {
		if f.typ != protowire.BytesType || (f.num != 2 && f.num != 3) {
			continue
		}
		// split the sub-message into two occurrences (merge semantics), in both orders
		if g, ok := splitMessage(top, i); ok {
			out = append(out, variant{"reencoding", "split-merge", fmt.Sprintf("tx:field%d split in two occurrences", f.num), encodeWire(g)})
			g2 := cloneFields(g)
			g2[i], g2[i+1] = g2[i+1], g2[i]
			out = append(out, variant{"reencoding", "split-merge", fmt.Sprintf("tx:field%d split, halves swapped", f.num), encodeWire(g2)})
			// halves far apart: first half at the front, second at the end
			g3 := append([]wfield{g[i]}, cloneFields(g[:i])...)
			g3 = append(g3, cloneFields(g[i+2:])...)
			g3 = append(g3, g[i+1])
			out = append(out, variant{"reencoding", "split-merge", fmt.Sprintf("tx:field%d split, halves at both ends", f.num), encodeWire(g3)})
		}
		// re-encode inside the sub-message
		inner, err := parseWire(f.data)
		if err != nil {
			continue
		}
		level := "any"
		strs := []protowire.Number{1}
		if f.num == 3 {
			level = "signature"
			strs = nil
		}
		idx := i
		wireVariants(inner, level, nil, strs, nil, r, func(kind, desc string, enc []byte) {
			g := cloneFields(top)
			g[idx].data = enc
			out = append(out, variant{"reencoding", "nested-" + kind, desc, encodeWire(g)})
		})
	}
	// unknown fields: top level, inside the signature, inside the Any — the decoder must refuse them
	unk := []wfield{{num: 15, typ: protowire.VarintType, v: 1}, {num: 1000, typ: protowire.BytesType, data: []byte("zz")},
		{num: 11, typ: protowire.Fixed32Type, data: []byte{1, 2, 3, 4}}, {num: 12, typ: protowire.Fixed64Type, data: []byte{1, 2, 3, 4, 5, 6, 7, 8}},
		{num: 4, typ: protowire.BytesType, data: []byte{1}}, // known number, other wire type
		{num: 1, typ: protowire.VarintType, v: 7}}
	for _, u := range unk {
		g := append(cloneFields(top), u)
		out = append(out, variant{"reencoding", "unknown-field", fmt.Sprintf("tx:+unknown field %d/%d", u.num, u.typ), encodeWire(g)})
		for i, f := range top {
			if f.typ == protowire.BytesType && (f.num == 2 || f.num == 3) {
				inner, err := parseWire(f.data)
				if err != nil {
					continue
				}
				u2 := u
				if u2.num == 1 || u2.num == 4 {
					u2.num = 9
				}
				g := cloneFields(top)
				g[i].data = encodeWire(append(inner, u2))
				out = append(out, variant{"reencoding", "unknown-field-nested", fmt.Sprintf("field%d:+unknown field %d/%d", f.num, u2.num, u2.typ), encodeWire(g)})
			}
		}
	}
	return out, nil
}

// replaceSigField returns raw with the bytes of Signature.public_key (1) or Signature.signature (2)
// replaced, everything else encoded exactly as before.
func replaceSigField(raw []byte, which protowire.Number, val []byte) ([]byte, error) {
	top, err := parseWire(raw)
	if err != nil {
		return nil, err
	}
	for i, f := range top {
		if f.num == 3 && f.typ == protowire.BytesType {
			inner, err := parseWire(f.data)
			if err != nil {
				return nil, err
			}
			for j := range inner {
				if inner[j].num == which {
					inner[j].data = val
				}
			}
			top[i].data = encodeWire(inner)
		}
	}
	return encodeWire(top), nil
}
