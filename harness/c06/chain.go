// Package c06 drives the REAL transaction admission path (fsm.StateMachine on an in-memory store with
// the transaction indexer) with re-encodings of included transactions (C06, replay protection).
package c06

import (
	"bytes"
	"context"
	"encoding/json"
	"fmt"
	"os"
	"path/filepath"

	"github.com/canopy-network/canopy/fsm"
	"github.com/canopy-network/canopy/lib"
	"github.com/canopy-network/canopy/lib/crypto"
	"github.com/canopy-network/canopy/store"
)

// chain is one real state machine with its store; blocks are applied through
// StateMachine.ApplyTransactions and committed the way controller.CommitCertificate does
// (IndexBlock -> Commit -> fsm.New for the next height).
type chain struct {
	dir     string
	cfg     lib.Config
	st      lib.StoreI
	sm      *fsm.StateMachine
	log     lib.LoggerI
	tracked []crypto.AddressI
}

type genesisAccount struct {
	addr   []byte
	amount uint64
}

func newChain(networkID, chainID uint64, accounts []genesisAccount) (*chain, error) {
	dir, err := os.MkdirTemp("", "verif-c06-")
	if err != nil {
		return nil, err
	}
	gen := &fsm.GenesisState{Params: fsm.DefaultParams()}
	for _, a := range accounts {
		gen.Accounts = append(gen.Accounts, &fsm.Account{Address: a.addr, Amount: a.amount})
	}
	bz, err := json.Marshal(gen)
	if err != nil {
		return nil, err
	}
	if err = os.WriteFile(filepath.Join(dir, lib.GenesisFilePath), bz, 0o600); err != nil {
		return nil, err
	}
	cfg := lib.DefaultConfig()
	cfg.DataDirPath = dir
	cfg.ChainId = chainID
	cfg.P2PConfig.NetworkID = networkID
	log := lib.NewNullLogger()
	st, e := store.NewStoreInMemory(log, cfg)
	if e != nil {
		return nil, e
	}
	sm, e := fsm.New(cfg, st, nil, nil, log)
	if e != nil {
		return nil, e
	}
	c := &chain{dir: dir, cfg: cfg, st: st, sm: sm, log: log}
	for _, a := range accounts {
		c.tracked = append(c.tracked, crypto.NewAddressFromBytes(a.addr))
	}
	return c, nil
}

func (c *chain) close() {
	c.sm.Discard()
	_ = c.st.Close()
	_ = os.RemoveAll(c.dir)
}

func (c *chain) height() uint64 { return c.sm.Height() }

func (c *chain) minSendFee() uint64 {
	f, err := c.sm.GetFeeForMessageName(fsm.MessageSendName)
	if err != nil {
		panic(err)
	}
	return f
}

func (c *chain) track(a []byte) {
	for _, t := range c.tracked {
		if bytes.Equal(t.Bytes(), a) {
			return
		}
	}
	c.tracked = append(c.tracked, crypto.NewAddressFromBytes(a))
}

// account returns (balance, nonce) from the committed/working state of the real FSM.
func (c *chain) account(a crypto.AddressI) (uint64, uint64) {
	acc, err := c.sm.GetAccount(a)
	if err != nil {
		panic(err)
	}
	return acc.Amount, acc.Nonce
}

type txOutcome struct {
	ok   bool
	code lib.ErrorCode
	lerr lib.ErrorI
	err  string
}

type blockResult struct {
	invalid  bool // ApplyTransactions returned an error (whole block refused)
	err      lib.ErrorI
	outcomes []txOutcome
}

// applyBlock runs the real ApplyTransactions on txs at the current height. When commit is true the
// block is indexed and committed and the FSM is rebuilt for the next height.
func (c *chain) applyBlock(txs [][]byte, commit bool) blockResult {
	r := new(lib.ApplyBlockResults)
	if err := c.sm.ApplyTransactions(context.Background(), txs, r, false); err != nil {
		c.sm.Reset()
		return blockResult{invalid: true, err: err}
	}
	res := blockResult{}
	ti, fi := 0, 0
	for _, tx := range txs {
		switch {
		case ti < len(r.Txs) && bytes.Equal(r.Txs[ti], tx):
			res.outcomes = append(res.outcomes, txOutcome{ok: true})
			ti++
		case fi < len(r.Failed) && r.Failed[fi].Hash == crypto.HashString(tx):
			e := r.Failed[fi].Error
			o := txOutcome{err: e.Error()}
			if le, ok := e.(lib.ErrorI); ok {
				o.code = le.Code()
				o.lerr = le
			}
			res.outcomes = append(res.outcomes, o)
			fi++
		default:
			panic(fmt.Sprintf("c06: transaction neither included nor failed: %x", tx))
		}
	}
	if !commit {
		return res
	}
	h := c.sm.Height()
	hdr := &lib.BlockHeader{Height: h, Hash: crypto.Hash([]byte(fmt.Sprintf("verif-c06-block-%d", h))), NetworkId: uint32(c.cfg.P2PConfig.NetworkID), NumTxs: uint64(r.Count)}
	if err := c.st.IndexBlock(&lib.BlockResult{BlockHeader: hdr, Transactions: r.Results, Events: r.Events}); err != nil {
		panic(err)
	}
	if _, err := c.st.Commit(); err != nil {
		panic(err)
	}
	sm, err := fsm.New(c.cfg, c.st, nil, nil, c.log)
	if err != nil {
		panic(err)
	}
	c.sm = sm
	return res
}
