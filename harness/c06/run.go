package c06

import (
	"bytes"
	"fmt"
	"math/big"
	"strings"
	"time"

	"github.com/canopy-network/canopy/fsm"
	"github.com/canopy-network/canopy/lib"
	"github.com/canopy-network/canopy/lib/crypto"
	"google.golang.org/protobuf/proto"

	"verifharness/drv"
)

const (
	netID   = uint64(1)
	chainID = uint64(1)
	funds   = uint64(1_000_000_000_000)
	amount  = uint64(1000)
	txTime  = uint64(1_700_000_000_000_000)
)

var recipient = bytes.Repeat([]byte{0xEE}, 20)

// class maps a real error to the model's rejection classes.
func class(o txOutcome) string {
	if o.ok {
		return "ok"
	}
	type mc struct {
		m lib.ErrorModule
		c lib.ErrorCode
	}
	e := mc{"", o.code}
	// the module is needed because codes are numbered per module
	if le := o.lerr; le != nil {
		e.m = le.Module()
	}
	switch e {
	case mc{lib.MainModule, lib.CodeUnmarshal}:
		return "rej:unmarshal"
	case mc{lib.StateMachineModule, lib.CodeEmptyMessage}:
		return "rej:empty-msg"
	case mc{lib.StateMachineModule, lib.CodeUnknownMsgName}:
		return "rej:msg-name"
	case mc{lib.StateMachineModule, lib.CodeEmptySignature}:
		return "rej:empty-sig"
	case mc{lib.ConsensusModule, lib.CodeInvalidTxHeight}:
		return "rej:tx-height"
	case mc{lib.ConsensusModule, lib.CodeInvalidTxTime}:
		return "rej:tx-time"
	case mc{lib.ConsensusModule, lib.CodeInvalidMemo}:
		return "rej:memo"
	case mc{lib.MainModule, lib.CodeNilNetworkID}:
		return "rej:nil-network"
	case mc{lib.StateMachineModule, lib.CodeEmptyChainId}:
		return "rej:empty-chain"
	case mc{lib.StateMachineModule, lib.CodeWrongNetworkID}:
		return "rej:wrong-network"
	case mc{lib.StateMachineModule, lib.CodeWrongChainId}:
		return "rej:wrong-chain"
	case mc{lib.ConsensusModule, lib.CodeDuplicateTransaction}:
		return "rej:dup"
	case mc{lib.StateMachineModule, lib.CodeInvalidRLPTx}:
		return "rej:rlp"
	case mc{lib.StateMachineModule, lib.CodeInvalidProtocolVersion}:
		return "rej:protocol"
	case mc{lib.MainModule, lib.CodeFromAny}, mc{lib.StateMachineModule, lib.CodeInvalidTxMessage},
		mc{lib.StateMachineModule, lib.CodeAddressEmpty}, mc{lib.StateMachineModule, lib.CodeAddressSize},
		mc{lib.StateMachineModule, lib.CodeRecipientAddressEmpty}, mc{lib.StateMachineModule, lib.CodeRecipientAddressSize},
		mc{lib.StateMachineModule, lib.CodeInvalidAmount}:
		return "rej:msg"
	case mc{lib.StateMachineModule, lib.CodeFeeBelowState}:
		return "rej:fee"
	case mc{lib.StateMachineModule, lib.CodeInvalidSignature}, mc{lib.StateMachineModule, lib.CodeInvalidPublicKey},
		mc{lib.StateMachineModule, lib.CodeUnauthorizedTx}:
		return "rej:sig"
	case mc{lib.StateMachineModule, lib.CodeInvalidTxNonce}:
		return "rej:nonce"
	case mc{lib.StateMachineModule, lib.CodeInsufficientFunds}:
		return "rej:funds"
	}
	return fmt.Sprintf("rej:other-%s-%d", e.m, e.c)
}

// scenario is one case: a real chain plus the mirror of what has been told to the model.
type scenario struct {
	o  *drv.Out
	c  *chain
	id string
}

func (s *scenario) accountsLine() string {
	var parts []string
	for _, a := range s.c.tracked {
		b, n := s.c.account(a)
		parts = append(parts, fmt.Sprintf("%s=%d/%d", drv.Hex(a.Bytes()), b, n))
	}
	return strings.Join(parts, " ")
}

func newScenario(o *drv.Out, id string, net, ch uint64, accts []genesisAccount) *scenario {
	c, err := newChain(net, ch, accts)
	if err != nil {
		panic(err)
	}
	o.Case(id)
	s := &scenario{o: o, c: c, id: id}
	legacy := 0
	if c.sm.IsFeatureEnabled(2) { // fsm.legacyRLPDisabledProtocolVersion
		legacy = 1
	}
	o.Op(fmt.Sprintf("cfg %d %d %d %d %d", net, ch, c.minSendFee(), legacy, c.height()), "ok")
	for _, a := range accts {
		o.Op(fmt.Sprintf("acct %s %d 0", drv.Hex(a.addr), a.amount), "ok")
	}
	return s
}

func (s *scenario) declareKey(k *signer) {
	s.o.Op(fmt.Sprintf("key %s %s", drv.Hex(k.pub), drv.Hex(k.addr)), "ok")
}

// declareSig tells the model that (key, message, signature) verifies — after the real verifier
// has confirmed it.
func (s *scenario) declareSig(k *signer, msg, sig []byte) {
	if !k.priv.PublicKey().VerifyBytes(msg, sig) {
		panic("c06: honest signature does not verify")
	}
	s.o.Op(fmt.Sprintf("sig %s %s %s", drv.Hex(k.pub), drv.Hex(msg), drv.Hex(sig)), "ok")
}

// block applies txs as one block on the real chain and records the op.
func (s *scenario) block(txs [][]byte, commit bool) blockResult {
	var hx []string
	for _, t := range txs {
		hx = append(hx, drv.Hex(t))
	}
	res := s.c.applyBlock(txs, commit)
	op := strings.TrimSpace("block " + strings.Join(hx, " "))
	if res.invalid {
		r := "blk invalid-other"
		if res.err.Module() == lib.ConsensusModule && res.err.Code() == lib.CodeDuplicateTransaction {
			r = "blk invalid-dup"
		}
		s.o.Op(op, r)
		return res
	}
	var cl []string
	for _, o := range res.outcomes {
		cl = append(cl, class(o))
	}
	s.o.Op(op, "blk "+strings.Join(cl, " ")+" | "+s.accountsLine())
	return res
}

func (s *scenario) setHeight(h uint64) {
	s.c.sm.VerifSetHeight(h)
	s.o.Op(fmt.Sprintf("height %d", h), "ok")
}

// sameSignedContent: the oracle's own notion (independent of the model) — both byte strings decode
// with the real decoder and yield identical sign bytes.
func sameSignedContent(a, b []byte) (same bool, identicalTx bool, ta, tb *lib.Transaction) {
	ta, tb = new(lib.Transaction), new(lib.Transaction)
	if lib.Unmarshal(a, ta) != nil || lib.Unmarshal(b, tb) != nil {
		return false, false, ta, tb
	}
	sa, e1 := ta.GetSignBytes()
	sb, e2 := tb.GetSignBytes()
	if e1 != nil || e2 != nil {
		return false, false, ta, tb
	}
	return bytes.Equal(sa, sb), proto.Equal(ta, tb), ta, tb
}

type failOnce struct {
	o    *drv.Out
	seen map[string]bool
}

func (f *failOnce) fail(sig, desc string, replay any) {
	f.o.Count("oracle-fail:" + sig)
	if f.seen[sig] {
		return
	}
	f.seen[sig] = true
	f.o.Fail(sig, desc, replay)
}

// Run is the C06 driver.
func Run(o *drv.Out) {
	start := time.Now()
	defer func() { o.Extra["seconds_total"] = int(time.Since(start).Seconds()) }()
	fo := &failOnce{o: o, seen: map[string]bool{}}
	for _, scheme := range schemes {
		runReplay(o, fo, scheme)
	}
	t0 := time.Now()
	for i, scheme := range schemes {
		if i == 0 || o.Tier == "thorough" {
			runBlockShapes(o, fo, scheme)
		}
	}
	o.Extra["seconds_block_shapes"] = int(time.Since(t0).Seconds())
	runMultisig(o, fo)
	runMultisigPadding(o, fo)
	runRLP(o, fo)
	runRLPTyped(o, fo)
	runRLPBlob(o, fo)
	runCrossChain(o, fo)
	runWindow(o, fo)
	runCodec(o)
}

// runReplay: include a signed send, then submit every member of its re-encoding family in later blocks.
func runReplay(o *drv.Out, fo *failOnce, scheme string) {
	k, err := newSigner(scheme, "sender")
	if err != nil {
		panic(err)
	}
	s := newScenario(o, "replay-"+scheme, netID, chainID, []genesisAccount{{k.addr, funds}, {recipient, 0}})
	defer s.c.close()
	s.declareKey(k)
	fee := s.c.minSendFee()
	tx1, raw1, err := signedSend(k, recipient, amount, netID, chainID, fee, 1, txTime, "", 0)
	if err != nil {
		panic(err)
	}
	sb, _ := tx1.GetSignBytes()
	s.declareSig(k, sb, tx1.Signature.Signature)
	rcp := crypto.NewAddressFromBytes(recipient)
	// block at height 1 (no replay lookup below height 2), then the identical bytes again
	s.block([][]byte{raw1}, true)
	if b, _ := s.c.account(rcp); b != amount {
		panic(fmt.Sprintf("c06: honest send not executed (recipient %d)", b))
	}
	o.Sample(fmt.Sprintf("%s honest send raw=%s", scheme, drv.Hex(raw1)))
	r := s.block([][]byte{raw1}, true)
	if len(r.outcomes) == 1 && r.outcomes[0].ok {
		fo.fail("C06:replay-identical-bytes", scheme+": the identical bytes executed twice", map[string]any{"raw": drv.Hex(raw1)})
	}
	// the concrete witnesses the Lean theorems `no_replay_fails_witness_*` are stated about: the
	// model driver answers whether these are byte-for-byte the constants of Canopy.Model.C06Witness
	for _, w := range witnessVariants(scheme, raw1) {
		o.Op(fmt.Sprintf("witness %s %s %s", w.kind, drv.Hex(raw1), drv.Hex(w.raw)), "witness ok")
	}
	// the family
	vs, err := reencodings(raw1, o.Rng)
	if err != nil {
		panic(err)
	}
	if o.Tier != "thorough" {
		vs = thin(vs, 150, o)
	}
	// the named witnesses of the Lean theorems are offered on every run (corpus)
	for _, w := range witnessVariants(scheme, raw1) {
		w.kind = "corpus-" + w.kind
		vs = append([]variant{w}, vs...)
	}
	for _, pv := range pubKeyEncodings(k) {
		b, err := replaceSigField(raw1, 1, pv.b)
		if err != nil {
			panic(err)
		}
		vs = append(vs, variant{"pubkey", "pubkey-encoding", pv.desc, b})
	}
	for _, sv := range sigMalleations(scheme, tx1.Signature.Signature) {
		b, err := replaceSigField(raw1, 2, sv.b)
		if err != nil {
			panic(err)
		}
		vs = append(vs, variant{"sigmall", "signature-malleation", sv.desc, b})
	}
	// keep two accepted-looking members back for the same-block probes
	var reserve []variant
	executed := 0
	for _, v := range vs {
		if bytes.Equal(v.raw, raw1) {
			continue
		}
		same, identical, _, tv := sameSignedContent(raw1, v.raw)
		if same && identical && v.kind == "perm" && len(reserve) < 3 {
			reserve = append(reserve, v)
			continue
		}
		before, _ := s.c.account(rcp)
		res := s.block([][]byte{v.raw}, true)
		after, _ := s.c.account(rcp)
		o.Count("variant:" + v.kind)
		ok := len(res.outcomes) == 1 && res.outcomes[0].ok
		if ok {
			o.Count("variant-accepted:" + v.kind)
		} else {
			o.Count("variant-rejected:" + v.kind)
		}
		o.Nontrivial(scheme + "|" + v.kind + "|" + v.desc)
		// oracle: same signed content as an included transaction and the recipient was paid again
		if same && after > before {
			executed++
			sig, what := "C06:replay-by-reencoding", "a re-encoding"
			if !identical {
				if !bytes.Equal(tv.Signature.PublicKey, tx1.Signature.PublicKey) {
					sig, what = "C06:replay-by-pubkey-encoding", "the same transaction with another public-key encoding"
				} else if !bytes.Equal(tv.Signature.Signature, tx1.Signature.Signature) {
					sig, what = "C06:replay-by-signature-malleation", "the same transaction with a malleated signature"
				}
			}
			fo.fail(sig, fmt.Sprintf("%s: %s of an included send (%s) executed again: recipient %d -> %d", scheme, what, v.desc, before, after),
				map[string]any{"scheme": scheme, "variant": v.desc, "included": drv.Hex(raw1), "replayed": drv.Hex(v.raw), "recipient_before": before, "recipient_after": after})
			if executed <= 2 {
				o.Sample(fmt.Sprintf("%s %s (%s): executed again, recipient %d -> %d", scheme, v.kind, v.desc, before, after))
			}
		}
	}
	// second mechanical family: each schema field set to another value under the ORIGINAL signature
	if scheme == schemes[0] || o.Tier == "thorough" {
		fv, unsupported := fieldValueVariants(tx1)
		for _, u := range unsupported {
			o.Count("field-value-unsupported:" + u)
		}
		if len(unsupported) > 0 {
			o.Extra["field_value_family_does_not_cover"] = unsupported
		}
		for _, v := range fv {
			before, _ := s.c.account(rcp)
			s.block([][]byte{v.raw}, true)
			after, _ := s.c.account(rcp)
			o.Count("variant:" + v.kind)
			o.Nontrivial(scheme + "|" + v.kind + "|" + v.desc)
			if after > before {
				o.Count("variant-accepted:" + v.kind)
				field := v.kind[len("field-value:"):]
				fo.fail("C06:replay-by-unsigned-field:"+field, fmt.Sprintf("%s: the signature of an included send also authorises the transaction with %s (recipient %d -> %d): the field is outside the sign bytes", scheme, v.desc, before, after),
					map[string]any{"scheme": scheme, "field": field, "change": v.desc, "included": drv.Hex(raw1), "replayed": drv.Hex(v.raw), "recipient_before": before, "recipient_after": after})
			} else {
				o.Count("variant-rejected:" + v.kind)
			}
		}
	}
	o.Hist["replays-executed:"+scheme] = executed
	// same block: two different re-encodings in one block; the same bytes twice in one block
	if len(reserve) >= 3 {
		before, _ := s.c.account(rcp)
		s.block([][]byte{reserve[0].raw, reserve[1].raw}, true)
		after, _ := s.c.account(rcp)
		if after > before {
			fo.fail("C06:replay-by-reencoding", fmt.Sprintf("%s: two re-encodings of an included send in ONE block executed: recipient %d -> %d", scheme, before, after),
				map[string]any{"scheme": scheme, "included": drv.Hex(raw1), "replayed": []string{drv.Hex(reserve[0].raw), drv.Hex(reserve[1].raw)}})
		}
		s.block([][]byte{reserve[2].raw, reserve[2].raw}, true)
		o.Count("same-block-probes")
	}
}

// witnessVariants: deterministic named members of the family (no PRNG), one per mechanism.
func witnessVariants(scheme string, raw1 []byte) []variant {
	var out []variant
	top, err := parseWire(raw1)
	if err != nil {
		panic(err)
	}
	switch scheme {
	case "ed25519":
		// explicit zero for the absent `nonce` (field 10): append 0x50 0x00
		out = append(out, variant{"reencoding", "explicit-default", "nonce=0 appended", append(append([]byte{}, raw1...), 0x50, 0x00)})
		// created_height (field 4) as a two-byte varint
		g := cloneFields(top)
		for i := range g {
			if g[i].num == 4 {
				g[i].valPad = 1
			}
		}
		out = append(out, variant{"reencoding", "varint-pad", "created_height padded by one byte", encodeWire(g)})
		// first two fields swapped
		g = cloneFields(top)
		g[0], g[1] = g[1], g[0]
		out = append(out, variant{"reencoding", "field-order", "message_type and msg swapped", encodeWire(g)})
		// a decoy created_height before the real one (last occurrence wins)
		g = append([]wfield{{num: 4, typ: 0, v: 77}}, cloneFields(top)...)
		out = append(out, variant{"reencoding", "dup-last-wins", "decoy created_height first", encodeWire(g)})
	case "ethsecp256k1":
		tx := new(lib.Transaction)
		if err := lib.Unmarshal(raw1, tx); err != nil {
			panic(err)
		}
		b, err := replaceSigField(raw1, 1, append([]byte{4}, tx.Signature.PublicKey...))
		if err != nil {
			panic(err)
		}
		out = append(out, variant{"pubkey", "pubkey-65", "65-byte SEC1 form of the same key", b})
	}
	return out
}

// thin keeps every kind represented while bounding the number of blocks in the quick tier.
func thin(vs []variant, max int, o *drv.Out) []variant {
	if len(vs) <= max {
		return vs
	}
	byKind := map[string][]variant{}
	var kinds []string
	for _, v := range vs {
		if _, ok := byKind[v.kind]; !ok {
			kinds = append(kinds, v.kind)
		}
		byKind[v.kind] = append(byKind[v.kind], v)
	}
	per := max / len(kinds)
	if per < 2 {
		per = 2
	}
	var out []variant
	for _, kd := range kinds {
		l := byKind[kd]
		if len(l) <= per {
			out = append(out, l...)
			continue
		}
		// first, last and a seeded sample in between
		idx := o.Rng.Perm(len(l))[:per]
		for _, i := range idx {
			out = append(out, l[i])
		}
	}
	return out
}

// runCrossChain: a transaction signed for (network, chain) is offered to nodes of other pairs.
func runCrossChain(o *drv.Out, fo *failOnce) {
	k, err := newSigner("ed25519", "sender")
	if err != nil {
		panic(err)
	}
	pairs := [][2]uint64{{1, 1}, {1, 2}, {2, 1}, {2, 2}, {1, 3}, {3, 1}}
	for _, signedFor := range pairs {
		for _, node := range pairs {
			s := newScenario(o, fmt.Sprintf("cross-signed-%d-%d-node-%d-%d", signedFor[0], signedFor[1], node[0], node[1]), node[0], node[1],
				[]genesisAccount{{k.addr, funds}, {recipient, 0}})
			s.declareKey(k)
			fee := s.c.minSendFee()
			tx, raw, err := signedSend(k, recipient, amount, signedFor[0], signedFor[1], fee, 1, txTime, "", 0)
			if err != nil {
				panic(err)
			}
			sb, _ := tx.GetSignBytes()
			s.declareSig(k, sb, tx.Signature.Signature)
			rcp := crypto.NewAddressFromBytes(recipient)
			// offer it at height 1 (where the replay lookup is skipped) and again at height 2
			for i := 0; i < 2; i++ {
				before, _ := s.c.account(rcp)
				s.block([][]byte{raw}, true)
				after, _ := s.c.account(rcp)
				if after > before && signedFor != node {
					fo.fail("C06:cross-chain-accepted", fmt.Sprintf("a send signed for (network %d, chain %d) executed on a node of (network %d, chain %d)", signedFor[0], signedFor[1], node[0], node[1]),
						map[string]any{"raw": drv.Hex(raw), "signed_for": signedFor, "node": node})
				}
				if after > before && signedFor == node && i == 1 {
					fo.fail("C06:replay-identical-bytes", "the identical bytes executed twice", map[string]any{"raw": drv.Hex(raw)})
				}
			}
			o.Count("cross-chain")
			o.Nontrivial(s.id)
			s.c.close()
		}
	}
}

// runWindow: the created-height acceptance window, over memo kind x key kind x created height
// (inside, both boundaries, just outside, far outside, on both sides) at several chain heights.
// Oracle: a transaction created outside [height-R, height+R] does not execute — unless it is an
// RLP.V2 wrapper, whose replay protection is the account nonce (probed in runRLP).
func runWindow(o *drv.Out, fo *failOnce) {
	R := uint64(fsm.BlockAcceptanceRange)
	type memoKind struct{ name, memo string }
	memos := []memoKind{{"empty", ""}, {"text", "hello"}, {"RLP", lib.RLPIndicator}, {"RLP.V2", lib.RLPV2Indicator},
		{"order-json", `{"orderId":"00aa00aa00aa00aa00aa00aa00aa00aa00aa00aa","chain_id":2,"buyerSendAddress":"aa"}`}}
	signers := map[string]*signer{}
	for _, sc := range schemes {
		k, err := newSigner(sc, "sender")
		if err != nil {
			panic(err)
		}
		signers[sc] = k
	}
	type probe struct {
		height, created uint64
		scheme          string
		memo            memoKind
	}
	var probes []probe
	// (1) every memo kind x every key kind x the two boundaries, just outside and far outside
	h0 := uint64(3 * R)
	createds := []uint64{1, h0 - R - 1, h0 - R, h0 + R, h0 + R + 1}
	if o.Tier == "thorough" {
		createds = append(createds, h0-2*R, h0, h0+10*R, 1<<40)
	}
	for _, mk := range memos {
		for _, sc := range schemes {
			for _, c := range createds {
				probes = append(probes, probe{h0, c, sc, mk})
			}
		}
	}
	// (2) boundary arithmetic at small / large heights; memo and key kind cycle
	n := 0
	for _, h := range []uint64{2, 100, R - 1, R, R + 1, R + 2, 10000, 1 << 40} {
		cands := []uint64{1, 2, h, h + R - 1, h + R, h + R + 1, h + 2*R}
		if h > R {
			cands = append(cands, h-R-1, h-R, h-R+1)
		}
		if h > 2*R {
			cands = append(cands, h-2*R)
		}
		for _, c := range cands {
			if c >= 1 {
				probes = append(probes, probe{h, c, schemes[n%len(schemes)], memos[(n/len(schemes))%len(memos)]})
				n++
			}
		}
	}
	// (3) seeded
	rnd := 20
	if o.Tier == "thorough" {
		rnd = 200
	}
	for i := 0; i < rnd; i++ {
		h := 2 + uint64(o.Rng.Intn(30000))
		c := uint64(1)
		switch o.Rng.Intn(3) {
		case 0:
			c = h + uint64(o.Rng.Intn(int(2*R)))
		case 1:
			if d := uint64(o.Rng.Intn(int(2 * R))); d < h {
				c = h - d
			}
		default:
			c = 1 + uint64(o.Rng.Intn(40000))
		}
		probes = append(probes, probe{h, c, schemes[o.Rng.Intn(len(schemes))], memos[o.Rng.Intn(len(memos))]})
	}
	rcp := crypto.NewAddressFromBytes(recipient)
	for i, p := range probes {
		k := signers[p.scheme]
		s := newScenario(o, fmt.Sprintf("window-%s-%s-h%d-created%d", p.scheme, p.memo.name, p.height, p.created), netID, chainID, []genesisAccount{{k.addr, funds}, {recipient, 0}})
		s.declareKey(k)
		fee := s.c.minSendFee()
		// an empty block so that the store has a block at height 1 and the FSM is at height 2
		s.block(nil, true)
		var raw []byte
		created := p.created
		isWrapper := p.scheme == "ethsecp256k1" && lib.IsRLPMemo(p.memo.memo)
		if isWrapper {
			// a genuine Ethereum wrapper: legacy RLP carries the eth nonce as created height, RLP.V2 a sentinel
			v2 := p.memo.memo == lib.RLPV2Indicator
			evm := fsm.CanopyIdsToEVMChainId(chainID, netID)
			if v2 {
				evm, _ = fsm.CanopyIdsToEVMChainIdV2(chainID, netID)
			}
			eth := signedEthTx(k, evm, ethTxSpec{nonce: p.created, gas: 21000, gasPrice: new(big.Int).Add(scale, big.NewInt(int64(i))), value: new(big.Int).Mul(big.NewInt(int64(amount)), scale)}, recipient)
			r, ok := s.declareRLP(v2, eth)
			if !ok {
				s.c.close()
				continue
			}
			raw = r
			tx := new(lib.Transaction)
			if err := lib.Unmarshal(raw, tx); err != nil {
				panic(err)
			}
			created = tx.CreatedHeight
		} else {
			tx, r, err := signedSend(k, recipient, amount, netID, chainID, fee, p.created, txTime+uint64(i), p.memo.memo, 0)
			if err != nil {
				panic(err)
			}
			raw = r
			sb, _ := tx.GetSignBytes()
			s.declareSig(k, sb, tx.Signature.Signature)
		}
		s.setHeight(p.height)
		before, _ := s.c.account(rcp)
		s.block([][]byte{raw}, false)
		after, _ := s.c.account(rcp)
		lo := uint64(0)
		if p.height > R {
			lo = p.height - R
		}
		outside := created > p.height+R || created < lo
		noncePath := p.memo.memo == lib.RLPV2Indicator
		if outside && after > before && !noncePath {
			fo.fail("C06:out-of-window-tx-accepted:"+p.memo.name, fmt.Sprintf("a send (key %s, memo kind %s = %q) created at height %d executed at height %d (window %d..%d)", p.scheme, p.memo.name, p.memo.memo, created, p.height, lo, p.height+R),
				map[string]any{"raw": drv.Hex(raw), "height": p.height, "created": created, "memo": p.memo.memo, "scheme": p.scheme})
		}
		side := "inside"
		if outside {
			side = "outside"
		}
		res := "rejected"
		if after > before {
			res = "executed"
		}
		o.Count("window:" + p.memo.name + ":" + side + ":" + res)
		o.Nontrivial(s.id)
		s.c.close()
	}
}
