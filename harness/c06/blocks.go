package c06

import (
	"bytes"
	"fmt"
	"strings"

	"github.com/canopy-network/canopy/fsm"
	"github.com/canopy-network/canopy/lib"
	"github.com/canopy-network/canopy/lib/crypto"

	"verifharness/drv"
)

var recipient2 = bytes.Repeat([]byte{0xDD}, 20)

// signedSendFrom: a send whose FromAddress is `from`, signed by s (unauthorized when from != s.addr).
func signedSendFrom(s *signer, from, to []byte, amount, fee, createdHeight, txTime uint64) (*lib.Transaction, []byte) {
	a, err := lib.NewAny(&fsm.MessageSend{FromAddress: from, ToAddress: to, Amount: amount})
	if err != nil {
		panic(err)
	}
	tx := &lib.Transaction{MessageType: fsm.MessageSendName, Msg: a, CreatedHeight: createdHeight, Time: txTime, Fee: fee, NetworkId: netID, ChainId: chainID}
	if err = tx.Sign(s.priv); err != nil {
		panic(err)
	}
	raw, err := lib.Marshal(tx)
	if err != nil {
		panic(err)
	}
	return tx, raw
}

// runBlockShapes: the block path (StateMachine.ApplyTransactions: batched signature verification over
// the whole block, then execution) rather than one transaction per block. After T is included, blocks
//
//	[ U = validly signed but unauthorized, V = a variant of T, F.. = fresh valid transactions ]
//
// are offered in every order (size 3) and in seeded orders (sizes 4..9), for each variant V of T's
// signature / key / encoding. Oracle: T's effect is applied at most once (its recipient is paid once;
// fresh transactions pay another recipient) and a fresh valid transaction is never refused.
func runBlockShapes(o *drv.Out, fo *failOnce, scheme string) {
	k, err := newSigner(scheme, "sender")
	if err != nil {
		panic(err)
	}
	att, err := newSigner(scheme, "attacker")
	if err != nil {
		panic(err)
	}
	s := newScenario(o, "blocks-"+scheme, netID, chainID, []genesisAccount{{k.addr, funds}, {att.addr, funds}, {recipient, 0}, {recipient2, 0}})
	defer s.c.close()
	s.declareKey(k)
	s.declareKey(att)
	fee := s.c.minSendFee()
	tx1, raw1, err := signedSend(k, recipient, amount, netID, chainID, fee, 1, txTime, "", 0)
	if err != nil {
		panic(err)
	}
	sb, _ := tx1.GetSignBytes()
	s.declareSig(k, sb, tx1.Signature.Signature)
	s.block([][]byte{raw1}, true)
	rcp, rcp2 := crypto.NewAddressFromBytes(recipient), crypto.NewAddressFromBytes(recipient2)
	if b, _ := s.c.account(rcp); b != amount {
		panic("c06: honest send not executed")
	}
	// U: the attacker signs (validly) a send out of the victim's account
	utx, uraw := signedSendFrom(att, k.addr, recipient2, amount, fee, 1, txTime+1)
	usb, _ := utx.GetSignBytes()
	s.declareSig(att, usb, utx.Signature.Signature)
	// variants of T
	var vs []variant
	sig := tx1.Signature.Signature
	junk := [][2]any{
		{"signature with one bit flipped", flipped(sig, len(sig)/2, 0x01)},
		{"signature zeroed, same length", make([]byte, len(sig))},
		{"signature of the unauthorized transaction", utx.Signature.Signature},
	}
	for _, j := range junk {
		if b, err := replaceSigField(raw1, 2, j[1].([]byte)); err == nil {
			vs = append(vs, variant{"sigmall", "junk-signature", j[0].(string), b})
		}
	}
	for _, sv := range sigMalleations(scheme, sig) {
		if b, err := replaceSigField(raw1, 2, sv.b); err == nil {
			vs = append(vs, variant{"sigmall", "signature-malleation", sv.desc, b})
		}
	}
	for _, pv := range pubKeyEncodings(k) {
		if b, err := replaceSigField(raw1, 1, pv.b); err == nil {
			vs = append(vs, variant{"pubkey", "pubkey-encoding", pv.desc, b})
		}
	}
	for _, w := range witnessVariants("ed25519", raw1) {
		vs = append(vs, w)
	}
	if o.Tier != "thorough" && len(vs) > 6 {
		keep := vs[:4]
		keep = append(keep, vs[4+o.Rng.Intn(len(vs)-4)], vs[len(vs)-1])
		vs = keep
	}
	clock := txTime + 100
	fresh := func(n int) [][]byte {
		var out [][]byte
		for i := 0; i < n; i++ {
			clock++
			tx, raw := signedSendFrom(k, k.addr, recipient2, amount, fee, 1, clock)
			fsb, _ := tx.GetSignBytes()
			s.declareSig(k, fsb, tx.Signature.Signature)
			out = append(out, raw)
		}
		return out
	}
	perms3 := [][]int{{0, 1, 2}, {0, 2, 1}, {1, 0, 2}, {1, 2, 0}, {2, 0, 1}, {2, 1, 0}}
	offer := func(v variant, order []int, nFresh int) {
		fr := fresh(nFresh)
		pool := append([][]byte{uraw, v.raw}, fr...)
		var blk [][]byte
		for _, i := range order {
			blk = append(blk, pool[i])
		}
		before, _ := s.c.account(rcp)
		before2, _ := s.c.account(rcp2)
		res := s.block(blk, true)
		after, _ := s.c.account(rcp)
		after2, _ := s.c.account(rcp2)
		o.Count(fmt.Sprintf("block-shape:size-%d", len(blk)))
		o.Count("block-shape:" + v.kind)
		o.Nontrivial(fmt.Sprintf("block|%s|%s|%v", scheme, v.desc, order))
		if res.invalid {
			o.Count("block-shape:block-refused")
			return
		}
		var hx []string
		for _, b := range blk {
			hx = append(hx, drv.Hex(b))
		}
		freshRefused := ""
		for pos, i := range order {
			if i >= 2 && !res.outcomes[pos].ok {
				freshRefused = class(res.outcomes[pos])
			}
		}
		replayed := after > before
		switch {
		case replayed:
			sigName := "C06:replay-in-block"
			if freshRefused == "rej:sig" {
				sigName = "C06:replay-in-block:batch-index-shift" // the verdict on the variant landed on a neighbour
			}
			fo.fail(sigName, fmt.Sprintf("%s: a block [unauthorized, %s of an included send, %d fresh] in order %v executed the included send again (its recipient %d -> %d)%s",
				scheme, v.desc, nFresh, order, before, after, map[bool]string{true: "; a fresh valid transaction was refused as " + freshRefused, false: ""}[freshRefused != ""]),
				map[string]any{"scheme": scheme, "included": drv.Hex(raw1), "variant": v.desc, "order": order, "block": hx, "recipient_before": before, "recipient_after": after})
		case freshRefused != "":
			fo.fail("C06:valid-tx-refused-in-block:"+strings.TrimPrefix(freshRefused, "rej:"), fmt.Sprintf("%s: a fresh valid send was refused (%s) in a block [unauthorized, %s of an included send, %d fresh] in order %v",
				scheme, freshRefused, v.desc, nFresh, order), map[string]any{"scheme": scheme, "order": order, "block": hx})
		}
		if uint64(nFresh)*amount != after2-before2 && !replayed && freshRefused == "" {
			fo.fail("C06:block-effect-mismatch", fmt.Sprintf("%s: %d fresh sends in the block moved %d to their recipient", scheme, nFresh, after2-before2), map[string]any{"block": hx})
		}
	}
	for _, v := range vs {
		for _, p := range perms3 {
			offer(v, p, 1)
		}
		for size := 4; size <= 9; size++ {
			order := o.Rng.Perm(size)
			offer(v, order, size-2)
		}
	}
}
