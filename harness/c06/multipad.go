package c06

import (
	"fmt"

	"github.com/canopy-network/canopy/fsm"
	"github.com/canopy-network/canopy/lib"
	"github.com/canopy-network/canopy/lib/crypto"
	"github.com/drand/kyber"
	"google.golang.org/protobuf/proto"

	"verifharness/drv"
)

// runMultisigPadding: the signer bitmap of a multi-signature key is padded to whole bytes. A k-of-n
// account signs a send with exactly k members; after it is included, an OUTSIDER (no key, only the
// bytes on chain) raises padding bits (indices >= n) of the bitmap inside Signature.public_key and
// offers the result — alone and inside a block next to a fresh transaction.
func runMultisigPadding(o *drv.Out, fo *failOnce) {
	for _, n := range []int{3, 5, 7, 9, 12} {
		var members []*signer
		var points []kyber.Point
		for i := 0; i < n; i++ {
			k, err := newSigner("bls", fmt.Sprintf("pad-member-%d", i))
			if err != nil {
				panic(err)
			}
			members = append(members, k)
			p, err := crypto.BytesToBLS12381Point(k.pub)
			if err != nil {
				panic(err)
			}
			points = append(points, p)
		}
		mk, err := crypto.NewAccountAuthMultiBLSFromPoints(points, nil, 2)
		if err != nil {
			panic(err)
		}
		addr := mk.Address().Bytes()
		payer, err := newSigner("ed25519", "pad-third-party")
		if err != nil {
			panic(err)
		}
		s := newScenario(o, fmt.Sprintf("multisig-bitmap-padding-2of%d", n), netID, chainID, []genesisAccount{{addr, funds}, {payer.addr, funds}, {recipient, 0}, {recipient2, 0}})
		s.declareKey(payer)
		fee := s.c.minSendFee()
		a, err := lib.NewAny(&fsm.MessageSend{FromAddress: addr, ToAddress: recipient, Amount: amount})
		if err != nil {
			panic(err)
		}
		tx := &lib.Transaction{MessageType: fsm.MessageSendName, Msg: a, CreatedHeight: 1, Time: txTime, Fee: fee, NetworkId: netID, ChainId: chainID}
		sb, _ := tx.GetSignBytes()
		for _, i := range []int{0, n - 1} {
			if err := mk.AddSigner(members[i].priv.Sign(sb), i); err != nil {
				panic(err)
			}
		}
		agg, err := mk.AggregateSignatures()
		if err != nil {
			panic(err)
		}
		honestPub := mk.Bytes()
		wrap := func(pub []byte) []byte {
			t2 := proto.Clone(tx).(*lib.Transaction)
			t2.Signature = &lib.Signature{PublicKey: pub, Signature: agg}
			raw, err := lib.Marshal(t2)
			if err != nil {
				panic(err)
			}
			return raw
		}
		declare := func(pub []byte) {
			// symbolically every variant is "the same keys, threshold and aggregate": the model is told so
			// and decides by its own rule (padding bits, bitmap length) whether the byte string is a key
			s.o.Op(fmt.Sprintf("key %s %s", drv.Hex(pub), drv.Hex(addr)), "ok")
			s.o.Op(fmt.Sprintf("sig %s %s %s", drv.Hex(pub), drv.Hex(sb), drv.Hex(agg)), "ok")
		}
		declare(honestPub)
		raw0 := wrap(honestPub)
		rcp := crypto.NewAddressFromBytes(recipient)
		s.block([][]byte{raw0}, true)
		if b, _ := s.c.account(rcp); b != amount {
			o.Count("multisig-padding:honest-not-executed")
			s.c.close()
			continue
		}
		// the outsider's variants: same keys, same threshold, same aggregate; padding bits raised
		mpk := new(crypto.MultiPublicKey)
		if err := proto.Unmarshal(honestPub, mpk); err != nil {
			panic(err)
		}
		type padVariant struct {
			desc string
			pub  []byte
		}
		var pvs []padVariant
		mk2 := func(bitmap []byte) []byte {
			bz, err := proto.Marshal(&crypto.MultiPublicKey{PublicKeys: mpk.PublicKeys, Bitmap: bitmap, Threshold: mpk.Threshold})
			if err != nil {
				panic(err)
			}
			return bz
		}
		all := append([]byte{}, mpk.Bitmap...)
		for bit := n; bit < 8*len(mpk.Bitmap); bit++ {
			bm := append([]byte{}, mpk.Bitmap...)
			bm[bit/8] |= 1 << uint(bit%8)
			all[bit/8] |= 1 << uint(bit%8)
			pvs = append(pvs, padVariant{fmt.Sprintf("padding bit %d raised (bitmap %x -> %x)", bit, mpk.Bitmap, bm), mk2(bm)})
		}
		pvs = append(pvs, padVariant{fmt.Sprintf("all padding bits raised (bitmap %x -> %x)", mpk.Bitmap, all), mk2(all)})
		pvs = append(pvs, padVariant{"bitmap one byte longer", mk2(append(append([]byte{}, mpk.Bitmap...), 0))})
		clock := txTime + 900
		for vi, pv := range pvs {
			declare(pv.pub)
			raw := wrap(pv.pub)
			blk := [][]byte{raw}
			if vi%2 == 1 {
				// block path: next to a fresh valid transaction
				clock++
				ftx, fraw := signedSendFrom(payer, payer.addr, recipient2, amount, fee, 1, clock)
				fsb, _ := ftx.GetSignBytes()
				s.declareSig(payer, fsb, ftx.Signature.Signature)
				blk = [][]byte{fraw, raw}
			}
			before, _ := s.c.account(rcp)
			s.block(blk, true)
			after, _ := s.c.account(rcp)
			o.Count("multisig-padding:offered")
			o.Nontrivial(fmt.Sprintf("multisig-padding|%d|%s", n, pv.desc))
			if after > before {
				o.Count("multisig-padding:executed-again")
				fo.fail("C06:replay-by-multisig-bitmap-padding", fmt.Sprintf("2-of-%d BLS account: an included send executed again after an outsider changed only the signer bitmap's padding: %s (recipient %d -> %d)", n, pv.desc, before, after),
					map[string]any{"n": n, "included": drv.Hex(raw0), "replayed": drv.Hex(raw), "variant": pv.desc})
			}
		}
		s.c.close()
	}
}
