package c06

import (
	"fmt"
	"math/big"

	"github.com/canopy-network/canopy/fsm"
	"github.com/canopy-network/canopy/lib/crypto"
	"github.com/ethereum/go-ethereum/common"
	ethTypes "github.com/ethereum/go-ethereum/core/types"
	"github.com/ethereum/go-ethereum/crypto/kzg4844"
	"github.com/holiman/uint256"

	"verifharness/drv"
)

// EIP-4844 blob transactions have two binary envelopes for ONE signed transaction: the canonical one
// and the network one that also carries a sidecar (blobs, commitments, proofs) — with arbitrary sidecar
// contents as far as the signature is concerned. The Ethereum hash (types.Transaction.Hash) ignores the
// sidecar, and the indexer files an RLP-backed transaction under that hash as an alias, which is what
// makes the envelope twins of an included transaction duplicates.
func runRLPBlob(o *drv.Out, fo *failOnce) {
	k, err := newSigner("ethsecp256k1", "rlp-sender")
	if err != nil {
		panic(err)
	}
	ek := k.priv.(*crypto.ETHSECP256K1PrivateKey)
	rcp := crypto.NewAddressFromBytes(recipient)
	one := new(big.Int).Mul(big.NewInt(int64(amount)), scale)
	sidecar := func(n int, fill byte) *ethTypes.BlobTxSidecar {
		var cs []kzg4844.Commitment
		var ps []kzg4844.Proof
		for i := 0; i < n; i++ {
			var c kzg4844.Commitment
			var p kzg4844.Proof
			for j := range c {
				c[j], p[j] = fill+byte(i), fill+byte(i)+1
			}
			cs, ps = append(cs, c), append(ps, p)
		}
		return ethTypes.NewBlobTxSidecar(0, nil, cs, ps)
	}
	for _, v2 := range []bool{false, true} {
		name := "rlp-blob-legacy"
		evm := fsm.CanopyIdsToEVMChainId(chainID, netID)
		if v2 {
			name = "rlp-blob-v2"
			evm, _ = fsm.CanopyIdsToEVMChainIdV2(chainID, netID)
		}
		// the order of inclusion matters: network form first, canonical form first
		for _, first := range []string{"sidecar", "canonical"} {
			s := newScenario(o, name+"-"+first+"-first", netID, chainID, []genesisAccount{{k.addr, funds}, {recipient, 0}})
			s.declareKey(k)
			tip := uint256.MustFromBig(scale)
			inner := &ethTypes.BlobTx{ChainID: uint256.NewInt(evm), Nonce: 1, GasTipCap: tip,
				GasFeeCap: new(uint256.Int).Add(tip, uint256.NewInt(uint64(fsm.EthereumBaseFeePerGas))), Gas: 21000,
				To: common.BytesToAddress(recipient), Value: uint256.MustFromBig(one), BlobFeeCap: uint256.NewInt(1),
				BlobHashes: []common.Hash{{1}}, Sidecar: sidecar(1, 0x10)}
			signed, e := ethTypes.SignTx(ethTypes.NewTx(inner), ethTypes.LatestSignerForChainID(new(big.Int).SetUint64(evm)), ek.PrivateKey)
			if e != nil {
				panic(e)
			}
			forms := []struct {
				desc string
				tx   *ethTypes.Transaction
			}{
				{"network envelope (sidecar A)", signed},
				{"canonical envelope (no sidecar)", signed.WithoutBlobTxSidecar()},
				{"network envelope (sidecar B)", signed.WithoutBlobTxSidecar().WithBlobTxSidecar(sidecar(1, 0x40))},
				{"network envelope (empty sidecar)", signed.WithoutBlobTxSidecar().WithBlobTxSidecar(sidecar(0, 0))},
				{"network envelope (two commitments)", signed.WithoutBlobTxSidecar().WithBlobTxSidecar(sidecar(2, 0x70))},
			}
			if first == "canonical" {
				forms[0], forms[1] = forms[1], forms[0]
			}
			var raw0 []byte
			executed := 0
			for i, f := range forms {
				bz, e := f.tx.MarshalBinary()
				if e != nil {
					continue
				}
				raw, ok := s.declareRLP(v2, bz)
				if !ok {
					o.Count(name + ":conversion-refused")
					continue
				}
				before, _ := s.c.account(rcp)
				s.block([][]byte{raw}, true)
				after, _ := s.c.account(rcp)
				o.Count(name + ":offered")
				o.Nontrivial(name + "|" + first + "|" + f.desc)
				if after > before {
					executed++
					if raw0 == nil {
						raw0 = raw
						o.Sample(fmt.Sprintf("%s: %s included (eth tx %d bytes)", name, f.desc, len(bz)))
						continue
					}
					fo.fail("C06:replay-by-eth-envelope-twin", fmt.Sprintf("%s: after the %s of a blob transaction was included, its %s executed again (recipient %d -> %d): one signed Ethereum transaction, two envelopes", name, forms[0].desc, f.desc, before, after),
						map[string]any{"included": drv.Hex(raw0), "replayed": drv.Hex(raw), "first": forms[0].desc, "twin": f.desc, "index": i})
				}
			}
			if executed == 0 {
				o.Count(name + ":blob-tx-never-executed")
			}
			s.c.close()
		}
	}
}
