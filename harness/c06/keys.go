package c06

import (
	"crypto/ed25519"
	"crypto/sha256"
	"fmt"
	"math/big"

	"github.com/canopy-network/canopy/fsm"
	"github.com/canopy-network/canopy/lib"
	"github.com/canopy-network/canopy/lib/crypto"
)

// signer is a real key pair of one supported scheme, derived deterministically from a label.
type signer struct {
	scheme string
	priv   crypto.PrivateKeyI
	pub    []byte // PublicKeyI.Bytes(): the canonical encoding
	addr   []byte
}

func seed(label string) []byte { h := sha256.Sum256([]byte("verif-c06-" + label)); return h[:] }

func newSigner(scheme, label string) (*signer, error) {
	var pk crypto.PrivateKeyI
	var err error
	s := seed(scheme + "-" + label)
	switch scheme {
	case "ed25519":
		pk = crypto.BytesToED25519Private(ed25519.NewKeyFromSeed(s))
	case "bls":
		s[0] &= 0x3f // below the group order
		pk, err = crypto.BytesToBLS12381PrivateKey(s)
	case "secp256k1":
		pk, err = crypto.BytesToSECP256K1Private(s)
	case "ethsecp256k1":
		pk, err = crypto.BytesToEthSECP256K1Private(s)
	default:
		err = fmt.Errorf("unknown scheme %s", scheme)
	}
	if err != nil {
		return nil, err
	}
	return &signer{scheme: scheme, priv: pk, pub: pk.PublicKey().Bytes(), addr: pk.PublicKey().Address().Bytes()}, nil
}

var schemes = []string{"ed25519", "bls", "secp256k1", "ethsecp256k1"}

// signedSend builds and signs a send exactly as fsm.NewTransaction does, with a fixed timestamp
// (so the bytes are reproducible) and an explicit nonce.
func signedSend(s *signer, to []byte, amount, networkID, chainID, fee, createdHeight, txTime uint64, memo string, nonce uint64) (*lib.Transaction, []byte, error) {
	a, err := lib.NewAny(&fsm.MessageSend{FromAddress: s.addr, ToAddress: to, Amount: amount})
	if err != nil {
		return nil, nil, err
	}
	tx := &lib.Transaction{
		MessageType:   fsm.MessageSendName,
		Msg:           a,
		CreatedHeight: createdHeight,
		Time:          txTime,
		Fee:           fee,
		Memo:          memo,
		NetworkId:     networkID,
		ChainId:       chainID,
		Nonce:         nonce,
	}
	if err = tx.Sign(s.priv); err != nil {
		return nil, nil, err
	}
	raw, err := lib.Marshal(tx)
	if err != nil {
		return nil, nil, err
	}
	return tx, raw, nil
}

var (
	secpN, _ = new(big.Int).SetString("FFFFFFFFFFFFFFFFFFFFFFFFFFFFFFFEBAAEDCE6AF48A03BBFD25E8CD0364141", 16)
	edL, _   = new(big.Int).SetString("1000000000000000000000000000000014def9dea2f79cd65812631a5cf5d3ed", 16)
)

type bytesVariant struct {
	desc string
	b    []byte
}

func flipped(b []byte, i int, mask byte) []byte {
	c := append([]byte{}, b...)
	c[i] ^= mask
	return c
}

// sigMalleations: byte strings that a lax verifier of the scheme could accept as "the same signature".
func sigMalleations(scheme string, sig []byte) []bytesVariant {
	out := []bytesVariant{
		{"append 0x00", append(append([]byte{}, sig...), 0)},
		{"drop last byte", append([]byte{}, sig[:len(sig)-1]...)},
		{"prepend 0x00", append([]byte{0}, sig...)},
	}
	switch scheme {
	case "secp256k1", "ethsecp256k1":
		if len(sig) == 64 {
			s := new(big.Int).SetBytes(sig[32:])
			hs := new(big.Int).Sub(secpN, s)
			m := append([]byte{}, sig[:32]...)
			m = append(m, hs.FillBytes(make([]byte, 32))...)
			out = append(out, bytesVariant{"(r, n-s) high-S twin", m})
			for _, v := range []byte{0, 1, 27, 28} {
				out = append(out, bytesVariant{fmt.Sprintf("65-byte [r|s|v=%d]", v), append(append([]byte{}, sig...), v)})
			}
			// s + n does not fit 32 bytes for valid s; r + n likewise: not encodable
		}
	case "ed25519":
		if len(sig) == 64 {
			le := func(b []byte) *big.Int {
				r := make([]byte, len(b))
				for i := range b {
					r[len(b)-1-i] = b[i]
				}
				return new(big.Int).SetBytes(r)
			}
			s := le(sig[32:])
			for k := int64(1); k <= 8; k++ {
				t := new(big.Int).Add(s, new(big.Int).Mul(big.NewInt(k), edL))
				if t.BitLen() > 256 {
					break
				}
				be := t.FillBytes(make([]byte, 32))
				m := append([]byte{}, sig[:32]...)
				for i := 31; i >= 0; i-- {
					m = append(m, be[i])
				}
				out = append(out, bytesVariant{fmt.Sprintf("S + %d·L (non-canonical scalar)", k), m})
			}
			out = append(out, bytesVariant{"R sign bit flipped", flipped(sig, 31, 0x80)})
		}
	case "bls":
		if len(sig) > 0 {
			out = append(out,
				bytesVariant{"compression flag cleared", flipped(sig, 0, 0x80)},
				bytesVariant{"infinity flag set", flipped(sig, 0, 0x40)},
				bytesVariant{"sort flag flipped (negated point)", flipped(sig, 0, 0x20)})
		}
	}
	return out
}

// pubKeyEncodings: alternative byte strings for the same key (or that a lax parser could map to it).
func pubKeyEncodings(s *signer) []bytesVariant {
	var out []bytesVariant
	pub := s.pub
	switch s.scheme {
	case "ethsecp256k1":
		out = append(out, bytesVariant{"65-byte SEC1 form (0x04 prefix)", append([]byte{4}, pub...)})
		y := new(big.Int).SetBytes(pub[32:])
		hybrid := byte(6)
		if y.Bit(0) == 1 {
			hybrid = 7
		}
		out = append(out, bytesVariant{"65-byte hybrid form (0x06/0x07 prefix)", append([]byte{hybrid}, pub...)})
		comp := byte(2)
		if y.Bit(0) == 1 {
			comp = 3
		}
		out = append(out, bytesVariant{"33-byte compressed form of the same point", append([]byte{comp}, pub[:32]...)})
	case "secp256k1":
		if pk, ok := s.priv.PublicKey().(*crypto.SECP256K1PublicKey); ok {
			x := pk.X.FillBytes(make([]byte, 32))
			y := pk.Y.FillBytes(make([]byte, 32))
			out = append(out, bytesVariant{"64-byte uncompressed form of the same point", append(append([]byte{}, x...), y...)})
			out = append(out, bytesVariant{"65-byte uncompressed form of the same point", append(append([]byte{4}, x...), y...)})
		}
		out = append(out, bytesVariant{"parity prefix flipped", flipped(pub, 0, 0x01)})
	case "ed25519":
		out = append(out, bytesVariant{"x sign bit flipped", flipped(pub, 31, 0x80)})
	case "bls":
		out = append(out,
			bytesVariant{"compression flag cleared", flipped(pub, 0, 0x80)},
			bytesVariant{"infinity flag set", flipped(pub, 0, 0x40)},
			bytesVariant{"sort flag flipped (negated point)", flipped(pub, 0, 0x20)})
	}
	out = append(out, bytesVariant{"append 0x00", append(append([]byte{}, pub...), 0)})
	return out
}
