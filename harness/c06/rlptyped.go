package c06

import (
	"fmt"
	"math/big"

	"github.com/canopy-network/canopy/fsm"
	"github.com/canopy-network/canopy/lib"
	"github.com/canopy-network/canopy/lib/crypto"
	"github.com/ethereum/go-ethereum/common"
	ethTypes "github.com/ethereum/go-ethereum/core/types"

	"verifharness/drv"
)

// Typed (EIP-1559) Ethereum transactions. Their signature hash does not cover V, and
// crypto.RecoverPublicKey reads the recovery id from V written as 0/1, 27/28 or 35+: the same signed
// transaction has several byte representations ("V twins") with different Ethereum and Canopy hashes.

func signedTypedEthTx(k *signer, evmChainID uint64, nonce uint64, value *big.Int, to []byte, salt int64) *ethTypes.Transaction {
	ek := k.priv.(*crypto.ETHSECP256K1PrivateKey)
	toAddr := common.BytesToAddress(to)
	tip := new(big.Int).Add(scale, big.NewInt(salt))
	t := ethTypes.NewTx(&ethTypes.DynamicFeeTx{ChainID: new(big.Int).SetUint64(evmChainID), Nonce: nonce, GasTipCap: tip,
		GasFeeCap: new(big.Int).Add(tip, big.NewInt(fsm.EthereumBaseFeePerGas)), Gas: 21000, To: &toAddr, Value: value})
	signed, err := ethTypes.SignTx(t, ethTypes.LatestSignerForChainID(new(big.Int).SetUint64(evmChainID)), ek.PrivateKey)
	if err != nil {
		panic(err)
	}
	return signed
}

type ethTwin struct {
	desc string
	bz   []byte
}

// vTwins: the same (r, s) and recovery id with V written differently.
func vTwins(t *ethTypes.Transaction, evmChainID uint64) []ethTwin {
	v, r, s := t.RawSignatureValues()
	var out []ethTwin
	for _, nv := range []struct {
		desc string
		v    *big.Int
	}{
		{"V+27", new(big.Int).Add(v, big.NewInt(27))},
		{"V+35", new(big.Int).Add(v, big.NewInt(35))},
		{"V+37", new(big.Int).Add(v, big.NewInt(37))},
		{"V+2^64", new(big.Int).Add(v, new(big.Int).Lsh(big.NewInt(1), 64))},
		{"V+2^64+27", new(big.Int).Add(v, new(big.Int).Add(new(big.Int).Lsh(big.NewInt(1), 64), big.NewInt(27)))},
		{"V+35+2*chainId", new(big.Int).Add(v, new(big.Int).Add(big.NewInt(35), new(big.Int).Mul(big.NewInt(2), new(big.Int).SetUint64(evmChainID))))},
	} {
		tw := ethTypes.NewTx(&ethTypes.DynamicFeeTx{ChainID: t.ChainId(), Nonce: t.Nonce(), GasTipCap: t.GasTipCap(), GasFeeCap: t.GasFeeCap(), Gas: t.Gas(),
			To: t.To(), Value: t.Value(), Data: t.Data(), AccessList: t.AccessList(), V: nv.v, R: r, S: s})
		bz, err := tw.MarshalBinary()
		if err != nil {
			continue
		}
		out = append(out, ethTwin{"typed tx with " + nv.desc, bz})
	}
	return out
}

// vestingSend: a send carrying a vesting schedule, signed by s.
func vestingSend(s *signer, to []byte, amt, fee, created, txTime, vs, vc, ve uint64) (*lib.Transaction, []byte) {
	a, err := lib.NewAny(&fsm.MessageSend{FromAddress: s.addr, ToAddress: to, Amount: amt, VestingStartHeight: vs, VestingCliffHeight: vc, VestingEndHeight: ve})
	if err != nil {
		panic(err)
	}
	tx := &lib.Transaction{MessageType: fsm.MessageSendName, Msg: a, CreatedHeight: created, Time: txTime, Fee: fee, NetworkId: netID, ChainId: chainID}
	if err = tx.Sign(s.priv); err != nil {
		panic(err)
	}
	raw, err := lib.Marshal(tx)
	if err != nil {
		panic(err)
	}
	return tx, raw
}

// runRLPTyped: V twins of an included typed Ethereum transaction, directly and after third parties
// touched the signer's account (the RLP.V2 nonce floor lives in the account record).
func runRLPTyped(o *drv.Out, fo *failOnce) {
	k, err := newSigner("ethsecp256k1", "rlp-sender")
	if err != nil {
		panic(err)
	}
	third, err := newSigner("ed25519", "third-party")
	if err != nil {
		panic(err)
	}
	rcp := crypto.NewAddressFromBytes(recipient)
	sender := crypto.NewAddressFromBytes(k.addr)
	one := new(big.Int).Mul(big.NewInt(int64(amount)), scale)
	for _, v2 := range []bool{true, false} {
		name := "rlp-typed-legacy"
		evm := fsm.CanopyIdsToEVMChainId(chainID, netID)
		if v2 {
			name = "rlp-typed-v2"
			evm, _ = fsm.CanopyIdsToEVMChainIdV2(chainID, netID)
		}
		s := newScenario(o, name, netID, chainID, []genesisAccount{{k.addr, funds}, {third.addr, funds}, {recipient, 0}})
		s.declareKey(k)
		s.declareKey(third)
		fee := s.c.minSendFee()
		t0 := signedTypedEthTx(k, evm, 1, one, recipient, 0)
		eth0, _ := t0.MarshalBinary()
		raw0, ok := s.declareRLP(v2, eth0)
		if !ok {
			o.Count(name + ":typed-conversion-refused")
			s.c.close()
			continue
		}
		before, _ := s.c.account(rcp)
		s.block([][]byte{raw0}, true)
		if after, _ := s.c.account(rcp); after <= before {
			o.Count(name + ":honest-not-executed")
			s.c.close()
			continue
		}
		o.Sample(fmt.Sprintf("%s honest typed eth tx=%s", name, drv.Hex(eth0)))
		// the variants of T that are offered again and again
		type offerT struct {
			desc string
			raw  []byte
		}
		offers := []offerT{{"identical bytes", raw0}}
		for _, tw := range vTwins(t0, evm) {
			if traw, ok := s.declareRLP(v2, tw.bz); ok {
				offers = append(offers, offerT{tw.desc, traw})
			} else {
				// the conversion refuses this form: wrap it by hand so that the state machine still sees it
				o.Count(name + ":twin-conversion-refused")
				tx := new(lib.Transaction)
				if lib.Unmarshal(raw0, tx) == nil {
					tx.Signature.Signature = tw.bz
					if b, e := lib.Marshal(tx); e == nil {
						offers = append(offers, offerT{tw.desc + " (hand-wrapped)", b})
					}
				}
			}
		}
		offerAll := func(stage string) {
			for _, of := range offers {
				before, _ := s.c.account(rcp)
				s.block([][]byte{of.raw}, true)
				after, _ := s.c.account(rcp)
				o.Count(name + ":" + stage + ":offered")
				o.Nontrivial(name + "|" + stage + "|" + of.desc)
				if after > before {
					sig := "C06:replay-by-signature-malleation"
					if stage != "direct" {
						sig = "C06:replay-after-account-rewrite:" + stage
					}
					_, nonce := s.c.account(sender)
					fo.fail(sig, fmt.Sprintf("%s: %s of an included Ethereum transaction executed again (stage %s; recipient %d -> %d; signer's nonce floor now %d)", name, of.desc, stage, before, after, nonce),
						map[string]any{"included": drv.Hex(raw0), "replayed": drv.Hex(of.raw), "stage": stage, "variant": of.desc})
				}
			}
		}
		offerAll("direct")
		if !v2 {
			s.c.close()
			continue
		}
		// third parties (and the signer itself) touch the signer's account between inclusion and replay
		clock := txTime + 500
		thirdSend := func(vs, vc, ve uint64, amt uint64) []byte {
			clock++
			tx, raw := vestingSend(third, k.addr, amt, fee, 1, clock, vs, vc, ve)
			sb, _ := tx.GetSignBytes()
			s.declareSig(third, sb, tx.Signature.Signature)
			return raw
		}
		h := s.c.height()
		ops := []struct {
			name string
			run  func()
		}{
			{"plain-send-to-signer", func() { s.block([][]byte{thirdSend(0, 0, 0, 5)}, true) }},
			{"drained-to-zero-and-refunded", func() {
				// the signer sends away everything it can spend (its own next RLP.V2 transaction), then is refunded
				bal, nonce := s.c.account(sender)
				spend := s.c.sm.AccountSpendableAmount(mustAccount(s, sender))
				_ = bal
				// the fee the conversion will charge for this shape of transaction
				probe, _ := signedTypedEthTx(k, evm, nonce, one, third.addr, 1).MarshalBinary()
				conv, e := fsm.RLPToCanopyTransactionV2(probe)
				if e != nil {
					panic(e)
				}
				tx := signedTypedEthTx(k, evm, nonce, new(big.Int).Mul(new(big.Int).SetUint64(spend-conv.Fee), scale), third.addr, 1)
				bz, _ := tx.MarshalBinary()
				if raw, ok := s.declareRLP(true, bz); ok {
					s.block([][]byte{raw}, true)
				}
				s.block([][]byte{thirdSend(0, 0, 0, 1_000_000)}, true)
			}},
			{"vesting-send-new-tranche", func() { s.block([][]byte{thirdSend(h, h+1000, h+2000, 7)}, true) }},
			{"vesting-send-top-up", func() { s.block([][]byte{thirdSend(h, h+1000, h+2000, 9)}, true) }},
		}
		for _, op := range ops {
			_, n0 := s.c.account(sender)
			op.run()
			_, n1 := s.c.account(sender)
			o.Count(name + ":op:" + op.name)
			if n1 < n0 {
				fo.fail("C06:nonce-floor-lowered:"+op.name, fmt.Sprintf("the RLP.V2 nonce floor of the signer dropped from %d to %d after %s", n0, n1, op.name), map[string]any{"op": op.name, "before": n0, "after": n1})
			}
			offerAll(op.name)
		}
		s.c.close()
	}
}

func mustAccount(s *scenario, a crypto.AddressI) *fsm.Account {
	acc, err := s.c.sm.GetAccount(a)
	if err != nil {
		panic(err)
	}
	return acc
}
