// Package gotolean is the translator "T" of DESIGN.md §3: it renders a deliberately tiny subset of
// Go (pure functions made of if/return, local definitions, integer/boolean/byte-slice expressions
// and calls to other whitelisted functions) as Lean 4 definitions. Anything outside the subset is
// an error that names the construct, never a guess.
package gotolean

import (
	"fmt"
	"go/ast"
	"go/parser"
	"go/token"
	"sort"
	"strings"
)

// Config tells the translator how to render names it cannot know by itself.
type Config struct {
	// Types maps a Go parameter/result type (as source text) to a Lean type.
	Types map[string]string
	// Calls maps a Go callee (as source text, e.g. "bytes.Equal", "lib.JoinLenPrefix", "t.key") to a renderer.
	Calls map[string]func(args []string) (string, error)
	// Idents maps identifiers / selector chains (as source text) to Lean text (constants, receivers' fields).
	Idents map[string]string
	// DropStmt reports statements to ignore (logging).
	DropStmt func(src string) bool
	// ErrResult: functions returning lib.ErrorI are rendered as `Option String` (none = nil).
	ErrResult bool
	// MethodsAsIdent: treat `x.M()` listed here as `x` (e.g. addr.Bytes()).
	NullaryMethodsIdentity map[string]bool
	// RecvType: when set, a method's receiver becomes the first parameter with this Lean type.
	RecvType string
	// OptionParams: pointer parameters / receivers rendered as `Option T`. The only thing that may be
	// done with them before a nil check is the nil check itself: `if p == nil { return e }` (or a
	// disjunction of such checks) becomes `match p with | none => e | some p => rest`.
	OptionParams map[string]bool
	// LastResultOnly: `return a, err` in a function whose last result is an error is rendered from
	// `err` alone (the other results are not modelled).
	LastResultOnly bool
	// Methods maps a method NAME to a renderer taking the rendered receiver and arguments
	// (used for calls `recv.M(args)` whose full source text is not in Calls).
	Methods map[string]func(recv string, args []string) (string, error)
}

type File struct {
	Fset *token.FileSet
	AST  *ast.File
	Src  []byte
}

func ParseFile(path string) (*File, error) {
	fset := token.NewFileSet()
	f, err := parser.ParseFile(fset, path, nil, parser.ParseComments)
	if err != nil {
		return nil, err
	}
	return &File{Fset: fset, AST: f}, nil
}

// FindFunc returns the declaration of a function or method; recv=="" for plain functions.
func (f *File) FindFunc(recv, name string) *ast.FuncDecl {
	for _, d := range f.AST.Decls {
		fd, ok := d.(*ast.FuncDecl)
		if !ok || fd.Name.Name != name {
			continue
		}
		r := ""
		if fd.Recv != nil && len(fd.Recv.List) == 1 {
			r = typeText(fd.Recv.List[0].Type)
		}
		if r == recv || strings.TrimPrefix(r, "*") == recv {
			return fd
		}
	}
	return nil
}

// ByteConsts extracts package-level `name = []byte{n}` / `[]byte{a,b}` / `[]byte("s")` vars.
func (f *File) ByteConsts() map[string][]byte {
	out := map[string][]byte{}
	for _, d := range f.AST.Decls {
		gd, ok := d.(*ast.GenDecl)
		if !ok || gd.Tok != token.VAR {
			continue
		}
		for _, s := range gd.Specs {
			vs := s.(*ast.ValueSpec)
			for i, n := range vs.Names {
				if i >= len(vs.Values) {
					continue
				}
				if b, ok := byteLit(vs.Values[i]); ok {
					out[n.Name] = b
				}
			}
		}
	}
	return out
}

func byteLit(e ast.Expr) ([]byte, bool) {
	switch v := e.(type) {
	case *ast.CompositeLit:
		if typeText(v.Type) != "[]byte" {
			return nil, false
		}
		var out []byte
		for _, el := range v.Elts {
			bl, ok := el.(*ast.BasicLit)
			if !ok || bl.Kind != token.INT {
				return nil, false
			}
			var n int
			if _, err := fmt.Sscanf(bl.Value, "%d", &n); err != nil || n < 0 || n > 255 {
				return nil, false
			}
			out = append(out, byte(n))
		}
		return out, true
	case *ast.CallExpr:
		if typeText(v.Fun) == "[]byte" && len(v.Args) == 1 {
			if bl, ok := v.Args[0].(*ast.BasicLit); ok && bl.Kind == token.STRING {
				s := strings.Trim(bl.Value, "\"`")
				return []byte(s), true
			}
		}
	}
	return nil, false
}

func typeText(e ast.Expr) string {
	switch v := e.(type) {
	case *ast.Ident:
		return v.Name
	case *ast.StarExpr:
		return "*" + typeText(v.X)
	case *ast.SelectorExpr:
		return typeText(v.X) + "." + v.Sel.Name
	case *ast.ArrayType:
		if v.Len == nil {
			return "[]" + typeText(v.Elt)
		}
		return "[N]" + typeText(v.Elt)
	case *ast.Ellipsis:
		return "..." + typeText(v.Elt)
	case *ast.ParenExpr:
		return typeText(v.X)
	}
	return fmt.Sprintf("%T", e)
}

// ExprText renders an expression back to compact source text (used for table lookups and facts).
func ExprText(e ast.Expr) string {
	switch v := e.(type) {
	case *ast.Ident:
		return v.Name
	case *ast.BasicLit:
		return v.Value
	case *ast.SelectorExpr:
		return ExprText(v.X) + "." + v.Sel.Name
	case *ast.StarExpr:
		return "*" + ExprText(v.X)
	case *ast.ParenExpr:
		return "(" + ExprText(v.X) + ")"
	case *ast.UnaryExpr:
		return v.Op.String() + ExprText(v.X)
	case *ast.BinaryExpr:
		return ExprText(v.X) + " " + v.Op.String() + " " + ExprText(v.Y)
	case *ast.CallExpr:
		var as []string
		for _, a := range v.Args {
			as = append(as, ExprText(a))
		}
		s := ExprText(v.Fun) + "(" + strings.Join(as, ", ") + ")"
		if v.Ellipsis.IsValid() {
			s = ExprText(v.Fun) + "(" + strings.Join(as, ", ") + "...)"
		}
		return s
	case *ast.IndexExpr:
		return ExprText(v.X) + "[" + ExprText(v.Index) + "]"
	case *ast.SliceExpr:
		lo, hi := "", ""
		if v.Low != nil {
			lo = ExprText(v.Low)
		}
		if v.High != nil {
			hi = ExprText(v.High)
		}
		return ExprText(v.X) + "[" + lo + ":" + hi + "]"
	case *ast.ArrayType, *ast.Ellipsis:
		return typeText(v)
	case *ast.CompositeLit:
		var as []string
		for _, a := range v.Elts {
			as = append(as, ExprText(a))
		}
		return typeText(v.Type) + "{" + strings.Join(as, ", ") + "}"
	case *ast.KeyValueExpr:
		return ExprText(v.Key) + ": " + ExprText(v.Value)
	case *ast.FuncLit:
		return "func(...){" + StmtsText(v.Body.List) + "}"
	case *ast.TypeAssertExpr:
		if v.Type == nil {
			return ExprText(v.X) + ".(type)"
		}
		return ExprText(v.X) + ".(" + typeText(v.Type) + ")"
	}
	return fmt.Sprintf("<%T>", e)
}

// StmtsText renders statements in a compact, comment-free, whitespace-normalised form: the
// "normalised source" used for structural facts.
func StmtsText(list []ast.Stmt) string {
	var out []string
	for _, s := range list {
		out = append(out, StmtText(s))
	}
	return strings.Join(out, "; ")
}

func StmtText(s ast.Stmt) string {
	switch v := s.(type) {
	case *ast.ReturnStmt:
		var as []string
		for _, a := range v.Results {
			as = append(as, ExprText(a))
		}
		return strings.TrimSpace("return " + strings.Join(as, ", "))
	case *ast.ExprStmt:
		return ExprText(v.X)
	case *ast.AssignStmt:
		var l, r []string
		for _, a := range v.Lhs {
			l = append(l, ExprText(a))
		}
		for _, a := range v.Rhs {
			r = append(r, ExprText(a))
		}
		return strings.Join(l, ", ") + " " + v.Tok.String() + " " + strings.Join(r, ", ")
	case *ast.IfStmt:
		t := "if "
		if v.Init != nil {
			t += StmtText(v.Init) + "; "
		}
		t += ExprText(v.Cond) + " { " + StmtsText(v.Body.List) + " }"
		if v.Else != nil {
			t += " else " + StmtText(v.Else)
		}
		return t
	case *ast.BlockStmt:
		return "{ " + StmtsText(v.List) + " }"
	case *ast.IncDecStmt:
		return ExprText(v.X) + v.Tok.String()
	case *ast.ForStmt:
		t := "for "
		if v.Init != nil {
			t += StmtText(v.Init)
		}
		t += "; "
		if v.Cond != nil {
			t += ExprText(v.Cond)
		}
		t += "; "
		if v.Post != nil {
			t += StmtText(v.Post)
		}
		return t + " { " + StmtsText(v.Body.List) + " }"
	case *ast.RangeStmt:
		k, val := "_", "_"
		if v.Key != nil {
			k = ExprText(v.Key)
		}
		if v.Value != nil {
			val = ExprText(v.Value)
		}
		return "for " + k + ", " + val + " " + v.Tok.String() + " range " + ExprText(v.X) + " { " + StmtsText(v.Body.List) + " }"
	case *ast.SwitchStmt:
		t := "switch "
		if v.Init != nil {
			t += StmtText(v.Init) + "; "
		}
		if v.Tag != nil {
			t += ExprText(v.Tag)
		}
		return t + " { " + StmtsText(v.Body.List) + " }"
	case *ast.TypeSwitchStmt:
		return "switch " + StmtText(v.Assign) + " { " + StmtsText(v.Body.List) + " }"
	case *ast.CaseClause:
		if v.List == nil {
			return "default: " + StmtsText(v.Body)
		}
		var as []string
		for _, a := range v.List {
			as = append(as, ExprText(a))
		}
		return "case " + strings.Join(as, ", ") + ": " + StmtsText(v.Body)
	case *ast.DeclStmt:
		gd := v.Decl.(*ast.GenDecl)
		var out []string
		for _, sp := range gd.Specs {
			if vs, ok := sp.(*ast.ValueSpec); ok {
				var ns []string
				for _, n := range vs.Names {
					ns = append(ns, n.Name)
				}
				t := "var " + strings.Join(ns, ", ")
				if vs.Type != nil {
					t += " " + typeText(vs.Type)
				}
				if len(vs.Values) > 0 {
					var r []string
					for _, a := range vs.Values {
						r = append(r, ExprText(a))
					}
					t += " = " + strings.Join(r, ", ")
				}
				out = append(out, t)
			}
		}
		return strings.Join(out, "; ")
	case *ast.DeferStmt:
		return "defer " + ExprText(v.Call)
	case *ast.GoStmt:
		return "go " + ExprText(v.Call)
	case *ast.BranchStmt:
		return v.Tok.String()
	case *ast.SendStmt:
		return ExprText(v.Chan) + " <- " + ExprText(v.Value)
	case *ast.SelectStmt:
		return "select { " + StmtsText(v.Body.List) + " }"
	case *ast.CommClause:
		if v.Comm == nil {
			return "default: " + StmtsText(v.Body)
		}
		return "case " + StmtText(v.Comm) + ": " + StmtsText(v.Body)
	case *ast.LabeledStmt:
		return v.Label.Name + ": " + StmtText(v.Stmt)
	case *ast.EmptyStmt:
		return ""
	}
	return fmt.Sprintf("<%T>", s)
}

// ---------------------------------------------------------------------------------------------
// translation

type Translator struct {
	Cfg Config
}

func (t *Translator) leanType(goType string) (string, error) {
	if lt, ok := t.Cfg.Types[goType]; ok {
		return lt, nil
	}
	return "", fmt.Errorf("type %q outside the translator's subset", goType)
}

// Func renders fd as a Lean `def <leanName> (params) : <ret> := body`.
func (t *Translator) Func(fd *ast.FuncDecl, leanName string) (string, error) {
	var params []string
	if t.Cfg.RecvType != "" && fd.Recv != nil && len(fd.Recv.List) == 1 && len(fd.Recv.List[0].Names) == 1 {
		params = append(params, fmt.Sprintf("(%s : %s)", leanIdent(fd.Recv.List[0].Names[0].Name), t.Cfg.RecvType))
	}
	for _, p := range fd.Type.Params.List {
		lt, err := t.leanType(typeText(p.Type))
		if err != nil {
			return "", fmt.Errorf("%s: %v", fd.Name.Name, err)
		}
		for _, n := range p.Names {
			params = append(params, fmt.Sprintf("(%s : %s)", leanIdent(n.Name), lt))
		}
	}
	if fd.Type.Results == nil || len(fd.Type.Results.List) != 1 || len(fd.Type.Results.List[0].Names) > 1 {
		return "", fmt.Errorf("%s: need exactly one result", fd.Name.Name)
	}
	rt := typeText(fd.Type.Results.List[0].Type)
	lrt, err := t.leanType(rt)
	if err != nil {
		return "", fmt.Errorf("%s: %v", fd.Name.Name, err)
	}
	body, err := t.stmts(fd.Body.List, rt, "  ")
	if err != nil {
		return "", fmt.Errorf("%s: %v", fd.Name.Name, err)
	}
	return fmt.Sprintf("def %s %s : %s :=\n%s\n", leanName, strings.Join(params, " "), lrt, body), nil
}

// Stmts renders a statement list that ends in a return on every path (a function body or a tail of
// one) as a Lean term of the result type named by rt ("lib.ErrorI"/"error" => Option String).
func (t *Translator) Stmts(list []ast.Stmt, rt string, ind string) (string, error) {
	return t.stmts(list, rt, ind)
}

func leanIdent(s string) string {
	switch s {
	case "end", "from", "at", "fun", "open", "in", "then", "else", "do", "let", "have", "show", "by", "where", "with", "match", "if":
		return s + "'"
	}
	return s
}

func (t *Translator) stmts(list []ast.Stmt, rt string, ind string) (string, error) {
	if len(list) == 0 {
		return "", fmt.Errorf("control reaches end of function without return")
	}
	s := list[0]
	rest := list[1:]
	if t.Cfg.DropStmt != nil && t.Cfg.DropStmt(StmtText(s)) {
		return t.stmts(rest, rt, ind)
	}
	switch v := s.(type) {
	case *ast.ReturnStmt:
		if len(v.Results) != 1 && !(t.Cfg.LastResultOnly && len(v.Results) > 1) {
			return "", fmt.Errorf("return with %d results", len(v.Results))
		}
		e, err := t.result(v.Results[len(v.Results)-1], rt)
		if err != nil {
			return "", err
		}
		return ind + e, nil
	case *ast.IfStmt:
		if v.Init != nil {
			// `if a, b := x, y; cond { ... }`: the definitions scope over the condition and the branches only; rendered as
			// lets in front of the if (names that shadow later uses are the source's own business: Go forbids the clash)
			lets, err := t.InitLets(v.Init, ind)
			if err != nil {
				return "", err
			}
			cp := *v
			cp.Init = nil
			tail, err := t.stmts(append([]ast.Stmt{&cp}, rest...), rt, ind)
			if err != nil {
				return "", err
			}
			return lets + tail, nil
		}
		if names := t.nilChecks(v.Cond); len(names) > 0 && v.Else == nil && endsInReturn(v.Body.List) {
			// if p == nil || q == nil { return e }; rest   ==>   match p with | none => e | some p => match q with ...
			thenS, err := t.stmts(v.Body.List, rt, ind+"    ")
			if err != nil {
				return "", err
			}
			var b strings.Builder
			for i, n := range names {
				pad := ind + strings.Repeat("  ", i)
				fmt.Fprintf(&b, "%smatch %s with\n%s| none =>\n%s\n%s| some %s =>\n", pad, n, pad, reindent(thenS, pad+"    "), pad, n)
			}
			restS, err := t.stmts(rest, rt, ind+strings.Repeat("  ", len(names)))
			if err != nil {
				return "", err
			}
			return b.String() + restS, nil
		}
		c, err := t.Expr(v.Cond)
		if err != nil {
			return "", err
		}
		thenList := v.Body.List
		var elseList []ast.Stmt
		if v.Else != nil {
			switch e := v.Else.(type) {
			case *ast.BlockStmt:
				elseList = e.List
			case *ast.IfStmt:
				elseList = []ast.Stmt{e}
			}
		}
		// the then-branch must end in return (early exit); otherwise fall-through join is needed
		thenS, err := t.stmts(append(append([]ast.Stmt{}, thenList...), nonReturningTail(thenList, rest)...), rt, ind+"  ")
		if err != nil {
			return "", err
		}
		elseS, err := t.stmts(append(append([]ast.Stmt{}, elseList...), rest...), rt, ind+"  ")
		if err != nil {
			return "", err
		}
		return fmt.Sprintf("%sif %s then\n%s\n%selse\n%s", ind, c, thenS, ind, elseS), nil
	case *ast.AssignStmt:
		if len(v.Lhs) != 1 || len(v.Rhs) != 1 {
			return "", fmt.Errorf("multi-assignment")
		}
		id, ok := v.Lhs[0].(*ast.Ident)
		if !ok {
			return "", fmt.Errorf("assignment to non-identifier %s", ExprText(v.Lhs[0]))
		}
		r, err := t.Expr(v.Rhs[0])
		if err != nil {
			return "", err
		}
		name := leanIdent(id.Name)
		switch v.Tok {
		case token.DEFINE, token.ASSIGN:
		case token.ADD_ASSIGN:
			r = fmt.Sprintf("(%s + %s)", name, r)
		case token.SUB_ASSIGN:
			r = fmt.Sprintf("(%s - %s)", name, r)
		case token.MUL_ASSIGN:
			r = fmt.Sprintf("(%s * %s)", name, r)
		case token.QUO_ASSIGN:
			r = fmt.Sprintf("(%s / %s)", name, r)
		default:
			return "", fmt.Errorf("assignment operator %s", v.Tok)
		}
		tail, err := t.stmts(rest, rt, ind)
		if err != nil {
			return "", err
		}
		return fmt.Sprintf("%slet %s := %s\n%s", ind, name, r, tail), nil
	}
	return "", fmt.Errorf("statement outside subset: %s", StmtText(s))
}

// InitLets renders the init statement of an `if` (a definition of n identifiers by n expressions) as Lean lets.
func (t *Translator) InitLets(init ast.Stmt, ind string) (string, error) {
	as, ok := init.(*ast.AssignStmt)
	if !ok || as.Tok != token.DEFINE || len(as.Lhs) != len(as.Rhs) {
		return "", fmt.Errorf("if with init statement outside subset: %s", StmtText(init))
	}
	var b strings.Builder
	for i := range as.Lhs {
		id, ok := as.Lhs[i].(*ast.Ident)
		if !ok {
			return "", fmt.Errorf("if init defines a non-identifier")
		}
		r, err := t.Expr(as.Rhs[i])
		if err != nil {
			return "", err
		}
		fmt.Fprintf(&b, "%slet %s := %s\n", ind, leanIdent(id.Name), r)
	}
	return b.String(), nil
}

// nilChecks returns the option parameters tested by a condition of the form `p == nil [|| q == nil ...]`
// (nil when the condition has any other shape).
func (t *Translator) nilChecks(e ast.Expr) []string {
	switch v := e.(type) {
	case *ast.ParenExpr:
		return t.nilChecks(v.X)
	case *ast.BinaryExpr:
		if v.Op == token.LOR {
			l, r := t.nilChecks(v.X), t.nilChecks(v.Y)
			if l == nil || r == nil {
				return nil
			}
			return append(l, r...)
		}
		if v.Op == token.EQL {
			id, ok := v.X.(*ast.Ident)
			nl, ok2 := v.Y.(*ast.Ident)
			if ok && ok2 && nl.Name == "nil" && t.Cfg.OptionParams[id.Name] {
				return []string{leanIdent(id.Name)}
			}
		}
	}
	return nil
}

func endsInReturn(list []ast.Stmt) bool {
	if len(list) == 0 {
		return false
	}
	_, ok := list[len(list)-1].(*ast.ReturnStmt)
	return ok
}

func reindent(s, ind string) string {
	lines := strings.Split(s, "\n")
	for i, l := range lines {
		lines[i] = ind + strings.TrimLeft(l, " ")
	}
	return strings.Join(lines, "\n")
}

// nonReturningTail: if the then-branch does not end in a return, control falls through to `rest`.
func nonReturningTail(thenList []ast.Stmt, rest []ast.Stmt) []ast.Stmt {
	if len(thenList) > 0 {
		if _, ok := thenList[len(thenList)-1].(*ast.ReturnStmt); ok {
			return nil
		}
	}
	return rest
}

func (t *Translator) result(e ast.Expr, rt string) (string, error) {
	if rt == "lib.ErrorI" || rt == "error" {
		if id, ok := e.(*ast.Ident); ok && id.Name == "nil" {
			return "none", nil
		}
		if c, ok := e.(*ast.CallExpr); ok {
			return fmt.Sprintf("some %q", lastName(ExprText(c.Fun))), nil
		}
		return "", fmt.Errorf("error result %s outside subset", ExprText(e))
	}
	return t.Expr(e)
}

func lastName(s string) string {
	if i := strings.LastIndex(s, "."); i >= 0 {
		return s[i+1:]
	}
	return s
}

var binops = map[token.Token]string{
	token.ADD: "+", token.SUB: "-", token.MUL: "*", token.QUO: "/", token.REM: "%",
	token.LAND: "&&", token.LOR: "||",
	token.EQL: "==", token.NEQ: "!=", token.LSS: "<", token.GTR: ">", token.LEQ: "<=", token.GEQ: ">=",
	token.SHL: "<<<", token.SHR: ">>>", token.AND: "&&&", token.OR: "|||", token.XOR: "^^^",
}

// Expr renders an expression. Comparisons are rendered with `decide` so that the result is a Bool.
func (t *Translator) Expr(e ast.Expr) (string, error) {
	src := ExprText(e)
	if r, ok := t.Cfg.Idents[src]; ok {
		return r, nil
	}
	switch v := e.(type) {
	case *ast.Ident:
		if v.Name == "true" || v.Name == "false" {
			return v.Name, nil
		}
		return leanIdent(v.Name), nil
	case *ast.BasicLit:
		if v.Kind == token.INT {
			return v.Value, nil
		}
		return "", fmt.Errorf("literal %s outside subset", v.Value)
	case *ast.ParenExpr:
		x, err := t.Expr(v.X)
		if err != nil {
			return "", err
		}
		return "(" + x + ")", nil
	case *ast.SelectorExpr:
		x, err := t.Expr(v.X)
		if err != nil {
			return "", err
		}
		return x + "." + v.Sel.Name, nil
	case *ast.UnaryExpr:
		x, err := t.Expr(v.X)
		if err != nil {
			return "", err
		}
		if v.Op == token.NOT {
			return "(!" + x + ")", nil
		}
		return "", fmt.Errorf("unary %s outside subset", v.Op)
	case *ast.BinaryExpr:
		x, err := t.Expr(v.X)
		if err != nil {
			return "", err
		}
		y, err := t.Expr(v.Y)
		if err != nil {
			return "", err
		}
		op, ok := binops[v.Op]
		if !ok {
			return "", fmt.Errorf("operator %s outside subset", v.Op)
		}
		switch v.Op {
		case token.EQL, token.NEQ, token.LSS, token.GTR, token.LEQ, token.GEQ:
			return fmt.Sprintf("(decide (%s %s %s))", x, strings.Replace(strings.Replace(op, "==", "=", 1), "!=", "≠", 1), y), nil
		}
		return fmt.Sprintf("(%s %s %s)", x, op, y), nil
	case *ast.CallExpr:
		fn := ExprText(v.Fun)
		// identity nullary methods: addr.Bytes()
		if sel, ok := v.Fun.(*ast.SelectorExpr); ok && len(v.Args) == 0 && t.Cfg.NullaryMethodsIdentity[sel.Sel.Name] {
			return t.Expr(sel.X)
		}
		var args []string
		for _, a := range v.Args {
			if id, ok := a.(*ast.Ident); ok && id.Name == "nil" {
				args = append(args, "nil")
				continue
			}
			x, err := t.Expr(a)
			if err != nil {
				return "", err
			}
			args = append(args, x)
		}
		if fn == "append" && v.Ellipsis.IsValid() && len(args) == 2 {
			return fmt.Sprintf("(%s ++ %s)", args[0], args[1]), nil
		}
		if fn == "uint64" && len(args) == 1 {
			return args[0], nil
		}
		if r, ok := t.Cfg.Calls[fn]; ok {
			return r(args)
		}
		if sel, ok := v.Fun.(*ast.SelectorExpr); ok {
			if r, ok := t.Cfg.Methods[sel.Sel.Name]; ok {
				recv, err := t.Expr(sel.X)
				if err != nil {
					return "", err
				}
				return r(recv, args)
			}
		}
		return "", fmt.Errorf("call to %s outside whitelist", fn)
	case *ast.CompositeLit:
		if b, ok := byteLit(v); ok {
			return BytesLit(b), nil
		}
	}
	return "", fmt.Errorf("expression outside subset: %s", src)
}

func BytesLit(b []byte) string {
	var s []string
	for _, x := range b {
		s = append(s, fmt.Sprintf("%d", x))
	}
	return "([" + strings.Join(s, ", ") + "] : Bytes)"
}

// SortedKeys is a helper for deterministic output.
func SortedKeys[V any](m map[string]V) []string {
	var ks []string
	for k := range m {
		ks = append(ks, k)
	}
	sort.Strings(ks)
	return ks
}

// App renders a Lean application f a b c.
func App(f string) func(args []string) (string, error) {
	return func(args []string) (string, error) {
		if len(args) == 0 {
			return f, nil
		}
		return "(" + f + " " + strings.Join(args, " ") + ")", nil
	}
}

// Desugar rewrites (copying, never mutating the parsed tree) two constructs into the translator's
// subset: a tagless `switch { case c1: A; case c2: B; default: D }` without fallthrough/break becomes
// `if c1 { A } else if c2 { B } else { D }`, and a bare `return` (function with ONE named result that
// is never assigned) becomes `return <zero>`. Anything else is passed through unchanged; the caller
// must have checked the "never assigned" side condition (see NamedResultNeverAssigned).
func Desugar(list []ast.Stmt, zero ast.Expr) ([]ast.Stmt, error) {
	var out []ast.Stmt
	for _, s := range list {
		d, err := desugarStmt(s, zero)
		if err != nil {
			return nil, err
		}
		out = append(out, d)
	}
	return out, nil
}

func desugarBlock(b *ast.BlockStmt, zero ast.Expr) (*ast.BlockStmt, error) {
	if b == nil {
		return nil, nil
	}
	l, err := Desugar(b.List, zero)
	if err != nil {
		return nil, err
	}
	return &ast.BlockStmt{List: l}, nil
}

func desugarStmt(s ast.Stmt, zero ast.Expr) (ast.Stmt, error) {
	switch v := s.(type) {
	case *ast.ReturnStmt:
		if len(v.Results) == 0 {
			return &ast.ReturnStmt{Results: []ast.Expr{zero}}, nil
		}
		return v, nil
	case *ast.IfStmt:
		body, err := desugarBlock(v.Body, zero)
		if err != nil {
			return nil, err
		}
		n := &ast.IfStmt{Init: v.Init, Cond: v.Cond, Body: body}
		if v.Else != nil {
			e, err := desugarStmt(v.Else, zero)
			if err != nil {
				return nil, err
			}
			n.Else = e
		}
		return n, nil
	case *ast.BlockStmt:
		return desugarBlock(v, zero)
	case *ast.SwitchStmt:
		if v.Tag != nil || v.Init != nil {
			return nil, fmt.Errorf("switch with tag/init outside subset")
		}
		var first, last *ast.IfStmt
		var deflt *ast.BlockStmt
		for _, c := range v.Body.List {
			cc := c.(*ast.CaseClause)
			for _, b := range cc.Body {
				if br, ok := b.(*ast.BranchStmt); ok {
					return nil, fmt.Errorf("switch with %s outside subset", br.Tok)
				}
			}
			body, err := Desugar(cc.Body, zero)
			if err != nil {
				return nil, err
			}
			if cc.List == nil {
				deflt = &ast.BlockStmt{List: body}
				continue
			}
			cond := cc.List[0]
			for _, more := range cc.List[1:] {
				cond = &ast.BinaryExpr{X: cond, Op: token.LOR, Y: more}
			}
			n := &ast.IfStmt{Cond: cond, Body: &ast.BlockStmt{List: body}}
			if first == nil {
				first = n
			} else {
				last.Else = n
			}
			last = n
		}
		if first == nil {
			if deflt != nil {
				return deflt, nil
			}
			return &ast.BlockStmt{}, nil
		}
		if deflt != nil {
			last.Else = deflt
		}
		return first, nil
	}
	return s, nil
}

// NamedResultNeverAssigned reports whether fd has exactly one named result and no statement in its
// body assigns to it (so that a bare `return` returns the type's zero value).
func NamedResultNeverAssigned(fd *ast.FuncDecl) (string, bool) {
	if fd.Type.Results == nil || len(fd.Type.Results.List) != 1 || len(fd.Type.Results.List[0].Names) != 1 {
		return "", false
	}
	name := fd.Type.Results.List[0].Names[0].Name
	ok := true
	ast.Inspect(fd.Body, func(n ast.Node) bool {
		switch a := n.(type) {
		case *ast.AssignStmt:
			for _, l := range a.Lhs {
				if id, isId := l.(*ast.Ident); isId && id.Name == name {
					ok = false
				}
			}
		case *ast.IncDecStmt:
			if id, isId := a.X.(*ast.Ident); isId && id.Name == name {
				ok = false
			}
		case *ast.UnaryExpr:
			if a.Op == token.AND {
				if id, isId := a.X.(*ast.Ident); isId && id.Name == name {
					ok = false
				}
			}
		}
		return true
	})
	return name, ok
}
