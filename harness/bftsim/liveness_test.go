package bftsim

import (
	"testing"

	"github.com/canopy-network/canopy/bft"
	"github.com/canopy-network/canopy/lib"
	"google.golang.org/protobuf/proto"
)

func others(s *Sim, skip int) []int {
	var o []int
	for i := range s.Nodes {
		if i != skip {
			o = append(o, i)
		}
	}
	return o
}

// syncRound runs one fully synchronous round for `who`, who must stand at ELECTION: every message is delivered before
// the next phase; a replica that reaches the next round's ELECTION waits for the others. `hook` runs after each phase's
// deliveries (phase = the phase just executed by the replicas still in the round). Returns the accepted honest commits so far.
func syncRound(s *Sim, who []int, hook func(done lib.Phase)) int {
	start := map[int]uint64{}
	for _, i := range who {
		start[i] = s.Nodes[i].B.Round
	}
	for k := 0; k < 14; k++ {
		var ph lib.Phase
		moved := false
		for _, i := range who {
			b := s.Nodes[i].B
			if committedAt(s, i) || (b.Phase == bft.Election && b.Round > start[i]) {
				continue
			}
			ph = b.Phase
			s.Phase(i)
			moved = true
		}
		if !moved {
			break
		}
		s.DeliverAll(nil)
		if hook != nil {
			hook(ph)
		}
	}
	n := 0
	for _, c := range s.Commits {
		if c.Accepted && !s.IsByz[c.Rep] {
			n++
		}
	}
	return n
}

func TestSyncRoundBaselineCommits(t *testing.T) {
	s := New(Config{N: 4, Powers: []uint64{1, 1, 1, 1}, Byz: []int{0}, Root0: 10, Salt: 7})
	if n := syncRound(s, []int{0, 1, 2, 3}, nil); n != 3 {
		t.Fatalf("baseline: %d honest commits", n)
	}
}

func committedAt(s *Sim, i int) bool {
	for _, c := range s.Commits {
		if c.Rep == i && c.Accepted {
			return true
		}
	}
	return false
}

// A: one ELECTION_VOTE per honest replica carrying the round's own (block-less) PROPOSE_VOTE certificate, sent between
// PROPOSE_VOTE and PRECOMMIT_VOTE, and the height never commits again, even with the Byzantine replica silent afterwards.
func TestLivenessElectionVoteWedge(t *testing.T) {
	s := New(Config{N: 4, Powers: []uint64{1, 1, 1, 1}, Byz: []int{0}, Root0: 10, Salt: 7})
	all := []int{0, 1, 2, 3}
	attacked := false
	n := syncRound(s, all, func(done lib.Phase) {
		if done == bft.Precommit && !attacked {
			attacked = true
			qc := s.FindCert(lib.Phase_PROPOSE_VOTE, 1, nil)
			c := proto.Clone(qc).(*lib.QuorumCertificate)
			c.Block, c.Results = nil, nil
			for _, to := range []int{1, 2, 3} {
				s.ByzElectionVote(0, VR{10, 0}, 0, c, to)
			}
			s.DeliverAll(nil)
		}
	})
	t.Logf("round 0: honest commits=%d; states: %s | %s | %s", n, s.State(1), s.State(2), s.State(3))
	for r := 1; r <= 12; r++ {
		n = syncRound(s, []int{1, 2, 3}, nil) // the Byzantine replica is silent from here on
		t.Logf("round %d (leader %d): honest commits=%d; %s | %s", r, s.FallbackLeader(10, s.Nodes[1].B.Round-1), n, s.State(1), s.State(3))
	}
	if n != 0 {
		t.Fatalf("expected the height to be wedged, got %d commits", n)
	}
}

// F7: with 4 equal validators the pacemaker threshold Uint64ReducePercentage(maj, 50) is 1: one validator's claim moves everyone.
func TestLivenessPacemakerPush(t *testing.T) {
	s := New(Config{N: 4, Powers: []uint64{1, 1, 1, 1}, Byz: []int{0}, Root0: 10, Salt: 7})
	hon := []int{1, 2, 3}
	s.ByzPacemaker(0, 10, 1_000_000, hon)
	s.DeliverAll(nil)
	// an ordinary failed round (nothing delivered)
	for k := 0; k < 6; k++ {
		for _, i := range hon {
			if s.Nodes[i].B.Phase != bft.Election || k == 0 {
				s.Phase(i)
			}
		}
		s.DropAll()
	}
	for _, i := range hon {
		b := s.Nodes[i].B
		t.Logf("replica %d: %s; ELECTION wait at this round = %v; maj=%d threshold=%d", i, s.State(i), b.WaitTime(bft.Election, b.Round), s.ValSet.MinimumMaj23, lib.Uint64ReducePercentage(s.ValSet.MinimumMaj23, 50))
		if b.Round < 1_000_000 {
			t.Errorf("replica %d not pushed", i)
		}
	}
}

// g: a Byzantine non-leader re-signs the leader's PRECOMMIT message; it overwrites the genuine one in every replica's
// proposal table and CheckProposerAndProposal interrupts the round (wrong proposer). Repeatable every round.
func TestLivenessLeaderMessageEcho(t *testing.T) {
	s := New(Config{N: 4, Powers: []uint64{1, 1, 1, 1}, Byz: []int{0}, Root0: 10, Salt: 7})
	total := 0
	for r := 0; r < 12; r++ {
		leader := s.FallbackLeader(10, s.Nodes[1].B.Round)
		var pre *bft.Message
		echoed := false
		total = syncRound(s, []int{1, 2, 3}, func(done lib.Phase) {
			if l := s.Nodes[1].B.Proposals[s.Nodes[1].B.Round]["5_PRECOMMIT"]; !echoed && len(l) > 0 && leader != 0 {
				echoed = true
				// find the leader's PRECOMMIT in what was just delivered: take it from replica 1's table
				pre = s.Nodes[1].B.Proposals[s.Nodes[1].B.Round]["5_PRECOMMIT"][0]
				for _, e := range s.ByzResign(0, pre, nil, []int{1, 2, 3}) {
					s.Deliver(e)
				}
				s.Take(func(*Envelope) bool { return true })
			}
		})
		t.Logf("round %d leader %d echoed=%v: honest commits=%d; %s", r, leader, echoed, total, s.State(1))
	}
	if total != 0 {
		t.Fatalf("expected no commit, got %d", total)
	}
}

// f: a validator that was elected once at this height keeps its ELECTION_VOTE certificate; in every later round it
// re-sends its PROPOSE message with the header's round set to the current round. CheckProposerMessage's PROPOSE branch
// does not bind the certificate to the message's round, the message overwrites the genuine proposal, the replicas
// propose-vote to the Byzantine validator and the round's leader never reaches +2/3.
func TestLivenessStaleElectionCertificate(t *testing.T) {
	var salt uint64
	probe := New(Config{N: 4, Powers: []uint64{1, 1, 1, 1}, Byz: []int{0}, Root0: 10, Salt: 1})
	for salt = 1; ; salt++ {
		probe.SetSalt(salt)
		if probe.FallbackLeader(10, 0) == 0 {
			break
		}
	}
	s := New(Config{N: 4, Powers: []uint64{1, 1, 1, 1}, Byz: []int{0}, Root0: 10, Salt: salt})
	all := []int{0, 1, 2, 3}
	// round 0: no candidate announcements are delivered, everyone votes for the fallback leader 0, who proposes and then goes silent
	for _, i := range all {
		s.Phase(i) // ELECTION
	}
	s.DropAll()
	for _, i := range all {
		s.Phase(i) // ELECTION_VOTE
	}
	s.DeliverAll(nil)
	s.Phase(0) // PROPOSE
	var old *bft.Message
	for _, e := range s.Queue {
		if e.Kind == "PROPOSE" {
			old = e.Msg
		}
	}
	if old == nil {
		t.Fatal("the Byzantine validator was not elected")
	}
	s.DropAll()
	hon := []int{1, 2, 3}
	for k := 0; k < 6; k++ { // the honest replicas' round 0 fails
		for _, i := range hon {
			if b := s.Nodes[i].B; !(b.Phase == bft.Election && b.Round > 0) {
				s.Phase(i)
			}
		}
		s.DropAll()
	}
	total := 0
	for r := 1; r <= 12; r++ {
		hijacked := false
		total = syncRound(s, hon, func(done lib.Phase) {
			cur := s.Nodes[1].B.Round
			if l := s.Nodes[1].B.Proposals[cur]["3_PROPOSE"]; !hijacked && len(l) > 0 {
				hijacked = true
				for _, e := range s.ByzResign(0, old, func(m *bft.Message) { m.Header.Round = cur }, hon) {
					if code := s.Deliver(e); code != "" {
						t.Logf("   stale PROPOSE -> %d rejected: %s", e.To, code)
					}
				}
				s.Take(func(*Envelope) bool { return true })
			}
		})
		t.Logf("round %d hijacked=%v: honest commits=%d; %s", r, hijacked, total, s.State(1))
	}
	if total != 0 {
		t.Fatalf("expected no commit, got %d", total)
	}
}
