package bftsim

import (
	"bytes"
	"fmt"

	"github.com/canopy-network/canopy/bft"
	"github.com/canopy-network/canopy/lib"
	"github.com/canopy-network/canopy/lib/crypto"
	"google.golang.org/protobuf/proto"
)

// Deviations available to the Byzantine replica. Each one only edits the fields of its own BFT object
// or the messages it sends and signs with its own key; certificates it uses are ones that travelled
// on the network (Sim.Certs), i.e. aggregates of votes that were really signed.

// ByzForgetLock makes the Byzantine replica vote for whatever is proposed (it ignores SafeNode).
func (s *Sim) ByzForgetLock(i int) { s.Nodes[i].B.HighQC = nil }

// ByzProposeWith runs the real StartProposePhase of replica i (which must be in phase PROPOSE and hold
// an ELECTION_VOTE majority) after planting `hq` as its HighQC: the proposal re-proposes hq's block
// justified by hq. hq == nil: a fresh block. The phase is not advanced; call it again for equivocation.
// Returns the envelopes of the proposal (one per recipient).
func (s *Sim) ByzProposeWith(i int, hq *lib.QuorumCertificate) []*Envelope {
	n := s.Nodes[i]
	b := n.B
	before := s.nextEnv
	if hq != nil {
		c := proto.Clone(hq).(*lib.QuorumCertificate)
		if c.Block == nil { // certificates inside PRECOMMIT/COMMIT messages travel without the block
			info := s.BlockOf[s.BlockID(c.BlockHash, c.ResultsHash)-1]
			c.Block, c.Results = bytes.Clone(info.Block), proto.Clone(info.Results).(*lib.CertificateResult)
		}
		b.HighQC = c
		b.Block, b.Results, b.BlockHash = c.Block, c.Results, nil
		b.RCBuildHeight = n.Root // the re-proposal claims the current root height as its build height
	} else {
		b.HighQC = nil
		b.Block, b.Results, b.BlockHash = nil, nil, nil
	}
	n.Sent = nil
	n.Lock()
	b.StartProposePhase()
	n.Unlock()
	n.Sent = nil
	return s.since(before)
}

func (s *Sim) since(before int) []*Envelope {
	var out []*Envelope
	for _, e := range s.Queue {
		if e.ID > before {
			out = append(out, e)
		}
	}
	return out
}

// ByzSwapQC replaces the certificate inside the Byzantine leader's queued PRECOMMIT (or COMMIT)
// envelopes by another real certificate `qc` for the same (blockHash, resultsHash) and re-signs.
func (s *Sim) ByzSwapQC(i int, envs []*Envelope, qc *lib.QuorumCertificate) {
	for _, e := range envs {
		if e.From != i || e.Msg.Qc == nil {
			continue
		}
		m := proto.Clone(e.Msg).(*bft.Message)
		c := proto.Clone(qc).(*lib.QuorumCertificate)
		c.Block, c.Results = nil, nil
		m.Qc = c
		if err := m.Sign(s.Keys[i]); err != nil {
			panic(err)
		}
		s.NSign++
		e.Msg = m
	}
}

// ByzVote signs a replica vote for an arbitrary payload with the Byzantine key and queues it for `to`.
func (s *Sim) ByzVote(i int, phase lib.Phase, view VR, blk int, proposer int, to int) *Envelope {
	n := s.Nodes[i]
	info := s.BlockOf[blk-1]
	m := &bft.Message{Qc: &lib.QuorumCertificate{
		Header:      &lib.View{NetworkId: n.B.NetworkId, ChainId: n.B.ChainId, Height: Height, RootHeight: view.Root, Round: view.Round, Phase: phase},
		BlockHash:   bytes.Clone(info.Hash),
		ResultsHash: bytes.Clone(info.RHash),
		ProposerKey: s.Pubs[proposer],
	}}
	n.voteJust, n.curBranch = nil, ""
	sm := n.sign(m)
	n.Sent = nil
	return s.enqueue(i, to, sm)
}

// FindCert returns a travelled certificate with the given phase for block blk whose view satisfies f.
func (s *Sim) FindCert(phase lib.Phase, blk int, f func(v VR) bool) *lib.QuorumCertificate {
	for _, c := range s.Certs {
		if c.Header.Phase == phase && s.BlockID(c.BlockHash, c.ResultsHash) == blk && (f == nil || f(vrOf(c.Header))) {
			if partial, err := c.Signature.Check(c, s.ValSetAt(c.Header.RootHeight)); err == nil && !partial {
				return c
			}
		}
	}
	return nil
}

// ByzElectionVote signs an ELECTION_VOTE for view `view` naming `proposer`, carrying `hq` as HighQc (a certificate that
// travelled on the network), and queues it for `to` — any replica, at any time: HandleMessage does not require the
// recipient to be the named proposer nor to stand in the election phases.
func (s *Sim) ByzElectionVote(i int, view VR, proposer int, hq *lib.QuorumCertificate, to int) *Envelope {
	n := s.Nodes[i]
	m := &bft.Message{
		Qc: &lib.QuorumCertificate{
			Header:      &lib.View{NetworkId: n.B.NetworkId, ChainId: n.B.ChainId, Height: Height, RootHeight: view.Root, Round: view.Round, Phase: lib.Phase_ELECTION_VOTE},
			ProposerKey: s.Pubs[proposer],
		},
	}
	if hq != nil {
		m.HighQc = proto.Clone(hq).(*lib.QuorumCertificate)
	}
	n.voteJust, n.curBranch = nil, ""
	sm := n.sign(m)
	n.Sent = nil
	return s.enqueue(i, to, sm)
}

// ByzResign clones message m, lets `edit` change it, signs it with replica i's key and queues it for every replica in `to`.
func (s *Sim) ByzResign(i int, m *bft.Message, edit func(m *bft.Message), to []int) []*Envelope {
	n := s.Nodes[i]
	c := proto.Clone(m).(*bft.Message)
	if edit != nil {
		edit(c)
	}
	n.voteJust, n.curBranch = nil, ""
	sm := n.sign(c)
	n.Sent = nil
	var out []*Envelope
	for _, t := range to {
		out = append(out, s.enqueue(i, t, sm))
	}
	return out
}

// ByzPacemaker signs a pacemaker (ROUND_INTERRUPT) message claiming `round` and queues it for every replica in `to`.
func (s *Sim) ByzPacemaker(i int, root, round uint64, to []int) []*Envelope {
	n := s.Nodes[i]
	m := &bft.Message{Qc: &lib.QuorumCertificate{Header: &lib.View{NetworkId: n.B.NetworkId, ChainId: n.B.ChainId, Height: Height, RootHeight: root, Round: round, Phase: lib.Phase_ROUND_INTERRUPT}}}
	return s.ByzResign(i, m, nil, to)
}

// NewBlock returns a fresh well-formed block of the height with the simulator's standard certificate results (every
// block the mock controller produces carries byte-identical results, so "different block, same results" is the default).
func (s *Sim) NewBlock(tag string) ([]byte, *lib.CertificateResult) { return s.newBlock(tag) }

// AltResults returns valid certificate results that differ from the standard ones.
func (s *Sim) AltResults() *lib.CertificateResult {
	a := crypto.Hash([]byte("mock"))[:20]
	b := crypto.Hash([]byte("mock-alt"))[:20]
	return &lib.CertificateResult{RewardRecipients: &lib.RewardRecipients{PaymentPercents: []*lib.PaymentPercents{
		{Address: a, ChainId: lib.CanopyChainId, Percent: 60}, {Address: b, ChainId: lib.CanopyChainId, Percent: 40}}}}
}

// ByzMismatchProposal edits the Byzantine leader's queued PROPOSE envelopes so that the proposal differs from the
// certificate it carries as HighQc in exactly one of (block, results): variant "block" = a different block with the same
// results, variant "results" = the same block with different results. The HighQc itself stays the genuine certificate.
func (s *Sim) ByzMismatchProposal(i int, envs []*Envelope, variant string) {
	n := s.Nodes[i]
	var blk []byte
	var res *lib.CertificateResult
	var signed *bft.Message
	for _, e := range envs {
		if e.From != i || e.Kind != "PROPOSE" || e.Msg.Qc == nil || e.Msg.HighQc == nil {
			continue
		}
		if signed == nil {
			m := proto.Clone(e.Msg).(*bft.Message)
			switch variant {
			case "block":
				blk, _ = s.newBlock(fmt.Sprintf("byz-mismatch-%d", i))
				m.Qc.Block, m.Qc.BlockHash = blk, n.B.BlockToHash(blk)
				res = m.Qc.Results
			default:
				res = s.AltResults()
				m.Qc.Results, m.Qc.ResultsHash = res, res.Hash()
				blk = m.Qc.Block
			}
			n.voteJust, n.curBranch = nil, ""
			signed = n.sign(m)
			n.Sent = nil
		}
		e.Msg = signed
	}
	if signed != nil { // the leader itself continues with what it proposed
		n.B.Block, n.B.Results, n.B.BlockHash = blk, res, nil
	}
}

// ByzForgedLockFromOtherPhase builds a "lock certificate" out of a genuine certificate of another phase. For an
// ELECTION_VOTE certificate (its sign bytes cover only the header and the proposer key) the block, results and both hashes
// are re-stapled to (blk, res): the aggregate signature still verifies. Certificates of other phases are used as they are
// (re-stapling would break their signature). Only the phase check of CheckHighQC stands between this and a lock.
func (s *Sim) ByzForgedLockFromOtherPhase(i int, src *lib.QuorumCertificate, blk []byte, res *lib.CertificateResult) *lib.QuorumCertificate {
	c := proto.Clone(src).(*lib.QuorumCertificate)
	if c.Header.Phase == lib.Phase_ELECTION_VOTE {
		c.Block, c.Results = bytes.Clone(blk), proto.Clone(res).(*lib.CertificateResult)
		c.BlockHash, c.ResultsHash = s.Nodes[i].B.BlockToHash(blk), res.Hash()
		s.rememberBlock(c.Block, c.Results, c.BlockHash, c.ResultsHash)
	} else if c.Block == nil {
		info := s.BlockOf[s.BlockID(c.BlockHash, c.ResultsHash)-1]
		c.Block, c.Results = bytes.Clone(info.Block), proto.Clone(info.Results).(*lib.CertificateResult)
	}
	return c
}

// ElectionCertOfCurrentRound returns the ELECTION_VOTE certificate replica i has aggregated for its current round (nil if
// it holds no +2/3 of election votes): what it would put into its PROPOSE message.
func (s *Sim) ElectionCertOfCurrentRound(i int) *lib.QuorumCertificate {
	b := s.Nodes[i].B
	if b.Phase != bft.Propose {
		return nil
	}
	vote, as, err := b.GetMajorityVote()
	if err != nil {
		return nil
	}
	return &lib.QuorumCertificate{Header: vote.Qc.Header, ProposerKey: vote.Qc.ProposerKey, Signature: as}
}

// ElectionCertOfRound returns a travelled ELECTION_VOTE certificate of the given round (from a PROPOSE message).
func (s *Sim) ElectionCertOfRound(root, round uint64) *lib.QuorumCertificate {
	for _, c := range s.Certs {
		if c.Header.Phase == lib.Phase_ELECTION_VOTE && c.Header.RootHeight == root && c.Header.Round == round {
			return c
		}
	}
	return nil
}

// ByzCertForCommittee aggregates the signatures of the given replica votes (all for one payload) into a certificate whose
// signer bitmap is laid out for the committee of root height `root` — which need not be the root height in the votes'
// header. Verified under the committee of the certificate's own root height the bitmap then names other validators.
func (s *Sim) ByzCertForCommittee(votes []*bft.Message, root uint64) *lib.QuorumCertificate {
	if len(votes) == 0 {
		return nil
	}
	vs := s.ValSetAt(root)
	mk := vs.MultiKey.Copy()
	for _, v := range votes {
		_, idx, err := vs.GetValidatorAndIdx(v.Signature.PublicKey)
		if err != nil {
			return nil
		}
		if e := mk.AddSigner(v.Signature.Signature, idx); e != nil {
			return nil
		}
	}
	sig, err := mk.AggregateSignatures()
	if err != nil {
		return nil
	}
	q := votes[0].Qc
	c := &lib.QuorumCertificate{Header: proto.Clone(q.Header).(*lib.View), BlockHash: bytes.Clone(q.BlockHash), ResultsHash: bytes.Clone(q.ResultsHash),
		ProposerKey: bytes.Clone(q.ProposerKey), Signature: &lib.AggregateSignature{Signature: sig, Bitmap: mk.Bitmap()}}
	info := s.BlockOf[s.BlockID(c.BlockHash, c.ResultsHash)-1]
	c.Block, c.Results = bytes.Clone(info.Block), proto.Clone(info.Results).(*lib.CertificateResult)
	return c
}

// CertWithProposal returns a copy of a travelled certificate with the block and results it certifies attached
// (certificates inside PRECOMMIT/COMMIT messages travel without them).
func (s *Sim) CertWithProposal(c *lib.QuorumCertificate) *lib.QuorumCertificate {
	if c == nil {
		return nil
	}
	q := proto.Clone(c).(*lib.QuorumCertificate)
	if q.Block == nil || q.Results == nil {
		info := s.BlockOf[s.BlockID(q.BlockHash, q.ResultsHash)-1]
		q.Block, q.Results = bytes.Clone(info.Block), proto.Clone(info.Results).(*lib.CertificateResult)
	}
	return q
}

// ByzLeaderMsg signs a PRECOMMIT or COMMIT leader message of replica i for view `view` carrying certificate qc (block and
// results stripped, as such messages travel) and queues it for every replica in `to`.
func (s *Sim) ByzLeaderMsg(i int, phase lib.Phase, view VR, qc *lib.QuorumCertificate, to []int) []*Envelope {
	n := s.Nodes[i]
	c := proto.Clone(qc).(*lib.QuorumCertificate)
	c.Block, c.Results = nil, nil
	m := &bft.Message{
		Header: &lib.View{NetworkId: n.B.NetworkId, ChainId: n.B.ChainId, Height: Height, RootHeight: view.Root, Round: view.Round, Phase: phase},
		Qc:     c, RcBuildHeight: n.Root,
	}
	n.voteJust, n.curBranch = nil, ""
	sm := n.sign(m)
	n.Sent = nil
	var out []*Envelope
	for _, t := range to {
		out = append(out, s.enqueue(i, t, sm))
	}
	return out
}

// ByzPlantPartialQC: validator i (leader or not) sends the replicas in `to` a leader-style message — header phase
// certPhase+1, the given view — whose certificate has exactly that view with phase certPhase, a payload nobody proposed,
// and only i's own signature. CheckProposerMessage files it as a partial QC before any leader-identity check.
func (s *Sim) ByzPlantPartialQC(i int, view VR, certPhase lib.Phase, to []int) []*Envelope {
	n := s.Nodes[i]
	blk, res := s.newBlock(fmt.Sprintf("byz-partial-%d", i))
	id := s.BlockID(n.B.BlockToHash(blk), res.Hash())
	v := s.ByzVote(i, certPhase, view, id, i, i)
	s.Take(func(e *Envelope) bool { return e == v })
	qc := s.ByzCertForCommittee([]*bft.Message{v.Msg}, view.Root)
	if qc == nil {
		return nil
	}
	return s.ByzLeaderMsg(i, certPhase+1, view, qc, to)
}
