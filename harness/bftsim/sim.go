// Package bftsim is the multi-replica simulator of DESIGN.md §7-C01: N real `bft.BFT` values from
// /repo, one mock Controller per replica, an in-process network whose every delivery is an explicit
// scheduling decision, real BLS keys and signatures, and no timers — a phase runs when the schedule
// calls `Phase(i)` (that is what the expiry of replica i's phase timer does in `BFT.Start`), a
// NEW_COMMITTEE reset happens when the schedule calls `Reset(i, root)` (what `BFT.Start` does on a
// `ResetBFT{IsRootChainUpdate: true}`), and a message reaches a replica when the schedule calls
// `Deliver`. Everything any key holder signs is recorded (`Votes`), every certificate the
// controller's finality gate would accept is recorded (`Commits`).
//
// Nothing here re-implements consensus logic: the phase handlers, message validation, vote
// aggregation, HighQC selection and SafeNode are the repository's. The Byzantine replica is a real
// BFT object too; the simulator deviates only by editing that object's fields or the messages it
// sends, and by signing additional payloads with its key.
package bftsim

import (
	"bytes"
	"encoding/binary"
	"encoding/hex"
	"fmt"
	"strings"
	"sync"
	"sync/atomic"
	"time"

	"github.com/canopy-network/canopy/bft"
	"github.com/canopy-network/canopy/lib"
	"github.com/canopy-network/canopy/lib/crypto"
	"google.golang.org/protobuf/proto"
)

const Height = uint64(1) // the single target-chain height all scenarios run at

// VR is the part of a view the agreement model orders: (root height, round).
type VR struct{ Root, Round uint64 }

func (v VR) String() string { return fmt.Sprintf("%d.%d", v.Root, v.Round) }

func vrOf(h *lib.View) VR { return VR{h.RootHeight, h.Round} }

// Vote is one signed replica vote (PROPOSE_VOTE or PRECOMMIT_VOTE) as the abstract model sees it.
type Vote struct {
	Seq     int
	Rep     int
	Byz     bool
	Phase   lib.Phase // Phase_PROPOSE_VOTE | Phase_PRECOMMIT_VOTE
	View    VR
	Blk     int // id of (blockHash, resultsHash); first occurrence order
	Prop    int // replica index of the proposer key inside the payload (-1 unknown)
	Just    *VR // PROPOSE_VOTE: view of the HighQc the proposer attached (nil = none); PRECOMMIT_VOTE: view of the certificate adopted as lock
	JustPh  lib.Phase
	Payload string // hash of the sign bytes (what double-sign detection compares)
	Branch  string // honest PROPOSE_VOTE: which SafeNode branch the real code logged: nolock|same|unlock
}

// Commit is one certificate handed to Controller.SelfSendBlock by replica Rep.
type Commit struct {
	Seq      int
	Rep      int
	View     VR
	QCPhase  lib.Phase
	Blk      int
	Accepted bool   // passed the controller's finality gate (mirrored from controller.HandlePeerBlock)
	Reason   string // why not
}

type Envelope struct {
	ID       int
	From, To int
	Msg      *bft.Message
	Kind     string // ELECTION, ELECTION_VOTE, PROPOSE, ... , PACEMAKER
}

type Config struct {
	N       int
	Powers  []uint64 // len N
	Byz     []int
	Root0   uint64
	Salt    uint64 // varies the last-proposers seed, i.e. the fallback leader schedule
	KeySeed uint64
	// RealTimeouts keeps the repository default phase timeouts (C15 runs a virtual clock over them); otherwise the
	// commit timeout is zeroed (C01 never looks at durations)
	RealTimeouts bool
	// Timeouts, when set, are the phase timeouts ELECTION .. COMMIT in milliseconds (implies RealTimeouts)
	Timeouts *[7]int
	// LastRootHeightUpdated is what Controller.LoadCommitteeData answers (the root height of the committee\'s last update):
	// legal values are <= the root height; a lock certificate older than it is stale
	LastRootHeightUpdated uint64
	// CommitteeOrder: the validator list the controller answers for a root height, as a permutation of 0..N-1 (absent =
	// identity). Same members, same stakes — a committee-preserving update as far as the property is concerned — but the
	// signer bitmap of a certificate only means something under the committee of the certificate\'s own root height.
	CommitteeOrder map[uint64][]int
}

type Sim struct {
	Cfg     Config
	Keys    []crypto.PrivateKeyI
	Pubs    [][]byte
	ValSet  lib.ValidatorSet
	Nodes   []*Node
	IsByz   []bool
	Queue   []*Envelope
	nextEnv int
	seq     int
	Votes   []Vote
	Commits []Commit
	blocks  map[string]int
	hashIDs map[string]int // block hashes and results hashes, numbered separately from 1
	BlockOf []BlockInfo
	// every certificate that ever travelled in a message (the adversary sees the network)
	Certs   []*lib.QuorumCertificate
	certKey map[string]bool
	props   *lib.Proposers
	valSets map[uint64]lib.ValidatorSet
	vsMu    sync.Mutex
	blockNo int
	mu      sync.Mutex
	// counters
	NSign, NHandle int
	SameRootResets int
}

type BlockInfo struct {
	Block   []byte
	Results *lib.CertificateResult
	Hash    []byte
	RHash   []byte
}

var keyCache = map[uint64]crypto.PrivateKeyI{}
var keyMu sync.Mutex

// deterministic BLS keys (scalar = small hash-derived number, well below the group order)
func detKey(seed uint64, i int) crypto.PrivateKeyI {
	keyMu.Lock()
	defer keyMu.Unlock()
	id := seed*1000 + uint64(i)
	if k, ok := keyCache[id]; ok {
		return k
	}
	h := crypto.Hash([]byte(fmt.Sprintf("verif-bftsim-key-%d-%d", seed, i)))
	bz := make([]byte, 32)
	copy(bz[4:], h[:28]) // top 32 bits zero: below the BLS12-381 scalar order
	k, err := crypto.BytesToBLS12381PrivateKey(bz)
	if err != nil {
		panic(err)
	}
	keyCache[id] = k
	return k
}

func New(cfg Config) *Sim {
	s := &Sim{Cfg: cfg, blocks: map[string]int{}, certKey: map[string]bool{}, hashIDs: map[string]int{}}
	s.IsByz = make([]bool, cfg.N)
	for _, b := range cfg.Byz {
		s.IsByz[b] = true
	}
	vals := &lib.ConsensusValidators{}
	for i := 0; i < cfg.N; i++ {
		k := detKey(cfg.KeySeed, i)
		s.Keys = append(s.Keys, k)
		s.Pubs = append(s.Pubs, k.PublicKey().Bytes())
		vals.ValidatorSet = append(vals.ValidatorSet, &lib.ConsensusValidator{PublicKey: k.PublicKey().Bytes(), VotingPower: cfg.Powers[i], NetAddress: fmt.Sprintf("n%d", i)})
	}
	vs, err := lib.NewValidatorSet(vals)
	if err != nil {
		panic(err)
	}
	s.ValSet = vs
	salt := make([]byte, 20)
	binary.BigEndian.PutUint64(salt[:8], cfg.Salt)
	s.props = &lib.Proposers{Addresses: [][]byte{salt}}
	conf := lib.DefaultConfig()
	conf.RunVDF = false
	if !cfg.RealTimeouts && cfg.Timeouts == nil {
		conf.CommitTimeoutMS = 0
	}
	if t := cfg.Timeouts; t != nil {
		conf.ElectionTimeoutMS, conf.ElectionVoteTimeoutMS, conf.ProposeTimeoutMS, conf.ProposeVoteTimeoutMS = t[0], t[1], t[2], t[3]
		conf.PrecommitTimeoutMS, conf.PrecommitVoteTimeoutMS, conf.CommitTimeoutMS = t[4], t[5], t[6]
	}
	for i := 0; i < cfg.N; i++ {
		n := &Node{sim: s, Idx: i, Root: cfg.Root0, commitCh: make(chan struct{}, 16), syncing: &atomic.Bool{}}
		n.Log = &capLogger{}
		b, e := bft.New(conf, s.Keys[i], cfg.Root0, Height, n, false, nil, n.Log)
		if e != nil {
			panic(e)
		}
		b.ValidatorSet, b.CommitteeData = s.ValSetAt(cfg.Root0), &lib.CommitteeData{LastRootHeightUpdated: cfg.LastRootHeightUpdated}
		b.Phase = bft.Election // lib.Phase has UNKNOWN = 0
		n.B = b
		s.Nodes = append(s.Nodes, n)
	}
	return s
}

// SetSalt changes the last-proposers seed (the fallback leader schedule).
func (s *Sim) SetSalt(salt uint64) {
	b := make([]byte, 20)
	binary.BigEndian.PutUint64(b[:8], salt)
	s.props = &lib.Proposers{Addresses: [][]byte{b}}
	s.Cfg.Salt = salt
}

func (s *Sim) Total() uint64 { return s.ValSet.TotalPower }

// ValSetAt is the committee the controller loads for a root height.
func (s *Sim) ValSetAt(root uint64) lib.ValidatorSet {
	order, ok := s.Cfg.CommitteeOrder[root]
	if !ok {
		return s.ValSet
	}
	s.vsMu.Lock()
	defer s.vsMu.Unlock()
	if vs, ok := s.valSets[root]; ok {
		return vs
	}
	vals := &lib.ConsensusValidators{}
	for _, i := range order {
		vals.ValidatorSet = append(vals.ValidatorSet, s.ValSet.ValidatorSet.ValidatorSet[i])
	}
	vs, err := lib.NewValidatorSet(vals)
	if err != nil {
		panic(err)
	}
	if s.valSets == nil {
		s.valSets = map[uint64]lib.ValidatorSet{}
	}
	s.valSets[root] = vs
	return vs
}

func (s *Sim) idxOf(pub []byte) int {
	for i, p := range s.Pubs {
		if bytes.Equal(p, pub) {
			return i
		}
	}
	return -1
}

// FallbackLeader is the leader every replica at (root, round) votes for when it has seen no candidate.
func (s *Sim) FallbackLeader(root, round uint64) int {
	pk := lib.WeightedPseudorandom(&lib.PseudorandomParams{
		SortitionData: &lib.SortitionData{LastProposerAddresses: s.props.Addresses, RootHeight: root, Height: Height, Round: round,
			TotalValidators: s.ValSet.NumValidators, TotalPower: s.ValSet.TotalPower},
		ValidatorSet: s.ValSetAt(root).ValidatorSet,
	})
	return s.idxOf(pk.Bytes())
}

// BlockID numbers (blockHash, resultsHash) pairs in order of first appearance.
// EnvMark returns the id of the last envelope queued so far (later ones have larger ids).
func (s *Sim) EnvMark() int { return s.nextEnv }

func (s *Sim) BlockID(blockHash, resultsHash []byte) int {
	k := string(blockHash) + "|" + string(resultsHash)
	if id, ok := s.blocks[k]; ok {
		return id
	}
	id := len(s.blocks) + 1
	s.blocks[k] = id
	s.BlockOf = append(s.BlockOf, BlockInfo{Hash: bytes.Clone(blockHash), RHash: bytes.Clone(resultsHash)})
	return id
}

// HashID numbers byte strings of one kind ("b" block hash, "r" results hash) in order of first appearance.
func (s *Sim) HashID(kind string, h []byte) int {
	k := kind + string(h)
	if id, ok := s.hashIDs[k]; ok {
		return id
	}
	n := 0
	for kk := range s.hashIDs {
		if kk[:1] == kind {
			n++
		}
	}
	s.hashIDs[k] = n + 1
	return n + 1
}

// BlkName renders block pair id `id` as "<blockHashId>.<resultsHashId>".
func (s *Sim) BlkName(id int) string {
	info := s.BlockOf[id-1]
	return fmt.Sprintf("%d.%d", s.HashID("b", info.Hash), s.HashID("r", info.RHash))
}

func (s *Sim) rememberBlock(block []byte, results *lib.CertificateResult, blockHash, resultsHash []byte) {
	id := s.BlockID(blockHash, resultsHash)
	if s.BlockOf[id-1].Block == nil && block != nil {
		s.BlockOf[id-1].Block, s.BlockOf[id-1].Results = bytes.Clone(block), proto.Clone(results).(*lib.CertificateResult)
	}
}

func (s *Sim) rememberCert(qc *lib.QuorumCertificate) {
	if qc == nil || qc.Header == nil || qc.Signature == nil || len(qc.BlockHash) == 0 {
		return
	}
	k := fmt.Sprintf("%d/%d/%d/%x/%x/%x/%x", qc.Header.RootHeight, qc.Header.Round, qc.Header.Phase, qc.BlockHash, qc.ResultsHash, qc.ProposerKey, qc.Signature.Bitmap)
	if s.certKey[k] {
		return
	}
	s.certKey[k] = true
	c := proto.Clone(qc).(*lib.QuorumCertificate)
	if c.Block != nil {
		s.rememberBlock(c.Block, c.Results, c.BlockHash, c.ResultsHash)
	}
	s.Certs = append(s.Certs, c)
}

func kindOf(m *bft.Message) string {
	switch {
	case m.IsPacemakerMessage():
		return "PACEMAKER"
	case m.IsReplicaMessage():
		return lib.Phase_name[int32(m.Qc.Header.Phase)]
	case m.IsProposerMessage():
		return lib.Phase_name[int32(m.Header.Phase)]
	}
	return "UNKNOWN"
}

// ---------------------------------------------------------------------------------------------
// Node: the mock Controller of one replica

type Node struct {
	sim        *Sim
	Idx        int
	B          *bft.BFT
	Root       uint64 // what Controller.RootChainHeight() answers
	mu         sync.Mutex
	Log        *capLogger
	commitCh   chan struct{}
	syncing    *atomic.Bool
	Sent       []string // descriptions of what this replica signed during the current step
	curBranch  string
	voteJust   *VR
	voteJustPh lib.Phase
}

func (n *Node) Lock()                   { n.mu.Lock() }
func (n *Node) Unlock()                 { n.mu.Unlock() }
func (n *Node) ChainHeight() uint64     { return Height }
func (n *Node) RootChainHeight() uint64 { return n.Root }

func (s *Sim) newBlock(tag string) ([]byte, *lib.CertificateResult) {
	s.blockNo++
	blk := &lib.Block{BlockHeader: &lib.BlockHeader{Height: Height, TransactionRoot: crypto.Hash([]byte(fmt.Sprintf("blk-%s-%d", tag, s.blockNo)))}}
	bz, _ := lib.Marshal(blk)
	res := &lib.CertificateResult{RewardRecipients: &lib.RewardRecipients{PaymentPercents: []*lib.PaymentPercents{{Address: crypto.Hash([]byte("mock"))[:20], ChainId: lib.CanopyChainId, Percent: 100}}}}
	return bz, res
}

func (n *Node) ProduceProposal(_ *bft.ByzantineEvidence, _ *crypto.VDF) (uint64, []byte, *lib.CertificateResult, lib.ErrorI) {
	bz, res := n.sim.newBlock(fmt.Sprint(n.Idx))
	return n.Root, bz, res, nil
}

// ValidateProposal: the block-validity oracle (every well-formed block of this height is valid).
func (n *Node) ValidateProposal(_ uint64, _ *lib.QuorumCertificate, _ *bft.ByzantineEvidence) (*lib.BlockResult, lib.ErrorI) {
	return &lib.BlockResult{BlockHeader: &lib.BlockHeader{}}, nil
}
func (n *Node) LoadCertificate(uint64) (*lib.QuorumCertificate, lib.ErrorI) { return nil, nil }
func (n *Node) CommitCertificate(*lib.QuorumCertificate, *lib.Block, *lib.BlockResult, uint64) lib.ErrorI {
	return nil
}
func (n *Node) GossipBlock(*lib.QuorumCertificate, []byte, uint64) {}
func (n *Node) GossipConsensus(*bft.Message, []byte)               {}

// SelfSendBlock is where a replica hands a certificate to its controller for committing. The real
// controller routes it to HandlePeerBlock, whose certificate checks are mirrored here with the
// repository's own functions (CheckBasic, Check against the committee of the certificate's root
// height, +2/3, phase PRECOMMIT_VOTE, height). A certificate that passes is a commit.
func (n *Node) SelfSendBlock(qc *lib.QuorumCertificate, _ uint64) {
	s := n.sim
	s.mu.Lock()
	defer func() { s.mu.Unlock(); n.commitCh <- struct{}{} }()
	c := Commit{Rep: n.Idx, View: vrOf(qc.Header), QCPhase: qc.Header.Phase, Blk: s.BlockID(qc.BlockHash, qc.ResultsHash)}
	c.Accepted, c.Reason = true, ""
	if err := qc.CheckBasic(); err != nil {
		c.Accepted, c.Reason = false, "basic"
	} else if partial, err := qc.Check(s.ValSetAt(qc.Header.RootHeight), lib.GlobalMaxBlockSize, &lib.View{NetworkId: n.B.NetworkId, ChainId: n.B.ChainId}, false); err != nil {
		c.Accepted, c.Reason = false, "check"
	} else if partial {
		c.Accepted, c.Reason = false, "nomaj23"
	} else if qc.Header.Height != Height {
		c.Accepted, c.Reason = false, "height"
	} else if qc.Header.Phase != lib.Phase_PRECOMMIT_VOTE {
		c.Accepted, c.Reason = false, "phase"
	}
	s.seq++
	c.Seq = s.seq
	s.Commits = append(s.Commits, c)
}

func (n *Node) sign(msg lib.Signable) *bft.Message {
	if err := msg.Sign(n.sim.Keys[n.Idx]); err != nil {
		panic(err)
	}
	n.sim.NSign++
	m := proto.Clone(msg.(*bft.Message)).(*bft.Message)
	n.sim.record(n, m)
	return m
}

func (n *Node) SendToReplicas(_ lib.ValidatorSet, msg lib.Signable) {
	m := n.sign(msg)
	for to := range n.sim.Nodes {
		n.sim.enqueue(n.Idx, to, m)
	}
}

func (n *Node) SendToProposer(msg lib.Signable) {
	m := n.sign(msg)
	to := n.sim.idxOf(n.B.ProposerKey)
	if to < 0 {
		return
	}
	n.sim.enqueue(n.Idx, to, m)
}

func (s *Sim) enqueue(from, to int, m *bft.Message) *Envelope {
	s.nextEnv++
	e := &Envelope{ID: s.nextEnv, From: from, To: to, Msg: m, Kind: kindOf(m)}
	s.Queue = append(s.Queue, e)
	return e
}

func (n *Node) LoadRootChainId(uint64) uint64                   { return lib.CanopyChainId }
func (n *Node) LoadIsOwnRoot() bool                             { return false }
func (n *Node) Syncing() *atomic.Bool                           { return n.syncing }
func (n *Node) ResetFSM()                                       {}
func (n *Node) SendCertificateResultsTx(*lib.QuorumCertificate) {}

// LoadCommittee: the committee-preserving root chain of the property — the same set at every root height.
func (n *Node) LoadCommittee(_, rootHeight uint64) (lib.ValidatorSet, lib.ErrorI) {
	return n.sim.ValSetAt(rootHeight), nil
}
func (n *Node) LoadCommitteeData() (*lib.CommitteeData, lib.ErrorI) {
	return &lib.CommitteeData{LastRootHeightUpdated: n.sim.Cfg.LastRootHeightUpdated}, nil
}
func (n *Node) LoadLastProposers(uint64) (*lib.Proposers, lib.ErrorI) { return n.sim.props, nil }
func (n *Node) LoadMinimumEvidenceHeight(_, _ uint64) (*uint64, lib.ErrorI) {
	h := uint64(0)
	return &h, nil
}
func (n *Node) IsValidDoubleSigner(_, _ uint64, _ []byte) bool { return true }
func (n *Node) LoadMaxBlockSize() int                          { return lib.GlobalMaxBlockSize }

// ---------------------------------------------------------------------------------------------
// recording what is signed

func (s *Sim) record(n *Node, m *bft.Message) {
	s.rememberCert(m.Qc)
	s.rememberCert(m.HighQc)
	if m.Qc != nil && m.Qc.Block != nil && len(m.Qc.BlockHash) != 0 {
		s.rememberBlock(m.Qc.Block, m.Qc.Results, m.Qc.BlockHash, m.Qc.ResultsHash)
	}
	kind := kindOf(m)
	desc := kind
	if m.IsReplicaMessage() && (m.Qc.Header.Phase == bft.ProposeVote || m.Qc.Header.Phase == bft.PrecommitVote) {
		v := Vote{Rep: n.Idx, Byz: s.IsByz[n.Idx], Phase: m.Qc.Header.Phase, View: vrOf(m.Qc.Header),
			Blk: s.BlockID(m.Qc.BlockHash, m.Qc.ResultsHash), Prop: s.idxOf(m.Qc.ProposerKey),
			Payload: hex.EncodeToString(crypto.Hash(m.SignBytes())[:8])}
		if n.voteJust != nil {
			v.Just, v.JustPh = n.voteJust, n.voteJustPh
		}
		v.Branch = n.curBranch
		s.seq++
		v.Seq = s.seq
		s.Votes = append(s.Votes, v)
		desc = fmt.Sprintf("%s@%s:b%d", kind, v.View, v.Blk)
	} else if m.IsReplicaMessage() || m.IsPacemakerMessage() {
		desc = fmt.Sprintf("%s@%s", kind, vrOf(m.Qc.Header))
	} else if m.Header != nil {
		desc = fmt.Sprintf("%s@%s", kind, vrOf(m.Header))
		if m.Qc != nil && len(m.Qc.BlockHash) != 0 {
			desc += fmt.Sprintf(":b%d", s.BlockID(m.Qc.BlockHash, m.Qc.ResultsHash))
		}
	}
	n.Sent = append(n.Sent, desc)
}

// ---------------------------------------------------------------------------------------------
// scheduling primitives

type StepResult struct {
	Before, After lib.Phase
	Sent          []string
	Interrupted   bool
	Why           string // reason logged by the real code when it interrupted
	Branch        string // SafeNode branch taken (PROPOSE_VOTE only)
	Committed     bool
}

// Phase runs the handler of replica i's current phase and advances it, as the expiry of the phase
// timer does in BFT.Start.
func (s *Sim) Phase(i int) StepResult {
	n := s.Nodes[i]
	b := n.B
	r := StepResult{Before: b.Phase}
	n.Sent = nil
	n.Log.reset()
	n.voteJust, n.curBranch = nil, ""
	nc := s.ncommits(i)
	// what the vote about to be signed will be justified by (read before the handler mutates state)
	switch b.Phase {
	case bft.ProposeVote:
		if p := b.GetProposal(); p != nil && p.HighQc != nil && p.HighQc.Header != nil {
			v := vrOf(p.HighQc.Header)
			n.voteJust, n.voteJustPh = &v, p.HighQc.Header.Phase
		}
		n.curBranch = "nolock"
		if b.HighQC != nil {
			n.curBranch = "locked" // refined from the log below
		}
	case bft.PrecommitVote:
		if p := b.GetProposal(); p != nil && p.Qc != nil && p.Qc.Header != nil {
			v := vrOf(p.Qc.Header)
			n.voteJust, n.voteJustPh = &v, p.Qc.Header.Phase
		}
	}
	n.Lock()
	b.HandlePhase()
	n.Unlock()
	r.After = b.Phase
	if r.Before == bft.CommitProcess && r.After == bft.CommitProcess {
		// the handler started its commit goroutine: wait for the SelfSendBlock callback
		select {
		case <-n.commitCh:
		case <-time.After(5 * time.Second):
			panic("bftsim: commit callback did not arrive")
		}
	}
	r.Committed = s.ncommits(i) > nc
	r.Sent = n.Sent
	r.Interrupted = r.After == bft.Pacemaker // RoundInterrupt() sets ROUND_INTERRUPT and SetTimerForNextPhase moves on to PACEMAKER
	r.Why = n.Log.reason()
	if r.Before == bft.ProposeVote {
		r.Branch = n.Log.branch()
		// patch the branch into the vote just recorded
		if len(n.Sent) > 0 && len(s.Votes) > 0 && s.Votes[len(s.Votes)-1].Rep == i && s.Votes[len(s.Votes)-1].Phase == bft.ProposeVote {
			s.Votes[len(s.Votes)-1].Branch = r.Branch
		}
	}
	n.Sent = nil
	return r
}

func (s *Sim) ncommits(i int) int {
	s.mu.Lock()
	defer s.mu.Unlock()
	c := 0
	for _, x := range s.Commits {
		if x.Rep == i {
			c++
		}
	}
	return c
}

// Reset is the NEW_COMMITTEE reset: the controller's root height moves to `root`, then
// NewHeight(true) (round 0, locks kept). `root` equal to the current one is the F11 schedule class.
func (s *Sim) Reset(i int, root uint64) {
	n := s.Nodes[i]
	if root == n.B.RootHeight {
		s.SameRootResets++
	}
	n.Root = root
	n.Lock()
	n.B.NewHeight(true)
	n.Unlock()
}

// Deliver hands envelope e to its recipient through the real HandleMessage; returns the error code
// ("" = accepted).
func (s *Sim) Deliver(e *Envelope) string {
	_, err := s.DeliverMsg(e)
	if err == nil {
		return ""
	}
	return fmt.Sprintf("%d", err.Code())
}

// DeliverMsg is Deliver returning the message object that was handed to HandleMessage (the real code stores that
// very object in its proposal table when it accepts it) and the real error.
func (s *Sim) DeliverMsg(e *Envelope) (*bft.Message, lib.ErrorI) {
	s.NHandle++
	n := s.Nodes[e.To]
	n.Log.reset()
	m := proto.Clone(e.Msg).(*bft.Message)
	return m, n.B.HandleMessage(m)
}

// Stored reports whether message object m sits in replica i's proposal table (under its header's round and phase).
func (s *Sim) Stored(i int, m *bft.Message) bool {
	if m.Header == nil {
		return false
	}
	for _, x := range s.Nodes[i].B.Proposals[m.Header.Round][fmt.Sprintf("%d_%s", m.Header.Phase, lib.Phase_name[int32(m.Header.Phase)])] {
		if x == m {
			return true
		}
	}
	return false
}

// CertDesc renders a certificate for the op lines: "<root>.<round>/<phase>/<blockHashId>.<resultsHashId>/<signer indices>".
func (s *Sim) CertDesc(qc *lib.QuorumCertificate) string {
	if qc == nil || qc.Header == nil {
		return "-"
	}
	signers := "-"
	if qc.Signature != nil {
		if pubs, _, err := qc.Signature.GetSigners(s.ValSetAt(qc.Header.RootHeight)); err == nil && len(pubs) > 0 {
			var ids []string
			for _, p := range pubs {
				ids = append(ids, fmt.Sprint(s.idxOf(p)))
			}
			signers = strings.Join(ids, ",")
		}
	}
	return fmt.Sprintf("%d.%d/%d/%s/%s", qc.Header.RootHeight, qc.Header.Round, int(qc.Header.Phase), s.BlkName(s.BlockID(qc.BlockHash, qc.ResultsHash)), signers)
}

// IdxOf returns the replica index of a public key (-1 if unknown).
func (s *Sim) IdxOf(pub []byte) int { return s.idxOf(pub) }

// Take removes and returns the queued envelopes selected by f (in queue order).
func (s *Sim) Take(f func(e *Envelope) bool) []*Envelope {
	var out, keep []*Envelope
	for _, e := range s.Queue {
		if f(e) {
			out = append(out, e)
		} else {
			keep = append(keep, e)
		}
	}
	s.Queue = keep
	return out
}

func (s *Sim) DeliverAll(f func(e *Envelope) bool) {
	for _, e := range s.Take(func(e *Envelope) bool { return f == nil || f(e) }) {
		s.Deliver(e)
	}
}

func (s *Sim) DropAll() { s.Queue = nil }

// ---------------------------------------------------------------------------------------------
// observable state

func PhaseName(p lib.Phase) string { return lib.Phase_name[int32(p)] }

// State is the canonical observable state of replica i: view, phase, lock (certificate header + block), block of the round.
func (s *Sim) State(i int) string {
	b := s.Nodes[i].B
	lock := "-"
	if b.HighQC != nil && b.HighQC.Header != nil {
		lock = fmt.Sprintf("%s/%d/%s", vrOf(b.HighQC.Header), int(b.HighQC.Header.Phase), s.BlkName(s.BlockID(b.HighQC.BlockHash, b.HighQC.ResultsHash)))
	}
	return fmt.Sprintf("view=%d.%d ph=%d lock=%s blk=%s", b.RootHeight, b.Round, int(b.Phase), lock, s.RoundBlock(i))
}

// RoundBlock is the block-and-results replica i holds for its current round ("-" if none).
func (s *Sim) RoundBlock(i int) string {
	b := s.Nodes[i].B
	if b.Block == nil {
		return "-"
	}
	return s.BlkName(s.BlockID(b.GetBlockHash(), b.Results.Hash()))
}

// ---------------------------------------------------------------------------------------------
// capturing logger: the real code reports which SafeNode branch it took and why it interrupted

type capLogger struct {
	mu    sync.Mutex
	lines []string
}

func (l *capLogger) add(s string) {
	l.mu.Lock()
	if len(l.lines) < 64 {
		l.lines = append(l.lines, s)
	}
	l.mu.Unlock()
}
func (l *capLogger) reset() { l.mu.Lock(); l.lines = nil; l.mu.Unlock() }
func (l *capLogger) branch() string {
	l.mu.Lock()
	defer l.mu.Unlock()
	for _, s := range l.lines {
		if strings.Contains(s, "safe node predicate with SAFETY") {
			return "same"
		}
		if strings.Contains(s, "safe node predicate with LIVENESS") {
			return "unlock"
		}
	}
	return "nolock"
}
func (l *capLogger) reason() string {
	l.mu.Lock()
	defer l.mu.Unlock()
	for _, s := range l.lines {
		switch {
		case strings.Contains(s, "no valid message received from Proposer"):
			return "noproposal"
		case strings.Contains(s, "safe node failed"):
			return "safenode"
		case strings.Contains(s, "no safe node justification"):
			return "nojustification"
		case strings.Contains(s, "mismatch proposals"):
			return "mismatch"
		case strings.Contains(s, "invalid proposer public key"):
			return "wrongproposer"
		}
	}
	for _, s := range l.lines {
		if strings.HasPrefix(s, "E:") {
			return "err"
		}
	}
	return ""
}
func (l *capLogger) Debug(string)              {}
func (l *capLogger) Info(m string)             { l.add("I:" + m) }
func (l *capLogger) Warn(m string)             { l.add("W:" + m) }
func (l *capLogger) Error(m string)            { l.add("E:" + m) }
func (l *capLogger) Fatal(m string)            { panic("bft fatal: " + m) }
func (l *capLogger) Print(string)              {}
func (l *capLogger) Debugf(string, ...any)     {}
func (l *capLogger) Infof(f string, a ...any)  { l.add("I:" + fmt.Sprintf(f, a...)) }
func (l *capLogger) Warnf(f string, a ...any)  { l.add("W:" + fmt.Sprintf(f, a...)) }
func (l *capLogger) Errorf(f string, a ...any) { l.add("E:" + fmt.Sprintf(f, a...)) }
func (l *capLogger) Fatalf(f string, a ...any) { panic("bft fatal: " + fmt.Sprintf(f, a...)) }
func (l *capLogger) Printf(string, ...any)     {}
