package bftsim

import (
	"testing"

	"github.com/canopy-network/canopy/bft"
	"github.com/canopy-network/canopy/lib"
)

// One Byzantine validator hands every honest replica, between PROPOSE_VOTE and PRECOMMIT_VOTE, an ELECTION_VOTE whose
// HighQc is the round's own PROPOSE_VOTE certificate: handleHighQCVDFAndEvidence overwrites b.HighQC and sets
// b.Block, b.Results = vote.Qc.Block, vote.Qc.Results (nil), so nobody precommit-votes. Liveness only (observation).
func TestElectionVoteMidRoundStallsPrecommit(t *testing.T) {
	s := New(Config{N: 4, Powers: []uint64{1, 1, 1, 1}, Byz: []int{0}, Root0: 10, Salt: 7})
	all := []int{0, 1, 2, 3}
	step := func(who []int) {
		for _, i := range who {
			s.Phase(i)
		}
	}
	step(all) // ELECTION
	s.DropAll()
	step(all) // ELECTION_VOTE
	s.DeliverAll(nil)
	step(all) // PROPOSE
	s.DeliverAll(nil)
	step(all) // PROPOSE_VOTE
	s.DeliverAll(nil)
	step(all) // PRECOMMIT: the leader broadcasts the PROPOSE_VOTE certificate
	s.DeliverAll(nil)
	qc := s.FindCert(lib.Phase_PROPOSE_VOTE, 1, nil)
	if qc == nil {
		t.Fatal("no certificate")
	}
	for _, to := range []int{1, 2, 3} {
		e := s.ByzElectionVote(0, VR{10, 0}, 0, qc, to)
		code := s.Deliver(e)
		s.Take(func(x *Envelope) bool { return x == e })
		t.Logf("ELECTION_VOTE with HighQc -> %d: %q; %s", to, code, s.State(to))
	}
	votes := len(s.Votes)
	for _, i := range []int{1, 2, 3} {
		r := s.Phase(i) // PRECOMMIT_VOTE
		t.Logf("replica %d PRECOMMIT_VOTE: interrupted=%v why=%s sent=%v", i, r.Interrupted, r.Why, r.Sent)
		if s.Nodes[i].B.Phase != bft.Pacemaker {
			t.Errorf("replica %d precommit-voted", i)
		}
	}
	if len(s.Votes) != votes {
		t.Errorf("votes were signed")
	}
}
