// Package c11 drives property C11 (block portability) on real controllers, three nodes per chain:
// A proposes from a mempool with valid, invalid, oversize, conflicting and unusually encoded
// transactions; B (same prefix) validates and commits; C is fresh and is fed, height by height, what
// A's archive serves (LoadCertificate -> GetQCByHeight -> BlockResult.ToBlock, wire bytes) through
// HandlePeerBlock(syncing) with the process block cache purged.
//
// Oracles (each a separate signature):
//
//	C11:honest-proposal-rejected[:oversize-remainder]  a node on the same prefix rejects an honest proposal
//	C11:archive-block-does-not-revalidate               the served block differs from the certified block
//	                                                    or a fresh node rejects it
//	C11:replay-diverges                                 a replayed height has another header / state
//
// Op lines: the vocabulary of harness/execdrv, plus
//
//	<node> serve <blk> <served-blk> <tx-hex>...   the archive's block for the height of <blk>; the model answers
//	                                              `same` iff every transaction's bytes are canonical
package c11

import (
	"bytes"
	"encoding/hex"
	"fmt"
	"math/rand"
	"strings"

	"github.com/canopy-network/canopy/lib"
	"github.com/canopy-network/canopy/lib/crypto"
	"verifharness/drv"
	"verifharness/execdrv"
	"verifharness/node"
)

type height struct {
	h    uint64
	p    *execdrv.Proposal
	pre  string
	post string
	// prevCert: the version of the height h-1 commit certificate the proposer stored = the one the
	// block's header embeds as LastQuorumCertificate
	prevCert string
}

// Run is the driver entry point.
func Run(o *drv.Out) {
	execdrv.Property = "C11"
	execdrv.Guard(o, func() { corpusOversize(o) })
	execdrv.Guard(o, func() { corpusFullBlock(o) })
	execdrv.Guard(o, func() { corpusNonCanonical(o) })
	execdrv.Guard(o, func() { corpusUnauthorizedThenForged(o) })
	execdrv.Guard(o, func() { corpusCheckpointHeight(o) })
	execdrv.Guard(o, func() { corpusLastCertVersion(o) })
	corpusParamCache(o)
	nCases, nHeights := 5, 5
	if o.Tier == "thorough" || o.Search {
		nCases, nHeights = 14, 8
	}
	for ci := 0; ci < nCases; ci++ {
		execdrv.Guard(o, func() { runCase(o, ci, nHeights) })
	}
}

// proposeAndCommit runs the leader flow on A (produce, validate own, commit cached), emits the def
// line, and returns the proposal (nil when the proposer's own block is rejected).
func proposeAndCommit(c *execdrv.Chain, A *node.Node, txs []node.MixTx) *height {
	o := c.O
	ht := &height{h: A.Height(), pre: A.StateDigest()}
	p, ok := c.Propose(A, txs, "produce")
	if !ok {
		o.Fail("C11:proposer-failed", "ProduceProposal failed on an honest mempool", map[string]any{"case": o.CurCase(), "height": ht.h})
		return nil
	}
	remainder := A.MempoolCount() - p.NTx
	// proposer, replicas and archives each hold their own valid version (+2/3 signer set) of every
	// commit certificate
	if p.VS.NumValidators != 0 {
		p = c.Version(p, c.RandomQuorum(p.VS, 2))
	}
	ht.prevCert = c.LastCert[A]
	c.Hold = true
	if !c.Validate(A, p) {
		c.Release()
		sig := "C11:honest-proposal-rejected" + rejectionClass(A, p, remainder)
		o.Fail(sig, fmt.Sprintf("height %d: the proposer rejects its own proposal (%d txs, %d valid transactions left in the mempool)%s", ht.h, p.NTx, remainder, scenarioNote),
			map[string]any{"case": o.CurCase(), "height": ht.h, "block": hex.EncodeToString(p.Block), "remainder": remainder})
		return nil
	}
	resA := c.Commit(A, p, false)
	ht.p, ht.post = p, A.StateDigest()
	o.Op(fmt.Sprintf("def %d %s %s %s %s", ht.h, ht.pre, p.ID, ht.post, p.Obs), "def")
	c.Release()
	if !strings.HasPrefix(resA, "ok") {
		o.Fail("C11:honest-proposal-rejected"+rejectionClass(A, p, remainder), fmt.Sprintf("height %d: the proposer's own certified block is rejected by its HandlePeerBlock: %s (%s)", ht.h, resA, blockSizes(A, p)),
			map[string]any{"case": o.CurCase(), "height": ht.h, "result": resA, "sizes": blockSizes(A, p), "block": hex.EncodeToString(p.Block)})
		return nil
	}
	if remainder > 0 {
		o.Count("proposer-oversize-remainder")
	}
	return ht
}

// blockSizes describes a block against the limits: raw transaction bytes (what the proposer budgets
// and the protocol limits), serialized bytes, and the blockSize parameter.
func blockSizes(nd *node.Node, p *execdrv.Proposal) string {
	blk := new(lib.Block)
	_ = lib.Unmarshal(p.Block, blk)
	raw := 0
	for _, tx := range blk.Transactions {
		raw += len(tx)
	}
	budget := nd.MaxBlockSize()
	return fmt.Sprintf("%d txs, raw tx bytes %d <= budget %d, serialized block %d bytes, blockSize %d", len(blk.Transactions), raw, budget, len(p.Block), budget+lib.MaxBlockHeaderSize)
}

// rejectionClass names the mechanism when it is recognisable from the block itself.
func rejectionClass(nd *node.Node, p *execdrv.Proposal, remainder int) string {
	if scenarioClass != "" {
		return scenarioClass
	}
	if uint64(len(p.Block)) > nd.MaxBlockSize()+lib.MaxBlockHeaderSize {
		// the raw transaction bytes fit the budget (the proposer never exceeds it) but the serialized block,
		// with its per-transaction framing, is larger than the blockSize parameter
		return ":full-block-of-small-txs"
	}
	if remainder > 0 {
		return ":oversize-remainder"
	}
	if blk := new(lib.Block); lib.Unmarshal(p.Block, blk) == nil && blk.BlockHeader != nil && blk.BlockHeader.Height%100 == 0 {
		// controller.CheckpointFrequency: the certificate results of these heights carry a checkpoint (height, block hash)
		return ":checkpoint-height"
	}
	return ""
}

// replicate: B validates A's proposal and commits it with the cached result.
func replicate(c *execdrv.Chain, B *node.Node, ht *height, remainder bool) bool {
	o := c.O
	if !c.Validate(B, ht.p) {
		rem0 := 0
		if remainder {
			rem0 = 1
		}
		sig := "C11:honest-proposal-rejected" + rejectionClass(B, ht.p, rem0)
		o.Fail(sig, fmt.Sprintf("height %d: node B holds the same prefix and rejects the honest proposal%s", ht.h, scenarioNote),
			map[string]any{"case": o.CurCase(), "height": ht.h, "block": hex.EncodeToString(ht.p.Block)})
		return false
	}
	pB := ht.p
	if pB.VS.NumValidators != 0 {
		pB = c.Version(pB, c.RandomQuorum(pB.VS, 2))
	}
	got := c.Commit(B, pB, false)
	want := fmt.Sprintf("ok state=%s obs=%s", ht.post, ht.p.Obs)
	if strings.HasPrefix(got, "err:") {
		rem := 0
		if remainder {
			rem = 1
		}
		o.Fail("C11:honest-proposal-rejected"+rejectionClass(B, ht.p, rem), fmt.Sprintf("height %d: node B validated the honest proposal but its HandlePeerBlock rejects the certified block: %s (%s)", ht.h, got, blockSizes(B, ht.p)),
			map[string]any{"case": o.CurCase(), "height": ht.h, "result": got, "sizes": blockSizes(B, ht.p), "block": hex.EncodeToString(ht.p.Block)})
		return false
	}
	if got != want {
		o.Fail("C11:replay-diverges", fmt.Sprintf("height %d: B commits %q, A %q", ht.h, got, want), map[string]any{"case": o.CurCase(), "height": ht.h})
		return false
	}
	return true
}

// serveAndSync: A serves the height from its archive; the fresh node C handles it in sync mode.
// Returns false when C cannot get past this height.
func serveAndSync(c *execdrv.Chain, A, C *node.Node, ht *height) bool {
	o := c.O
	// read-only explorer traffic on the serving node right before the block request is answered
	traffic := ""
	if explorerBeforeServe != nil {
		traffic = explorerBeforeServe(c, A, ht.h)
	}
	wire, err := A.Serve(ht.h)
	if err != nil {
		o.Fail("C11:archive-block-does-not-revalidate", "the archive cannot serve a committed height: "+err.Error(), map[string]any{"case": o.CurCase(), "height": ht.h})
		return false
	}
	msg := new(lib.BlockMessage)
	if e := lib.Unmarshal(wire, msg); e != nil {
		panic(e)
	}
	served := msg.BlockAndCertificate
	orig, sblk := new(lib.Block), new(lib.Block)
	_ = lib.Unmarshal(ht.p.Block, orig)
	if e := lib.Unmarshal(served.Block, sblk); e != nil {
		panic(e)
	}
	same := bytes.Equal(served.Block, ht.p.Block)
	if !same && traffic != "" && len(sblk.Transactions) != len(orig.Transactions) {
		// the same archive serves the certified bytes when it is not queried (every other scenario): say so
		o.Fail("C11:served-block-rejected:after-blocks-page-query",
			fmt.Sprintf("height %d: node %s answered read-only explorer queries (%s) and then served this height to a syncing peer: the served certificate carries the certified header and block hash but %d transactions; the certified block has %d",
				ht.h, c.Names[A], traffic, len(sblk.Transactions), len(orig.Transactions)),
			map[string]any{"case": o.CurCase(), "height": ht.h, "served_by": c.Names[A], "explorer_queries": traffic, "certified_block": hex.EncodeToString(ht.p.Block), "served_block": hex.EncodeToString(served.Block)})
	}
	// the op line carries the ORIGINAL transactions; the model decides canonicity itself
	var hexes []string
	for _, tx := range orig.Transactions {
		hexes = append(hexes, hex.EncodeToString(tx))
	}
	sp := *ht.p
	if !same {
		sp.ID = ht.p.ID + "~served"
	}
	res := "same"
	if !same {
		res = "differs"
	}
	o.Op(strings.TrimSpace(fmt.Sprintf("%s serve %s %s %s", c.Names[A], ht.p.ID, sp.ID, strings.Join(hexes, " "))), res)
	o.Count("serve:" + res)
	var witness map[string]any
	if !same {
		// executing the served block cannot give the certified header: its transaction root is over other bytes
		o.Op(fmt.Sprintf("def %d %s %s ?post-served-%s ?obs-served-%s %s", ht.h, ht.pre, sp.ID, ht.p.ID, ht.p.ID, ht.p.Obs), "def")
		witness = map[string]any{"case": o.CurCase(), "height": ht.h, "certified_block_hash": hex.EncodeToString(served.BlockHash)}
		for i := range orig.Transactions {
			if i < len(sblk.Transactions) && !bytes.Equal(orig.Transactions[i], sblk.Transactions[i]) {
				witness["tx_index"] = i
				witness["tx_bytes_certified"] = hex.EncodeToString(orig.Transactions[i])
				witness["tx_bytes_served"] = hex.EncodeToString(sblk.Transactions[i])
				break
			}
		}
	}
	sp.QC = served
	if served.Signature != nil {
		sp.CertVersion = hex.EncodeToString(served.Signature.Bitmap)
	}
	storedPrev := c.LastCert[C]
	C.PurgeProcessCaches()
	got := c.Commit(C, &sp, true)
	want := fmt.Sprintf("ok state=%s obs=%s", ht.post, ht.p.Obs)
	if storedPrev != ht.prevCert && ht.h > 1 {
		o.Count("sync-node-held-another-version-of-the-last-certificate")
	}
	switch {
	case got == want && same:
		return true
	case same && storedPrev != ht.prevCert && ht.h > 1:
		o.Fail("C11:served-block-rejected:last-certificate-version",
			fmt.Sprintf("height %d: the syncing node took height %d from another peer and stored version %s of its commit certificate; the served block's header embeds version %s (same payload, another +2/3 signer set); the served block (bytes equal to the certified block) is handled as %q, expected %q", ht.h, ht.h-1, storedPrev, ht.prevCert, got, want),
			map[string]any{"case": o.CurCase(), "height": ht.h, "served_by": c.Names[A], "block": hex.EncodeToString(ht.p.Block), "stored_version": storedPrev, "embedded_version": ht.prevCert, "fresh_node_result": got})
		return false
	case !same && nonCanonicalTx(orig.Transactions) >= 0:
		i := nonCanonicalTx(orig.Transactions)
		o.Fail("C11:served-block-rejected:non-canonical-tx-bytes",
			fmt.Sprintf("height %d: transaction %d of the committed block is not the canonical encoding of its content (same content, other bytes); the archive of %s serves the block with that transaction re-marshalled, so the served block is not the certified one; a fresh node handles it as %q, expected %q", ht.h, i, c.Names[A], got, want),
			map[string]any{"case": o.CurCase(), "height": ht.h, "served_by": c.Names[A], "tx_index": i, "tx_bytes_certified": hex.EncodeToString(orig.Transactions[i]), "witness": witness, "fresh_node_result": got})
		return false
	case traffic != "" && (!same || strings.HasPrefix(got, "err:")):
		o.Fail("C11:served-block-rejected:after-blocks-page-query",
			fmt.Sprintf("height %d: node %s answered read-only explorer queries (%s) and then served this height; the served block (bytes equal to the certified block: %v) is handled by a fresh node as %q, expected %q", ht.h, c.Names[A], traffic, same, got, want),
			map[string]any{"case": o.CurCase(), "height": ht.h, "served_by": c.Names[A], "explorer_queries": traffic, "fresh_node_result": got})
		return false
	case !same || strings.HasPrefix(got, "err:"):
		if witness == nil {
			witness = map[string]any{"case": o.CurCase(), "height": ht.h}
		}
		witness["fresh_node_result"] = got
		witness["served_equals_certified_bytes"] = same
		o.Fail("C11:archive-block-does-not-revalidate",
			fmt.Sprintf("height %d: the block served from A's archive (bytes equal to the certified block: %v) is handled by a fresh node as %q; expected %q", ht.h, same, got, want), witness)
		return strings.HasPrefix(got, "ok")
	default:
		o.Fail("C11:replay-diverges", fmt.Sprintf("height %d: the fresh node replays the served chain to %q, the serving node has %q", ht.h, got, want),
			map[string]any{"case": o.CurCase(), "height": ht.h})
		return false
	}
}

func runCase(o *drv.Out, ci, nHeights int) {
	rng := rand.New(rand.NewSource(o.Rng.Int63()))
	nVal := []int{4, 7, 1, 5}[ci%4]
	stakes := make([]uint64, nVal)
	for i := range stakes {
		stakes[i] = uint64(1_000_000_000 + rng.Intn(9)*500_000_000)
	}
	opts := node.Options{SchemeAccounts: 6} // ordinary senders of all four signature schemes
	small := ci%2 == 1
	if small {
		opts.BlockSize = lib.MaxBlockHeaderSize + 24_000
	}
	net := node.NewNetwork(o.Seed*7000+int64(ci), nVal, stakes, 40, opts)
	defer net.Close()
	atEnd := ci%3 == 2 // feed C only after the whole chain exists
	o.Case(fmt.Sprintf("portability-%d-v%d-small%v-feedAtEnd%v", ci, nVal, small, atEnd))
	c := execdrv.NewChain(o, net, rng, []int{16, 2, 5})
	A, B, C := c.NewNode("A", 0), c.NewNode("B", 1%nVal), c.NewNode("C", -1)
	var hs []*height
	// every serving node also answers explorer traffic right before each block request
	explorerBeforeServe = func(c *execdrv.Chain, X *node.Node, h uint64) string {
		return explorerQueries(c, X, h, []int{1, 1 + rng.Intn(10), 1 + rng.Intn(10)}, rng.Intn(6) == 0)
	}
	defer func() { explorerBeforeServe = nil }()
	var lastIncluded [][]byte
	cAlive := true
	for hi := 0; hi < nHeights; hi++ {
		h := A.Height()
		sends := []int{12, 150, 3, 60, 0, 250}[(hi+ci)%6]
		var replay [][]byte
		if len(lastIncluded) != 0 && rng.Intn(2) == 0 {
			replay = lastIncluded[:1]
		}
		txs := c.Mix.Mix(node.MixOpts{Height: h, Sends: sends, Failing: rng.Intn(6), Conflicts: rng.Intn(2), ValOps: hi%2 == 0, Replay: replay, ResubmitForged: hi >= 1})
		ht := proposeAndCommit(c, A, txs)
		if ht == nil {
			return
		}
		remainder := A.MempoolCount() > 0
		if !replicate(c, B, ht, remainder) {
			return
		}
		o.Nontrivial(fmt.Sprintf("%s|%d|%d", o.CurCase(), hi, ht.p.NTx))
		blk := new(lib.Block)
		_ = lib.Unmarshal(ht.p.Block, blk)
		lastIncluded = blk.Transactions
		hs = append(hs, ht)
		if !atEnd && cAlive {
			// the syncing node takes odd heights from B's archive and even ones from A's: it stores B's
			// version of a certificate while the next block's header embeds A's
			from := A
			if hi%2 == 1 {
				from = B
			}
			cAlive = serveAndSync(c, from, C, ht)
		}
	}
	if atEnd {
		if ci%4 >= 2 && !c.Restart(A) { // half of these archives serve from a cold block cache
			return
		}
		for _, ht := range hs {
			if !serveAndSync(c, A, C, ht) {
				cAlive = false
				break
			}
		}
	}
	if cAlive {
		// replay from genesis reproduced every block hash and state root; compare the full state too
		for _, ht := range hs {
			if A.HeaderBytes(ht.h) != C.HeaderBytes(ht.h) {
				o.Fail("C11:replay-diverges", fmt.Sprintf("header at height %d differs between A and the synced node", ht.h), map[string]any{"case": o.CurCase()})
			}
		}
		if !execdrv.SameDump(A.StateDump(), C.StateDump()) {
			o.Fail("C11:replay-diverges", "full state scans of A and the synced node differ", map[string]any{"case": o.CurCase()})
		}
		o.Count("chains-fully-replayed")
	}
	if len(hs) > 0 {
		o.Sample(fmt.Sprintf("%s: %d heights proposed by A, validated by B, served and replayed on fresh C (alive=%v), last block %s with %d txs", o.CurCase(), len(hs), cAlive, hs[len(hs)-1].p.ID, hs[len(hs)-1].p.NTx))
	}
}

// corpusOversize: the permanent witness of the (repaired) oversize-remainder defect, C11 view:
// the honest proposal built from an overfull mempool must be accepted by B and replay on C.
func corpusOversize(o *drv.Out) {
	o.Case("corpus-oversize-remainder")
	rng := rand.New(rand.NewSource(43))
	net := node.NewNetwork(7, 4, nil, 20, node.Options{BlockSize: lib.MaxBlockHeaderSize + 24_000})
	defer net.Close()
	c := execdrv.NewChain(o, net, rng, []int{16, 3})
	A, B, C := c.NewNode("A", 0), c.NewNode("B", 1), c.NewNode("C", -1)
	sends := func(n int, h uint64, base int) (out []node.MixTx) {
		for i := 0; i < n; i++ {
			out = append(out, node.MixTx{Kind: "send", Bytes: net.SendTx(net.AcctKeys[i%10], net.FreshAddr(base+i), 1000, 10000, h, ""), Expect: true})
		}
		return
	}
	for i, n := range []int{1, 200} {
		ht := proposeAndCommit(c, A, sends(n, A.Height(), i*1000))
		if ht == nil {
			return
		}
		if !replicate(c, B, ht, A.MempoolCount() > 0) || !serveAndSync(c, A, C, ht) {
			return
		}
		o.Count(fmt.Sprintf("corpus-oversize:%d-sends:included=%d", n, ht.p.NTx))
	}
}

// corpusFullBlock: a block FULL of small transactions built from an overflowing mempool (~690 sends
// fit 150 kB). Its raw transaction bytes honour the budget blockSize - MaxBlockHeaderSize; serialized,
// the per-transaction framing makes it longer than that budget plus the real header, possibly longer
// than blockSize. Every honest node must accept it on the paths that run QuorumCertificate.Check with
// the state-derived limit (HandlePeerBlock outside sync: A itself and B), and a fresh node must sync it.
func corpusFullBlock(o *drv.Out) {
	o.Case("corpus-full-block-of-small-txs")
	rng := rand.New(rand.NewSource(47))
	net := node.NewNetwork(8, 4, nil, 24, node.Options{BlockSize: lib.MaxBlockHeaderSize + 150_000})
	defer net.Close()
	c := execdrv.NewChain(o, net, rng, []int{16, 3})
	A, B, C := c.NewNode("A", 0), c.NewNode("B", 1), c.NewNode("C", -1)
	var senders []int
	for i := range net.AcctKeys {
		if i%4 != 3 { // ed25519 accounts: uniform, small transactions
			senders = append(senders, i)
		}
	}
	for hi, n := range []int{1, 900} {
		h := A.Height()
		var txs []node.MixTx
		for i := 0; i < n; i++ {
			txs = append(txs, node.MixTx{Kind: "send", Bytes: net.SendTx(net.AcctKeys[senders[i%len(senders)]], net.FreshAddr(hi*10000+i), 1000, 10000, h, ""), Expect: true})
		}
		ht := proposeAndCommit(c, A, txs)
		if ht == nil {
			return
		}
		if !replicate(c, B, ht, A.MempoolCount() > 0) || !serveAndSync(c, A, C, ht) {
			return
		}
		o.Count(fmt.Sprintf("corpus-full-block:%d-submitted:included=%d:serialized-minus-blocksize=%d", n, ht.p.NTx, len(ht.p.Block)-int(lib.MaxBlockHeaderSize+150_000)))
	}
	o.Sample("corpus-full-block-of-small-txs: " + blockSizes(A, &execdrv.Proposal{Block: mustLast(A)}))
}

// mustLast returns the last committed block of a node as served by its archive.
func mustLast(nd *node.Node) []byte {
	qc, err := nd.QCByHeight(nd.Height() - 1)
	if err != nil {
		return nil
	}
	return qc.Block
}

// corpusCheckpointHeight: every 100th height (controller.CheckpointFrequency) the certificate results
// carry a checkpoint = (height, block hash). The leader builds a proposal in two steps — CheckMempool
// caches block and results with a provisional header, ProduceProposal patches the header (last
// certificate, VDF), re-hashes it and finalises the results — so the checkpoint must be taken from the
// FINAL hash, or every replica recomputes other results and no proposal of that height is ever
// accepted. The chain is driven honestly through heights 1..101 (201 in the thorough tier; 99 and 101
// are the controls): A proposes, validates its own proposal and commits, B validates and commits,
// and at the end a fresh node C replays the whole served chain.
func corpusCheckpointHeight(o *drv.Out) {
	o.Case("checkpoint-height")
	rng := rand.New(rand.NewSource(52))
	net := node.NewNetwork(13, 4, nil, 8)
	defer net.Close()
	c := execdrv.NewChain(o, net, rng, []int{16, 4})
	A, B, C := c.NewNode("A", 0), c.NewNode("B", 1), c.NewNode("C", -1)
	last := uint64(101)
	if o.Tier == "thorough" || o.Search {
		last = 201
	}
	var hs []*height
	for A.Height() <= last {
		h := A.Height()
		var txs []node.MixTx
		if h%10 == 0 || h%100 == 99 || h%100 == 1 {
			txs = append(txs, node.MixTx{Kind: "send", Bytes: net.SendTx(net.AcctKeys[int(h)%8], net.FreshAddr(int(h)), 1000, 10000, h, "")})
		}
		ht := proposeAndCommit(c, A, txs)
		if ht == nil || !replicate(c, B, ht, false) {
			return
		}
		hs = append(hs, ht)
		if h%100 == 0 {
			qc, err := A.QCByHeight(h)
			if err != nil || qc.Results == nil || qc.Results.Checkpoint == nil || !bytes.Equal(qc.Results.Checkpoint.BlockHash, qc.BlockHash) || qc.Results.Checkpoint.Height != h {
				o.Fail("C11:honest-proposal-rejected:checkpoint-height", fmt.Sprintf("height %d: the archived certificate results carry no checkpoint for this block's final hash", h), map[string]any{"case": o.CurCase(), "height": h})
				return
			}
			o.Count(fmt.Sprintf("checkpoint-height:%d:accepted-by-proposer-and-replica", h))
		}
	}
	// the serving node restarts (cold block cache; the chain is longer than the 64 entries the cache holds)
	// and answers explorer traffic between the block requests: one full sweep of the block list first,
	// then, before every served height, the pages around it
	if !c.Restart(A) {
		return
	}
	all := []int{1, 2, 3, 4, 5, 6, 7, 8, 9, 10}
	swept := false
	explorerBeforeServe = func(c *execdrv.Chain, A *node.Node, h uint64) string {
		if !swept {
			swept = true
			return explorerQueries(c, A, h, all, true)
		}
		return explorerQueries(c, A, h, []int{1 + int(h)%10, 1}, false)
	}
	defer func() { explorerBeforeServe = nil }()
	for _, ht := range hs {
		if !serveAndSync(c, A, C, ht) {
			return
		}
	}
	if !execdrv.SameDump(A.StateDump(), C.StateDump()) {
		o.Fail("C11:replay-diverges", "full state scans of A and the synced node differ after the checkpoint height", map[string]any{"case": o.CurCase()})
		return
	}
	o.Nontrivial(o.CurCase())
	o.Sample(fmt.Sprintf("checkpoint-height: heights 1..%d proposed, validated, committed and replayed on a fresh node; the checkpoint of height 100 is the block's final hash", last))
}

// corpusUnauthorizedThenForged: one mempool, in execution (fee) order: a correctly signed transaction
// whose signer is NOT authorised for the message (its signature is queued in the batch verifier before
// the authorised-signer check fails), valid sends, a transaction with a forged signature, and an innocent
// valid send after it (or nothing after it). The batch verifier's verdict must be attributed to the
// forged transaction: it is never included, every valid one is, and the block validates, commits,
// is served and replays. Members: forged transaction last / not last, forged ed25519 / BLS / secp256k1 /
// Ethereum-style signature, one or two unauthorised transactions before it.
func corpusUnauthorizedThenForged(o *drv.Out) {
	o.Case("corpus-unauthorized-signer-then-forged-signature")
	rng := rand.New(rand.NewSource(65))
	net := node.NewNetwork(31, 4, nil, 16, node.Options{SchemeAccounts: 2})
	defer net.Close()
	c := execdrv.NewChain(o, net, rng, []int{16, 3})
	A, B, C := c.NewNode("A", 0), c.NewNode("B", 1), c.NewNode("C", -1)
	forgers := []crypto.PrivateKeyI{net.AcctKeys[5], net.AcctKeys[7], net.SecpKeys[0], net.EthKeys[0]} // ed25519, BLS, secp256k1, eth
	mi := 0
	for _, last := range []bool{false, true} {
		for fi, fk := range forgers {
			for _, nUnauth := range []int{1, 2} {
				if nUnauth == 2 && fi > 0 {
					continue
				}
				mi++
				h := A.Height()
				fee := uint64(50000)
				next := func() uint64 { fee -= 500; return fee }
				var txs []node.MixTx
				for u := 0; u < nUnauth; u++ {
					txs = append(txs, node.MixTx{Kind: "fail:unauthorized", Bytes: net.SendTxFrom(net.AcctKeys[u], node.Addr(net.AcctKeys[4]), net.FreshAddr(mi*10+u), 5, next(), h)})
				}
				txs = append(txs, node.MixTx{Kind: "send", Bytes: net.SendTx(net.AcctKeys[2], net.FreshAddr(mi*10+3), 1000, next(), h, ""), Expect: true})
				forged := node.CorruptSignature(net.SendTx(fk, net.FreshAddr(mi*10+4), 7, next(), h, ""))
				txs = append(txs, node.MixTx{Kind: "fail:badsig", Bytes: forged})
				want := 1
				if !last {
					txs = append(txs, node.MixTx{Kind: "send", Bytes: net.SendTx(net.AcctKeys[6], net.FreshAddr(mi*10+5), 1000, next(), h, ""), Expect: true},
						node.MixTx{Kind: "send", Bytes: net.SendTx(net.AcctKeys[8], net.FreshAddr(mi*10+6), 1000, next(), h, ""), Expect: true})
					want = 3
				}
				ht := proposeAndCommit(c, A, txs)
				if ht == nil {
					return
				}
				blk := new(lib.Block)
				_ = lib.Unmarshal(ht.p.Block, blk)
				hasForged := false
				for _, tx := range blk.Transactions {
					hasForged = hasForged || bytes.Equal(tx, forged)
				}
				if hasForged || len(blk.Transactions) != want {
					o.Fail("C11:invalid-signature-tx-included:after-unauthorized-signer",
						fmt.Sprintf("height %d: mempool in execution order = %d transaction(s) with a valid signature of a signer not authorised for the message, a valid send, a send with a forged signature (key type %d), %d valid sends; the block has %d transactions (expected the %d valid sends), the forged one among them: %v", h, nUnauth, fi, want-1, len(blk.Transactions), want, hasForged),
						map[string]any{"case": o.CurCase(), "height": h, "block": hex.EncodeToString(ht.p.Block), "forged_tx": hex.EncodeToString(forged)})
					return
				}
				if !replicate(c, B, ht, false) || !serveAndSync(c, A, C, ht) {
					return
				}
				o.Count("corpus-unauthorized-then-forged")
				o.Nontrivial(fmt.Sprintf("%s|%d", o.CurCase(), mi))
			}
		}
	}
}

// nonCanonicalTx: index of the first transaction whose bytes are not the canonical encoding (-1: none).
func nonCanonicalTx(txs [][]byte) int {
	for i, tx := range txs {
		if !node.IsCanonicalTx(tx) {
			return i
		}
	}
	return -1
}

// explorerBeforeServe: when set, serveAndSync lets the serving node answer these read-only explorer
// queries right before it answers the block request; returns a short description of them.
var explorerBeforeServe func(c *execdrv.Chain, A *node.Node, h uint64) string

// explorerQueries is the explorer traffic around height h on a node whose newest block is `newest`:
// block-list pages (Store.GetBlocks, newest first) of the given page sizes — the page whose LAST entry
// is h+1 when the size divides newest-h (its "took" column reads the header of h, the block below the
// page), otherwise the page that contains h+1 — then the header of h, the transactions of h and the
// events of h. sweep: every page of every size instead. No query reads the full block of h by height.
func explorerQueries(c *execdrv.Chain, A *node.Node, h uint64, sizes []int, sweep bool) string {
	o := c.O
	newest := A.Height() - 1
	var pages []string
	err := A.Explorer(func(st lib.StoreI) lib.ErrorI {
		for _, pp := range sizes {
			first, last := 1, 1
			if sweep {
				last = (int(newest) + pp - 1) / pp
			} else if newest > h {
				first = (int(newest-h) + pp - 1) / pp
				last = first
			}
			for n := first; n <= last; n++ {
				page, e := st.GetBlocks(lib.PageParams{PageNumber: n, PerPage: pp})
				if e != nil {
					return e
				}
				o.Count("explorer:blocks-page")
				if res, ok := page.Results.(*lib.BlockResults); ok && len(*res) > 0 {
					lastOnPage := (*res)[len(*res)-1].BlockHeader.Height
					if lastOnPage == h+1 {
						o.Count("explorer:blocks-page-ending-right-above-the-served-height")
					}
				}
			}
			if !sweep {
				pages = append(pages, fmt.Sprintf("%d/%d", first, pp))
			}
		}
		if _, e := st.GetBlockHeaderByHeight(h); e != nil {
			return e
		}
		if _, e := st.GetTxsByHeight(h, true, lib.PageParams{PageNumber: 1, PerPage: 10}); e != nil {
			return e
		}
		if _, e := st.GetEventsByBlockHeight(h, true, lib.PageParams{PageNumber: 1, PerPage: 10}); e != nil {
			return e
		}
		return nil
	})
	if err != nil {
		o.Fail("C11:explorer-query-failed", fmt.Sprintf("height %d: a read-only explorer query on node %s fails: %s", h, c.Names[A], err.Error()), map[string]any{"case": o.CurCase(), "height": h})
	}
	if sweep {
		return fmt.Sprintf("GetBlocks: every page of page sizes %v; GetBlockHeaderByHeight, GetTxsByHeight, GetEventsByBlockHeight of %d", sizes, h)
	}
	return fmt.Sprintf("GetBlocks pages (number/size) %s of %d blocks; GetBlockHeaderByHeight, GetTxsByHeight, GetEventsByBlockHeight of %d", strings.Join(pages, " "), newest, h)
}

// scenarioClass: set by a corpus scenario whose block is built to exercise one named mechanism.
var scenarioClass string

// scenarioNote: what the scenario put into the proposer's mempool, appended to rejection texts.
var scenarioNote string

// corpusParamCache: family "failed-param-change-then-dependent-tx" (execdrv/govern.go) as a
// portability scenario. The honest proposer A builds the block of height 2 from a mempool holding an
// approved changeParameter transaction that edits the cached parameter object and then fails in the
// handler (or is valid and sits in the dropped oversize remainder), followed by a dependent
// transaction (unstake, pause) or the EndBlock reward of a non-compounding validator. A itself and the
// replica B must validate and commit the proposal, one more block follows on the same state, and the
// fresh node C must replay A's archive to the same state.
func corpusParamCache(o *drv.Out) {
	rounds := 1
	if o.Tier == "thorough" || o.Search {
		rounds = 3
	}
	for r := 0; r < rounds; r++ {
		for vi, v := range execdrv.ParamVariants {
			if r == 0 && v.Space == "fee" {
				continue // thorough tier: nothing reads the fee space after the transactions
			}
			execdrv.Guard(o, func() { paramCacheCase(o, v, 2+(vi+r)%3, int64(100*r+vi)) })
		}
	}
}

func paramCacheCase(o *drv.Out, v execdrv.ParamVariant, val int, seed int64) {
	o.Case(fmt.Sprintf("failed-param-change-then-dependent-tx:%s:val%d:%d", v.Name, val, seed))
	scenarioClass = ":failed-param-change"
	scenarioNote = fmt.Sprintf("; the mempool of height 2 held %s, followed by %s on validator %d", v.Describe(), v.Dependent, val)
	defer func() { scenarioClass, scenarioNote = "", "" }()
	rng := rand.New(rand.NewSource(70 + seed))
	net := execdrv.ParamNetwork(80+seed, v.Remainder)
	defer net.Close()
	c := execdrv.NewChain(o, net, rng, []int{16, 3})
	A, B, C := c.NewNode("A", 0), c.NewNode("B", 1), c.NewNode("C", -1)
	var hs []*height
	for hi := 0; hi < 3; hi++ {
		h := A.Height()
		var mp []node.MixTx
		if hi != 1 {
			mp = []node.MixTx{{Kind: "send", Bytes: net.SendTx(net.AcctKeys[4*hi], net.FreshAddr(7+hi), 1000, 10000, h, "")}}
		} else {
			txs, _ := c.ParamMempool(v, h, val, 1000)
			for _, tx := range txs {
				mp = append(mp, node.MixTx{Kind: "param-family", Bytes: tx})
			}
		}
		ht := proposeAndCommit(c, A, mp)
		if ht == nil {
			return
		}
		if hi == 1 {
			o.Count(fmt.Sprintf("param-block:included=%d/left-in-mempool=%d", ht.p.NTx, A.MempoolCount()))
		}
		if !replicate(c, B, ht, v.Remainder) {
			return
		}
		hs = append(hs, ht)
	}
	for _, ht := range hs {
		if !serveAndSync(c, A, C, ht) {
			return
		}
	}
	if !execdrv.SameDump(A.StateDump(), C.StateDump()) {
		o.Fail("C11:replay-diverges:failed-param-change", fmt.Sprintf("full state scans of A and the node that replayed its archive differ; height 2 was built from a mempool holding %s", v.Describe()), map[string]any{"case": o.CurCase()})
		return
	}
	o.Count("param-variant:" + v.Name)
	o.Nontrivial(o.CurCase())
}

// corpusLastCertVersion: proposer A, replica B and the archives hold DIFFERENT valid versions (+2/3
// signer sets) of every commit certificate; the fresh node C syncs odd heights from B's archive and
// even heights from A's, right after they are committed, so at every height it has stored another
// version of the previous certificate than the served block's header embeds. Every served block must
// still re-validate on the sync path to the certified hash and state.
func corpusLastCertVersion(o *drv.Out) {
	o.Case("corpus-last-certificate-version")
	rng := rand.New(rand.NewSource(55))
	net := node.NewNetwork(16, 4, nil, 8)
	defer net.Close()
	c := execdrv.NewChain(o, net, rng, []int{16, 3})
	A, B, C := c.NewNode("A", 0), c.NewNode("B", 1), c.NewNode("C", -1)
	for hi := 0; hi < 6; hi++ {
		h := A.Height()
		txs := []node.MixTx{{Kind: "send", Bytes: net.SendTx(net.AcctKeys[hi%6], net.FreshAddr(hi), 1000, 10000, h, ""), Expect: true}}
		ht := proposeAndCommit(c, A, txs)
		if ht == nil || !replicate(c, B, ht, false) {
			return
		}
		from := A
		if hi%2 == 0 {
			from = B
		}
		if !serveAndSync(c, from, C, ht) {
			return
		}
	}
	if !execdrv.SameDump(A.StateDump(), C.StateDump()) {
		o.Fail("C11:replay-diverges", "full state scans of A and the synced node differ", map[string]any{"case": o.CurCase()})
		return
	}
	o.Nontrivial(o.CurCase())
	o.Sample("corpus-last-certificate-version: 6 heights; proposer, replica and archives hold different +2/3 versions of each commit certificate; the fresh node syncs alternately from both archives")
}

// corpusNonCanonical: suspected defect F2 (DESIGN §8), C11 view. A valid send is re-encoded without
// changing its content (explicit zero `nonce` field appended: 0x50 0x00; `created_height` repeated
// as a padded varint). If such bytes are accepted into a block, the archive re-marshals the
// transaction canonically, the served block has another transaction root and a fresh node cannot
// sync past it. The permuted variants keep the LENGTH of the canonical encoding (top-level fields
// written in another order: network_id and chain_id swapped, all fields reversed, first field last).
func corpusNonCanonical(o *drv.Out) {
	for vi, variant := range []string{"explicit-zero-nonce", "repeated-created-height", "permuted:swap-last-two", "permuted:reverse", "permuted:rotate"} {
		o.Case("corpus-noncanonical-tx-" + variant)
		rng := rand.New(rand.NewSource(44))
		net := node.NewNetwork(11+int64(vi), 4, nil, 20)
		c := execdrv.NewChain(o, net, rng, []int{16, 4})
		A, B, C := c.NewNode("A", 0), c.NewNode("B", 1), c.NewNode("C", -1)
		ok := true
		for hi := 0; hi < 3 && ok; hi++ {
			h := A.Height()
			var txs []node.MixTx
			for i := 0; i < 3; i++ {
				txs = append(txs, node.MixTx{Kind: "send", Bytes: net.SendTx(net.AcctKeys[i], net.FreshAddr(hi*10+i), 1000, 10000, h, ""), Expect: true})
			}
			if hi == 1 {
				canon := net.SendTx(net.AcctKeys[5], net.FreshAddr(777), 4242, 10000, h, "")
				raw := node.ReencodeExplicitZeroNonce(canon)
				if variant == "repeated-created-height" {
					raw = node.ReencodeRepeatedCreatedHeight(canon, h)
				}
				if strings.HasPrefix(variant, "permuted:") {
					// same content, same length, fields in another order
					raw = node.ReencodePermuted(canon, strings.TrimPrefix(variant, "permuted:"))
				}
				txs = append(txs, node.MixTx{Kind: "noncanon:" + variant, Bytes: raw})
				o.Extra["c11_noncanonical_"+variant] = map[string]string{"canonical": hex.EncodeToString(canon), "reencoded": hex.EncodeToString(raw)}
			}
			ht := proposeAndCommit(c, A, txs)
			if ht == nil {
				break
			}
			if hi == 1 {
				o.Count(fmt.Sprintf("corpus-noncanonical:%s:included=%d-of-4", variant, ht.p.NTx))
			}
			ok = replicate(c, B, ht, false) && serveAndSync(c, A, C, ht)
		}
		net.Close()
	}
}
