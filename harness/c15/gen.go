package c15

import (
	"fmt"
	"math/rand"
	"runtime"
	"sort"
	"sync"
	"sync/atomic"

	"github.com/canopy-network/canopy/bft"
	"github.com/canopy-network/canopy/lib"
	"google.golang.org/protobuf/proto"

	"verifharness/bftsim"
	"verifharness/c01"
	"verifharness/drv"
)

// Run is the entry point of the C15 driver.
func Run(o *drv.Out) {
	CorpusElectionVoteStall(o)
	CorpusLeaderMessageEcho(o)
	CorpusStaleElectionCertificate(o)
	CorpusPacemakerPush(o)
	CorpusStaleBlockHash(o, false)
	CorpusStaleBlockHash(o, true)
	CorpusLockedAtRootBoundary(o, 10)
	CorpusLockedAtRootBoundary(o, 9)
	CorpusPlantedPartialQC(o, []int{1}, true)
	CorpusPlantedPartialQC(o, []int{1, 2}, false)
	CorpusLockSurvivesCommitteeChange(o)
	CorpusOldRootLockVsNewRootLock(o, 4, []int{0}, []int{1})
	CorpusOldRootLockVsNewRootLock(o, 7, []int{0, 6}, []int{1, 2})
	CorpusPhaseSplitInterrupt(o, [7]int{1500, 1500, 2500, 4000, 2000, 12000, 2000})
	CorpusPhaseSplitInterrupt(o, [7]int{1500, 1500, 2500, 4000, 12000, 2000, 2000})
	CorpusPhaseSplitInterrupt(o, [7]int{800, 1200, 9000, 1500, 1000, 7000, 3000})
	nCases := 80
	if o.Tier == "thorough" {
		nCases = 500
	}
	if o.Search {
		nCases = 800
	}
	seeds := make([]int64, nCases)
	for k := range seeds {
		seeds[k] = o.Rng.Int63()
	}
	recs := make([]*c01.Recorder, nCases)
	stats := make([]caseStats, nCases)
	workers := runtime.GOMAXPROCS(0)
	if workers > 14 {
		workers = 14
	}
	var wg sync.WaitGroup
	next := int64(-1)
	for w := 0; w < workers; w++ {
		wg.Add(1)
		go func() {
			defer wg.Done()
			for {
				k := int(atomic.AddInt64(&next, 1))
				if k >= nCases {
					return
				}
				rec := &c01.Recorder{}
				stats[k] = timedCase(rec, rand.New(rand.NewSource(seeds[k])), o.Tier, k)
				recs[k] = rec
			}
		}()
	}
	wg.Wait()
	var toCommit, toGood, alignAt []int
	noCommit := 0
	for k, rec := range recs {
		rec.Replay(o)
		st := stats[k]
		if st.roundsToCommit >= 0 {
			toCommit = append(toCommit, st.roundsToCommit)
		} else {
			noCommit++
		}
		if st.roundsToFirstGood >= 0 {
			toGood = append(toGood, st.roundsToFirstGood)
		}
		if st.alignedAfter >= 0 {
			alignAt = append(alignAt, st.alignedAfter)
		}
	}
	o.Extra["rounds_from_gst_to_first_commit"] = summary(toCommit)
	o.Extra["rounds_from_gst_to_first_good_round"] = summary(toGood)
	o.Extra["rounds_from_gst_until_offsets_below_phase_window"] = summary(alignAt)
	o.Extra["cases_without_commit_within_round_cap"] = noCommit
}

func summary(l []int) map[string]any {
	if len(l) == 0 {
		return map[string]any{"n": 0}
	}
	sort.Ints(l)
	return map[string]any{"n": len(l), "min": l[0], "median": l[len(l)/2], "p90": l[len(l)*9/10], "max": l[len(l)-1]}
}

type caseStats struct {
	roundsToCommit, roundsToFirstGood, alignedAfter int
}

var styles = []string{"silent", "honest", "withhold", "attack", "attack", "spam"}

func timedCase(o c01.Sink, rng *rand.Rand, tier string, k int) caseStats {
	n := 4
	switch rng.Intn(8) {
	case 0:
		n = 5
	case 1:
		n = 6
	case 2:
		n = 7
	}
	powers := make([]uint64, n)
	weighted := rng.Intn(3) == 0
	var total uint64
	for i := range powers {
		powers[i] = 1
		if weighted {
			powers[i] = uint64(1 + rng.Intn(4))
		}
		total += powers[i]
	}
	var byz []int
	var bp uint64
	for _, i := range rng.Perm(n) {
		if 3*(bp+powers[i]) < total && (len(byz) == 0 || rng.Intn(3) == 0) {
			byz = append(byz, i)
			bp += powers[i]
		}
	}
	style := styles[rng.Intn(len(styles))]
	// plan "two locks": replica A alone locks in round 0; cut off, it does not see the others lock on another block in a
	// later round (their PRECOMMIT_VOTEs are lost); at GST the Byzantine validator falls silent, so A is needed for +2/3
	planA := -1
	if rng.Intn(4) == 0 {
		n, powers, weighted = 4, []uint64{1, 1, 1, 1}, false
		byz = []int{rng.Intn(4)}
		style = "silent"
		planA = (byz[0] + 1 + rng.Intn(3)) % 4
	}
	// CommitteeData.LastRootHeightUpdated: the root height itself (a nested chain whose root chain has not advanced since
	// its last commit), just below it, or zero — all legal
	lrhu := []uint64{10, 10, 9, 0}[rng.Intn(4)]
	cfg := bftsim.Config{N: n, Powers: powers, Byz: byz, Root0: 10, Salt: rng.Uint64() % 1_000_000, RealTimeouts: true, LastRootHeightUpdated: lrhu}
	if rng.Intn(2) == 0 { // every phase has its own timeout; sometimes one phase is 5-10 times the others
		var ts [7]int
		for p := range ts {
			ts[p] = 500 + rng.Intn(3500)
		}
		if rng.Intn(2) == 0 {
			ts[rng.Intn(7)] *= 5 + rng.Intn(6)
		}
		cfg.Timeouts = &ts
		o.Count("timeouts:per-phase")
	} else {
		o.Count("timeouts:default")
	}
	if rng.Intn(2) == 0 { // root height 11 lists the same committee in another order
		cfg.CommitteeOrder = map[uint64][]int{11: rng.Perm(n)}
	}
	r := newRun(o, fmt.Sprintf("timed/%d/%s/n%d/byz%v", k, style, n, byz), cfg)
	s := r.Sim()
	t := &timed{r: r, s: s, o: o, rng: rng, style: style, delta: int64(20 + rng.Intn(200)),
		next: make([]int64, n), roundStart: make([]int64, n),
		named: map[bftsim.VR]map[int]int{}, judged: map[bftsim.VR]bool{}, proposal: map[bftsim.VR]string{}, lastOff: map[bftsim.VR]int64{},
		firstGood: -1, commitRound: -1, byzOldPropose: map[int]*bft.Message{}, sentAttack: map[string]bool{}}
	o.Count("style:" + style)
	if t.plant = rng.Intn(2) == 0; t.plant {
		o.Count("byz-extra:plant-partial-qc")
	}
	o.Count(fmt.Sprintf("lrhu:%d", lrhu))
	o.Count(fmt.Sprintf("n:%d", n))
	// the adversarial prefix: replicas start at different times, the network loses, delays and partitions
	t.gst = int64(15000 + rng.Intn(250000))
	lateCase := rng.Intn(2) == 0
	t.planA = planA
	if planA >= 0 {
		o.Count("prefix:plan-two-locks")
		lateCase = false
		t.gst = int64(170000 + rng.Intn(90000))
	}
	for i := range t.next {
		t.next[i] = int64(rng.Intn(12000))
		if planA >= 0 {
			t.next[i] = int64(rng.Intn(300))
		}
		if lateCase && rng.Intn(3) == 0 { // a late starter: it is rounds behind when the network heals
			t.next[i] = rng.Int63n(t.gst)
			o.Count("prefix:late-starter")
		}
		t.roundStart[i] = t.next[i]
	}
	// a root-chain update during the prefix reaches the replicas at different times (round restarts at 0, locks kept)
	bumpAt := map[int]int64{}
	if planA < 0 && rng.Intn(5) < 2 {
		for i := 0; i < n; i++ {
			bumpAt[i] = t.gst/4 + rng.Int63n(t.gst*3/4)
		}
		o.Count("prefix:root-bump")
	}
	t.pre = chaosPre{pDrop: 0.1 + 0.4*rng.Float64(), pDelay: 0.3, maxDelay: int64(2000 + rng.Intn(40000)), partition: rng.Intn(2) == 0}
	part := make([]bool, n)
	for i := range part {
		part[i] = rng.Intn(2) == 0
	}
	roundCap := uint64(14)
	if tier == "thorough" {
		roundCap = 24
	}
	gstSeen := false
	alignedAfter := -1
	for steps := 0; steps < 6000; steps++ {
		// next event: earliest message, else earliest timer (messages first at equal times)
		mi, ti := -1, -1
		for j, f := range t.flight {
			if mi < 0 || f.at < t.flight[mi].at {
				mi = j
			}
		}
		for j, at := range t.next {
			if at >= 0 && (ti < 0 || at < t.next[ti]) {
				ti = j
			}
		}
		if mi < 0 && ti < 0 {
			break
		}
		if mi >= 0 && (ti < 0 || t.flight[mi].at <= t.next[ti]) {
			f := t.flight[mi]
			t.flight = append(t.flight[:mi], t.flight[mi+1:]...)
			t.now = max(t.now, f.at)
			if s.IsByz[f.e.To] || !c01.Committed(s, f.e.To) {
				if g := t.good; g != nil && f.e.Kind == "ELECTION_VOTE" && !g.has(f.e.From) && f.e.To == g.leader && f.e.Msg.HighQc != nil && f.e.Msg.HighQc.Header != nil {
					h := f.e.Msg.HighQc
					g.extras = append(g.extras, fmt.Sprintf("%d.%d/%s", h.Header.RootHeight, h.Header.Round, s.BlkName(s.BlockID(h.BlockHash, h.ResultsHash))))
				}
				r.Deliver(f.e)
			}
		} else {
			i := ti
			t.now = max(t.now, t.next[i])
			for j, at := range bumpAt {
				if at <= t.now {
					delete(bumpAt, j)
					if !c01.Committed(s, j) {
						r.Reset(j, 11)
						t.roundStart[j] = t.now
						if j != i {
							t.next[j] = t.now + int64(s.Nodes[j].B.Config.NewHeightTimeoutMs)
						}
						if j == i {
							t.next[i] = t.now + int64(s.Nodes[j].B.Config.NewHeightTimeoutMs)
						}
					}
				}
			}
			if t.next[i] > t.now {
				continue
			}
			if !gstSeen && t.now >= t.gst {
				gstSeen = true
				for _, j := range t.correct() {
					if rd := s.Nodes[j].B.Round; rd > t.roundAtGST {
						t.roundAtGST = rd
					}
				}
				r.Log("---- GST at %d ms: delivery within %d ms from here on; highest correct round %d", t.now, t.delta, t.roundAtGST)
			}
			if s.IsByz[i] {
				t.fireByz(i)
			} else {
				w := t.fireHonest(i)
				if w < 0 {
					t.next[i] = -1
				} else {
					t.next[i] = t.now + w
				}
				if s.Nodes[i].B.Phase == bft.Propose && !c01.Committed(s, i) { // its ELECTION_VOTE is out
					t.judge(i)
				}
			}
		}
		t.dispatch(part)
		t.closeGood()
		if gstSeen && alignedAfter < 0 {
			if v := (bftsim.VR{Root: s.Nodes[t.anyCorrect()].B.RootHeight, Round: s.Nodes[t.anyCorrect()].B.Round}); t.judged[v] {
				if off, ok := t.lastOff[v]; ok && off+t.delta < minWait(s.Nodes[t.anyCorrect()].B, v.Round) && v.Round >= t.roundAtGST {
					alignedAfter = int(v.Round - t.roundAtGST)
				}
			}
		}
		if honestCommits(s) > 0 {
			for _, c := range s.Commits {
				if c.Accepted && !s.IsByz[c.Rep] && t.commitRound < 0 {
					t.commitRound = int64(c.View.Round)
				}
			}
			break
		}
		if r.Failed() {
			break
		}
		if gstSeen && s.Nodes[t.anyCorrect()].B.Round > t.roundAtGST+roundCap {
			o.Count("case:round-cap")
			break
		}
	}
	t.closeGood()
	st := caseStats{roundsToCommit: -1, roundsToFirstGood: -1, alignedAfter: alignedAfter}
	switch {
	case t.commitRound >= 0 && !gstSeen:
		o.Count("case:committed-before-gst")
	case t.commitRound >= 0:
		o.Count("case:committed-after-gst")
		st.roundsToCommit = int(t.commitRound) - int(t.roundAtGST)
		if st.roundsToCommit < 0 {
			st.roundsToCommit = 0
		}
	default:
		o.Count("case:no-commit")
	}
	if t.firstGood >= 0 {
		st.roundsToFirstGood = int(t.firstGood) - int(t.roundAtGST)
	}
	if k < 8 {
		o.Sample(fmt.Sprintf("%s: GST at %.1fs (round %d), Δ=%dms, first good round %d, commit round %d, good rounds %d, commits %s", r.Name(), float64(t.gst)/1000, t.roundAtGST, t.delta, t.firstGood, t.commitRound, t.goodRounds, c01.CommitsStr(s)))
	}
	r.End()
	return st
}

func (t *timed) anyCorrect() int {
	for i := range t.s.Nodes {
		if !t.s.IsByz[i] {
			return i
		}
	}
	return 0
}

// dispatch moves what was just sent into flight: before GST the network is adversarial; from GST on every message of a
// correct sender arrives within Δ (Byzantine senders keep choosing their own delays).
func (t *timed) dispatch(part []bool) {
	s := t.s
	for _, e := range s.Take(func(*bftsim.Envelope) bool { return true }) {
		if t.planA >= 0 && t.now < t.gst && e.Kind == "PRECOMMIT" && e.Msg.Header.Round == 0 && e.To != t.planA {
			t.o.Count("net:plan-precommit-only-to-A") // also withheld from the leader itself
			continue
		}
		if e.From == e.To { // the self-send is internal routing
			t.flight = append(t.flight, &inflight{t.now, e})
			continue
		}
		if t.now >= t.gst {
			if s.IsByz[e.From] && t.style == "withhold" && t.rng.Intn(2) == 0 {
				t.o.Count("net:byzantine-withholds")
				continue
			}
			t.flight = append(t.flight, &inflight{t.now + t.rng.Int63n(t.delta+1), e})
			continue
		}
		if t.planA >= 0 {
			rd := uint64(0)
			if e.Msg.Header != nil {
				rd = e.Msg.Header.Round
			} else if e.Msg.Qc != nil && e.Msg.Qc.Header != nil {
				rd = e.Msg.Qc.Header.Round
			}
			switch {
			case rd == 0 && e.Kind == "PRECOMMIT" && e.To != t.planA:
				t.o.Count("net:plan-precommit-only-to-A")
			case rd >= 1 && (e.From == t.planA || e.To == t.planA):
				t.o.Count("net:plan-A-cut-off")
			case rd >= 1 && (e.Kind == "PRECOMMIT_VOTE" || e.Kind == "COMMIT"):
				t.o.Count("net:plan-precommit-votes-lost")
			default:
				t.flight = append(t.flight, &inflight{t.now + t.rng.Int63n(100), e})
			}
			continue
		}
		x := t.rng.Float64()
		switch {
		case t.pre.partition && part[e.From] != part[e.To]:
			// held until the network heals (then delivered late)
			t.flight = append(t.flight, &inflight{t.gst + t.rng.Int63n(t.delta+1), e})
			t.o.Count("net:partitioned")
		case x < t.pre.pDrop:
			t.o.Count("net:drop")
		case x < t.pre.pDrop+t.pre.pDelay:
			t.flight = append(t.flight, &inflight{t.now + t.rng.Int63n(t.pre.maxDelay+1), e})
			t.o.Count("net:delay")
		default:
			t.flight = append(t.flight, &inflight{t.now + t.rng.Int63n(300), e})
		}
	}
	if len(t.flight) > 3000 {
		t.flight = t.flight[len(t.flight)-3000:]
	}
}

// fireByz: a Byzantine replica's timer. It runs the real handler (so that it can be elected, aggregate, etc.) and deviates
// according to the case's style.
func (t *timed) fireByz(i int) {
	s, b := t.s, t.s.Nodes[i].B
	before, roundBefore := b.Phase, b.Round
	hon := t.correct()
	if t.style == "silent" && t.now >= t.gst {
		t.next[i] = -1
		return
	}
	switch before {
	case bft.ProposeVote:
		if t.style != "honest" {
			s.ByzForgetLock(i)
		}
	}
	res := t.r.Phase(i)
	var wait int64
	switch {
	case res.Interrupted:
		wait = int64(b.Config.RoundInterruptTimeoutMS)
	case before == bft.Pacemaker:
		wait = 0
	case before == bft.CommitProcess:
		wait = 60000
	default:
		wait = b.WaitTime(before, roundBefore).Milliseconds()
	}
	t.next[i] = t.now + wait
	if before == bft.Propose {
		for _, e := range s.Queue {
			if e.From == i && e.Kind == "PROPOSE" {
				t.byzOldPropose[i] = e.Msg
			}
		}
	}
	view := bftsim.VR{Root: b.RootHeight, Round: roundBefore}
	// plant-partial-qc: once the round's PROPOSE_VOTE certificate may exist, hand every correct replica a leader-style
	// PRECOMMIT message whose certificate has that view, another payload and only this validator's signature (any
	// validator can: it is filed as a partial QC before the sender is compared with the leader)
	if key := fmt.Sprintf("plant/%s/%d", view, i); t.plant && (before == bft.Precommit || before == bft.PrecommitVote) && !t.sentAttack[key] &&
		len(hon) > 0 && (t.now < t.gst || t.style == "attack") {
		t.sentAttack[key] = true
		s.ByzPlantPartialQC(i, view, lib.Phase_PROPOSE_VOTE, hon)
		t.r.Flush()
		t.r.Log("byz %d plants a partial PROPOSE_VOTE certificate for view %s (another payload, its own signature only) on %v", i, view, hon)
		t.o.Count("byz:plant-partial-qc")
	}
	if t.style != "attack" && t.style != "spam" {
		return
	}
	// L4: pacemaker spam
	if t.rng.Intn(4) == 0 {
		s.ByzPacemaker(i, b.RootHeight, uint64(1000+t.rng.Intn(1_000_000)), hon)
		t.o.Count("byz:pacemaker-claims-huge-round")
	}
	if t.style == "spam" {
		return
	}
	// L3: re-send an old PROPOSE with the header's round set to the correct replicas' current round
	if old := t.byzOldPropose[i]; old != nil && len(hon) > 0 && t.rng.Intn(3) == 0 {
		cur := s.Nodes[hon[0]].B.Round
		if old.Header.Round != cur {
			s.ByzResign(i, old, func(m *bft.Message) { m.Header.Round = cur }, hon)
			t.o.Count("byz:stale-propose")
		}
	}
	// L2 and L1: echo the leader's PRECOMMIT / COMMIT; wrap its certificate into an ELECTION_VOTE for everybody
	for _, ph := range []lib.Phase{bft.Precommit, bft.Commit} {
		key := fmt.Sprintf("%s/%d/%d", view, ph, i)
		if l := b.Proposals[roundBefore][phaseKey(ph)]; len(l) > 0 && !t.sentAttack[key] && s.IdxOf(l[0].Signature.PublicKey) != i {
			t.sentAttack[key] = true
			s.ByzResign(i, l[0], nil, hon)
			t.o.Count("byz:echo-" + lib.Phase_name[int32(ph)])
			if ph == bft.Precommit {
				qc := proto.Clone(l[0].Qc).(*lib.QuorumCertificate)
				for _, to := range hon {
					s.ByzElectionVote(i, view, i, qc, to)
				}
				t.o.Count("byz:election-vote-with-highqc-midround")
			}
		}
	}
}
