package c15

import (
	"fmt"
	"math/rand"
	"sort"
	"strings"

	"github.com/canopy-network/canopy/bft"
	"github.com/canopy-network/canopy/lib"

	"verifharness/bftsim"
	"verifharness/c01"
)

// timed is the virtual clock over one schedule: every replica's next timer expiry (computed with the repository's own
// WaitTime / msLeftInRound), messages in flight with their delivery time, and the ground truth about rounds.
type timed struct {
	r   *c01.Schedule
	s   *bftsim.Sim
	o   c01.Sink
	rng *rand.Rand

	now        int64
	next       []int64 // ms; -1 = no timer
	roundStart []int64 // when the replica entered its current round
	flight     []*inflight
	gst        int64
	delta      int64
	style      string // what the Byzantine replicas do after GST
	pre        chaosPre

	waitSeen map[[2]uint64]bool
	named    map[bftsim.VR]map[int]int // view -> replica -> the candidate its ELECTION_VOTE names
	judged   map[bftsim.VR]bool
	good     *goodRound
	proposal map[bftsim.VR]string // view -> "blk=<..> hq=<..>" of the PROPOSE message the round's leader sent
	lastOff  map[bftsim.VR]int64  // view -> offset between the correct replicas' starts (once they share rounds)

	roundAtGST    uint64
	firstGood     int64
	goodRounds    int
	commitRound   int64
	byzOldPropose map[int]*bft.Message
	sentAttack    map[string]bool
	plant         bool // Byzantine validators also plant partial QCs for the view of the round's certificate
	planA         int  // plan "two locks": the replica that locks alone (-1 = no plan)
}

type chaosPre struct {
	pDrop, pDelay float64
	maxDelay      int64
	partition     bool
}

type inflight struct {
	at int64
	e  *bftsim.Envelope
}

type goodRound struct {
	view   bftsim.VR
	leader int
	H      []int
	extras []string
}

func (g *goodRound) has(x int) bool {
	for _, j := range g.H {
		if j == x {
			return true
		}
	}
	return false
}

func phaseKey(p lib.Phase) string { return fmt.Sprintf("%d_%s", p, lib.Phase_name[int32(p)]) }

// timeouts of the configuration, ELECTION .. COMMIT
func timeouts(b *bft.BFT) [7]int {
	c := b.Config
	return [7]int{c.ElectionTimeoutMS, c.ElectionVoteTimeoutMS, c.ProposeTimeoutMS, c.ProposeVoteTimeoutMS, c.PrecommitTimeoutMS, c.PrecommitVoteTimeoutMS, c.CommitTimeoutMS}
}

func minWait(b *bft.BFT, round uint64) int64 {
	m := int64(1) << 62
	for p := bft.Election; p <= bft.Commit; p++ {
		if w := b.WaitTime(p, round).Milliseconds(); w < m {
			m = w
		}
	}
	return m
}

// fireHonest runs the phase handler of honest replica i (its timer expired) and returns the wait the real code sets next
// (-1 = none). It emits the liveness ops: pm (pacemaker), wait, msleft.
func (t *timed) fireHonest(i int) int64 {
	s, b := t.s, t.s.Nodes[i].B
	before, roundBefore := b.Phase, b.Round
	claims := ""
	if before == bft.Pacemaker {
		var cs []string
		for pk, m := range b.PacemakerMessages {
			_ = pk
			if m.Signature == nil || m.Qc == nil || m.Qc.Header == nil {
				continue
			}
			if v := s.IdxOf(m.Signature.PublicKey); v >= 0 {
				cs = append(cs, fmt.Sprintf("%d:%d", v, m.Qc.Header.Round))
			}
		}
		sort.Strings(cs)
		claims = "-"
		if len(cs) > 0 {
			claims = strings.Join(cs, ",")
		}
	}
	res := t.r.Phase(i)
	if before == bft.Pacemaker {
		t.o.Op(fmt.Sprintf("pm %d %d %s", i, roundBefore, claims), fmt.Sprint(b.Round))
		t.o.Count("pacemaker:" + map[bool]string{true: "jump", false: "next-round"}[b.Round > roundBefore+1])
	}
	if before == bft.ElectionVote {
		// which candidate did its ELECTION_VOTE name
		for _, e := range s.Queue {
			if e.From == i && e.Kind == "ELECTION_VOTE" && e.Msg.Qc.Header.Round == roundBefore && e.Msg.Qc.Header.RootHeight == b.RootHeight {
				v := bftsim.VR{Root: b.RootHeight, Round: roundBefore}
				if t.named != nil {
					if t.named[v] == nil {
						t.named[v] = map[int]int{}
					}
					t.named[v][i] = s.IdxOf(e.Msg.Qc.ProposerKey)
				}
			}
		}
	}
	if before == bft.Propose && t.proposal != nil {
		for _, e := range s.Queue {
			if e.From == i && e.Kind == "PROPOSE" && e.Msg.Header.Round == roundBefore {
				d := "blk=fresh hq=-"
				if e.Msg.HighQc != nil && e.Msg.HighQc.Header != nil {
					d = fmt.Sprintf("blk=%s hq=%d.%d", s.BlkName(s.BlockID(e.Msg.Qc.BlockHash, e.Msg.Qc.ResultsHash)), e.Msg.HighQc.Header.RootHeight, e.Msg.HighQc.Header.Round)
				}
				t.proposal[bftsim.VR{Root: b.RootHeight, Round: roundBefore}] = d
			}
		}
	}
	// the wait SetTimerForNextPhase computed
	var wait int64
	switch {
	case res.Interrupted:
		wait = int64(b.Config.RoundInterruptTimeoutMS)
		// invariant of the real timer arithmetic: wherever a replica abandons a round, the time it has spent in the round
		// (the waits of the phases before the one whose handler interrupted) plus what RoundInterrupt sleeps is the full
		// round length — so that all replicas start the next round together
		var spent, full int64
		for p := bft.Election; p <= bft.Commit; p++ {
			w := b.WaitTime(p, roundBefore).Milliseconds()
			full += w
			if p < before {
				spent += w
			}
		}
		if spent+wait != full {
			t.o.Count("invariant:round-interrupt-misaligned:" + lib.Phase_name[int32(before)])
			if !t.r.Failed() {
				t.r.SetFailed()
				t.o.Fail("C15:round-interrupt-misaligned:"+lib.Phase_name[int32(before)],
					fmt.Sprintf("%s: replica %d abandoned round %d in %s after %d ms and sleeps %d ms: %d ms, but the round lasts %d ms (timeouts %v)", t.r.Name(), i, roundBefore, lib.Phase_name[int32(before)], spent, wait, spent+wait, full, timeouts(b)),
					map[string]any{"timeouts_ms": timeouts(b), "round": roundBefore, "phase": lib.Phase_name[int32(before)], "spent_ms": spent, "sleep_ms": wait, "round_ms": full})
			}
		} else {
			t.o.Count("invariant:round-interrupt-aligned:" + lib.Phase_name[int32(before)])
		}
		ts := timeouts(b)
		t.o.Op(fmt.Sprintf("msleft %d %d %d %d %d %d %d %d %d", int(before), roundBefore, ts[0], ts[1], ts[2], ts[3], ts[4], ts[5], ts[6]), fmt.Sprint(wait))
	case before == bft.Pacemaker:
		wait = 0
	case before == bft.CommitProcess:
		wait = -1
	default:
		wait = b.WaitTime(before, roundBefore).Milliseconds()
		if t.waitSeen == nil {
			t.waitSeen = map[[2]uint64]bool{}
		}
		if k := [2]uint64{uint64(before), roundBefore}; !t.waitSeen[k] {
			t.waitSeen[k] = true
			ts := timeouts(b)
			t.o.Op(fmt.Sprintf("wait %d %d %d", int(before), roundBefore, ts[int(before)-1]), fmt.Sprint(wait))
		}
	}
	if before == bft.Pacemaker && t.roundStart != nil {
		t.roundStart[i] = t.now
	}
	return wait
}

// correct lists the correct replicas that have not committed.
func (t *timed) correct() []int {
	var out []int
	for i := range t.s.Nodes {
		if !t.s.IsByz[i] && !c01.Committed(t.s, i) {
			out = append(out, i)
		}
	}
	return out
}

// judge decides, after a correct replica cast its ELECTION_VOTE in a view, whether the ground truth calls the round good:
// after GST there is a set H of correct replicas in the view holding at least the +2/3 threshold whose round starts lie
// within a window that (plus Δ) is below the smallest phase window, and all of them named the same correct candidate in H.
func (t *timed) judge(i int) {
	s := t.s
	b := s.Nodes[i].B
	v := bftsim.VR{Root: b.RootHeight, Round: b.Round}
	if t.judged[v] || t.good != nil {
		return
	}
	window := minWait(b, v.Round)
	type cand struct {
		j     int
		start int64
	}
	var in []cand
	allHere := true
	for _, j := range t.correct() {
		bj := s.Nodes[j].B
		if bj.RootHeight != v.Root || bj.Round != v.Round {
			allHere = false
			continue
		}
		if _, ok := t.named[v][j]; ok {
			in = append(in, cand{j, t.roundStart[j]})
		} else {
			allHere = false
		}
	}
	sort.Slice(in, func(a, b int) bool { return in[a].start < in[b].start })
	if allHere && len(in) > 0 { // bookkeeping of the offset between all correct replicas once they share a round
		off := in[len(in)-1].start - in[0].start
		if _, seen := t.lastOff[v]; !seen {
			if prev, ok := t.lastOff[bftsim.VR{Root: v.Root, Round: v.Round - 1}]; ok && v.Round > 0 && in[0].start >= t.gst && off > prev+1 {
				t.o.Count("sync:offset-grew")
				if !t.r.Failed() {
					t.r.SetFailed()
					t.o.Fail("C15:offset-grew", fmt.Sprintf("%s: the start offset between correct replicas grew from %d ms (round %d) to %d ms (round %d) although every round lasts the same for everybody", t.r.Name(), prev, v.Round-1, off, v.Round),
						map[string]any{"schedule": tail(t.r.Schedule(), 400)})
				}
			}
			t.lastOff[v] = off
			if in[0].start >= t.gst {
				if off+t.delta < window {
					t.o.Count("round:all-correct-aligned")
				} else {
					t.o.Count("round:not-all-aligned")
				}
			}
		}
	}
	// the best aligned window
	var H []int
	for lo := 0; lo < len(in); lo++ {
		if in[lo].start < t.gst {
			continue
		}
		var set []int
		var pw uint64
		for hi := lo; hi < len(in) && in[hi].start-in[lo].start+t.delta < window; hi++ {
			set = append(set, in[hi].j)
			pw += s.Cfg.Powers[in[hi].j]
		}
		if pw >= s.ValSet.MinimumMaj23 && len(set) > len(H) {
			H = set
		}
	}
	if H == nil {
		if allHere {
			t.judged[v] = true
			t.o.Count("round:no-aligned-quorum")
		}
		return
	}
	leader := -2
	for _, j := range H {
		if n := t.named[v][j]; leader == -2 {
			leader = n
		} else if leader != n {
			leader = -1
		}
	}
	inH := func(x int) bool {
		for _, j := range H {
			if j == x {
				return true
			}
		}
		return false
	}
	switch {
	case leader < 0:
		if allHere {
			t.judged[v] = true
			t.o.Count("round:split-election")
		}
		return
	case s.IsByz[leader]:
		t.judged[v] = true
		t.o.Count("round:byzantine-leader")
		return
	case !inH(leader):
		if allHere {
			t.judged[v] = true
			t.o.Count("round:leader-not-aligned")
		}
		return
	}
	t.judged[v] = true
	sort.Ints(H)
	t.o.Count("round:good")
	t.goodRounds++
	if t.firstGood < 0 {
		t.firstGood = int64(v.Round)
	}
	t.good = &goodRound{view: v, leader: leader, H: H}
	var hs, locks []string
	for _, j := range H {
		hs = append(hs, fmt.Sprint(j))
		bj := s.Nodes[j].B
		l := "-"
		if bj.HighQC != nil && bj.HighQC.Header != nil {
			l = fmt.Sprintf("%d.%d/%s", bj.HighQC.Header.RootHeight, bj.HighQC.Header.Round, s.BlkName(s.BlockID(bj.HighQC.BlockHash, bj.HighQC.ResultsHash)))
		}
		locks = append(locks, fmt.Sprintf("%d:%s", j, l))
	}
	t.o.Op(fmt.Sprintf("good-begin %s %d %s", v, leader, strings.Join(hs, ",")), "ok "+strings.Join(locks, ";"))
}

// closeGood ends the open good round: it committed, or a replica of H left the view without a commit.
func (t *timed) closeGood() {
	g := t.good
	if g == nil {
		return
	}
	committed := false
	for _, c := range t.s.Commits {
		if c.Accepted && !t.s.IsByz[c.Rep] && c.View == g.view {
			committed = true
		}
	}
	left := false
	for _, j := range g.H {
		bj := t.s.Nodes[j].B
		if (bj.RootHeight != g.view.Root || bj.Round != g.view.Round) && !c01.Committed(t.s, j) {
			left = true
		}
	}
	if !committed && !left {
		return
	}
	ex := "-"
	if len(g.extras) > 0 {
		ex = strings.Join(g.extras, ",")
	}
	res := "no-commit"
	if committed {
		res = "commit " + t.proposal[g.view]
	}
	t.o.Op(fmt.Sprintf("good-end %s %s", g.view, ex), res)
	if !committed && !t.r.Failed() {
		t.r.SetFailed()
		t.o.Fail("C15:no-commit-within-bound", fmt.Sprintf("%s: round %s was synchronous with the correct leader %d elected by every correct replica, and did not commit (Byzantine style %s)", t.r.Name(), g.view, g.leader, t.style),
			map[string]any{"schedule": tail(t.r.Schedule(), 600)})
	}
	t.good = nil
}

func tail(l []string, n int) []string {
	if len(l) > n {
		return l[len(l)-n:]
	}
	return l
}
