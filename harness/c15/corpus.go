// Package c15 drives real bft.BFT replicas (harness/bftsim, the C01 schedule runner) for the liveness property:
// four corpus schedules (the repaired defects L1–L4) in lock-step rounds, then seeded cases with a virtual clock over
// the repository's own phase timers — an adversarial prefix, then delivery within a bound Δ — in which every round
// that the ground truth calls good (all correct replicas in the round with start offsets below the smallest phase
// window, all of them voted for the same correct leader) must commit.
package c15

import (
	"bytes"
	"fmt"

	"github.com/canopy-network/canopy/bft"
	"github.com/canopy-network/canopy/lib"
	"google.golang.org/protobuf/proto"

	"verifharness/bftsim"
	"verifharness/c01"
	"verifharness/drv"
)

func others(s *bftsim.Sim, skip ...int) []int {
	var o []int
	for i := range s.Nodes {
		ok := true
		for _, k := range skip {
			ok = ok && k != i
		}
		if ok {
			o = append(o, i)
		}
	}
	return o
}

func honestCommits(s *bftsim.Sim) int {
	n := 0
	for _, c := range s.Commits {
		if c.Accepted && !s.IsByz[c.Rep] {
			n++
		}
	}
	return n
}

// lockstepRound runs one fully synchronous round for `who` (standing at ELECTION): every message is delivered before
// the next phase; a replica that reaches the next round's ELECTION waits for the others. `hook` runs after each phase's
// deliveries. Returns the number of accepted honest commits so far.
func lockstepRound(r *c01.Schedule, who []int, hook func()) int {
	s := r.Sim()
	start := map[int]uint64{}
	for _, i := range who {
		start[i] = s.Nodes[i].B.Round
	}
	for k := 0; k < 14; k++ {
		moved := false
		for _, i := range who {
			b := s.Nodes[i].B
			if c01.Committed(s, i) || (b.Phase == bft.Election && b.Round > start[i]) {
				continue
			}
			r.Phase(i)
			moved = true
		}
		if !moved {
			break
		}
		for _, e := range s.Take(func(*bftsim.Envelope) bool { return true }) {
			r.Deliver(e)
		}
		if hook != nil {
			hook()
		}
	}
	return honestCommits(s)
}

// newRun: the shared schedule runner with the forwarded-lock oracle on (every ELECTION_VOTE of a locked honest replica
// carries its lock together with the block and results it certifies).
func newRun(o c01.Sink, name string, cfg bftsim.Config) *c01.Schedule {
	r := c01.NewRun(o, name, cfg)
	r.CheckForwardedLock("C15:lock-forwarded-without-proposal")
	return r
}

func corpusCfg(salt uint64) bftsim.Config {
	return bftsim.Config{N: 4, Powers: []uint64{1, 1, 1, 1}, Byz: []int{0}, Root0: 10, Salt: salt, RealTimeouts: true}
}

func verdict(o *drv.Out, r *c01.Schedule, sig, what string, ok bool, detail string) {
	o.Sample(fmt.Sprintf("%s: %s — %s", r.Name(), what, detail))
	if !ok {
		o.Fail(sig, fmt.Sprintf("%s: %s; %s", r.Name(), what, detail), map[string]any{"schedule": r.Schedule()})
	}
}

// CorpusElectionVoteStall is L1 (repaired by 3637abf). Round 0 runs normally up to the leader's PRECOMMIT broadcast;
// validator 0 wraps the round's own PROPOSE_VOTE certificate (block-less, as it travels in PRECOMMIT) as the HighQc of an
// ELECTION_VOTE and hands it to every honest replica before its PRECOMMIT_VOTE timer. Before the repair every replica
// adopted it, lost its block, interrupted, and the height never committed again (every later leader proposed a nil
// block). It must now be ignored: round 0 commits.
func CorpusElectionVoteStall(o *drv.Out) {
	r := newRun(o, "corpus/L1-election-vote-midround-stall", corpusCfg(7))
	s := r.Sim()
	attacked := false
	n := lockstepRound(r, others(s), func() {
		if attacked || len(s.Nodes[1].B.Proposals[0]["5_PRECOMMIT"]) == 0 {
			return
		}
		attacked = true
		qc := proto.Clone(s.Nodes[1].B.Proposals[0]["5_PRECOMMIT"][0].Qc).(*lib.QuorumCertificate)
		qc.Block, qc.Results = nil, nil
		for _, to := range []int{1, 2, 3} {
			r.Deliver(s.ByzElectionVote(0, bftsim.VR{Root: 10, Round: 0}, 0, qc, to))
			s.Take(func(*bftsim.Envelope) bool { return true })
		}
		r.Log("byz 0 hands every honest replica an ELECTION_VOTE whose HighQc is the round's block-less PROPOSE_VOTE certificate")
	})
	rounds := 0
	for ; n == 0 && rounds < 6; rounds++ { // the attacker is silent from here on
		n = lockstepRound(r, []int{1, 2, 3}, nil)
	}
	verdict(o, r, "C15:election-vote-midround-stall", "mid-round ELECTION_VOTE with a HighQc", attacked && n > 0 && rounds == 0,
		fmt.Sprintf("attacked=%v honest commits=%d extra rounds needed=%d (%s)", attacked, n, rounds, c01.CommitsStr(s)))
	r.End()
}

// CorpusLeaderMessageEcho is L2 (repaired by e2ecd83): a non-leader re-signs the leader's PRECOMMIT and sends it after the
// genuine one; it overwrote the stored message and CheckProposerAndProposal interrupted every replica, in every round.
func CorpusLeaderMessageEcho(o *drv.Out) {
	r := newRun(o, "corpus/L2-leader-message-overwrite", corpusCfg(7))
	s := r.Sim()
	echoed, rejected := false, 0
	n := lockstepRound(r, []int{1, 2, 3}, func() {
		l := s.Nodes[1].B.Proposals[s.Nodes[1].B.Round]["5_PRECOMMIT"]
		if echoed || len(l) == 0 {
			return
		}
		echoed = true
		for _, e := range s.ByzResign(0, l[0], nil, []int{1, 2, 3}) {
			if r.Deliver(e) != "" {
				rejected++
			}
		}
		s.Take(func(*bftsim.Envelope) bool { return true })
		r.Log("byz 0 re-signs the leader's PRECOMMIT message and sends it to every honest replica")
	})
	verdict(o, r, "C15:leader-message-overwrite", "PRECOMMIT re-signed by a non-leader", echoed && rejected == 3 && n > 0,
		fmt.Sprintf("echoed=%v rejected by %d/3, honest commits in that round=%d", echoed, rejected, n))
	r.End()
}

// CorpusStaleElectionCertificate is L3 (repaired by 63f299a): validator 0 is legitimately elected in round 0, proposes and
// goes silent; in round 1 it re-sends that PROPOSE with the header's round set to 1. It overwrote the genuine proposal
// and the replicas propose-voted to validator 0, in every later round.
func CorpusStaleElectionCertificate(o *drv.Out) {
	cfg := corpusCfg(1)
	probe := bftsim.New(cfg)
	for ; ; cfg.Salt++ {
		probe.SetSalt(cfg.Salt)
		if probe.FallbackLeader(10, 0) == 0 && probe.FallbackLeader(10, 1) != 0 {
			break
		}
	}
	r := newRun(o, "corpus/L3-stale-election-certificate", cfg)
	s := r.Sim()
	all, hon := others(s), []int{1, 2, 3}
	for _, i := range all {
		r.Phase(i) // ELECTION
	}
	s.DropAll() // no candidate announcements: everybody votes for the fallback leader, validator 0
	for _, i := range all {
		r.Phase(i) // ELECTION_VOTE
	}
	for _, e := range s.Take(func(*bftsim.Envelope) bool { return true }) {
		r.Deliver(e)
	}
	r.Phase(0) // PROPOSE
	var old *bft.Message
	for _, e := range s.Queue {
		if e.Kind == "PROPOSE" {
			old = e.Msg
		}
	}
	s.DropAll()
	if old == nil {
		o.Fail("C15:corpus-setup", "L3: validator 0 was not elected in round 0", r.Schedule())
		r.End()
		return
	}
	for k := 0; k < 6; k++ { // the honest replicas' round 0 fails
		for _, i := range hon {
			if b := s.Nodes[i].B; !(b.Phase == bft.Election && b.Round > 0) {
				r.Phase(i)
			}
		}
		s.DropAll()
	}
	hijacked, rejected := false, 0
	n := lockstepRound(r, hon, func() {
		cur := s.Nodes[1].B.Round
		if hijacked || len(s.Nodes[1].B.Proposals[cur]["3_PROPOSE"]) == 0 {
			return
		}
		hijacked = true
		for _, e := range s.ByzResign(0, old, func(m *bft.Message) { m.Header.Round = cur }, hon) {
			if r.Deliver(e) != "" {
				rejected++
			}
		}
		s.Take(func(*bftsim.Envelope) bool { return true })
		r.Log("byz 0 re-sends its round-0 PROPOSE with the header's round set to %d", cur)
	})
	verdict(o, r, "C15:stale-election-certificate", "PROPOSE with the election certificate of an earlier round", hijacked && rejected == 3 && n > 0,
		fmt.Sprintf("hijack attempted=%v rejected by %d/3, honest commits in that round=%d", hijacked, rejected, n))
	r.End()
}

// CorpusPacemakerPush is L4 = F7 (repaired by 0fe2116): with four equal validators half of the +2/3 threshold was 1, so
// one validator's pacemaker message claiming round 1,000,000 moved every replica there (ELECTION wait 833 h).
func CorpusPacemakerPush(o *drv.Out) {
	r := newRun(o, "corpus/L4-pacemaker-single-validator-push", corpusCfg(7))
	s := r.Sim()
	hon := []int{1, 2, 3}
	for _, e := range s.ByzPacemaker(0, 10, 1_000_000, hon) {
		r.Deliver(e)
	}
	s.Take(func(*bftsim.Envelope) bool { return true })
	t := &timed{r: r, s: s, o: o, planA: -1}
	for k := 0; k < 6; k++ { // an ordinary failed round (nothing delivered)
		for _, i := range hon {
			if b := s.Nodes[i].B; !(b.Phase == bft.Election && b.Round > 0) {
				t.fireHonest(i)
			}
		}
		s.DropAll()
	}
	maxRound := uint64(0)
	for _, i := range hon {
		if s.Nodes[i].B.Round > maxRound {
			maxRound = s.Nodes[i].B.Round
		}
	}
	b := s.Nodes[1].B
	verdict(o, r, "C15:pacemaker-single-validator-push", "one validator claims round 1,000,000", maxRound == 1,
		fmt.Sprintf("honest replicas stand at round %d; ELECTION wait there = %v", maxRound, b.WaitTime(bft.Election, b.Round)))
	r.End()
}

func samePub(a, b []byte) bool { return bytes.Equal(a, b) }

// CorpusStaleBlockHash: two different locks alive when synchrony returns and the lower-locked replica is needed.
// (1) A = replica 1 alone locks on X in round 0 (the PRECOMMIT reaches only A), the round fails. (2) With A cut off, the
// others propose a fresh Y in round 1 and lock on it (their PRECOMMIT_VOTEs are lost: no commit). (3) Validator 0 crashes;
// A, 2, 3 are all needed. The first round led by a live replica must commit Y: A's SafeNode takes the LIVENESS branch and
// A has to sign for Y. `variantALeads`: that round is led by A itself (it adopts the higher lock and must propose Y).
// A replica that keeps answering the hash of its old lock after a round change never contributes again and the height
// never commits (seeded change pending-C15).
func CorpusStaleBlockHash(o *drv.Out, variantALeads bool) {
	const A = 1
	cfg := corpusCfg(1)
	probe := bftsim.New(cfg)
	for ; ; cfg.Salt++ {
		probe.SetSalt(cfg.Salt)
		l1, l2 := probe.FallbackLeader(10, 1), probe.FallbackLeader(10, 2)
		if l1 != A && ((variantALeads && l2 == A) || (!variantALeads && (l2 == 2 || l2 == 3))) {
			break
		}
	}
	name := "corpus/stale-block-hash-after-unlock"
	if variantALeads {
		name += "/lower-locked-replica-leads"
	}
	r := newRun(o, name, cfg)
	s := r.Sim()
	all := others(s)
	step := func(who []int) {
		for _, i := range who {
			if !c01.Committed(s, i) {
				r.Phase(i)
			}
		}
	}
	deliver := func(f func(e *bftsim.Envelope) bool) {
		for _, e := range s.Take(func(e *bftsim.Envelope) bool { return e.Kind != "ELECTION" && (f == nil || f(e)) }) {
			r.Deliver(e)
		}
		s.DropAll() // candidate announcements are never delivered: every round is led by the fallback leader
	}
	toElection := func(who []int) {
		for _, i := range who {
			for k := 0; s.Nodes[i].B.Phase != bft.Election && k < 12; k++ {
				r.Phase(i)
			}
		}
		s.DropAll()
	}
	// (1) round 0: X certified, the PRECOMMIT reaches A only
	step(all)
	deliver(nil) // ELECTION
	step(all)
	deliver(nil) // ELECTION_VOTE
	step(all)
	deliver(nil) // PROPOSE
	step(all)
	deliver(nil) // PROPOSE_VOTE
	step(all)    // PRECOMMIT
	deliver(func(e *bftsim.Envelope) bool { return e.To == A })
	step(all) // PRECOMMIT_VOTE: A locks, the others interrupt
	s.DropAll()
	toElection(all)
	// (2) round 1 without A: Y certified and locked by 0, 2, 3; their PRECOMMIT_VOTEs are lost
	rest := others(s, A)
	notA := func(e *bftsim.Envelope) bool { return e.From != A && e.To != A }
	step(all)
	deliver(notA)
	step(all)
	deliver(notA)
	step(all)
	deliver(notA)
	step(all) // PROPOSE_VOTE: A has no proposal / refuses
	deliver(notA)
	step(rest) // PRECOMMIT
	deliver(notA)
	step(rest) // PRECOMMIT_VOTE: 0, 2, 3 lock on Y
	s.DropAll()
	toElection(all)
	lockA, lock2 := s.State(A), s.State(2)
	// (3) validator 0 is gone; synchronous rounds with A, 2, 3
	live := []int{A, 2, 3}
	rounds, n := 0, 0
	firstLive := -1
	for ; n == 0 && rounds < 5; rounds++ {
		round := s.Nodes[2].B.Round
		if l := s.FallbackLeader(10, round); l != 0 && firstLive < 0 {
			firstLive = rounds
		}
		for k := 0; k < 9 && honestCommits(s) == 0; k++ {
			moved := false
			for _, i := range live {
				if b := s.Nodes[i].B; !c01.Committed(s, i) && !(b.Phase == bft.Election && b.Round > round) {
					r.Phase(i)
					moved = true
				}
			}
			deliver(nil)
			if !moved {
				break
			}
		}
		n = honestCommits(s)
	}
	ok := n > 0 && rounds-1 == firstLive
	verdict(o, r, "C15:stale-block-hash-after-unlock", "two locks alive, the lower-locked replica needed for +2/3", ok,
		fmt.Sprintf("after stage 2: A %s | replica 2 %s; first round with a live leader: +%d, committed after +%d rounds: %s", lockA, lock2, firstLive, rounds-1, c01.CommitsStr(s)))
	r.End()
}

// CorpusLockedAtRootBoundary: round 0 runs with all four validators, the PRECOMMIT reaches only replica 1 (it locks), the
// round fails and validator 0 crashes; from round 1 on delivery is synchronous and replicas 1, 2, 3 are all needed. The
// first round with a live leader must commit: the leader has to accept the locked replica's ELECTION_VOTE, whose HighQc
// is from root height 10 — `lrhu` (CommitteeData.LastRootHeightUpdated) is below it or EQUAL to it; both are legal.
// A CheckHighQC that rejects the boundary drops that vote (and every PROPOSE carrying the lock): no leader ever reaches
// +2/3 again (seeded change pending2-C15).
func CorpusLockedAtRootBoundary(o *drv.Out, lrhu uint64) {
	const A = 1
	cfg := corpusCfg(1)
	cfg.LastRootHeightUpdated = lrhu
	r := newRun(o, fmt.Sprintf("corpus/locked-replica-at-equal-root-height/lrhu%d-root10", lrhu), cfg)
	s := r.Sim()
	all := others(s)
	step := func(who []int) {
		for _, i := range who {
			if !c01.Committed(s, i) {
				r.Phase(i)
			}
		}
	}
	deliver := func(f func(e *bftsim.Envelope) bool) {
		for _, e := range s.Take(func(e *bftsim.Envelope) bool { return e.Kind != "ELECTION" && (f == nil || f(e)) }) {
			r.Deliver(e)
		}
		s.DropAll()
	}
	for k := 0; k < 4; k++ { // ELECTION .. PROPOSE_VOTE of round 0
		step(all)
		deliver(nil)
	}
	step(all) // PRECOMMIT
	deliver(func(e *bftsim.Envelope) bool { return e.To == A })
	step(all) // PRECOMMIT_VOTE: A locks, the others interrupt
	s.DropAll()
	for _, i := range all {
		for k := 0; s.Nodes[i].B.Phase != bft.Election && k < 12; k++ {
			r.Phase(i)
		}
	}
	s.DropAll()
	lockA := s.State(A)
	live := []int{1, 2, 3}
	rounds, n, firstLive := 0, 0, -1
	for ; n == 0 && rounds < 6; rounds++ {
		round := s.Nodes[2].B.Round
		if l := s.FallbackLeader(10, round); l != 0 && firstLive < 0 {
			firstLive = rounds
		}
		for k := 0; k < 9 && honestCommits(s) == 0; k++ {
			moved := false
			for _, i := range live {
				if b := s.Nodes[i].B; !c01.Committed(s, i) && !(b.Phase == bft.Election && b.Round > round) {
					r.Phase(i)
					moved = true
				}
			}
			deliver(nil)
			if !moved {
				break
			}
		}
		n = honestCommits(s)
	}
	verdict(o, r, "C15:no-commit-after-gst:lock-root-height-boundary",
		fmt.Sprintf("a locked replica is needed for +2/3, LastRootHeightUpdated=%d, lock from root height 10", lrhu), n > 0 && rounds-1 == firstLive,
		fmt.Sprintf("A after round 0: %s; first round with a live leader: +%d, committed after +%d rounds: %s", lockA, firstLive, rounds-1, c01.CommitsStr(s)))
	r.End()
}

// CorpusPlantedPartialQC: round 0 runs with all four validators; the PRECOMMIT reaches `locked` replicas only (they lock), and
// validator 0 — leader or not — sends each of them a leader-style PRECOMMIT message for the same view whose certificate has
// the locked certificate's view, another payload and only its own signature (filed as a partial QC: possible double-sign
// evidence against validator 0), before or after they lock. The round fails, validator 0 goes silent, delivery is
// synchronous from round 1 on and replicas 1, 2, 3 are all needed: the first round with a live leader must commit, so the
// leader has to accept the locked replicas' ELECTION_VOTEs — whatever they did with the partial QC must not have touched
// the lock they forward (seeded change pending9-C15).
func CorpusPlantedPartialQC(o *drv.Out, locked []int, afterLock bool) {
	cfg := corpusCfg(1)
	when := "before-lock"
	if afterLock {
		when = "after-lock"
	}
	r := newRun(o, fmt.Sprintf("corpus/planted-partial-qc/locked%v-%s", locked, when), cfg)
	s := r.Sim()
	all := others(s)
	step := func(who []int) {
		for _, i := range who {
			if !c01.Committed(s, i) {
				r.Phase(i)
			}
		}
	}
	isLocked := func(i int) bool {
		for _, l := range locked {
			if l == i {
				return true
			}
		}
		return false
	}
	deliver := func(f func(e *bftsim.Envelope) bool) {
		for _, e := range s.Take(func(e *bftsim.Envelope) bool { return e.Kind != "ELECTION" && (f == nil || f(e)) }) {
			r.Deliver(e)
		}
		s.DropAll()
	}
	planted := 0
	plant := func() {
		envs := s.ByzPlantPartialQC(0, bftsim.VR{Root: 10, Round: 0}, lib.Phase_PROPOSE_VOTE, locked)
		r.Flush() // the signature validator 0 put on the other payload is a vote event of the history
		for _, e := range envs {
			r.Deliver(e)
			planted++
		}
		s.Take(func(*bftsim.Envelope) bool { return true })
		r.Log("byz 0 sends %v a PRECOMMIT message whose PROPOSE_VOTE certificate (view 10.0) has another payload and only its own signature", locked)
		r.Out().Count("byz:plant-partial-qc")
	}
	for k := 0; k < 4; k++ { // ELECTION .. PROPOSE_VOTE of round 0
		step(all)
		deliver(nil)
	}
	step(all) // PRECOMMIT
	deliver(func(e *bftsim.Envelope) bool { return isLocked(e.To) })
	if !afterLock {
		plant()
	}
	step(all) // PRECOMMIT_VOTE: the chosen replicas lock, the others interrupt
	s.DropAll()
	if afterLock {
		plant()
	}
	for _, i := range all {
		for k := 0; s.Nodes[i].B.Phase != bft.Election && k < 12; k++ {
			r.Phase(i)
		}
	}
	s.DropAll()
	locks, filed := "", 0
	for _, i := range locked {
		locks += fmt.Sprintf("%d: %s; ", i, s.State(i))
		filed += len(s.Nodes[i].B.PartialQCs)
	}
	rounds, firstLive, n := syncUntilCommit(r, []int{1, 2, 3}, 0, 6)
	verdict(o, r, "C15:no-commit-after-gst:partial-qc-planted-on-locked-replica",
		fmt.Sprintf("locked replicas %v hold a partial QC for the view of their lock; they are needed for +2/3", locked), planted == len(locked) && filed == len(locked) && n > 0 && rounds-1 == firstLive,
		fmt.Sprintf("after round 0: %spartial QCs filed: %d; first round with a live leader: +%d, committed after +%d rounds: %s", locks, filed, firstLive, rounds-1, c01.CommitsStr(s)))
	r.End()
}

// syncUntilCommit runs lock-step synchronous rounds for `live` (candidate announcements dropped: every round is led by the
// fallback leader) until an honest commit or `max` rounds; returns the rounds run, the index of the first round with a
// live leader, and the honest commits.
func syncUntilCommit(r *c01.Schedule, live []int, crashed int, max int) (rounds, firstLive, n int) {
	s := r.Sim()
	firstLive = -1
	for ; n == 0 && rounds < max; rounds++ {
		b0 := s.Nodes[live[0]].B
		round := b0.Round
		if l := s.FallbackLeader(b0.RootHeight, round); l != crashed && firstLive < 0 {
			firstLive = rounds
		}
		for k := 0; k < 9 && honestCommits(s) == 0; k++ {
			moved := false
			for _, i := range live {
				if b := s.Nodes[i].B; !c01.Committed(s, i) && !(b.Phase == bft.Election && b.Round > round) {
					r.Phase(i)
					moved = true
				}
			}
			for _, e := range s.Take(func(e *bftsim.Envelope) bool { return e.Kind != "ELECTION" }) {
				r.Deliver(e)
			}
			s.DropAll()
			if !moved {
				break
			}
		}
		n = honestCommits(s)
	}
	return
}

// CorpusLockSurvivesCommitteeChange: validator 0 is down from the start. Round 0 at root height 10: replicas 1, 2, 3 certify
// X (signers {1,2,3}), the PRECOMMIT reaches only replica 1, which locks; the round fails. The root chain advances: every
// replica gets the NEW_COMMITTEE reset to root height 11 (locks kept), where the controller lists the same validators in
// another order. From then on delivery is synchronous; the first round with a live leader must commit X: the leader
// re-proposes it with the root-10 certificate as HighQc, and every replica has to verify that certificate against the
// committee of root height 10 — the one whose list its signer bitmap refers to.
func CorpusLockSurvivesCommitteeChange(o *drv.Out) {
	const A = 1
	cfg := corpusCfg(1)
	cfg.CommitteeOrder = map[uint64][]int{11: {3, 2, 1, 0}}
	probe := bftsim.New(cfg)
	for ; ; cfg.Salt++ {
		probe.SetSalt(cfg.Salt)
		if probe.FallbackLeader(10, 0) != 0 {
			break
		}
	}
	r := newRun(o, "corpus/lock-survives-committee-change", cfg)
	s := r.Sim()
	live := []int{1, 2, 3}
	step := func() {
		for _, i := range live {
			r.Phase(i)
		}
	}
	deliver := func(f func(e *bftsim.Envelope) bool) {
		for _, e := range s.Take(func(e *bftsim.Envelope) bool { return e.Kind != "ELECTION" && (f == nil || f(e)) }) {
			r.Deliver(e)
		}
		s.DropAll()
	}
	for k := 0; k < 4; k++ { // ELECTION .. PROPOSE_VOTE of round 0
		step()
		deliver(nil)
	}
	step() // PRECOMMIT
	deliver(func(e *bftsim.Envelope) bool { return e.To == A })
	step() // PRECOMMIT_VOTE: A locks, the others interrupt
	s.DropAll()
	lockA := s.State(A)
	for _, i := range live {
		r.Reset(i, 11)
	}
	rounds, firstLive, n := syncUntilCommit(r, live, 0, 6)
	verdict(o, r, "C15:no-commit-after-gst:lock-from-earlier-committee",
		"a lock from root height 10 must be re-proposable at root height 11 where the committee is listed in another order", n > 0 && rounds-1 == firstLive,
		fmt.Sprintf("A before the reset: %s; first round with a live leader: +%d, committed after +%d rounds: %s", lockA, firstLive, rounds-1, c01.CommitsStr(s)))
	r.End()
}

// CorpusPhaseSplitInterrupt runs in virtual time under the given phase timeouts (ELECTION .. COMMIT, ms). Validator 0 is
// silent; in round 0 the PRECOMMIT is withheld from replica 3, so the correct replicas abandon the round in different
// phases — replica 3 in PRECOMMIT_VOTE, the leader in COMMIT (no +2/3 of precommit votes), the third one in COMMIT_PROCESS.
// RoundInterrupt must let all of them start round 1 at the same instant (msLeftInRound = what is left of the round), and
// with delivery within 10 ms the first round with a live leader commits. A replica that wakes at another time misses the
// phase windows of the others, and all three are needed.
func CorpusPhaseSplitInterrupt(o *drv.Out, ts [7]int) {
	cfg := corpusCfg(1)
	cfg.Timeouts = &ts
	probe := bftsim.New(cfg)
	for ; ; cfg.Salt++ {
		probe.SetSalt(cfg.Salt)
		if l := probe.FallbackLeader(10, 0); l == 1 || l == 2 {
			break
		}
	}
	r := newRun(o, fmt.Sprintf("corpus/phase-split-interrupt/timeouts%v", ts), cfg)
	s := r.Sim()
	t := &timed{r: r, s: s, o: o, planA: -1, next: []int64{-1, 0, 0, 0}, roundStart: make([]int64, 4)}
	firstLive := uint64(0)
	for rd := uint64(1); rd < 12; rd++ {
		if s.FallbackLeader(10, rd) != 0 {
			firstLive = rd
			break
		}
	}
	starts := map[uint64][]int64{}
	for steps := 0; steps < 1500 && honestCommits(s) == 0 && !r.Failed(); steps++ {
		mi, ti := -1, -1
		for j, f := range t.flight {
			if mi < 0 || f.at < t.flight[mi].at {
				mi = j
			}
		}
		for j, at := range t.next {
			if at >= 0 && (ti < 0 || at < t.next[ti]) {
				ti = j
			}
		}
		if mi < 0 && ti < 0 {
			break
		}
		if mi >= 0 && (ti < 0 || t.flight[mi].at <= t.next[ti]) {
			f := t.flight[mi]
			t.flight = append(t.flight[:mi], t.flight[mi+1:]...)
			t.now = max(t.now, f.at)
			r.Deliver(f.e)
		} else {
			t.now = max(t.now, t.next[ti])
			before := s.Nodes[ti].B.Phase
			if w := t.fireHonest(ti); w < 0 {
				t.next[ti] = -1
			} else {
				t.next[ti] = t.now + w
			}
			if b := s.Nodes[ti].B; before == bft.Pacemaker {
				starts[b.Round] = append(starts[b.Round], t.now)
			}
			if s.Nodes[ti].B.Round > firstLive+2 {
				break
			}
		}
		for _, e := range s.Take(func(*bftsim.Envelope) bool { return true }) {
			switch {
			case e.Kind == "ELECTION" || e.To == 0:
			case e.Kind == "PRECOMMIT" && e.Msg.Header.Round == 0 && e.To == 3:
			case e.From == e.To:
				t.flight = append(t.flight, &inflight{t.now, e})
			default:
				t.flight = append(t.flight, &inflight{t.now + 10, e})
			}
		}
	}
	commitRound := int64(-1)
	for _, c := range s.Commits {
		if c.Accepted && !s.IsByz[c.Rep] && commitRound < 0 {
			commitRound = int64(c.View.Round)
		}
	}
	verdict(o, r, "C15:no-commit-within-bound:round-realignment",
		"replicas that abandon a round in different phases must start the next round together", commitRound == int64(firstLive),
		fmt.Sprintf("round-1 start times of the correct replicas (ms): %v; first round with a live leader: %d, first commit in round %d", starts[1], firstLive, commitRound))
	r.End()
}

// CorpusOldRootLockVsNewRootLock: locks on both sides of a root-chain update and the old-lock replicas needed afterwards.
// n equal-stake validators; `crash` fall silent after the prefix; `old` lock on X at (10,1) (round 0 fails, in round 1 the
// PRECOMMIT reaches only them); everybody is reset to root height 11 (locks kept); at (11,0) a leader that never heard of
// the old lock gets a fresh Y certified and one other replica locks on it (precommit votes lost). Then synchrony: every
// remaining replica is needed for +2/3. The leader ranks the (11,0) lock above the (10,1) one (View.Less) and re-proposes
// Y; the old-lock replicas must unlock — their lock is older although its round number is higher.
func CorpusOldRootLockVsNewRootLock(o *drv.Out, n int, crash, old []int) {
	in := func(set []int, x int) bool {
		for _, y := range set {
			if y == x {
				return true
			}
		}
		return false
	}
	pw := make([]uint64, n)
	for i := range pw {
		pw[i] = 1
	}
	cfg := bftsim.Config{N: n, Powers: pw, Byz: crash, Root0: 10, Salt: 1, RealTimeouts: true}
	probe := bftsim.New(cfg)
	for ; ; cfg.Salt++ {
		probe.SetSalt(cfg.Salt)
		l0, l1 := probe.FallbackLeader(11, 0), probe.FallbackLeader(11, 1)
		if !in(old, l0) && !in(old, l1) && !in(crash, l1) {
			break
		}
	}
	r := newRun(o, fmt.Sprintf("corpus/old-root-lock-vs-new-root-lock/n%d", n), cfg)
	s := r.Sim()
	all := others(s)
	step := func(who []int) {
		for _, i := range who {
			if !c01.Committed(s, i) {
				r.Phase(i)
			}
		}
	}
	deliver := func(f func(e *bftsim.Envelope) bool) {
		for _, e := range s.Take(func(e *bftsim.Envelope) bool { return e.Kind != "ELECTION" && (f == nil || f(e)) }) {
			r.Deliver(e)
		}
		s.DropAll()
	}
	inRound := func(rd uint64) []int {
		var out []int
		for _, i := range all {
			if b := s.Nodes[i].B; b.Round == rd && b.Phase != bft.Pacemaker && b.Phase != bft.Election {
				out = append(out, i)
			}
		}
		return out
	}
	toElection := func() {
		for _, i := range all {
			for k := 0; s.Nodes[i].B.Phase != bft.Election && k < 12; k++ {
				r.Phase(i)
			}
		}
		s.DropAll()
	}
	// (10,0): nothing is delivered
	step(all)
	s.DropAll()
	for _, i := range all {
		for k := 0; k < 12; k++ {
			if r.Phase(i).After == bft.Election {
				break
			}
		}
	}
	s.DropAll()
	// (10,1): X certified, the PRECOMMIT reaches only the `old` replicas
	for k := 0; k < 4; k++ {
		step(all)
		deliver(nil)
	}
	step(inRound(1)) // PRECOMMIT
	deliver(func(e *bftsim.Envelope) bool { return in(old, e.To) })
	step(inRound(1)) // PRECOMMIT_VOTE
	s.DropAll()
	toElection()
	for _, i := range all {
		r.Reset(i, 11)
	}
	// (11,0): the old locks are not heard; fresh Y certified; one other correct replica locks on it
	notOld := func(e *bftsim.Envelope) bool { return !in(old, e.From) }
	for k := 0; k < 4; k++ {
		step(all)
		deliver(notOld)
	}
	newLocker := -1
	for _, i := range all {
		if !in(old, i) && !in(crash, i) && i != s.FallbackLeader(11, 0) {
			newLocker = i
			break
		}
	}
	step(inRound(0)) // PRECOMMIT
	deliver(func(e *bftsim.Envelope) bool { return e.To == newLocker })
	step(inRound(0)) // PRECOMMIT_VOTE
	s.DropAll()
	toElection()
	states := ""
	for _, i := range all {
		if !in(crash, i) {
			states += fmt.Sprintf(" %d:[%s]", i, s.State(i))
		}
	}
	var live []int
	for _, i := range all {
		if !in(crash, i) {
			live = append(live, i)
		}
	}
	rounds, n2 := 0, 0
	for ; n2 == 0 && rounds < 4; rounds++ {
		round := s.Nodes[live[0]].B.Round
		for k := 0; k < 9 && honestCommits(s) == 0; k++ {
			moved := false
			for _, i := range live {
				if b := s.Nodes[i].B; !c01.Committed(s, i) && !(b.Phase == bft.Election && b.Round > round) {
					r.Phase(i)
					moved = true
				}
			}
			deliver(func(e *bftsim.Envelope) bool { return !in(crash, e.To) })
			if !moved {
				break
			}
		}
		n2 = honestCommits(s)
	}
	verdict(o, r, "C15:no-commit-after-gst:lock-order-across-root-heights",
		"a lock from (10,1) must yield to the lock from (11,0) that the leader ranks highest", n2 > 0 && rounds == 1,
		fmt.Sprintf("before synchrony:%s; committed after +%d rounds: %s", states, rounds-1, c01.CommitsStr(s)))
	r.End()
}
