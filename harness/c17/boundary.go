package c17

import (
	"bytes"
	"fmt"
	"strings"

	"github.com/canopy-network/canopy/p2p"

	"verifharness/drv"
)

// counterBoundaryCases — permanent scenario `replay-across-counter-boundary` and the nonce sweep.
//
// Real EncryptedConn pair created by the real handshake over the fault interposer. An early session
// frame E (frame counter k) is recorded by the on-path attacker and consumed by the reader. Then both
// ends of the direction are fast-forwarded (hook VerifSetCounters) to B-1-m for a boundary B, honest
// traffic crosses B, and the attacker substitutes E for the genuine frame at the position where the
// counter WOULD be k again if it started over at B (index m+1+k after the fast-forward: counters
// B-1-m … B, 1, 2 … k). Oracle: Read never returns bytes that were not written at that stream position
// (the prefix oracle of every read), exactly the frames before the substituted one are delivered, then
// an error. Signature C17:frame-replayed-across-counter-boundary:<B>.
//
// B = 2^64-1 is the wrap the code itself documents ("should never happen"): there the unchanged code
// does start over at 1, which no connection can reach (2^64 frames); the scenario runs it, compares it
// with the model (whose incrementNonce is generated from the source), records it as the documented
// observation and does NOT count it as a failure — the theorems carry the bound explicitly.
func counterBoundaryCases(o *drv.Out) {
	type bnd struct {
		name string
		b    uint64
		doc  bool
	}
	bounds := []bnd{{"2^32", 1<<32 - 1, false}, {"2^63", 1 << 63, false}, {"2^31", 1<<31 - 1, false}, {"2^16", 1<<16 - 1, false}, {"2^64-1", ^uint64(0), true}}
	// ---- replay across the boundary on real connections
	for _, bd := range bounds {
		for _, m := range []uint64{0, 1, 3} {
			name := fmt.Sprintf("replay-across-counter-boundary-%s-m%d", bd.name, m)
			o.Case(name)
			s := newStream(o)
			s.sigOverride = "C17:frame-replayed-across-counter-boundary:" + bd.name
			s.noPrefixFail = bd.doc
			k, _ := s.a.VerifCounters() // counter of the early frame (the handshake used the ones before)
			s.write(7, 40)              // E: history index 0
			s.read(64)
			c0 := bd.b - 1 - m
			_, ar := s.a.VerifCounters()
			bs, _ := s.b.VerifCounters()
			s.a.VerifSetCounters(c0, ar)
			s.b.VerifSetCounters(bs, c0)
			s.op(fmt.Sprintf("set-counters %d", c0), "ok")
			idx := int(m) + 1 + int(k)
			var counters []string
			for i := 0; i < idx+3; i++ {
				sc, _ := s.a.VerifCounters()
				counters = append(counters, fmt.Sprint(sc))
				s.write(20+i, 11+i) // one frame each, all different
			}
			// the attacker substitutes the recorded early frame for the genuine one at position idx
			s.replay(0, idx)
			s.drop(idx + 1)
			expect := 40
			for i := 0; i < idx; i++ {
				expect += 11 + i
			}
			s.drain([]int{64}, 40)
			for i := 0; i < 4; i++ {
				s.read(64)
			}
			delivered := len(s.got)
			foreign := !bytes.HasPrefix(s.written, s.got)
			switch {
			case bd.doc:
				// the documented wrap: recorded as an observation only, the model must agree
				if foreign {
					o.Count("counter-boundary:2^64-1:documented-wrap-replay-accepted")
				}
			case foreign || delivered != expect || !s.errored:
				o.Fail(s.sigOverride, fmt.Sprintf("counters fast-forwarded to %d (B = %s = %d, m = %d); frame counters of the following writes: %s; the frame recorded at counter %d was put in place of write #%d: %d bytes delivered, %d expected before the error, foreign bytes delivered: %v, read error seen: %v",
					c0, bd.name, bd.b, m, strings.Join(counters, ","), k, idx, delivered, expect, foreign, s.errored), s.ops)
			}
			o.Count("counter-boundary:" + bd.name)
			o.Nontrivial(name)
			if m == 1 && bd.name == "2^32" {
				o.Sample(name + ": " + strings.Join(s.ops, "; "))
			}
		}
	}
	// ---- direct sweep of the real incrementNonce around each boundary (through the hook)
	o.Case("nonce-sweep")
	for _, bd := range bounds {
		c := bd.b - 6
		for i := 0; i < 14; i++ {
			next := p2p.VerifIncrementNonce(c)
			o.Op(fmt.Sprintf("inc %d", c), fmt.Sprint(next))
			o.Count("op:inc")
			if next <= c {
				if bd.doc && c == ^uint64(0) {
					o.Count("counter-boundary:2^64-1:documented-wrap-observed")
				} else {
					// ORACLE: below 2^64-1 the frame counter only ever grows — a value can never come back
					o.Fail("C17:nonce-counter-starts-over:"+bd.name, fmt.Sprintf("incrementNonce(%d) = %d: the counter of a direction starts over, every nonce used since the handshake will be used again under the same key", c, next), map[string]any{"counter": c, "next": next})
				}
			}
			c = next
		}
	}
}
