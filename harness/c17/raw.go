// Package c17 is the correspondence driver for C17 (encrypted transport). Everything on the honest
// side is the REAL code (p2p.NewHandshake, EncryptedConn.Read/Write); this file is the *other* side:
// an independent implementation of the wire protocol (key swap, HKDF, sealed frames, length-prefixed
// proto messages) built only from the exported primitives of lib/crypto. It is what the interposer,
// the relays and the malformed-traffic cases are made of.
package c17

import (
	"bytes"
	"crypto/cipher"
	"encoding/binary"
	"errors"
	"io"
	"net"
	"time"

	"github.com/canopy-network/canopy/lib"
	"github.com/canopy-network/canopy/lib/crypto"
	"google.golang.org/protobuf/proto"
)

// Raw is a hand-driven endpoint of the transport protocol.
type Raw struct {
	Conn       net.Conn
	Send, Recv cipher.AEAD
	SN, RN     uint64 // frame counters (the nonce is 4 zero bytes ‖ le64 counter)
	Challenge  [32]byte
	EphPub     []byte // own ephemeral public key
	PeerEph    []byte
	unread     []byte
}

func nonceOf(counter uint64) []byte {
	n := make([]byte, crypto.AEADNonceSize)
	binary.LittleEndian.PutUint64(n[4:], counter)
	return n
}

// sendLP / recvLP: 4-byte big-endian length prefix + payload (p2p.sendLengthPrefixed).
func sendLP(w io.Writer, bz []byte) error {
	hdr := make([]byte, 4)
	binary.BigEndian.PutUint32(hdr, uint32(len(bz)))
	_, err := w.Write(append(hdr, bz...))
	return err
}

func recvLP(r io.Reader) ([]byte, error) {
	hdr := make([]byte, 4)
	if _, err := io.ReadFull(r, hdr); err != nil {
		return nil, err
	}
	n := binary.BigEndian.Uint32(hdr)
	if n > 1<<21 {
		return nil, errors.New("raw: oversized length prefix")
	}
	bz := make([]byte, n)
	if _, err := io.ReadFull(r, bz); err != nil {
		return nil, err
	}
	return bz, nil
}

// KeySwap performs the plaintext ephemeral key exchange with the given ephemeral private key
// (fresh when nil) and derives the two AEADs and the challenge exactly as NewHandshake does.
// If ephPubOverride is non-nil it is what is put on the wire instead of the own public key
// (used by relays that forward somebody else's ephemeral key; no keys can be derived then).
func KeySwap(conn net.Conn, eph crypto.PrivateKeyI, timeout time.Duration) (*Raw, error) {
	if eph == nil {
		eph, _ = crypto.NewEd25519PrivateKey()
	}
	r := &Raw{Conn: conn, EphPub: eph.PublicKey().Bytes()}
	_ = conn.SetDeadline(time.Now().Add(timeout))
	defer conn.SetDeadline(time.Time{})
	bz, _ := lib.Marshal(&crypto.ProtoPubKey{Pubkey: r.EphPub})
	errc := make(chan error, 1)
	go func() { errc <- sendLP(conn, bz) }()
	in, err := recvLP(conn)
	if err != nil {
		return nil, err
	}
	if err = <-errc; err != nil {
		return nil, err
	}
	peer := new(crypto.ProtoPubKey)
	if e := lib.Unmarshal(in, peer); e != nil {
		return nil, e
	}
	r.PeerEph = peer.Pubkey
	secret, err := crypto.SharedSecret(r.PeerEph, eph.Bytes())
	if err != nil {
		return nil, err
	}
	s, rc, ch, err := crypto.HKDFSecretsAndChallenge(secret, r.EphPub, r.PeerEph)
	if err != nil {
		return nil, err
	}
	r.Send, r.Recv, r.Challenge = s, rc, *ch
	return r, nil
}

// SealFrame builds one encrypted frame carrying chunk (len ≤ MaxDataSize) under the given counter;
// hdr overrides the length header when ≥ 0 (malformed-frame cases). Padding is zero.
func (r *Raw) SealFrame(chunk []byte, counter uint64, hdr int64) []byte {
	plain := make([]byte, crypto.FrameSize)
	h := uint32(len(chunk))
	if hdr >= 0 {
		h = uint32(hdr)
	}
	binary.LittleEndian.PutUint32(plain, h)
	copy(plain[crypto.LengthHeaderSize:], chunk)
	return r.Send.Seal(nil, nonceOf(counter), plain, nil)
}

// Write sends data as frames exactly like EncryptedConn.Write (independent re-implementation).
func (r *Raw) Write(data []byte) (int, error) {
	n := 0
	for len(data) > 0 {
		k := len(data)
		if k > crypto.MaxDataSize {
			k = crypto.MaxDataSize
		}
		if _, err := r.Conn.Write(r.SealFrame(data[:k], r.SN, -1)); err != nil {
			return n, err
		}
		r.SN++
		n += k
		data = data[k:]
	}
	return n, nil
}

// OpenFrame decrypts one frame under the given counter and returns (chunk, padding).
func (r *Raw) OpenFrame(frame []byte, counter uint64) (chunk, pad []byte, err error) {
	plain, err := r.Recv.Open(nil, nonceOf(counter), frame, nil)
	if err != nil {
		return nil, nil, err
	}
	l := binary.LittleEndian.Uint32(plain)
	if l > crypto.MaxDataSize {
		return nil, nil, errors.New("raw: chunk larger than max")
	}
	return plain[4 : 4+l], plain[4+l:], nil
}

func (r *Raw) Read(p []byte) (int, error) {
	if len(r.unread) == 0 {
		frame := make([]byte, crypto.EncryptedFrameSize)
		if _, err := io.ReadFull(r.Conn, frame); err != nil {
			return 0, err
		}
		chunk, _, err := r.OpenFrame(frame, r.RN)
		if err != nil {
			return 0, err
		}
		r.RN++
		r.unread = chunk
	}
	n := copy(p, r.unread)
	r.unread = r.unread[n:]
	return n, nil
}

func (r *Raw) SendMsg(m proto.Message) error {
	bz, e := lib.Marshal(m)
	if e != nil {
		return e
	}
	return sendLP(r, bz)
}

func (r *Raw) RecvMsg(m proto.Message) error {
	bz, err := recvLP(r)
	if err != nil {
		return err
	}
	if e := lib.Unmarshal(bz, m); e != nil {
		return e
	}
	return nil
}

// Authenticate runs the in-channel part of the handshake as an honest peer with identity key id:
// signature swap over the challenge, then signed meta swap. It returns what the remote presented.
func (r *Raw) Authenticate(id crypto.PrivateKeyI, meta *lib.PeerMeta, timeout time.Duration) (*lib.Signature, *lib.PeerMeta, error) {
	_ = r.Conn.SetDeadline(time.Now().Add(timeout))
	defer r.Conn.SetDeadline(time.Time{})
	errc := make(chan error, 1)
	go func() {
		errc <- r.SendMsg(&lib.Signature{PublicKey: id.PublicKey().Bytes(), Signature: id.Sign(r.Challenge[:])})
	}()
	peerSig := new(lib.Signature)
	if err := r.RecvMsg(peerSig); err != nil {
		return nil, nil, err
	}
	if err := <-errc; err != nil {
		return nil, nil, err
	}
	go func() { errc <- r.SendMsg(meta.Copy().Sign(id)) }()
	peerMeta := new(lib.PeerMeta)
	if err := r.RecvMsg(peerMeta); err != nil {
		return peerSig, nil, err
	}
	if err := <-errc; err != nil {
		return peerSig, nil, err
	}
	return peerSig, peerMeta, nil
}

// RecvLP / SendLP: the 4-byte big-endian length-prefixed message framing of p2p (exported for C18).
func RecvLP(r io.Reader) ([]byte, error)  { return recvLP(r) }
func SendLP(w io.Writer, bz []byte) error { return sendLP(w, bz) }

var _ = bytes.Equal
