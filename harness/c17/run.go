package c17

import (
	"bytes"
	"crypto/sha256"
	"encoding/hex"
	"errors"
	"fmt"
	"io"
	"strings"
	"sync"
	"time"

	"github.com/canopy-network/canopy/lib"
	"github.com/canopy-network/canopy/lib/crypto"
	"github.com/canopy-network/canopy/p2p"

	"verifharness/drv"
)

// Pattern is the deterministic test pattern shared with the Lean driver (Transport.pattern).
func Pattern(seed, n int) []byte {
	b := make([]byte, n)
	for i := range b {
		b[i] = byte((seed + i*7 + i/251) % 256)
	}
	return b
}

// Canon: short byte strings in hex, long ones as len:first 8 bytes of SHA-256 (Driver.C17.canon).
func Canon(b []byte) string {
	if len(b) <= 24 {
		return drv.Hex(b)
	}
	h := sha256.Sum256(b)
	return fmt.Sprintf("%d:%s", len(b), hex.EncodeToString(h[:8]))
}

type hsResult struct {
	c *p2p.EncryptedConn
	e lib.ErrorI
}

// Handshake runs the REAL p2p.NewHandshake on both ends of a fresh duplex.
func Handshake(idA, idB crypto.PrivateKeyI, metaA, metaB *lib.PeerMeta) (a, b hsResult, ab, ba *Pipe) {
	ca, cb, ab, ba := NewDuplex("A", "B")
	ab.Record, ba.Record = true, true
	var wg sync.WaitGroup
	wg.Add(2)
	go func() { defer wg.Done(); a.c, a.e = p2p.NewHandshake(ca, metaA, idA) }()
	go func() { defer wg.Done(); b.c, b.e = p2p.NewHandshake(cb, metaB, idB) }()
	wg.Wait()
	return
}

func readErrName(err error) string {
	var le lib.ErrorI
	if errors.As(err, &le) {
		switch le.Code() {
		case lib.CodeConnDecrypt:
			return "err:decrypt"
		case lib.CodeChunkLargerThanMax:
			return "err:too-large"
		}
		return fmt.Sprintf("err:code-%d", le.Code())
	}
	switch {
	case errors.Is(err, ErrWouldBlock):
		return "blocked"
	case errors.Is(err, io.EOF):
		return "err:eof"
	case errors.Is(err, io.ErrUnexpectedEOF):
		return "err:short"
	}
	return "err:other:" + strings.ReplaceAll(err.Error(), " ", "_")
}

// stream is one direction A -> B of a REAL established EncryptedConn pair with the interposer's hands on the wire.
type stream struct {
	o            *drv.Out
	a, b         *p2p.EncryptedConn
	raw          *Raw // when the sender is hand-driven (malformed frames by a key holder)
	wire         *Pipe
	rev          *Pipe       // the opposite direction
	hs           [2][][]byte // ciphertext frames recorded during the encrypted part of the handshake: [0] this direction, [1] the opposite one
	hsFault      bool
	sigOverride  string // scenario-specific signature for the prefix oracle
	noPrefixFail bool   // the documented 2^64-1 wrap: observation, not a failure
	sizes        []int  // chunk size of every honest frame ever written on this direction (independent of the code: min(1024, rest))
	written      []byte
	got          []byte
	faulted      bool
	errored      bool
	ops          []string
}

func (s *stream) op(op, res string) {
	s.ops = append(s.ops, op+" -> "+res)
	s.o.Op(op, res)
}

func (s *stream) write(seed, n int) {
	data := Pattern(seed, n)
	before := s.wire.Len()
	var wn int
	var err error
	if s.raw != nil {
		wn, err = s.raw.Write(data)
	} else {
		wn, err = s.a.Write(data)
	}
	res := fmt.Sprintf("ok %d %d", wn, s.wire.Len()-before)
	if err != nil {
		res = "err:write"
	}
	s.written = append(s.written, data...)
	for rest := n; rest > 0; rest -= crypto.MaxDataSize {
		s.sizes = append(s.sizes, min(rest, crypto.MaxDataSize))
	}
	s.op(fmt.Sprintf("w %d %d", seed, n), res)
	s.o.Count("op:write")
	switch {
	case n == 0:
		s.o.Count("write:empty")
	case n%crypto.MaxDataSize == 0:
		s.o.Count("write:multiple-of-frame")
	case n < crypto.MaxDataSize:
		s.o.Count("write:sub-frame")
	default:
		s.o.Count("write:multi-frame")
	}
}

func (s *stream) read(n int) string {
	buf := make([]byte, n)
	k, err := s.b.Read(buf)
	var res string
	if err != nil {
		res = readErrName(err)
		if k != 0 {
			s.o.Fail("C17:data-returned-with-error", fmt.Sprintf("Read returned %d bytes together with %v", k, err), s.ops)
		}
	} else {
		res = "data " + Canon(buf[:k])
		s.got = append(s.got, buf[:k]...)
		// ORACLE (independent of the model): whatever is delivered is a prefix of what was written
		if !bytes.HasPrefix(s.written, s.got) {
			sig := "C17:delivered-not-prefix-of-written"
			if s.hsFault {
				sig = "C17:handshake-frame-replayed-as-data"
			}
			if s.sigOverride != "" {
				sig = s.sigOverride
			}
			if !s.noPrefixFail {
				s.o.Fail(sig, fmt.Sprintf("after %d delivered bytes the stream is no longer a prefix of the %d written", len(s.got), len(s.written)), s.ops)
			}
		}
	}
	s.op(fmt.Sprintf("r %d", n), res)
	s.o.Count("op:read")
	s.o.Count("read:" + strings.SplitN(res, " ", 2)[0])
	if strings.HasPrefix(res, "err") {
		s.errored = true
	}
	return res
}

func (s *stream) fault(op string, f func(p *Pipe) bool) {
	ok := false
	n := 0
	s.wire.With(func(p *Pipe) { ok = f(p); n = len(p.Items) })
	if ok {
		s.op(op, fmt.Sprintf("ok %d", n))
		s.faulted = true
	} else {
		s.op(op, "bad-index")
	}
	s.o.Count("fault:" + strings.SplitN(op, " ", 2)[0])
}

func insertAt(items [][]byte, i int, x []byte) [][]byte {
	out := make([][]byte, 0, len(items)+1)
	out = append(out, items[:i]...)
	out = append(out, append([]byte(nil), x...))
	return append(out, items[i:]...)
}

func (s *stream) flip(i, bit int) {
	s.fault(fmt.Sprintf("flip %d %d", i, bit), func(p *Pipe) bool {
		if i >= len(p.Items) {
			return false
		}
		c := append([]byte(nil), p.Items[i]...)
		c[(bit/8)%len(c)] ^= 1 << uint(bit%8)
		p.Items[i] = c
		return true
	})
}
func (s *stream) swap(i, j int) {
	s.fault(fmt.Sprintf("swap %d %d", i, j), func(p *Pipe) bool {
		if i >= len(p.Items) || j >= len(p.Items) {
			return false
		}
		p.Items[i], p.Items[j] = p.Items[j], p.Items[i]
		return true
	})
}
func (s *stream) dup(i int) {
	s.fault(fmt.Sprintf("dup %d", i), func(p *Pipe) bool {
		if i >= len(p.Items) {
			return false
		}
		p.Items = insertAt(p.Items, i, p.Items[i])
		return true
	})
}
func (s *stream) replay(h, j int) {
	s.fault(fmt.Sprintf("replay %d %d", h, j), func(p *Pipe) bool {
		if h >= len(p.Hist) || j > len(p.Items) {
			return false
		}
		p.Items = insertAt(p.Items, j, p.Hist[h])
		return true
	})
}
func (s *stream) drop(i int) {
	s.fault(fmt.Sprintf("drop %d", i), func(p *Pipe) bool {
		if i >= len(p.Items) {
			return false
		}
		p.Items = append(append([][]byte(nil), p.Items[:i]...), p.Items[i+1:]...)
		return true
	})
}
func (s *stream) inject(i int) {
	s.fault(fmt.Sprintf("inject %d", i), func(p *Pipe) bool {
		if i > len(p.Items) {
			return false
		}
		p.Items = insertAt(p.Items, i, drv.Bytes(s.o.Rng, crypto.EncryptedFrameSize))
		return true
	})
}
func (s *stream) trunc(i int, mid bool) {
	m := 0
	if mid {
		m = 1
	}
	s.fault(fmt.Sprintf("trunc %d %d", i, m), func(p *Pipe) bool {
		if i > len(p.Items) {
			return false
		}
		keep := append([][]byte(nil), p.Items[:i]...)
		if mid && i < len(p.Items) {
			cut := 1 + s.o.Rng.Intn(crypto.EncryptedFrameSize-1)
			keep = append(keep, append([]byte(nil), p.Items[i][:cut]...))
		}
		p.Items = keep
		p.Closed = true
		return true
	})
}
func (s *stream) closeWire() {
	s.fault("close", func(p *Pipe) bool { p.Closed = true; return true })
}

// replayHs splices a frame recorded during the HANDSHAKE of this connection into the data phase.
func (s *stream) replayHs(dir, i, j int) {
	s.hsFault = true
	s.fault(fmt.Sprintf("replay-hs %d %d %d", dir, i, j), func(p *Pipe) bool {
		if i >= len(s.hs[dir]) || j > len(p.Items) {
			return false
		}
		p.Items = insertAt(p.Items, j, s.hs[dir][i])
		return true
	})
}

// otherKey splices in a frame of the OPPOSITE direction of the same session (sealed under the other key).
func (s *stream) otherKey(i int, frame []byte) {
	s.fault(fmt.Sprintf("other-key %d", i), func(p *Pipe) bool {
		if i > len(p.Items) {
			return false
		}
		p.Items = insertAt(p.Items, i, frame)
		return true
	})
}

// finish: ORACLE — after a fault, a caller that stops at the first error must have received only a
// prefix; and an un-faulted, fully drained stream must have delivered everything.
func (s *stream) finish(drained bool) {
	if !s.faulted && drained && !bytes.Equal(s.got, s.written) {
		s.o.Fail("C17:stream-incomplete", fmt.Sprintf("no fault, wire drained, but %d of %d bytes delivered", len(s.got), len(s.written)), s.ops)
	}
	if !s.faulted && s.errored {
		s.o.Fail("C17:error-without-fault", "a read failed although the wire was untouched", s.ops)
	}
}

var ids struct {
	once    sync.Once
	A, B, M crypto.PrivateKeyI
}

func identities() (a, b, m crypto.PrivateKeyI) {
	ids.once.Do(func() {
		ids.A, _ = crypto.NewBLS12381PrivateKey()
		ids.B, _ = crypto.NewBLS12381PrivateKey()
		ids.M, _ = crypto.NewEd25519PrivateKey()
	})
	return ids.A, ids.B, ids.M
}

func meta(n, c uint64) *lib.PeerMeta { return &lib.PeerMeta{NetworkId: n, ChainId: c} }

// newStream establishes a REAL connection pair by the real handshake and returns the A->B direction.
func newStream(o *drv.Out) *stream {
	idA, idB, _ := identities()
	a, b, ab, ba := Handshake(idA, idB, meta(1, 1), meta(1, 1))
	if a.e != nil || b.e != nil {
		panic(fmt.Sprintf("honest handshake failed: %v %v", a.e, b.e))
	}
	s := &stream{o: o, a: a.c, b: b.c, wire: ab, rev: ba}
	// what an on-path observer recorded during the handshake: item 0 of each direction is the clear-text
	// ephemeral key, the rest are the sealed signature and meta frames
	for d, p := range []*Pipe{ab, ba} {
		p.With(func(p *Pipe) {
			for _, it := range p.Hist {
				if len(it) == crypto.EncryptedFrameSize {
					s.hs[d] = append(s.hs[d], it)
				}
			}
			p.Hist = nil
			p.NonBlock = true
		})
	}
	return s
}

// newRawStream: B is the real EncryptedConn (after a real handshake), the sender is the hand-driven
// key holder `Raw` (it can emit frames EncryptedConn.Write never would).
func newRawStream(o *drv.Out) *stream {
	_, idB, idM := identities()
	cm, cb, mb, bm := NewDuplex("M", "B")
	var b hsResult
	done := make(chan struct{})
	go func() { b.c, b.e = p2p.NewHandshake(cb, meta(1, 1), idB); close(done) }()
	r, err := KeySwap(cm, nil, time.Second)
	if err != nil {
		panic(err)
	}
	if _, _, err = r.Authenticate(idM, meta(1, 1), time.Second); err != nil {
		panic(err)
	}
	<-done
	if b.e != nil {
		panic(b.e)
	}
	mb.With(func(p *Pipe) { p.NonBlock, p.Record = true, true })
	bm.With(func(p *Pipe) { p.NonBlock, p.Record = true, true })
	return &stream{o: o, b: b.c, raw: r, wire: mb, rev: bm}
}

var writeSizes = []int{0, 1, 2, 3, 511, 1023, 1024, 1025, 2047, 2048, 2049, 3071, 3072, 3073}
var readSizes = []int{1, 2, 3, 7, 512, 1023, 1024, 1025, 2048, 4096}

func (s *stream) drain(bufs []int, maxReads int) (drained bool) {
	for i := 0; i < maxReads; i++ {
		res := s.read(bufs[i%len(bufs)])
		if res == "blocked" {
			return true
		}
		if strings.HasPrefix(res, "err") {
			return false
		}
	}
	return false
}

// Run is the C17 driver.
func Run(o *drv.Out) {
	consts(o)
	gridCases(o)
	randomStreams(o)
	faultCases(o)
	handshakeReplayCases(o)
	counterBoundaryCases(o)
	rawFrameCases(o)
	handshakeCases(o)
}

func consts(o *drv.Out) {
	o.Case("constants")
	for _, c := range []struct {
		n string
		v int
	}{{"MaxDataSize", crypto.MaxDataSize}, {"LengthHeaderSize", crypto.LengthHeaderSize}, {"FrameSize", crypto.FrameSize},
		{"EncryptedFrameSize", crypto.EncryptedFrameSize}, {"ChallengeSize", crypto.ChallengeSize}, {"AEADKeySize", crypto.AEADKeySize},
		{"AEADNonceSize", crypto.AEADNonceSize}, {"HKDFSize", crypto.HKDFSize}} {
		o.Op("const "+c.n, fmt.Sprint(c.v))
	}
}

// gridCases: every write size of the grid against every read-buffer size, one write per case, then
// a two-write variant so that leftovers straddle writes.
func gridCases(o *drv.Out) {
	for _, w := range writeSizes {
		for _, r := range readSizes {
			if r < 7 && w > 1100 && o.Tier == "quick" {
				continue // tiny buffers on large writes: thorough only
			}
			o.Case(fmt.Sprintf("grid-w%d-r%d", w, r))
			s := newStream(o)
			s.write(w+r, w)
			d := s.drain([]int{r}, w/r+8)
			s.finish(d)
			o.Nontrivial(fmt.Sprintf("grid %d %d", w, r))
		}
	}
	for i, w1 := range writeSizes {
		w2 := writeSizes[(i*5+3)%len(writeSizes)]
		for _, r := range []int{7, 1000, 1024, 1500} {
			o.Case(fmt.Sprintf("grid2-w%d+%d-r%d", w1, w2, r))
			s := newStream(o)
			s.write(1, w1)
			s.write(2, w2)
			s.read(0) // zero-length buffer: pulls a frame, returns nothing, holds everything back
			d := s.drain([]int{r, 1, r}, (w1+w2)/2+10)
			s.finish(d)
			o.Nontrivial(fmt.Sprintf("grid2 %d %d %d", w1, w2, r))
		}
	}
}

func pick(o *drv.Out, xs []int) int { return xs[o.Rng.Intn(len(xs))] }

func randSize(o *drv.Out) int {
	switch o.Rng.Intn(6) {
	case 0:
		return pick(o, writeSizes)
	case 1:
		return o.Rng.Intn(40)
	case 2:
		return crypto.MaxDataSize*(1+o.Rng.Intn(3)) + o.Rng.Intn(3) - 1
	default:
		return o.Rng.Intn(3500)
	}
}

// randomStreams: arbitrary interleavings of writes and reads on an untouched wire.
func randomStreams(o *drv.Out) {
	n := 150
	if o.Tier == "thorough" {
		n = 1500
	}
	for c := 0; c < n; c++ {
		o.Case(fmt.Sprintf("stream-%d", c))
		s := newStream(o)
		steps := 3 + o.Rng.Intn(14)
		desc := ""
		for i := 0; i < steps; i++ {
			if o.Rng.Intn(5) < 2 {
				sz := randSize(o)
				s.write(o.Rng.Intn(256), sz)
				desc += fmt.Sprintf("w%d ", sz)
			} else {
				r := pick(o, readSizes)
				if o.Rng.Intn(12) == 0 {
					r = 0
				}
				if o.Rng.Intn(4) == 0 {
					r = 1 + o.Rng.Intn(5000)
				}
				s.read(r)
				desc += fmt.Sprintf("r%d ", r)
			}
		}
		d := s.drain([]int{4096, 1000, 333}, len(s.written)/300+10)
		s.finish(d)
		if len(s.written) > crypto.MaxDataSize {
			o.Nontrivial("stream " + desc)
		}
		if c < 2 {
			o.Sample("stream: " + strings.Join(s.ops, "; "))
		}
	}
}

var bitGrid = []int{0, 1, 7, 8, 31, 32, 33, 4 * 8, 100 * 8, 1027*8 + 7, 1028 * 8, 1028*8 + 1, 1036 * 8, 1043*8 + 6, 1043*8 + 7}

// faultCases: a few frames in flight, ONE fault at every frame index (and a grid of bit positions for
// flips), then the reader drains with a caller that stops at the first error.
func faultCases(o *drv.Out) {
	type mk func(s *stream, i int)
	layouts := [][]int{{1, 1024, 5}, {2048, 7}, {3000}, {1024, 1024, 1024}}
	if o.Tier == "thorough" {
		layouts = append(layouts, []int{1, 2, 3, 4, 5, 6}, []int{5000}, []int{1023, 1025, 1})
	}
	for li, lay := range layouts {
		nframes := 0
		for _, w := range lay {
			nframes += (w + crypto.MaxDataSize - 1) / crypto.MaxDataSize
		}
		setup := func(name string) *stream {
			o.Case(name)
			s := newStream(o)
			// one earlier frame already consumed, so that replay has history outside the wire
			s.write(99, 10)
			s.read(64)
			for k, w := range lay {
				s.write(10+k, w)
			}
			return s
		}
		run := func(name string, f func(s *stream)) {
			s := setup(fmt.Sprintf("fault-l%d-%s", li, name))
			// snapshot of the honest wire, then the fault
			var want [][]byte
			s.wire.With(func(p *Pipe) { want = append([][]byte(nil), p.Items...) })
			consumed := len(s.sizes) - len(want) // honest frames the reader has already taken
			f(s)
			var have [][]byte
			closed := false
			s.wire.With(func(p *Pipe) { have, closed = append([][]byte(nil), p.Items...), p.Closed })
			k := 0 // longest unmodified in-order prefix
			for k < len(have) && k < len(want) && bytes.Equal(have[k], want[k]) {
				k++
			}
			expect := 0
			for _, sz := range s.sizes[:consumed+k] {
				expect += sz
			}
			bufs := []int{pick(o, readSizes), pick(o, readSizes)}
			s.drain(bufs, 4000)
			// ORACLE (independent of the model): exactly the plaintext of the intact prefix, then an error
			if len(s.got) != expect {
				o.Fail("C17:tamper-wrong-delivery", fmt.Sprintf("%s: intact prefix %d frames = %d bytes, delivered %d", name, k, expect, len(s.got)), s.ops)
			}
			if (k < len(have) || closed) && !s.errored {
				o.Fail("C17:tamper-not-detected", fmt.Sprintf("%s: wire deviates at frame %d but no read error", name, k), s.ops)
			}
			if k == len(have) && !closed && s.errored {
				o.Fail("C17:error-on-intact-wire", name, s.ops)
			}
			// a caller that ignores the error and reads on must still only ever see a prefix (checked in read)
			for k := 0; k < 6; k++ {
				s.read(2048)
			}
			s.finish(false)
			o.Nontrivial("fault " + name + fmt.Sprint(lay))
			if len(o.Samples) < 8 && li == 0 {
				o.Sample(name + ": " + strings.Join(s.ops, "; "))
			}
		}
		for i := 0; i < nframes; i++ {
			bits := bitGrid
			if o.Tier == "quick" && li > 0 {
				bits = []int{0, 1028 * 8, 1043*8 + 7, o.Rng.Intn(1044 * 8)}
			}
			for _, bit := range bits {
				i, bit := i, bit
				run(fmt.Sprintf("flip-%d-%d", i, bit), func(s *stream) { s.flip(i, bit) })
			}
			i := i
			run(fmt.Sprintf("drop-%d", i), func(s *stream) { s.drop(i) })
			run(fmt.Sprintf("dup-%d", i), func(s *stream) { s.dup(i) })
			run(fmt.Sprintf("inject-%d", i), func(s *stream) { s.inject(i) })
			run(fmt.Sprintf("trunc-%d", i), func(s *stream) { s.trunc(i, false) })
			run(fmt.Sprintf("truncmid-%d", i), func(s *stream) { s.trunc(i, true) })
			run(fmt.Sprintf("otherkey-%d", i), func(s *stream) {
				// a genuine frame of the B->A direction of the same session
				_, _ = s.b.Write([]byte("reverse"))
				s.otherKey(i, s.reverseFrame())
			})
			for j := 0; j < nframes; j++ {
				if j != i {
					i, j := i, j
					run(fmt.Sprintf("swap-%d-%d", i, j), func(s *stream) { s.swap(i, j) })
				}
			}
			for h := 0; h <= nframes; h++ { // history index 0 is the already consumed frame
				i, h := i, h
				run(fmt.Sprintf("replay-%d-at-%d", h, i), func(s *stream) { s.replay(h, i) })
			}
		}
		run("inject-end", func(s *stream) { s.inject(nframes) })
		run("replay-end", func(s *stream) { s.replay(0, nframes) })
		run("close", func(s *stream) { s.closeWire() })
		run("none", func(s *stream) {})
	}
	// random multi-fault schedules
	n := 60
	if o.Tier == "thorough" {
		n = 600
	}
	for c := 0; c < n; c++ {
		o.Case(fmt.Sprintf("faults-%d", c))
		s := newStream(o)
		for k := 0; k < 1+o.Rng.Intn(3); k++ {
			s.write(o.Rng.Intn(256), randSize(o))
		}
		if o.Rng.Intn(2) == 0 {
			s.read(pick(o, readSizes))
		}
		desc := ""
		for k := 0; k < 1+o.Rng.Intn(4); k++ {
			l := s.wire.Len() + 1
			switch o.Rng.Intn(8) {
			case 0:
				s.flip(o.Rng.Intn(l), o.Rng.Intn(1044*8))
				desc += "flip "
			case 1:
				s.swap(o.Rng.Intn(l), o.Rng.Intn(l))
				desc += "swap "
			case 2:
				s.dup(o.Rng.Intn(l))
				desc += "dup "
			case 3:
				s.replay(o.Rng.Intn(l+1), o.Rng.Intn(l))
				desc += "replay "
			case 4:
				s.drop(o.Rng.Intn(l))
				desc += "drop "
			case 5:
				s.inject(o.Rng.Intn(l))
				desc += "inject "
			case 6:
				s.trunc(o.Rng.Intn(l), o.Rng.Intn(2) == 0)
				desc += "trunc "
				k = 99 // the stream has ended (possibly inside a frame): only whole frames may still be spliced in
				if o.Rng.Intn(2) == 0 {
					s.replay(o.Rng.Intn(l+1), s.wire.Len())
					desc += "replay-after-end "
				}
			default:
				s.write(o.Rng.Intn(256), randSize(o))
				desc += "write "
			}
		}
		for k := 0; k < 12; k++ {
			s.read(pick(o, readSizes))
		}
		s.finish(false)
		o.Nontrivial(fmt.Sprintf("faults %s %d", desc, len(s.written)))
	}
}

// handshakeReplayCases: the on-path attacker recorded the sealed signature / meta frames of the
// handshake (both directions) and splices one of them into the session: at session positions 0, 1, 2, 3
// of a fresh session (so that frame #i also lands on ITS OWN index i) and behind already consumed
// frames. Every such frame must be a read error; nothing but session bytes may be delivered.
func handshakeReplayCases(o *drv.Out) {
	o.Case("hs-frames-recorded")
	probe := newStream(o)
	o.Op("const handshakeFrames", fmt.Sprint(len(probe.hs[0])))
	if len(probe.hs[0]) != len(probe.hs[1]) {
		o.Fail("C17:handshake-frame-count-asymmetric", fmt.Sprint(len(probe.hs[0]), len(probe.hs[1])), nil)
	}
	for dir := 0; dir < 2; dir++ {
		for i := 0; i < len(probe.hs[dir]); i++ {
			for _, consumed := range []int{0, 1, 2} {
				for j := 0; j <= 3; j++ {
					name := fmt.Sprintf("hsreplay-d%d-f%d-after%d-at%d", dir, i, consumed, j)
					o.Case(name)
					s := newStream(o)
					for c := 0; c < consumed; c++ {
						s.write(90+c, 9+c)
						s.read(64)
					}
					s.write(1, 10)
					s.write(2, 1024)
					s.write(3, 7)
					var want [][]byte
					s.wire.With(func(p *Pipe) { want = append([][]byte(nil), p.Items...) })
					before := len(s.sizes) - len(want)
					s.replayHs(dir, i, j)
					expect := 0
					for _, sz := range s.sizes[:before+j] {
						expect += sz
					}
					s.drain([]int{pick(o, readSizes), 2048}, 4000)
					if len(s.got) != expect {
						o.Fail("C17:handshake-frame-replayed-as-data", fmt.Sprintf("%s: %d session bytes precede the replayed frame, %d delivered before the first error", name, expect, len(s.got)), s.ops)
					}
					if !s.errored {
						o.Fail("C17:handshake-frame-replayed-as-data", name+": the replayed handshake frame caused no read error", s.ops)
					}
					for k := 0; k < 5; k++ {
						s.read(2048) // a caller that reads on must still only ever see session bytes (checked in read)
					}
					o.Count("fault:replay-hs-position")
					o.Nontrivial("hsreplay " + name)
					if dir == 0 && i == 0 && consumed == 0 && j == 0 {
						o.Sample(name + ": " + strings.Join(s.ops, "; "))
					}
				}
			}
		}
	}
}

// reverseFrame takes the frame B just wrote towards A off the reverse wire.
func (s *stream) reverseFrame() []byte {
	var fr []byte
	s.rev.With(func(p *Pipe) {
		if len(p.Items) > 0 {
			fr = p.Items[len(p.Items)-1]
			p.Items = p.Items[:len(p.Items)-1]
		}
	})
	if fr == nil {
		panic("no reverse frame")
	}
	return fr
}

// rawFrameCases: the sender holds the key but does not follow Write (header larger than the maximum,
// zero-length chunk, header shorter than the data): the reader's header check is compared.
func rawFrameCases(o *drv.Out) {
	for i, c := range []struct{ hdr, n int }{{0, 0}, {0, 5}, {3, 10}, {1024, 1024}, {1025, 1024}, {1 << 20, 3}, {1<<32 - 1, 0}, {7, 7}} {
		o.Case(fmt.Sprintf("rawframe-%d", i))
		s := newRawStream(o)
		s.write(5, 9)
		data := Pattern(i, c.n)
		fr := s.raw.SealFrame(data, s.raw.SN, int64(c.hdr))
		s.raw.SN++
		if _, err := s.raw.Conn.Write(fr); err != nil {
			panic(err)
		}
		s.faulted = true // not an honest Write: the prefix oracle does not apply to this case
		s.o.Op(fmt.Sprintf("rawframe %d %d %d", c.hdr, c.n, i), fmt.Sprintf("ok %d", s.wire.Len()))
		s.write(6, 20)
		for k := 0; k < 5; k++ {
			buf := make([]byte, 2000)
			n, err := s.b.Read(buf)
			res := ""
			if err != nil {
				res = readErrName(err)
			} else {
				res = "data " + Canon(buf[:n])
			}
			s.o.Op("r 2000", res)
			o.Count("read:" + strings.SplitN(res, " ", 2)[0])
		}
		o.Nontrivial(fmt.Sprintf("rawframe %d %d", c.hdr, c.n))
	}
}
