package c17

import (
	"errors"
	"io"
	"net"
	"os"
	"sync"
	"time"
)

// ErrWouldBlock is what a non-blocking MemConn returns when nothing is in flight: the real
// EncryptedConn.Read would block here; the driver reports `blocked`.
var ErrWouldBlock = errors.New("memconn: would block")

// Pipe is one direction of an in-memory duplex connection. Every Write call is kept as one item, so
// the interposer sees the ciphertext frames exactly as EncryptedConn.Write emitted them.
type Pipe struct {
	mu       sync.Mutex
	cond     *sync.Cond
	Items    [][]byte // in flight
	Hist     [][]byte // every item ever written (for replay faults)
	Closed   bool
	NonBlock bool
	Record   bool
	deadline time.Time
	Cap      int           // >0: Write blocks while len(Items) >= Cap (back-pressure, used by C18)
	Delay    time.Duration // per-item delivery delay applied by Read (throttled link, used by C18)
}

func NewPipe() *Pipe {
	p := &Pipe{}
	p.cond = sync.NewCond(&p.mu)
	return p
}

func (p *Pipe) write(b []byte, wdeadline *time.Time) (int, error) {
	p.mu.Lock()
	defer p.mu.Unlock()
	for p.Cap > 0 && len(p.Items) >= p.Cap && !p.Closed {
		if !wdeadline.IsZero() && !time.Now().Before(*wdeadline) {
			return 0, os.ErrDeadlineExceeded
		}
		p.cond.Wait()
	}
	if p.Closed {
		return 0, io.ErrClosedPipe
	}
	c := append([]byte(nil), b...)
	p.Items = append(p.Items, c)
	if p.Record {
		p.Hist = append(p.Hist, c)
	}
	p.cond.Broadcast()
	return len(b), nil
}

func (p *Pipe) read(b []byte) (int, error) {
	p.mu.Lock()
	defer p.mu.Unlock()
	for len(p.Items) == 0 {
		if p.Closed {
			return 0, io.EOF
		}
		if p.NonBlock {
			return 0, ErrWouldBlock
		}
		if !p.deadline.IsZero() && !time.Now().Before(p.deadline) {
			return 0, os.ErrDeadlineExceeded
		}
		p.cond.Wait()
	}
	if p.Delay > 0 {
		d := p.Delay
		p.mu.Unlock()
		time.Sleep(d)
		p.mu.Lock()
		if len(p.Items) == 0 {
			return 0, io.EOF
		}
	}
	n := copy(b, p.Items[0])
	if n == len(p.Items[0]) {
		p.Items = p.Items[1:]
		p.cond.Broadcast()
	} else {
		p.Items[0] = p.Items[0][n:]
	}
	return n, nil
}

func (p *Pipe) setDeadline(t time.Time) {
	p.mu.Lock()
	p.deadline = t
	p.mu.Unlock()
	if !t.IsZero() {
		d := time.Until(t)
		if d < 0 {
			d = 0
		}
		time.AfterFunc(d+time.Millisecond, func() { p.mu.Lock(); p.cond.Broadcast(); p.mu.Unlock() })
	} else {
		p.mu.Lock()
		p.cond.Broadcast()
		p.mu.Unlock()
	}
}

func (p *Pipe) Close() {
	p.mu.Lock()
	p.Closed = true
	p.cond.Broadcast()
	p.mu.Unlock()
}

// Len is the number of items in flight.
func (p *Pipe) Len() int { p.mu.Lock(); defer p.mu.Unlock(); return len(p.Items) }

// With runs f with exclusive access to the pipe (the interposer's hands).
func (p *Pipe) With(f func(p *Pipe)) {
	p.mu.Lock()
	f(p)
	p.cond.Broadcast()
	p.mu.Unlock()
}

type memAddr string

func (a memAddr) Network() string { return "mem" }
func (a memAddr) String() string  { return string(a) }

// MemConn is one end of the duplex: reads from In, writes to Out.
type MemConn struct {
	In, Out *Pipe
	name    string
	wmu     sync.Mutex
	wdl     time.Time
}

func (c *MemConn) Read(b []byte) (int, error) { return c.In.read(b) }
func (c *MemConn) Write(b []byte) (int, error) {
	c.wmu.Lock()
	dl := c.wdl
	c.wmu.Unlock()
	return c.Out.write(b, &dl)
}
func (c *MemConn) Close() error                  { c.In.Close(); c.Out.Close(); return nil }
func (c *MemConn) LocalAddr() net.Addr           { return memAddr(c.name) }
func (c *MemConn) RemoteAddr() net.Addr          { return memAddr("peer-of-" + c.name) }
func (c *MemConn) SetDeadline(t time.Time) error { c.SetReadDeadline(t); return c.SetWriteDeadline(t) }
func (c *MemConn) SetReadDeadline(t time.Time) error {
	c.In.setDeadline(t)
	return nil
}
func (c *MemConn) SetWriteDeadline(t time.Time) error {
	c.wmu.Lock()
	c.wdl = t
	c.wmu.Unlock()
	if !t.IsZero() {
		d := time.Until(t)
		if d < 0 {
			d = 0
		}
		time.AfterFunc(d+time.Millisecond, func() { c.Out.mu.Lock(); c.Out.cond.Broadcast(); c.Out.mu.Unlock() })
	}
	return nil
}

// NewDuplex returns two connected ends and the two directions (aToB carries what a writes).
func NewDuplex(nameA, nameB string) (a, b *MemConn, aToB, bToA *Pipe) {
	aToB, bToA = NewPipe(), NewPipe()
	a = &MemConn{In: bToA, Out: aToB, name: nameA}
	b = &MemConn{In: aToB, Out: bToA, name: nameB}
	return
}
