package c17

import (
	"fmt"
	"sync"
	"time"

	"github.com/canopy-network/canopy/lib"
	"github.com/canopy-network/canopy/lib/crypto"

	"verifharness/drv"
)

// warmVerifierCases — the "warm verifier" dimension of the handshake attack scenarios.
//
// Every PublicKeyI.VerifyBytes consults the process-wide signature cache. Before the attack the victim
// node verifies — through the real VerifyBytes path — GENUINE signatures of identity X over OTHER
// messages: 32-byte ones (the size of the handshake challenge: a VRF-style seed, another session's
// challenge) and messages of lengths around the signature sizes. The attacker then knows only public
// material (X's public key, those signatures, X's static signed PeerMeta) and runs the stale-signature /
// key-substitution handshake against the real NewHandshake.
//
// Oracle = `auth`: NewHandshake succeeding with identity X implies X's key signed THIS session's
// challenge. Signature C17:identity-accepted-without-challenge-signature:warm-cache.
func warmVerifierCases(o *drv.Out, emit func(name, op, res string), begin func(name string), nm namer) {
	idA, idB, idM := identities()
	idE, _ := crypto.NewEd25519PrivateKey()
	if crypto.DisableCache {
		o.Count("warm:signature-cache-disabled")
	}
	attack := func(name, op string, x crypto.PrivateKeyI, sig []byte, warmMsg []byte) {
		begin(name)
		// the victim's process has verified (and remembers) this genuine signature over warmMsg
		pub := x.PublicKey()
		if !pub.VerifyBytes(warmMsg, sig) || !pub.VerifyBytes(warmMsg, sig) {
			o.Fail("C17:genuine-signature-rejected", name, nil)
		}
		ca, ma, _, _ := NewDuplex("A", "M")
		ra := real(ca, idA, meta(1, 1))
		go func() {
			r, err := KeySwap(ma, nil, hsTimeout)
			if err != nil {
				return
			}
			ma.SetDeadline(time.Now().Add(hsTimeout))
			_ = r.SendMsg(&lib.Signature{PublicKey: pub.Bytes(), Signature: sig}) // public material only
			_ = r.RecvMsg(new(lib.Signature))
			_ = r.SendMsg(meta(1, 1).Sign(x)) // X's static signed PeerMeta, as X hands it to every peer
			_ = r.RecvMsg(new(lib.PeerMeta))
		}()
		a := <-ra
		ma.Close()
		res := "A=" + nm.show(a)
		if a.e == nil {
			o.Fail("C17:identity-accepted-without-challenge-signature:warm-cache",
				fmt.Sprintf("%s: the victim had verified a genuine signature of the identity over a DIFFERENT %d-byte message; a peer holding no private key presented that public key with that signature and the identity's static signed PeerMeta; NewHandshake returned nil error recording the identity", name, len(warmMsg)),
				map[string]any{"scenario": op, "identity_key_bytes": len(pub.Bytes()), "signature_bytes": len(sig), "warm_message_bytes": len(warmMsg), "challenge_bytes": crypto.ChallengeSize,
					"steps": []string{"victim process: pub.VerifyBytes(otherMessage, sig) == true (genuine, now cached)", "attacker: key swap with a fresh ephemeral key", "attacker: Signature{PublicKey: pub, Signature: sig} inside the channel", "attacker: the identity's static signed PeerMeta"}})
		}
		emit(name, op, res)
	}
	for _, id := range []struct {
		n string
		k crypto.PrivateKeyI
	}{{"bls", idB}, {"ed25519", idE}} {
		for _, l := range []int{31, 32, 33, 63, 64, 65, 95, 96, 97, 128} {
			msg := drv.Bytes(o.Rng, l)
			msg[0] = byte(l) // never equal to a challenge by accident
			attack(fmt.Sprintf("stalesig-warm-%s-%d", id.n, l), fmt.Sprintf("hs stalesig-warm %s %d", id.n, l), id.k, id.k.Sign(msg), msg)
		}
	}
	// another SESSION's challenge: B's genuine signature from its session with M, verified beforehand
	{
		cb, mb, _, _ := NewDuplex("B", "M")
		rb := real(cb, idB, meta(1, 1))
		x, err := KeySwap(mb, nil, hsTimeout)
		var stale *lib.Signature
		if err == nil {
			mb.SetDeadline(time.Now().Add(hsTimeout))
			stale, _, _ = x.Authenticate(idM, meta(1, 1), hsTimeout)
		}
		<-rb
		if stale != nil {
			attack("stalesig-warm-session", "hs stalesig-warm-session", idB, stale.Signature, x.Challenge[:])
		}
	}
	// key-substituting relay forwarding the identity messages, with the relay's observations verified first
	{
		begin("keysub-forward-warm")
		ca, ma, _, _ := NewDuplex("A", "Ma")
		mb, cb, _, _ := NewDuplex("Mb", "B")
		ra, rb := real(ca, idA, meta(1, 1)), real(cb, idB, meta(1, 1))
		var xa, xb *Raw
		var wg sync.WaitGroup
		wg.Add(2)
		go func() { defer wg.Done(); xa, _ = KeySwap(ma, nil, hsTimeout) }()
		go func() { defer wg.Done(); xb, _ = KeySwap(mb, nil, hsTimeout) }()
		wg.Wait()
		ma.SetDeadline(time.Now().Add(hsTimeout))
		mb.SetDeadline(time.Now().Add(hsTimeout))
		wg.Add(2)
		cross := func(from, to *Raw) {
			defer wg.Done()
			sig := new(lib.Signature)
			if from.RecvMsg(sig) != nil {
				return
			}
			// anyone can verify the signature it saw over the challenge of ITS session: the process remembers it
			if pk, err := crypto.NewPublicKeyFromBytes(sig.PublicKey); err == nil {
				pk.VerifyBytes(from.Challenge[:], sig.Signature)
			}
			if to.SendMsg(sig) != nil {
				return
			}
			pm := new(lib.PeerMeta)
			if from.RecvMsg(pm) != nil || to.SendMsg(pm) != nil {
				return
			}
		}
		go cross(xa, xb)
		go cross(xb, xa)
		a, b := <-ra, <-rb
		ma.Close()
		mb.Close()
		wg.Wait()
		res := "A=" + nm.show(a) + " B=" + nm.show(b)
		if a.e == nil || b.e == nil {
			o.Fail("C17:identity-accepted-without-challenge-signature:warm-cache", "keysub-forward-warm: "+res, "key-substituting relay forwarding identity messages, signatures verified (cached) under their own session's challenge first")
		}
		emit("keysub-forward-warm", "hs keysub-forward-warm", res)
	}
}
