package c17

import (
	"bytes"
	"fmt"
	"io"
	"sync"
	"time"

	"github.com/canopy-network/canopy/lib"
	"github.com/canopy-network/canopy/lib/crypto"
	"github.com/canopy-network/canopy/p2p"

	"verifharness/drv"
)

const hsTimeout = 1500 * time.Millisecond

func hsErrName(e lib.ErrorI) string {
	switch e.Code() {
	case lib.CodeBlacklisted, lib.CodeFailedDiffieHellman:
		return "err:bad-eph"
	case lib.CodeSignatureSwap:
		return "err:sigswap"
	case lib.CodeInvalidPeerPublicKey:
		return "err:invalid-pub"
	case lib.CodeFailedChallenge:
		return "err:challenge"
	case lib.CodeMetaSwap:
		return "err:metaswap"
	case lib.CodeIncompatiblePeer:
		return "err:incompatible"
	}
	return fmt.Sprintf("err:code-%d", e.Code())
}

type namer struct{ a, b, m []byte }

func (n namer) who(pub []byte) string {
	switch {
	case bytes.Equal(pub, n.a):
		return "A"
	case bytes.Equal(pub, n.b):
		return "B"
	case bytes.Equal(pub, n.m):
		return "M"
	}
	return "?"
}

func (n namer) show(r hsResult) string {
	if r.e != nil {
		return hsErrName(r.e)
	}
	return "ok:" + n.who(r.c.Address.PublicKey)
}

// real starts the REAL NewHandshake on conn and delivers the result.
func real(conn *MemConn, id crypto.PrivateKeyI, m *lib.PeerMeta) chan hsResult {
	ch := make(chan hsResult, 1)
	go func() {
		var r hsResult
		r.c, r.e = p2p.NewHandshake(conn, m, id)
		ch <- r
	}()
	return ch
}

// relayBytes copies items from one pipe end to another until closed (a transparent relay).
func relayItems(from, to *MemConn, stop chan struct{}, hook func(n int, item []byte) []byte) {
	n := 0
	for {
		buf := make([]byte, 1<<16)
		k, err := from.Read(buf)
		if err != nil {
			return
		}
		item := buf[:k]
		if hook != nil {
			item = hook(n, item)
		}
		n++
		if item != nil {
			if _, err = to.Write(item); err != nil {
				return
			}
		}
		select {
		case <-stop:
			return
		default:
		}
	}
}

// handshakeCases: every scenario is one op line; the result is what the REAL NewHandshake returned
// on each honest end. The oracle (independent of the model) is evaluated per scenario.
func handshakeCases(o *drv.Out) {
	idA, idB, idM := identities()
	nm := namer{idA.PublicKey().Bytes(), idB.PublicKey().Bytes(), idM.PublicKey().Bytes()}
	rep := 1
	if o.Tier == "thorough" {
		rep = 5
	}
	begin := func(name string) { o.Case("hs-" + name) }
	emit := func(name, op, res string) {
		o.Op(op, res)
		o.Count("hs:" + name)
		o.Count("hs-result:" + res)
		o.Nontrivial("hs " + op + " " + res)
		o.Sample(op + " -> " + res)
	}

	// 1. honest endpoints, all combinations of equal / different network and chain ids
	for _, c := range [][4]uint64{{1, 1, 1, 1}, {1, 1, 2, 1}, {1, 1, 1, 2}, {7, 9, 7, 9}, {0, 0, 0, 0}, {1, 2, 2, 1}, {0, 1, 0, 0}} {
		begin(fmt.Sprintf("honest-%d-%d-%d-%d", c[0], c[1], c[2], c[3]))
		a, b, _, _ := Handshake(idA, idB, meta(c[0], c[1]), meta(c[2], c[3]))
		res := "A=" + nm.show(a) + " B=" + nm.show(b)
		same := c[0] == c[2] && c[1] == c[3]
		if (a.e == nil || b.e == nil) && !same {
			o.Fail("C17:handshake-accepts-other-network-or-chain", fmt.Sprintf("metas %v: %s", c, res), c)
		}
		if same && (a.e != nil || b.e != nil) {
			o.Fail("C17:honest-handshake-fails", res, c)
		}
		emit(fmt.Sprintf("honest-%d-%d-%d-%d", c[0], c[1], c[2], c[3]), fmt.Sprintf("hs honest %d %d %d %d", c[0], c[1], c[2], c[3]), res)
	}

	warmVerifierCases(o, emit, begin, nm)

	for r := 0; r < rep; r++ {
		// 2. transparent relay: every byte forwarded unchanged — both ends authenticate each other
		{
			begin("relay")
			ca, ma, _, _ := NewDuplex("A", "Ma")
			mb, cb, _, _ := NewDuplex("Mb", "B")
			ra, rb := real(ca, idA, meta(1, 1)), real(cb, idB, meta(1, 1))
			stop := make(chan struct{})
			go relayItems(ma, mb, stop, nil)
			go relayItems(mb, ma, stop, nil)
			a, b := <-ra, <-rb
			close(stop)
			ma.Close()
			mb.Close()
			res := "A=" + nm.show(a) + " B=" + nm.show(b)
			if a.e != nil || b.e != nil || nm.who(a.c.Address.PublicKey) != "B" || nm.who(b.c.Address.PublicKey) != "A" {
				o.Fail("C17:relay-breaks-honest-handshake", res, nil)
			}
			emit("relay", "hs relay", res)
		}

		// 3. key-substituting relay that forwards the identity messages: two handshakes back to back,
		// M opens each side's Signature / PeerMeta with the keys it shares with that side and re-seals
		// them for the other side. Neither end may accept the other's identity.
		{
			begin("keysub-forward")
			ca, ma, _, _ := NewDuplex("A", "Ma")
			mb, cb, _, _ := NewDuplex("Mb", "B")
			ra, rb := real(ca, idA, meta(1, 1)), real(cb, idB, meta(1, 1))
			var xa, xb *Raw
			var wg sync.WaitGroup
			wg.Add(2)
			go func() { defer wg.Done(); xa, _ = KeySwap(ma, nil, hsTimeout) }()
			go func() { defer wg.Done(); xb, _ = KeySwap(mb, nil, hsTimeout) }()
			wg.Wait()
			ma.SetDeadline(time.Now().Add(hsTimeout))
			mb.SetDeadline(time.Now().Add(hsTimeout))
			wg.Add(2)
			cross := func(from, to *Raw) {
				defer wg.Done()
				sig := new(lib.Signature)
				if from.RecvMsg(sig) != nil || to.SendMsg(sig) != nil {
					return
				}
				pm := new(lib.PeerMeta)
				if from.RecvMsg(pm) != nil || to.SendMsg(pm) != nil {
					return
				}
			}
			go cross(xa, xb)
			go cross(xb, xa)
			a, b := <-ra, <-rb
			ma.Close()
			mb.Close()
			wg.Wait()
			res := "A=" + nm.show(a) + " B=" + nm.show(b)
			if a.e == nil || b.e == nil {
				o.Fail("C17:mitm-key-substitution-accepted", res, "key-substituting relay forwarding identity messages")
			}
			emit("keysub-forward", "hs keysub-forward", res)
		}

		// 4. key-substituting relay that authenticates as ITSELF on both sides: allowed, but each end
		// must record M, never the other end.
		{
			begin("keysub-own")
			ca, ma, _, _ := NewDuplex("A", "Ma")
			mb, cb, _, _ := NewDuplex("Mb", "B")
			ra, rb := real(ca, idA, meta(1, 1)), real(cb, idB, meta(1, 1))
			for _, c := range []*MemConn{ma, mb} {
				c := c
				go func() {
					if x, err := KeySwap(c, nil, hsTimeout); err == nil {
						_, _, _ = x.Authenticate(idM, meta(1, 1), hsTimeout)
					}
				}()
			}
			a, b := <-ra, <-rb
			res := "A=" + nm.show(a) + " B=" + nm.show(b)
			if (a.e == nil && nm.who(a.c.Address.PublicKey) != "M") || (b.e == nil && nm.who(b.c.Address.PublicKey) != "M") {
				o.Fail("C17:mitm-recorded-as-other-endpoint", res, nil)
			}
			emit("keysub-own", "hs keysub-own", res)
		}

		// 5. REFLECTION: an intermediary with NO identity key completes the key swap with its own
		// ephemeral key, opens A's Signature and PeerMeta messages and sends them straight back.
		{
			begin("reflect")
			ca, ma, _, _ := NewDuplex("A", "M")
			ra := real(ca, idA, meta(1, 1))
			go func() {
				x, err := KeySwap(ma, nil, hsTimeout)
				if err != nil {
					return
				}
				ma.SetDeadline(time.Now().Add(hsTimeout))
				sig := new(lib.Signature)
				if x.RecvMsg(sig) != nil || x.SendMsg(sig) != nil {
					return
				}
				pm := new(lib.PeerMeta)
				if x.RecvMsg(pm) != nil || x.SendMsg(pm) != nil {
					return
				}
			}()
			a := <-ra
			ma.Close()
			res := "A=refused"
			if a.e == nil {
				res = "A=ok:" + nm.who(a.c.Address.PublicKey)
				// ORACLE: the peer held no identity key at all, yet the handshake succeeded
				o.Fail("C17:handshake-reflection-accepts-own-identity",
					"an intermediary without any identity key reflected A's own Signature and PeerMeta messages; NewHandshake returned nil error with Address.PublicKey = A's OWN key",
					map[string]any{"scenario": "hs reflect", "accepted_identity": lib.BytesToString(a.c.Address.PublicKey), "own_identity": lib.BytesToString(nm.a),
						"steps": []string{"A: real p2p.NewHandshake(conn, meta{1,1}, idA)", "M: key swap with a fresh ephemeral key (no identity key)",
							"M: derive secret, HKDF keys as NewHandshake does", "M: open A's Signature frame, re-seal the same message towards A", "M: open A's PeerMeta frame, re-seal the same message towards A"}})
			}
			emit("reflect", "hs reflect", res)
		}

		// 6-9. a hand-driven peer (M) against the real A
		rawCase := func(name, op string, f func(x *Raw)) {
			begin(name)
			ca, ma, _, _ := NewDuplex("A", "M")
			ra := real(ca, idA, meta(1, 1))
			go func() {
				x, err := KeySwap(ma, nil, hsTimeout)
				if err != nil {
					return
				}
				ma.SetDeadline(time.Now().Add(hsTimeout))
				f(x)
			}()
			a := <-ra
			ma.Close()
			res := "A=" + nm.show(a)
			if a.e == nil && name != "metaraw-same" {
				o.Fail("C17:handshake-accepts-unproven-identity", name+": "+res, op)
			}
			emit(name, op, res)
		}
		rawCase("wrongsig", "hs wrongsig", func(x *Raw) {
			_ = x.SendMsg(&lib.Signature{PublicKey: nm.b, Signature: idM.Sign(x.Challenge[:])})
			_ = x.RecvMsg(new(lib.Signature))
			_ = x.SendMsg(meta(1, 1).Sign(idB))
		})
		// B's genuine signature from another session (B signed the challenge of its session with M)
		var stale *lib.Signature
		{
			cb, mb, _, _ := NewDuplex("B", "M")
			rb := real(cb, idB, meta(1, 1))
			x, err := KeySwap(mb, nil, hsTimeout)
			if err == nil {
				mb.SetDeadline(time.Now().Add(hsTimeout))
				stale, _, _ = x.Authenticate(idM, meta(1, 1), hsTimeout)
			}
			<-rb
		}
		if stale != nil {
			rawCase("stalesig", "hs stalesig", func(x *Raw) {
				_ = x.SendMsg(stale)
				_ = x.RecvMsg(new(lib.Signature))
				_ = x.SendMsg(meta(1, 1).Sign(idB))
			})
		}
		rawCase("metaforged", "hs metaforged", func(x *Raw) {
			_ = x.SendMsg(&lib.Signature{PublicKey: nm.m, Signature: idM.Sign(x.Challenge[:])})
			_ = x.RecvMsg(new(lib.Signature))
			_ = x.SendMsg(meta(1, 1).Sign(idB)) // signed by B's key, presented by M
			_ = x.RecvMsg(new(lib.PeerMeta))
		})
		for _, nc := range [][2]uint64{{1, 1}, {2, 1}, {1, 2}} {
			nc := nc
			name := "metaraw"
			if nc == [2]uint64{1, 1} {
				name = "metaraw-same"
			}
			rawCase(name, fmt.Sprintf("hs metaraw %d %d", nc[0], nc[1]), func(x *Raw) { _, _, _ = x.Authenticate(idM, meta(nc[0], nc[1]), hsTimeout) })
		}
		rawCase("garbage-sigframe", "hs garbage-sigframe", func(x *Raw) {
			_, _ = x.Conn.Write(drv.Bytes(o.Rng, crypto.EncryptedFrameSize))
		})

		// 10. low-order / blacklisted ephemeral public keys
		for i := 0; i < 7; i++ {
			if r > 0 {
				break
			}
			begin(fmt.Sprintf("bad-eph-%d", i))
			ca, ma, _, _ := NewDuplex("A", "M")
			ra := real(ca, idA, meta(1, 1))
			bl := blacklist[i]
			go func() {
				bz, _ := lib.Marshal(&crypto.ProtoPubKey{Pubkey: bl[:]})
				go func() { _, _ = recvLP(ma) }()
				_ = sendLP(ma, bz)
			}()
			a := <-ra
			ma.Close()
			res := "A=" + nm.show(a)
			if a.e == nil {
				o.Fail("C17:low-order-ephemeral-accepted", res, i)
			}
			emit(fmt.Sprintf("bad-eph-%d", i), fmt.Sprintf("hs bad-eph %d", i), res)
		}

		// 11. transparent relay that returns A's own sealed identity frames to A (no key known):
		// the two directions use different keys, so the frames do not open.
		{
			begin("reflect-ciphertext")
			ca, ma, _, _ := NewDuplex("A", "Ma")
			mb, cb, _, _ := NewDuplex("Mb", "B")
			ra, rb := real(ca, idA, meta(1, 1)), real(cb, idB, meta(1, 1))
			stop := make(chan struct{})
			// item 0 in each direction is the clear-text ephemeral key; later items from A are reflected
			go relayItems(ma, mb, stop, func(n int, item []byte) []byte {
				if n == 0 {
					return item
				}
				_, _ = ma.Write(item) // back to A
				return nil
			})
			go relayItems(mb, ma, stop, func(n int, item []byte) []byte {
				if n == 0 {
					return item
				}
				return nil
			})
			a := <-ra
			ma.Close()
			mb.Close()
			<-rb
			close(stop)
			res := "A=" + nm.show(a)
			if a.e == nil {
				o.Fail("C17:ciphertext-reflection-accepted", res, nil)
			}
			emit("reflect-ciphertext", "hs reflect-ciphertext", res)
		}
	}
}

var blacklist = [][32]byte{
	{},
	{1},
	{0xe0, 0xeb, 0x7a, 0x7c, 0x3b, 0x41, 0xb8, 0xae, 0x16, 0x56, 0xe3, 0xfa, 0xf1, 0x9f, 0xc4, 0x6a, 0xda, 0x09, 0x8d, 0xeb, 0x9c, 0x32, 0xb1, 0xfd, 0x86, 0x62, 0x05, 0x16, 0x5f, 0x49, 0xb8, 0x00},
	{0x5f, 0x9c, 0x95, 0xbc, 0xa3, 0x50, 0x8c, 0x24, 0xb1, 0xd0, 0xb1, 0x55, 0x9c, 0x83, 0xef, 0x5b, 0x04, 0x44, 0x5c, 0xc4, 0x58, 0x1c, 0x8e, 0x86, 0xd8, 0x22, 0x4e, 0xdd, 0xd0, 0x9f, 0x11, 0x57},
	{0xec, 0xff, 0xff, 0xff, 0xff, 0xff, 0xff, 0xff, 0xff, 0xff, 0xff, 0xff, 0xff, 0xff, 0xff, 0xff, 0xff, 0xff, 0xff, 0xff, 0xff, 0xff, 0xff, 0xff, 0xff, 0xff, 0xff, 0xff, 0xff, 0xff, 0xff, 0x7f},
	{0xed, 0xff, 0xff, 0xff, 0xff, 0xff, 0xff, 0xff, 0xff, 0xff, 0xff, 0xff, 0xff, 0xff, 0xff, 0xff, 0xff, 0xff, 0xff, 0xff, 0xff, 0xff, 0xff, 0xff, 0xff, 0xff, 0xff, 0xff, 0xff, 0xff, 0xff, 0x7f},
	{0xee, 0xff, 0xff, 0xff, 0xff, 0xff, 0xff, 0xff, 0xff, 0xff, 0xff, 0xff, 0xff, 0xff, 0xff, 0xff, 0xff, 0xff, 0xff, 0xff, 0xff, 0xff, 0xff, 0xff, 0xff, 0xff, 0xff, 0xff, 0xff, 0xff, 0xff, 0x7f},
}

var _ = io.EOF
