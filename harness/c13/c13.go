// Package c13 drives the real committee derivation (fsm.GetCommitteeMembers / GetDelegates /
// LoadCommittee) on random validator populations and compares with the Lean model.
package c13

import (
	"crypto/ed25519"
	"crypto/sha256"

	"bytes"
	"fmt"
	ethcrypto "github.com/ethereum/go-ethereum/crypto"
	"sort"
	"strings"

	"github.com/canopy-network/canopy/fsm"
	"github.com/canopy-network/canopy/lib"
	"github.com/canopy-network/canopy/lib/crypto"

	"verifharness/drv"
	"verifharness/fsmutil"
)

type rec struct {
	v *fsm.Validator
}

func showSet(vs lib.ValidatorSet, err lib.ErrorI) string {
	if err != nil {
		return fmt.Sprintf("err:%d", err.Code())
	}
	var ms []string
	for _, m := range vs.ValidatorSet.ValidatorSet {
		ms = append(ms, fmt.Sprintf("%s:%d", drv.Hex(m.PublicKey), m.VotingPower))
	}
	return fmt.Sprintf("n=%d total=%d maj=%d members=%s", vs.NumValidators, vs.TotalPower, vs.MinimumMaj23, strings.Join(ms, ","))
}

// reference: the property evaluated directly on a raw validator scan (independent of the Lean model)
func refMembers(vals []*fsm.Validator, chain, cap uint64, delegate bool) []*fsm.Validator {
	var f []*fsm.Validator
	for _, v := range vals {
		if v.UnstakingHeight != 0 || v.MaxPausedHeight != 0 || v.Delegate != delegate {
			continue
		}
		in := chain == 0
		for _, c := range v.Committees {
			if c == chain {
				in = true
			}
		}
		if in {
			f = append(f, v)
		}
	}
	sort.SliceStable(f, func(i, j int) bool {
		if f[i].StakedAmount != f[j].StakedAmount {
			return f[i].StakedAmount > f[j].StakedAmount
		}
		return bytes.Compare(f[i].Address, f[j].Address) > 0
	})
	if cap > 0 && uint64(len(f)) > cap {
		f = f[:cap]
	}
	return f
}

func Run(o *drv.Out) {
	r := o.Rng
	ncases := 60
	if o.Tier == "thorough" {
		ncases = 600
	}
	keys := fsmutil.BLSKeys(24, o.Seed)
	var dpubs []crypto.PublicKeyI
	for i := 0; i < 6; i++ {
		seed := sha256.Sum256([]byte(fmt.Sprintf("c13-delegate-%d-%d", o.Seed, i)))
		var bz []byte
		if i%2 == 0 {
			bz = ed25519.NewKeyFromSeed(seed[:]).Public().(ed25519.PublicKey)
		} else {
			k, e := ethcrypto.ToECDSA(seed[:])
			if e != nil {
				panic(e)
			}
			bz = ethcrypto.CompressPubkey(&k.PublicKey)
		}
		pk, e := crypto.NewPublicKeyFromBytes(bz)
		if e != nil {
			panic(e)
		}
		dpubs = append(dpubs, pk)
	}
	for ci := 0; ci < ncases; ci++ {
		o.Case(fmt.Sprintf("%d", ci))
		gen := &fsm.GenesisState{Params: fsm.DefaultParams()}
		sm, db, cleanup, err := fsmutil.NewFSM(gen, 1)
		if err != nil {
			panic(err)
		}
		type snap struct {
			vals       []*fsm.Validator
			capV, capD uint64
		}
		snaps := map[uint64]snap{}
		cur := map[string]*fsm.Validator{}
		capV, capD := uint64(0), uint64(0)
		curList := func() []*fsm.Validator {
			var l []*fsm.Validator
			for _, v := range cur {
				l = append(l, v)
			}
			return l
		}
		stakePool := []uint64{0, 1, 5, 5, 5, 100, 100, 1 << 40, 1<<63 - 1, 1 << 63, ^uint64(0)}
		nvals := 1 + r.Intn(14)
		nsteps := 6 + r.Intn(10)
		heightNow := uint64(1)
		snaps[1] = snap{nil, 0, 0}
		setCaps := func() {
			p, e := sm.GetParamsVal()
			if e != nil {
				panic(e)
			}
			p.MaxCommitteeSize, p.MaximumDelegatesPerCommittee = capV, capD
			if e = sm.SetParamsVal(p); e != nil {
				panic(e)
			}
		}
		for step := 0; step < nsteps; step++ {
			switch k := r.Intn(10); {
			case k < 4: // upsert some validators
				for i := 0; i < 1+r.Intn(nvals); i++ {
					key := keys[r.Intn(len(keys))]
					pub := key.PublicKey()
					// delegates may stake with any supported key type (only committee members need BLS keys): a
					// separate pool of ed25519 / secp256k1 identities that are always delegates
					nonBLS := r.Intn(6) == 0
					if nonBLS {
						pub = dpubs[r.Intn(len(dpubs))]
						o.Count("validator:non-bls-delegate")
					}
					var stake uint64
					if r.Intn(3) == 0 {
						stake = uint64(r.Intn(7))
					} else {
						stake = stakePool[r.Intn(len(stakePool))]
					}
					if o.Tier == "quick" && stake >= 1<<62 && r.Intn(3) != 0 {
						stake = 100
					}
					var cs []uint64
					for c := uint64(1); c <= 3; c++ {
						if r.Intn(2) == 0 {
							cs = append(cs, c)
						}
					}
					if r.Intn(3) == 0 {
						cs = append(cs, uint64(4+r.Intn(60)))
					}
					// validators list their committees in the order they submitted them: any order
					r.Shuffle(len(cs), func(i, j int) { cs[i], cs[j] = cs[j], cs[i] })
					v := &fsm.Validator{Address: pub.Address().Bytes(), PublicKey: pub.Bytes(), StakedAmount: stake,
						Committees: cs, Output: pub.Address().Bytes(), Delegate: r.Intn(4) == 0 || nonBLS}
					if r.Intn(2) == 0 {
						// non-custodial: the payout address is unrelated to the operator address (and to its order)
						out := make([]byte, 20)
						for k := range out {
							out[k] = byte(r.Intn(256))
						}
						v.Output = out
						o.Count("validator:non-custodial")
					}
					if r.Intn(6) == 0 {
						v.MaxPausedHeight = uint64(1 + r.Intn(50))
					}
					if r.Intn(6) == 0 {
						v.UnstakingHeight = uint64(1 + r.Intn(50))
					}
					if e := sm.SetValidator(v); e != nil {
						panic(e)
					}
					cur[string(v.Address)] = v
					var csS []string
					for _, c := range cs {
						csS = append(csS, fmt.Sprint(c))
					}
					cstr := strings.Join(csS, ",")
					if cstr == "" {
						cstr = "-"
					}
					d := 0
					if v.Delegate {
						d = 1
					}
					o.Op(fmt.Sprintf("val %s %s %d %s %d %d %d", drv.Hex(v.Address), drv.Hex(v.PublicKey), stake, cstr, v.MaxPausedHeight, v.UnstakingHeight, d), "ok")
					o.Count("op:val")
				}
			case k < 5: // delete one
				for a, v := range cur {
					_ = v
					if e := sm.Delete(fsm.KeyForValidator(crypto.NewAddressFromBytes([]byte(a)))); e != nil {
						panic(e)
					}
					delete(cur, a)
					o.Op("delval "+drv.Hex([]byte(a)), "ok")
					o.Count("op:delval")
					break
				}
			case k < 8: // query current committee / delegates
				chain := uint64(r.Intn(4))
				delegate := r.Intn(3) == 0
				cp := uint64(r.Intn(6))
				if r.Intn(4) == 0 {
					cp = 0
				}
				// caps at the integer-width edges: every one of these means "more than any population"
				if r.Intn(6) == 0 {
					edges := []uint64{1<<31 - 1, 1 << 31, 1<<32 - 1, 1 << 32, 1<<63 - 1, 1 << 63, 1<<63 + 1, ^uint64(0) - 1, ^uint64(0)}
					cp = edges[r.Intn(len(edges))]
				}
				if delegate {
					capD = cp
				} else {
					capV = cp
				}
				setCaps()
				// the FSM caches the validator list per block; the harness writes records directly, so it
				// starts every query from a clean cache exactly as a new block does
				sm.ResetCaches()
				var res string
				var vs lib.ValidatorSet
				var e lib.ErrorI
				panicked := drv.Recover(func() string {
					if delegate {
						vs, e = sm.GetDelegates(chain)
					} else {
						vs, e = sm.GetCommitteeMembers(chain)
					}
					return ""
				})
				if panicked == "" {
					res = showSet(vs, e)
				} else {
					res = "panic"
					o.Fail("C13:committee-derivation-panics", fmt.Sprintf("committee derivation panicked with cap %d: %s", cp, panicked), map[string]any{"case": ci, "chain": chain, "cap": cp, "delegate": delegate})
				}
				d := 0
				if delegate {
					d = 1
				}
				op := fmt.Sprintf("members %d %d %d", chain, cp, d)
				o.Op(op, res)
				o.Count("op:members")
				if panicked != "" {
					continue
				}
				// oracle (independent of the model): exactly the top-`cap` eligible by (stake, address), power = stake,
				// threshold = floor(2T/3)+1 when 2T fits
				ref := refMembers(curList(), chain, cp, delegate)
				if e == nil {
					ok := len(ref) == len(vs.ValidatorSet.ValidatorSet)
					var T uint64
					for i := 0; ok && i < len(ref); i++ {
						m := vs.ValidatorSet.ValidatorSet[i]
						ok = bytes.Equal(m.PublicKey, ref[i].PublicKey) && m.VotingPower == ref[i].StakedAmount
					}
					fits := true
					for _, v := range ref {
						if T+v.StakedAmount < T {
							fits = false
						}
						T += v.StakedAmount
					}
					if !ok {
						o.Fail("C13:committee-not-topk", "committee differs from the highest-staked eligible validators", map[string]any{"case": ci, "op": op, "got": res})
					}
					if fits && T < 1<<63 && ok && vs.MinimumMaj23 != 2*T/3+1 {
						o.Fail("C13:threshold", fmt.Sprintf("MinimumMaj23=%d for total %d", vs.MinimumMaj23, T), map[string]any{"case": ci, "op": op})
					}
					if !fits || T >= 1<<63 {
						o.Count("oracle:power-sum-beyond-2^63")
					}
					ties := false
					for i := 1; i < len(ref); i++ {
						if ref[i].StakedAmount == ref[i-1].StakedAmount {
							ties = true
						}
					}
					if ties {
						o.Count("members:with-ties")
					}
					if len(ref) >= 2 {
						o.Nontrivial(fmt.Sprintf("%d|%s", ci, res))
					}
				} else {
					o.Count(fmt.Sprintf("members:err:%d", e.Code()))
					if len(ref) > 0 {
						var T uint64
						for _, v := range ref {
							T += v.StakedAmount
						}
						if T != 0 {
							o.Fail("C13:committee-error-on-nonempty", "eligible validators exist but the committee errored", map[string]any{"case": ci, "op": op, "got": res})
						}
					}
				}
				if ci < 2 {
					o.Sample(op + " -> " + res)
				}
				// within one block the node derives several sets from the same cached validator list
				// (committee of every chain, then the delegates, lottery winners …) with no cache reset in
				// between: follow up with more derivations on the same FSM, no reset, no writes
				for extra := r.Intn(3); extra > 0; extra-- {
					chain2 := uint64(r.Intn(4))
					del2 := r.Intn(2) == 0
					cp2 := capV
					if del2 {
						cp2 = capD
					}
					var vs2 lib.ValidatorSet
					var e2 lib.ErrorI
					if drv.Recover(func() string {
						if del2 {
							vs2, e2 = sm.GetDelegates(chain2)
						} else {
							vs2, e2 = sm.GetCommitteeMembers(chain2)
						}
						return ""
					}) != "" {
						o.Fail("C13:committee-derivation-panics", fmt.Sprintf("committee derivation panicked with cap %d", cp2), map[string]any{"case": ci, "chain": chain2, "cap": cp2, "delegate": del2})
						continue
					}
					d2 := 0
					if del2 {
						d2 = 1
					}
					op2 := fmt.Sprintf("members %d %d %d", chain2, cp2, d2)
					res2 := showSet(vs2, e2)
					o.Op(op2, res2)
					o.Count("op:members-same-block")
					ref2 := refMembers(curList(), chain2, cp2, del2)
					var want2 []string
					var T2 uint64
					for _, v := range ref2 {
						want2 = append(want2, fmt.Sprintf("%s:%d", drv.Hex(v.PublicKey), v.StakedAmount))
						T2 += v.StakedAmount
					}
					if e2 == nil && !strings.HasSuffix(res2, "members="+strings.Join(want2, ",")) ||
						e2 != nil && len(ref2) > 0 && T2 != 0 {
						o.Fail("C13:committee-not-topk:repeated-derivation", "a second derivation from the same cached validator list differs from the highest-staked eligible validators",
							map[string]any{"case": ci, "first": op, "op": op2, "got": res2, "want": want2})
					}
				}
			case k < 9: // commit a version
				if _, e := db.Commit(); e != nil {
					panic(e)
				}
				heightNow = db.Version()
				sm.VerifSetHeight(heightNow)
				cp := append([]*fsm.Validator{}, curList()...)
				snaps[heightNow] = snap{cp, capV, capD}
				o.Op("commit", fmt.Sprintf("v=%d", heightNow))
				o.Count("op:commit")
			default: // historical query, possibly after later history
				if heightNow < 2 {
					continue
				}
				h := uint64(1 + r.Intn(int(heightNow)))
				chain := uint64(r.Intn(4))
				res := drv.Recover(func() string { return showSet(sm.LoadCommittee(chain, h)) })
				op := fmt.Sprintf("membersAt %d %d", h, chain)
				o.Op(op, res)
				o.Count("op:membersAt")
				// oracle: equals the committee computed from the snapshot taken when h was committed
				s := snaps[h]
				ref := refMembers(s.vals, chain, s.capV, false)
				var want []string
				for _, v := range ref {
					want = append(want, fmt.Sprintf("%s:%d", drv.Hex(v.PublicKey), v.StakedAmount))
				}
				if !strings.HasPrefix(res, "err:") && !strings.HasSuffix(res, "members="+strings.Join(want, ",")) {
					o.Fail("C13:historical-committee-changed", fmt.Sprintf("LoadCommittee(%d,%d) differs from the committee at the time of commit", chain, h), map[string]any{"case": ci, "op": op, "got": res, "want": want})
				}
				o.Nontrivial(fmt.Sprintf("%d|%s|%s", ci, op, res))
			}
		}
		// scripted tail (every case): commit the population under one cap, change the cap (binding, then unlimited)
		// in later history, commit again, then re-query EVERY committed height for every chain — the past
		// committee must be the one derived under the cap in force at that height
		tail := func(kind int, a, b uint64) {
			switch kind {
			case 0: // members(chain=a, cap=b) on validators
				capV = b
				setCaps()
				sm.ResetCaches()
				vs, e := sm.GetCommitteeMembers(a)
				o.Op(fmt.Sprintf("members %d %d 0", a, b), showSet(vs, e))
				o.Count("op:members")
			case 1:
				if _, e := db.Commit(); e != nil {
					panic(e)
				}
				heightNow = db.Version()
				sm.VerifSetHeight(heightNow)
				snaps[heightNow] = snap{append([]*fsm.Validator{}, curList()...), capV, capD}
				o.Op("commit", fmt.Sprintf("v=%d", heightNow))
				o.Count("op:commit")
			case 2:
				res := drv.Recover(func() string { return showSet(sm.LoadCommittee(a, b)) })
				op := fmt.Sprintf("membersAt %d %d", b, a)
				o.Op(op, res)
				o.Count("op:membersAt")
				sn := snaps[b]
				ref := refMembers(sn.vals, a, sn.capV, false)
				var want []string
				for _, v := range ref {
					want = append(want, fmt.Sprintf("%s:%d", drv.Hex(v.PublicKey), v.StakedAmount))
				}
				if !strings.HasPrefix(res, "err:") && !strings.HasSuffix(res, "members="+strings.Join(want, ",")) {
					o.Fail("C13:historical-committee-changed", fmt.Sprintf("LoadCommittee(%d,%d) differs from the committee at the time of commit", a, b), map[string]any{"case": ci, "op": op, "got": res, "want": want})
				}
				o.Nontrivial(fmt.Sprintf("%d|%s|%s", ci, op, res))
			}
		}
		// LoadRootChainInfo(chain, h): what the root chain publishes to nested chains after each commit — the
		// committee of height h (0 = latest) and the committee of the height before it
		rootInfo := func(chain, h uint64) {
			res := drv.Recover(func() string {
				info, e := sm.LoadRootChainInfo(chain, h)
				if e != nil {
					return fmt.Sprintf("err:%d", e.Code())
				}
				show := func(cv *lib.ConsensusValidators) string {
					vs, e := lib.NewValidatorSet(cv, false)
					return showSet(vs, e)
				}
				return "cur " + show(info.ValidatorSet) + " last " + show(info.LastValidatorSet)
			})
			op := fmt.Sprintf("rootinfo %d %d", h, chain)
			o.Op(op, res)
			o.Count("op:rootinfo")
			hh := h
			if hh == 0 || hh > heightNow {
				hh = heightNow
			}
			last := uint64(1)
			if hh != 1 {
				last = hh - 1
			}
			want := func(at uint64) string {
				sn := snaps[at]
				var w []string
				for _, v := range refMembers(sn.vals, chain, sn.capV, false) {
					w = append(w, fmt.Sprintf("%s:%d", drv.Hex(v.PublicKey), v.StakedAmount))
				}
				return "members=" + strings.Join(w, ",")
			}
			if parts := strings.SplitN(res, " last ", 2); len(parts) == 2 && strings.HasPrefix(parts[0], "cur ") {
				okCur := strings.HasPrefix(parts[0], "cur err:") || strings.HasSuffix(parts[0], want(hh))
				okLast := strings.HasPrefix(parts[1], "err:") || strings.HasSuffix(parts[1], want(last))
				if !okCur || !okLast {
					o.Fail("C13:root-chain-info-committee-differs", fmt.Sprintf("LoadRootChainInfo(%d,%d): ValidatorSet / LastValidatorSet differ from the committees of heights %d / %d at the time of commit", chain, h, hh, last),
						map[string]any{"case": ci, "op": op, "got": res, "want_cur": want(hh), "want_last": want(last)})
				}
			}
			o.Nontrivial(fmt.Sprintf("%d|%s|%s", ci, op, res))
		}
		tail(0, 1, uint64(2+r.Intn(3)))
		tail(1, 0, 0)
		tail(0, 1, 1)
		tail(1, 0, 0)
		tail(0, uint64(1+r.Intn(3)), 0)
		tail(1, 0, 0)
		tail(0, 1, uint64(1+r.Intn(2)))
		for c := uint64(1); c <= 3; c++ {
			rootInfo(c, 0) // "latest", right after a block that changed the committee
			rootInfo(c, heightNow)
			if heightNow > 2 {
				rootInfo(c, uint64(1+r.Intn(int(heightNow))))
			}
		}
		for h := uint64(1); h <= heightNow; h++ {
			for c := uint64(0); c <= 3; c++ {
				if h+3 >= heightNow || r.Intn(3) == 0 {
					tail(2, c, h)
				}
			}
		}
		db.Close()
		cleanup()
	}
}
