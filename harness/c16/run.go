package c16

import (
	"bytes"
	"crypto/sha256"
	"fmt"
	"sort"
	"strings"

	"github.com/canopy-network/canopy/lib"
	"github.com/canopy-network/canopy/store"
	"github.com/cockroachdb/pebble/v2"
	"github.com/cockroachdb/pebble/v2/vfs"

	"verifharness/c08"
	"verifharness/drv"
)

// limiter keeps the first few oracle failures per signature (they are counted in full in the histogram).
type limiter struct {
	o    *drv.Out
	seen map[string]int
}

func (l *limiter) fail(sig, desc string, replay any) {
	l.o.Count("oracle:" + sig)
	if l.seen[sig] < 3 {
		l.o.Fail(sig, desc, replay)
	}
	l.seen[sig]++
}

// statement is what a verifier is asked to believe.
type statement struct {
	k          c08.UKey
	value      []byte // membership: the claimed value
	membership bool
}

// truth evaluates the statement on the ORACLE's own record of the state (user values by key bits).
func truth(state map[string][]byte, s statement) bool {
	v, present := state[s.k.Bits]
	if s.membership {
		return present && bytes.Equal(v, s.value)
	}
	return !present
}

func reqLine(k c08.UKey, value []byte, membership bool, root []byte, proof string) string {
	m := "n"
	if membership {
		m = "m"
	}
	return fmt.Sprintf("%s %s %s %s %s", drv.Hex(k.User), drv.Hex(value), m, drv.Hex(root), proof)
}

// mutateKeyBits is the key length of the tree whose proofs are being mutated (set by RunSMT per configuration).
var mutateKeyBits = 160

// mutate produces adversarial variants of an honest proof (token form key:value:bitmask).
func mutate(o *drv.Out, proof []*lib.Node) (string, []*lib.Node) {
	r := o.Rng
	cp := func() []*lib.Node {
		out := make([]*lib.Node, len(proof))
		for i, n := range proof {
			out[i] = &lib.Node{Key: bytes.Clone(n.Key), Value: bytes.Clone(n.Value), Bitmask: n.Bitmask}
		}
		return out
	}
	p := cp()
	i := r.Intn(len(p))
	flip := func(b []byte) []byte {
		if len(b) == 0 {
			return []byte{byte(1 << uint(r.Intn(8)))}
		}
		b[r.Intn(len(b))] ^= byte(1 << uint(r.Intn(8)))
		return b
	}
	switch k := r.Intn(17); k {
	case 0:
		return "truncate-last", p[:len(p)-1]
	case 1:
		return "truncate-first", p[1:]
	case 2:
		if len(p) > 2 {
			j := 1 + r.Intn(len(p)-1)
			return "drop-middle", append(p[:j], p[j+1:]...)
		}
		return "truncate-last", p[:len(p)-1]
	case 3:
		j := r.Intn(len(p))
		p[i], p[j] = p[j], p[i]
		return "swap", p
	case 4:
		p[i].Key = flip(p[i].Key)
		return "flip-key-bit", p
	case 5:
		p[i].Value = flip(p[i].Value)
		return "flip-value-bit", p
	case 6:
		p[i].Bitmask ^= 1
		return "flip-side", p
	case 7:
		p[i].Key = nil
		return "empty-key", p
	case 8:
		if len(p[i].Key) > 0 {
			p[i].Key[len(p[i].Key)-1] = byte(r.Intn(10)) // wrong padding byte
		}
		return "wrong-padding", p
	case 9:
		p[i].Key = p[i].Key[:len(p[i].Key)/2] // structurally malformed: cut key
		return "cut-key", p
	case 10:
		j := r.Intn(len(p))
		extra := &lib.Node{Key: bytes.Clone(p[j].Key), Value: bytes.Clone(p[j].Value), Bitmask: p[j].Bitmask}
		return "duplicate-node", append(p[:i], append([]*lib.Node{extra}, p[i:]...)...)
	case 11:
		p[i].Value = nil
		return "empty-value", p
	case 15, 16:
		// two-boundary re-split of a sibling pair at a random level (well-formed pieces only)
		if levels, ok := pairLevels(proof, mutateKeyBits); ok && len(proof) > 1 {
			for try := 0; try < 40; try++ {
				j, d, first := 1+r.Intn(len(proof)-1), r.Intn(41)-20, r.Intn(2)
				if forged, ok := pairResplit(proof, levels, j, d, first, mutateKeyBits); ok {
					return fmt.Sprintf("pair-resplit%+d", d), forged
				}
			}
		}
		return "pair-resplit-none", p
	case 12:
		d := []int{-2, -1, 1, 2}[r.Intn(4)]
		if resplit(p, 0, d) {
			return fmt.Sprintf("resplit-proven%+d", d), p
		}
		return "resplit-none", p
	default:
		d := []int{-2, -1, 1, 2}[r.Intn(4)]
		if resplit(p, i, d) {
			return fmt.Sprintf("resplit%+d", d), p
		}
		return "resplit-none", p
	}
}

// verifyAndJudge sends one statement + proof to the real VerifyProof, records the op for the model, and applies the
// ORACLE: an accepted statement must be true of the oracle's own record of the state, an honest statement must be
// accepted, and nothing may panic or hang.
func verifyAndJudge(o *drv.Out, v *Verifier, lim *limiter, n int, root []byte, state map[string][]byte,
	replay func(string) map[string]any, kind string, st statement, proof string, honestOwn bool) string {
	req := reqLine(st.k, st.value, st.membership, root, proof)
	res := v.Verify(fmt.Sprintf("%d %s", n, req))
	o.Op("verify "+req, res)
	o.Count("verify:" + kind + ":" + res)
	o.Nontrivial(fmt.Sprintf("%d|%s", n, req))
	tr := truth(state, st)
	what := fmt.Sprintf("n=%d %s: key %s membership=%v value=%x → %s (statement is %v)", n, kind, st.k.Bits, st.membership, st.value, res, tr)
	foreign := strings.HasPrefix(kind, "foreign")
	switch {
	case res == "panic":
		lim.fail("C16:verifyproof-panic", what, replay("verify "+req))
	case res == "hang":
		lim.fail("C16:verifyproof-hang", what, replay("verify "+req))
	case res == "died":
		lim.fail("C16:verifyproof-killed-process", what, replay("verify "+req))
	case res == "accept" && !tr && foreign && !st.membership:
		lim.fail("C16:foreign-proof-accepted-as-nonmembership", what, replay("verify "+req))
	case res == "accept" && !tr && foreign:
		lim.fail("C16:foreign-proof-accepted-as-membership", what, replay("verify "+req))
	case res == "accept" && !tr && strings.Contains(kind, "pair-resplit") && !st.membership:
		// KNOWN FINDING: the unframed parent hash lets a sibling pair be re-split at both boundaries (needs framed hashing)
		lim.fail("C16:forged-proof-accepted-as-nonmembership:sibling-pair-resplit", what, replay("verify "+req))
	case res == "accept" && !tr && strings.Contains(kind, "pair-resplit"):
		lim.fail("C16:forged-proof-accepted-as-membership:sibling-pair-resplit", what, replay("verify "+req))
	case res == "accept" && !tr && strings.HasPrefix(kind, "truncated-bottom") && !st.membership:
		lim.fail("C16:truncated-proof-accepted-as-nonmembership", what, replay("verify "+req))
	case res == "accept" && !tr && strings.HasPrefix(kind, "truncated-bottom"):
		lim.fail("C16:truncated-proof-accepted-as-membership", what, replay("verify "+req))
	case res == "accept" && !tr && !st.membership:
		lim.fail("C16:forged-proof-accepted-as-nonmembership", what, replay("verify "+req))
	case res == "accept" && !tr:
		lim.fail("C16:forged-proof-accepted-as-membership", what, replay("verify "+req))
	case honestOwn && res != "accept":
		lim.fail("C16:honest-proof-rejected", what, replay("verify "+req))
	}
	return res
}

// resplit moves the key/value boundary of node i by d bytes (d > 0: the key swallows the first d value bytes;
// d < 0: the value swallows the last -d key bytes). Parent hashes concatenate key‖value‖key‖value without length
// prefixes, so the hash chain of a re-split proof is byte-identical to the honest one.
func resplit(p []*lib.Node, i, d int) bool {
	k, val := p[i].Key, p[i].Value
	switch {
	case d > 0 && d < len(val):
		p[i].Key, p[i].Value = append(bytes.Clone(k), val[:d]...), bytes.Clone(val[d:])
	case d < 0 && -d < len(k):
		p[i].Key, p[i].Value = bytes.Clone(k[:len(k)+d]), append(bytes.Clone(k[len(k)+d:]), val...)
	default:
		return false
	}
	return true
}

// RunSMT: grain (a) — proofs from and against the real SMT at several key lengths.
func RunSMT(o *drv.Out, v *Verifier, lim *limiter) {
	r := o.Rng
	thorough := o.Tier == "thorough"
	type cfg struct{ n, cases, keys, probes int }
	cfgs := []cfg{{3, 8, 4, 6}, {4, 14, 8, 8}, {5, 14, 14, 8}, {8, 14, 40, 8}, {12, 10, 60, 8}, {16, 10, 80, 8}, {160, 16, 60, 10}}
	if thorough {
		for i := range cfgs {
			cfgs[i].cases *= 5
			cfgs[i].probes *= 2
		}
	}
	for _, c := range cfgs {
		u := c08.NewUniverse(c.n, thorough)
		mutateKeyBits = c.n
		for ci := 0; ci < c.cases; ci++ {
			t, err := c08.NewTree(c.n)
			if err != nil {
				panic(err)
			}
			o.Case(fmt.Sprintf("proof n=%d #%d", c.n, ci))
			o.Op(fmt.Sprintf("new %d", c.n), fmt.Sprintf("root %s nodes 3 l0 same", drv.Hex(t.SMT().Root())))
			// build the state in one or two batches
			state := map[string][]byte{} // ORACLE: key bits -> user value
			var hist []string
			nb := 1 + r.Intn(2)
			for b := 0; b < nb; b++ {
				var ws []c08.Write
				seen := map[int]bool{}
				base := r.Intn(len(u.Keys))
				for len(ws) < c.keys/nb+1 && len(seen) < len(u.Keys) {
					i := r.Intn(len(u.Keys))
					if r.Intn(3) == 0 {
						i = (base + r.Intn(8)) % len(u.Keys) // neighbours: shared prefixes at n=160
					}
					k := u.Keys[i]
					if seen[i] {
						continue
					}
					seen[i] = true
					if u.Reserved(k.Bits) {
						continue
					}
					if _, present := state[k.Bits]; present && r.Intn(3) == 0 {
						ws = append(ws, c08.Write{K: k})
						continue
					}
					val := make([]byte, 1+r.Intn(5))
					r.Read(val)
					ws = append(ws, c08.Write{K: k, Val: val})
				}
				line := c08.OpLine(false, ws)
				hist = append(hist, line)
				if res := t.Commit(false, ws); res != "ok" {
					panic("commit: " + res)
				}
				for _, w := range ws {
					if w.Val == nil {
						delete(state, w.K.Bits)
					} else {
						state[w.K.Bits] = w.Val
					}
				}
				m := c08.Sentinels(c.n)
				for b, val := range state {
					h := sha256.Sum256(val)
					m[b] = h[:]
				}
				ref, _ := c08.RefRoot(m)
				l0 := "differs"
				if bytes.Equal(ref, t.SMT().Root()) {
					l0 = "same"
				}
				o.Op(line, fmt.Sprintf("root %s nodes %d l0 %s", drv.Hex(t.SMT().Root()), t.NodeCount(), l0))
			}
			root := t.SMT().Root()
			smt := t.SMT()
			// keys to talk about: present ones, absent ones, neighbours of present ones
			var present, absent []c08.UKey
			for _, k := range u.Keys {
				if u.Reserved(k.Bits) {
					continue
				}
				if _, ok := state[k.Bits]; ok {
					present = append(present, k)
				} else if len(absent) < 400 {
					absent = append(absent, k)
				}
			}
			if len(present) == 0 || len(absent) == 0 {
				t.Close()
				continue
			}
			pickAny := func() c08.UKey {
				if r.Intn(2) == 0 {
					return present[r.Intn(len(present))]
				}
				return absent[r.Intn(len(absent))]
			}
			replay := func(extra string) map[string]any {
				return map[string]any{"key_bits": c.n, "history": hist, "call": extra}
			}
			verify := func(kind string, st statement, proof string, honestOwn bool) {
				verifyAndJudge(o, v, lim, c.n, root, state, replay, kind, st, proof, honestOwn)
			}
			for pi := 0; pi < c.probes; pi++ {
				a := pickAny()
				proof, e := smt.GetMerkleProof(a.User)
				if e != nil {
					o.Op("prove "+drv.Hex(a.User), errKind(e))
					continue
				}
				ps := ShowProof(proof)
				o.Op("prove "+drv.Hex(a.User), "proof "+ps)
				o.Count(fmt.Sprintf("prove:len=%d", len(proof)))
				aval, aPresent := state[a.Bits]
				// completeness: the statement the proof was generated for
				if aPresent {
					verify("own-membership", statement{a, aval, true}, ps, true)
					verify("own-wrong-value", statement{a, append(bytes.Clone(aval), 1), true}, ps, false)
					verify("own-nonmembership-of-present", statement{a, nil, false}, ps, false)
				} else {
					verify("own-nonmembership", statement{a, nil, false}, ps, true)
					verify("own-membership-of-absent", statement{a, []byte{1}, true}, ps, false)
				}
				// the same honest proof offered for other keys
				for j := 0; j < 3; j++ {
					b := pickAny()
					if b.Bits == a.Bits {
						continue
					}
					bval, bPresent := state[b.Bits]
					verify("foreign-nonmembership", statement{b, nil, false}, ps, false)
					if aPresent {
						verify("foreign-membership-with-provers-value", statement{b, aval, true}, ps, false)
					}
					if bPresent {
						verify("foreign-membership-with-own-value", statement{b, bval, true}, ps, false)
					}
				}
				// mutated proofs, with the original statement and with a false one
				for j := 0; j < 5; j++ {
					kind, mp := mutate(o, proof)
					mps := ShowProof(mp)
					if aPresent {
						verify("mutated:"+kind, statement{a, aval, true}, mps, false)
						verify("mutated:"+kind, statement{a, nil, false}, mps, false)
					} else {
						verify("mutated:"+kind, statement{a, nil, false}, mps, false)
						verify("mutated:"+kind, statement{a, []byte{1}, true}, mps, false)
					}
				}
			}
			if ci == 0 {
				o.Sample(fmt.Sprintf("n=%d keys=%d", c.n, len(state)))
			}
			t.Close()
		}
	}
}

// RunStore: grain (b) — the proofs the Store serves for a committed version.
func RunStore(o *drv.Out, lim *limiter) {
	u := c08.NewUniverse(160, o.Tier == "thorough")
	cases := 9
	if o.Tier == "thorough" {
		cases = 42
	}
	for ci := 0; ci < cases; ci++ {
		runStoreCase(o, lim, u, ci)
	}
}

// runStoreCase: one store-level case. A panic or an unexpected error of the real code ends the case with an oracle failure
// (C16:store-panic-in-real-code) — the failures recorded before it, and the other cases, are kept.
func runStoreCase(o *drv.Out, lim *limiter, u *c08.Universe, ci int) {
	r := o.Rng
	var hist []string
	defer func() {
		if p := recover(); p != nil {
			lim.fail("C16:store-panic-in-real-code", fmt.Sprintf("store-proof #%d: %v", ci, p), map[string]any{"history": hist})
		}
	}()
	{
		// what happens to the database between a commit and the read-only stores that serve proofs for it:
		// nothing (memtable), a pebble Flush (the height's entries land in an sstable of their own), or Close + reopen
		mode := []string{"memtable", "flush", "reopen"}[ci%3]
		fs := vfs.NewMem()
		open := func() *store.Store {
			db, err := pebble.Open("c16", &pebble.Options{FS: fs, FormatMajorVersion: pebble.FormatColumnarBlocks, Logger: nullLog{},
				BlockPropertyCollectors: store.VerifBlockPropertyCollectors()})
			if err != nil {
				panic(err)
			}
			st, e := store.NewStoreWithDB(lib.DefaultConfig(), db, nil, lib.NewNullLogger())
			if e != nil {
				panic(e)
			}
			return st
		}
		st := open()
		o.Case(fmt.Sprintf("store-proof #%d (%s)", ci, mode))
		o.Op("store", "ok")
		rec := func(op, res string) { hist = append(hist, op); o.Op(op, res) }
		state := map[int][]byte{}
		type ver struct {
			root    []byte
			state   map[int][]byte
			deleted []int // keys deleted at this height (they must get non-membership proofs)
		}
		versions := map[uint64]ver{}
		for b := 0; b < 3; b++ {
			var deleted []int
			for w := 0; w < 6+r.Intn(24); w++ {
				i := r.Intn(len(u.Keys))
				if u.Reserved(u.Keys[i].Bits) || u.Border[u.Keys[i].Bits] {
					continue
				}
				if _, ok := state[i]; ok && r.Intn(2) == 0 {
					st.Delete(u.Keys[i].User)
					delete(state, i)
					deleted = append(deleted, i)
					rec("del "+drv.Hex(u.Keys[i].User), "ok")
					continue
				}
				val := make([]byte, 1+r.Intn(20))
				r.Read(val)
				st.Set(u.Keys[i].User, val)
				state[i] = val
				rec("set "+drv.Hex(u.Keys[i].User)+" "+drv.Hex(val), "ok")
			}
			// every height after the first also deletes and overwrites keys of earlier heights
			n := 0
			for i := range state {
				if b > 0 && n < 4 {
					n++
					if n%2 == 0 {
						st.Delete(u.Keys[i].User)
						delete(state, i)
						deleted = append(deleted, i)
						rec("del "+drv.Hex(u.Keys[i].User), "ok")
					} else {
						val := []byte{byte(b), 0xEE}
						st.Set(u.Keys[i].User, val)
						state[i] = val
						rec("set "+drv.Hex(u.Keys[i].User)+" "+drv.Hex(val), "ok")
					}
				}
			}
			Progress(fmt.Sprintf("store-proof #%d (%s)", ci, mode), "commit", hist)
			root, e := st.Commit()
			if e != nil {
				panic(e)
			}
			rec("commit", fmt.Sprintf("root %s l0 same version %d", drv.Hex(root), st.Version()))
			snap := map[int][]byte{}
			for k, val := range state {
				snap[k] = val
			}
			var stillGone []int
			for _, i := range deleted {
				if _, back := state[i]; !back {
					stillGone = append(stillGone, i)
				}
			}
			versions[st.Version()] = ver{root, snap, stillGone}
			switch mode {
			case "flush":
				if err := st.DB().Flush(); err != nil {
					panic(err)
				}
				rec("flush", "ok")
			case "reopen":
				if e := st.Close(); e != nil {
					panic(e)
				}
				st = open()
				rec("reopen", fmt.Sprintf("version %d", st.Version()))
			}
		}
		type q struct {
			k          c08.UKey
			val        []byte
			membership bool
			falseStmt  bool // the statement is FALSE of the state at that height: it must not be accepted
		}
		// ask: NewReadOnly(vn) on the live store, its Root(), GetProof and VerifyProof against the root committed for vn
		ask := func(vn uint64, root []byte, qs []q, window string) {
			for _, x := range qs {
				m := "n"
				if x.membership {
					m = "m"
				}
				op := fmt.Sprintf("sproof %d %s %s %s", vn, drv.Hex(x.k.User), drv.Hex(x.val), m)
				res := storeProof(st, vn, x.k.User, x.val, x.membership, root)
				rec(op, res)
				o.Count("sproof:" + mode + window + ":" + m + ":" + res[strings.LastIndex(res, " ")+1:])
				o.Nontrivial(fmt.Sprintf("store|%d|%s%s", ci, op, window))
				rootOK := strings.HasPrefix(res, "roroot "+drv.Hex(root)+" ")
				if x.falseStmt {
					if strings.HasSuffix(res, "verdict accept") {
						lim.fail("C16:abandoned-fork-key-proven-present",
							fmt.Sprintf("NewReadOnly(%d) [%s%s]: the proof served for %x verifies as MEMBERSHIP with value %x against the root committed for version %d (%x), but the key is not in the state at that height (it was written only at a height that was rolled back)",
								vn, mode, window, x.k.User, x.val, vn, root),
							map[string]any{"history": hist, "between_commit_and_read": mode, "window": window})
					}
					continue
				}
				if strings.HasSuffix(res, "verdict accept") && rootOK {
					continue
				}
				suffix := ""
				if mode != "memtable" {
					suffix = ":after-" + mode
				}
				if window != "" {
					suffix = window // the live store holds an uncommitted block whose root was already computed
				}
				sig := "C16:served-proof-does-not-verify" + suffix
				if !rootOK {
					sig = "C16:readonly-root-differs-from-committed" + suffix
				}
				if mode == "memtable" && window == "" && !rootOK {
					sig = "C16:readonly-store-proof-prefix" // the read-only store does not even see the committed tree
				}
				lim.fail(sig,
					fmt.Sprintf("NewReadOnly(%d) [%s%s]: Root()/GetProof(%x) against the root Commit() returned for version %d (%s, committed root %x): %s",
						vn, mode, window, x.k.User, vn, m, root, res[:min(len(res), 120)]),
					map[string]any{"history": hist, "between_commit_and_read": mode, "window": window})
			}
		}
		var vs []uint64
		for vn := range versions {
			vs = append(vs, vn)
		}
		sort.Slice(vs, func(i, j int) bool { return vs[i] < vs[j] })
		for _, vn := range vs {
			vv := versions[vn]
			// every key of the state at vn (membership), every key deleted at vn and a few never-written keys (non-membership)
			var qs []q
			var idx []int
			for i := range vv.state {
				idx = append(idx, i)
			}
			sort.Ints(idx)
			for _, i := range idx {
				qs = append(qs, q{u.Keys[i], vv.state[i], true, false})
			}
			for _, i := range vv.deleted {
				qs = append(qs, q{u.Keys[i], nil, false, false})
			}
			for n := 0; n < 3; {
				i := r.Intn(len(u.Keys))
				if _, ok := vv.state[i]; !ok && !u.Reserved(u.Keys[i].Bits) {
					qs = append(qs, q{u.Keys[i], nil, false, false})
					n++
				}
			}
			ask(vn, vv.root, qs, "")
		}
		// THE BLOCK IN PROGRESS: writes for height V+1 are pending and Store.Root() was computed (ApplyBlock does, before
		// Commit): in that window a read-only store for the last committed height V must still serve V's root and proofs
		{
			V := st.Version()
			vv := versions[V]
			var qs []q
			var idx []int
			for i := range vv.state {
				idx = append(idx, i)
			}
			sort.Ints(idx)
			for n, i := range idx {
				k := u.Keys[i]
				qs = append(qs, q{k, vv.state[i], true, false})
				switch n % 3 {
				case 0:
					st.Delete(k.User)
					rec("del "+drv.Hex(k.User), "ok")
				case 1:
					val := []byte{0xBB, byte(n)}
					st.Set(k.User, val)
					rec("set "+drv.Hex(k.User)+" "+drv.Hex(val), "ok")
				}
			}
			for n := 0; n < 6; {
				i := r.Intn(len(u.Keys))
				if _, ok := vv.state[i]; !ok && !u.Reserved(u.Keys[i].Bits) && !u.Border[u.Keys[i].Bits] {
					val := []byte{0xCC, byte(n)}
					st.Set(u.Keys[i].User, val)
					rec("set "+drv.Hex(u.Keys[i].User)+" "+drv.Hex(val), "ok")
					qs = append(qs, q{u.Keys[i], nil, false, false}) // absent at V, written by the block in progress
					n++
				}
			}
			Progress(fmt.Sprintf("store-proof #%d (%s)", ci, mode), "root (block in progress)", hist)
			next, e := st.Root()
			if e != nil {
				panic(e)
			}
			rec("root", "root "+drv.Hex(next)+" l0 same")
			ask(V, vv.root, qs, ":during-pending-block")
			if V > 1 {
				pv := versions[V-1]
				var pq []q
				var pidx []int
				for i := range pv.state {
					pidx = append(pidx, i)
				}
				sort.Ints(pidx)
				for _, i := range pidx[:min(3, len(pidx))] {
					pq = append(pq, q{u.Keys[i], pv.state[i], true, false})
				}
				ask(V-1, pv.root, pq, ":during-pending-block")
			}
			st.Reset()
			rec("reset", "ok")
		}
		// ROLLBACK: the heights above `target` are abandoned (they changed state), a different block is committed on top
		// of `target`; the read-only store of the new height must prove the model state and nothing of the abandoned fork
		{
			tip := st.Version()
			target := tip - 1 - uint64(ci%2)
			if target < 1 {
				target = 1
			}
			tipState, tgt := versions[tip].state, versions[target]
			var forkOnly []int // keys in the state at the abandoned tip that the state at the target does not have
			for i := range tipState {
				if _, ok := tgt.state[i]; !ok {
					forkOnly = append(forkOnly, i)
				}
			}
			sort.Ints(forkOnly)
			if e := st.Rollback(target); e != nil {
				lim.fail("C16:rollback-failed", fmt.Sprintf("store-proof #%d [%s]: Rollback(%d) at height %d: %v", ci, mode, target, tip, e),
					map[string]any{"history": hist, "between_commit_and_read": mode})
				st.DB().Close()
				return
			}
			rec(fmt.Sprintf("rollback %d", target), fmt.Sprintf("version %d", st.Version()))
			o.Count("store:rollback")
			for h := range versions {
				if h > target {
					delete(versions, h)
				}
			}
			state = map[int][]byte{}
			for i, val := range tgt.state {
				state[i] = val
			}
			switch mode {
			case "flush":
				if err := st.DB().Flush(); err != nil {
					panic(err)
				}
				rec("flush", "ok")
			case "reopen":
				if e := st.Close(); e != nil {
					panic(e)
				}
				st = open()
				rec("reopen", fmt.Sprintf("version %d", st.Version()))
			}
			// the block that replaces the abandoned fork: other keys, one delete and one overwrite of the target's keys
			var deleted []int
			for n := 0; n < 8; {
				i := r.Intn(len(u.Keys))
				_, inTip := tipState[i]
				if _, ok := state[i]; ok || inTip || u.Reserved(u.Keys[i].Bits) || u.Border[u.Keys[i].Bits] {
					continue
				}
				val := []byte{0xDD, byte(n)}
				st.Set(u.Keys[i].User, val)
				state[i] = val
				rec("set "+drv.Hex(u.Keys[i].User)+" "+drv.Hex(val), "ok")
				n++
			}
			var tidx []int
			for i := range tgt.state {
				tidx = append(tidx, i)
			}
			sort.Ints(tidx)
			if len(tidx) >= 2 {
				st.Delete(u.Keys[tidx[0]].User)
				delete(state, tidx[0])
				deleted = append(deleted, tidx[0])
				rec("del "+drv.Hex(u.Keys[tidx[0]].User), "ok")
				val := []byte{0xDE, 0xAD}
				st.Set(u.Keys[tidx[1]].User, val)
				state[tidx[1]] = val
				rec("set "+drv.Hex(u.Keys[tidx[1]].User)+" "+drv.Hex(val), "ok")
			}
			root, e := st.Commit()
			if e != nil {
				panic(e)
			}
			rec("commit", fmt.Sprintf("root %s l0 same version %d", drv.Hex(root), st.Version()))
			nv := st.Version()
			var qs []q
			var idx []int
			for i := range state {
				idx = append(idx, i)
			}
			sort.Ints(idx)
			for _, i := range idx {
				qs = append(qs, q{k: u.Keys[i], val: state[i], membership: true})
			}
			for _, i := range deleted {
				qs = append(qs, q{k: u.Keys[i]})
			}
			for _, i := range forkOnly {
				qs = append(qs, q{k: u.Keys[i]})                                                      // absent: a verifying NON-membership proof must be served
				qs = append(qs, q{k: u.Keys[i], val: tipState[i], membership: true, falseStmt: true}) // and it must not be provable present
				o.Count("store:rollback:fork-only-key")
			}
			ask(nv, root, qs, ":after-rollback")
			// the target height itself is still served
			var tq []q
			for _, i := range tidx[:min(4, len(tidx))] {
				tq = append(tq, q{k: u.Keys[i], val: tgt.state[i], membership: true})
			}
			ask(target, tgt.root, tq, ":after-rollback")
		}
		st.DB().Close()
	}
}

// Run is the C16 driver.
func Run(o *drv.Out) {
	progressDir, progressOut = o.Dir, o
	v := &Verifier{Timeout: 4e9}
	defer v.Close()
	lim := &limiter{o: o, seen: map[string]int{}}
	RunWitnesses(o, v, lim)
	RunResplitCorpus(o, v, lim)
	RunLengthResplitCorpus(o, v, lim)
	RunTruncatedCorpus(o, v, lim)
	RunPairResplitCorpus(o, v, lim) // the known finding comes last of the corpus
	RunSMT(o, v, lim)
	RunStoreParallelBlocks(o, lim)
	RunStore(o, lim)
	o.Extra["verify_hangs_killed"] = v.Hangs
}
