package c16

import (
	"encoding/json"
	"os"
	"path/filepath"

	"verifharness/drv"
)

// progress: before every call into the real code that may start goroutines of its own (Store.Commit -> CommitParallel
// workers: a panic there cannot be recovered and kills the process) the driver notes what it is about to do. The
// supervising parent process (cmd/c16) turns a dead child + this note into the oracle failure
// C16:process-crash-in-real-code with the history as replay.
var progressDir string
var progressOut *drv.Out // the oracle failures recorded so far travel with the note (they would die with the process)

type ProgressNote struct {
	Case     string              `json:"case"`
	InFlight string              `json:"op_in_progress"`
	History  []string            `json:"history"`
	Failures []drv.OracleFailure `json:"failures_so_far"`
}

func Progress(caseName, inflight string, hist []string) {
	if progressDir == "" {
		return
	}
	note := ProgressNote{Case: caseName, InFlight: inflight, History: hist}
	if progressOut != nil {
		note.Failures = progressOut.Failures
	}
	bz, _ := json.Marshal(note)
	os.WriteFile(filepath.Join(progressDir, "progress.json"), bz, 0o644)
}
