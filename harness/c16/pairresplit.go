package c16

import (
	"bytes"
	"crypto/sha256"
	"encoding/binary"
	"fmt"
	"math/bits"

	"github.com/canopy-network/canopy/lib"

	"verifharness/c08"
	"verifharness/drv"
)

// KNOWN FINDING (needs length-framed node hashing to close): the two-boundary re-split of a SIBLING PAIR.
//
// A parent hash covers stream = lk‖lv‖rk‖rv without length prefixes. Shift d bytes across BOTH key/value boundaries of a
// pair at any level j of an honest proof: lk' = stream[:|lk|+d], lv' = next 32 bytes, rk' = next |rk|-d bytes, rv' = rest.
// Values keep their 32 bytes, both keys may be well formed, the stream is byte-identical. The forged proof is
// [one of the pair as proof[0], the other as its sibling] ++ honest[j+1:]: it reaches the committed root whenever
// gcp(lk', rk') is the real parent's key, and is then accepted as a NON-membership proof for present keys on proof[0]'s
// side. Signature C16:forged-proof-accepted-as-nonmembership:sibling-pair-resplit (…as-membership:… if it ever occurs).

// keyBits decodes well-formed node-key bytes (inverse of c08.EncBits); ok=false for malformed keys.
func keyBits(b []byte, maxBits int) (string, bool) {
	if len(b) < 2 {
		return "", false
	}
	last, pad := b[len(b)-2], int(b[len(b)-1])
	lastBits := pad + max(bits.Len8(last), 1)
	if lastBits > 8 || (len(b)-2)*8+lastBits > maxBits {
		return "", false
	}
	out := make([]byte, 0, (len(b)-2)*8+lastBits)
	for _, x := range b[:len(b)-2] {
		for i := 7; i >= 0; i-- {
			out = append(out, '0'+(x>>uint(i))&1)
		}
	}
	for i := 0; i < pad; i++ {
		out = append(out, '0')
	}
	if last == 0 {
		out = append(out, '0')
	} else {
		for i := bits.Len8(last) - 1; i >= 0; i-- {
			out = append(out, '0'+(last>>uint(i))&1)
		}
	}
	return string(out), true
}

func commonPrefix(a, b string) string {
	i := 0
	for i < len(a) && i < len(b) && a[i] == b[i] {
		i++
	}
	return a[:i]
}

// pairLevels recomputes, for an honest proof, the (left key, left value, right key, right value) of the pair hashed at
// every level j = 1..len-1.
func pairLevels(honest []*lib.Node, n int) (out [][4][]byte, ok bool) {
	curBits, ok := keyBits(honest[0].Key, n)
	if !ok {
		return nil, false
	}
	curKey, curVal := honest[0].Key, honest[0].Value
	out = append(out, [4][]byte{}) // index 0 unused
	for j := 1; j < len(honest); j++ {
		sib := honest[j]
		var t [4][]byte
		if sib.Bitmask == 0 {
			t = [4][]byte{sib.Key, sib.Value, curKey, curVal}
		} else {
			t = [4][]byte{curKey, curVal, sib.Key, sib.Value}
		}
		out = append(out, t)
		sb, ok := keyBits(sib.Key, n)
		if !ok {
			return nil, false
		}
		h := sha256.Sum256(bytes.Join(t[:], nil))
		curBits = commonPrefix(curBits, sb)
		curKey, curVal = c08.EncBits(curBits), h[:]
	}
	return out, true
}

// pairResplit builds the forged proof for level j, shift d, orientation first (0: the left node is proof[0]).
// ok=false when the shifted pieces are not hash-sized values and well-formed keys (the verifier refuses those anyway).
func pairResplit(honest []*lib.Node, levels [][4][]byte, j, d, first, n int) ([]*lib.Node, bool) {
	lk, lv, rk, rv := levels[j][0], levels[j][1], levels[j][2], levels[j][3]
	if len(lv) != 32 || len(rv) != 32 {
		return nil, false
	}
	nl, nr := len(lk)+d, len(rk)-d
	if d == 0 || nl < 2 || nr < 2 {
		return nil, false
	}
	stream := bytes.Join([][]byte{lk, lv, rk, rv}, nil)
	lk2, lv2 := stream[:nl], stream[nl:nl+32]
	rk2, rv2 := stream[nl+32:nl+32+nr], stream[nl+32+nr:]
	if _, ok := keyBits(lk2, n); !ok {
		return nil, false
	}
	if _, ok := keyBits(rk2, n); !ok {
		return nil, false
	}
	var forged []*lib.Node
	if first == 0 {
		forged = []*lib.Node{{Key: bytes.Clone(lk2), Value: bytes.Clone(lv2)}, {Key: bytes.Clone(rk2), Value: bytes.Clone(rv2), Bitmask: 1}}
	} else {
		forged = []*lib.Node{{Key: bytes.Clone(rk2), Value: bytes.Clone(rv2)}, {Key: bytes.Clone(lk2), Value: bytes.Clone(lv2), Bitmask: 0}}
	}
	for _, x := range honest[j+1:] {
		forged = append(forged, &lib.Node{Key: bytes.Clone(x.Key), Value: bytes.Clone(x.Value), Bitmask: x.Bitmask})
	}
	return forged, true
}

// RunPairResplitCorpus searches small 160-bit trees (deterministically: independent of the seed) for well-formed
// sibling-pair re-splits and offers every one of them about the proven key and its neighbours. It stops after the first
// few trees that admit an accepted forgery, so the known finding is reproduced — with its replay — on every run.
func RunPairResplitCorpus(o *drv.Out, v *Verifier, lim *limiter) {
	const n = 160
	mk := func(tree, q int) c08.UKey {
		var b [8]byte
		binary.BigEndian.PutUint32(b[:4], uint32(tree))
		binary.BigEndian.PutUint32(b[4:], uint32(q))
		k := lib.JoinLenPrefix([]byte{0xCA}, b[:])
		h := sha256.Sum256(k)
		return c08.UKey{User: k, Bits: c08.BitsOf(h[:], n)}
	}
	maxTrees, wantTrees := 400, 2
	if o.Tier == "thorough" {
		maxTrees, wantTrees = 1500, 8
	}
	hitTrees := 0
	for tr := 0; tr < maxTrees && hitTrees < wantTrees; tr++ {
		t, err := c08.NewTree(n)
		if err != nil {
			panic(err)
		}
		var ws []c08.Write
		state := map[string][]byte{}
		for q := 0; q < 6+tr%10; q++ {
			k := mk(tr, q)
			val := []byte(fmt.Sprintf("v-%d", q))
			ws = append(ws, c08.Write{K: k, Val: val})
			state[k.Bits] = val
		}
		if res := t.Commit(false, ws); res != "ok" {
			panic(res)
		}
		root := t.SMT().Root()
		line := c08.OpLine(false, ws)
		// candidates of this tree (pre-filtered without calling the verifier)
		type cand struct {
			forged  []*lib.Node
			kind    string
			victims []c08.UKey
		}
		var cands []cand
		for qi, w := range ws {
			honest, e := t.SMT().GetMerkleProof(w.K.User)
			if e != nil {
				continue
			}
			levels, ok := pairLevels(honest, n)
			if !ok {
				continue
			}
			for j := 1; j < len(honest); j++ {
				for d := -20; d <= 20; d++ {
					for first := 0; first < 2; first++ {
						if forged, ok := pairResplit(honest, levels, j, d, first, n); ok {
							cands = append(cands, cand{forged, fmt.Sprintf("pair-resplit[level %d]%+d/%d", j, d, first),
								[]c08.UKey{w.K, ws[(qi+1)%len(ws)].K, ws[(qi+2)%len(ws)].K}})
						}
					}
				}
			}
		}
		if len(cands) == 0 {
			t.Close()
			continue
		}
		// run the candidates of this tree as one case
		o.Case(fmt.Sprintf("corpus sibling-pair-resplit tree %d (%d keys, %d well-formed re-splits)", tr, len(ws), len(cands)))
		o.Op("new 160", fmt.Sprintf("root %s nodes 3 l0 same", drv.Hex(func() []byte { t0, _ := c08.NewTree(n); defer t0.Close(); return t0.SMT().Root() }())))
		m := c08.Sentinels(n)
		for b, val := range state {
			h := sha256.Sum256(val)
			m[b] = h[:]
		}
		ref, _ := c08.RefRoot(m)
		l0 := "differs"
		if bytes.Equal(ref, root) {
			l0 = "same"
		}
		o.Op(line, fmt.Sprintf("root %s nodes %d l0 %s", drv.Hex(root), t.NodeCount(), l0))
		replay := func(call string) map[string]any {
			return map[string]any{"key_bits": n, "history": []string{line}, "call": call}
		}
		accepted := false
		for _, c := range cands {
			fs := ShowProof(c.forged)
			for _, vk := range c.victims {
				if res := verifyAndJudge(o, v, lim, n, root, state, replay, c.kind, statement{vk, nil, false}, fs, false); res == "accept" {
					accepted = true
				}
				verifyAndJudge(o, v, lim, n, root, state, replay, c.kind, statement{vk, state[vk.Bits], true}, fs, false)
			}
		}
		if accepted {
			hitTrees++
		}
		t.Close()
	}
	o.Count(fmt.Sprintf("pair-resplit:trees-with-accepted-forgery=%d", hitTrees))
}

// lengthResplit builds the "20-byte value" variants of a pair at level j: one of the two values is shortened to 20 bytes
// (the length only the two reserved leaves may carry) and its other 12 bytes are glued onto the neighbouring key.
//
//	variant 0: lv' = lv[:20], rk' = lv[20:]‖rk      variant 1: lv' = lv[12:], lk' = lk‖lv[:12]
//	variant 2: rv' = rv[12:], rk' = rk‖rv[:12]
//
// The stream is byte-identical. A verifier that lets any key other than the exact reserved leaf keys carry a 20-byte
// value accepts these (seed pending4-C16: an all-zero / all-one PREFIX such as the inner node "0").
func lengthResplit(honest []*lib.Node, levels [][4][]byte, j, variant, first, n int) ([]*lib.Node, bool) {
	lk, lv, rk, rv := levels[j][0], levels[j][1], levels[j][2], levels[j][3]
	if len(lv) != 32 || len(rv) != 32 {
		return nil, false
	}
	var lk2, lv2, rk2, rv2 []byte
	switch variant {
	case 0:
		lk2, lv2, rk2, rv2 = lk, lv[:20], append(bytes.Clone(lv[20:]), rk...), rv
	case 1:
		lk2, lv2, rk2, rv2 = append(bytes.Clone(lk), lv[:12]...), lv[12:], rk, rv
	default:
		lk2, lv2, rk2, rv2 = lk, lv, append(bytes.Clone(rk), rv[:12]...), rv[12:]
	}
	if _, ok := keyBits(lk2, n); !ok {
		return nil, false
	}
	if _, ok := keyBits(rk2, n); !ok {
		return nil, false
	}
	var forged []*lib.Node
	if first == 0 {
		forged = []*lib.Node{{Key: bytes.Clone(lk2), Value: bytes.Clone(lv2)}, {Key: bytes.Clone(rk2), Value: bytes.Clone(rv2), Bitmask: 1}}
	} else {
		forged = []*lib.Node{{Key: bytes.Clone(rk2), Value: bytes.Clone(rv2)}, {Key: bytes.Clone(lk2), Value: bytes.Clone(lv2), Bitmask: 0}}
	}
	for _, x := range honest[j+1:] {
		forged = append(forged, &lib.Node{Key: bytes.Clone(x.Key), Value: bytes.Clone(x.Value), Bitmask: x.Bitmask})
	}
	return forged, true
}

// RunLengthResplitCorpus: permanent corpus for the 20-byte-value re-split on the first small trees (every level, the
// three variants, both orientations, victims = every key of the tree). Hard failure
// C16:forged-proof-accepted-as-nonmembership when accepted: only the exact reserved leaf keys may carry 20 bytes.
func RunLengthResplitCorpus(o *drv.Out, v *Verifier, lim *limiter) {
	const n = 160
	mk := func(tree, q int) c08.UKey {
		var b [8]byte
		binary.BigEndian.PutUint32(b[:4], uint32(tree))
		binary.BigEndian.PutUint32(b[4:], uint32(q))
		k := lib.JoinLenPrefix([]byte{0xCB}, b[:])
		h := sha256.Sum256(k)
		return c08.UKey{User: k, Bits: c08.BitsOf(h[:], n)}
	}
	trees := 10
	if o.Tier == "thorough" {
		trees = 60
	}
	for tr := 0; tr < trees; tr++ {
		t, err := c08.NewTree(n)
		if err != nil {
			panic(err)
		}
		var ws []c08.Write
		state := map[string][]byte{}
		for q := 0; q < 5+tr%8; q++ {
			k := mk(tr, q)
			val := []byte(fmt.Sprintf("w-%d", q))
			ws = append(ws, c08.Write{K: k, Val: val})
			state[k.Bits] = val
		}
		if res := t.Commit(false, ws); res != "ok" {
			panic(res)
		}
		root := t.SMT().Root()
		line := c08.OpLine(false, ws)
		o.Case(fmt.Sprintf("corpus length-resplit tree %d (%d keys)", tr, len(ws)))
		o.Op("new 160", fmt.Sprintf("root %s nodes 3 l0 same", drv.Hex(func() []byte { t0, _ := c08.NewTree(n); defer t0.Close(); return t0.SMT().Root() }())))
		m := c08.Sentinels(n)
		for b, val := range state {
			h := sha256.Sum256(val)
			m[b] = h[:]
		}
		ref, _ := c08.RefRoot(m)
		l0 := "differs"
		if bytes.Equal(ref, root) {
			l0 = "same"
		}
		o.Op(line, fmt.Sprintf("root %s nodes %d l0 %s", drv.Hex(root), t.NodeCount(), l0))
		replay := func(call string) map[string]any {
			return map[string]any{"key_bits": n, "history": []string{line}, "call": call}
		}
		seen := map[string]bool{}
		for _, w := range ws {
			honest, e := t.SMT().GetMerkleProof(w.K.User)
			if e != nil {
				continue
			}
			levels, ok := pairLevels(honest, n)
			if !ok {
				continue
			}
			for j := 1; j < len(honest); j++ {
				for variant := 0; variant < 3; variant++ {
					for first := 0; first < 2; first++ {
						forged, ok := lengthResplit(honest, levels, j, variant, first, n)
						if !ok {
							continue
						}
						fs := ShowProof(forged)
						if seen[fs] {
							continue
						}
						seen[fs] = true
						kind := fmt.Sprintf("length-resplit[level %d]v%d/%d", j, variant, first)
						for _, vw := range ws {
							verifyAndJudge(o, v, lim, n, root, state, replay, kind, statement{vw.K, nil, false}, fs, false)
						}
						verifyAndJudge(o, v, lim, n, root, state, replay, kind, statement{w.K, w.Val, true}, fs, false)
					}
				}
			}
		}
		t.Close()
	}
}
