package c16

import (
	"bytes"
	"crypto/sha256"
	"fmt"

	"verifharness/c08"
	"verifharness/drv"
)

// RunWitnesses replays, on the real code, the states and calls of the Lean witness theorems of Props/C16.lean
// (4-bit keys; the pool holds one user key per 4-bit hash image):
//
//	sound_fails_foreign_nonmembership        state {0001, 1011}        proof(1011) as "0001 is absent"
//	sound_fails_foreign_membership           state {0101, 0110}        proof(0101) as "0110 holds 0101's value"
//	crashes_on_honest_proof_for_other_key    state {0001, 0100, 1011}  proof(1011) as "0001 is absent"
//	crashes_on_malformed_proof               an empty sibling key / a one-byte key, any root
func RunWitnesses(o *drv.Out, v *Verifier, lim *limiter) {
	u := c08.NewUniverse(4, false)
	key := func(x int) c08.UKey {
		bits := fmt.Sprintf("%04b", x)
		i, ok := u.ByBits[bits]
		if !ok {
			panic("no pool key for " + bits)
		}
		return u.Keys[i]
	}
	type call struct {
		state      []int
		prover     int
		about      int
		value      func(state map[int][]byte) []byte
		membership bool
		sig        string
	}
	calls := []call{
		{[]int{11, 1}, 11, 1, func(map[int][]byte) []byte { return nil }, false, "C16:foreign-proof-accepted-as-nonmembership"},
		{[]int{5, 6}, 5, 6, func(s map[int][]byte) []byte { return s[5] }, true, "C16:foreign-proof-accepted-as-membership"},
		{[]int{4, 11, 1}, 11, 1, func(map[int][]byte) []byte { return nil }, false, "C16:verifyproof-panic"},
	}
	for ci, c := range calls {
		t, err := c08.NewTree(4)
		if err != nil {
			panic(err)
		}
		o.Case(fmt.Sprintf("witness #%d state=%v prover=%04b about=%04b", ci, c.state, c.prover, c.about))
		o.Op("new 4", fmt.Sprintf("root %s nodes 3 l0 same", drv.Hex(t.SMT().Root())))
		var ws []c08.Write
		state := map[int][]byte{}
		for _, x := range c.state {
			val := []byte{byte(x), 0xAA}
			ws = append(ws, c08.Write{K: key(x), Val: val})
			state[x] = val
		}
		line := c08.OpLine(false, ws)
		if res := t.Commit(false, ws); res != "ok" {
			panic(res)
		}
		m := c08.Sentinels(4)
		for x, val := range state {
			h := sha256.Sum256(val)
			m[key(x).Bits] = h[:]
		}
		ref, _ := c08.RefRoot(m)
		l0 := "differs"
		if bytes.Equal(ref, t.SMT().Root()) {
			l0 = "same"
		}
		o.Op(line, fmt.Sprintf("root %s nodes %d l0 %s", drv.Hex(t.SMT().Root()), t.NodeCount(), l0))
		proof, e := t.SMT().GetMerkleProof(key(c.prover).User)
		if e != nil {
			panic(e)
		}
		ps := ShowProof(proof)
		o.Op("prove "+drv.Hex(key(c.prover).User), "proof "+ps)
		req := reqLine(key(c.about), c.value(state), c.membership, t.SMT().Root(), ps)
		res := v.Verify("4 " + req)
		o.Op("verify "+req, res)
		o.Count("witness:" + c.sig + ":" + res)
		if res == "accept" || res == "panic" || res == "hang" {
			sig := c.sig
			if res == "panic" {
				sig = "C16:verifyproof-panic"
			}
			lim.fail(sig, fmt.Sprintf("witness of Props/C16.lean on the real code: state %v (4-bit keys), honest proof for %04b offered about %04b (membership=%v) → %s",
				c.state, c.prover, c.about, c.membership, res), map[string]any{"key_bits": 4, "history": []string{line}, "call": "verify " + req})
		}
		t.Close()
	}
	// malformed keys, before the root comparison
	o.Case("witness malformed keys")
	o.Op("new 4", fmt.Sprintf("root %s nodes 3 l0 same", drv.Hex(func() []byte { t, _ := c08.NewTree(4); defer t.Close(); return t.SMT().Root() }())))
	for _, proof := range []string{"0b00:aa:0 -:-:0", "05:aa:0 0100:-:0"} {
		req := reqLine(key(11), []byte{1}, true, []byte{0}, proof)
		res := v.Verify("4 " + req)
		o.Op("verify "+req, res)
		o.Count("witness:malformed:" + res)
		if res == "panic" || res == "hang" {
			lim.fail("C16:verifyproof-panic", "malformed proof (empty or one-byte node key) → "+res, map[string]any{"key_bits": 4, "call": "verify " + req})
		}
	}
}
