package c16

import (
	"bytes"
	"crypto/sha256"
	"fmt"
	"strings"

	"github.com/canopy-network/canopy/lib"
	"github.com/canopy-network/canopy/store"

	"verifharness/c08"
	"verifharness/drv"
)

// RunWitnesses is the PERMANENT CORPUS of C16: it runs first on every check and replays, on the real code, the states
// and calls of the Lean witness theorems of Props/C16.lean part A (theorems about the pre-fix model). Since the fix
// commits 9904ec4 (VerifyProof) and 28c6f9a (NewReadOnly prefix) every scenario must be rejected / served correctly;
// a regression makes the oracle fail with the scenario's signature and its replay.
// (4-bit keys; the pool holds one user key per 4-bit hash image):
//
//	sound_fails_foreign_nonmembership        state {0001, 1011}        proof(1011) as "0001 is absent"
//	sound_fails_foreign_membership           state {0101, 0110}        proof(0101) as "0110 holds 0101's value"
//	crashes_on_honest_proof_for_other_key    state {0001, 0100, 1011}  proof(1011) as "0001 is absent"
//	crashes_on_malformed_proof               an empty sibling key / a one-byte key, any root
//	store_complete_fails_witness             Store: commit {3 keys}, NewReadOnly(1).GetProof for a present and an absent key
func RunWitnesses(o *drv.Out, v *Verifier, lim *limiter) {
	u := c08.NewUniverse(4, false)
	key := func(x int) c08.UKey {
		bits := fmt.Sprintf("%04b", x)
		i, ok := u.ByBits[bits]
		if !ok {
			panic("no pool key for " + bits)
		}
		return u.Keys[i]
	}
	type call struct {
		state      []int
		prover     int
		about      int
		value      func(state map[int][]byte) []byte
		membership bool
		sig        string
	}
	calls := []call{
		{[]int{11, 1}, 11, 1, func(map[int][]byte) []byte { return nil }, false, "C16:foreign-proof-accepted-as-nonmembership"},
		{[]int{5, 6}, 5, 6, func(s map[int][]byte) []byte { return s[5] }, true, "C16:foreign-proof-accepted-as-membership"},
		{[]int{4, 11, 1}, 11, 1, func(map[int][]byte) []byte { return nil }, false, "C16:verifyproof-panic"},
	}
	for ci, c := range calls {
		t, err := c08.NewTree(4)
		if err != nil {
			panic(err)
		}
		o.Case(fmt.Sprintf("witness #%d state=%v prover=%04b about=%04b", ci, c.state, c.prover, c.about))
		o.Op("new 4", fmt.Sprintf("root %s nodes 3 l0 same", drv.Hex(t.SMT().Root())))
		var ws []c08.Write
		state := map[int][]byte{}
		for _, x := range c.state {
			val := []byte{byte(x), 0xAA}
			ws = append(ws, c08.Write{K: key(x), Val: val})
			state[x] = val
		}
		line := c08.OpLine(false, ws)
		if res := t.Commit(false, ws); res != "ok" {
			panic(res)
		}
		m := c08.Sentinels(4)
		for x, val := range state {
			h := sha256.Sum256(val)
			m[key(x).Bits] = h[:]
		}
		ref, _ := c08.RefRoot(m)
		l0 := "differs"
		if bytes.Equal(ref, t.SMT().Root()) {
			l0 = "same"
		}
		o.Op(line, fmt.Sprintf("root %s nodes %d l0 %s", drv.Hex(t.SMT().Root()), t.NodeCount(), l0))
		proof, e := t.SMT().GetMerkleProof(key(c.prover).User)
		if e != nil {
			panic(e)
		}
		ps := ShowProof(proof)
		o.Op("prove "+drv.Hex(key(c.prover).User), "proof "+ps)
		req := reqLine(key(c.about), c.value(state), c.membership, t.SMT().Root(), ps)
		res := v.Verify("4 " + req)
		o.Op("verify "+req, res)
		o.Count("witness:" + c.sig + ":" + res)
		if res == "accept" || res == "panic" || res == "hang" {
			sig := c.sig
			if res == "panic" {
				sig = "C16:verifyproof-panic"
			}
			lim.fail(sig, fmt.Sprintf("witness of Props/C16.lean on the real code: state %v (4-bit keys), honest proof for %04b offered about %04b (membership=%v) → %s",
				c.state, c.prover, c.about, c.membership, res), map[string]any{"key_bits": 4, "history": []string{line}, "call": "verify " + req})
		}
		t.Close()
	}
	// malformed keys, before the root comparison
	o.Case("witness malformed keys")
	o.Op("new 4", fmt.Sprintf("root %s nodes 3 l0 same", drv.Hex(func() []byte { t, _ := c08.NewTree(4); defer t.Close(); return t.SMT().Root() }())))
	for _, proof := range []string{"0b00:aa:0 -:-:0", "05:aa:0 0100:-:0"} {
		req := reqLine(key(11), []byte{1}, true, []byte{0}, proof)
		res := v.Verify("4 " + req)
		o.Op("verify "+req, res)
		o.Count("witness:malformed:" + res)
		if res == "panic" || res == "hang" {
			lim.fail("C16:verifyproof-panic", "malformed proof (empty or one-byte node key) → "+res, map[string]any{"key_bits": 4, "call": "verify " + req})
		}
	}
	// store level: the proof a read-only store serves must verify against the root committed for that version
	o.Case("witness store-level proof")
	sti, err := store.NewStoreInMemory(lib.NewNullLogger())
	if err != nil {
		panic(err)
	}
	st := sti.(*store.Store)
	defer st.DB().Close()
	o.Op("store", "ok")
	u160 := c08.NewUniverse(160, false)
	var hist []string
	var ks []c08.UKey
	for i := 0; len(ks) < 4; i++ {
		if k := u160.Keys[i]; !u160.Reserved(k.Bits) && !u160.Border[k.Bits] {
			ks = append(ks, k)
		}
	}
	for i, k := range ks[:3] {
		val := []byte{byte(i + 1), 0xBB}
		if e := st.Set(k.User, val); e != nil {
			panic(e)
		}
		line := "set " + drv.Hex(k.User) + " " + drv.Hex(val)
		hist = append(hist, line)
		o.Op(line, "ok")
	}
	root, e := st.Commit()
	if e != nil {
		panic(e)
	}
	hist = append(hist, "commit")
	o.Op("commit", fmt.Sprintf("root %s l0 same version %d", drv.Hex(root), st.Version()))
	for _, q := range []struct {
		k          c08.UKey
		val        []byte
		membership bool
	}{{ks[0], []byte{1, 0xBB}, true}, {ks[3], nil, false}} {
		m := "n"
		if q.membership {
			m = "m"
		}
		op := fmt.Sprintf("sproof %d %s %s %s", st.Version(), drv.Hex(q.k.User), drv.Hex(q.val), m)
		res := storeProof(st, st.Version(), q.k.User, q.val, q.membership, root)
		hist = append(hist, op)
		o.Op(op, res)
		o.Count("witness:store:" + res[strings.LastIndex(res, " ")+1:])
		if !strings.HasSuffix(res, "verdict accept") {
			lim.fail("C16:readonly-store-proof-prefix",
				fmt.Sprintf("corpus: NewReadOnly(%d).GetProof(%x) does not verify against the committed root (%s): %s", st.Version(), q.k.User, m, res[:min(len(res), 160)]),
				map[string]any{"history": hist})
		}
	}
}

// storeProof asks a read-only store of the given version for a proof and verifies it against the committed root.
func storeProof(st *store.Store, version uint64, key, val []byte, membership bool, committedRoot []byte) string {
	return drv.Recover(func() string {
		ro, e := st.NewReadOnly(version)
		if e != nil {
			return errKind(e)
		}
		defer ro.Discard() // releases the read-only store's database snapshot (the database is closed and re-opened later)
		roRoot, e := ro.Root()
		if e != nil {
			return errKind(e)
		}
		proof, e := ro.GetProof(key)
		if e != nil {
			return errKind(e)
		}
		verdict := "reject"
		ok, e := ro.VerifyProof(key, val, membership, committedRoot, proof)
		if e != nil {
			verdict = errKind(e)
		} else if ok {
			verdict = "accept"
		}
		return fmt.Sprintf("roroot %s proof %s verdict %s", drv.Hex(roRoot), ShowProof(proof), verdict)
	})
}
