package c16

import (
	"fmt"
	"sort"
	"strings"

	"github.com/canopy-network/canopy/lib"
	"github.com/canopy-network/canopy/store"

	"verifharness/c08"
	"verifharness/drv"
)

// RunStoreParallelBlocks (permanent corpus `parallel-blocks-on-committed-tree`, independent of the seed): a store with 48
// committed keys, then blocks of EXACTLY 16, 17, 32 and 64 state operations (new keys, overwrites, deletes) — the sizes
// from which Store.Root() takes CommitParallel (>= 16) on top of a non-empty committed tree. After every block
// NewReadOnly(height).Root() must be the committed root and the served proof of EVERY key of the state (membership) and of
// every key deleted so far (non-membership) must verify against it.
// Signatures C16:served-proof-does-not-verify:parallel-block, C16:readonly-root-differs-from-committed:parallel-block.
func RunStoreParallelBlocks(o *drv.Out, lim *limiter) {
	u := c08.NewUniverse(160, false)
	var hist []string
	defer func() {
		if p := recover(); p != nil {
			lim.fail("C16:store-panic-in-real-code", fmt.Sprintf("parallel-blocks-on-committed-tree: %v", p), map[string]any{"history": hist})
		}
	}()
	sti, err := store.NewStoreInMemory(lib.NewNullLogger())
	if err != nil {
		panic(err)
	}
	st := sti.(*store.Store)
	defer st.DB().Close()
	o.Case("corpus parallel-blocks-on-committed-tree")
	o.Op("store", "ok")
	rec := func(op, res string) { hist = append(hist, op); o.Op(op, res) }
	var pool []c08.UKey // fixed order: every usable pool key, strided so that clusters and random keys mix
	for i := 0; i < len(u.Keys); i++ {
		k := u.Keys[(i*37)%len(u.Keys)]
		if !u.Reserved(k.Bits) && !u.Border[k.Bits] {
			pool = append(pool, k)
		}
	}
	next := 0
	state := map[int][]byte{} // pool index -> value
	gone := map[int]bool{}
	for bi, size := range []int{48, 16, 17, 32, 64} {
		var present []int
		for i := range state {
			present = append(present, i)
		}
		sort.Ints(present)
		for w := 0; w < size; w++ {
			switch {
			case bi > 0 && w%4 == 1 && w/4 < len(present): // delete a committed key
				i := present[w/4]
				st.Delete(pool[i].User)
				delete(state, i)
				gone[i] = true
				rec("del "+drv.Hex(pool[i].User), "ok")
			case bi > 0 && w%4 == 3 && len(present)-1-w/4 > w/4: // overwrite a committed key
				i := present[len(present)-1-w/4]
				val := []byte{0xB0 + byte(bi), byte(w)}
				st.Set(pool[i].User, val)
				state[i] = val
				rec("set "+drv.Hex(pool[i].User)+" "+drv.Hex(val), "ok")
			default: // a new key
				i := next
				next++
				val := []byte{0xA0 + byte(bi), byte(w)}
				st.Set(pool[i].User, val)
				state[i] = val
				rec("set "+drv.Hex(pool[i].User)+" "+drv.Hex(val), "ok")
			}
		}
		Progress("corpus parallel-blocks-on-committed-tree", fmt.Sprintf("commit (block of %d operations)", size), hist)
		root, e := st.Commit()
		if e != nil {
			panic(e)
		}
		vn := st.Version()
		rec("commit", fmt.Sprintf("root %s l0 same version %d", drv.Hex(root), vn))
		o.Count(fmt.Sprintf("parallel-blocks:block-of-%d", size))
		var idx []int
		for i := range state {
			idx = append(idx, i)
		}
		sort.Ints(idx)
		var del []int
		for i := range gone {
			if _, back := state[i]; !back {
				del = append(del, i)
			}
		}
		sort.Ints(del)
		query := func(i int, val []byte, membership bool) {
			m := "n"
			if membership {
				m = "m"
			}
			op := fmt.Sprintf("sproof %d %s %s %s", vn, drv.Hex(pool[i].User), drv.Hex(val), m)
			res := storeProof(st, vn, pool[i].User, val, membership, root)
			rec(op, res)
			o.Count("sproof:parallel-block:" + m + ":" + res[strings.LastIndex(res, " ")+1:])
			o.Nontrivial("parblocks|" + op)
			rootOK := strings.HasPrefix(res, "roroot "+drv.Hex(root)+" ")
			if strings.HasSuffix(res, "verdict accept") && rootOK {
				return
			}
			sig := "C16:served-proof-does-not-verify:parallel-block"
			if !rootOK {
				sig = "C16:readonly-root-differs-from-committed:parallel-block"
			}
			lim.fail(sig, fmt.Sprintf("block of %d operations on a committed tree of %d keys: NewReadOnly(%d) Root()/GetProof(%x) (%s) against the committed root %x: %s",
				size, len(present), vn, pool[i].User, m, root, res[:min(len(res), 120)]), map[string]any{"history": hist})
		}
		for _, i := range idx {
			query(i, state[i], true)
		}
		for _, i := range del {
			query(i, nil, false)
		}
	}
}
