package c16

import (
	"bytes"
	"crypto/sha256"
	"encoding/binary"
	"fmt"
	"math/bits"

	"github.com/canopy-network/canopy/lib"

	"verifharness/c08"
	"verifharness/drv"
)

// RunResplitCorpus is the permanent corpus for the "re-split key/value boundary" forgery (160-bit keys).
//
// Parent hashes are H(lkey‖lvalue‖rkey‖rvalue) without length prefixes, so moving the boundary between a proof node's
// key and value leaves the whole hash chain byte-identical. The verifier must therefore never accept a re-split node as
// a different well-formed key. The scenario brute-forces leaves for which a re-split LOOKS well formed:
//
//	+1: Key' = key‖value[0] — 21 data bytes, final data byte = the old meta byte m, new meta byte p = value[0];
//	    looks like a 161..168-bit key when p + max(bitlen(m),1) <= 8 (only an unbounded validNodeKey lets it through)
//	-1: Key' = key[:20]     — 18 data bytes, final data byte = hash byte 19, meta byte = hash byte 20; a perfectly
//	    well-formed key of <= 152 bits when byte20 + max(bitlen(byte19),1) <= 8
//
// and offers the re-split honest membership proof of such a present leaf as a NON-membership proof for it (oracle:
// C16:forged-proof-accepted-as-nonmembership) and as a membership proof; shifts of ±1, ±2 bytes at proof[0] and at every
// other proof node.
func RunResplitCorpus(o *drv.Out, v *Verifier, lim *limiter) {
	userKey := func(i uint32) []byte {
		var b [4]byte
		binary.BigEndian.PutUint32(b[:], i)
		return lib.JoinLenPrefix([]byte{0xC9}, b[:])
	}
	mk := func(i uint32) c08.UKey {
		k := userKey(i)
		h := sha256.Sum256(k)
		return c08.UKey{User: k, Bits: c08.BitsOf(h[:], 160)}
	}
	lastBits := func(last, pad byte) int { return int(pad) + max(bits.Len8(last), 1) }
	// victims
	var plusKey, minusKey, minus2Key c08.UKey
	var plusVal []byte
	found := 0
	for i := uint32(0); i < 2_000_000 && found < 3; i++ {
		k := mk(i)
		h := sha256.Sum256(k.User)
		enc := c08.EncBits(k.Bits) // 20 data bytes + meta
		if plusKey.User == nil && enc[20] != 0 {
			for j := uint32(0); j < 100000; j++ {
				val := []byte(fmt.Sprintf("balance/%d", j))
				if p := sha256.Sum256(val); lastBits(enc[20], p[0]) <= 8 {
					plusKey, plusVal = k, val
					found++
					break
				}
			}
			continue
		}
		if minusKey.User == nil && lastBits(h[18], h[19]) <= 8 {
			minusKey = k
			found++
			continue
		}
		if minus2Key.User == nil && lastBits(h[17], h[18]) <= 8 {
			minus2Key = k
			found++
		}
	}
	if found < 3 {
		panic("resplit corpus: no suitable leaves found")
	}
	t, err := c08.NewTree(160)
	if err != nil {
		panic(err)
	}
	defer t.Close()
	o.Case("corpus resplit-key-value-boundary n=160")
	o.Op("new 160", fmt.Sprintf("root %s nodes 3 l0 same", drv.Hex(t.SMT().Root())))
	state := map[string][]byte{}
	ws := []c08.Write{{K: plusKey, Val: plusVal}, {K: minusKey, Val: []byte("v-minus")}, {K: minus2Key, Val: []byte("v-minus2")}}
	for i := uint32(0); len(ws) < 12; i++ {
		k := mk(3_000_000 + i)
		ws = append(ws, c08.Write{K: k, Val: []byte(fmt.Sprintf("other/%d", i))})
	}
	line := c08.OpLine(false, ws)
	if res := t.Commit(false, ws); res != "ok" {
		panic(res)
	}
	m := c08.Sentinels(160)
	for _, w := range ws {
		state[w.K.Bits] = w.Val
		h := sha256.Sum256(w.Val)
		m[w.K.Bits] = h[:]
	}
	ref, _ := c08.RefRoot(m)
	l0 := "differs"
	if bytes.Equal(ref, t.SMT().Root()) {
		l0 = "same"
	}
	o.Op(line, fmt.Sprintf("root %s nodes %d l0 %s", drv.Hex(t.SMT().Root()), t.NodeCount(), l0))
	root := t.SMT().Root()
	replay := func(call string) map[string]any {
		return map[string]any{"key_bits": 160, "history": []string{line}, "call": call}
	}
	for _, w := range ws[:3] {
		proof, e := t.SMT().GetMerkleProof(w.K.User)
		if e != nil {
			panic(e)
		}
		ps := ShowProof(proof)
		o.Op("prove "+drv.Hex(w.K.User), "proof "+ps)
		verifyAndJudge(o, v, lim, 160, root, state, replay, "own-membership", statement{w.K, w.Val, true}, ps, true)
		for idx := range proof {
			for _, d := range []int{-2, -1, 1, 2} {
				forged := make([]*lib.Node, len(proof))
				for i, n := range proof {
					forged[i] = &lib.Node{Key: bytes.Clone(n.Key), Value: bytes.Clone(n.Value), Bitmask: n.Bitmask}
				}
				if !resplit(forged, idx, d) {
					continue
				}
				kind := fmt.Sprintf("resplit[%d]%+d", idx, d)
				if idx > 1 {
					kind = fmt.Sprintf("resplit[inner]%+d", d)
				}
				fs := ShowProof(forged)
				verifyAndJudge(o, v, lim, 160, root, state, replay, kind, statement{w.K, nil, false}, fs, false)
				verifyAndJudge(o, v, lim, 160, root, state, replay, kind, statement{w.K, w.Val, true}, fs, false)
			}
		}
	}
}
