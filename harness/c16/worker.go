// Package c16 drives the real GetMerkleProof / VerifyProof (SMT and Store level) for C16.
package c16

import (
	"bufio"
	"encoding/hex"
	"fmt"
	"io"
	"os"
	"os/exec"
	"strconv"
	"strings"
	"time"

	"github.com/canopy-network/canopy/lib"
	"github.com/canopy-network/canopy/store"
	"github.com/cockroachdb/pebble/v2"
	"github.com/cockroachdb/pebble/v2/vfs"
)

// VerifyProof has unbounded loops and panics on some inputs. Every call on an adversarial proof is therefore
// made in a child process (this binary with the argument "worker"): requests on stdin, verdicts on fd 3; the
// parent kills and restarts the child when an answer takes longer than the timeout (verdict "hang").

type nullLog struct{}

func (nullLog) Infof(string, ...interface{})  {}
func (nullLog) Errorf(string, ...interface{}) {}
func (nullLog) Fatalf(string, ...interface{}) {}

func unhex(s string) []byte {
	if s == "-" || s == "" {
		return nil
	}
	b, err := hex.DecodeString(s)
	if err != nil {
		panic(err)
	}
	return b
}

func hx(b []byte) string {
	if len(b) == 0 {
		return "-"
	}
	return hex.EncodeToString(b)
}

// ParseProof decodes "key:value:bitmask" tokens.
func ParseProof(toks []string) []*lib.Node {
	var out []*lib.Node
	for _, t := range toks {
		p := strings.Split(t, ":")
		bm, _ := strconv.Atoi(p[2])
		out = append(out, &lib.Node{Key: unhex(p[0]), Value: unhex(p[1]), Bitmask: int32(bm)})
	}
	return out
}

// ShowProof encodes a proof as "key:value:bitmask" tokens.
func ShowProof(p []*lib.Node) string {
	var s []string
	for _, n := range p {
		s = append(s, fmt.Sprintf("%s:%s:%d", hx(n.Key), hx(n.Value), n.Bitmask))
	}
	return strings.Join(s, " ")
}

func errKind(e lib.ErrorI) string {
	switch {
	case e == nil:
		return ""
	case strings.Contains(e.Error(), "reserve"):
		return "err:reserved"
	case e.Code() == store.ErrInvalidMerkleTreeProof().Code():
		return "err:invalid-proof"
	}
	return fmt.Sprintf("err:%d", e.Code())
}

// verifyReal calls the real VerifyProof; the request is "<n> <userkey> <value> <m|n> <root> <node>…".
func verifyReal(smts map[int]*store.SMT, req string) (res string) {
	f := strings.Fields(req)
	n, _ := strconv.Atoi(f[0])
	s, ok := smts[n]
	if !ok {
		db, err := pebble.Open("", &pebble.Options{FS: vfs.NewMem(), Logger: nullLog{}})
		if err != nil {
			panic(err)
		}
		vs := store.NewVersionedStore(db.NewSnapshot(), db.NewBatch(), 1)
		s = store.NewSMT(store.RootKey, n, store.NewTxn(vs, vs, lib.JoinLenPrefix([]byte("c/")), false, false, true, 1))
		smts[n] = s
	}
	defer func() {
		if r := recover(); r != nil {
			res = "panic"
		}
	}()
	ok2, e := s.VerifyProof(unhex(f[1]), unhex(f[2]), f[3] == "m", unhex(f[4]), ParseProof(f[5:]))
	if e != nil {
		return errKind(e)
	}
	if ok2 {
		return "accept"
	}
	return "reject"
}

// WorkerMain is the child process.
func WorkerMain() {
	out := os.NewFile(3, "verdicts")
	devnull, _ := os.OpenFile(os.DevNull, os.O_WRONLY, 0)
	os.Stdout, os.Stderr = devnull, devnull // VerifyProof logs through lib.NewDefaultLogger()
	smts := map[int]*store.SMT{}
	in := bufio.NewReaderSize(os.Stdin, 1<<20)
	for {
		line, err := in.ReadString('\n')
		if line = strings.TrimSpace(line); line != "" {
			fmt.Fprintln(out, verifyReal(smts, line))
		}
		if err != nil {
			return
		}
	}
}

// Verifier is the parent's handle on the child.
type Verifier struct {
	cmd     *exec.Cmd
	in      io.WriteCloser
	out     *bufio.Reader
	outFile *os.File
	Timeout time.Duration
	Hangs   int
}

func (v *Verifier) start() {
	r, w, err := os.Pipe()
	if err != nil {
		panic(err)
	}
	exe, _ := os.Executable()
	v.cmd = exec.Command(exe, "worker")
	v.cmd.ExtraFiles = []*os.File{w}
	v.in, _ = v.cmd.StdinPipe()
	if err := v.cmd.Start(); err != nil {
		panic(err)
	}
	w.Close()
	v.outFile = r
	v.out = bufio.NewReader(r)
}

func (v *Verifier) stop() {
	if v.cmd != nil {
		v.in.Close()
		v.cmd.Process.Kill()
		v.cmd.Wait()
		v.outFile.Close()
		v.cmd = nil
	}
}

func (v *Verifier) Close() { v.stop() }

// Verify returns accept | reject | err:… | panic | hang.
func (v *Verifier) Verify(req string) string {
	if v.cmd == nil {
		v.start()
	}
	if _, err := io.WriteString(v.in, req+"\n"); err != nil {
		v.stop()
		return "died"
	}
	ch := make(chan string, 1)
	rd := v.out
	go func() {
		line, err := rd.ReadString('\n')
		if err != nil {
			ch <- "died"
			return
		}
		ch <- strings.TrimSpace(line)
	}()
	select {
	case res := <-ch:
		if res == "died" {
			v.stop()
		}
		return res
	case <-time.After(v.Timeout):
		v.Hangs++
		v.stop() // the reader goroutine ends with the closed pipe
		return "hang"
	}
}
