package c16

import (
	"bytes"
	"crypto/sha256"
	"encoding/binary"
	"fmt"

	"github.com/canopy-network/canopy/lib"

	"verifharness/c08"
	"verifharness/drv"
)

// RunTruncatedCorpus (permanent corpus `bottom-truncated`, independent of the seed): for fixed trees at key lengths
// 3, 5, 8 and 160 and EVERY present key, the honest proof is cut from the bottom at every level j: the leaf (and j-1
// further levels) is dropped and proof[0] becomes the INNER node on the key's path (key = common prefix, value = the
// hash the honest proof folds to at that level), followed by the remaining honest siblings. Such a proof stops above
// the keys below that inner node and says nothing about them: offered as NON-membership (and membership) proof for
// every present key below the inner node it must not be accepted — whether the first remaining sibling's key is longer
// or shorter than the inner node's (a verifier that measures the "proven" length on the longer of the two accepts the
// sibling-longer shape). Signatures C16:truncated-proof-accepted-as-nonmembership / -as-membership.
func RunTruncatedCorpus(o *drv.Out, v *Verifier, lim *limiter) {
	for _, n := range []int{3, 5, 8, 160} {
		for variant := 0; variant < 2; variant++ {
			var ws []c08.Write
			state := map[string][]byte{}
			add := func(k c08.UKey) {
				if _, dup := state[k.Bits]; dup {
					return
				}
				val := []byte(fmt.Sprintf("t-%d", len(ws)))
				ws = append(ws, c08.Write{K: k, Val: val})
				state[k.Bits] = val
			}
			if n == 160 {
				for q := 0; q < 24+16*variant; q++ {
					var b [8]byte
					binary.BigEndian.PutUint32(b[:4], uint32(7000+variant))
					binary.BigEndian.PutUint32(b[4:], uint32(q))
					uk := lib.JoinLenPrefix([]byte{0xCB}, b[:])
					h := sha256.Sum256(uk)
					add(c08.UKey{User: uk, Bits: c08.BitsOf(h[:], n)})
				}
			} else {
				u := c08.NewUniverse(n, false)
				for i, k := range u.Keys {
					if u.Reserved(k.Bits) || (variant == 0 && i%3 == 0) || (variant == 1 && i%5 < 2) || len(ws) >= 40 {
						continue
					}
					add(k)
				}
			}
			t, err := c08.NewTree(n)
			if err != nil {
				panic(err)
			}
			if res := t.Commit(false, ws); res != "ok" {
				panic("bottom-truncated corpus: commit " + res)
			}
			root := t.SMT().Root()
			line := c08.OpLine(false, ws)
			o.Case(fmt.Sprintf("corpus bottom-truncated n=%d variant %d (%d keys)", n, variant, len(ws)))
			t0, _ := c08.NewTree(n)
			o.Op(fmt.Sprintf("new %d", n), fmt.Sprintf("root %s nodes 3 l0 same", drv.Hex(t0.SMT().Root())))
			t0.Close()
			m := c08.Sentinels(n)
			for b, val := range state {
				h := sha256.Sum256(val)
				m[b] = h[:]
			}
			ref, _ := c08.RefRoot(m)
			l0 := "differs"
			if bytes.Equal(ref, root) {
				l0 = "same"
			}
			o.Op(line, fmt.Sprintf("root %s nodes %d l0 %s", drv.Hex(root), t.NodeCount(), l0))
			replay := func(call string) map[string]any {
				return map[string]any{"key_bits": n, "history": []string{line}, "call": call}
			}
			offered := map[string]bool{}
			for _, w := range ws {
				honest, e := t.SMT().GetMerkleProof(w.K.User)
				if e != nil || len(honest) < 3 {
					continue
				}
				curBits, ok := keyBits(honest[0].Key, n)
				if !ok {
					continue
				}
				curKey, curVal := honest[0].Key, honest[0].Value
				for j := 1; j+1 < len(honest); j++ {
					sib := honest[j]
					quad := [][]byte{curKey, curVal, sib.Key, sib.Value}
					if sib.Bitmask == 0 {
						quad = [][]byte{sib.Key, sib.Value, curKey, curVal}
					}
					sb, ok := keyBits(sib.Key, n)
					if !ok {
						break
					}
					h := sha256.Sum256(bytes.Join(quad, nil))
					curBits = commonPrefix(curBits, sb)
					curKey, curVal = c08.EncBits(curBits), h[:]
					// the proof cut below level j: proof[0] = the inner node of level j
					cut := []*lib.Node{{Key: bytes.Clone(curKey), Value: bytes.Clone(curVal)}}
					for _, x := range honest[j+1:] {
						cut = append(cut, &lib.Node{Key: bytes.Clone(x.Key), Value: bytes.Clone(x.Value), Bitmask: x.Bitmask})
					}
					nb, _ := keyBits(honest[j+1].Key, n)
					shape := "sibling-shorter"
					if len(nb) > len(curBits) {
						shape = "sibling-longer"
					}
					fs := ShowProof(cut)
					id := w.K.Bits + "|" + fs
					if offered[id] {
						continue
					}
					offered[id] = true
					o.Count("truncated-bottom:" + shape)
					kind := fmt.Sprintf("truncated-bottom[level %d, %s]", j, shape)
					verifyAndJudge(o, v, lim, n, root, state, replay, kind, statement{w.K, nil, false}, fs, false)
					verifyAndJudge(o, v, lim, n, root, state, replay, kind, statement{w.K, w.Val, true}, fs, false)
				}
			}
			t.Close()
		}
	}
}
