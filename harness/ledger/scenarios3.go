package ledger

import (
	"fmt"

	"github.com/canopy-network/canopy/fsm"
	"github.com/canopy-network/canopy/lib"

	"verifharness/drv"
)

// boundaries suggested by the hypotheses of the C12 theorems (`HeightsOK`, duplicate-free committee lists)
//
// The two `*-height-wraps` scenarios are the excluded point of `HeightsOK`; the code has no guard there and the
// oracle reports the known findings C12:unstaking-marker-at-height-zero / C12:paused-marker-at-height-zero.
func init() {
	scenarios = append(scenarios,
		// hypothesis `HeightsOK` of C12.invStaking_preserved: height + UnstakingBlocks = 0 mod 2^64. Governance installs
		// UnstakingBlocks = 2^64 - height; an unstake in the same block computes finish height 0, which the code reads as
		// "not unstaking".
		scenario{"unstake-finish-height-wraps", func(o *drv.Out, prop string) {
			g := baseGenesis()
			g.Validators = []GenVal{{Key: BLSKeys[0], Stake: 1000000, Committees: []uint64{1}, Output: BLSKeys[0].Addr},
				{Key: BLSKeys[1], Stake: 1000000, Committees: []uint64{1}, Output: BLSKeys[1].Addr}}
			c, _ := NewChain(o, prop, g)
			emptyBlocks(c, 1)
			c.Mint()
			c.ChangeParam(EdKeys[0], 10000, "val", "unstakingBlocks", MaxU-c.Height()+1, 0, 100)
			c.Unstake(BLSKeys[0], 10000, BLSKeys[0].Addr)
			c.Unstake(BLSKeys[0], 10000, BLSKeys[0].Addr) // accepted a second time: the record says "not unstaking"
			c.End()
			emptyBlocks(c, 3)
			c.Finish()
		}},
		// the same for a pause: MaxPauseBlocks = 2^64 - height
		scenario{"pause-max-height-wraps", func(o *drv.Out, prop string) {
			g := baseGenesis()
			g.Validators = []GenVal{{Key: BLSKeys[0], Stake: 1000000, Committees: []uint64{1}, Output: BLSKeys[0].Addr},
				{Key: BLSKeys[1], Stake: 1000000, Committees: []uint64{1}, Output: BLSKeys[1].Addr}}
			c, _ := NewChain(o, prop, g)
			emptyBlocks(c, 1)
			c.Mint()
			c.ChangeParam(EdKeys[0], 10000, "val", "maxPauseBlocks", MaxU-c.Height()+1, 0, 100)
			c.Pause(BLSKeys[0], 10000, BLSKeys[0].Addr)
			c.Unpause(BLSKeys[0], 10000, BLSKeys[0].Addr)
			c.End()
			emptyBlocks(c, 3)
			c.Finish()
		}},
		// a genesis validator listing a committee twice: stake / edit-stake messages reject that in checkCommittees;
		// ValidateGenesisState did not look at the list before 0262f16 and the stake was added to the committee's tally
		// once per entry. Now the genesis must be rejected (ErrInvalidNumCommittees); should it be accepted again the
		// oracle reports C12:committee-tally-counts-a-validator-twice.
		scenario{"genesis-duplicate-committee", func(o *drv.Out, prop string) {
			g := baseGenesis()
			g.Validators = []GenVal{{Key: BLSKeys[0], Stake: 1000000, Committees: []uint64{1, 1}, Compound: true, Output: BLSKeys[0].Addr},
				{Key: BLSKeys[1], Stake: 1000000, Committees: []uint64{1, 2}, Output: BLSKeys[1].Addr}}
			c, ok := NewChain(o, prop, g)
			if !ok {
				return
			}
			emptyBlocks(c, 1)
			c.Mint()
			c.Cert(c.Height(), c.Height(), []Member{{BLSKeys[0], 1000000, true}, {BLSKeys[1], 1000000, true}}, nil,
				[]Payment{{BLSKeys[0].Addr, 50, 1}, {BLSKeys[1].Addr, 50, 1}})
			c.End()
			c.Mint()
			c.Slash(1, 10, [][]byte{BLSKeys[0].Addr})
			c.EditStake(BLSKeys[0], 10000, BLSKeys[0].Addr, false, 2000000, []uint64{1, 2}, true, BLSKeys[0].Addr)
			c.End()
			emptyBlocks(c, 2)
			c.Finish()
		}},
		// liveness boundary of C12.never_wedged: auto-compounding into a stake just below 2^64 − (everything else). The
		// guarded additions to Staked / CommitteeStaked / the committee index must not fire as long as the supply
		// identity holds (no scheduled mint here: F5 is a different boundary), for a validator and for a delegate.
		scenario{"compound-near-max-stake", func(o *drv.Out, prop string) {
			for _, delegate := range []bool{false, true} {
				g := baseGenesis()
				g.InitialTokensPerBlock = 0
				rest := uint64(len(g.Accounts))*1000000000 + 5000
				g.Validators = []GenVal{{Key: BLSKeys[0], Stake: MaxU - rest - 1000, Committees: []uint64{1, 2}, Delegate: delegate, Compound: true, Output: BLSKeys[0].Addr},
					{Key: BLSKeys[1], Stake: 1000, Committees: []uint64{1}, Output: BLSKeys[1].Addr}}
				g.Pools = []GenPool{{Id: 1, Amount: 4000}}
				c, ok := NewChain(o, prop, g)
				if !ok {
					panic("scenario genesis rejected")
				}
				emptyBlocks(c, 1)
				c.Mint()
				c.Subsidy(EdKeys[0], 10000, 1, 900000000)
				c.Cert(c.Height(), c.Height(), []Member{{BLSKeys[1], 1000, true}}, nil,
					[]Payment{{BLSKeys[0].Addr, 90, 1}, {EdKeys[1].Addr, 10, 1}})
				c.End()
				emptyBlocks(c, 2)
				c.Finish()
			}
		}},
		// "export the state, boot a new chain from the export": ExportState() lists every pool (incl. the swap escrow
		// pools) AND the order books; NewStateFromGenesis writes the listed pools first and credits every open sell
		// order's AmountForSale to the escrow pool on top. The sum oracle runs on the imported chain from height 1 on
		// (`C04:total-supply-mismatch-genesis-import`); how the two ledgers differ is recorded as an observation (evidence `extra`).
		scenario{"export-then-import", func(o *drv.Out, prop string) {
			for _, listed := range []bool{false, true} {
				g := baseGenesis()
				g.Validators = []GenVal{{Key: BLSKeys[0], Stake: 400, Committees: []uint64{1, 2}, Output: BLSKeys[0].Addr},
					{Key: BLSKeys[1], Stake: 1000000, Committees: []uint64{1}, Compound: true, Output: EdKeys[0].Addr, UnstakingHeight: 9},
					{Key: EdKeys[2], Stake: 5000, Committees: []uint64{2}, Delegate: true, Output: EdKeys[2].Addr}}
				g.Pools = []GenPool{{Id: 1, Amount: 70}, {Id: 2*65535 + 1, Amount: 30}}
				g.Books = []GenBook{{Chain: 1, Orders: []*lib.SellOrder{SellOrder(1, 1, 120, false), SellOrder(2, 1, 80, true)}},
					{Chain: 2, Orders: []*lib.SellOrder{SellOrder(3, 2, 55, false)}}}
				if listed {
					// the escrow, holding and liquidity pools of chain 1 listed explicitly, next to its order book
					g.Pools = append(g.Pools, GenPool{Id: 1 + 65535, Amount: 300}, GenPool{Id: 1 + 16383, Amount: 7}, GenPool{Id: 1 + 32767, Amount: 11})
				}
				c, ok := NewChain(o, prop, g)
				if !ok {
					panic("scenario genesis rejected")
				}
				emptyBlocks(c, 1)
				c.Mint()
				c.Send(EdKeys[0], 10000, EdKeys[3].Addr, 12345)
				c.Stake(BLSKeys[2], 10000, BLSKeys[2], 777, []uint64{1, 3}, false, true, BLSKeys[2].Addr)
				c.Pause(BLSKeys[0], 10000, BLSKeys[0].Addr)
				c.Subsidy(EdKeys[1], 10000, 2, 4242)
				c.End()
				emptyBlocks(c, 1)
				before := c.Scan()
				exp, err := c.SM.ExportState()
				if err != nil {
					panic(err)
				}
				c.Finish()
				c2, ok := NewChain(o, prop, GenesisFromExport(g, exp))
				if !ok {
					o.Count("observation.export-import-rejected")
					continue
				}
				c2.CompareImport(before, c2.Scan())
				emptyBlocks(c2, 2)
				c2.Finish()
			}
		}},
		// vesting sends (MessageSend with a schedule): new tranche, top-up with identical terms in the same block and
		// in LATER blocks (the recipient is then read from the store, not from the per-block account cache), a
		// different schedule while the tranche is still locked (rejected), spending locked / vested funds, fees paid by
		// a vesting account, a tranche that has ended (cleared by the next write), a self-send
		scenario{"vesting-sends", func(o *drv.Out, prop string) {
			g := baseGenesis()
			g.Validators = []GenVal{{Key: BLSKeys[0], Stake: 1000000, Committees: []uint64{1}, Output: BLSKeys[0].Addr}}
			c, _ := NewChain(o, prop, g)
			a, b, d := EdKeys[0], EdKeys[1], EdKeys[2]
			fresh := []byte("vesting-recipient-01")
			emptyBlocks(c, 1)
			c.Mint()
			c.SendVesting(a, 10000, fresh, 1000, 1, 2, 40) // new tranche on a fresh account
			c.SendVesting(a, 10000, fresh, 500, 1, 2, 40)  // top-up, same block
			c.SendVesting(a, 10000, b.Addr, 4000, 1, 3, 9) // new tranche on an existing account
			c.End()
			c.Mint()
			c.SendVesting(d, 10000, fresh, 700, 1, 2, 40)   // top-up in a LATER block
			c.SendVesting(d, 10000, fresh, 700, 1, 2, 41)   // different terms while locked: rejected
			c.SendVesting(d, 10000, b.Addr, 250, 1, 3, 9)   // top-up in a later block, existing account
			c.Send(b, 10000, a.Addr, 1000000000)            // b tries to spend its locked part too
			c.Send(b, 10000, a.Addr, 999000000)             // the unlocked part is spendable
			c.End()
			c.Mint()
			c.Send(a, 10000, a.Addr, 5)                     // failed tx first ...
			c.Send(d, 0, a.Addr, 5)                         // (fee below the limit)
			c.SendVesting(a, 10000, fresh, 11, 1, 2, 40)    // ... then a top-up in the same block
			c.SendVesting(b, 10000, b.Addr, 100, 1, 3, 9)   // self top-up
			c.Stake(b, 10000, BLSKeys[1], 3000, []uint64{1}, false, false, b.Addr) // a vesting account pays a stake and its fee
			c.End()
			for i := 0; i < 7; i++ { // past the end of b's tranche (height 9): the next write clears the fields
				c.Mint()
				c.Send(a, 10000, b.Addr, 1)
				c.SendVesting(a, 10000, fresh, 3, 1, 2, 40)
				c.End()
			}
			c.Mint()
			c.SendVesting(a, 10000, b.Addr, 77, 2, 2, 3) // a schedule that is already over: new tranche, cleared at once
			c.SendVesting(a, 10000, b.Addr, 77, 0, 0, 0) // all heights zero: a plain send
			c.SendVesting(a, 10000, b.Addr, 77, 5, 4, 9) // cliff before start: invalid
			c.End()
			c.Finish()
		}},
		// counter-chain DEX batches of more than 256 limit orders with repeated contents 256 positions apart and a
		// liquidity withdrawal in the same batch (oracle-only: DEX internals are modelled under C20): handling a batch
		// only moves tokens, so the sum oracle must hold after it (`C04:total-supply-mismatch-dex-batch`)
		scenario{"dex-big-batch", func(o *drv.Out, prop string) {
			for k := 0; k < 3; k++ {
				g := baseGenesis()
				g.Validators = []GenVal{{Key: BLSKeys[0], Stake: 1000000, Committees: []uint64{1, 2}, Output: BLSKeys[0].Addr}}
				g.Pools = []GenPool{{Id: 2 + LiquidityPoolAddend, Amount: 1000000000}}
				c, _ := NewChain(o, prop, g)
				emptyBlocks(c, 1)
				lp := EdKeys[3].Addr
				c.DexSetup(2, lp)
				c.Mint()
				b := &lib.DexBatch{Committee: 1, PoolSize: 1000000000, ReceiptHash: make([]byte, 32)}
				for i := 0; i < 300+100*k; i++ {
					trader := i % 256
					addr := make([]byte, 20)
					addr[0], addr[1] = 0xAA, byte(trader)
					b.Orders = append(b.Orders, &lib.DexLimitOrder{AmountForSale: 1000000, RequestedAmount: 1, Address: addr, OrderId: []byte{0xBB, byte(i), byte(i >> 8)}})
				}
				b.Withdrawals = []*lib.DexLiquidityWithdraw{{Address: lp, Percent: 50, OrderId: []byte{0xCC}}}
				c.DexBatch(o.Rng, 2, b)
				c.End()
				emptyBlocks(c, 1)
				c.Finish()
			}
		}},
		// Ethereum-signed sends in the RLP.V2 envelope (oracle-only: account nonces are outside the ledger model) from
		// senders that are not in the per-block account cache (first transaction of a block, after a failed
		// transaction) and from warm ones: the nonce floor is advanced on the account record AFTER fee deduction and
		// the handler ran; a transaction only moves tokens (`C04:total-supply-mismatch-rlp-v2`)
		scenario{"rlp-v2-sends", func(o *drv.Out, prop string) {
			g := baseGenesis()
			for _, k := range EthKeys {
				g.Accounts = append(g.Accounts, GenAcc{Addr: k.Addr, Amount: 1000000000})
			}
			g.Validators = []GenVal{{Key: BLSKeys[0], Stake: 1000000, Committees: []uint64{1}, Output: BLSKeys[0].Addr}}
			c, _ := NewChain(o, prop, g)
			emptyBlocks(c, 1)
			a, b := EthKeys[0], EthKeys[1]
			c.Mint()
			c.EthSend(a, 0, EdKeys[0].Addr, 5000, 1, false) // first appearance in the block: cold anyway
			c.EthSend(a, 1, EdKeys[0].Addr, 7000, 1, false) // warm
			c.EthSend(a, 1, EdKeys[0].Addr, 7000, 1, false) // replay: nonce below the floor
			c.End()
			c.Mint()
			c.Send(EdKeys[0], 10000, a.Addr, 123)           // a is written by a native tx first: warm
			c.EthSend(a, 5, b.Addr, 900, 2, false)          // gap nonce
			c.Send(EdKeys[1], 0, a.Addr, 1)                 // fails (fee): caches reset
			c.EthSend(b, 0, a.Addr, 1000000, 1, false)      // cold after the failed transaction
			c.EthSend(b, 1, b.Addr, 10, 1, true)            // self-send, explicitly cold
			c.EthSend(a, 6, EdKeys[2].Addr, 2000000000, 1, true) // more than the balance: rejected
			c.End()
			emptyBlocks(c, 1)
			c.Finish()
		}},
		// the REAL ApplyTransactions loop with its own rollback branch (WholeApply: not the harness-side wrapper): a
		// transaction that fails in the handler AFTER its fee was credited to the reward pool (send / stake / subsidy of
		// more than balance - fee), followed in the same block by further pool users: the fee of the next transaction,
		// a subsidy, or only EndBlock's reward distribution. Permanent shape of seed C04-failed-tx-leaves-pool-cache.
		scenario{"failed-tx-then-pool-users", func(o *drv.Out, prop string) {
			for variant := 0; variant < 4; variant++ {
				g := baseGenesis()
				g.Validators = []GenVal{{Key: BLSKeys[0], Stake: 1000000, Committees: []uint64{1}, Output: BLSKeys[0].Addr}}
				c, _ := NewChain(o, prop, g)
				c.WholeApply = true
				a, b := EdKeys[0], EdKeys[1]
				emptyBlocks(c, 1)
				for blk := 0; blk < 3; blk++ {
					c.Mint()
					if variant == 3 {
						c.Send(b, 10000, a.Addr, 5) // a pool user BEFORE the failing transaction too
					}
					switch variant {
					case 0, 3:
						c.Send(a, 10000, b.Addr, 1000000000) // fee paid, then insufficient funds
					case 1:
						c.Stake(BLSKeys[1], 10000, BLSKeys[1], 1000000000, []uint64{1}, false, false, BLSKeys[1].Addr)
					case 2:
						c.Subsidy(a, 10000, 1, 1000000000)
					}
					if variant != 2 || blk != 1 {
						c.Send(b, 10000, a.Addr, 7) // the next fee builds on the reward pool
					}
					if blk == 2 {
						c.Subsidy(b, 10000, 1, 4242)
						c.Send(a, 10000, b.Addr, 1000000000) // fails last: only EndBlock uses the pool afterwards
					}
					c.End()
				}
				emptyBlocks(c, 1)
				c.Finish()
			}
		}},
		// permanent shapes of kept seeds that used to be reached by the random stream only (C04)
		scenario{"ledger-corners", func(o *drv.Out, prop string) {
			// an edit-stake whose amount is BELOW the current stake (a compounder re-submitting its original bond while
			// changing committees / output / compound flag): the stake must not shrink
			g := baseGenesis()
			g.Validators = []GenVal{{Key: BLSKeys[0], Stake: 1000, Committees: []uint64{1}, Compound: true, Output: BLSKeys[0].Addr},
				{Key: EdKeys[2], Stake: 700, Committees: []uint64{1, 2}, Delegate: true, Output: EdKeys[2].Addr}}
			c, _ := NewChain(o, prop, g)
			emptyBlocks(c, 1)
			c.Mint()
			c.EditStake(BLSKeys[0], 10000, BLSKeys[0].Addr, false, 500, []uint64{1, 2}, false, BLSKeys[0].Addr)
			c.EditStake(EdKeys[2], 10000, EdKeys[2].Addr, true, 1, []uint64{2}, true, EdKeys[2].Addr)
			c.EditStake(BLSKeys[0], 10000, BLSKeys[0].Addr, false, 1000, []uint64{1}, true, BLSKeys[0].Addr)
			c.End()
			emptyBlocks(c, 1)
			c.Finish()
			// a block mint that does not divide by the number of subsidized committees: 100 tokens, 5 % DAO, three
			// committees at 100 % of the stake -> 95 / 3 leaves 2
			g = baseGenesis()
			g.InitialTokensPerBlock = 100
			g.Validators = []GenVal{{Key: BLSKeys[0], Stake: 1000, Committees: []uint64{1, 2, 3}, Output: BLSKeys[0].Addr}}
			c, _ = NewChain(o, prop, g)
			emptyBlocks(c, 4)
			c.Finish()
			// a compounding validator that is unstaking is named reward recipient: it is paid the early-withdrawal amount
			// to its output address and the penalty is burnt with the rest of the pool
			g = baseGenesis()
			g.Validators = []GenVal{{Key: BLSKeys[0], Stake: 1000000, Committees: []uint64{1}, Output: BLSKeys[0].Addr},
				{Key: BLSKeys[1], Stake: 500000, Committees: []uint64{1}, Compound: true, Output: EdKeys[0].Addr, UnstakingHeight: 7}}
			c, _ = NewChain(o, prop, g)
			emptyBlocks(c, 1)
			for i := 0; i < 3; i++ {
				c.Mint()
				c.Cert(c.Height(), c.Height(), []Member{{BLSKeys[0], 1000000, true}, {BLSKeys[1], 500000, true}}, nil,
					[]Payment{{BLSKeys[1].Addr, 60, 1}, {BLSKeys[0].Addr, 30, 1}})
				c.End()
			}
			emptyBlocks(c, 4)
			c.Finish()
		}},
		// permanent shapes of kept C12 seeds that used to be reached by the random stream only
		scenario{"staking-corners", func(o *drv.Out, prop string) {
			two := func() *Genesis {
				g := baseGenesis()
				g.Validators = []GenVal{{Key: BLSKeys[0], Stake: 1000000, Committees: []uint64{1}, Output: BLSKeys[0].Addr},
					{Key: BLSKeys[1], Stake: 100, Committees: []uint64{1, 2}, Output: BLSKeys[1].Addr}}
				return g
			}
			// pause, then begin unstaking by a path other than the max-pause timeout: message, slash below the minimum
			for variant := 0; variant < 2; variant++ {
				g := two()
				g.Params.Validator.MinimumStakeForValidators = 90
				c, _ := NewChain(o, prop, g)
				emptyBlocks(c, 1)
				c.Mint()
				c.Pause(BLSKeys[1], 10000, BLSKeys[1].Addr)
				if variant == 0 {
					c.Unstake(BLSKeys[1], 10000, BLSKeys[1].Addr)
				} else {
					c.Slash(1, 20, [][]byte{BLSKeys[1].Addr})
				}
				c.End()
				emptyBlocks(c, 7)
				c.Finish()
			}
			// more than MaxNonSign missed certificates inside one window, unstake before the window closes, then the
			// window closes: the unstaking validator must not be auto-paused
			g := two()
			g.Params.Validator.NonSignWindow, g.Params.Validator.MaxNonSign = 4, 1
			g.Params.Validator.UnstakingBlocks = 4
			c, _ := NewChain(o, prop, g)
			for c.Height() < 6 {
				c.Mint()
				c.Cert(c.Height(), c.Height(), []Member{{BLSKeys[0], 1000000, true}, {BLSKeys[1], 100, false}}, nil, nil)
				if c.Height() == 3 {
					c.Unstake(BLSKeys[1], 10000, BLSKeys[1].Addr)
				}
				c.End()
			}
			emptyBlocks(c, 6)
			c.Finish()
			// an unstaking validator drops below the minimum exactly in the block of its finish height (slash; raised
			// minimum): no second marker
			for variant := 0; variant < 2; variant++ {
				g = two()
				g.Params.Validator.MinimumStakeForValidators = 90
				g.Validators[1].UnstakingHeight = 4
				c, _ = NewChain(o, prop, g)
				for c.Height() < 4 {
					emptyBlocks(c, 1)
				}
				c.Mint()
				if variant == 0 {
					c.Slash(1, 20, [][]byte{BLSKeys[1].Addr})
				} else {
					c.ChangeParam(EdKeys[0], 10000, "val", "minimumStakeForValidators", 500, 0, 100)
				}
				c.End()
				emptyBlocks(c, 6)
				c.Finish()
			}
			// protocol v2: one slash reaches the per-committee cap (ejection from that committee) AND is the one that drops
			// the stake below the minimum (forced unstake)
			g = two()
			g.Params.Consensus.ProtocolVersion = fsm.NewProtocolVersion(0, 2)
			g.Params.Validator.MinimumStakeForValidators = 90
			g.Params.Validator.MaxSlashPerCommittee = 15
			c, _ = NewChain(o, prop, g)
			emptyBlocks(c, 1)
			c.Mint()
			c.Slash(1, 20, [][]byte{BLSKeys[1].Addr})
			c.End()
			emptyBlocks(c, 6)
			c.Finish()
		}},
	)
}

// SellOrder is a well-formed open (or buyer-locked) sell order of `amount` tokens on `chain`
func SellOrder(n byte, chain, amount uint64, locked bool) *lib.SellOrder {
	id := make([]byte, 20)
	id[19] = n
	o := &lib.SellOrder{Id: id, Committee: chain, AmountForSale: amount, RequestedAmount: amount/2 + 1,
		SellerReceiveAddress: EdKeys[0].Addr, SellersSendAddress: EdKeys[1].Addr}
	if locked {
		o.BuyerReceiveAddress, o.BuyerSendAddress, o.BuyerChainDeadline = EdKeys[2].Addr, EdKeys[2].Addr, 100
	}
	return o
}

// CompareImport records how the ledger booted from the export of a chain differs from that chain's ledger (accounts,
// pools, validator records, supply record, staking indexes; the height, non-signer counters and committee data are
// "export only" and start afresh). This is an OBSERVATION, not an oracle: C04 speaks about one chain from its own
// genesis, and the imported chain satisfies the supply identity (checked as a hard failure by the sum oracle under
// `-genesis-import`). Observed on the current code: ExportState lists escrow pools that already hold the open orders'
// tokens next to the order books, and NewStateFromGenesis credits the orders again: + Σ AmountForSale on import.
func (c *Chain) CompareImport(before, after *Snap) {
	b, a := *before, *after
	b.Height, a.Height = 0, 0
	b.NS, a.NS, b.CData, a.CData = nil, nil, nil, nil
	if b.Dump() == a.Dump() {
		c.O.Count("observation.export-import-identical")
		return
	}
	switch {
	case b.Total != a.Total:
		c.O.Count("observation.export-import-changes-total-supply")
	case pairs(b.Pools, "%d:%d") != pairs(a.Pools, "%d:%d"):
		c.O.Count("observation.export-import-changes-pools")
	default:
		c.O.Count("observation.export-import-changes-ledger")
	}
	deltas, _ := c.O.Extra["export_import_total_delta"].([]int64)
	c.O.Extra["export_import_total_delta"] = append(deltas, int64(a.Total)-int64(b.Total))
	pool := map[uint64]uint64{}
	for _, p := range b.Pools {
		pool[p[0]] = p[1]
	}
	var diffs []string
	for _, p := range a.Pools {
		if pool[p[0]] != p[1] {
			diffs = append(diffs, fmt.Sprintf("%d:%d->%d", p[0], pool[p[0]], p[1]))
		}
	}
	pd, _ := c.O.Extra["export_import_pool_changes"].([]string)
	c.O.Extra["export_import_pool_changes"] = append(pd, joinOrDash(diffs, ","))
}
