package ledger

import "verifharness/drv"

// boundaries suggested by the hypotheses of the C12 theorems (`HeightsOK`, duplicate-free committee lists)
//
// The two `*-height-wraps` scenarios are the excluded point of `HeightsOK`; the code has no guard there and the
// oracle reports the known findings C12:unstaking-marker-at-height-zero / C12:paused-marker-at-height-zero.
func init() {
	scenarios = append(scenarios,
		// hypothesis `HeightsOK` of C12.invStaking_preserved: height + UnstakingBlocks = 0 mod 2^64. Governance installs
		// UnstakingBlocks = 2^64 - height; an unstake in the same block computes finish height 0, which the code reads as
		// "not unstaking".
		scenario{"unstake-finish-height-wraps", func(o *drv.Out, prop string) {
			g := baseGenesis()
			g.Validators = []GenVal{{Key: BLSKeys[0], Stake: 1000000, Committees: []uint64{1}, Output: BLSKeys[0].Addr},
				{Key: BLSKeys[1], Stake: 1000000, Committees: []uint64{1}, Output: BLSKeys[1].Addr}}
			c, _ := NewChain(o, prop, g)
			emptyBlocks(c, 1)
			c.Mint()
			c.ChangeParam(EdKeys[0], 10000, "val", "unstakingBlocks", MaxU-c.Height()+1, 0, 100)
			c.Unstake(BLSKeys[0], 10000, BLSKeys[0].Addr)
			c.Unstake(BLSKeys[0], 10000, BLSKeys[0].Addr) // accepted a second time: the record says "not unstaking"
			c.End()
			emptyBlocks(c, 3)
			c.Finish()
		}},
		// the same for a pause: MaxPauseBlocks = 2^64 - height
		scenario{"pause-max-height-wraps", func(o *drv.Out, prop string) {
			g := baseGenesis()
			g.Validators = []GenVal{{Key: BLSKeys[0], Stake: 1000000, Committees: []uint64{1}, Output: BLSKeys[0].Addr},
				{Key: BLSKeys[1], Stake: 1000000, Committees: []uint64{1}, Output: BLSKeys[1].Addr}}
			c, _ := NewChain(o, prop, g)
			emptyBlocks(c, 1)
			c.Mint()
			c.ChangeParam(EdKeys[0], 10000, "val", "maxPauseBlocks", MaxU-c.Height()+1, 0, 100)
			c.Pause(BLSKeys[0], 10000, BLSKeys[0].Addr)
			c.Unpause(BLSKeys[0], 10000, BLSKeys[0].Addr)
			c.End()
			emptyBlocks(c, 3)
			c.Finish()
		}},
		// a genesis validator listing a committee twice: stake / edit-stake messages reject that in checkCommittees;
		// ValidateGenesisState did not look at the list before 0262f16 and the stake was added to the committee's tally
		// once per entry. Now the genesis must be rejected (ErrInvalidNumCommittees); should it be accepted again the
		// oracle reports C12:committee-tally-counts-a-validator-twice.
		scenario{"genesis-duplicate-committee", func(o *drv.Out, prop string) {
			g := baseGenesis()
			g.Validators = []GenVal{{Key: BLSKeys[0], Stake: 1000000, Committees: []uint64{1, 1}, Compound: true, Output: BLSKeys[0].Addr},
				{Key: BLSKeys[1], Stake: 1000000, Committees: []uint64{1, 2}, Output: BLSKeys[1].Addr}}
			c, ok := NewChain(o, prop, g)
			if !ok {
				return
			}
			emptyBlocks(c, 1)
			c.Mint()
			c.Cert(c.Height(), c.Height(), []Member{{BLSKeys[0], 1000000, true}, {BLSKeys[1], 1000000, true}}, nil,
				[]Payment{{BLSKeys[0].Addr, 50, 1}, {BLSKeys[1].Addr, 50, 1}})
			c.End()
			c.Mint()
			c.Slash(1, 10, [][]byte{BLSKeys[0].Addr})
			c.EditStake(BLSKeys[0], 10000, BLSKeys[0].Addr, false, 2000000, []uint64{1, 2}, true, BLSKeys[0].Addr)
			c.End()
			emptyBlocks(c, 2)
			c.Finish()
		}},
		// liveness boundary of C12.never_wedged: auto-compounding into a stake just below 2^64 − (everything else). The
		// guarded additions to Staked / CommitteeStaked / the committee index must not fire as long as the supply
		// identity holds (no scheduled mint here: F5 is a different boundary), for a validator and for a delegate.
		scenario{"compound-near-max-stake", func(o *drv.Out, prop string) {
			for _, delegate := range []bool{false, true} {
				g := baseGenesis()
				g.InitialTokensPerBlock = 0
				rest := uint64(len(g.Accounts))*1000000000 + 5000
				g.Validators = []GenVal{{Key: BLSKeys[0], Stake: MaxU - rest - 1000, Committees: []uint64{1, 2}, Delegate: delegate, Compound: true, Output: BLSKeys[0].Addr},
					{Key: BLSKeys[1], Stake: 1000, Committees: []uint64{1}, Output: BLSKeys[1].Addr}}
				g.Pools = []GenPool{{Id: 1, Amount: 4000}}
				c, ok := NewChain(o, prop, g)
				if !ok {
					panic("scenario genesis rejected")
				}
				emptyBlocks(c, 1)
				c.Mint()
				c.Subsidy(EdKeys[0], 10000, 1, 900000000)
				c.Cert(c.Height(), c.Height(), []Member{{BLSKeys[1], 1000, true}}, nil,
					[]Payment{{BLSKeys[0].Addr, 90, 1}, {EdKeys[1].Addr, 10, 1}})
				c.End()
				emptyBlocks(c, 2)
				c.Finish()
			}
		}},
	)
}
