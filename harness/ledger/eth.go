package ledger

import (
	"crypto/sha256"
	"fmt"
	"math/big"
	"math/rand"

	"github.com/canopy-network/canopy/fsm"
	"github.com/canopy-network/canopy/lib"
	"github.com/canopy-network/canopy/lib/crypto"
	"github.com/ethereum/go-ethereum/common"
	ethTypes "github.com/ethereum/go-ethereum/core/types"
)

// Ethereum-signed transactions in the RLP.V2 envelope (memo "RLP.V2"): the only transactions that touch the account
// nonce (the replay floor lives in the sender's account record and is advanced by ApplyTransaction after fee
// deduction and the handler ran). Account nonces are outside the ledger model, so a chain is `OracleOnly` from its
// first RLP.V2 transaction on: the transactions run on the real state machine under the sum oracle
// (`C04:total-supply-mismatch-rlp-v2`) and the per-operation total-delta oracle. Senders are taken COLD (not in the
// per-block account cache: first appearance in a block - the controller builds a new state machine per block - or
// after a failed transaction reset the caches) and WARM.

var EthKeys []*Key

func init() {
	for i := 0; i < 3; i++ {
		h := sha256.Sum256([]byte(fmt.Sprintf("verif-ledger-eth-%d", i)))
		k, err := crypto.BytesToEthSECP256K1Private(h[:])
		if err != nil {
			panic(err)
		}
		key := &Key{Priv: k, Pub: k.PublicKey().Bytes(), Addr: k.PublicKey().Address().Bytes()}
		EthKeys = append(EthKeys, key)
		byAddr[string(key.Addr)] = key
	}
}

var ethScale = new(big.Int).Exp(big.NewInt(10), big.NewInt(12), nil) // 18 -> 6 decimals

// EthSend: a legacy-type Ethereum transfer signed for the chain's RLP.V2 EVM chain id, converted by the real
// RLPToCanopyTransactionV2 and applied through the real ApplyTransaction inside the per-transaction rollback
// wrapper. fee = gas * gasPrice / 10^12 with gas = 21000. `cold` drops the state machine's caches first.
func (c *Chain) EthSend(k *Key, nonce uint64, to []byte, amount, feeUnits uint64, cold bool) string {
	c.OracleOnly, c.EthTraffic = true, true
	op := fmt.Sprintf("ethsend from=%s nonce=%d to=%s amount=%d fee=%d cold=%d", hx(k.Addr), nonce, hx(to), amount, 21000*feeUnits, b2i(cold))
	evm, ok := fsm.CanopyIdsToEVMChainIdV2(c.Cfg.ChainId, uint64(c.SM.NetworkID))
	if !ok {
		panic("no RLP.V2 chain id")
	}
	ek := k.Priv.(*crypto.ETHSECP256K1PrivateKey)
	toAddr := common.BytesToAddress(to)
	t := ethTypes.NewTx(&ethTypes.LegacyTx{Nonce: nonce, GasPrice: new(big.Int).Mul(new(big.Int).SetUint64(feeUnits), ethScale), Gas: 21000, To: &toAddr,
		Value: new(big.Int).Mul(new(big.Int).SetUint64(amount), ethScale)})
	signed, err := ethTypes.SignTx(t, ethTypes.LatestSignerForChainID(new(big.Int).SetUint64(evm)), ek.PrivateKey)
	if err != nil {
		panic(err)
	}
	raw, err := signed.MarshalBinary()
	if err != nil {
		panic(err)
	}
	tx, ce := fsm.RLPToCanopyTransactionV2(raw)
	if ce != nil {
		c.emit(op, "convert:"+ErrStr(ce))
		return "convert"
	}
	bz, err := lib.Marshal(tx)
	if err != nil {
		panic(err)
	}
	if cold {
		c.SM.ResetCaches()
	}
	before := c.TotalNow()
	e, p := c.atomically(func() lib.ErrorI {
		_, _, er := c.SM.ApplyTransaction(0, bz, crypto.HashString(bz), nil)
		return er
	})
	res := resOf(e, p)
	c.O.Count(fmt.Sprintf("tx.ethsend.cold=%d.%s", b2i(cold), res))
	c.emit(op, res)
	c.CheckDelta(op, "move", before, 0)
	c.Oracle(c.Scan())
	return res
}

func (c *Chain) nonceFloor(addr []byte) uint64 {
	a, err := c.SM.GetAccount(crypto.NewAddressFromBytes(addr))
	if err != nil {
		panic(err)
	}
	return a.Nonce
}

// RandomEthBlock: a block of native transactions interleaved with RLP.V2 sends from cold and warm senders; nonces at
// the floor, above it (gaps are allowed) and now and then below it (rejected)
func (c *Chain) RandomEthBlock(r *rand.Rand) {
	c.Mint()
	for i := 1 + r.Intn(4); i > 0; i-- {
		if r.Intn(2) == 0 {
			c.RandomTx(r) // warms (or, when it fails, resets) the caches
		}
		k := pick(r, EthKeys)
		n := c.nonceFloor(k.Addr) + uint64(r.Intn(3))
		if r.Intn(10) == 0 && n > 0 {
			n = uint64(r.Intn(int(n)))
		}
		to := pick(r, AllKeys()).Addr
		if r.Intn(4) == 0 {
			to = pick(r, EthKeys).Addr
		}
		c.EthSend(k, n, to, amount(r, c.balance(k.Addr)), pick(r, []uint64{1, 1, 2, 10}), r.Intn(2) == 0)
	}
	c.End()
}
