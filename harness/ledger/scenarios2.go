package ledger

import (
	"github.com/canopy-network/canopy/fsm"

	"verifharness/drv"
)

// Fixed corpus scenarios: past counterexamples (must pass now) and the excluded points of the theorems
// (hypotheses of Canopy.C04 / Canopy.C12), run on the real code so that what happens there is observed,
// not assumed.

func baseGenesis() *Genesis {
	g := &Genesis{ChainId: 1, BlocksPerHalvening: 3150000, InitialTokensPerBlock: 80000000, Params: fsm.DefaultParams()}
	g.Params.Consensus.RootChainId = 1
	g.Params.Validator.UnstakingBlocks = 3
	g.Params.Validator.MaxPauseBlocks = 4
	for _, k := range AllKeys() {
		g.Accounts = append(g.Accounts, GenAcc{Addr: k.Addr, Amount: 1000000000})
	}
	return g
}

func emptyBlocks(c *Chain, n int) {
	for i := 0; i < n; i++ {
		c.Mint()
		c.End()
	}
}

func init() {
	scenarios = append(scenarios,
		// F3 (fixed by 6a62009): validator with stake 1, unstaking at height 5, slashed 10 % -> stake rounds to 0 ->
		// record deleted. Before the repair the marker stayed and EndBlock at height 5 failed forever.
		scenario{"f3-slashed-to-zero-while-unstaking", func(o *drv.Out, prop string) {
			for _, v2 := range []bool{false, true} {
				g := baseGenesis()
				if v2 {
					g.Params.Consensus.ProtocolVersion = fsm.NewProtocolVersion(0, 2)
				}
				g.Validators = []GenVal{{Key: BLSKeys[0], Stake: 1, Committees: []uint64{1}, Output: BLSKeys[0].Addr, UnstakingHeight: 5},
					{Key: BLSKeys[1], Stake: 1000000, Committees: []uint64{1}, Output: BLSKeys[1].Addr}}
				c, ok := NewChain(o, prop, g)
				if !ok {
					panic("scenario genesis rejected")
				}
				c.Mint()
				c.Slash(1, 10, [][]byte{BLSKeys[0].Addr})
				c.End()
				emptyBlocks(c, 6)
				c.Finish()
			}
		}},
		scenario{"f3-slashed-to-zero-while-paused", func(o *drv.Out, prop string) {
			g := baseGenesis()
			g.Validators = []GenVal{{Key: BLSKeys[0], Stake: 1, Committees: []uint64{1}, Output: BLSKeys[0].Addr, MaxPausedHeight: 4},
				{Key: BLSKeys[1], Stake: 5, Committees: []uint64{1}, Output: EdKeys[0].Addr}}
			c, _ := NewChain(o, prop, g)
			c.Mint()
			c.Slash(1, 10, [][]byte{BLSKeys[0].Addr})
			c.Pause(BLSKeys[1], 10000, BLSKeys[1].Addr)
			c.Slash(1, 100, [][]byte{BLSKeys[1].Addr})
			c.End()
			emptyBlocks(c, 8)
			c.Finish()
		}},
		// F5, excluded point of `C04.mint_preserves`: total + mint >= 2^64. AddToTotalSupply and PoolAdd are unguarded.
		scenario{"mint-wraps-total", func(o *drv.Out, prop string) {
			g := baseGenesis()
			g.Accounts = []GenAcc{{Addr: EdKeys[0].Addr, Amount: MaxU - 1000}}
			c, _ := NewChain(o, prop, g)
			emptyBlocks(c, 2)
			c.Finish()
		}},
		// F5 through a governance-approved DAO mint: empty DAO pool, fresh recipient, amount 2^64-1
		scenario{"dao-mint-wraps-total", func(o *drv.Out, prop string) {
			g := baseGenesis()
			g.Accounts = []GenAcc{{Addr: EdKeys[0].Addr, Amount: 1000000}}
			c, _ := NewChain(o, prop, g)
			c.DaoTransfer(EdKeys[1], 0, MaxU, true, 0, 100) // fee below limit: rejected
			g.Params.Fee.DaoTransferFee = 0
			c.Finish()
			c, _ = NewChain(o, prop, g)
			c.DaoTransfer(EdKeys[1], 0, MaxU, true, 0, 100)
			c.End()
			c.Finish()
		}},
		// F5 through the (dev/test) faucet: the top-up `amount + fee - balance` is minted unguarded
		scenario{"faucet-mint-wraps-total", func(o *drv.Out, prop string) {
			g := baseGenesis()
			g.Faucet = EdKeys[0].Addr
			c, _ := NewChain(o, prop, g)
			c.Send(EdKeys[0], 10000, EdKeys[1].Addr, 5000000000) // ordinary top-up: mints 4000010000
			c.Send(EdKeys[0], 10000, []byte("fresh-recipient-0001"), MaxU-20000)
			c.End()
			c.Finish()
		}},
		// excluded point of `C12.never_wedged`: DaoRewardPercentage = 0 encodes to empty bytes; GetParamsGov then fails
		scenario{"zero-dao-percentage", func(o *drv.Out, prop string) {
			g := baseGenesis()
			g.Params.Governance.DaoRewardPercentage = 0
			g.Validators = []GenVal{{Key: BLSKeys[0], Stake: 1000, Committees: []uint64{1}, Output: BLSKeys[0].Addr, UnstakingHeight: 3}}
			c, _ := NewChain(o, prop, g)
			c.Mint()
			c.ChangeParam(EdKeys[0], 10000, "gov", "daoRewardPercentage", 5, 0, 100) // cannot be repaired by governance either
			c.End()
			c.Mint()
			c.Finish()
			// governance can set it to zero (inside the writing block the parameters still read back); the next block
			// cannot begin any more
			g = baseGenesis()
			g.Validators = []GenVal{{Key: BLSKeys[0], Stake: 1000, Committees: []uint64{1}, Output: BLSKeys[0].Addr, UnstakingHeight: 4}}
			c, _ = NewChain(o, prop, g)
			emptyBlocks(c, 1)
			c.Mint()
			c.ChangeParam(EdKeys[0], 10000, "gov", "daoRewardPercentage", 0, 0, 100)
			c.ChangeParam(EdKeys[0], 10000, "fee", "sendFee", 3, 0, 100)
			c.End()
			c.Mint()
			c.ChangeParam(EdKeys[0], 10000, "gov", "daoRewardPercentage", 5, 0, 100)
			c.End()
			c.Finish()
		}},
		// slashing a DELEGATE (a key recorded as non-signer / double signer that re-staked as delegate): before the
		// repair SlashValidator called UpdateCommittees for it and never touched DelegatedOnly / CommitteeDelegatedOnly
		scenario{"slash-delegate", func(o *drv.Out, prop string) {
			for _, v2 := range []bool{false, true} {
				g := baseGenesis()
				if v2 {
					g.Params.Consensus.ProtocolVersion = fsm.NewProtocolVersion(0, 2)
					g.Params.Validator.MaxSlashPerCommittee = 40
				}
				g.Validators = []GenVal{{Key: EdKeys[0], Stake: 1000, Committees: []uint64{1, 2}, Delegate: true, Output: EdKeys[0].Addr},
					{Key: EdKeys[1], Stake: 3, Committees: []uint64{2}, Delegate: true, Output: EdKeys[1].Addr},
					{Key: BLSKeys[1], Stake: 1000000, Committees: []uint64{1}, Output: BLSKeys[1].Addr}}
				c, _ := NewChain(o, prop, g)
				c.Mint()
				c.Slash(1, 30, [][]byte{EdKeys[0].Addr})
				c.Slash(1, 30, [][]byte{EdKeys[0].Addr}) // v2: capped at 40 in total, and ejected from committee 1
				c.Slash(2, 50, [][]byte{EdKeys[1].Addr}) // 3 -> 1
				c.Slash(2, 100, [][]byte{EdKeys[1].Addr}) // to zero: deleted
				c.End()
				c.Unstake(EdKeys[0], 10000, EdKeys[0].Addr)
				emptyBlocks(c, 4)
				c.Finish()
			}
		}},
		// a genesis file that lists an account, a pool id or a validator twice: before the repair of
		// ValidateGenesisState the later entry overwrote the record but both were counted in the supply and staking
		// tallies (and an overwritten unstaking validator kept its marker). Now the genesis must be rejected; should it be
		// accepted again the oracle reports the mismatch under the `-genesis-duplicate-entry` signatures.
		scenario{"genesis-duplicate-entries", func(o *drv.Out, prop string) {
			g := baseGenesis()
			g.Accounts = append(g.Accounts, GenAcc{Addr: g.Accounts[0].Addr, Amount: 5})
			if c, ok := NewChain(o, prop, g); ok {
				emptyBlocks(c, 1)
				c.Finish()
			}
			g = baseGenesis()
			g.Pools = []GenPool{{Id: 1, Amount: 7}, {Id: 3, Amount: 1}, {Id: 1, Amount: 9}}
			if c, ok := NewChain(o, prop, g); ok {
				emptyBlocks(c, 1)
				c.Finish()
			}
			g = baseGenesis()
			g.Validators = []GenVal{{Key: BLSKeys[0], Stake: 100, Committees: []uint64{1, 2}, Output: BLSKeys[0].Addr, UnstakingHeight: 4},
				{Key: BLSKeys[0], Stake: 100, Committees: []uint64{2}, Output: BLSKeys[0].Addr}}
			if c, ok := NewChain(o, prop, g); ok {
				emptyBlocks(c, 4)
				c.Finish()
			}
		}},
		// the whole ApplyTransactions loop (batch signature verification + per-transaction rollback) on one chain
		scenario{"apply-transactions-loop", func(o *drv.Out, prop string) {
			g := RandomGenesis(o.Rng)
			c, ok := NewChain(o, prop, g)
			if !ok {
				return
			}
			c.WholeApply = true
			for b := 0; b < 3; b++ {
				c.Mint()
				for i := 0; i < 4; i++ {
					c.RandomTx(o.Rng)
				}
				c.End()
			}
			c.Finish()
		}},
	)
}
