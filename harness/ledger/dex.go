package ledger

import (
	"fmt"
	"math/rand"

	"github.com/canopy-network/canopy/fsm"
	"github.com/canopy-network/canopy/lib"
	"github.com/canopy-network/canopy/store"
	"google.golang.org/protobuf/proto"
)

// DEX batch processing on the chains of the C04 / C12 harness. The AMM, the batch life cycle and the receipts are
// modelled and checked under C20; here a counter-chain batch is one more operation that may only MOVE tokens
// (liquidity pool -> traders and withdrawing liquidity providers): the sum oracle runs on the real state after it
// (`C04:total-supply-mismatch-dex-batch`) and the recorded total must not change. From the first DEX operation on
// the chain is `OracleOnly` (the ledger model has no DEX).

const LiquidityPoolAddend = 2 * 65535 / 4

// DexSetup rewrites the liquidity pool of `chain` (amount unchanged, so the supply identity is untouched) with
// liquidity-provider points: the dead address and `lps` share the pool.
func (c *Chain) DexSetup(chain uint64, lps ...[]byte) string {
	c.OracleOnly = true
	id := chain + LiquidityPoolAddend
	err, p := c.atomically(func() lib.ErrorI {
		bal, e := c.SM.GetPoolBalance(id)
		if e != nil {
			return e
		}
		pool := &fsm.Pool{Id: id, Amount: bal, Points: []*lib.PoolPoints{{Address: make([]byte, 20), Points: 500000}}, TotalPoolPoints: 500000}
		for _, a := range lps {
			pool.Points = append(pool.Points, &lib.PoolPoints{Address: a, Points: 500000})
			pool.TotalPoolPoints += 500000
		}
		return c.SM.SetPool(pool)
	})
	res := resOf(err, p)
	c.emit(fmt.Sprintf("dexsetup chain=%d lps=%d", chain, len(lps)), res)
	return res
}

// DexBatch hands a counter-chain batch to the real HandleDexBatch exactly like HandleCertificateResults does on the
// root chain (CheckBasic first). The previous block is indexed with a pseudorandom hash: it seeds the order sort keys.
func (c *Chain) DexBatch(r *rand.Rand, chain uint64, b *lib.DexBatch) string {
	c.OracleOnly, c.DexBatched = true, true
	h := c.SM.Height() - 1
	if h < 1 {
		h = 1
	}
	bh := make([]byte, 32)
	r.Read(bh)
	store.VerifPurgeBlockCache()
	if err := c.DB.IndexBlock(&lib.BlockResult{BlockHeader: &lib.BlockHeader{Height: h, Hash: bh}}); err != nil {
		panic(err)
	}
	before := c.TotalNow()
	err, p := c.atomically(func() lib.ErrorI {
		in := proto.Clone(b).(*lib.DexBatch)
		if e := in.CheckBasic(); e != nil {
			return e
		}
		return c.SM.HandleDexBatch(chain, &lib.CertificateResult{DexBatch: in}, false)
	})
	store.VerifPurgeBlockCache()
	res := resOf(err, p)
	c.O.Count("dexbatch." + res)
	c.emit(fmt.Sprintf("dexbatch chain=%d orders=%d deposits=%d withdrawals=%d pool=%d", chain, len(b.Orders), len(b.Deposits), len(b.Withdrawals), b.PoolSize), res)
	c.CheckDelta("dexbatch", "move", before, 0)
	c.Oracle(c.Scan())
	return res
}

// BigDexBatch: more than 256 limit orders, with (address, amountForSale, requestedAmount) contents repeated at the
// distances 1, 255, 256, 257, 512 and random (a trader splitting a sale into equal chunks), order sizes large enough
// relative to the pool that consecutive AMM outputs differ, and - most of the time - a liquidity withdrawal in the same
// batch (it rewrites the pool from the AMM ledger of the batch).
func BigDexBatch(r *rand.Rand, committee uint64, lp []byte, traders [][]byte, withdraw bool) *lib.DexBatch {
	n := 257 + r.Intn(344)
	b := &lib.DexBatch{Committee: committee, PoolSize: uint64(1_000_000_000 + r.Int63n(1<<40))}
	r.Read(func() []byte { b.ReceiptHash = make([]byte, 32); return b.ReceiptHash }())
	mk := func() *lib.DexLimitOrder {
		req := uint64(1)
		if r.Intn(12) == 0 {
			req = 1 << 60 // fails its limit
		}
		return &lib.DexLimitOrder{Address: traders[r.Intn(len(traders))], AmountForSale: uint64(100_000 + r.Intn(3_000_000)), RequestedAmount: req}
	}
	for i := 0; i < n; i++ {
		b.Orders = append(b.Orders, mk())
	}
	cp := func(o *lib.DexLimitOrder) *lib.DexLimitOrder {
		return &lib.DexLimitOrder{Address: o.Address, AmountForSale: o.AmountForSale, RequestedAmount: o.RequestedAmount}
	}
	switch r.Intn(3) {
	case 0: // the tail repeats the head 256 positions earlier
		for i := 256; i < n; i++ {
			b.Orders[i] = cp(b.Orders[i-256])
		}
	case 1: // planted copies at the critical distances
		for _, d := range []int{1, 255, 256, 257, 512, 256, 256, 1 + r.Intn(n-1)} {
			for k := 0; k < 8; k++ {
				if i := r.Intn(n); i+d < n {
					b.Orders[i+d] = cp(b.Orders[i])
				}
			}
		}
	default: // a handful of contents
		kinds := []*lib.DexLimitOrder{mk(), mk(), mk()}
		for i := range b.Orders {
			b.Orders[i] = cp(kinds[r.Intn(len(kinds))])
		}
	}
	for i, o := range b.Orders {
		o.OrderId = []byte{0xBB, byte(i), byte(i >> 8), byte(r.Intn(256))}
	}
	if withdraw {
		b.Withdrawals = []*lib.DexLiquidityWithdraw{{Address: lp, Percent: uint64(1 + r.Intn(60)), OrderId: []byte{0xCC, byte(r.Intn(256))}}}
	}
	return b
}

// RandomDexBatches drives 1-3 counter-chain batches (big ones most of the time) on a chain whose genesis lists the
// liquidity pool of chain 2, with empty blocks in between.
func (c *Chain) RandomDexBatches(r *rand.Rand) {
	lp := EdKeys[3].Addr
	var traders [][]byte
	for _, k := range AllKeys()[:6] {
		traders = append(traders, k.Addr)
	}
	c.DexSetup(2, lp)
	for i := 1 + r.Intn(3); i > 0; i-- {
		c.Mint()
		var b *lib.DexBatch
		if r.Intn(5) == 0 { // a small batch
			b = BigDexBatch(r, c.Cfg.ChainId, lp, traders, r.Intn(2) == 0)
			b.Orders = b.Orders[:1+r.Intn(40)]
		} else {
			b = BigDexBatch(r, c.Cfg.ChainId, lp, traders, r.Intn(4) != 0)
		}
		c.DexBatch(r, 2, b)
		c.End()
	}
}
