package ledger

import (
	"fmt"
	"math/rand"

	"github.com/canopy-network/canopy/fsm"
	"github.com/canopy-network/canopy/lib"
	"github.com/canopy-network/canopy/lib/crypto"
)

// Generators: everything random comes from the *rand.Rand handed in (drv.Out.Rng). Choices are
// made by looking at the REAL state (balances, validator records) so that most operations are valid,
// with a deliberate share of boundary and invalid ones.

const MaxU = ^uint64(0)

var chainPool = []uint64{1, 2, 3, 7}

// amount draws a token amount around a reference balance
func amount(r *rand.Rand, ref uint64) uint64 {
	switch r.Intn(12) {
	case 0:
		return 0
	case 1:
		return 1
	case 2:
		return ref
	case 3:
		return ref + 1
	case 4:
		if ref > 0 {
			return ref - 1
		}
		return 1
	case 5:
		return MaxU
	case 6:
		return MaxU - uint64(r.Intn(1000))
	case 7:
		return uint64(r.Intn(1000))
	default:
		if ref == 0 {
			return uint64(r.Intn(100000))
		}
		return uint64(rnd63(r, ref))
	}
}

func genesisAmount(r *rand.Rand, big bool) uint64 {
	switch r.Intn(10) {
	case 0:
		return 0
	case 1:
		return 1
	case 2:
		if big {
			return MaxU - (1 << 40) - uint64(r.Intn(1<<20))
		}
		return uint64(1) << 40
	case 3:
		if big {
			return uint64(1)<<63 + uint64(r.Intn(1000))
		}
		return 1 << 50
	case 4:
		return uint64(r.Intn(100))
	default:
		return uint64(1000000 + r.Intn(1000000000))
	}
}

func subset(r *rand.Rand, pool []uint64, min int) []uint64 {
	var out []uint64
	for _, x := range r.Perm(len(pool)) {
		if len(out) < min || r.Intn(2) == 0 {
			out = append(out, pool[x])
		}
	}
	return out
}

// rnd63 draws from [0, n mod 2^62] (never panics)
func rnd63(r *rand.Rand, n uint64) uint64 {
	return uint64(r.Int63n(int64(n%(1<<62)) + 1))
}

func pick[T any](r *rand.Rand, xs []T) T { return xs[r.Intn(len(xs))] }

// RandomGenesis: amounts at 0, 1, mid and (in `big` cases) near 2^64; small deferred-action windows so
// that unstaking / max-pause fire within a dozen blocks.
// AddPool lists a pool in the genesis unless the id is listed already
func (g *Genesis) AddPool(id, amount uint64) {
	if !hasPool(g, id) {
		g.Pools = append(g.Pools, GenPool{Id: id, Amount: amount})
	}
}

func hasPool(g *Genesis, id uint64) bool {
	for _, p := range g.Pools {
		if p.Id == id {
			return true
		}
	}
	return false
}

func RandomGenesis(r *rand.Rand) *Genesis {
	g := &Genesis{ChainId: 1, BlocksPerHalvening: 3150000, InitialTokensPerBlock: 80000000, Params: fsm.DefaultParams()}
	big := r.Intn(6) == 0
	switch r.Intn(8) {
	case 0:
		g.ChainId = 2
	}
	g.Params.Consensus.RootChainId = g.ChainId
	switch r.Intn(6) {
	case 0:
		g.BlocksPerHalvening = uint64(1 + r.Intn(4))
	case 1:
		g.BlocksPerHalvening = 1
		g.InitialTokensPerBlock = MaxU
	}
	switch r.Intn(8) {
	case 0:
		g.InitialTokensPerBlock = 0
	case 1:
		g.InitialTokensPerBlock = 1
	case 2:
		g.InitialTokensPerBlock = uint64(r.Intn(1000))
	case 3:
		if big {
			g.InitialTokensPerBlock = uint64(1) << 62
		}
	}
	if big {
		// near-2^64 balances: keep the scheduled mint small so that total + mint stays below 2^64 (the excluded
		// point itself is scenario `mint-wraps-total`)
		g.InitialTokensPerBlock = uint64(r.Intn(1000))
	}
	if r.Intn(7) == 0 && !big {
		g.Faucet = pick(r, EdKeys).Addr
	}
	v := g.Params.Validator
	switch r.Intn(4) {
	case 0:
		g.Params.Consensus.ProtocolVersion = fsm.NewProtocolVersion(0, 1)
	case 1:
		g.Params.Consensus.ProtocolVersion = fsm.NewProtocolVersion(uint64(2+r.Intn(6)), 2)
	default:
		g.Params.Consensus.ProtocolVersion = fsm.NewProtocolVersion(0, 2)
	}
	v.UnstakingBlocks = uint64(1 + r.Intn(5))
	v.DelegateUnstakingBlocks = uint64(2 + r.Intn(4))
	v.MaxPauseBlocks = uint64(1 + r.Intn(7))
	v.NonSignWindow = uint64(1 + r.Intn(5))
	v.MaxNonSign = uint64(r.Intn(int(v.NonSignWindow) + 1))
	v.NonSignSlashPercentage = pick(r, []uint64{0, 1, 1, 5, 10, 50, 99, 100})
	v.DoubleSignSlashPercentage = pick(r, []uint64{0, 1, 10, 10, 33, 50, 99, 100})
	v.MaxSlashPerCommittee = pick(r, []uint64{1, 5, 15, 15, 50, 100})
	if r.Intn(4) == 0 {
		v.MinimumStakeForValidators = pick(r, []uint64{1, 100, 1000000})
		v.MinimumStakeForDelegates = pick(r, []uint64{0, 1, 50, 500000})
	}
	v.MaxCommittees = pick(r, []uint64{15, 15, 4, 3, 2})
	v.EarlyWithdrawalPenalty = pick(r, []uint64{0, 20, 20, 50, 100})
	v.StakePercentForSubsidizedCommittee = pick(r, []uint64{1, 33, 33, 50, 100})
	g.Params.Governance.DaoRewardPercentage = pick(r, []uint64{1, 5, 5, 50, 100}) // 0 wedges the chain: scenario `zero-dao-percentage`
	f := g.Params.Fee
	fee := func() uint64 { return pick(r, []uint64{0, 1, 7, 10, 10000}) }
	f.SendFee, f.StakeFee, f.EditStakeFee, f.UnstakeFee, f.PauseFee = fee(), fee(), fee(), fee(), fee()
	f.UnpauseFee, f.ChangeParameterFee, f.DaoTransferFee, f.SubsidyFee = fee(), fee(), fee(), fee()
	// accounts for every key (so that most senders can pay), amounts boundary-heavy
	bigUsed := false
	for _, k := range AllKeys() {
		if r.Intn(8) == 0 {
			continue
		}
		a := genesisAmount(r, big && !bigUsed)
		if a > 1<<62 {
			bigUsed = true
		}
		g.Accounts = append(g.Accounts, GenAcc{Addr: k.Addr, Amount: a})
	}
	for _, id := range []uint64{1, 2*65535 + 1, 2, 3, 65535 + 1} {
		if r.Intn(2) == 0 {
			g.Pools = append(g.Pools, GenPool{Id: id, Amount: genesisAmount(r, false)})
		}
	}
	// order books (what an exported state carries): every open sell order is credited to the chain's escrow pool ON TOP
	// of what the pool list says; half of the time the escrow / holding / liquidity pools of those chains are listed too
	if r.Intn(3) == 0 {
		var n byte
		for _, chain := range subset(r, []uint64{1, 2, 3}, 1) {
			b := GenBook{Chain: chain}
			for i := 1 + r.Intn(3); i > 0; i-- {
				n++
				b.Orders = append(b.Orders, SellOrder(n, chain, pick(r, []uint64{0, 1, 7, 1000, 123456, 1 << 33}), r.Intn(3) == 0))
			}
			g.Books = append(g.Books, b)
			for _, addend := range []uint64{65535, 16383, 32767} {
				if r.Intn(2) == 0 && !(chain == 1 && addend == 65535 && hasPool(g, 65535+1)) {
					g.Pools = append(g.Pools, GenPool{Id: chain + addend, Amount: genesisAmount(r, false)})
				}
			}
		}
		switch r.Intn(30) {
		case 0: // a chain listed twice
			g.Books = append(g.Books, GenBook{Chain: g.Books[0].Chain, Orders: []*lib.SellOrder{SellOrder(200, g.Books[0].Chain, 5, false)}})
		case 1: // a book without orders
			g.Books = append(g.Books, GenBook{Chain: 4})
		}
	}
	// validators
	nv := r.Intn(5)
	used := map[string]bool{}
	for i := 0; i < nv; i++ {
		delegate := r.Intn(3) == 0
		// a delegate may hold a BLS key too: as a (former) committee member it can then be slashed as a delegate
		k := pick(r, BLSKeys)
		if delegate && r.Intn(2) == 0 {
			k = pick(r, EdKeys)
		}
		if used[string(k.Addr)] {
			continue
		}
		used[string(k.Addr)] = true
		x := GenVal{Key: k, Stake: pick(r, []uint64{1, 1, 9, 10, 100, 1000, 1000000, 123456789, 1 << 40}), Committees: subset(r, chainPool, 1),
			Delegate: delegate, Compound: r.Intn(2) == 0, Output: k.Addr}
		if r.Intn(3) == 0 {
			x.Output = pick(r, EdKeys).Addr
		}
		switch r.Intn(6) {
		case 0:
			x.UnstakingHeight = uint64(2 + r.Intn(6))
		case 1:
			if !delegate {
				x.MaxPausedHeight = uint64(2 + r.Intn(6))
			}
		}
		g.Validators = append(g.Validators, x)
	}
	// boundary of `CommitteesDistinct` (hypothesis of C12.never_wedged, established by the loader since 0262f16):
	// now and then one validator lists a committee twice, sometimes together with a repeated validator address
	// further down the list (the loader reports whichever comes first in file order)
	if len(g.Validators) > 0 && r.Intn(25) == 0 {
		i := r.Intn(len(g.Validators))
		cs := g.Validators[i].Committees
		g.Validators[i].Committees = append(append([]uint64{}, cs...), cs[r.Intn(len(cs))])
		if r.Intn(3) == 0 {
			g.Validators = append(g.Validators, g.Validators[r.Intn(len(g.Validators))])
		}
	}
	return g
}

// senders that may sign for a validator record
func (c *Chain) signersFor(addr []byte) (keys []*Key, isDelegate bool, exists bool) {
	v, err := c.SM.GetValidator(crypto.NewAddressFromBytes(addr))
	if err != nil {
		return nil, false, false
	}
	if k := KeyFor(v.Address); k != nil {
		keys = append(keys, k)
	}
	if k := KeyFor(v.Output); k != nil && !sameAddr(v.Address, v.Output) {
		keys = append(keys, k)
	}
	return keys, v.Delegate, true
}

func (c *Chain) balance(addr []byte) uint64 {
	b, err := c.SM.GetAccountBalance(crypto.NewAddressFromBytes(addr))
	if err != nil {
		panic(err)
	}
	return b
}

func (c *Chain) feeFor(r *rand.Rand, name string) uint64 {
	min, err := c.SM.GetFeeForMessageName(name)
	if err != nil {
		panic(err)
	}
	switch r.Intn(14) {
	case 0:
		if min > 0 {
			return min - 1
		}
		return 0
	case 1:
		return min + uint64(r.Intn(5))
	case 2:
		return MaxU
	default:
		return min
	}
}

// RandomTx emits one random transaction.
func (c *Chain) RandomTx(r *rand.Rand) {
	all := AllKeys()
	kk := r.Intn(26)
	if c.StakingBias && kk < 6 && r.Intn(2) == 0 {
		kk = 6 + r.Intn(14)
	}
	switch k := kk; {
	case k >= 20 && k < 22: // dao transfer
		from := pick(r, all)
		h := c.SM.Height()
		start, end := uint64(0), h+uint64(1+r.Intn(50))
		switch r.Intn(8) {
		case 0:
			start, end = h+1, h+5
		case 1:
			start, end = 0, h-1
		case 2:
			start, end = 5, 5
		case 3:
			start, end = 0, 10001+h
		}
		dao, err := c.SM.GetPoolBalance(2*65535 + 1)
		if err != nil {
			panic(err)
		}
		amt, mint := amount(r, dao), r.Intn(3) == 0
		if c.NearMax {
			mint = false
		}
		if mint && amt > 1<<40 {
			amt = 1 << 40 // a DAO mint is an unguarded addition to the total (scenario `dao-mint-wraps-total`)
		}
		c.DaoTransfer(from, c.feeFor(r, fsm.MessageDAOTransferName), amt, mint, start, end)
	case k >= 22 && k < 24: // subsidy
		from := pick(r, all)
		c.Subsidy(from, c.feeFor(r, fsm.MessageSubsidyName), pick(r, []uint64{1, 2, 3, 7, 9, 65536}), amount(r, c.balance(from.Addr)))
	case k >= 24: // change parameter
		from := pick(r, all)
		h := c.SM.Height()
		start, end := uint64(0), h+uint64(1+r.Intn(50))
		if r.Intn(10) == 0 {
			start, end = h+1, h+2
		}
		type pc struct {
			space, key string
			vals       []uint64
		}
		cands := []pc{
			{"val", "minimumStakeForValidators", []uint64{0, 1, 10, 100, 1000, 1000000, 1 << 41, MaxU}},
			{"val", "minimumStakeForDelegates", []uint64{0, 1, 10, 100, 1000, 1000000, MaxU}},
			{"val", "maxCommittees", []uint64{0, 1, 2, 3, 15, 100, 101}},
			{"val", "unstakingBlocks", []uint64{0, 1, 2, 5}},
			{"val", "delegateUnstakingBlocks", []uint64{1, 2, 3}},
			{"val", "maxPauseBlocks", []uint64{0, 1, 3, 8}},
			{"val", "nonSignWindow", []uint64{0, 1, 2, 5}},
			{"val", "maxNonSign", []uint64{0, 1, 3, 9}},
			{"val", "nonSignSlashPercentage", []uint64{0, 1, 50, 100, 101}},
			{"val", "doubleSignSlashPercentage", []uint64{0, 10, 100, 101}},
			{"val", "maxSlashPerCommittee", []uint64{0, 1, 15, 100, 101}},
			{"val", "earlyWithdrawalPenalty", []uint64{0, 20, 100, 101}},
			{"val", "stakePercentForSubsidizedCommittee", []uint64{0, 1, 33, 100, 101}},
			{"fee", "sendFee", []uint64{0, 1, 10000}},
			{"fee", "stakeFee", []uint64{0, 3}},
			{"fee", "editStakeFee", []uint64{0, 3}},
			{"fee", "unstakeFee", []uint64{0, 3}},
			{"fee", "pauseFee", []uint64{0, 3}},
			{"fee", "unpauseFee", []uint64{0, 3}},
			{"fee", "changeParameterFee", []uint64{0, 3}},
			{"fee", "daoTransferFee", []uint64{0, 3}},
			{"fee", "subsidyFee", []uint64{0, 3}},
			{"gov", "daoRewardPercentage", []uint64{1, 5, 100, 101}}, // 0 halts the chain (scenario `zero-dao-percentage`)
			{"val", "noSuchParam", []uint64{1}},
			{"xyz", "sendFee", []uint64{1}},
		}
		x := pick(r, cands)
		if r.Intn(2) == 0 { // the two state-conforming parameters get half of the draws
			x = cands[r.Intn(3)]
		}
		c.ChangeParam(from, c.feeFor(r, fsm.MessageChangeParameterName), x.space, x.key, pick(r, x.vals), start, end)
	case k < 6: // send
		from := pick(r, all)
		to := pick(r, all).Addr
		if r.Intn(5) == 0 {
			to = []byte(fmt.Sprintf("%020d", r.Intn(3)))
		}
		amt := amount(r, c.balance(from.Addr))
		if f := c.Cfg.StateMachineConfig.FaucetAddress; f != "" && f == hx(from.Addr) && amt > 1<<40 {
			amt = 1 << 40 // a faucet top-up mints `amount + fee - balance` unguarded (scenario `faucet-mint-wraps-total`)
		}
		if r.Intn(3) == 0 {
			// a vesting send: schedules around the current height (not started / before the cliff / running / over), often
			// one of a few fixed schedules so that a second send to the same recipient is a top-up with identical terms -
			// in this block or in a later one - or meets a still-locked tranche with different terms
			h := c.Height()
			var vs, vc, ve uint64
			switch r.Intn(8) {
			case 0, 1, 2:
				vs, vc, ve = 1, 2, 40
			case 3:
				vs, vc, ve = 1, 1, 6
			case 4:
				vs, vc, ve = h+uint64(r.Intn(3)), h+uint64(1+r.Intn(3)), h+uint64(3+r.Intn(5))
			case 5:
				vs, vc, ve = 0, uint64(r.Intn(3)), uint64(1+r.Intn(int(h)+3))
			case 6: // malformed: end <= start, cliff outside
				vs, vc, ve = uint64(r.Intn(5)), uint64(r.Intn(9)), uint64(r.Intn(5))
			default:
				vs, vc, ve = uint64(r.Intn(4)), uint64(r.Intn(6)), MaxU-uint64(r.Intn(2))
			}
			c.SendVesting(from, c.feeFor(r, fsm.MessageSendName), to, amt, vs, vc, ve)
			return
		}
		c.Send(from, c.feeFor(r, fsm.MessageSendName), to, amt)
	case k < 10: // stake
		delegate := r.Intn(3) == 0
		val := pick(r, BLSKeys)
		if delegate && r.Intn(2) == 0 {
			val = pick(r, EdKeys)
		}
		output := val.Addr
		if r.Intn(3) == 0 {
			output = pick(r, EdKeys).Addr
		}
		signer := val
		if k := KeyFor(output); k != nil && r.Intn(2) == 0 {
			signer = k
		}
		if r.Intn(15) == 0 {
			signer = pick(r, all)
		}
		cs := subset(r, chainPool, 1)
		switch r.Intn(25) {
		case 0:
			cs = nil
		case 1:
			cs = append(cs, cs[0])
		case 2:
			cs = append(cs, pick(r, []uint64{0, 2*65535 + 1, 65535/4 + 1}))
		}
		bal := c.balance(signer.Addr)
		amt := amount(r, bal)
		if r.Intn(3) != 0 && bal > 2 {
			amt = 1 + uint64(rnd63(r, bal))
		}
		c.Stake(signer, c.feeFor(r, fsm.MessageStakeName), val, amt, cs, delegate, r.Intn(2) == 0, output)
	case k < 13: // edit stake
		val := pick(r, all)
		signers, isDelegate, exists := c.signersFor(val.Addr)
		signer := pick(r, all)
		if len(signers) > 0 && r.Intn(10) != 0 {
			signer = pick(r, signers)
		}
		var cur uint64
		output := val.Addr
		if exists {
			v, _ := c.SM.GetValidator(crypto.NewAddressFromBytes(val.Addr))
			cur, output = v.StakedAmount, v.Output
		}
		if r.Intn(4) == 0 {
			output = pick(r, EdKeys).Addr
		}
		amt := cur
		switch r.Intn(5) {
		case 0:
			amt = amount(r, cur)
		case 1, 2:
			bal := c.balance(signer.Addr)
			if bal > 1 {
				amt = cur + 1 + uint64(rnd63(r, bal))
			}
		case 3:
			if cur > 1 {
				amt = cur - 1
			}
		}
		c.EditStake(signer, c.feeFor(r, fsm.MessageEditStakeName), val.Addr, isDelegate, amt, subset(r, chainPool, 1), r.Intn(2) == 0, output)
	case k < 15: // unstake
		val := pick(r, all)
		signers, _, _ := c.signersFor(val.Addr)
		signer := pick(r, all)
		if len(signers) > 0 && r.Intn(10) != 0 {
			signer = pick(r, signers)
		}
		c.Unstake(signer, c.feeFor(r, fsm.MessageUnstakeName), val.Addr)
	case k < 17: // pause
		val := pick(r, all)
		signers, _, _ := c.signersFor(val.Addr)
		signer := pick(r, all)
		if len(signers) > 0 && r.Intn(10) != 0 {
			signer = pick(r, signers)
		}
		c.Pause(signer, c.feeFor(r, fsm.MessagePauseName), val.Addr)
	default: // unpause
		val := pick(r, all)
		signers, _, _ := c.signersFor(val.Addr)
		signer := pick(r, all)
		if len(signers) > 0 && r.Intn(10) != 0 {
			signer = pick(r, signers)
		}
		c.Unpause(signer, c.feeFor(r, fsm.MessageUnpauseName), val.Addr)
	}
}

// RandomSlash slashes existing (and occasionally absent) validators through SlashValidators.
func (c *Chain) RandomSlash(r *rand.Rand) {
	var addrs [][]byte
	n := 1 + r.Intn(3)
	for i := 0; i < n; i++ {
		a := pick(r, AllKeys()).Addr
		addrs = append(addrs, a)
	}
	pct := pick(r, []uint64{0, 1, 1, 5, 10, 10, 33, 50, 99, 100, 101, MaxU})
	c.Slash(pick(r, chainPool), pct, addrs)
}

// RandomBlock: begin-block mint, transactions and slashes, end block.
func (c *Chain) RandomBlock(r *rand.Rand) {
	c.Mint()
	if c.SM.Height() > 1 && r.Intn(10) < 7 {
		c.RandomCert(r)
	}
	if r.Intn(60) == 0 {
		c.Retire(pick(r, []uint64{1, 2, 3, 7}))
	}
	n := r.Intn(7)
	for i := 0; i < n; i++ {
		if r.Intn(9) == 0 {
			c.RandomSlash(r)
		} else {
			c.RandomTx(r)
		}
	}
	c.End()
}

// RandomCert: certificate results for the node's own chain as BeginBlock hands them to
// HandleCertificateResults: a committee drawn from the BLS keys (validators or not), some of them not
// signing, double signers, reward recipients whose percents respect the per-certificate limit of 100.
func (c *Chain) RandomCert(r *rand.Rand) {
	var members []Member
	isDelegate := func(k *Key) bool { _, d, ok := c.signersFor(k.Addr); return ok && d }
	for _, i := range r.Perm(len(BLSKeys)) {
		if isDelegate(BLSKeys[i]) && r.Intn(3) != 0 {
			continue // a real committee holds no delegates; a key that re-staked as delegate inside the window can appear
		}
		if len(members) == 0 || r.Intn(3) != 0 {
			power := uint64(1 + r.Intn(1000))
			if v, err := c.SM.GetValidator(crypto.NewAddressFromBytes(BLSKeys[i].Addr)); err == nil && v.StakedAmount != 0 && r.Intn(4) != 0 {
				power = v.StakedAmount
			}
			members = append(members, Member{Key: BLSKeys[i], Power: power, Signed: r.Intn(4) != 0})
		}
	}
	var ds []DoubleSigner
	if r.Intn(4) == 0 {
		n := 1 + r.Intn(2)
		for i := 0; i < n; i++ {
			k := pick(r, BLSKeys)
			var hs []uint64
			for j := r.Intn(3); j >= 0; j-- {
				hs = append(hs, uint64(1+r.Intn(6)))
			}
			if r.Intn(15) == 0 {
				hs = nil
			}
			ds = append(ds, DoubleSigner{Key: k, Heights: hs})
		}
	}
	var pay []Payment
	left := uint64(100)
	for i := r.Intn(4); i >= 0 && left > 0; i-- {
		p := uint64(r.Intn(int(left) + 1))
		if r.Intn(3) == 0 {
			p = left
		}
		left -= p
		to := pick(r, AllKeys()).Addr
		if r.Intn(6) == 0 {
			to = []byte(fmt.Sprintf("%020d", r.Intn(3)))
		}
		chain := c.Cfg.ChainId
		if r.Intn(8) == 0 {
			chain = 9
		}
		pay = append(pay, Payment{Addr: to, Percent: p, Chain: chain})
	}
	if len(members) == 0 {
		return
	}
	h := c.SM.Height()
	qh, rh := h, h
	switch r.Intn(12) {
	case 0:
		qh = h - 1
	case 1:
		rh = h - 1
	case 2:
		qh, rh = h+3, 0
	}
	c.Cert(qh, rh, members, ds, pay)
}
