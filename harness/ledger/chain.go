// Package ledger drives a REAL fsm.StateMachine on an in-memory store, one handler-level operation at
// a time, for the ledger properties C04 (supply conservation) and C12 (staking bookkeeping, never
// wedged). Every operation is emitted as an op line for the Lean model (lean/Driver/Ledger.lean); after
// genesis and after every block the whole ledger state is read back from the store by scanning and
// printed canonically, and the properties themselves are evaluated on that scan (oracle.go),
// independently of the model.
package ledger

import (
	"context"
	"crypto/ed25519"
	"crypto/sha256"
	"encoding/binary"
	"encoding/hex"
	"encoding/json"
	"fmt"
	"os"
	"path/filepath"
	"sort"
	"strings"

	"github.com/canopy-network/canopy/fsm"
	"github.com/canopy-network/canopy/lib"
	"github.com/canopy-network/canopy/lib/crypto"
	"github.com/canopy-network/canopy/store"

	"verifharness/drv"
)

// ---------------------------------------------------------------------------------------------
// keys: fixed, so addresses are stable across runs

type Key struct {
	Priv crypto.PrivateKeyI
	Pub  []byte
	Addr []byte
	BLS  bool
}

var (
	BLSKeys []*Key // validator operator keys
	EdKeys  []*Key // account / delegate / output keys
	byAddr  = map[string]*Key{}
)

func init() {
	for i := 0; i < 6; i++ {
		h := sha256.Sum256([]byte(fmt.Sprintf("verif-ledger-bls-%d", i)))
		h[0] &= 0x3f
		k, err := crypto.BytesToBLS12381PrivateKey(h[:])
		if err != nil {
			panic(err)
		}
		key := &Key{Priv: k, Pub: k.PublicKey().Bytes(), Addr: k.PublicKey().Address().Bytes(), BLS: true}
		BLSKeys = append(BLSKeys, key)
		byAddr[string(key.Addr)] = key
	}
	for i := 0; i < 6; i++ {
		h := sha256.Sum256([]byte(fmt.Sprintf("verif-ledger-ed-%d", i)))
		k := crypto.BytesToED25519Private(ed25519.NewKeyFromSeed(h[:]))
		key := &Key{Priv: k, Pub: k.PublicKey().Bytes(), Addr: k.PublicKey().Address().Bytes()}
		EdKeys = append(EdKeys, key)
		byAddr[string(key.Addr)] = key
	}
}

func KeyFor(addr []byte) *Key { return byAddr[string(addr)] }

// AllKeys returns every key the harness can sign with.
func AllKeys() []*Key { return append(append([]*Key{}, BLSKeys...), EdKeys...) }

func hx(b []byte) string { return hex.EncodeToString(b) }

// ---------------------------------------------------------------------------------------------
// genesis description (printed on the op line, written to genesis.json for the real code)

type GenVal struct {
	Key             *Key
	Stake           uint64
	Committees      []uint64
	Delegate        bool
	Compound        bool
	Output          []byte
	UnstakingHeight uint64
	MaxPausedHeight uint64
}

type GenAcc struct {
	Addr   []byte
	Amount uint64
	Vest   [4]uint64 // VestingAmount, VestingStartHeight, VestingCliffHeight, VestingEndHeight (state scans only)
}

type GenPool struct{ Id, Amount uint64 }

type Genesis struct {
	ChainId               uint64
	BlocksPerHalvening    uint64
	InitialTokensPerBlock uint64
	Faucet                []byte // nil = off
	Params                *fsm.Params
	Accounts              []GenAcc
	Pools                 []GenPool
	Validators            []GenVal
	Books                 []GenBook // genesis order books: every open sell order's AmountForSale is credited to the chain's escrow pool
	Retired               []uint64
	Imported              bool // built by GenesisFromExport: qualifies the oracle signatures of that chain
}

// GenBook is a genesis order book: the sell orders of one chain. For the ledger only the amounts matter (they are added
// to Supply.Total and to the escrow pool ChainId + EscrowPoolAddend); ids and addresses make the orders well-formed.
type GenBook struct {
	Chain  uint64
	Orders []*lib.SellOrder
}

func u64s(xs []uint64, sep string) string {
	if len(xs) == 0 {
		return "-"
	}
	s := make([]string, len(xs))
	for i, x := range xs {
		s[i] = fmt.Sprint(x)
	}
	return strings.Join(s, sep)
}

func b2i(b bool) int {
	if b {
		return 1
	}
	return 0
}

func joinOrDash(xs []string, sep string) string {
	if len(xs) == 0 {
		return "-"
	}
	return strings.Join(xs, sep)
}

func (g *Genesis) OpLine() string {
	p, v, f := g.Params, g.Params.Validator, g.Params.Fee
	pv, _ := p.Consensus.ParseProtocolVersion()
	faucet := "-"
	if g.Faucet != nil {
		faucet = hx(g.Faucet)
	}
	var as, ps, vs, bs []string
	for _, b := range g.Books {
		var amts []uint64
		for _, o := range b.Orders {
			amts = append(amts, o.AmountForSale)
		}
		bs = append(bs, fmt.Sprintf("%d:%s", b.Chain, u64s(amts, "/")))
	}
	for _, a := range g.Accounts {
		as = append(as, fmt.Sprintf("%s:%d", hx(a.Addr), a.Amount))
	}
	for _, q := range g.Pools {
		ps = append(ps, fmt.Sprintf("%d:%d", q.Id, q.Amount))
	}
	for _, x := range g.Validators {
		vs = append(vs, fmt.Sprintf("%s:%d:%s:%d:%d:%s:%d:%d", hx(x.Key.Addr), x.Stake, u64s(x.Committees, "/"), b2i(x.Delegate), b2i(x.Compound),
			hx(x.Output), x.UnstakingHeight, x.MaxPausedHeight))
	}
	return fmt.Sprintf("genesis chain=%d bph=%d itpb=%d faucet=%s pv=%d/%d root=%d ub=%d dub=%d mpb=%d nsw=%d mns=%d nss=%d dss=%d mspc=%d msv=%d msd=%d mc=%d ewp=%d spsc=%d dao=%d fees=%s A=%s P=%s V=%s R=%s O=%s",
		g.ChainId, g.BlocksPerHalvening, g.InitialTokensPerBlock, faucet, pv.Version, pv.Height, p.Consensus.RootChainId,
		v.UnstakingBlocks, v.DelegateUnstakingBlocks, v.MaxPauseBlocks, v.NonSignWindow, v.MaxNonSign, v.NonSignSlashPercentage,
		v.DoubleSignSlashPercentage, v.MaxSlashPerCommittee, v.MinimumStakeForValidators, v.MinimumStakeForDelegates, v.MaxCommittees,
		v.EarlyWithdrawalPenalty, v.StakePercentForSubsidizedCommittee, p.Governance.DaoRewardPercentage,
		u64s([]uint64{f.SendFee, f.StakeFee, f.EditStakeFee, f.UnstakeFee, f.PauseFee, f.UnpauseFee, f.ChangeParameterFee, f.DaoTransferFee, f.SubsidyFee}, "/"),
		joinOrDash(as, ","), joinOrDash(ps, ","), joinOrDash(vs, ","), u64s(g.Retired, ","), joinOrDash(bs, ","))
}

// HasDuplicates: an address or pool id listed twice (the real loader accepts it and counts both)
func (g *Genesis) HasDuplicates() bool {
	seen := map[string]bool{}
	for _, a := range g.Accounts {
		if seen["a"+string(a.Addr)] {
			return true
		}
		seen["a"+string(a.Addr)] = true
	}
	for _, q := range g.Pools {
		k := fmt.Sprintf("p%d", q.Id)
		if seen[k] {
			return true
		}
		seen[k] = true
	}
	for _, x := range g.Validators {
		if seen["v"+string(x.Key.Addr)] {
			return true
		}
		seen["v"+string(x.Key.Addr)] = true
	}
	return false
}

func (g *Genesis) state() *fsm.GenesisState {
	gs := &fsm.GenesisState{Params: g.Params}
	for _, a := range g.Accounts {
		gs.Accounts = append(gs.Accounts, &fsm.Account{Address: a.Addr, Amount: a.Amount})
	}
	for _, q := range g.Pools {
		gs.Pools = append(gs.Pools, &fsm.Pool{Id: q.Id, Amount: q.Amount})
	}
	for _, x := range g.Validators {
		net := "tcp://v.example.com"
		if x.Delegate {
			net = ""
		}
		gs.Validators = append(gs.Validators, &fsm.Validator{Address: x.Key.Addr, PublicKey: x.Key.Pub, NetAddress: net, StakedAmount: x.Stake,
			Committees: x.Committees, MaxPausedHeight: x.MaxPausedHeight, UnstakingHeight: x.UnstakingHeight, Output: x.Output,
			Delegate: x.Delegate, Compound: x.Compound})
	}
	if len(g.Books) > 0 {
		gs.OrderBooks = &lib.OrderBooks{}
		for _, b := range g.Books {
			gs.OrderBooks.OrderBooks = append(gs.OrderBooks.OrderBooks, &lib.OrderBook{ChainId: b.Chain, Orders: b.Orders})
		}
	}
	if len(g.Retired) > 0 {
		gs.RetiredCommittees = g.Retired
	}
	return gs
}

// GenesisFromExport turns what ExportState() returned into the harness' genesis description (the part of the file
// NewStateFromGenesis reads: parameters, accounts, pools, validators, order books, retired committees); node
// configuration is taken from `base`.
func GenesisFromExport(base *Genesis, exp *fsm.GenesisState) *Genesis {
	g := &Genesis{ChainId: base.ChainId, BlocksPerHalvening: base.BlocksPerHalvening, InitialTokensPerBlock: base.InitialTokensPerBlock,
		Faucet: base.Faucet, Params: exp.Params, Retired: exp.RetiredCommittees, Imported: true}
	for _, a := range exp.Accounts {
		g.Accounts = append(g.Accounts, GenAcc{Addr: a.Address, Amount: a.Amount})
	}
	for _, q := range exp.Pools {
		g.Pools = append(g.Pools, GenPool{Id: q.Id, Amount: q.Amount})
	}
	for _, v := range exp.Validators {
		k := KeyFor(v.Address)
		if k == nil {
			panic("exported validator with a key the harness does not know")
		}
		g.Validators = append(g.Validators, GenVal{Key: k, Stake: v.StakedAmount, Committees: v.Committees, Delegate: v.Delegate, Compound: v.Compound,
			Output: v.Output, UnstakingHeight: v.UnstakingHeight, MaxPausedHeight: v.MaxPausedHeight})
	}
	if exp.OrderBooks != nil {
		for _, b := range exp.OrderBooks.OrderBooks {
			g.Books = append(g.Books, GenBook{Chain: b.ChainId, Orders: b.Orders})
		}
	}
	return g
}

// ---------------------------------------------------------------------------------------------
// the chain under test

type Chain struct {
	O      *drv.Out
	Prop   string // "C04" / "C12": prefix of oracle signatures
	SM     *fsm.StateMachine
	DB     lib.StoreI
	Cfg    lib.Config
	Hist   []string // op lines so far (replay of an oracle failure)
	Blocks int
	dir    string
	// WedgeHorizon bounds how many consecutive future heights the never-wedged oracle steps through
	// one by one before it jumps from marker height to marker height
	WedgeHorizon uint64
	StakingBias  bool // C12: more staking life-cycle operations and slashes
	Wrapped, DelegateSlashed, GenesisDup, GenesisImport bool // what the harness knows it provoked (qualifies oracle signatures)
	NearMax      bool // genesis total above 2^62: the generator keeps discretionary mints off
	WholeApply   bool // apply each transaction through ApplyTransactions instead of ApplyTransaction
	OracleOnly   bool // after the first DEX operation: real code + oracles only, no comparison with the ledger model
	DexBatched   bool // a counter-chain DEX batch was handled (qualifies oracle signatures)
	EthTraffic   bool // RLP.V2 (Ethereum-signed) transactions were applied (qualifies oracle signatures)
}

func ErrStr(err lib.ErrorI) string {
	if err == nil {
		return "ok"
	}
	return fmt.Sprintf("err:%s:%d", err.Module(), err.Code())
}

func (c *Chain) emit(op, res string) {
	c.Hist = append(c.Hist, op+"  =>  "+truncate(res, 200))
	if c.OracleOnly {
		// the chain has left the ledger model (DEX batch processing is modelled under C20): the operations still run on
		// the real state machine under the oracles; the model answers `unsupported` to an `oracle-only` line
		c.O.Count("oracle-only.ops") // these lines match trivially: they are not part of the correspondence count that matters
		c.O.Op("oracle-only "+truncate(op, 300), "unsupported")
		return
	}
	c.O.Op(op, res)
}

func truncate(s string, n int) string {
	if len(s) > n {
		return s[:n] + "…"
	}
	return s
}

// NewChain runs the REAL genesis path (genesis.json -> fsm.New -> NewFromGenesisFile -> Commit) and
// emits the genesis op. ok=false when the real code rejected the genesis.
func NewChain(o *drv.Out, prop string, g *Genesis) (c *Chain, ok bool) {
	c = &Chain{O: o, Prop: prop, WedgeHorizon: 24, GenesisDup: g.HasDuplicates(), GenesisImport: g.Imported}
	dir, err := os.MkdirTemp("", "verif-ledger-")
	if err != nil {
		panic(err)
	}
	c.dir = dir
	bz, err := json.Marshal(g.state())
	if err != nil {
		panic(err)
	}
	if err = os.WriteFile(filepath.Join(dir, lib.GenesisFilePath), bz, 0o644); err != nil {
		panic(err)
	}
	cfg := lib.DefaultConfig()
	cfg.DataDirPath = dir
	cfg.ChainId = g.ChainId
	cfg.StateMachineConfig.BlocksPerHalvening = g.BlocksPerHalvening
	cfg.StateMachineConfig.InitialTokensPerBlock = g.InitialTokensPerBlock
	if g.Faucet != nil {
		cfg.StateMachineConfig.FaucetAddress = hx(g.Faucet)
	}
	c.Cfg = cfg
	log := lib.NewNullLogger()
	db, e := store.NewStoreInMemory(log)
	if e != nil {
		panic(e)
	}
	c.DB = db
	op := g.OpLine()
	var gerr lib.ErrorI
	res := drv.Recover(func() string {
		c.SM, gerr = fsm.New(cfg, db, nil, nil, log)
		if gerr != nil {
			return ErrStr(gerr)
		}
		return "ok"
	})
	if res != "ok" {
		c.emit(op, res)
		c.Close()
		return c, false
	}
	snap := c.Scan()
	c.emit(op, "ok "+snap.Dump())
	c.NearMax = snap.Total > 1<<62
	c.Oracle(snap)
	return c, true
}

func (c *Chain) Close() {
	if c.DB != nil {
		c.DB.Close()
	}
	if c.dir != "" {
		os.RemoveAll(c.dir)
	}
}

func (c *Chain) Height() uint64 { return c.SM.Height() }

// atomically runs f inside a store transaction exactly like ApplyTransactions does around one
// transaction: flushed on success, discarded (with caches and slash tracker restored) on error.
func (c *Chain) atomically(f func() lib.ErrorI) (err lib.ErrorI, panicked bool) {
	cur := c.SM.Store().(lib.StoreI)
	tracker := c.SM.VerifSlashTracker()
	txn, e := c.SM.TxnWrap()
	if e != nil {
		return e, false
	}
	func() {
		defer func() {
			if r := recover(); r != nil {
				panicked = true
			}
		}()
		err = f()
	}()
	if err != nil || panicked {
		c.SM.ResetCaches()
		c.SM.VerifSetSlashTracker(tracker)
		txn.Discard()
		c.SM.SetStore(cur)
		return err, panicked
	}
	if e = txn.Flush(); e != nil {
		panic(e)
	}
	c.SM.SetStore(cur)
	return nil, false
}

func resOf(err lib.ErrorI, panicked bool) string {
	if panicked {
		return "panic"
	}
	return ErrStr(err)
}

// Tx signs msg with the sender's key and applies it through the real ApplyTransactions (CheckTx,
// signature, fee, handler, per-transaction rollback).
func (c *Chain) Tx(kind string, sender *Key, fee uint64, msg lib.MessageI, fields string) string {
	op := fmt.Sprintf("tx %s sender=%s fee=%d %s", kind, hx(sender.Addr), fee, fields)
	tx, err := fsm.NewTransaction(sender.Priv, msg, uint64(c.SM.NetworkID), c.Cfg.ChainId, fee, c.SM.Height(), "")
	if err != nil {
		panic(err)
	}
	bz, err := lib.Marshal(tx)
	if err != nil {
		panic(err)
	}
	before := c.TotalNow()
	var res string
	if c.WholeApply {
		// the real per-block loop (allocates a full-size batch verifier per call: used by few scenarios)
		res = drv.Recover(func() string {
			r := new(lib.ApplyBlockResults)
			if e := c.SM.ApplyTransactions(context.Background(), [][]byte{bz}, r, false); e != nil {
				return ErrStr(e)
			}
			if len(r.Failed) != 0 {
				if le, ok := r.Failed[0].Error.(lib.ErrorI); ok {
					return ErrStr(le)
				}
				return "err:unknown"
			}
			return "ok"
		})
	} else {
		// the real ApplyTransaction (CheckTx incl. one-by-one signature verification, fee, handler) inside the
		// same per-transaction rollback wrapper ApplyTransactions puts around it
		e, p := c.atomically(func() lib.ErrorI {
			_, _, er := c.SM.ApplyTransaction(0, bz, crypto.HashString(bz), nil)
			return er
		})
		res = resOf(e, p)
	}
	c.O.Count("tx." + kind + "." + res)
	c.emit(op, res)
	switch m := msg.(type) {
	case *fsm.MessageSend:
		if f := c.Cfg.StateMachineConfig.FaucetAddress; f != "" && f == hx(sender.Addr) {
			c.CheckDelta(op, "mint", before, m.Amount+fee)
		} else {
			c.CheckDelta(op, "move", before, 0)
		}
	case *fsm.MessageDAOTransfer:
		if m.Mint {
			c.CheckDelta(op, "mint", before, m.Amount)
		} else {
			c.CheckDelta(op, "move", before, 0)
		}
	default:
		c.CheckDelta(op, "move", before, 0)
	}
	return res
}

// SendVesting is a MessageSend with a vesting schedule (start/cliff/end heights, not all zero)
func (c *Chain) SendVesting(sender *Key, fee uint64, to []byte, amount, start, cliff, end uint64) string {
	return c.Tx("send", sender, fee, &fsm.MessageSend{FromAddress: sender.Addr, ToAddress: to, Amount: amount,
		VestingStartHeight: start, VestingCliffHeight: cliff, VestingEndHeight: end},
		fmt.Sprintf("from=%s to=%s amount=%d vs=%d vc=%d ve=%d", hx(sender.Addr), hx(to), amount, start, cliff, end))
}

func (c *Chain) Send(sender *Key, fee uint64, to []byte, amount uint64) string {
	return c.Tx("send", sender, fee, &fsm.MessageSend{FromAddress: sender.Addr, ToAddress: to, Amount: amount},
		fmt.Sprintf("from=%s to=%s amount=%d", hx(sender.Addr), hx(to), amount))
}

func netFor(delegate bool) string {
	if delegate {
		return ""
	}
	return "tcp://v.example.com"
}

func (c *Chain) Stake(sender *Key, fee uint64, val *Key, amount uint64, committees []uint64, delegate, compound bool, output []byte) string {
	return c.Tx("stake", sender, fee, &fsm.MessageStake{PublicKey: val.Pub, Amount: amount, Committees: committees, NetAddress: netFor(delegate),
		OutputAddress: output, Delegate: delegate, Compound: compound},
		fmt.Sprintf("addr=%s amount=%d cs=%s deleg=%d comp=%d out=%s", hx(val.Addr), amount, u64s(committees, "/"), b2i(delegate), b2i(compound), hx(output)))
}

// EditStake: isDelegate is what the harness believes about the validator (selects a valid net address)
func (c *Chain) EditStake(sender *Key, fee uint64, addr []byte, isDelegate bool, amount uint64, committees []uint64, compound bool, output []byte) string {
	return c.Tx("editStake", sender, fee, &fsm.MessageEditStake{Address: addr, Amount: amount, Committees: committees, NetAddress: netFor(isDelegate),
		OutputAddress: output, Compound: compound},
		fmt.Sprintf("addr=%s amount=%d cs=%s comp=%d out=%s", hx(addr), amount, u64s(committees, "/"), b2i(compound), hx(output)))
}

func (c *Chain) Unstake(sender *Key, fee uint64, addr []byte) string {
	return c.Tx("unstake", sender, fee, &fsm.MessageUnstake{Address: addr}, "addr="+hx(addr))
}
func (c *Chain) Pause(sender *Key, fee uint64, addr []byte) string {
	return c.Tx("pause", sender, fee, &fsm.MessagePause{Address: addr}, "addr="+hx(addr))
}
func (c *Chain) Unpause(sender *Key, fee uint64, addr []byte) string {
	return c.Tx("unpause", sender, fee, &fsm.MessageUnpause{Address: addr}, "addr="+hx(addr))
}

func (c *Chain) DaoTransfer(sender *Key, fee, amount uint64, mint bool, start, end uint64) string {
	return c.Tx("daoTransfer", sender, fee, &fsm.MessageDAOTransfer{Address: sender.Addr, Amount: amount, Mint: mint, StartHeight: start, EndHeight: end},
		fmt.Sprintf("addr=%s amount=%d mint=%d start=%d end=%d", hx(sender.Addr), amount, b2i(mint), start, end))
}

func (c *Chain) Subsidy(sender *Key, fee, chain, amount uint64) string {
	return c.Tx("subsidy", sender, fee, &fsm.MessageSubsidy{Address: sender.Addr, ChainId: chain, Amount: amount},
		fmt.Sprintf("addr=%s chain=%d amount=%d", hx(sender.Addr), chain, amount))
}

func (c *Chain) ChangeParam(sender *Key, fee uint64, space, key string, value, start, end uint64) string {
	a, err := lib.NewAny(&lib.UInt64Wrapper{Value: value})
	if err != nil {
		panic(err)
	}
	return c.Tx("changeParameter", sender, fee, &fsm.MessageChangeParameter{ParameterSpace: space, ParameterKey: key, ParameterValue: a,
		StartHeight: start, EndHeight: end, Signer: sender.Addr},
		fmt.Sprintf("signer=%s space=%s key=%s value=%d start=%d end=%d", hx(sender.Addr), space, key, value, start, end))
}

// Mint is the certificate-independent part of BeginBlock: FundCommitteeRewardPools (height > 1).
func (c *Chain) Mint() string {
	before := c.TotalNow()
	err, p := c.atomically(func() lib.ErrorI {
		if c.SM.Height() <= 1 {
			return nil
		}
		return c.SM.FundCommitteeRewardPools()
	})
	res := resOf(err, p)
	c.O.Count("mint." + res)
	c.emit("mint", res)
	bound := uint64(0)
	if bph := c.Cfg.StateMachineConfig.BlocksPerHalvening; bph != 0 && c.SM.Height()/bph < 64 {
		bound = c.Cfg.StateMachineConfig.InitialTokensPerBlock >> (c.SM.Height() / bph)
	}
	c.CheckDelta("mint", "mint", before, bound)
	return res
}

// Slash calls the real SlashValidators entry point (what SlashNonSigners / SlashDoubleSigners call).
func (c *Chain) Slash(chain, percent uint64, addrs [][]byte) string {
	var as []string
	for _, a := range addrs {
		as = append(as, hx(a))
	}
	for _, a := range addrs {
		if v, e := c.SM.GetValidator(crypto.NewAddressFromBytes(a)); e == nil && v.Delegate {
			c.DelegateSlashed = true
		}
	}
	before := c.TotalNow()
	err, p := c.atomically(func() lib.ErrorI {
		params, e := c.SM.GetParamsVal()
		if e != nil {
			return e
		}
		return c.SM.SlashValidators(addrs, chain, percent, params)
	})
	res := resOf(err, p)
	c.O.Count("slash." + res)
	c.emit(fmt.Sprintf("slash chain=%d pct=%d addrs=%s", chain, percent, joinOrDash(as, ",")), res)
	c.CheckDelta("slash", "burn", before, 0)
	return res
}

// Retire calls RetireCommittee (what a nested chain's `retired` certificate result does on the root).
func (c *Chain) Retire(chain uint64) string {
	err, p := c.atomically(func() lib.ErrorI { return c.SM.RetireCommittee(chain) })
	res := resOf(err, p)
	c.emit(fmt.Sprintf("retire chain=%d", chain), res)
	return res
}

type Member struct {
	Key    *Key
	Power  uint64
	Signed bool
}
type DoubleSigner struct {
	Key     *Key
	Heights []uint64
}
type Payment struct {
	Addr    []byte
	Percent uint64
	Chain   uint64
}

// Cert calls the real HandleCertificateResults with an explicit committee for the node's own chain
// (the root-chain BeginBlock path): non-signer counting and window settlement, double-signer
// slashing, reward-percent bookkeeping.
func (c *Chain) Cert(height, rootHeight uint64, members []Member, ds []DoubleSigner, pay []Payment) string {
	var ms, dss, ps []string
	vals := &lib.ConsensusValidators{}
	for _, m := range members {
		ms = append(ms, fmt.Sprintf("%s:%d:%d", hx(m.Key.Addr), m.Power, b2i(m.Signed)))
		vals.ValidatorSet = append(vals.ValidatorSet, &lib.ConsensusValidator{PublicKey: m.Key.Pub, VotingPower: m.Power, NetAddress: "tcp://v.example.com"})
	}
	results := &lib.CertificateResult{RewardRecipients: &lib.RewardRecipients{}, SlashRecipients: &lib.SlashRecipients{}}
	for _, d := range ds {
		dss = append(dss, fmt.Sprintf("%s:%s", hx(d.Key.Addr), u64s(d.Heights, "/")))
		results.SlashRecipients.DoubleSigners = append(results.SlashRecipients.DoubleSigners, &lib.DoubleSigner{Id: d.Key.Pub, Heights: d.Heights})
	}
	for _, p := range pay {
		ps = append(ps, fmt.Sprintf("%s:%d:%d", hx(p.Addr), p.Percent, p.Chain))
		results.RewardRecipients.PaymentPercents = append(results.RewardRecipients.PaymentPercents, &lib.PaymentPercents{Address: p.Addr, Percent: p.Percent, ChainId: p.Chain})
	}
	before := c.TotalNow()
	op := fmt.Sprintf("cert h=%d rh=%d mem=%s ds=%s pay=%s", height, rootHeight, joinOrDash(ms, ","), joinOrDash(dss, ","), joinOrDash(ps, ","))
	err, p := c.atomically(func() lib.ErrorI {
		vs, e := lib.NewValidatorSet(vals)
		if e != nil {
			return e
		}
		mk := vs.MultiKey.Copy()
		for i, m := range members {
			if m.Signed {
				if er := mk.AddSigner([]byte{1}, i); er != nil {
					panic(er)
				}
			}
		}
		qc := &lib.QuorumCertificate{
			Header:    &lib.View{NetworkId: uint64(c.SM.NetworkID), ChainId: c.Cfg.ChainId, Height: height, RootHeight: rootHeight},
			Results:   results,
			Signature: &lib.AggregateSignature{Signature: []byte{1}, Bitmap: mk.Bitmap()},
		}
		return c.SM.HandleCertificateResults(qc, &vs)
	})
	res := resOf(err, p)
	c.O.Count("cert." + res)
	c.emit(op, res)
	c.CheckDelta("cert", "burn", before, 0)
	return res
}

// End runs the real EndBlock; on success the block boundary follows: commit the store, height+1,
// fresh slash tracker and caches (what the controller's new FSM has), state scan, oracle.
func (c *Chain) End() string {
	proposer := BLSKeys[0].Addr
	before := c.TotalNow()
	err, p := c.atomically(func() lib.ErrorI {
		_, e := c.SM.EndBlock(proposer)
		return e
	})
	res := resOf(err, p)
	c.O.Count("end." + res)
	if res != "ok" {
		c.emit("end", res)
		return res
	}
	if _, e := c.DB.Commit(); e != nil {
		panic(e)
	}
	c.SM.VerifSetHeight(c.SM.Height() + 1)
	c.SM.VerifSetSlashTracker(nil)
	c.SM.ResetCaches()
	c.Blocks++
	snap := c.Scan()
	c.emit("end", "ok "+snap.Dump())
	c.CheckDelta("end", "burn", before, 0)
	c.Oracle(snap)
	return res
}

// ---------------------------------------------------------------------------------------------
// state scan

type SnapVal struct {
	Addr            []byte
	Stake           uint64
	Committees      []uint64
	Delegate        bool
	Compound        bool
	Output          []byte
	UnstakingHeight uint64
	MaxPausedHeight uint64
}
type SnapMarker struct {
	Height uint64
	Addr   []byte
}
type SnapCKey struct {
	Chain, Stake uint64
	Addr         []byte
}
type SnapNS struct {
	Addr    []byte
	Counter uint64
	Chains  [][2]uint64
}

type Snap struct {
	Height                uint64
	Total, Staked, Deleg  uint64
	CS, CD                [][2]uint64
	Accounts              []GenAcc
	Pools                 [][2]uint64
	Vals                  []SnapVal
	Unstaking, Paused     []SnapMarker
	NS                    []SnapNS
	CKeys, DKeys          []SnapCKey
	CData                 []*lib.CommitteeData
	Retired               []uint64
	AccountVesting, Nonce bool // an account carried vesting / nonce state (outside the model)
}

func (c *Chain) iter(prefix []byte, f func(k, v []byte)) {
	it, err := c.SM.Iterator(prefix)
	if err != nil {
		panic(err)
	}
	defer it.Close()
	for ; it.Valid(); it.Next() {
		k, v := append([]byte{}, it.Key()...), append([]byte{}, it.Value()...)
		f(k, v)
	}
}

func pools2(ps []*fsm.Pool) [][2]uint64 {
	out := make([][2]uint64, 0, len(ps))
	for _, p := range ps {
		out = append(out, [2]uint64{p.Id, p.Amount})
	}
	sort.Slice(out, func(i, j int) bool { return out[i][0] < out[j][0] })
	return out
}

// Scan reads the whole ledger state back from the real store by iterating the key families.
func (c *Chain) Scan() *Snap {
	s := &Snap{Height: c.SM.Height()}
	sup, err := c.SM.GetSupply()
	if err != nil {
		panic(err)
	}
	s.Total, s.Staked, s.Deleg = sup.Total, sup.Staked, sup.DelegatedOnly
	s.CS, s.CD = pools2(sup.CommitteeStaked), pools2(sup.CommitteeDelegatedOnly)
	c.iter(fsm.AccountPrefix(), func(k, v []byte) {
		a := new(fsm.Account)
		if e := lib.Unmarshal(v, a); e != nil {
			panic(e)
		}
		segs := lib.DecodeLengthPrefixed(k)
		s.Accounts = append(s.Accounts, GenAcc{Addr: segs[1], Amount: a.Amount,
			Vest: [4]uint64{a.VestingAmount, a.VestingStartHeight, a.VestingCliffHeight, a.VestingEndHeight}})
		if a.VestingAmount != 0 {
			s.AccountVesting = true
		}
		if a.Nonce != 0 {
			s.Nonce = true
		}
	})
	c.iter(fsm.PoolPrefix(), func(k, v []byte) {
		p := new(fsm.Pool)
		if e := lib.Unmarshal(v, p); e != nil {
			panic(e)
		}
		segs := lib.DecodeLengthPrefixed(k)
		s.Pools = append(s.Pools, [2]uint64{binary.BigEndian.Uint64(segs[1]), p.Amount})
	})
	c.iter(fsm.ValidatorPrefix(), func(k, v []byte) {
		x := new(fsm.Validator)
		if e := lib.Unmarshal(v, x); e != nil {
			panic(e)
		}
		segs := lib.DecodeLengthPrefixed(k)
		s.Vals = append(s.Vals, SnapVal{Addr: segs[1], Stake: x.StakedAmount, Committees: x.Committees, Delegate: x.Delegate, Compound: x.Compound,
			Output: x.Output, UnstakingHeight: x.UnstakingHeight, MaxPausedHeight: x.MaxPausedHeight})
	})
	marker := func(prefix byte, out *[]SnapMarker) {
		c.iter(lib.JoinLenPrefix([]byte{prefix}), func(k, v []byte) {
			segs := lib.DecodeLengthPrefixed(k)
			*out = append(*out, SnapMarker{Height: binary.BigEndian.Uint64(segs[1]), Addr: segs[2]})
		})
	}
	marker(5, &s.Unstaking)
	marker(6, &s.Paused)
	ckeys := func(prefix byte, out *[]SnapCKey) {
		c.iter(lib.JoinLenPrefix([]byte{prefix}), func(k, v []byte) {
			segs := lib.DecodeLengthPrefixed(k)
			*out = append(*out, SnapCKey{Chain: binary.BigEndian.Uint64(segs[1]), Stake: binary.BigEndian.Uint64(segs[2]), Addr: segs[3]})
		})
	}
	ckeys(4, &s.CKeys)
	ckeys(11, &s.DKeys)
	c.iter(fsm.NonSignerPrefix(), func(k, v []byte) {
		n := new(fsm.NonSigner)
		if e := lib.Unmarshal(v, n); e != nil {
			panic(e)
		}
		segs := lib.DecodeLengthPrefixed(k)
		ns := SnapNS{Addr: segs[1], Counter: n.Counter}
		for _, cc := range n.ChainCounters {
			ns.Chains = append(ns.Chains, [2]uint64{cc.ChainId, cc.Counter})
		}
		sort.Slice(ns.Chains, func(i, j int) bool { return ns.Chains[i][0] < ns.Chains[j][0] })
		s.NS = append(s.NS, ns)
	})
	cd, err := c.SM.GetCommitteesData()
	if err != nil {
		panic(err)
	}
	s.CData = cd.List
	s.Retired, err = c.SM.GetRetiredCommittees()
	if err != nil {
		panic(err)
	}
	return s
}

func pairs(ps [][2]uint64, f string) string {
	out := make([]string, len(ps))
	for i, p := range ps {
		out[i] = fmt.Sprintf(f, p[0], p[1])
	}
	return joinOrDash(out, ",")
}

// Dump is the canonical one-line rendering the Lean driver must reproduce (lean/Driver/Ledger.lean `dump`).
func (s *Snap) Dump() string {
	var acc, val, un, pa, ns, ck, dk, cd []string
	for _, a := range s.Accounts {
		if a.Vest != [4]uint64{} {
			acc = append(acc, fmt.Sprintf("%s:%d:%d/%d/%d/%d", hx(a.Addr), a.Amount, a.Vest[0], a.Vest[1], a.Vest[2], a.Vest[3]))
		} else {
			acc = append(acc, fmt.Sprintf("%s:%d", hx(a.Addr), a.Amount))
		}
	}
	for _, v := range s.Vals {
		val = append(val, fmt.Sprintf("%s:%d:%s:%d:%d:%s:%d:%d", hx(v.Addr), v.Stake, u64s(v.Committees, "/"), b2i(v.Delegate), b2i(v.Compound), hx(v.Output),
			v.UnstakingHeight, v.MaxPausedHeight))
	}
	for _, m := range s.Unstaking {
		un = append(un, fmt.Sprintf("%d:%s", m.Height, hx(m.Addr)))
	}
	for _, m := range s.Paused {
		pa = append(pa, fmt.Sprintf("%d:%s", m.Height, hx(m.Addr)))
	}
	for _, n := range s.NS {
		var cs []string
		for _, c := range n.Chains {
			cs = append(cs, fmt.Sprintf("%d/%d", c[0], c[1]))
		}
		ns = append(ns, fmt.Sprintf("%s:%d:%s", hx(n.Addr), n.Counter, joinOrDash(cs, ";")))
	}
	for _, k := range s.CKeys {
		ck = append(ck, fmt.Sprintf("%d:%d:%s", k.Chain, k.Stake, hx(k.Addr)))
	}
	for _, k := range s.DKeys {
		dk = append(dk, fmt.Sprintf("%d:%d:%s", k.Chain, k.Stake, hx(k.Addr)))
	}
	for _, d := range s.CData {
		var pp []string
		for _, p := range d.PaymentPercents {
			pp = append(pp, fmt.Sprintf("%s/%d", hx(p.Address), p.Percent))
		}
		cd = append(cd, fmt.Sprintf("%d:%d:%d:%d:%s", d.ChainId, d.LastRootHeightUpdated, d.LastChainHeightUpdated, d.NumberOfSamples, joinOrDash(pp, ";")))
	}
	return fmt.Sprintf("h=%d sup=%d/%d/%d cs=%s cd=%s acc=%s pool=%s val=%s unst=%s paus=%s ns=%s ck=%s dk=%s cdat=%s ret=%s",
		s.Height, s.Total, s.Staked, s.Deleg, pairs(s.CS, "%d:%d"), pairs(s.CD, "%d:%d"), joinOrDash(acc, ","), pairs(s.Pools, "%d:%d"),
		joinOrDash(val, ","), joinOrDash(un, ","), joinOrDash(pa, ","), joinOrDash(ns, ","), joinOrDash(ck, ","), joinOrDash(dk, ","),
		joinOrDash(cd, ","), u64s(s.Retired, ","))
}
