package ledger

import (
	"bytes"
	"fmt"
	"math/big"
	"sort"

	"github.com/canopy-network/canopy/lib"
)

// The oracle evaluates the properties themselves on the state scanned from the REAL store. It shares
// nothing with the Lean model: sums are recomputed here with big integers from the scanned records.

func (c *Chain) fail(sig, desc string) {
	c.O.Count("oracle." + sig)
	if len(sig) >= 3 && sig[:3] != c.Prop {
		// a failure of the sibling property: visible in the histogram, reported by that property's own run
		return
	}
	hist := c.Hist
	if len(hist) > 120 {
		hist = append([]string{fmt.Sprintf("… %d earlier ops omitted (full history: ops.txt, case %s)", len(hist)-120, c.O.CurCase())}, hist[len(hist)-120:]...)
	}
	c.O.Fail(sig, desc, map[string]any{"case": c.O.CurCase(), "height": c.SM.Height(), "ops": hist})
}

func bi(u uint64) *big.Int { return new(big.Int).SetUint64(u) }

// Oracle checks, on one scan:
//
//	C04  recorded total supply = Σ accounts + Σ pools + Σ validator stakes (exact, no modulus)
//	C12  staked / delegated-only / per-committee tallies = sums over the validator records;
//	     unstaking and paused markers ↔ validator records in exactly that status;
//	     an empty block applies at every future height up to the largest pending marker
func (c *Chain) Oracle(s *Snap) {
	c.O.Count("oracle.evaluations")
	// ---- C04: global sum
	sum := new(big.Int)
	for _, a := range s.Accounts {
		sum.Add(sum, bi(a.Amount))
	}
	for _, p := range s.Pools {
		sum.Add(sum, bi(p[1]))
	}
	stakes, deleg := new(big.Int), new(big.Int)
	cs, cd := map[uint64]*big.Int{}, map[uint64]*big.Int{}
	for _, v := range s.Vals {
		stakes.Add(stakes, bi(v.Stake))
		if v.Delegate {
			deleg.Add(deleg, bi(v.Stake))
		}
		for _, id := range v.Committees {
			if cs[id] == nil {
				cs[id] = new(big.Int)
			}
			cs[id].Add(cs[id], bi(v.Stake))
			if v.Delegate {
				if cd[id] == nil {
					cd[id] = new(big.Int)
				}
				cd[id].Add(cd[id], bi(v.Stake))
			}
		}
	}
	sum.Add(sum, stakes)
	if sum.Cmp(bi(s.Total)) != 0 {
		c.fail("C04:total-supply-mismatch"+c.why(c.Wrapped, "-after-mint-wrap")+c.why(c.GenesisDup, "-genesis-duplicate-entry")+c.why(c.GenesisImport, "-genesis-import")+c.why(c.DexBatched, "-dex-batch")+c.why(c.EthTraffic, "-rlp-v2"),
			fmt.Sprintf("height %d: supply.Total=%d but accounts+pools+stakes=%s", s.Height, s.Total, sum))
	}
	// ---- C12: tallies
	if stakes.Cmp(bi(s.Staked)) != 0 {
		c.fail("C12:staked-tally-mismatch"+c.tallyWhy(), fmt.Sprintf("height %d: supply.Staked=%d but Σ stake=%s", s.Height, s.Staked, stakes))
	}
	if deleg.Cmp(bi(s.Deleg)) != 0 {
		c.fail("C12:delegated-tally-mismatch"+c.tallyWhy(), fmt.Sprintf("height %d: supply.DelegatedOnly=%d but Σ delegate stake=%s", s.Height, s.Deleg, deleg))
	}
	cmpPools := func(sig, what string, got [][2]uint64, want map[uint64]*big.Int) {
		seen := map[uint64]bool{}
		for _, p := range got {
			seen[p[0]] = true
			w := want[p[0]]
			if w == nil {
				w = new(big.Int)
			}
			if w.Cmp(bi(p[1])) != 0 {
				c.fail(sig, fmt.Sprintf("height %d: %s[%d]=%d but Σ over validator records=%s", s.Height, what, p[0], p[1], w))
				return
			}
		}
		ids := make([]uint64, 0, len(want))
		for id := range want {
			ids = append(ids, id)
		}
		sort.Slice(ids, func(i, j int) bool { return ids[i] < ids[j] })
		for _, id := range ids {
			if !seen[id] && want[id].Sign() != 0 {
				c.fail(sig, fmt.Sprintf("height %d: %s[%d] absent but Σ over validator records=%s", s.Height, what, id, want[id]))
				return
			}
		}
	}
	cmpPools("C12:committee-tally-mismatch"+c.tallyWhy(), "supply.CommitteeStaked", s.CS, cs)
	// the tally of a committee is the stake of its MEMBERS: a record listing a committee twice is one member
	for _, v := range s.Vals {
		seen := map[uint64]bool{}
		for _, id := range v.Committees {
			if seen[id] {
				c.fail("C12:committee-tally-counts-a-validator-twice", fmt.Sprintf("height %d: validator %x lists committee %d twice; supply.CommitteeStaked[%d] counts its stake %d once per entry", s.Height, v.Addr, id, id, v.Stake))
				break
			}
			seen[id] = true
		}
	}
	cmpPools("C12:committee-delegated-tally-mismatch"+c.tallyWhy(), "supply.CommitteeDelegatedOnly", s.CD, cd)
	// ---- C12: markers <-> validator status
	vals := map[string]*SnapVal{}
	for i := range s.Vals {
		vals[string(s.Vals[i].Addr)] = &s.Vals[i]
	}
	un, pa := map[string]bool{}, map[string]bool{}
	for _, m := range s.Unstaking {
		un[fmt.Sprintf("%d/%x", m.Height, m.Addr)] = true
		if m.Height == 0 { // 0 is how a record says "not unstaking": such a marker is never due
			c.fail("C12:unstaking-marker-at-height-zero", fmt.Sprintf("height %d: unstaking marker (0,%x)", s.Height, m.Addr))
		}
		v := vals[string(m.Addr)]
		if v == nil {
			c.fail("C12:unstaking-marker-without-validator", fmt.Sprintf("height %d: unstaking marker (%d,%x) but no such validator", s.Height, m.Height, m.Addr))
		} else if v.UnstakingHeight != m.Height {
			c.fail("C12:unstaking-marker-height-differs", fmt.Sprintf("height %d: unstaking marker (%d,%x) but validator.UnstakingHeight=%d", s.Height, m.Height, m.Addr, v.UnstakingHeight))
		}
	}
	for _, m := range s.Paused {
		pa[fmt.Sprintf("%d/%x", m.Height, m.Addr)] = true
		if m.Height == 0 {
			c.fail("C12:paused-marker-at-height-zero", fmt.Sprintf("height %d: paused marker (0,%x)", s.Height, m.Addr))
		}
		v := vals[string(m.Addr)]
		if v == nil {
			c.fail("C12:paused-marker-without-validator", fmt.Sprintf("height %d: paused marker (%d,%x) but no such validator", s.Height, m.Height, m.Addr))
		} else if v.MaxPausedHeight != m.Height || v.UnstakingHeight != 0 {
			c.fail("C12:paused-marker-status-differs", fmt.Sprintf("height %d: paused marker (%d,%x) but validator maxPaused=%d unstaking=%d", s.Height, m.Height, m.Addr, v.MaxPausedHeight, v.UnstakingHeight))
		}
	}
	for _, v := range s.Vals {
		if v.UnstakingHeight != 0 && !un[fmt.Sprintf("%d/%x", v.UnstakingHeight, v.Addr)] {
			c.fail("C12:unstaking-validator-without-marker", fmt.Sprintf("height %d: validator %x unstaking at %d has no marker", s.Height, v.Addr, v.UnstakingHeight))
		}
		if v.MaxPausedHeight != 0 && !pa[fmt.Sprintf("%d/%x", v.MaxPausedHeight, v.Addr)] {
			c.fail("C12:paused-validator-without-marker", fmt.Sprintf("height %d: validator %x paused until %d has no marker", s.Height, v.Addr, v.MaxPausedHeight))
		}
	}
	// ---- C12: never wedged
	c.wedgeCheck(s)
}

// pendingHeights returns the marker heights >= from in the CURRENT store view, ascending.
func (c *Chain) pendingHeights(from uint64) []uint64 {
	set := map[uint64]bool{}
	for _, prefix := range []byte{5, 6} {
		c.iter(lib.JoinLenPrefix([]byte{prefix}), func(k, v []byte) {
			segs := lib.DecodeLengthPrefixed(k)
			h := uint64(0)
			for _, b := range segs[1] {
				h = h<<8 | uint64(b)
			}
			if h >= from {
				set[h] = true
			}
		})
	}
	out := make([]uint64, 0, len(set))
	for h := range set {
		out = append(out, h)
	}
	sort.Slice(out, func(i, j int) bool { return out[i] < out[j] })
	return out
}

// wedgeCheck applies empty blocks (begin-block mint + EndBlock) at every future height up to the
// largest pending deferred action, on a throw-away transaction over the current state.
func (c *Chain) wedgeCheck(s *Snap) {
	start := c.SM.Height()
	if len(c.pendingHeights(start)) == 0 {
		return
	}
	cur := c.SM.Store().(lib.StoreI)
	tracker := c.SM.VerifSlashTracker()
	txn, e := c.SM.TxnWrap()
	if e != nil {
		panic(e)
	}
	defer func() {
		c.SM.ResetCaches()
		c.SM.VerifSetSlashTracker(tracker)
		c.SM.VerifSetHeight(start)
		txn.Discard()
		c.SM.SetStore(cur)
	}()
	h, steps := start, uint64(0)
	for steps < 400 {
		pend := c.pendingHeights(h)
		if len(pend) == 0 {
			break
		}
		if steps >= c.WedgeHorizon && pend[0] > h {
			h = pend[0] // beyond the horizon: jump from marker height to marker height
		}
		c.SM.VerifSetHeight(h)
		c.SM.VerifSetSlashTracker(nil)
		var err lib.ErrorI
		panicked := false
		func() {
			defer func() {
				if r := recover(); r != nil {
					panicked = true
				}
			}()
			if h > 1 {
				if err = c.SM.FundCommitteeRewardPools(); err != nil {
					return
				}
			}
			_, err = c.SM.EndBlock(BLSKeys[0].Addr)
		}()
		c.O.Count("oracle.empty-blocks-applied")
		if err != nil || panicked {
			sig := "C12:empty-block-fails"
			if err != nil && err.Code() == lib.CodeEmptyGovParams {
				sig = "C12:zero-dao-percentage-wedges-begin-block"
			}
			c.fail(sig, fmt.Sprintf("from the state after height %d, the empty block at height %d fails with %s", start-1, h, resOf(err, panicked)))
			return
		}
		c.SM.ResetCaches()
		h++
		steps++
	}
}

// TotalNow reads supply.Total from the real store (per-operation delta oracle of C04).
func (c *Chain) TotalNow() uint64 {
	sup, err := c.SM.GetSupply()
	if err != nil {
		panic(err)
	}
	return sup.Total
}

// CheckDelta is the second sentence of C04 evaluated per operation on the real code: `kind` names what
// the operation is allowed to do to the recorded total.
//
//	"move"  total unchanged                  "burn"  total does not grow
//	"mint"  total grows by at most `bound`   (a wrap shows as a decrease and is reported separately)
func (c *Chain) CheckDelta(op, kind string, before uint64, bound uint64) {
	after := c.TotalNow()
	switch kind {
	case "move":
		if after != before {
			c.fail("C04:total-changed-by-non-mint-non-burn-op", fmt.Sprintf("%s changed supply.Total %d -> %d", op, before, after))
		}
	case "burn":
		if after > before {
			c.fail("C04:total-grew-in-burn-only-op", fmt.Sprintf("%s changed supply.Total %d -> %d", op, before, after))
		}
	case "mint":
		if after < before {
			c.Wrapped = true
			c.fail("C04:mint-wraps-total-supply", fmt.Sprintf("%s: supply.Total %d -> %d (uint64 wrap in AddToTotalSupply)", op, before, after))
		} else if after-before > bound {
			c.fail("C04:mint-exceeds-schedule", fmt.Sprintf("%s: supply.Total %d -> %d, more than %d", op, before, after, bound))
		}
	}
}

func sameAddr(a, b []byte) bool { return bytes.Equal(a, b) }

func (c *Chain) why(b bool, s string) string {
	if b {
		return s
	}
	return ""
}

// tallyWhy qualifies a tally mismatch by what the harness knows it did to get there
func (c *Chain) tallyWhy() string {
	return c.why(c.DelegateSlashed, "-after-delegate-slash") + c.why(c.GenesisDup, "-genesis-duplicate-entry")
}
