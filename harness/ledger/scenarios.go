package ledger

import (
	"fmt"

	"verifharness/drv"
)

// Finish closes the chain and records the case for the coverage counters.
func (c *Chain) Finish() {
	c.O.Nontrivial(fmt.Sprintf("%v", c.Hist))
	if len(c.Hist) > 0 {
		c.O.Sample(c.Hist[len(c.Hist)-1])
	}
	c.Close()
}

// Scenarios are the fixed corpus cases that run before the random chains (filled in scenarios2.go).
func Scenarios(o *drv.Out, prop string) {
	for _, s := range scenarios {
		o.Case("scenario-" + s.name)
		s.run(o, prop)
	}
}

type scenario struct {
	name string
	run  func(o *drv.Out, prop string)
}

var scenarios []scenario
