package c05

import (
	"fmt"

	"github.com/canopy-network/canopy/fsm"
	"github.com/canopy-network/canopy/lib"
	"github.com/canopy-network/canopy/lib/crypto"

	"verifharness/drv"
)

// The batch verifier files signature i of a block into lane i%8 and, per lane, handles ed25519 first
// (cache look-ups, one batch equation, one-by-one fallback) and then the eth-secp256k1, secp256k1 and
// BLS tuples one by one. ApplyTransactions executes with a no-op verifier afterwards, so whatever a
// lane lets through is executed. runLanes places a FORGED transaction (a field changed after signing,
// signer authorized) at index i of a block of n otherwise valid transactions and varies what shares
// its lane and what the process-wide signature cache already holds.

type laneSpec struct {
	n, i    int
	variant string
}

var laneVariants = []string{
	"ed-cached-in-lane",  // the ed25519 lane-mates of the forged transaction were seen before (cache hit)
	"all-cached",         // every valid transaction of the block was seen before
	"none-cached",        // cold cache
	"no-ed-in-lane",      // the lane-mates are BLS transactions, nothing cached
	"bls-cached-in-lane", // the lane-mates are BLS transactions seen before
}

func (r *runner) runLanes(schemeIdx int) {
	defer timed("lanes")()
	w := r.w
	P := w.P[r.sc]
	r.o.Case(r.sc + "/block/lanes")
	r.f, r.sent, r.decl = &facts{}, 0, map[string]bool{}
	fee := w.fees[fsm.MessageSendName]
	send := func(k *single, p int) []byte {
		ti, err := fsm.NewSendTransaction(k.priv, crypto.NewAddress(k.addr), 1, w.netID, selfChain, fee, w.sm.Height(), "")
		if err != nil {
			panic(err)
		}
		tx := ti.(*lib.Transaction)
		tx.Time = txTime + 5000 + uint64(p)
		if e := tx.Sign(k.priv); e != nil {
			panic(e)
		}
		return txBytes(tx)
	}
	var edFill, blsFill [][]byte
	for p := 0; p < 17; p++ {
		edFill = append(edFill, send(w.fillers[p%len(w.fillers)], p))
		blsFill = append(blsFill, send(w.cvs[p%len(w.cvs)], p))
	}
	w.inTxn(func() {
		r.base = w.scan()
		r.declareState()
		// own's signed send, then two forgeries of it
		signed := w.envelope(w.buildMsg(r.sc, fsm.MessageSendName, ""), fsm.MessageSendName)
		sign(signed, P["own"], r.f)
		type forged struct {
			field string
			tx    *lib.Transaction
		}
		var fs []forged
		for _, tp := range tampers {
			if tp.field != "msg.amount" && tp.field != "msg.beneficiary" {
				continue
			}
			t := clone(signed)
			if tp.apply(w, r.sc, t) {
				fs = append(fs, forged{tp.field, t})
			}
		}
		r.declareContent(signed)
		for _, f := range fs {
			r.declareContent(f.tx)
		}
		r.flushFacts()

		var plan []laneSpec
		for _, s := range []laneSpec{{9, 0, "ed-cached-in-lane"}, {9, 8, "ed-cached-in-lane"}, {17, 8, "all-cached"}, {9, 0, "all-cached"},
			{9, 0, "no-ed-in-lane"}, {9, 8, "bls-cached-in-lane"}, {10, 1, "none-cached"}, {17, 16, "ed-cached-in-lane"}} {
			plan = append(plan, s)
		}
		if r.o.Tier == "thorough" {
			k := 0
			for n := 1; n <= 17; n++ {
				for i := 0; i < n; i++ {
					plan = append(plan, laneSpec{n, i, laneVariants[(k+schemeIdx)%len(laneVariants)]})
					k++
				}
			}
		} else {
			// every block size once; index and variant rotate so that over the five schemes every lane occurs
			for n := 1; n <= 17; n++ {
				plan = append(plan, laneSpec{n, (n*5 + schemeIdx*3 + w.rng.Intn(n)) % n, laneVariants[(n+schemeIdx)%len(laneVariants)]})
			}
		}
		for k, sp := range plan {
			f := fs[k%len(fs)]
			fbz := txBytes(f.tx)
			block := make([][]byte, sp.n)
			var warm []int
			for p := 0; p < sp.n; p++ {
				mate := p%8 == sp.i%8
				switch {
				case p == sp.i:
					block[p] = fbz
				case mate && (sp.variant == "no-ed-in-lane" || sp.variant == "bls-cached-in-lane"):
					block[p] = blsFill[p]
					if sp.variant == "bls-cached-in-lane" {
						warm = append(warm, p)
					}
				default:
					block[p] = edFill[p]
					if sp.variant == "all-cached" || (mate && sp.variant == "ed-cached-in-lane") {
						warm = append(warm, p)
					}
				}
			}
			crypto.SignatureCache.Reset()
			for _, p := range warm {
				bz := block[p]
				w.inTxn(func() {
					if _, e := w.sm.CheckTx(bz, "", nil); e != nil {
						r.fail("C05:valid-tx-rejected:check", fmt.Sprintf("%s: a valid send was refused by CheckTx with %s", r.o.CurCase(), errStr(e)), map[string]any{"tx": drv.Hex(bz)})
					}
				})
			}
			var errs []lib.ErrorI
			var senders [][]byte
			var berr lib.ErrorI
			var ownAfter uint64
			w.inTxn(func() {
				errs, senders, berr = r.applyBlock(block)
				if a, e := w.sm.GetAccount(crypto.NewAddress(P["own"].addr)); e == nil {
					ownAfter = a.Amount
				}
			})
			// second presentations of the forged bytes, caches left as the block left them: alone, and as
			// transaction sp.i of the same block again
			var againAlone, againBlock lib.ErrorI = lib.ErrPanic(), lib.ErrPanic()
			if berr == nil && errs[sp.i] != nil {
				w.inTxn(func() { _, _, againAlone = w.sm.ApplyTransaction(0, fbz, crypto.HashString(fbz), nil) })
				w.inTxn(func() {
					e2, _, b2 := r.applyBlock(block)
					if b2 != nil {
						againBlock = b2
					} else {
						againBlock = e2[sp.i]
					}
				})
			}
			label := fmt.Sprintf("lane:%s:n%d:i%d", sp.variant, sp.n, sp.i)
			var hx []string
			for _, bz := range block {
				hx = append(hx, drv.Hex(bz))
			}
			replay := map[string]any{"case": r.o.CurCase(), "block": hx, "forged_index": sp.i, "forged_field": f.field,
				"warmed_by_CheckTx_first": warm, "variant": sp.variant, "path": "batch"}
			res := ""
			switch {
			case berr != nil:
				res = "block-refused:" + errStr(berr)
				r.fail("C05:path-divergence:batch", label+": ApplyTransactions refused the whole block: "+errStr(berr), replay)
			case errs[sp.i] == nil:
				res = "ok signer=" + drv.Hex(senders[sp.i])
				before := r.base.accts[string(P["own"].addr)].Amount
				r.fail("C05:tampered-tx-accepted:"+f.field, fmt.Sprintf("%s %s: a %s transaction whose field %s was changed after signing was EXECUTED by ApplyTransactions (batch path) at index %d of a %d-transaction block (lane %d; transactions warmed into the signature cache first: %v); balance of the claimed sender %d -> %d",
					r.o.CurCase(), label, r.sc, f.field, sp.i, sp.n, sp.i%8, warm, before, ownAfter), replay)
			default:
				res = errStr(errs[sp.i])
			}
			if berr == nil {
				for p := range block {
					if p != sp.i && errs[p] != nil {
						r.fail("C05:path-divergence:batch", fmt.Sprintf("%s: valid transaction %d of the block failed with %s", label, p, errStr(errs[p])), replay)
					}
				}
			}
			if againAlone == nil || againBlock == nil {
				how := "alone through ApplyTransaction"
				if againAlone != nil {
					how = "in a second block"
				}
				r.fail("C05:unauthorized-state-change:accepted-on-second-presentation", fmt.Sprintf("%s %s: a %s transaction whose field %s was changed after signing was refused in its block (index %d, lane %d) and EXECUTED when the same bytes were presented again %s with the caches left alone",
					r.o.CurCase(), label, r.sc, f.field, sp.i, sp.i%8, how), replay)
				res = "ok-on-second-presentation"
			}
			r.o.Op(fmt.Sprintf("tx %s %s %s %s %s", label, contentID(f.tx), keyToken(f.tx.Signature.PublicKey), sigTok(f.tx.Signature.Signature), drv.Hex(crypto.Hash(fbz)[:20])), res)
			r.o.Count("path:lane")
			r.o.Count("lane:" + sp.variant)
			r.o.Count(fmt.Sprintf("lane-index:%d", sp.i%8))
			r.o.Count("tamper:" + f.field + ":" + res)
			r.o.Nontrivial(r.o.CurCase() + "|" + label + "|" + f.field + "|" + res)
		}
	})
}
