// Package c05 drives the REAL transaction admission and execution path (fsm.CheckTx /
// ApplyTransaction / ApplyTransactions with the batch verifier and the signature cache) with every
// message kind x key type x (signer, claimed owner) pair x single-field tampering, and compares the
// outcome and the state diff with the Lean authorization model (C05).
package c05

import (
	"crypto/ed25519"
	"crypto/sha256"
	"fmt"
	"sort"
	"strings"

	"github.com/canopy-network/canopy/lib/crypto"
	"github.com/drand/kyber"

	"verifharness/drv"
)

// schemes of principals. "multi" is a 2-of-3 BLS multisig account.
var schemes = []string{"bls", "ed25519", "secp256k1", "eth", "multi"}

// roles of a principal set
//
//	own: the claimed owner (sender / validator operator / order seller / liquidity provider)
//	out: the output address of own's validator
//	oth: owner of another funded account (and operator of another, custodial validator)
//	unr: a key with no state at all
//	stk: the operator key of a validator that does not exist yet (stake)
var roles = []string{"own", "out", "oth", "unr", "stk"}

func seedOf(label string) []byte { h := sha256.Sum256([]byte("verif-c05-" + label)); return h[:] }

// single is one real key pair.
type single struct {
	scheme string
	priv   crypto.PrivateKeyI
	pub    []byte
	addr   []byte
}

func newSingle(scheme, label string) *single {
	var pk crypto.PrivateKeyI
	var err error
	s := seedOf(scheme + "-" + label)
	switch scheme {
	case "ed25519":
		pk = crypto.BytesToED25519Private(ed25519.NewKeyFromSeed(s))
	case "bls":
		s[0] &= 0x3f // below the group order
		pk, err = crypto.BytesToBLS12381PrivateKey(s)
	case "secp256k1":
		pk, err = crypto.BytesToSECP256K1Private(s)
	case "eth":
		pk, err = crypto.BytesToEthSECP256K1Private(s)
	default:
		err = fmt.Errorf("unknown scheme %s", scheme)
	}
	if err != nil {
		panic(err)
	}
	return &single{scheme: scheme, priv: pk, pub: pk.PublicKey().Bytes(), addr: pk.PublicKey().Address().Bytes()}
}

// principal is an account holder: a single key or a k-of-n BLS multisig.
type principal struct {
	name    string // "<scheme>/<role>"
	scheme  string
	key     *single   // single-key principals
	members []*single // multisig members (BLS), in the order of the serialized key
	thr     uint32
	addr    []byte
}

func (p *principal) isMulti() bool { return p.members != nil }

func (p *principal) points(order []int) []kyber.Point {
	var pts []kyber.Point
	for _, i := range order {
		pt, err := crypto.BytesToBLS12381Point(p.members[i].pub)
		if err != nil {
			panic(err)
		}
		pts = append(pts, pt)
	}
	return pts
}

// multiKey builds the multi key with the given threshold over the members in natural order.
func (p *principal) multiKey(thr uint32) crypto.MultiPublicKeyI {
	order := make([]int, len(p.members))
	for i := range order {
		order[i] = i
	}
	if thr == 0 {
		mk, err := crypto.NewMultiBLSFromPoints(p.points(order), nil)
		if err != nil {
			panic(err)
		}
		return mk
	}
	mk, err := crypto.NewAccountAuthMultiBLSFromPoints(p.points(order), nil, thr)
	if err != nil {
		panic(err)
	}
	return mk
}

// pubBytes is the serialized public key with NO signer enabled: the form stored in messages
// (stake.PublicKey); its address does not depend on the bitmap.
func (p *principal) pubBytes() []byte {
	if p.isMulti() {
		return p.multiKey(p.thr).Bytes()
	}
	return p.key.pub
}

func newPrincipal(scheme, role string) *principal {
	p := &principal{name: scheme + "/" + role, scheme: scheme}
	if scheme == "multi" {
		for i := 0; i < 3; i++ {
			p.members = append(p.members, newSingle("bls", fmt.Sprintf("multi-%s-member-%d", role, i)))
		}
		p.thr = 2
		p.addr = p.multiKey(p.thr).Address().Bytes()
		return p
	}
	p.key = newSingle(scheme, role)
	p.addr = p.key.addr
	return p
}

// keyToken renders a public key for the op lines: "<scheme>:<hex>" or "multi:<thr>:<bitmap bits>:<k1>,<k2>,…".
func keyToken(pub []byte) string {
	pk, err := crypto.NewPublicKeyFromBytes(pub)
	if err != nil {
		return "bad:" + drv.Hex(pub)
	}
	switch k := pk.(type) {
	case *crypto.ED25519PublicKey:
		return "ed25519:" + drv.Hex(pub)
	case *crypto.BLS12381PublicKey:
		return "bls:" + drv.Hex(pub)
	case *crypto.SECP256K1PublicKey:
		return "secp256k1:" + drv.Hex(pub)
	case *crypto.ETHSECP256K1PublicKey:
		return "eth:" + drv.Hex(pub)
	case *crypto.BLS12381MultiPublicKey:
		var ks []string
		bits := ""
		for i, m := range k.PublicKeys() {
			ks = append(ks, drv.Hex(m.Bytes()))
			on, e := k.SignerEnabledAt(i)
			if e != nil {
				panic(e)
			}
			if on {
				bits += "1"
			} else {
				bits += "0"
			}
		}
		return fmt.Sprintf("multi:%d:%s:%s", k.Threshold(), bits, strings.Join(ks, ","))
	}
	return "bad:" + drv.Hex(pub)
}

func sortedHex(bs [][]byte) []string {
	var out []string
	for _, b := range bs {
		out = append(out, drv.Hex(b))
	}
	sort.Strings(out)
	return out
}

func short(b []byte) string {
	h := sha256.Sum256(b)
	return drv.Hex(h[:8])
}
