package c05

import (
	"fmt"
	"strings"

	"github.com/canopy-network/canopy/fsm"
	"github.com/canopy-network/canopy/lib"
	"github.com/canopy-network/canopy/lib/crypto"

	"verifharness/drv"
)

// ApplyTransactions checks every transaction of a block with one shared batch verifier (first pass),
// maps the indices the verifier blames back to transactions, and executes with a no-op verifier.
// CheckSignature QUEUES the signature before it compares the signer with the authorized signers, so a
// transaction can fail CheckTx before its signature is queued (fee, network, ...) or after (unauthorized
// signer) — the batch-index -> transaction map has to stay aligned in both cases.
//
// runMixed: blocks of 2..17 transactions mixing, in varying order,
//
//	V  a valid send of a bystander (must execute)
//	P  own's validly signed send with a fee below the minimum (fails BEFORE the signature is queued)
//	N  own's validly signed send for another chain id      (fails BEFORE the signature is queued)
//	U  a send naming own as sender, validly signed by `oth` (queued, then refused as unauthorized)
//	X  the same with a junk signature                        (queued, unauthorized AND invalid)
//	F  own's signed send with the amount changed afterwards: names the funded victim's key, signature
//	   does not fit (must NOT execute)
//
// Oracle per transaction: executed => validly signed by an authorized signer; valid => executed.
func (r *runner) runMixed(schemeIdx int) {
	defer timed("mixed")()
	w := r.w
	P := w.P[r.sc]
	r.o.Case(r.sc + "/block/mixed-check-stages")
	r.f, r.sent, r.decl = &facts{}, 0, map[string]bool{}
	fee := w.fees[fsm.MessageSendName]
	seq := uint64(0)
	validSend := func() []byte {
		seq++
		k := w.fillers[int(seq)%len(w.fillers)]
		if seq%3 == 0 {
			k = w.cvs[int(seq)%len(w.cvs)] // a BLS bystander now and then
		}
		ti, err := fsm.NewSendTransaction(k.priv, crypto.NewAddress(k.addr), 1, w.netID, selfChain, fee, w.sm.Height(), "")
		if err != nil {
			panic(err)
		}
		tx := ti.(*lib.Transaction)
		tx.Time = txTime + 9000 + seq
		if e := tx.Sign(k.priv); e != nil {
			panic(e)
		}
		return txBytes(tx)
	}
	ownSend := func() *lib.Transaction {
		seq++
		tx := w.envelope(w.buildMsg(r.sc, fsm.MessageSendName, ""), fsm.MessageSendName)
		tx.Time = txTime + 9000 + seq
		return tx
	}
	w.inTxn(func() {
		r.base = w.scan()
		r.declareState()
		type item struct {
			kind byte
			bz   []byte
			tx   *lib.Transaction // nil for V
		}
		build := func(kind byte) item {
			switch kind {
			case 'V':
				return item{kind: 'V', bz: validSend()}
			case 'P':
				tx := ownSend()
				tx.Fee = fee - 1
				sign(tx, P["own"], r.f)
				return item{'P', txBytes(tx), tx}
			case 'N':
				tx := ownSend()
				tx.ChainId = selfChain + 1
				sign(tx, P["own"], r.f)
				return item{'N', txBytes(tx), tx}
			case 'U':
				tx := ownSend()
				sign(tx, P["oth"], r.f)
				return item{'U', txBytes(tx), tx}
			case 'X':
				tx := ownSend()
				sign(tx, P["oth"], r.f)
				s := append([]byte{}, tx.Signature.Signature...)
				s[len(s)/2] ^= 0x10
				tx.Signature.Signature = s
				return item{'X', txBytes(tx), tx}
			case 'F':
				tx := ownSend()
				sign(tx, P["own"], r.f)
				t := clone(tx)
				m := w.buildMsg(r.sc, fsm.MessageSendName, "").(*fsm.MessageSend)
				m.Amount += 1_000_000 + seq
				if !repack(t, m) {
					panic("c05: repack")
				}
				// the signed original is told to the model as a fact only through `sign`; the forgery is what is offered
				r.declareContent(tx)
				return item{'F', txBytes(t), t}
			}
			panic("c05: unknown item kind")
		}
		var patterns []string
		// the shape of the index shift: queued-then-refused, then the forgery, then something to take the blame
		lead := strings.Repeat("V", schemeIdx)
		patterns = append(patterns, lead+"UFV", lead+"UFVV", "FUV", "UUFVV", "PFV", "NUFV", "XFV", "VUVFV", "UFVUFV", "UF", "FU", "UVF",
			strings.Repeat("V", (schemeIdx+5)%8)+"UFV")
		alphabet := "VVVPNUXF"
		sizes := []int{}
		for n := 2; n <= 17; n++ {
			if r.o.Tier == "thorough" || (n+schemeIdx)%3 == 0 {
				sizes = append(sizes, n)
			}
		}
		reps := 1
		if r.o.Tier == "thorough" {
			reps = 3
		}
		for _, n := range sizes {
			for k := 0; k < reps; k++ {
				b := make([]byte, n)
				for i := range b {
					b[i] = alphabet[w.rng.Intn(len(alphabet))]
				}
				// every random block holds a queued-then-refused transaction before a forgery
				u, f := w.rng.Intn(n), w.rng.Intn(n)
				if u == f {
					f = (u + 1) % n
				}
				if u > f {
					u, f = f, u
				}
				b[u], b[f] = "UX"[w.rng.Intn(2)], 'F'
				patterns = append(patterns, string(b))
			}
		}
		for pi, pat := range patterns {
			var items []item
			var block [][]byte
			for i := 0; i < len(pat); i++ {
				it := build(pat[i])
				items = append(items, it)
				block = append(block, it.bz)
			}
			for _, it := range items {
				if it.tx != nil {
					r.declareContent(it.tx)
				}
			}
			r.flushFacts()
			crypto.SignatureCache.Reset()
			var errs []lib.ErrorI
			var senders [][]byte
			var berr lib.ErrorI
			var ownAfter uint64
			t0 := timed("mixed-first-apply")
			w.inTxn(func() {
				errs, senders, berr = r.applyBlock(block)
				if a, e := w.sm.GetAccount(crypto.NewAddress(P["own"].addr)); e == nil {
					ownAfter = a.Amount
				}
			})
			t0()
			replay := map[string]any{"case": r.o.CurCase(), "pattern": pat, "block": hexAll(block), "path": "batch",
				"legend": "V valid bystander send; P fee below minimum; N other chain id; U valid signature of an unauthorized key; X the same with a junk signature; F amount changed after signing (victim's key, signature does not fit)"}
			if berr != nil {
				r.honestBlockRefused("pattern "+pat, berr, block)
				r.o.Op("tx mixed:"+pat+":block - - - -", "block-refused:"+errStr(berr))
				continue
			}
			// the same block a second time, caches left as the first pass left them
			var errs2 []lib.ErrorI
			if r.o.Tier == "thorough" || r.sc == "ed25519" || pi%3 == 0 {
				func() {
					defer timed("mixed-second-apply")()
					w.inTxn(func() { errs2, _, _ = r.applyBlock(block) })
				}()
			}
			for i := range items {
				if errs2 != nil && errs[i] != nil && errs2[i] == nil {
					r.fail("C05:unauthorized-state-change:accepted-on-second-presentation", fmt.Sprintf("%s mixed:%s:p%d: a transaction (kind %c) refused with %s in its block was EXECUTED when the identical block was applied again in the same process with the caches left alone",
						r.o.CurCase(), pat, i, items[i].kind, errStr(errs[i])), replay)
				}
			}
			ownBefore := r.base.accts[string(P["own"].addr)].Amount
			batchIdx := 0
			for i, it := range items {
				res := errStr(errs[i])
				if errs[i] == nil {
					res = "ok signer=" + drv.Hex(senders[i])
				}
				label := fmt.Sprintf("mixed:%s:p%d", pat, i)
				switch it.kind {
				case 'V':
					if errs[i] != nil {
						sig := "C05:valid-tx-rejected:batch"
						if errs[i].Code() == lib.CodeInvalidSignature {
							sig = "C05:valid-tx-rejected:batch-index-shift"
						}
						r.fail(sig, fmt.Sprintf("%s %s: a valid, validly signed send of a bystander (transaction %d of the block, batch index %d, lane %d) was rejected with %s",
							r.o.CurCase(), label, i, batchIdx, batchIdx%8, res), replay)
					}
				case 'F':
					if errs[i] == nil {
						r.fail("C05:tampered-tx-accepted:msg.amount:batch-index-shift", fmt.Sprintf("%s %s: a %s send whose amount was changed after signing (transaction %d of the block, batch index %d, lane %d) was EXECUTED by ApplyTransactions; balance of the claimed sender %d -> %d",
							r.o.CurCase(), label, r.sc, i, batchIdx, batchIdx%8, ownBefore, ownAfter), replay)
					}
				default:
					if errs[i] == nil {
						r.fail("C05:unauthorized-state-change:send", fmt.Sprintf("%s %s: a send that must fail CheckTx (kind %c) was executed", r.o.CurCase(), label, it.kind), replay)
					}
				}
				if it.kind != 'P' && it.kind != 'N' {
					batchIdx++ // these reach batchSigVerifier.Add
				}
				if it.tx != nil {
					// the model decides each of own's transactions on the base state (none of them executes)
					r.o.Op(fmt.Sprintf("tx %s %s %s %s %s", label, contentID(it.tx), keyToken(it.tx.Signature.PublicKey), sigTok(it.tx.Signature.Signature), drv.Hex(crypto.Hash(it.bz)[:20])), res)
					r.o.Count(fmt.Sprintf("mixed:%c:%s", it.kind, res))
				}
				r.o.Nontrivial(r.o.CurCase() + "|" + label + "|" + res)
			}
			r.o.Count("path:mixed-block")
			r.o.Count(fmt.Sprintf("mixed-size:%d", len(pat)))
		}
	})
}
