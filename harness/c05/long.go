package c05

import (
	"bytes"
	"fmt"

	"github.com/canopy-network/canopy/fsm"
	"github.com/canopy-network/canopy/lib"
	"github.com/canopy-network/canopy/lib/crypto"

	"verifharness/drv"
)

// The signature cache is keyed by publicKey ‖ signBytes ‖ signature. Ordinary transactions have sign
// bytes of ~150 bytes; a stake naming several hundred committees has 1-2 kB, and almost every signed
// field (net address, output address, delegate, compound, created height, time, fee, memo, network id,
// chain id, nonce) is serialized AFTER the committee list. runLong stakes with 700 committees: the honest
// transaction is verified first (CheckTx: what the mempool does), then every single-field tampering of
// it is offered through the cold, cache-hit, block and block-over-warm-cache paths.
func (r *runner) runLong() {
	defer timed("long")()
	w := r.w
	P := w.P[r.sc]
	r.o.Case(r.sc + "/stake/long-signbytes")
	r.f, r.sent, r.decl = &facts{}, 0, map[string]bool{}
	w.inTxn(func() {
		r.base = w.scan()
		r.prepareBatch()
		r.declareState()
		msg := w.buildMsg(r.sc, fsm.MessageStakeName, "").(*fsm.MessageStake)
		msg.Committees = nil
		for c := uint64(3); c < 703; c++ {
			msg.Committees = append(msg.Committees, c)
		}
		tx := w.envelope(msg, fsm.MessageStakeName)
		tx.Memo = "long"
		sign(tx, P["stk"], r.f)
		sb, _ := tx.GetSignBytes()
		r.o.Extra["long_signbytes_len_"+r.sc] = len(sb)
		ps := pathsWarm
		if r.sc == "multi" && r.o.Tier != "thorough" {
			ps = []string{"cold", "cache"} // the multisig verifier never reads the cache
		}
		r.offer("stk", tx, "", nil, ps)
		warm := txBytes(tx)
		all := append([]tamper{}, tampers...)
		all = append(all,
			tamper{"msg.net_address", func(w *world, sc string, t *lib.Transaction) bool {
				p, err := lib.FromAny(t.Msg)
				if err != nil {
					return false
				}
				x, ok := p.(*fsm.MessageStake)
				if !ok || x.NetAddress == "" {
					return false
				}
				x.NetAddress = "tcp://10.0.0.1:9000"
				return repack(t, x)
			}},
			tamper{"msg.last_committee", func(w *world, sc string, t *lib.Transaction) bool {
				p, err := lib.FromAny(t.Msg)
				if err != nil {
					return false
				}
				x, ok := p.(*fsm.MessageStake)
				if !ok {
					return false
				}
				x.Committees[len(x.Committees)-1]++
				return repack(t, x)
			}})
		for _, tp := range all {
			t := clone(tx)
			if !tp.apply(w, r.sc, t) || bytes.Equal(txBytes(t), warm) {
				continue
			}
			r.offer("stk~"+tp.field, t, tp.field, warm, ps)
		}
	})
}

// runCacheKeys: the cache key itself. For every single-key scheme and message lengths around and far
// beyond one cache entry: the key must be exactly publicKey ‖ message ‖ signature (compared with the
// Lean definition too), so two tuples that differ in the last byte of the message or anywhere in the
// signature have different keys.
func runCacheKeys(o *drv.Out, w *world, fails map[string]bool) {
	defer timed("cache-keys")()
	o.Case("signature-cache-key")
	fail := func(sig, desc string, replay any) {
		o.Count("oracle-fail:" + sig)
		if !fails[sig] {
			fails[sig] = true
			o.Fail(sig, desc, replay)
		}
	}
	lengths := []int{0, 1, 150, 700, 850, 900, 930, 950, 968, 1000, 1001, 1100, 2000, 5000}
	for _, sc := range []string{"bls", "ed25519", "secp256k1", "eth"} {
		k := w.P[sc]["own"].key
		pub := k.priv.PublicKey()
		for _, n := range lengths {
			msg := drv.Bytes(w.rng, n)
			sig := k.priv.Sign(msg)
			key := (&crypto.BatchTuple{PublicKey: pub, Message: msg, Signature: sig}).Key()
			want := string(append(append(append([]byte{}, pub.Bytes()...), msg...), sig...))
			o.Op(fmt.Sprintf("cachekey %s %s %s", drv.Hex(pub.Bytes()), drv.Hex(msg), drv.Hex(sig)), fmt.Sprintf("len=%d h=%s", len(key), short([]byte(key))))
			o.Count("cachekey")
			o.Nontrivial(fmt.Sprintf("cachekey|%s|%d", sc, n))
			replay := map[string]any{"scheme": sc, "public_key": drv.Hex(pub.Bytes()), "message": drv.Hex(msg), "signature": drv.Hex(sig), "key": drv.Hex([]byte(key))}
			if key != want {
				fail("C05:signature-cache-key-collision", fmt.Sprintf("%s key, %d-byte message: BatchTuple.Key() has %d bytes and is not publicKey||message||signature (%d bytes): the tail of the message and/or the signature is not part of the cache key",
					sc, n, len(key), len(want)), replay)
			}
			// a different message tail / a different signature must give a different key
			if n > 0 {
				m2 := append([]byte{}, msg...)
				m2[n-1] ^= 1
				if (&crypto.BatchTuple{PublicKey: pub, Message: m2, Signature: sig}).Key() == key {
					fail("C05:signature-cache-key-collision", fmt.Sprintf("%s key: two %d-byte messages that differ in their last byte have the same signature-cache key", sc, n), replay)
				}
			}
			s2 := append([]byte{}, sig...)
			s2[len(s2)-1] ^= 1
			if (&crypto.BatchTuple{PublicKey: pub, Message: msg, Signature: s2}).Key() == key {
				fail("C05:signature-cache-key-collision", fmt.Sprintf("%s key, %d-byte message: two different signatures have the same signature-cache key", sc, n), replay)
			}
		}
	}
}
