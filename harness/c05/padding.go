package c05

import (
	"fmt"

	"github.com/canopy-network/canopy/fsm"
	"github.com/canopy-network/canopy/lib"
	"github.com/canopy-network/canopy/lib/crypto"
	"google.golang.org/protobuf/proto"

	"verifharness/drv"
)

// The signer bitmap of a serialized multisig key has ceil(n/8) bytes; when n%8 != 0 the last byte has
// padding bits (indices >= n) that name no signer. They survive decode/encode unchanged (so the
// canonical-key check passes) and the BDN aggregation ignores them. The threshold, and the "at least one
// signer" guard, are about MEMBERS that signed — padding bits must not count.
//
// runPaddingBits: for member counts n with n%8 != 0 and every threshold 1..n, a funded account of the
// n-member key with that threshold; sends signed by k real members
//   - k < threshold, clean bitmap                          (must be refused)
//   - k < threshold, padding bits raised so that the population count of the bitmap >= threshold
//     (must be refused: C05:multisig-threshold-not-met:padding-bits)
//   - k = 0 with padding bits raised and the identity signature (must be refused: the guard)
//   - k = threshold, clean and padded                      (control: accepted)
// and in every pair the padded variant must get the verdict of the clean one.

func raisePadding(pub []byte, n int) []byte {
	mpk := new(crypto.MultiPublicKey)
	if err := proto.Unmarshal(pub, mpk); err != nil {
		panic(err)
	}
	bm := append([]byte{}, mpk.Bitmap...)
	for i := n; i < 8*len(bm); i++ {
		bm[i/8] |= 1 << uint(i&7)
	}
	mpk.Bitmap = bm
	out, err := proto.Marshal(mpk)
	if err != nil {
		panic(err)
	}
	// the padded key must decode and re-encode to itself, otherwise the case tests nothing
	pk, e := crypto.NewPublicKeyFromBytes(out)
	if e != nil {
		return nil
	}
	if string(pk.Bytes()) != string(out) {
		return nil
	}
	return out
}

func verdict(res string) string {
	if len(res) >= 2 && res[:2] == "ok" {
		return "ok"
	}
	return res
}

func (r *runner) runPaddingBits() {
	defer timed("padding")()
	w := r.w
	r.o.Case("multi/send/bitmap-padding-bits")
	r.f, r.sent, r.decl = &facts{}, 0, map[string]bool{}
	var members []*single
	for i := 0; i < 12; i++ {
		members = append(members, newSingle("bls", fmt.Sprintf("padding-member-%d", i)))
	}
	sizes := []int{3, 5, 7, 9, 12}
	w.inTxn(func() {
		type acct struct {
			p    *principal
			n    int
			thr  uint32
			addr []byte
		}
		var accts []acct
		for _, n := range sizes {
			for thr := 1; thr <= n; thr++ {
				p := &principal{name: fmt.Sprintf("multi/pad-%d-of-%d", thr, n), scheme: "multi", members: members[:n], thr: uint32(thr)}
				p.addr = p.multiKey(p.thr).Address().Bytes()
				if err := w.sm.AccountAdd(crypto.NewAddress(p.addr), funds); err != nil {
					panic(err)
				}
				w.byAddr[string(p.addr)] = p.name
				accts = append(accts, acct{p, n, uint32(thr), p.addr})
			}
		}
		r.base = w.scan()
		r.prepareBatch()
		r.declareState()
		for _, a := range accts {
			r.o.Op("key "+keyToken(a.p.pubBytes()), "addr "+drv.Hex(a.addr))
			if acc := r.base.accts[string(a.addr)]; acc != nil {
				r.o.Op(fmt.Sprintf("acct %s %d %d", drv.Hex(a.addr), acc.Amount, acc.Nonce), "ok")
			}
		}
		subset := func(k int) []int {
			s := make([]int, k)
			for i := range s {
				s[i] = i
			}
			return s
		}
		// pass 0: fewer real signers than the threshold; pass 1: nobody signs; pass 2: controls
		for pass := 0; pass < 3; pass++ {
			for ai, a := range accts {
				a := a
				pad := 8*((a.n+7)/8) - a.n
				build := func(k int) *lib.Transaction {
					tx := w.envelope(&fsm.MessageSend{FromAddress: a.addr, ToAddress: recipient, Amount: 1000 + w.j}, fsm.MessageSendName)
					if k == 0 {
						tx.Signature = &lib.Signature{PublicKey: a.p.pubBytes(), Signature: g2Identity()}
						return tx
					}
					signMulti(tx, a.p, a.thr, subset(k), r.f)
					return tx
				}
				pair := func(k int, must string, paths3 bool) {
					clean := build(k)
					padded := clone(clean)
					padded.Signature.PublicKey = raisePadding(clean.Signature.PublicKey, a.n)
					if padded.Signature.PublicKey == nil {
						r.o.Count("padding:key-with-padding-bits-does-not-round-trip")
						return
					}
					ps := []string{"cold", "cache"}
					if paths3 || r.o.Tier == "thorough" {
						ps = paths
					}
					label := fmt.Sprintf("%d-of-%d:%d-signed", a.thr, a.n, k)
					r.mustReject = ""
					if must != "" {
						r.mustReject = "C05:multisig-threshold-not-met:clean-bitmap"
					}
					rc := r.offer(label+":clean-bitmap", clean, "", nil, []string{"cold"})
					r.mustReject = must
					rp := r.offer(fmt.Sprintf("%s:padding-bits-raised(%d)", label, pad), padded, "", txBytes(clean), ps)
					r.mustReject = ""
					r.o.Count("padding:" + verdict(rp[0]))
					for _, x := range rp {
						if verdict(x) != verdict(rc[0]) {
							r.fail("C05:multisig-padding-bits-change-verdict", fmt.Sprintf("%s %s: clean bitmap answered %q, the same key with the %d padding bits raised answered %q",
								r.o.CurCase(), label, rc[0], pad, x), map[string]any{"clean": drv.Hex(txBytes(clean)), "padded": drv.Hex(txBytes(padded))})
							break
						}
					}
				}
				thr := int(a.thr)
				switch pass {
				case 0:
					if thr >= 2 {
						pair(thr-1, "C05:multisig-threshold-not-met:padding-bits", true)
					}
					if lo := thr - pad; lo >= 1 && lo < thr-1 {
						pair(lo, "C05:multisig-threshold-not-met:padding-bits", false)
					}
				case 1:
					// padding bits only, identity signature: the "at least one signer" guard
					if pad >= thr {
						pair(0, "C05:multisig-no-signer-accepted", thr == 1)
					}
				case 2:
					if ai%3 == 0 || r.o.Tier == "thorough" || thr == a.n {
						pair(thr, "", false)
					}
				}
			}
		}
	})
}
