package c05

import (
	"bytes"
	"context"
	"fmt"
	"runtime/debug"
	"time"
	"sort"
	"strings"

	"github.com/canopy-network/canopy/fsm"
	"github.com/canopy-network/canopy/lib"
	"github.com/canopy-network/canopy/lib/crypto"
	"google.golang.org/protobuf/proto"

	"verifharness/drv"
)

// modes: how the transaction is authenticated. rlp / rlp2 use the eth principals.
var modes = []string{"bls", "ed25519", "secp256k1", "eth", "multi", "rlp", "rlp2"}

func schemeOf(mode string) string {
	if mode == "rlp" || mode == "rlp2" {
		return "eth"
	}
	return mode
}

var paths = []string{"cold", "cache", "batch"}

// pathsWarm adds the block path over a signature cache that already holds the untampered original, and
// the block path followed by second presentations of the same bytes with the caches left alone
var pathsWarm = []string{"cold", "cache", "batch", "batch-warm", "batch-repeat"}

type runner struct {
	o     *drv.Out
	w     *world
	sc    string
	mode  string
	kind  string
	f     *facts
	sent  int // facts already emitted
	base  *snap
	bbase *snap // state after a batch holding only the fillers and the bad transaction
	fill  [][]byte
	bad   []byte
	seen  map[string]bool
	decl  map[string]bool
	fails map[string]bool
	rot   int
	rep   int
	// mustReject: oracle signature to fail with when a transaction of the current family is accepted
	mustReject string
	// sigSuffix is appended to tampered-tx-accepted signatures of the current family
	sigSuffix string
}

func (r *runner) fail(sig, desc string, replay any) {
	r.o.Count("oracle-fail:" + sig)
	if r.fails[sig] {
		return
	}
	r.fails[sig] = true
	r.o.Fail(sig, desc, replay)
}

// flushFacts sends the not-yet-sent symbolic facts to the model.
func (r *runner) flushFacts() {
	for ; r.sent < len(r.f.lines); r.sent++ {
		l := r.f.lines[r.sent]
		if r.decl[l] {
			continue
		}
		r.decl[l] = true
		r.o.Op(l, "ok")
	}
}

func (r *runner) declareContent(tx *lib.Transaction) string {
	l := contentLine(tx)
	if !r.decl[l] {
		r.decl[l] = true
		r.o.Op(l, "ok")
	}
	return contentID(tx)
}

// ---------------------------------------------------------------------------------------------
// the three execution paths

type outcome struct {
	err    lib.ErrorI
	sender []byte
	post   *snap
	pre    *snap
	note   string // path-specific oracle complaint
	second bool   // refused at first, accepted when the same bytes were presented again
}

func (r *runner) cold(bz []byte) outcome {
	crypto.SignatureCache.Reset()
	var oc outcome
	oc.pre = r.base
	r.w.inTxn(func() {
		res, _, err := r.w.sm.ApplyTransaction(0, bz, crypto.HashString(bz), nil)
		oc.err = err
		if err == nil {
			oc.sender = res.Sender
			oc.post = r.w.scan()
		}
	})
	return oc
}

// cache: the signature cache is warmed by CheckTx of `warm` (the untampered transaction when bz is a
// tampered one, else bz itself), bz is then checked twice and applied.
func (r *runner) cache(bz, warm []byte) outcome {
	crypto.SignatureCache.Reset()
	var oc outcome
	oc.pre = r.base
	var e1, e2 lib.ErrorI
	r.w.inTxn(func() { _, _ = r.w.sm.CheckTx(warm, "", nil) })
	r.w.inTxn(func() { _, e1 = r.w.sm.CheckTx(bz, "", nil) })
	r.w.inTxn(func() { _, e2 = r.w.sm.CheckTx(bz, "", nil) })
	r.w.inTxn(func() {
		res, _, err := r.w.sm.ApplyTransaction(0, bz, crypto.HashString(bz), nil)
		oc.err = err
		if err == nil {
			oc.sender = res.Sender
			oc.post = r.w.scan()
		}
	})
	if errStr(e1) != errStr(e2) {
		oc.note = fmt.Sprintf("CheckTx answered %s then %s for the same bytes", errStr(e1), errStr(e2))
	}
	return oc
}

// applyBlock runs the real ApplyTransactions and maps every transaction to its outcome.
func (r *runner) applyBlock(txs [][]byte) (errs []lib.ErrorI, senders [][]byte, blockErr lib.ErrorI) {
	res := new(lib.ApplyBlockResults)
	if err := r.w.sm.ApplyTransactions(context.Background(), txs, res, false); err != nil {
		return nil, nil, err
	}
	errs, senders = make([]lib.ErrorI, len(txs)), make([][]byte, len(txs))
	ti, fi := 0, 0
	for i, tx := range txs {
		switch {
		case ti < len(res.Txs) && bytes.Equal(res.Txs[ti], tx):
			senders[i] = res.Results[ti].Sender
			ti++
		case fi < len(res.Failed) && res.Failed[fi].Hash == crypto.HashString(tx):
			if le, ok := res.Failed[fi].Error.(lib.ErrorI); ok {
				errs[i] = le
			} else {
				errs[i] = lib.ErrPanic()
			}
			fi++
		default:
			errs[i] = lib.ErrPanic() // neither included nor failed: reported by the callers' oracles as a failed valid / unexplained transaction
		}
	}
	return
}

// batch: the candidate is transaction 0 of a block that also holds seven good ed25519 sends and, at
// index 8 (same verifier lane as index 0), an ed25519 send with a bad signature: the ed25519 batch
// equation fails and the verifier falls back to one-by-one.
func (r *runner) batch(bz []byte) outcome { return r.batchWarm(bz, nil) }

// batchWarm: as batch, but the signature cache first sees `warm` through CheckTx (the mempool's
// admission of the untampered original), so the block path starts from a cache that holds it.
func (r *runner) batchWarm(bz, warm []byte) outcome {
	crypto.SignatureCache.Reset()
	if warm != nil {
		r.w.inTxn(func() { _, _ = r.w.sm.CheckTx(warm, "", nil) })
	}
	var oc outcome
	oc.pre = r.bbase
	r.w.inTxn(func() {
		txs := append([][]byte{bz}, r.fill...)
		txs = append(txs, r.bad)
		errs, senders, berr := r.applyBlock(txs)
		if berr != nil {
			oc.err = berr
			r.honestBlockRefused("candidate, seven valid ed25519 sends, one ed25519 send with a bad signature", berr, txs)
			return
		}
		oc.err, oc.sender = errs[0], senders[0]
		for i := 1; i < len(txs)-1; i++ {
			if errs[i] != nil {
				oc.note = fmt.Sprintf("good filler %d failed with %s", i, errStr(errs[i]))
			}
		}
		if errs[len(txs)-1] == nil {
			oc.note = "the transaction with the bad signature was included"
		}
		if oc.err == nil {
			oc.post = r.w.scan()
		}
	})
	return oc
}

// batchRepeat: the block path twice in the same process with the caches left alone in between: the
// candidate in a block (cold cache), then the SAME bytes again — alone through ApplyTransaction and
// inside a second block. Whatever a first, failed verification leaves behind must not make a later
// presentation of the same bytes pass. The outcome returned is the first acceptance, if any.
func (r *runner) batchRepeat(bz []byte) outcome {
	first := r.batchWarm(bz, nil)
	var alone outcome
	alone.pre = r.base
	r.w.inTxn(func() {
		res, _, err := r.w.sm.ApplyTransaction(0, bz, crypto.HashString(bz), nil)
		alone.err = err
		if err == nil {
			alone.sender = res.Sender
			alone.post = r.w.scan()
		}
	})
	var again outcome
	again.pre = r.bbase
	r.w.inTxn(func() {
		txs := append([][]byte{bz}, r.fill...)
		txs = append(txs, r.bad)
		errs, senders, berr := r.applyBlock(txs)
		if berr != nil {
			again.err = berr
			r.honestBlockRefused("second presentation: candidate, seven valid ed25519 sends, one ed25519 send with a bad signature", berr, txs)
			return
		}
		again.err, again.sender = errs[0], senders[0]
		if again.err == nil {
			again.post = r.w.scan()
		}
	})
	if first.err != nil {
		for _, o := range []outcome{alone, again} {
			if o.err == nil {
				o.note = "" // reported by the caller's oracle with the dedicated signature
				o.second = true
				return o
			}
		}
	}
	if errStr(alone.err) != errStr(first.err) || errStr(again.err) != errStr(first.err) {
		first.note = fmt.Sprintf("first presentation in a block answered %s, the same bytes alone %s, in a second block %s", errStr(first.err), errStr(alone.err), errStr(again.err))
	}
	return first
}

func (r *runner) prepareBatch() {
	w := r.w
	fee := w.fees[fsm.MessageSendName]
	r.fill = nil
	for i := 0; i < 7; i++ {
		k := w.fillers[i]
		ti, err := fsm.NewSendTransaction(k.priv, crypto.NewAddress(k.addr), 1, w.netID, selfChain, fee, w.sm.Height(), "")
		if err != nil {
			panic(err)
		}
		tx := ti.(*lib.Transaction)
		tx.Time = txTime + uint64(i)
		if e := tx.Sign(k.priv); e != nil {
			panic(e)
		}
		r.fill = append(r.fill, txBytes(tx))
	}
	k := w.fillers[7]
	ti, err := fsm.NewSendTransaction(k.priv, crypto.NewAddress(k.addr), 1, w.netID, selfChain, fee, w.sm.Height(), "")
	if err != nil {
		panic(err)
	}
	tx := ti.(*lib.Transaction)
	tx.Time = txTime + 7
	_ = tx.Sign(k.priv)
	tx.Signature.Signature[5] ^= 0x40
	r.bad = txBytes(tx)
	crypto.SignatureCache.Reset()
	w.inTxn(func() {
		txs := append(append([][]byte{}, r.fill...), r.bad)
		errs, _, berr := r.applyBlock(txs)
		r.bbase = w.scan()
		if berr != nil {
			r.honestBlockRefused("baseline: seven valid ed25519 sends and one with a bad signature", berr, txs)
			return
		}
		for i := range r.fill {
			if errs[i] != nil {
				r.fail("C05:valid-tx-rejected:batch", fmt.Sprintf("%s: baseline block: valid ed25519 send %d failed with %s", r.o.CurCase(), i, errStr(errs[i])), map[string]any{"block": hexAll(txs)})
			}
		}
		if errs[len(txs)-1] == nil {
			r.fail("C05:invalid-signature-accepted:send", r.o.CurCase()+": baseline block: the ed25519 send with a bad signature was executed", map[string]any{"block": hexAll(txs)})
		}
	})
}

// ---------------------------------------------------------------------------------------------
// the oracle: the property evaluated on the real objects, independent of the Lean model

func refAuthorized(msg lib.MessageI, pre *snap) [][]byte {
	addrOf := func(pub []byte) []byte {
		pk, err := crypto.NewPublicKeyFromBytes(pub)
		if err != nil {
			return nil
		}
		return pk.Address().Bytes()
	}
	val := func(a []byte) [][]byte {
		v := pre.vals[string(a)]
		if v == nil {
			return nil
		}
		return [][]byte{v.Address, v.Output}
	}
	ord := func(ch uint64, id []byte) [][]byte {
		o := pre.ords[fmt.Sprintf("%d/%s", ch, drv.Hex(id))]
		if o == nil {
			return nil
		}
		return [][]byte{o.SellersSendAddress}
	}
	switch x := msg.(type) {
	case *fsm.MessageSend:
		return [][]byte{x.FromAddress}
	case *fsm.MessageStake:
		return [][]byte{addrOf(x.PublicKey), x.OutputAddress}
	case *fsm.MessageEditStake:
		return val(x.Address)
	case *fsm.MessageUnstake:
		return val(x.Address)
	case *fsm.MessagePause:
		return val(x.Address)
	case *fsm.MessageUnpause:
		return val(x.Address)
	case *fsm.MessageChangeParameter:
		return [][]byte{x.Signer}
	case *fsm.MessageDAOTransfer:
		return [][]byte{x.Address}
	case *fsm.MessageCertificateResults:
		return [][]byte{addrOf(x.Qc.ProposerKey)}
	case *fsm.MessageSubsidy:
		return [][]byte{x.Address}
	case *fsm.MessageCreateOrder:
		return [][]byte{x.SellersSendAddress}
	case *fsm.MessageEditOrder:
		return ord(x.ChainId, x.OrderId)
	case *fsm.MessageDeleteOrder:
		return ord(x.ChainId, x.OrderId)
	case *fsm.MessageDexLimitOrder:
		return [][]byte{x.Address}
	case *fsm.MessageDexLiquidityDeposit:
		return [][]byte{x.Address}
	case *fsm.MessageDexLiquidityWithdraw:
		return [][]byte{x.Address}
	}
	return nil
}

func contains(set [][]byte, a []byte) bool {
	for _, s := range set {
		if len(s) != 0 && bytes.Equal(s, a) {
			return true
		}
	}
	return false
}

// signatureHolds re-verifies the signature of an accepted transaction without the cache.
func signatureHolds(tx *lib.Transaction) (bool, []byte) {
	if tx.Signature == nil {
		return false, nil
	}
	pk, err := crypto.NewPublicKeyFromBytes(tx.Signature.PublicKey)
	if err != nil {
		return false, nil
	}
	addr := pk.Address().Bytes()
	_, isEth := pk.(*crypto.ETHSECP256K1PublicKey)
	if tx.Memo == lib.RLPV2Indicator || (tx.Memo == lib.RLPIndicator && isEth) {
		var conv *lib.Transaction
		var e lib.ErrorI
		if tx.Memo == lib.RLPV2Indicator {
			conv, e = fsm.RLPToCanopyTransactionV2(tx.Signature.Signature)
		} else {
			conv, e = fsm.RLPToCanopyTransaction(tx.Signature.Signature)
		}
		return e == nil && proto.Equal(conv, tx), addr
	}
	sb, e := tx.GetSignBytes()
	if e != nil {
		return false, addr
	}
	return verifyNoCache(pk, sb, tx.Signature.Signature), addr
}

func (r *runner) oracle(path, label string, tx *lib.Transaction, bz []byte, oc outcome, tampered string, d *diff) {
	if oc.note != "" {
		r.fail("C05:path-divergence:"+path, oc.note, map[string]any{"tx": drv.Hex(bz), "case": r.o.CurCase(), "label": label})
	}
	if oc.err != nil {
		return
	}
	replay := map[string]any{"tx": drv.Hex(bz), "case": r.o.CurCase(), "label": label, "path": path, "diff": d.line()}
	if oc.second {
		r.fail("C05:unauthorized-state-change:accepted-on-second-presentation", fmt.Sprintf("%s %s: refused when first presented in a block, EXECUTED when the same bytes were presented again in the same process (caches untouched): %s",
			r.o.CurCase(), label, d.line()), replay)
	}
	if r.mustReject != "" {
		r.fail(r.mustReject, fmt.Sprintf("%s %s: accepted (%s path) although it must be refused: %s", r.o.CurCase(), label, path, d.line()), replay)
	}
	if tampered != "" {
		r.fail("C05:tampered-tx-accepted:"+tampered+r.sigSuffix, fmt.Sprintf("%s %s: a transaction whose field %s was changed after signing was accepted (%s path)", r.o.CurCase(), label, tampered, path), replay)
	}
	p, err := lib.FromAny(tx.Msg)
	if err != nil {
		r.fail("C05:unauthorized-state-change:"+r.kind, "accepted transaction with an undecodable payload", replay)
		return
	}
	msg := p.(lib.MessageI)
	kind := msg.Name()
	// a multisig key under which nobody signed
	if pk, e := crypto.NewPublicKeyFromBytes(tx.Signature.PublicKey); e == nil {
		if mk, ok := pk.(*crypto.BLS12381MultiPublicKey); ok && mk.EnabledSignerCount() == 0 {
			r.fail("C05:multisig-no-signer-accepted", fmt.Sprintf("%s %s: accepted under a multisig key (threshold %d, %d members) with an EMPTY signer bitmap: no listed key signed, yet %s", r.o.CurCase(), label, mk.Threshold(), len(mk.PublicKeys()), d.line()), replay)
		}
	}
	holds, signer := signatureHolds(tx)
	if !holds {
		r.fail("C05:invalid-signature-accepted:"+kind, fmt.Sprintf("%s: accepted although the signature does not verify over the transaction's sign bytes (%s path)", r.o.CurCase(), path), replay)
	}
	if !bytes.Equal(signer, oc.sender) {
		r.fail("C05:sender-not-verified-key:"+kind, fmt.Sprintf("result sender %s is not the address of the verified key %s", drv.Hex(oc.sender), drv.Hex(signer)), replay)
	}
	auth := refAuthorized(msg, oc.pre)
	if !contains(auth, signer) {
		r.fail("C05:unauthorized-state-change:"+kind, fmt.Sprintf("%s: accepted although the signer %s (%s) is not among the authorized signers %v computed from the state (%s path)",
			r.o.CurCase(), drv.Hex(signer), r.w.label(signer), sortedHex(auth), path), replay)
		return
	}
	// who may be touched
	var recipients [][]byte
	var target []byte // the validator the message is about
	switch x := msg.(type) {
	case *fsm.MessageSend:
		recipients = [][]byte{x.ToAddress}
	case *fsm.MessageDAOTransfer:
		recipients = [][]byte{x.Address}
	case *fsm.MessageStake:
		if pk, e := crypto.NewPublicKeyFromBytes(x.PublicKey); e == nil {
			target = pk.Address().Bytes()
		}
	case *fsm.MessageEditStake:
		target = x.Address
	case *fsm.MessageUnstake:
		target = x.Address
	case *fsm.MessagePause:
		target = x.Address
	case *fsm.MessageUnpause:
		target = x.Address
	}
	bad := func(what string) {
		r.fail("C05:unauthorized-state-change:"+kind, fmt.Sprintf("%s: %s; signer %s (%s), authorized %v (%s path)", r.o.CurCase(), what, drv.Hex(signer), r.w.label(signer), sortedHex(auth), path), replay)
	}
	for a, delta := range d.acct {
		if delta < 0 && !contains(auth, []byte(a)) {
			bad(fmt.Sprintf("account %s (%s) was debited %d", drv.Hex([]byte(a)), r.w.label([]byte(a)), -delta))
		}
		if delta > 0 && !contains(recipients, []byte(a)) && !contains(auth, []byte(a)) {
			bad(fmt.Sprintf("account %s (%s) was credited %d but is neither a named recipient nor an authorized signer", drv.Hex([]byte(a)), r.w.label([]byte(a)), delta))
		}
	}
	for _, n := range d.nonce {
		if n != drv.Hex(signer) {
			bad("the nonce floor of account " + n + " changed")
		}
	}
	for a, ch := range d.val {
		if !bytes.Equal([]byte(a), target) {
			bad(fmt.Sprintf("validator %s (%s) changed (%s) but is not the validator the message names", drv.Hex([]byte(a)), r.w.label([]byte(a)), ch))
			continue
		}
		if oo, ok := d.valOut[a]; ok && oo[0] != nil && !bytes.Equal(oo[0], signer) {
			bad(fmt.Sprintf("the output address of validator %s was redirected from %s to %s by a signer that is not the old output", drv.Hex([]byte(a)), drv.Hex(oo[0]), drv.Hex(oo[1])))
		}
	}
	for k, ch := range d.ord {
		if !bytes.Equal(d.ordOwner[k], signer) {
			bad(fmt.Sprintf("order %s of seller %s changed (%s)", k, drv.Hex(d.ordOwner[k]), ch))
		}
	}
}

// ---------------------------------------------------------------------------------------------
// one transaction through the paths

func (r *runner) offer(label string, tx *lib.Transaction, tampered string, warm []byte, pathSel []string) []string {
	bz := txBytes(tx)
	cid := r.declareContent(tx)
	if tx.Signature != nil && lib.IsRLPMemo(tx.Memo) {
		r.w.declareRLP(tx, r.f)
	}
	r.flushFacts()
	pkTok, sTok := "-", "-"
	if tx.Signature != nil {
		pkTok, sTok = keyToken(tx.Signature.PublicKey), sigTok(tx.Signature.Signature)
		if len(tx.Signature.PublicKey) == 0 {
			pkTok = "-"
		}
	}
	newOrder := drv.Hex(crypto.Hash(bz)[:20])
	if warm == nil {
		warm = bz
	}
	var results, used []string
	for _, path := range pathSel {
		if path == "batch-repeat" && r.o.Tier != "thorough" && r.mode != "ed25519" {
			// quick: second presentations for every ed25519 case (the key type with a real batch equation and
			// cache short-cuts in its lane) and for a rotating quarter of the others
			r.rep++
			if r.rep%4 != 0 {
				continue
			}
		}
		var oc outcome
		switch path {
		case "cold":
			oc = r.cold(bz)
		case "cache":
			oc = r.cache(bz, warm)
		case "batch":
			oc = r.batch(bz)
		case "batch-warm":
			oc = r.batchWarm(bz, warm)
		case "batch-repeat":
			oc = r.batchRepeat(bz)
		}
		res := errStr(oc.err)
		d := &diff{}
		if oc.err == nil {
			d = diffSnaps(oc.pre, oc.post)
			res = "ok signer=" + drv.Hex(oc.sender) + " " + d.line()
		}
		r.o.Op(fmt.Sprintf("tx %s %s %s %s %s", path, cid, pkTok, sTok, newOrder), res)
		results = append(results, res)
		used = append(used, path)
		r.oracle(path, label, tx, bz, oc, tampered, d)
		cls := "reject"
		if oc.err == nil {
			cls = "accept"
		}
		r.o.Count("path:" + path)
		r.o.Count(fmt.Sprintf("kind:%s:%s", r.kind, cls))
		r.o.Count("mode:" + r.mode + ":" + cls)
		if tampered != "" {
			r.o.Count("tamper:" + tampered + ":" + res)
		} else {
			r.o.Count("result:" + strings.SplitN(res, " ", 2)[0])
		}
		r.o.Nontrivial(r.o.CurCase() + "|" + label + "|" + path + "|" + res)
	}
	for i := 1; i < len(results); i++ {
		if results[i] != results[0] {
			r.fail("C05:path-divergence:"+used[i], fmt.Sprintf("%s %s: %s path answered %q, %s path answered %q", r.o.CurCase(), label, used[0], results[0], used[i], results[i]),
				map[string]any{"tx": drv.Hex(bz)})
		}
	}
	if r.o.Tier == "thorough" || len(r.o.Samples) < 12 {
		if tampered == "" && strings.HasPrefix(results[0], "ok") && !r.seen["s:"+r.kind] {
			r.seen["s:"+r.kind] = true
			r.o.Sample(fmt.Sprintf("%s %s -> %s", r.o.CurCase(), label, results[0]))
		}
	}
	return results
}

// ---------------------------------------------------------------------------------------------
// state declarations of a case (read back from the real store)

func (r *runner) declareState() {
	w, o := r.w, r.o
	legacyOff := 0
	if w.sm.IsFeatureEnabled(2) { // fsm.legacyRLPDisabledProtocolVersion
		legacyOff = 1
	}
	pv, err := w.sm.GetParamsVal()
	if err != nil {
		panic(err)
	}
	root, err := w.sm.GetRootChainId()
	if err != nil {
		panic(err)
	}
	approve := 1
	if w.sm.ProposalVoteConfig() == fsm.RejectAllProposals {
		approve = 0
	}
	o.Op(fmt.Sprintf("cfg net=%d chain=%d root=%d height=%d legacyoff=%d approve=%d minorder=%d minstakev=%d minstaked=%d",
		w.netID, selfChain, root, w.sm.Height(), legacyOff, approve, pv.MinimumOrderSize, pv.MinimumStakeForValidators, pv.MinimumStakeForDelegates), "ok")
	var fs []string
	for _, k := range kinds {
		fs = append(fs, fmt.Sprintf("%s=%d", k, w.fees[k]))
	}
	o.Op("fees "+strings.Join(fs, " "), "ok")
	s := r.base
	var addrs [][]byte
	for _, role := range roles {
		p := w.P[r.sc][role]
		tok := keyToken(p.pubBytes())
		switch p.scheme {
		case "secp256k1", "eth":
			o.Op(fmt.Sprintf("key %s %s", tok, drv.Hex(p.addr)), "addr "+drv.Hex(p.addr))
		default:
			o.Op("key "+tok, "addr "+drv.Hex(p.addr))
		}
		addrs = append(addrs, p.addr)
	}
	addrs = append(addrs, recipient)
	sort.Slice(addrs, func(i, j int) bool { return bytes.Compare(addrs[i], addrs[j]) < 0 })
	for _, a := range addrs {
		if acc := s.accts[string(a)]; acc != nil {
			o.Op(fmt.Sprintf("acct %s %d %d", drv.Hex(a), acc.Amount, acc.Nonce), "ok")
		}
		if v := s.vals[string(a)]; v != nil {
			o.Op(fmt.Sprintf("val %s %s %d %d %d %d", drv.Hex(v.Address), drv.Hex(v.Output), v.StakedAmount, b2i(v.Delegate), b2i(v.MaxPausedHeight != 0), b2i(v.UnstakingHeight != 0)), "ok")
		}
	}
	var oks []string
	for k := range s.ords {
		oks = append(oks, k)
	}
	sort.Strings(oks)
	for _, k := range oks {
		x := s.ords[k]
		o.Op(fmt.Sprintf("order %d %s %s %d %d %s", x.Committee, drv.Hex(x.Id), drv.Hex(x.SellersSendAddress), x.AmountForSale, b2i(x.BuyerReceiveAddress != nil), drv.Hex(x.SellerReceiveAddress)), "ok")
	}
	var pids []uint64
	for id := range s.pools {
		pids = append(pids, id)
	}
	sort.Slice(pids, func(i, j int) bool { return pids[i] < pids[j] })
	for _, id := range pids {
		p := s.pools[id]
		o.Op(fmt.Sprintf("pool %d %d", id, p.Amount), "ok")
		for _, pt := range p.Points {
			if contains(addrs, pt.Address) {
				o.Op(fmt.Sprintf("lp %d %s", id-fsm.LiquidityPoolAddend, drv.Hex(pt.Address)), "ok")
			}
		}
	}
}

func b2i(b bool) int {
	if b {
		return 1
	}
	return 0
}

// ---------------------------------------------------------------------------------------------

type signerSpec struct {
	label string
	sign  func(tx *lib.Transaction) // single / multi modes
	eth   *single                   // rlp modes: the Ethereum key
	auth  bool                      // expected to be authorized by design (tampering starts from these)
}

func (r *runner) signers(variant string) []signerSpec {
	w, sc := r.w, r.sc
	P := w.P[sc]
	by := func(role string) signerSpec {
		p := P[role]
		return signerSpec{label: role, sign: func(tx *lib.Transaction) { sign(tx, p, r.f) }, eth: p.key}
	}
	owner := "own"
	if r.kind == fsm.MessageStakeName {
		owner = "stk"
	}
	out := []signerSpec{by(owner), by("out"), by("oth"), by("unr")}
	out[0].auth = true
	if r.mode == "multi" && variant == "" {
		p := P[owner]
		mk := func(label string, thr uint32, subset []int) signerSpec {
			return signerSpec{label: label, sign: func(tx *lib.Transaction) { signMulti(tx, p, thr, subset, r.f) }}
		}
		out = append(out,
			mk(owner+":1of3-under-threshold", 2, []int{0}),
			mk(owner+":members-1-2", 2, []int{1, 2}),
			mk(owner+":3of3", 2, []int{0, 1, 2}),
			mk(owner+":threshold-lowered-to-1", 1, []int{0}),
			mk(owner+":threshold-0", 0, []int{0}),
			mk(owner+":threshold-3", 3, []int{0, 1, 2}))
	}
	return out
}

func (r *runner) runCase(variant string) {
	defer timed("cases")()
	w := r.w
	name := r.mode + "/" + r.kind
	if variant != "" {
		name += "/" + variant
	}
	r.o.Case(name)
	r.f, r.sent, r.decl = &facts{}, 0, map[string]bool{}
	w.inTxn(func() {
		// case-specific state
		if r.kind == fsm.MessageUnpauseName {
			own := crypto.NewAddress(w.P[r.sc]["own"].addr)
			v, err := w.sm.GetValidator(own)
			if err != nil {
				panic(err)
			}
			if err = w.sm.SetValidatorPaused(own, v, w.sm.Height()+100); err != nil {
				panic(err)
			}
		}
		r.base = w.scan()
		r.prepareBatch()
		r.declareState()
		for _, sg := range r.signers(variant) {
			pathSel := paths
			if r.o.Tier != "thorough" && !(sg.auth || sg.label == "out" || sg.label == "oth") {
				pathSel = []string{"cold", "cache"} // quick: the (slow) block path for the owner, the output address and one stranger
			}
			msg := w.buildMsg(r.sc, r.kind, variant)
			var tx *lib.Transaction
			if r.mode == "rlp" || r.mode == "rlp2" {
				if sg.eth == nil {
					continue
				}
				forms := []string{""}
				if r.kind == fsm.MessageSendName {
					forms = []string{"native", "abi"}
				}
				for _, form := range forms {
					t, e := w.buildRLP(msg, r.kind, sg.eth, r.mode == "rlp2", form, r.f)
					if e != nil {
						r.o.Count("rlp-conversion-refused:" + errStr(e))
						continue
					}
					r.offer(sg.label+form, t, "", nil, pathSel)
					if sg.auth && form != "abi" {
						r.tamperAll(sg.label, t, pathSel)
					}
				}
				continue
			}
			tx = w.envelope(msg, r.kind)
			if q, ok := msg.(*fsm.MessageCertificateResults); ok {
				qbz, _ := lib.Marshal(q.Qc)
				if variant == "partial-qc" {
					r.f.add("qc q" + short(qbz) + " partial")
				} else {
					r.f.add("qc q" + short(qbz))
				}
			}
			sg.sign(tx)
			r.offer(sg.label, tx, "", nil, pathSel)
			if sg.auth && variant == "" {
				r.tamperAll(sg.label, tx, pathSel)
			}
		}
	})
}

func (r *runner) tamperAll(label string, signed *lib.Transaction, pathSel []string) {
	warm := txBytes(signed)
	for _, tp := range tampers {
		t := clone(signed)
		if !tp.apply(r.w, r.sc, t) {
			continue
		}
		if proto.Equal(t, signed) {
			continue
		}
		ps := pathSel
		if r.o.Tier != "thorough" {
			// quick: every tampering through the cold path, the other paths for a rotating fifth
			ps = []string{"cold"}
			r.rot++
			if r.rot%5 == 0 {
				ps = pathsWarm
			}
		} else if len(pathSel) == len(paths) {
			ps = pathsWarm
		}
		r.offer(label+"~"+tp.field, t, tp.field, warm, ps)
	}
	// multisig only: the bitmap claims a signer that did not sign / hides one that did
	if pk, err := crypto.NewPublicKeyFromBytes(signed.Signature.PublicKey); err == nil {
		if mk, ok := pk.(*crypto.BLS12381MultiPublicKey); ok {
			for _, bm := range []byte{0b111, 0b001, 0b110, 0b000} {
				c := mk.Copy()
				if c.SetBitmap([]byte{bm}) != nil || bytes.Equal(c.Bitmap(), mk.Bitmap()) {
					continue
				}
				t := clone(signed)
				t.Signature.PublicKey = c.Bytes()
				r.offer(fmt.Sprintf("%s~bitmap-%03b", label, bm), t, "multisig_bitmap", warm, pathSel)
			}
		}
	}
}

// Run is the C05 driver.
func Run(o *drv.Out) {
	// every ApplyTransactions call allocates a full-size batch verifier (~50 MB): collect less often
	debug.SetGCPercent(400)
	w := newWorld(o.Rng)
	defer w.cleanup()
	for _, sc := range schemes {
		if err := w.crossCheckConstructors(sc); err != nil {
			o.Fail("C05:harness-constructor-mismatch", err.Error(), nil)
		}
	}
	o.Extra["constructors_cross_checked"] = "kind-specific constructors of fsm/transaction.go yield the same message and envelope as the harness for every single-key scheme"
	fails := map[string]bool{}
	seen := map[string]bool{}
	// (first, so that a forgery that executes is the first failure reported) blocks mixing transactions that fail before / after their signature is queued with forgeries and valid ones
	for i, sc := range schemes {
		(&runner{o: o, w: w, sc: sc, mode: sc, kind: fsm.MessageSendName, seen: seen, fails: fails}).runMixed(i)
	}
	for _, mode := range modes {
		for _, kind := range kinds {
			if (mode == "rlp" || mode == "rlp2") && !rlpSupports(kind) {
				continue
			}
			variants := []string{""}
			switch kind {
			case fsm.MessageEditStakeName:
				variants = []string{"", "redirect", "wire-signer"}
			case fsm.MessageStakeName:
				variants = []string{"", "wire-signer"}
			case fsm.MessageCertificateResultsName:
				variants = []string{"", "partial-qc"}
			}
			for _, v := range variants {
				r := &runner{o: o, w: w, sc: schemeOf(mode), mode: mode, kind: kind, seen: seen, fails: fails}
				r.runCase(v)
			}
		}
	}
	// a funded multisig address whose key carries threshold 0 ("no threshold")
	(&runner{o: o, w: w, sc: "multi", mode: "multi", kind: fsm.MessageSendName, seen: seen, fails: fails}).runOpenMultisig()
	// authorization that changes in the middle of a block (two-phase check of ApplyTransactions)
	for _, sc := range schemes {
		(&runner{o: o, w: w, sc: sc, mode: sc, kind: fsm.MessageEditStakeName, seen: seen, fails: fails}).runMidBlock()
	}
	// forged transactions in every lane of the batch verifier, with and without warm signature cache
	for i, sc := range schemes {
		(&runner{o: o, w: w, sc: sc, mode: sc, kind: fsm.MessageSendName, seen: seen, fails: fails}).runLanes(i)
	}
	// long transactions (sign bytes of 1-2 kB) and the signature-cache key
	for _, sc := range schemes {
		(&runner{o: o, w: w, sc: sc, mode: sc, kind: fsm.MessageStakeName, seen: seen, fails: fails, sigSuffix: ":long-signbytes"}).runLong()
	}
	runCacheKeys(o, w, fails)
	// a 300-member multisig: thresholds above 255 (the whole threshold is part of the account address)
	(&runner{o: o, w: w, sc: "multi", mode: "multi", kind: fsm.MessageSendName, seen: seen, fails: fails}).runWide()
	// multisig keys whose signer bitmap has padding bits (indices >= n) raised
	(&runner{o: o, w: w, sc: "multi", mode: "multi", kind: fsm.MessageSendName, seen: seen, fails: fails}).runPaddingBits()
	// the same table with every governance proposal rejected by the local configuration
	w.sm.SetProposalVoteConfig(fsm.RejectAllProposals)
	for _, kind := range []string{fsm.MessageChangeParameterName, fsm.MessageDAOTransferName} {
		r := &runner{o: o, w: w, sc: "ed25519", mode: "ed25519", kind: kind, seen: seen, fails: fails}
		r.runCase("proposals-rejected")
	}
	w.sm.SetProposalVoteConfig(fsm.AcceptAllProposals)
	secs := map[string]float64{}
	for k, v := range phaseTimes {
		secs[k] = v.Seconds()
	}
	o.Extra["driver_seconds_by_family"] = secs
}

// runOpenMultisig: sends from the funded address of own's member set with threshold 0.
// NewPublicKeyFromBytes decodes multisig keys with the consensus constructor (threshold 0 allowed), so
// such an address is spendable by any non-empty member subset (documented: threshold 0 = no
// enforcement). Permanent corpus of finding C05:multisig-no-signer-accepted (repaired by dc0ba0c): the
// EMPTY subset with the identity of G2 as signature verified too — nobody's key involved — and must
// now be refused on all three paths, for threshold 0 and for own's real threshold.
func (r *runner) runOpenMultisig() {
	defer timed("open-multisig")()
	w := r.w
	r.o.Case("multi/send/threshold-0-account")
	r.f, r.sent, r.decl = &facts{}, 0, map[string]bool{}
	own := w.P["multi"]["own"]
	a0 := own.multiKey(0).Address().Bytes()
	w.inTxn(func() {
		r.base = w.scan()
		r.prepareBatch()
		r.declareState()
		mk0 := own.multiKey(0)
		r.o.Op("key "+keyToken(mk0.Bytes()), "addr "+drv.Hex(a0))
		if acc := r.base.accts[string(a0)]; acc != nil {
			r.o.Op(fmt.Sprintf("acct %s %d %d", drv.Hex(a0), acc.Amount, acc.Nonce), "ok")
		}
		msg := &fsm.MessageSend{FromAddress: a0, ToAddress: recipient, Amount: 1000 + w.j}
		for _, subset := range [][]int{{0}, {1, 2}, {0, 1, 2}} {
			tx := w.envelope(msg, fsm.MessageSendName)
			signMulti(tx, own, 0, subset, r.f)
			r.offer(fmt.Sprintf("threshold-0:members-%v", subset), tx, "", nil, paths)
		}
		// nobody signs: empty bitmap, the aggregate of no signatures is the identity of G2
		tx := w.envelope(msg, fsm.MessageSendName)
		inf := g2Identity()
		tx.Signature = &lib.Signature{PublicKey: mk0.Bytes(), Signature: inf}
		before := len(r.o.Failures)
		r.offer("threshold-0:no-signer:identity-signature", tx, "", nil, paths)
		_ = before
		// the same under own's real (threshold 2) key
		tx2 := w.envelope(&fsm.MessageSend{FromAddress: own.addr, ToAddress: recipient, Amount: 1000 + w.j}, fsm.MessageSendName)
		tx2.Signature = &lib.Signature{PublicKey: own.multiKey(2).Bytes(), Signature: inf}
		r.offer("threshold-2:no-signer:identity-signature", tx2, "", nil, paths)
	})
}

// runMidBlock: one block [edit-stake by the output address redirecting the payout to `oth`; unstake by
// the OLD output address; unstake by the NEW output address]. ApplyTransactions verifies signatures
// and authorization of every transaction against the state at the START of the block (phase 1, batch
// verifier) and authorization again against the current state when it executes it (phase 3, no-op
// verifier). So the old output address passes phase 1 but must fail phase 3; the new one fails phase 1.
func (r *runner) runMidBlock() {
	defer timed("mid-block")()
	w := r.w
	P := w.P[r.sc]
	r.o.Case(r.sc + "/block/output-redirected-mid-block")
	r.f, r.sent, r.decl = &facts{}, 0, map[string]bool{}
	w.inTxn(func() {
		r.base = w.scan()
		r.prepareBatch()
		r.declareState()
		mk := func(kind, variant string, signer *principal) *lib.Transaction {
			tx := w.envelope(w.buildMsg(r.sc, kind, variant), kind)
			sign(tx, signer, r.f)
			return tx
		}
		t1 := mk(fsm.MessageEditStakeName, "redirect", P["out"])
		t2 := mk(fsm.MessageUnstakeName, "", P["out"])
		t3 := mk(fsm.MessageUnstakeName, "", P["oth"])
		txs := []*lib.Transaction{t1, t2, t3}
		var bzs [][]byte
		for _, t := range txs {
			bzs = append(bzs, txBytes(t))
		}
		crypto.SignatureCache.Reset()
		var errs []lib.ErrorI
		var senders [][]byte
		var post *snap
		var refused lib.ErrorI
		w.inTxn(func() {
			all := append(append(append([][]byte{}, bzs...), r.fill...), r.bad)
			var berr lib.ErrorI
			errs, senders, berr = r.applyBlock(all)
			if berr != nil {
				refused = berr
				return
			}
			post = w.scan()
		})
		if refused != nil {
			// the unchanged code accepts this block (one transaction executes, two are marked failed)
			r.honestBlockRefused("output-redirected-mid-block", refused, append(append(append([][]byte{}, bzs...), r.fill...), r.bad))
			return
		}
		d := diffSnaps(r.bbase, post)
		line := func(i int) string {
			if errs[i] != nil {
				return errStr(errs[i])
			}
			return "ok signer=" + drv.Hex(senders[i])
		}
		for _, t := range txs {
			r.declareContent(t)
		}
		r.flushFacts()
		emit := func(i int, res string) {
			t := txs[i]
			cid := contentID(t)
			r.o.Op(fmt.Sprintf("tx block %s %s %s %s", cid, keyToken(t.Signature.PublicKey), sigTok(t.Signature.Signature), drv.Hex(crypto.Hash(bzs[i])[:20])), res)
			r.o.Count("path:block")
			r.o.Nontrivial(r.o.CurCase() + "|" + fmt.Sprint(i) + "|" + res)
		}
		// the model evaluates each transaction on the state the code decides it on:
		// t3 fails phase 1 (state at the start of the block); t1 executes on that state
		emit(2, line(2))
		if errs[0] == nil {
			emit(0, line(0)+" "+d.line())
		} else {
			emit(0, line(0))
		}
		// ... and t2 is decided in phase 3 on the state t1 left: tell the model the new validator record
		if v := post.vals[string(P["own"].addr)]; v != nil && errs[0] == nil {
			r.o.Op(fmt.Sprintf("val %s %s %d %d %d %d", drv.Hex(v.Address), drv.Hex(v.Output), v.StakedAmount, b2i(v.Delegate), b2i(v.MaxPausedHeight != 0), b2i(v.UnstakingHeight != 0)), "ok")
			if a := post.accts[string(P["out"].addr)]; a != nil {
				r.o.Op(fmt.Sprintf("acct %s %d %d", drv.Hex(P["out"].addr), a.Amount, a.Nonce), "ok")
			}
		}
		emit(1, line(1))
		// oracle
		replay := map[string]any{"block": []string{drv.Hex(bzs[0]), drv.Hex(bzs[1]), drv.Hex(bzs[2])}, "case": r.o.CurCase()}
		if errs[0] != nil {
			r.fail("C05:harness-scenario", "the redirecting edit-stake by the output address was refused: "+errStr(errs[0]), replay)
		}
		if errs[1] == nil {
			r.fail("C05:unauthorized-state-change:unstake", r.o.CurCase()+": the OLD output address unstaked the validator after the payout had been redirected earlier in the same block (authorization evaluated on a stale state)", replay)
		}
		if len(d.val) != 1 || !strings.Contains(d.val[string(P["own"].addr)], "out=") || strings.Contains(d.val[string(P["own"].addr)], "unstaking") {
			r.fail("C05:unauthorized-state-change:editStake", r.o.CurCase()+": unexpected validator changes after the block: "+d.line(), replay)
		}
	})
}

func hexAll(txs [][]byte) []string {
	var out []string
	for _, t := range txs {
		out = append(out, drv.Hex(t))
	}
	return out
}

// honestBlockRefused: ApplyTransactions returned an error for a whole block that the unchanged code
// processes (executing the valid transactions and marking the others failed).
func (r *runner) honestBlockRefused(what string, e lib.ErrorI, block [][]byte) {
	code := fmt.Sprintf("%s/%d", e.Module(), e.Code())
	r.fail("C05:honest-block-refused:"+code, fmt.Sprintf("%s: ApplyTransactions refused the whole block (%s) with %s", r.o.CurCase(), what, errStr(e)),
		map[string]any{"case": r.o.CurCase(), "block": hexAll(block), "path": "batch"})
}

var phaseTimes = map[string]time.Duration{}

func timed(name string) func() {
	t := time.Now()
	return func() { phaseTimes[name] += time.Since(t) }
}
