package c05

import (
	"bytes"
	"encoding/binary"
	"fmt"
	"math/rand"
	"sort"
	"strings"

	"github.com/canopy-network/canopy/fsm"
	"github.com/canopy-network/canopy/lib"
	"github.com/canopy-network/canopy/lib/crypto"

	"verifharness/drv"
	"verifharness/fsmutil"
)

const (
	selfChain   = uint64(1)
	otherChain  = uint64(2) // committee with orders, a liquidity pool and certificate results
	idleChain   = uint64(3) // committee the fixture validators are staked for
	funds       = uint64(10_000_000_000_000)
	valStake    = uint64(5_000_000_000)
	orderAmount = uint64(2_000_000_000)
	minOrder    = uint64(1_000_000)
	liqAmount   = uint64(1_000_000_000)
	daoAmount   = uint64(1_000_000_000_000)
	txTime      = uint64(1_700_000_000_000_000)
	netAddr     = "tcp://127.0.0.1:9000"
)

// kinds in the order of fsm.HandleMessage
var kinds = []string{
	fsm.MessageSendName, fsm.MessageStakeName, fsm.MessageEditStakeName, fsm.MessageUnstakeName,
	fsm.MessagePauseName, fsm.MessageUnpauseName, fsm.MessageChangeParameterName, fsm.MessageDAOTransferName,
	fsm.MessageCertificateResultsName, fsm.MessageSubsidyName, fsm.MessageCreateOrderName, fsm.MessageEditOrderName,
	fsm.MessageDeleteOrderName, fsm.MessageDexLimitOrderName, fsm.MessageDexLiquidityDepositName, fsm.MessageDexLiquidityWithdrawName,
}

type world struct {
	sm      *fsm.StateMachine
	st      lib.StoreI
	cleanup func()
	P       map[string]map[string]*principal // scheme -> role -> principal
	cvs     []*single                        // committee validators of selfChain and otherChain (BLS)
	fillers []*single                        // ed25519 accounts used to fill batches
	fees    map[string]uint64
	netID   uint64
	valPub  map[string][]byte // scheme -> BLS public key stored in the fixture validator record
	byAddr  map[string]string // address -> label (for samples)
	j       uint64            // seed-dependent offset of amounts and timestamps
	rng     *rand.Rand
}

func orderID(scheme string) []byte { return seedOf("order-" + scheme)[:20] }
func recvAddr(scheme string) []byte {
	return seedOf("seller-receive-" + scheme)[:20]
}

func newWorld(rng *rand.Rand) *world {
	w := &world{rng: rng, j: uint64(rng.Intn(1000)), P: map[string]map[string]*principal{}, fees: map[string]uint64{}, valPub: map[string][]byte{}, byAddr: map[string]string{}}
	params := fsm.DefaultParams()
	params.Validator.MinimumOrderSize = minOrder
	// distinct, non-zero fees so that a fee looked up under the wrong kind shows
	f := params.Fee
	for i, p := range []*uint64{&f.SendFee, &f.StakeFee, &f.EditStakeFee, &f.UnstakeFee, &f.PauseFee, &f.UnpauseFee, &f.ChangeParameterFee,
		&f.DaoTransferFee, &f.CertificateResultsFee, &f.SubsidyFee, &f.CreateOrderFee, &f.EditOrderFee, &f.DeleteOrderFee,
		&f.DexLimitOrderFee, &f.DexLiquidityDepositFee, &f.DexLiquidityWithdrawFee} {
		*p = 10_000 + uint64(i)*100
	}
	gen := &fsm.GenesisState{Time: 1, Params: params}
	account := func(addr []byte, label string) {
		gen.Accounts = append(gen.Accounts, &fsm.Account{Address: addr, Amount: funds})
		w.byAddr[string(addr)] = label
	}
	// committee validators (custodial, real BLS keys)
	for i := 0; i < 4; i++ {
		k := newSingle("bls", fmt.Sprintf("committee-%d", i))
		w.cvs = append(w.cvs, k)
		gen.Validators = append(gen.Validators, &fsm.Validator{Address: k.addr, PublicKey: k.pub, NetAddress: netAddr, StakedAmount: valStake,
			Committees: []uint64{selfChain, otherChain}, Output: k.addr, Compound: true})
		account(k.addr, fmt.Sprintf("committee-%d", i))
	}
	for i := 0; i < 8; i++ {
		k := newSingle("ed25519", fmt.Sprintf("filler-%d", i))
		w.fillers = append(w.fillers, k)
		account(k.addr, fmt.Sprintf("filler-%d", i))
	}
	liq := &fsm.Pool{Id: otherChain + fsm.LiquidityPoolAddend, Amount: liqAmount}
	book := &lib.OrderBook{ChainId: otherChain}
	for _, sc := range schemes {
		w.P[sc] = map[string]*principal{}
		for _, r := range roles {
			p := newPrincipal(sc, r)
			w.P[sc][r] = p
			w.byAddr[string(p.addr)] = p.name
			if r != "unr" {
				gen.Accounts = append(gen.Accounts, &fsm.Account{Address: p.addr, Amount: funds})
			}
		}
		own, out, oth := w.P[sc]["own"], w.P[sc]["out"], w.P[sc]["oth"]
		if sc == "multi" {
			// the "open" sibling of own's account: same members, threshold 0 (a different address)
			a0 := own.multiKey(0).Address().Bytes()
			gen.Accounts = append(gen.Accounts, &fsm.Account{Address: a0, Amount: funds})
			w.byAddr[string(a0)] = "multi/own-threshold-0"
		}
		// the fixture validator operated by `own` with output `out`; the record's consensus key is a BLS key
		// (own's key when the scheme is BLS), the record's ADDRESS is what authorization looks at
		vpub := newSingle("bls", "validator-key-"+sc).pub
		if sc == "bls" {
			vpub = own.key.pub
		}
		w.valPub[sc] = vpub
		gen.Validators = append(gen.Validators,
			&fsm.Validator{Address: own.addr, PublicKey: vpub, NetAddress: netAddr, StakedAmount: valStake, Committees: []uint64{idleChain}, Output: out.addr, Compound: true},
			&fsm.Validator{Address: oth.addr, PublicKey: newSingle("bls", "validator-key-oth-"+sc).pub, NetAddress: netAddr, StakedAmount: valStake, Committees: []uint64{idleChain}, Output: oth.addr, Compound: true})
		book.Orders = append(book.Orders, &lib.SellOrder{Id: orderID(sc), Committee: otherChain, AmountForSale: orderAmount, RequestedAmount: orderAmount / 2,
			SellerReceiveAddress: recvAddr(sc), SellersSendAddress: own.addr})
		liq.Points = append(liq.Points, &lib.PoolPoints{Address: own.addr, Points: 100}, &lib.PoolPoints{Address: oth.addr, Points: 100})
		liq.TotalPoolPoints += 200
	}
	sort.Slice(book.Orders, func(i, j int) bool { return bytes.Compare(book.Orders[i].Id, book.Orders[j].Id) < 0 })
	gen.OrderBooks = &lib.OrderBooks{OrderBooks: []*lib.OrderBook{book}}
	gen.Pools = []*fsm.Pool{
		{Id: lib.DAOPoolID, Amount: daoAmount},
		{Id: otherChain + fsm.EscrowPoolAddend, Amount: orderAmount * uint64(len(schemes))},
		liq,
	}
	sm, st, cleanup, err := fsmutil.NewFSM(gen, selfChain)
	if err != nil {
		panic(err)
	}
	w.sm, w.st, w.cleanup = sm, st, cleanup
	w.netID = uint64(sm.NetworkID)
	for _, k := range kinds {
		fee, e := sm.GetFeeForMessageName(k)
		if e != nil {
			panic(e)
		}
		w.fees[k] = fee
	}
	return w
}

func (w *world) label(addr []byte) string {
	if l, ok := w.byAddr[string(addr)]; ok {
		return l
	}
	return "?" + drv.Hex(addr)
}

// ---------------------------------------------------------------------------------------------
// state scan and diff (read back from the real store through the FSM's iterator)

type snap struct {
	raw   map[string][]byte // every key under the FSM's state prefixes
	accts map[string]*fsm.Account
	vals  map[string]*fsm.Validator
	ords  map[string]*lib.SellOrder // "<chain>/<id>"
	pools map[uint64]*fsm.Pool
}

var familyName = map[byte]string{1: "acct", 2: "pool", 3: "val", 4: "committee", 5: "unstaking-marker", 6: "paused-marker", 7: "params", 8: "nonsigner",
	9: "proposers", 10: "supply", 11: "delegate", 12: "cdata", 13: "order", 14: "retired", 15: "dex"}

func (w *world) scan() *snap {
	w.sm.ResetCaches()
	s := &snap{raw: map[string][]byte{}, accts: map[string]*fsm.Account{}, vals: map[string]*fsm.Validator{}, ords: map[string]*lib.SellOrder{}, pools: map[uint64]*fsm.Pool{}}
	for p := byte(1); p <= 20; p++ {
		it, err := w.sm.Iterator(lib.JoinLenPrefix([]byte{p}))
		if err != nil {
			panic(err)
		}
		for ; it.Valid(); it.Next() {
			k, v := append([]byte{}, it.Key()...), append([]byte{}, it.Value()...)
			s.raw[string(k)] = v
			segs := lib.DecodeLengthPrefixed(k)
			switch p {
			case 1:
				a := new(fsm.Account)
				if e := lib.Unmarshal(v, a); e != nil {
					panic(e)
				}
				s.accts[string(segs[1])] = a
			case 2:
				x := new(fsm.Pool)
				if e := lib.Unmarshal(v, x); e != nil {
					panic(e)
				}
				s.pools[binary.BigEndian.Uint64(segs[1])] = x
			case 3:
				x := new(fsm.Validator)
				if e := lib.Unmarshal(v, x); e != nil {
					panic(e)
				}
				s.vals[string(segs[1])] = x
			case 13:
				x := new(lib.SellOrder)
				if e := lib.Unmarshal(v, x); e != nil {
					panic(e)
				}
				s.ords[fmt.Sprintf("%d/%s", binary.BigEndian.Uint64(segs[1]), drv.Hex(segs[2]))] = x
			}
		}
		it.Close()
	}
	return s
}

// diff is what changed between two scans, in the vocabulary of the property.
type diff struct {
	acct     map[string]int64 // address -> balance delta (non-zero)
	nonce    []string         // addresses whose nonce floor changed
	val      map[string]string
	valOut   map[string][2][]byte // address -> (old output, new output) when it changed
	ord      map[string]string
	ordOwner map[string][]byte // order key -> seller (before the change; after for new orders)
	ordRecv  map[string][]byte // order key -> new receive address when it changed
	sys      []string
}

func diffSnaps(a, b *snap) *diff {
	d := &diff{acct: map[string]int64{}, val: map[string]string{}, valOut: map[string][2][]byte{}, ord: map[string]string{}, ordOwner: map[string][]byte{}, ordRecv: map[string][]byte{}}
	for k, x := range a.accts {
		y := b.accts[k]
		var ya, yn uint64
		if y != nil {
			ya, yn = y.Amount, y.Nonce
		}
		if ya != x.Amount {
			d.acct[k] = int64(ya) - int64(x.Amount)
		}
		if yn != x.Nonce {
			d.nonce = append(d.nonce, drv.Hex([]byte(k)))
		}
	}
	for k, y := range b.accts {
		if _, ok := a.accts[k]; !ok {
			if y.Amount != 0 {
				d.acct[k] = int64(y.Amount)
			}
			if y.Nonce != 0 {
				d.nonce = append(d.nonce, drv.Hex([]byte(k)))
			}
		}
	}
	sort.Strings(d.nonce)
	for k, y := range b.vals {
		x, ok := a.vals[k]
		if !ok {
			d.val[k] = fmt.Sprintf("new,out=%s,stake=%d", drv.Hex(y.Output), y.StakedAmount)
			d.valOut[k] = [2][]byte{nil, y.Output}
			continue
		}
		var ch []string
		if !bytes.Equal(x.Output, y.Output) {
			ch = append(ch, "out="+drv.Hex(y.Output))
			d.valOut[k] = [2][]byte{x.Output, y.Output}
		}
		if x.StakedAmount != y.StakedAmount {
			ch = append(ch, fmt.Sprintf("stake%+d", int64(y.StakedAmount)-int64(x.StakedAmount)))
		}
		if (x.UnstakingHeight != 0) != (y.UnstakingHeight != 0) {
			if y.UnstakingHeight != 0 {
				ch = append(ch, "unstaking")
			} else {
				ch = append(ch, "not-unstaking")
			}
		}
		if (x.MaxPausedHeight != 0) != (y.MaxPausedHeight != 0) {
			if y.MaxPausedHeight != 0 {
				ch = append(ch, "paused")
			} else {
				ch = append(ch, "unpaused")
			}
		}
		if x.NetAddress != y.NetAddress || x.Compound != y.Compound || x.Delegate != y.Delegate || fmt.Sprint(x.Committees) != fmt.Sprint(y.Committees) ||
			!bytes.Equal(x.PublicKey, y.PublicKey) || (x.UnstakingHeight != y.UnstakingHeight && x.UnstakingHeight != 0 && y.UnstakingHeight != 0) ||
			(x.MaxPausedHeight != y.MaxPausedHeight && x.MaxPausedHeight != 0 && y.MaxPausedHeight != 0) {
			ch = append(ch, "meta")
		}
		if len(ch) != 0 {
			d.val[k] = strings.Join(ch, ",")
		}
	}
	for k := range a.vals {
		if _, ok := b.vals[k]; !ok {
			d.val[k] = "deleted"
		}
	}
	for k, y := range b.ords {
		x, ok := a.ords[k]
		if !ok {
			d.ord[k] = fmt.Sprintf("new,seller=%s,amt=%d,recv=%s", drv.Hex(y.SellersSendAddress), y.AmountForSale, drv.Hex(y.SellerReceiveAddress))
			d.ordOwner[k] = y.SellersSendAddress
			continue
		}
		var ch []string
		if !bytes.Equal(x.SellersSendAddress, y.SellersSendAddress) {
			ch = append(ch, "seller="+drv.Hex(y.SellersSendAddress))
		}
		if x.AmountForSale != y.AmountForSale {
			ch = append(ch, fmt.Sprintf("amt%+d", int64(y.AmountForSale)-int64(x.AmountForSale)))
		}
		if !bytes.Equal(x.SellerReceiveAddress, y.SellerReceiveAddress) {
			ch = append(ch, "recv="+drv.Hex(y.SellerReceiveAddress))
			d.ordRecv[k] = y.SellerReceiveAddress
		}
		if x.RequestedAmount != y.RequestedAmount || !bytes.Equal(x.Data, y.Data) || !bytes.Equal(x.BuyerReceiveAddress, y.BuyerReceiveAddress) ||
			!bytes.Equal(x.BuyerSendAddress, y.BuyerSendAddress) || x.BuyerChainDeadline != y.BuyerChainDeadline {
			ch = append(ch, "meta")
		}
		if len(ch) != 0 {
			d.ord[k] = strings.Join(ch, ",")
			d.ordOwner[k] = x.SellersSendAddress
		}
	}
	for k, x := range a.ords {
		if _, ok := b.ords[k]; !ok {
			d.ord[k] = "deleted"
			d.ordOwner[k] = x.SellersSendAddress
		}
	}
	// system families: pools with the sign of the change, every other family by name
	seen := map[string]bool{}
	add := func(s string) {
		if !seen[s] {
			seen[s] = true
			d.sys = append(d.sys, s)
		}
	}
	for id, y := range b.pools {
		x := a.pools[id]
		var xa uint64
		if x != nil {
			xa = x.Amount
		}
		if y.Amount != xa {
			add(fmt.Sprintf("pool%d%+d", id, int64(y.Amount)-int64(xa)))
		} else if x == nil || !bytes.Equal(a.raw[string(fsm.KeyForPool(id))], b.raw[string(fsm.KeyForPool(id))]) {
			add(fmt.Sprintf("pool%d~", id))
		}
	}
	for id := range a.pools {
		if _, ok := b.pools[id]; !ok {
			add(fmt.Sprintf("pool%d-deleted", id))
		}
	}
	keys := map[string]bool{}
	for k := range a.raw {
		keys[k] = true
	}
	for k := range b.raw {
		keys[k] = true
	}
	for k := range keys {
		if bytes.Equal(a.raw[k], b.raw[k]) {
			if _, ina := a.raw[k]; ina {
				if _, inb := b.raw[k]; inb {
					continue
				}
			}
		}
		fam := lib.DecodeLengthPrefixed([]byte(k))[0][0]
		switch fam {
		case 1, 2, 3, 13:
			continue
		}
		n, ok := familyName[fam]
		if !ok {
			n = fmt.Sprintf("family%d", fam)
		}
		add(n)
	}
	sort.Strings(d.sys)
	return d
}

func dashJoin(xs []string, sep string) string {
	if len(xs) == 0 {
		return "-"
	}
	return strings.Join(xs, sep)
}

// line renders the diff canonically (everything sorted).
func (d *diff) line() string {
	var ac, va, or []string
	for k, v := range d.acct {
		ac = append(ac, fmt.Sprintf("%s:%+d", drv.Hex([]byte(k)), v))
	}
	for k, v := range d.val {
		va = append(va, drv.Hex([]byte(k))+":"+v)
	}
	for k, v := range d.ord {
		or = append(or, k+":"+v)
	}
	sort.Strings(ac)
	sort.Strings(va)
	sort.Strings(or)
	return fmt.Sprintf("acct=%s nonce=%s val=%s ord=%s sys=%s", dashJoin(ac, ","), dashJoin(d.nonce, ","), dashJoin(va, ";"), dashJoin(or, ";"), dashJoin(d.sys, ","))
}

func errStr(e lib.ErrorI) string {
	if e == nil {
		return "ok"
	}
	return fmt.Sprintf("err:%s/%d", e.Module(), e.Code())
}

// inTxn runs f on a store transaction layered over the current store and always drops it.
func (w *world) inTxn(f func()) {
	cur := w.sm.Store().(lib.StoreI)
	txn, err := w.sm.TxnWrap()
	if err != nil {
		panic(err)
	}
	defer func() {
		txn.Discard()
		w.sm.SetStore(cur)
		w.sm.ResetCaches()
	}()
	f()
}

var _ = crypto.HashString
