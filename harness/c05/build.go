package c05

import (
	"bytes"
	"encoding/hex"
	"fmt"
	"math/big"
	"strings"

	"github.com/canopy-network/canopy/fsm"
	"github.com/canopy-network/canopy/lib"
	"github.com/canopy-network/canopy/lib/crypto"
	"github.com/ethereum/go-ethereum/common"
	ethTypes "github.com/ethereum/go-ethereum/core/types"
	"google.golang.org/protobuf/proto"

	"verifharness/drv"
)

var recipient = seedOf("recipient")[:20]
var newRecv = seedOf("new-seller-receive")[:20]

// ---------------------------------------------------------------------------------------------
// messages: every kind with `own` (or `stk`) of the scheme as the claimed owner

// variant selects sub-cases of a kind ("" = default).
func (w *world) buildMsg(sc, kind, variant string) lib.MessageI {
	own, out, oth, stk := w.P[sc]["own"], w.P[sc]["out"], w.P[sc]["oth"], w.P[sc]["stk"]
	switch kind {
	case fsm.MessageSendName:
		return &fsm.MessageSend{FromAddress: own.addr, ToAddress: recipient, Amount: 1000 + w.j}
	case fsm.MessageStakeName:
		m := &fsm.MessageStake{PublicKey: stk.pubBytes(), Amount: valStake, Committees: []uint64{idleChain}, OutputAddress: out.addr, Compound: true}
		if sc == "bls" {
			m.NetAddress = netAddr
		} else {
			m.Delegate = true // only BLS keys may be validators; every other key type stakes as a delegate
		}
		if variant == "wire-signer" {
			m.Signer = oth.addr // try to make somebody else pay
		}
		return m
	case fsm.MessageEditStakeName:
		m := &fsm.MessageEditStake{Address: own.addr, Amount: valStake + 1000 + w.j, Committees: []uint64{idleChain}, NetAddress: netAddr, OutputAddress: out.addr, Compound: true}
		switch variant {
		case "redirect":
			m.OutputAddress = oth.addr // change where the stake is paid out
		case "wire-signer":
			m.Signer = oth.addr
		}
		return m
	case fsm.MessageUnstakeName:
		return &fsm.MessageUnstake{Address: own.addr}
	case fsm.MessagePauseName:
		return &fsm.MessagePause{Address: own.addr}
	case fsm.MessageUnpauseName:
		return &fsm.MessageUnpause{Address: own.addr}
	case fsm.MessageChangeParameterName:
		a, err := lib.NewAny(&lib.UInt64Wrapper{Value: 12345})
		if err != nil {
			panic(err)
		}
		return &fsm.MessageChangeParameter{ParameterSpace: "fee", ParameterKey: fsm.ParamUnpauseFee, ParameterValue: a, StartHeight: 0, EndHeight: 100, Signer: own.addr}
	case fsm.MessageDAOTransferName:
		return &fsm.MessageDAOTransfer{Address: own.addr, Amount: 5000 + w.j, StartHeight: 0, EndHeight: 100}
	case fsm.MessageCertificateResultsName:
		if variant == "partial-qc" {
			return &fsm.MessageCertificateResults{Qc: w.buildQC(own.pubBytes(), []int{0, 1})} // half of the power: no +2/3
		}
		return &fsm.MessageCertificateResults{Qc: w.buildQC(own.pubBytes(), []int{0, 1, 2, 3})}
	case fsm.MessageSubsidyName:
		return &fsm.MessageSubsidy{Address: own.addr, ChainId: otherChain, Amount: 7000 + w.j}
	case fsm.MessageCreateOrderName:
		return &fsm.MessageCreateOrder{ChainId: otherChain, AmountForSale: orderAmount, RequestedAmount: orderAmount / 2, SellerReceiveAddress: recvAddr(sc), SellersSendAddress: own.addr}
	case fsm.MessageEditOrderName:
		return &fsm.MessageEditOrder{OrderId: orderID(sc), ChainId: otherChain, AmountForSale: orderAmount + 3000 + w.j, RequestedAmount: orderAmount / 2, SellerReceiveAddress: newRecv}
	case fsm.MessageDeleteOrderName:
		return &fsm.MessageDeleteOrder{OrderId: orderID(sc), ChainId: otherChain}
	case fsm.MessageDexLimitOrderName:
		return &fsm.MessageDexLimitOrder{ChainId: otherChain, AmountForSale: 9000 + w.j, RequestedAmount: 1, Address: own.addr}
	case fsm.MessageDexLiquidityDepositName:
		return &fsm.MessageDexLiquidityDeposit{ChainId: otherChain, Amount: 8000 + w.j, Address: own.addr}
	case fsm.MessageDexLiquidityWithdrawName:
		return &fsm.MessageDexLiquidityWithdraw{ChainId: otherChain, Percent: 50, Address: own.addr}
	}
	panic("unknown kind " + kind)
}

// buildQC is a certificate for otherChain naming proposerKey, signed by the chosen committee members
// exactly as the BFT does (each signs QC.SignBytes, signatures aggregated on the committee multi-key).
func (w *world) buildQC(proposerKey []byte, signers []int) *lib.QuorumCertificate {
	vs, err := w.sm.LoadCommittee(otherChain, 0)
	if err != nil {
		panic(err)
	}
	results := &lib.CertificateResult{
		RewardRecipients: &lib.RewardRecipients{PaymentPercents: []*lib.PaymentPercents{{Address: recipient, Percent: 100, ChainId: otherChain}}},
		SlashRecipients:  &lib.SlashRecipients{},
	}
	rbz, err := lib.Marshal(results)
	if err != nil {
		panic(err)
	}
	qc := &lib.QuorumCertificate{
		Header:      &lib.View{NetworkId: w.netID, ChainId: otherChain, Height: 1, RootHeight: 1, Phase: lib.Phase_PRECOMMIT_VOTE},
		Results:     results,
		ResultsHash: crypto.Hash(rbz),
		BlockHash:   crypto.Hash([]byte("verif-c05-block")),
		ProposerKey: proposerKey,
	}
	mk := vs.MultiKey.Copy()
	sb := qc.SignBytes()
	for _, i := range signers {
		_, idx, e := vs.GetValidatorAndIdx(w.cvs[i].pub)
		if e != nil {
			panic(e)
		}
		if er := mk.AddSigner(w.cvs[i].priv.Sign(sb), idx); er != nil {
			panic(er)
		}
	}
	sig, er := mk.AggregateSignatures()
	if er != nil {
		panic(er)
	}
	qc.Signature = &lib.AggregateSignature{Signature: sig, Bitmap: mk.Bitmap()}
	return qc
}

// envelope wraps msg with the repo's own constructor and pins the timestamp (reproducible bytes).
func (w *world) envelope(msg lib.MessageI, kind string) *lib.Transaction {
	dummy := w.fillers[0].priv
	ti, err := fsm.NewTransaction(dummy, msg, w.netID, selfChain, w.fees[kind], w.sm.Height(), "")
	if err != nil {
		panic(err)
	}
	tx := ti.(*lib.Transaction)
	tx.Time = txTime + w.j
	tx.Signature = nil
	return tx
}

// crossCheckConstructors: the kind-specific constructors of the repo produce the same message and
// envelope as buildMsg+envelope when the signer is the claimed owner (single-key schemes).
func (w *world) crossCheckConstructors(sc string) error {
	own, out, stk := w.P[sc]["own"], w.P[sc]["out"], w.P[sc]["stk"]
	if own.isMulti() {
		return nil
	}
	h, n, c := w.sm.Height(), w.netID, selfChain
	type mk func() (lib.TransactionI, lib.ErrorI)
	ctor := map[string]mk{
		fsm.MessageSendName: func() (lib.TransactionI, lib.ErrorI) {
			return fsm.NewSendTransaction(own.key.priv, crypto.NewAddress(recipient), 1000+w.j, n, c, w.fees[fsm.MessageSendName], h, "")
		},
		fsm.MessageStakeName: func() (lib.TransactionI, lib.ErrorI) {
			na := ""
			if sc == "bls" {
				na = netAddr
			}
			return fsm.NewStakeTx(stk.key.priv, stk.key.pub, crypto.NewAddress(out.addr), na, []uint64{idleChain}, valStake, n, c, w.fees[fsm.MessageStakeName], h, sc != "bls", false, "")
		},
		fsm.MessageEditStakeName: func() (lib.TransactionI, lib.ErrorI) {
			return fsm.NewEditStakeTx(own.key.priv, crypto.NewAddress(own.addr), crypto.NewAddress(out.addr), netAddr, []uint64{idleChain}, valStake+1000+w.j, n, c, w.fees[fsm.MessageEditStakeName], h, false, "")
		},
		fsm.MessageUnstakeName: func() (lib.TransactionI, lib.ErrorI) {
			return fsm.NewUnstakeTx(own.key.priv, crypto.NewAddress(own.addr), n, c, w.fees[fsm.MessageUnstakeName], h, "")
		},
		fsm.MessagePauseName: func() (lib.TransactionI, lib.ErrorI) {
			return fsm.NewPauseTx(own.key.priv, crypto.NewAddress(own.addr), n, c, w.fees[fsm.MessagePauseName], h, "")
		},
		fsm.MessageUnpauseName: func() (lib.TransactionI, lib.ErrorI) {
			return fsm.NewUnpauseTx(own.key.priv, crypto.NewAddress(own.addr), n, c, w.fees[fsm.MessageUnpauseName], h, "")
		},
		fsm.MessageChangeParameterName: func() (lib.TransactionI, lib.ErrorI) {
			return fsm.NewChangeParamTxUint64(own.key.priv, "fee", fsm.ParamUnpauseFee, 12345, 0, 100, n, c, w.fees[fsm.MessageChangeParameterName], h, "")
		},
		fsm.MessageDAOTransferName: func() (lib.TransactionI, lib.ErrorI) {
			return fsm.NewDAOTransferTx(own.key.priv, 5000+w.j, 0, 100, n, c, w.fees[fsm.MessageDAOTransferName], h, false, "")
		},
		fsm.MessageSubsidyName: func() (lib.TransactionI, lib.ErrorI) {
			return fsm.NewSubsidyTx(own.key.priv, 7000+w.j, otherChain, nil, n, c, w.fees[fsm.MessageSubsidyName], h, "")
		},
		fsm.MessageCreateOrderName: func() (lib.TransactionI, lib.ErrorI) {
			return fsm.NewCreateOrderTx(own.key.priv, orderAmount, orderAmount/2, otherChain, nil, recvAddr(sc), n, c, w.fees[fsm.MessageCreateOrderName], h, "")
		},
		fsm.MessageEditOrderName: func() (lib.TransactionI, lib.ErrorI) {
			return fsm.NewEditOrderTx(own.key.priv, hex.EncodeToString(orderID(sc)), orderAmount+3000+w.j, orderAmount/2, otherChain, nil, newRecv, n, c, w.fees[fsm.MessageEditOrderName], h, "")
		},
		fsm.MessageDeleteOrderName: func() (lib.TransactionI, lib.ErrorI) {
			return fsm.NewDeleteOrderTx(own.key.priv, hex.EncodeToString(orderID(sc)), otherChain, n, c, w.fees[fsm.MessageDeleteOrderName], h, "")
		},
		fsm.MessageDexLimitOrderName: func() (lib.TransactionI, lib.ErrorI) {
			return fsm.NewDexLimitOrder(own.key.priv, 9000+w.j, 1, otherChain, n, c, w.fees[fsm.MessageDexLimitOrderName], h, "")
		},
		fsm.MessageDexLiquidityDepositName: func() (lib.TransactionI, lib.ErrorI) {
			return fsm.NewDexLiquidityDeposit(own.key.priv, 8000+w.j, otherChain, n, c, w.fees[fsm.MessageDexLiquidityDepositName], h, "")
		},
		fsm.MessageDexLiquidityWithdrawName: func() (lib.TransactionI, lib.ErrorI) {
			return fsm.NewDexLiquidityWithdraw(own.key.priv, 50, otherChain, n, c, w.fees[fsm.MessageDexLiquidityWithdrawName], h, "")
		},
	}
	for kind, f := range ctor {
		ti, err := f()
		if err != nil {
			return fmt.Errorf("%s/%s: %s", sc, kind, err.Error())
		}
		got := ti.(*lib.Transaction)
		want := w.envelope(w.buildMsg(sc, kind, ""), kind)
		got.Time, got.Signature = want.Time, nil
		if !proto.Equal(got, want) {
			return fmt.Errorf("%s/%s: constructor and harness disagree:\n  ctor    %v\n  harness %v", sc, kind, got, want)
		}
	}
	return nil
}

// ---------------------------------------------------------------------------------------------
// signing

// facts are the symbolic-signature facts the model is told: what real keys really signed.
type facts struct {
	lines []string
	seen  map[string]bool
}

func (f *facts) add(l string) {
	if f.seen == nil {
		f.seen = map[string]bool{}
	}
	if !f.seen[l] {
		f.seen[l] = true
		f.lines = append(f.lines, l)
	}
}

// g2Identity is the compressed encoding of the identity of G2: the "aggregate" of no signature at all.
func g2Identity() []byte {
	inf := make([]byte, crypto.BLS12381SignatureSize)
	inf[0] = 0xc0
	return inf
}

func sigTok(sig []byte) string {
	if len(sig) == 0 {
		return "-"
	}
	if bytes.Equal(sig, g2Identity()) {
		return "identity"
	}
	return "s" + short(sig)
}

// signSingle signs tx with one key through the repo's own Transaction.Sign.
func signSingle(tx *lib.Transaction, k *single, f *facts) {
	if err := tx.Sign(k.priv); err != nil {
		panic(err)
	}
	sb, _ := tx.GetSignBytes()
	if !verifyNoCache(k.priv.PublicKey(), sb, tx.Signature.Signature) {
		panic("c05: honest signature does not verify")
	}
	f.add(fmt.Sprintf("signed %s %s %s", drv.Hex(k.pub), contentID(tx), sigTok(tx.Signature.Signature)))
}

// signMulti signs with the chosen members under a multi key of the given threshold.
func signMulti(tx *lib.Transaction, p *principal, thr uint32, subset []int, f *facts) {
	mk := p.multiKey(thr)
	sb, err := tx.GetSignBytes()
	if err != nil {
		panic(err)
	}
	for _, i := range subset {
		s := p.members[i].priv.Sign(sb)
		if e := mk.AddSigner(s, i); e != nil {
			panic(e)
		}
		tmp := &lib.Transaction{}
		_ = tmp
		f.add(fmt.Sprintf("signed %s %s %s", drv.Hex(p.members[i].pub), contentID(tx), sigTok(s)))
	}
	agg, e := mk.AggregateSignatures()
	if e != nil {
		panic(e)
	}
	tx.Signature = &lib.Signature{PublicKey: mk.Bytes(), Signature: agg}
	var ks, bits []string
	for i, m := range p.members {
		ks = append(ks, drv.Hex(m.pub))
		b := "0"
		for _, j := range subset {
			if i == j {
				b = "1"
			}
		}
		bits = append(bits, b)
	}
	f.add(fmt.Sprintf("agg %s %s %s %s", sigTok(agg), contentID(tx), strings.Join(ks, ","), strings.Join(bits, "")))
}

// sign signs tx as principal p in p's own scheme (multisig: exactly threshold members).
func sign(tx *lib.Transaction, p *principal, f *facts) {
	if p.isMulti() {
		signMulti(tx, p, p.thr, []int{0, 1}, f)
		return
	}
	signSingle(tx, p.key, f)
}

func verifyNoCache(pk crypto.PublicKeyI, msg, sig []byte) bool {
	old := crypto.DisableCache
	crypto.DisableCache = true
	defer func() { crypto.DisableCache = old }()
	return pk.VerifyBytes(msg, sig)
}

// ---------------------------------------------------------------------------------------------
// Ethereum-wrapped transactions

var scale = new(big.Int).Exp(big.NewInt(10), big.NewInt(12), nil)

var rlpSelectors = map[string][2]string{
	fsm.MessageStakeName:       {fsm.StakedCNPYContractAddress, fsm.StakeSelector},
	fsm.MessageEditStakeName:   {fsm.StakedCNPYContractAddress, fsm.EditStakeSelector},
	fsm.MessageUnstakeName:     {fsm.StakedCNPYContractAddress, fsm.UnstakeSelector},
	fsm.MessageCreateOrderName: {fsm.SwapCNPYContractAddress, fsm.CreateOrderSelector},
	fsm.MessageEditOrderName:   {fsm.SwapCNPYContractAddress, fsm.EditOrderSelector},
	fsm.MessageDeleteOrderName: {fsm.SwapCNPYContractAddress, fsm.DeleteOrderSelector},
	fsm.MessageSubsidyName:     {fsm.CNPYContractAddress, fsm.SubsidySelector},
}

// rlpSupports: the kinds an Ethereum wallet can express (rlpToMessage).
func rlpSupports(kind string) bool {
	_, ok := rlpSelectors[kind]
	return ok || kind == fsm.MessageSendName
}

// buildRLP signs an Ethereum transaction carrying msg with the eth key k and converts it with the
// repo's own RLPToCanopyTransaction / V2. form: "native" (plain transfer) or "abi" for sends.
func (w *world) buildRLP(msg lib.MessageI, kind string, k *single, v2 bool, form string, f *facts) (*lib.Transaction, lib.ErrorI) {
	ek, ok := k.priv.(*crypto.ETHSECP256K1PrivateKey)
	if !ok {
		panic("c05: not an eth key")
	}
	evm := fsm.CanopyIdsToEVMChainId(selfChain, w.netID)
	if v2 {
		var ok2 bool
		evm, ok2 = fsm.CanopyIdsToEVMChainIdV2(selfChain, w.netID)
		if !ok2 {
			panic("c05: no RLP.V2 chain id")
		}
	}
	var to common.Address
	var data []byte
	value := new(big.Int)
	if kind == fsm.MessageSendName {
		m := msg.(*fsm.MessageSend)
		if form == "abi" {
			to = common.HexToAddress(fsm.CNPYContractAddress)
			sel, _ := hex.DecodeString(fsm.SendSelector)
			data = append(data, sel...)
			data = append(data, common.LeftPadBytes(m.ToAddress, 32)...)
			data = append(data, common.LeftPadBytes(new(big.Int).SetUint64(m.Amount).Bytes(), 32)...)
		} else {
			to = common.BytesToAddress(m.ToAddress)
			value = new(big.Int).Mul(new(big.Int).SetUint64(m.Amount), scale)
		}
	} else {
		cs := rlpSelectors[kind]
		to = common.HexToAddress(cs[0])
		sel, _ := hex.DecodeString(cs[1])
		bz, err := lib.Marshal(msg)
		if err != nil {
			panic(err)
		}
		data = append(append([]byte{}, sel...), bz...)
	}
	// fee = gas * gasPrice / 10^12: gas carries the fee, price is one unit
	nonce := w.sm.Height() // legacy: becomes CreatedHeight
	if v2 {
		nonce = 0
	}
	t := ethTypes.NewTx(&ethTypes.LegacyTx{Nonce: nonce, GasPrice: new(big.Int).Set(scale), Gas: w.fees[kind], To: &to, Value: value, Data: data})
	signed, err := ethTypes.SignTx(t, ethTypes.LatestSignerForChainID(new(big.Int).SetUint64(evm)), ek.PrivateKey)
	if err != nil {
		panic(err)
	}
	raw, err := signed.MarshalBinary()
	if err != nil {
		panic(err)
	}
	var tx *lib.Transaction
	var e lib.ErrorI
	if v2 {
		tx, e = fsm.RLPToCanopyTransactionV2(raw)
	} else {
		tx, e = fsm.RLPToCanopyTransaction(raw)
	}
	if e != nil {
		return nil, e
	}
	w.declareRLP(tx, f)
	return tx, nil
}

// declareRLP tells the model one point of the conversion function: the raw Ethereum transaction in
// tx.Signature.Signature converts (under tx.Memo's rules) to exactly this transaction, or fails.
func (w *world) declareRLP(tx *lib.Transaction, f *facts) {
	if tx.Signature == nil {
		return
	}
	for _, v2 := range []bool{false, true} {
		var conv *lib.Transaction
		var e lib.ErrorI
		flag := 0
		if v2 {
			flag = 1
			conv, e = fsm.RLPToCanopyTransactionV2(tx.Signature.Signature)
		} else {
			conv, e = fsm.RLPToCanopyTransaction(tx.Signature.Signature)
		}
		if e != nil {
			f.add(fmt.Sprintf("rlpfail %d %s %s", flag, sigTok(tx.Signature.Signature), errStr(e)))
			continue
		}
		f.add(contentLine(conv))
		f.add(fmt.Sprintf("rlp %d %s %s %s", flag, sigTok(tx.Signature.Signature), contentID(conv), keyToken(conv.Signature.PublicKey)))
	}
}

// ---------------------------------------------------------------------------------------------
// the content of a transaction as the model sees it (decoded from the real object)

func hexStr(s string) string { return drv.Hex([]byte(s)) }

// contentFields renders every signed field of tx; the message is decoded with the real decoder and
// summarised as the fields authorization looks at plus a digest of the whole payload.
func contentFields(tx *lib.Transaction) string {
	kind, a, pk, out, oid, to := "none", "-", "-", "-", "-", "-"
	var ch, amt, sh, eh uint64
	flags := ""
	rest := "-"
	if tx.Msg != nil {
		rest = "m" + short(append([]byte(tx.Msg.TypeUrl+"|"), tx.Msg.Value...))
		if p, err := lib.FromAny(tx.Msg); err == nil {
			if m, ok := p.(lib.MessageI); ok {
				kind = m.Name()
				switch x := m.(type) {
				case *fsm.MessageSend:
					a, to, amt = drv.Hex(x.FromAddress), drv.Hex(x.ToAddress), x.Amount
				case *fsm.MessageStake:
					pk, out, amt = keyToken(x.PublicKey), drv.Hex(x.OutputAddress), x.Amount
					if x.Delegate {
						flags += "d"
					}
					if len(x.Signer) != 0 {
						flags += "w"
					}
				case *fsm.MessageEditStake:
					a, out, amt = drv.Hex(x.Address), drv.Hex(x.OutputAddress), x.Amount
					if len(x.Signer) != 0 {
						flags += "w"
					}
				case *fsm.MessageUnstake:
					a = drv.Hex(x.Address)
				case *fsm.MessagePause:
					a = drv.Hex(x.Address)
				case *fsm.MessageUnpause:
					a = drv.Hex(x.Address)
				case *fsm.MessageChangeParameter:
					a, sh, eh = drv.Hex(x.Signer), x.StartHeight, x.EndHeight
				case *fsm.MessageDAOTransfer:
					a, amt, sh, eh = drv.Hex(x.Address), x.Amount, x.StartHeight, x.EndHeight
					if x.Mint {
						flags += "m"
					}
				case *fsm.MessageCertificateResults:
					if x.Qc != nil {
						pk = keyToken(x.Qc.ProposerKey)
						qbz, _ := lib.Marshal(x.Qc)
						oid = "q" + short(qbz)
						if x.Qc.Header != nil {
							ch = x.Qc.Header.ChainId
						}
						// stateless integrity of the certificate (QuorumCertificate.CheckBasic): results vs results hash
						if x.Qc.Results != nil {
							if rbz, e := lib.Marshal(x.Qc.Results); e == nil && !bytes.Equal(crypto.Hash(rbz), x.Qc.ResultsHash) {
								flags += "h"
							}
						}
					}
				case *fsm.MessageSubsidy:
					a, ch, amt = drv.Hex(x.Address), x.ChainId, x.Amount
				case *fsm.MessageCreateOrder:
					a, ch, amt, to = drv.Hex(x.SellersSendAddress), x.ChainId, x.AmountForSale, drv.Hex(x.SellerReceiveAddress)
				case *fsm.MessageEditOrder:
					oid, ch, amt, to = drv.Hex(x.OrderId), x.ChainId, x.AmountForSale, drv.Hex(x.SellerReceiveAddress)
				case *fsm.MessageDeleteOrder:
					oid, ch = drv.Hex(x.OrderId), x.ChainId
				case *fsm.MessageDexLimitOrder:
					a, ch, amt = drv.Hex(x.Address), x.ChainId, x.AmountForSale
				case *fsm.MessageDexLiquidityDeposit:
					a, ch, amt = drv.Hex(x.Address), x.ChainId, x.Amount
				case *fsm.MessageDexLiquidityWithdraw:
					a, ch, amt = drv.Hex(x.Address), x.ChainId, x.Percent
				}
			}
		}
	}
	if flags == "" {
		flags = "-"
	}
	return fmt.Sprintf("mt=%s kind=%s a=%s pk=%s out=%s oid=%s ch=%d to=%s amt=%d sh=%d eh=%d fl=%s rest=%s time=%d created=%d fee=%d memo=%s net=%d chain=%d nonce=%d",
		hexStr(tx.MessageType), kind, a, pk, out, oid, ch, to, amt, sh, eh, flags, rest, tx.Time, tx.CreatedHeight, tx.Fee, hexStr(tx.Memo), tx.NetworkId, tx.ChainId, tx.Nonce)
}

func contentID(tx *lib.Transaction) string { return "c" + short([]byte(contentFields(tx))) }
func contentLine(tx *lib.Transaction) string {
	return "content " + contentID(tx) + " " + contentFields(tx)
}

// txHashID: the id CheckTx's special fields derive order ids from (hash of the marshalled transaction).
func txBytes(tx *lib.Transaction) []byte {
	bz, err := lib.Marshal(tx)
	if err != nil {
		panic(err)
	}
	return bz
}

func clone(tx *lib.Transaction) *lib.Transaction { return proto.Clone(tx).(*lib.Transaction) }

// ---------------------------------------------------------------------------------------------
// single-field tampering of a signed transaction

type tamper struct {
	field string
	apply func(w *world, sc string, tx *lib.Transaction) bool // false: not applicable
}

func repack(tx *lib.Transaction, m lib.MessageI) bool {
	a, err := lib.NewAny(m)
	if err != nil {
		return false
	}
	tx.Msg = a
	return true
}

func otherAddr(w *world, sc string, cur []byte) []byte {
	if bytes.Equal(cur, w.P[sc]["oth"].addr) {
		return w.P[sc]["unr"].addr
	}
	return w.P[sc]["oth"].addr
}

var tampers = []tamper{
	{"message_type", func(w *world, sc string, tx *lib.Transaction) bool {
		if tx.MessageType == fsm.MessageSendName {
			tx.MessageType = fsm.MessageStakeName
		} else {
			tx.MessageType = fsm.MessageSendName
		}
		return true
	}},
	{"time", func(w *world, sc string, tx *lib.Transaction) bool { tx.Time++; return true }},
	{"created_height", func(w *world, sc string, tx *lib.Transaction) bool { tx.CreatedHeight++; return true }},
	{"fee", func(w *world, sc string, tx *lib.Transaction) bool { tx.Fee++; return true }},
	{"memo", func(w *world, sc string, tx *lib.Transaction) bool { tx.Memo += "x"; return true }},
	{"network_id", func(w *world, sc string, tx *lib.Transaction) bool { tx.NetworkId++; return true }},
	{"chain_id", func(w *world, sc string, tx *lib.Transaction) bool { tx.ChainId++; return true }},
	{"nonce", func(w *world, sc string, tx *lib.Transaction) bool { tx.Nonce++; return true }},
	{"signature", func(w *world, sc string, tx *lib.Transaction) bool {
		s := append([]byte{}, tx.Signature.Signature...)
		s[w.rng.Intn(len(s))] ^= byte(1) << uint(w.rng.Intn(8))
		tx.Signature.Signature = s
		return true
	}},
	{"public_key", func(w *world, sc string, tx *lib.Transaction) bool {
		// another key of the same type, keeping the signature
		pk, err := crypto.NewPublicKeyFromBytes(tx.Signature.PublicKey)
		if err != nil {
			return false
		}
		switch pk.(type) {
		case *crypto.BLS12381MultiPublicKey:
			o := w.P["multi"]["oth"]
			mk := o.multiKey(o.thr)
			if e := mk.SetBitmap(pk.(*crypto.BLS12381MultiPublicKey).Bitmap()); e != nil {
				return false
			}
			tx.Signature.PublicKey = mk.Bytes()
		case *crypto.BLS12381PublicKey:
			tx.Signature.PublicKey = w.P["bls"]["oth"].key.pub
		case *crypto.ED25519PublicKey:
			tx.Signature.PublicKey = w.P["ed25519"]["oth"].key.pub
		case *crypto.SECP256K1PublicKey:
			tx.Signature.PublicKey = w.P["secp256k1"]["oth"].key.pub
		case *crypto.ETHSECP256K1PublicKey:
			tx.Signature.PublicKey = w.P["eth"]["oth"].key.pub
		default:
			return false
		}
		return true
	}},
	{"public_key_garbage", func(w *world, sc string, tx *lib.Transaction) bool {
		tx.Signature.PublicKey = []byte{1, 2, 3, 4, 5, 6, 7, 8, 9, 10} // no key type has this length, no multisig decodes from it
		return true
	}},
	{"signature_empty", func(w *world, sc string, tx *lib.Transaction) bool {
		tx.Signature.Signature = nil
		return true
	}},
	// the message: the address that names the owner, the beneficiary, the amount, the object
	{"msg.owner", func(w *world, sc string, tx *lib.Transaction) bool {
		p, err := lib.FromAny(tx.Msg)
		if err != nil {
			return false
		}
		switch x := p.(type) {
		case *fsm.MessageSend:
			x.FromAddress = otherAddr(w, sc, x.FromAddress)
		case *fsm.MessageStake:
			x.PublicKey = w.P[sc]["oth"].pubBytes()
		case *fsm.MessageEditStake:
			x.Address = otherAddr(w, sc, x.Address)
		case *fsm.MessageUnstake:
			x.Address = otherAddr(w, sc, x.Address)
		case *fsm.MessagePause:
			x.Address = otherAddr(w, sc, x.Address)
		case *fsm.MessageUnpause:
			x.Address = otherAddr(w, sc, x.Address)
		case *fsm.MessageChangeParameter:
			x.Signer = otherAddr(w, sc, x.Signer)
		case *fsm.MessageDAOTransfer:
			x.Address = otherAddr(w, sc, x.Address)
		case *fsm.MessageCertificateResults:
			x.Qc.ProposerKey = w.P[sc]["oth"].pubBytes()
		case *fsm.MessageSubsidy:
			x.Address = otherAddr(w, sc, x.Address)
		case *fsm.MessageCreateOrder:
			x.SellersSendAddress = otherAddr(w, sc, x.SellersSendAddress)
		case *fsm.MessageEditOrder:
			x.OrderId = orderID(otherScheme(sc))
		case *fsm.MessageDeleteOrder:
			x.OrderId = orderID(otherScheme(sc))
		case *fsm.MessageDexLimitOrder:
			x.Address = otherAddr(w, sc, x.Address)
		case *fsm.MessageDexLiquidityDeposit:
			x.Address = otherAddr(w, sc, x.Address)
		case *fsm.MessageDexLiquidityWithdraw:
			x.Address = otherAddr(w, sc, x.Address)
		default:
			return false
		}
		return repack(tx, p.(lib.MessageI))
	}},
	{"msg.beneficiary", func(w *world, sc string, tx *lib.Transaction) bool {
		p, err := lib.FromAny(tx.Msg)
		if err != nil {
			return false
		}
		att := w.P[sc]["unr"].addr
		switch x := p.(type) {
		case *fsm.MessageSend:
			x.ToAddress = att
		case *fsm.MessageStake:
			x.OutputAddress = att
		case *fsm.MessageEditStake:
			x.OutputAddress = att
		case *fsm.MessageCreateOrder:
			x.SellerReceiveAddress = att
		case *fsm.MessageEditOrder:
			x.SellerReceiveAddress = att
		case *fsm.MessageSubsidy:
			x.ChainId = idleChain
		case *fsm.MessageCertificateResults:
			x.Qc.Results.RewardRecipients.PaymentPercents[0].Address = att
		default:
			return false
		}
		return repack(tx, p.(lib.MessageI))
	}},
	{"msg.amount", func(w *world, sc string, tx *lib.Transaction) bool {
		p, err := lib.FromAny(tx.Msg)
		if err != nil {
			return false
		}
		switch x := p.(type) {
		case *fsm.MessageSend:
			x.Amount += 1_000_000
		case *fsm.MessageStake:
			x.Amount += 1_000_000
		case *fsm.MessageEditStake:
			x.Amount += 1_000_000
		case *fsm.MessageDAOTransfer:
			x.Amount += 1_000_000
		case *fsm.MessageSubsidy:
			x.Amount += 1_000_000
		case *fsm.MessageCreateOrder:
			x.AmountForSale += 1_000_000
		case *fsm.MessageEditOrder:
			x.AmountForSale += 1_000_000
		case *fsm.MessageDexLimitOrder:
			x.AmountForSale += 1_000_000
		case *fsm.MessageDexLiquidityDeposit:
			x.Amount += 1_000_000
		case *fsm.MessageDexLiquidityWithdraw:
			x.Percent = 100
		case *fsm.MessageChangeParameter:
			a, e := lib.NewAny(&lib.UInt64Wrapper{Value: 1})
			if e != nil {
				return false
			}
			x.ParameterValue = a
		default:
			return false
		}
		return repack(tx, p.(lib.MessageI))
	}},
	// a field authorization never looks at (lives only in the payload digest of the model)
	{"msg.other", func(w *world, sc string, tx *lib.Transaction) bool {
		p, err := lib.FromAny(tx.Msg)
		if err != nil {
			return false
		}
		switch x := p.(type) {
		case *fsm.MessageSend:
			x.VestingStartHeight, x.VestingCliffHeight, x.VestingEndHeight = 10, 20, 30
		case *fsm.MessageStake:
			x.Compound = !x.Compound
		case *fsm.MessageEditStake:
			x.Compound = !x.Compound
		case *fsm.MessageChangeParameter:
			x.EndHeight++
		case *fsm.MessageDAOTransfer:
			x.Mint = !x.Mint
		case *fsm.MessageSubsidy:
			x.Opcode = []byte{1}
		case *fsm.MessageCreateOrder:
			x.RequestedAmount++
		case *fsm.MessageEditOrder:
			x.RequestedAmount++
		case *fsm.MessageDexLimitOrder:
			x.RequestedAmount++
		default:
			return false
		}
		return repack(tx, p.(lib.MessageI))
	}},
}

func otherScheme(sc string) string {
	if sc == "bls" {
		return "ed25519"
	}
	return "bls"
}
