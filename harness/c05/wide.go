package c05

import (
	"fmt"
	"sort"

	"github.com/canopy-network/canopy/fsm"
	"github.com/canopy-network/canopy/lib/crypto"

	"verifharness/drv"
)

// The address of a multisig account is Hash(sorted member keys ‖ 4-byte big-endian threshold)[:20]: the
// WHOLE threshold is part of the account's identity, so the same member list under a weaker threshold is
// a different account. Thresholds above 255 need more than 255 members, which no other family has.
//
// runWide: one 300-member list (keys generated once).
//   - end to end: a funded 257-of-300 account; a send from it under the member list with threshold 1,
//     signed by ONE member (must be refused: the key's address is not the account's); the same for the
//     300-of-300 account and threshold 44 with 44 signers; control: 257 members under threshold 257.
//   - address level: the addresses of the list under thresholds 1..4, 43..45, 254..260, 299, 300 and a few
//     seeded ones must be pairwise different — in particular t and t+256 — and equal the Lean model's.
func (r *runner) runWide() {
	defer timed("wide-multisig")()
	w := r.w
	r.o.Case("multi/send/300-members-thresholds-above-255")
	r.f, r.sent, r.decl = &facts{}, 0, map[string]bool{}
	const n = 300
	var members []*single
	for i := 0; i < n; i++ {
		members = append(members, newSingle("bls", fmt.Sprintf("wide-member-%d", i)))
	}
	under := func(thr uint32) *principal {
		p := &principal{name: fmt.Sprintf("multi/wide-%d-of-%d", thr, n), scheme: "multi", members: members, thr: thr}
		p.addr = p.multiKey(thr).Address().Bytes()
		return p
	}
	subset := func(k int) []int {
		s := make([]int, k)
		for i := range s {
			s[i] = i
		}
		return s
	}
	w.inTxn(func() {
		acct257, acct300 := under(257), under(300)
		for _, a := range []*principal{acct257, acct300} {
			if err := w.sm.AccountAdd(crypto.NewAddress(a.addr), funds); err != nil {
				panic(err)
			}
			w.byAddr[string(a.addr)] = a.name
		}
		r.base = w.scan()
		r.prepareBatch()
		r.declareState()
		for _, a := range []*principal{acct257, acct300} {
			r.o.Op("key "+keyToken(a.pubBytes()), "addr "+drv.Hex(a.addr))
			if acc := r.base.accts[string(a.addr)]; acc != nil {
				r.o.Op(fmt.Sprintf("acct %s %d %d", drv.Hex(a.addr), acc.Amount, acc.Nonce), "ok")
			}
		}
		// --- end to end: the weaker policy over the same member list
		attempt := func(account *principal, weakThr uint32, signers int, must string) {
			tx := w.envelope(&fsm.MessageSend{FromAddress: account.addr, ToAddress: recipient, Amount: 1000 + w.j}, fsm.MessageSendName)
			signMulti(tx, account, weakThr, subset(signers), r.f)
			r.mustReject = must
			r.offer(fmt.Sprintf("account-%d-of-%d:key-threshold-%d:%d-signed", account.thr, n, weakThr, signers), tx, "", nil, paths)
			r.mustReject = ""
		}
		const sig = "C05:multisig-threshold-not-met:address-ignores-threshold-bits"
		attempt(acct257, 1, 1, sig)   // 257 - 256 = 1
		attempt(acct300, 44, 44, sig) // 300 - 256 = 44
		attempt(acct257, 257, 257, "") // control: the real policy, met
		// --- address level
		ts := map[uint32]bool{}
		for _, t := range []uint32{1, 2, 3, 4, 43, 44, 45, 254, 255, 256, 257, 258, 259, 260, 299, 300} {
			ts[t] = true
		}
		for i := 0; i < 6; i++ {
			t := uint32(1 + w.rng.Intn(n-256))
			ts[t], ts[t+256] = true, true
		}
		var list []uint32
		for t := range ts {
			list = append(list, t)
		}
		sort.Slice(list, func(i, j int) bool { return list[i] < list[j] })
		seen := map[string]uint32{}
		for k, t := range list {
			p := under(t)
			if k%4 == 0 || t == 1 || t == 257 || t == 44 || t == 300 {
				// the Lean model derives the same address (SHA-256 of sorted keys ‖ big-endian threshold)
				r.o.Op("key "+keyToken(p.pubBytes()), "addr "+drv.Hex(p.addr))
			}
			r.o.Count("wide:address")
			r.o.Nontrivial(fmt.Sprintf("wide|addr|%d|%s", t, drv.Hex(p.addr)))
			if o, dup := seen[string(p.addr)]; dup {
				r.fail("C05:multisig-address-collision:threshold", fmt.Sprintf("the %d-member list has the same account address %s under thresholds %d and %d: a %d-of-%d signature set controls the %d-of-%d account",
					n, drv.Hex(p.addr), o, t, o, n, t, n), map[string]any{"members": n, "thresholds": []uint32{o, t}, "address": drv.Hex(p.addr), "member_seed": "verif-c05-bls-wide-member-<i>"})
			}
			seen[string(p.addr)] = t
		}
	})
}
