package c19

import (
	"fmt"

	"github.com/canopy-network/canopy/fsm"

	"verifharness/drv"
)

// RunPoolIds: pool store keys are KeyForPool(chainId + addend(kind)). For every chain id the real
// validity check accepts near the boundaries, and every pool kind, the key is compared with the model
// (generated addends) and — oracle, independent of the model — no two different (kind, chain) pairs may
// share a pool id.
func RunPoolIds(o *drv.Out) {
	o.Case("pool-ids")
	accepted := func(c uint64) bool {
		m := &fsm.MessageStake{PublicKey: make([]byte, 48), Amount: 1, Committees: []uint64{c}, NetAddress: "tcp://x",
			OutputAddress: make([]byte, 20), Signer: nil}
		return m.Check() == nil
	}
	kinds := []struct {
		name   string
		addend uint64
	}{{"committee", 0}, {"holding", fsm.HoldingPoolAddend}, {"liquidity", fsm.LiquidityPoolAddend}, {"escrow", fsm.EscrowPoolAddend}}
	var chains []uint64
	for _, c := range []uint64{1, 2, 3, 4, 100} {
		chains = append(chains, c)
	}
	for d := uint64(0); d <= 4; d++ {
		chains = append(chains, fsm.MaxChainId-d, fsm.MaxChainId+d+1)
	}
	type who struct {
		kind  string
		chain uint64
	}
	owner := map[uint64]who{}
	for _, c := range chains {
		ok := accepted(c)
		o.Op(fmt.Sprintf("chainok %d", c), fmt.Sprintf("%t", ok))
		o.Count(fmt.Sprintf("poolid:chain-accepted:%t", ok))
		if !ok {
			continue
		}
		for _, k := range kinds {
			id := c + k.addend
			key := fsm.KeyForPool(id)
			o.Op(fmt.Sprintf("poolkey %s %d", k.name, c), "key "+drv.Hex(key))
			o.Nontrivial(fmt.Sprintf("poolkey %s %d", k.name, c))
			if w, dup := owner[id]; dup && (w.kind != k.name || w.chain != c) {
				o.Fail("C19:pool-id-collision", fmt.Sprintf("(%s pool, chain %d) and (%s pool, chain %d) share pool id %d, key %s", w.kind, w.chain, k.name, c, id, drv.Hex(key)),
					map[string]any{"a": fmt.Sprintf("%s/%d", w.kind, w.chain), "b": fmt.Sprintf("%s/%d", k.name, c), "id": id, "key": drv.Hex(key)})
			}
			owner[id] = who{k.name, c}
		}
	}
}
