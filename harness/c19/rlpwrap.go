package c19

import (
	"bytes"
	"fmt"

	"github.com/canopy-network/canopy/lib"
	"github.com/canopy-network/canopy/lib/crypto"
	ethTypes "github.com/ethereum/go-ethereum/core/types"
	"google.golang.org/protobuf/proto"

	"verifharness/c06"
	"verifharness/drv"
)

// RLP-backed transactions: the Canopy wrapper carries the raw signed Ethereum transaction in
// Signature.signature; VerifyRLPBytes ties the wrapper to it. One signed Ethereum payload must verify
// under exactly ONE wrapper — the one the repository's conversion produces — and the key that wrapper
// names must be the key recovered from the Ethereum signature. Every wrapper field is varied one at a
// time with the raw RLP kept.
func RunWrappers(o *drv.Out) {
	o.Case("rlp-wrappers")
	probe := c06.NewProbe()
	defer probe.Close()
	otherPub, otherAddr := c06.OtherEthKey()
	failed := map[string]bool{}
	fail := func(sig, desc string, replay any) {
		o.Count("oracle-fail:" + sig)
		if !failed[sig] {
			failed[sig] = true
			o.Fail(sig, desc, replay)
		}
	}
	for _, w := range c06.EthWrappedCorpus() {
		// the honest wrapper: bound, and its claimed key is the recovered one
		var et ethTypes.Transaction
		if err := et.UnmarshalBinary(w.EthTx); err != nil {
			panic(err)
		}
		rec, err := crypto.RecoverPublicKey(ethTypes.LatestSignerForChainID(et.ChainId()), et)
		if err != nil {
			panic(err)
		}
		type variant struct {
			field string
			tx    *lib.Transaction
			auth  []byte // who would be authorized if the wrapper's claim were believed
		}
		vs := []variant{{"(honest)", w.Tx, rec.Address().Bytes()}}
		pk := proto.Clone(w.Tx).(*lib.Transaction)
		pk.Signature.PublicKey = otherPub
		vs = append(vs, variant{"signature.public_key", pk, otherAddr})
		names, txs := c06.FieldVariants(w.Tx)
		for i := range names {
			vs = append(vs, variant{names[i], txs[i], rec.Address().Bytes()})
		}
		for _, v := range vs {
			raw := mustMarshal(v.tx)
			verr := probe.VerifyRLP(v.tx)
			res := "unbound"
			if verr == nil {
				res = "bound"
			}
			o.Op("rlpbind "+drv.Hex(w.Raw)+" "+drv.Hex(raw), res)
			o.Count("rlp-wrapper:" + v.field + ":" + res)
			o.Nontrivial("wrap|" + w.Name + "|" + v.field)
			sender, cerr := probe.CheckSignature(v.tx, [][]byte{v.auth})
			honest := v.field == "(honest)"
			switch {
			case honest && verr != nil:
				fail("C19:honest-rlp-wrapper-refused", w.Name+": the wrapper produced by the conversion does not verify: "+verr.Error(), map[string]any{"wrapper": drv.Hex(raw)})
			case honest && !bytes.Equal(v.tx.Signature.PublicKey, rec.Bytes()):
				fail("C19:rlp-wrapper-key-not-recovered-key", w.Name+": the honest wrapper names another key than the one recovered from the Ethereum signature", map[string]any{"wrapper": drv.Hex(raw)})
			case !honest && verr == nil:
				fail("C19:one-signed-payload-two-wrappers:"+v.field, fmt.Sprintf("%s: the same raw Ethereum transaction verifies (VerifyRLPBytes) under the conversion's wrapper and under one with another %s", w.Name, v.field),
					map[string]any{"case": w.Name, "field": v.field, "honest_wrapper": drv.Hex(w.Raw), "second_wrapper": drv.Hex(raw), "ethereum_tx": drv.Hex(w.EthTx)})
			case !honest && cerr == nil:
				fail("C19:one-signed-payload-two-wrappers:"+v.field, fmt.Sprintf("%s: CheckSignature attributes the raw Ethereum transaction to %x under a wrapper with another %s", w.Name, sender.Bytes(), v.field),
					map[string]any{"case": w.Name, "field": v.field, "honest_wrapper": drv.Hex(w.Raw), "second_wrapper": drv.Hex(raw)})
			}
			if honest {
				if cerr != nil {
					o.Count("rlp-wrapper:honest-checksignature:" + fmt.Sprint(cerr.Code()))
				} else {
					o.Count("rlp-wrapper:honest-checksignature:ok")
				}
			}
		}
	}
}
