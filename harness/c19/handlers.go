package c19

import (
	"fmt"
	"strings"
	"time"

	"github.com/canopy-network/canopy/bft"
	"github.com/canopy-network/canopy/lib"
	"google.golang.org/protobuf/proto"
	"google.golang.org/protobuf/reflect/protoreflect"

	"verifharness/bftsim"
	"verifharness/drv"
)

// Signed-but-malformed consensus messages: a real bft.BFT (bftsim: 4 validators with known BLS keys)
// is driven honestly to the point where messages of one kind are in flight; one of them is taken and,
// for every field reachable in it (and every optional field absent from it), a variant is produced —
// sub-message removed / emptied, byte strings resized, integers moved — RE-SIGNED with the sender's
// real validator key, marshalled, decoded and handed to the recipient's real HandleMessage under the
// panic / hang trap.

var kindsInOrder = []string{"ELECTION", "ELECTION_VOTE", "PROPOSE", "PROPOSE_VOTE", "PRECOMMIT", "PRECOMMIT_VOTE", "COMMIT", "PACEMAKER"}

// harvest runs an honest round until messages of `kind` are queued (undelivered).
func harvest(kind string, salt uint64) (*bftsim.Sim, []*bftsim.Envelope) {
	s := bftsim.New(bftsim.Config{N: 4, Powers: []uint64{1, 1, 1, 1}, Root0: 10, Salt: salt, KeySeed: 7})
	all := []int{0, 1, 2, 3}
	take := func() []*bftsim.Envelope {
		var out []*bftsim.Envelope
		for _, e := range s.Queue {
			if e.Kind == kind && e.From != e.To {
				out = append(out, e)
			}
		}
		return out
	}
	if kind == "PACEMAKER" {
		envs := s.ByzPacemaker(1, 10, 0, []int{2})
		return s, envs
	}
	for step := 0; step < 8; step++ {
		for _, i := range all {
			s.Phase(i)
		}
		if got := take(); len(got) > 0 {
			return s, got
		}
		if step == 0 && kind == "ELECTION" {
			// nobody drew a candidacy under this salt: a well-formed candidacy built the way
			// StartElectionPhase builds it
			b := s.Nodes[1].B
			m := &bft.Message{Header: b.View.Copy(), Vrf: bft.VRF(nil, b.RootHeight, b.Height, b.Round, s.Keys[1])}
			m.Header.Phase = lib.Phase_ELECTION
			return s, s.ByzResign(1, m, nil, []int{2})
		}
		s.DeliverAll(nil)
	}
	return s, nil
}

// sizeRuled: byte-string fields whose length the protocol fixes (keys 48, BLS signatures 96, hashes 32)
// votePayloadOnly: in a PROPOSE_VOTE / PRECOMMIT_VOTE the certificate's proposer_key is part of the
// signed payload and nothing else: CheckReplicaMessage never reads it, AddVote files the vote under the
// hash of its sign bytes, so a vote naming another (or no, or an odd-sized) proposer is a vote for a
// different payload that never meets the honest quorum. Recorded (histogram / evidence), not failed.
func votePayloadOnly(kind, path string) bool {
	return (kind == "PROPOSE_VOTE" || kind == "PRECOMMIT_VOTE") && path == "qc.proposer_key"
}

func sizeRuled(path string) bool {
	for _, suf := range []string{"vrf.public_key", "vrf.signature", "qc.proposer_key", "qc.block_hash", "qc.results_hash", "qc.signature.signature",
		"high_qc.proposer_key", "high_qc.block_hash", "high_qc.results_hash", "high_qc.signature.signature"} {
		if path == suf {
			return true
		}
	}
	return false
}

// structural: sub-messages whose content the handlers rely on when present
func structural(path string) bool {
	switch path {
	case "vrf", "qc", "high_qc", "qc.header", "qc.signature", "high_qc.header", "high_qc.signature":
		return true
	}
	return false
}

type msgVariant struct {
	path, what string
	malformed  bool // a size-ruled element resized, or a sub-message the kind requires removed / emptied
	m          *bft.Message
}

// fieldVariants walks the message tree mechanically (protoreflect), so new fields are covered.
func fieldVariants(kind string, base *bft.Message) []msgVariant {
	var out []msgVariant
	var walk func(get func(root protoreflect.Message) protoreflect.Message, md protoreflect.MessageDescriptor, prefix string, depth int)
	add := func(path, what string, malformed bool, edit func(root protoreflect.Message)) {
		c := proto.Clone(base).(*bft.Message)
		c.Signature = nil
		edit(c.ProtoReflect())
		out = append(out, msgVariant{path, what, malformed, c})
	}
	required := func(path string) bool {
		switch {
		case kind == "ELECTION":
			return path == "vrf"
		case strings.HasSuffix(kind, "_VOTE"):
			return path == "qc" || path == "qc.header"
		case kind == "PACEMAKER":
			return false // removing qc / qc.header changes the kind
		default:
			return path == "qc" || path == "qc.header" || path == "qc.signature"
		}
	}
	walk = func(get func(root protoreflect.Message) protoreflect.Message, md protoreflect.MessageDescriptor, prefix string, depth int) {
		cur := get(base.ProtoReflect())
		fields := md.Fields()
		for i := 0; i < fields.Len(); i++ {
			fd := fields.Get(i)
			path := prefix + string(fd.Name())
			if path == "signature" || path == "header" || strings.HasSuffix(path, "header.phase") {
				continue // the message signature is re-made; header / phase decide the kind
			}
			present := cur.IsValid() && cur.Has(fd)
			switch {
			case fd.IsList() && fd.Kind() == protoreflect.MessageKind:
				add(path, "one empty element appended", false, func(r protoreflect.Message) {
					l := get(r).Mutable(fd).List()
					l.Append(l.NewElement())
				})
			case fd.IsList() || fd.IsMap():
			case fd.Kind() == protoreflect.MessageKind:
				if present {
					add(path, "removed", required(path), func(r protoreflect.Message) { get(r).Clear(fd) })
				}
				add(path, "emptied", required(path) || (present && structural(path)), func(r protoreflect.Message) {
					get(r).Set(fd, protoreflect.ValueOfMessage(get(r).NewField(fd).Message()))
				})
				if present && depth < 3 {
					walk(func(r protoreflect.Message) protoreflect.Message { return get(r).Mutable(fd).Message() }, fd.Message(), path+".", depth+1)
				}
			case fd.Kind() == protoreflect.BytesKind:
				n := 0
				if present {
					n = len(cur.Get(fd).Bytes())
				}
				sizes := []int{0, 1, n - 1, n + 1, 10 * n}
				if n == 0 {
					sizes = []int{1, 32, 48, 96}
				}
				for _, sz := range sizes {
					if sz < 0 || sz == n {
						continue
					}
					sz := sz
					add(path, fmt.Sprintf("resized %d -> %d bytes", n, sz), sizeRuled(path) && present, func(r protoreflect.Message) {
						old := get(r).Get(fd).Bytes()
						nb := make([]byte, sz)
						copy(nb, old)
						for j := len(old); j < sz; j++ {
							nb[j] = byte(j)
						}
						get(r).Set(fd, protoreflect.ValueOfBytes(nb))
					})
				}
			case fd.Kind() == protoreflect.Uint64Kind:
				v := uint64(0)
				if present {
					v = cur.Get(fd).Uint()
				}
				for _, nv := range []uint64{0, v + 1, ^uint64(0)} {
					if nv == v {
						continue
					}
					nv := nv
					add(path, fmt.Sprintf("%d -> %d", v, nv), false, func(r protoreflect.Message) { get(r).Set(fd, protoreflect.ValueOfUint64(nv)) })
				}
			}
		}
	}
	walk(func(r protoreflect.Message) protoreflect.Message { return r }, base.ProtoReflect().Descriptor(), "", 0)
	return out
}

func inProposals(b *bft.BFT, m *bft.Message) bool {
	for _, byPhase := range b.Proposals {
		for _, list := range byPhase {
			for _, x := range list {
				if x == m {
					return true
				}
			}
		}
	}
	return false
}

// RunHandlers: signed-but-malformed consensus messages through the real bft.HandleMessage.
func RunHandlers(o *drv.Out) {
	o.Case("handlers")
	failed := map[string]bool{}
	total, panics, accepted := 0, 0, 0
	for _, kind := range kindsInOrder {
		s, envs := harvest(kind, 1)
		if len(envs) == 0 {
			o.Count("handler:" + kind + ":not-harvested")
			continue
		}
		e := envs[0]
		// the honest message itself must be accepted, otherwise the variants prove nothing
		okBase := ""
		{
			c := proto.Clone(e.Msg).(*bft.Message)
			okBase = guarded(5*time.Second, func() error { return asErr(s.Nodes[e.To].B.HandleMessage(c)) })
			o.Count("handler:" + kind + ":wellformed:" + strings.SplitN(okBase, ":", 2)[0])
		}
		vs := fieldVariants(kind, e.Msg)
		if o.Tier != "thorough" && len(vs) > 90 {
			// keep every (path, first two variants) in quick
			seen := map[string]int{}
			var keep []msgVariant
			for _, v := range vs {
				if seen[v.path] < 3 || v.malformed {
					keep = append(keep, v)
				}
				seen[v.path]++
			}
			vs = keep
		}
		for _, v := range vs {
			total++
			var wire []byte
			built := guarded(5*time.Second, func() error {
				// the sender signs whatever it wants to send: Sign -> SignBytes on a malformed message
				if err := v.m.Sign(s.Keys[e.From]); err != nil {
					return err
				}
				wire = mustMarshal(v.m)
				return nil
			})
			if strings.HasPrefix(built, "panic") {
				// the SENDER's own signing code panics on its own malformed message: not an attack surface
				o.Count("handler:" + kind + ":unsignable")
				continue
			}
			in := new(bft.Message)
			var stored bool
			res := guarded(5*time.Second, func() error {
				if err := lib.Unmarshal(wire, in); err != nil {
					return errDecode{err}
				}
				err := s.Nodes[e.To].B.HandleMessage(in)
				stored = err == nil
				return asErr(err)
			})
			if kind == "ELECTION" {
				// model: a validly signed candidacy at the right height is accepted iff its VRF is well formed
				r := "rej"
				if stored {
					r = "ok"
				}
				if strings.HasPrefix(res, "panic") {
					r = "panic"
				}
				o.Op("electionwf "+msgTok(v.m)+" "+drv.Hex(s.Pubs[e.From]), r)
			}
			desc := fmt.Sprintf("%s message, %s %s", kind, v.path, v.what)
			o.Nontrivial("handler|" + desc)
			switch {
			case strings.HasPrefix(res, "panic"):
				panics++
				site := strings.SplitN(res, ":", 3)[1]
				o.Count("handler-panic:" + kind + ":" + site)
				if !failed["p"+site] {
					failed["p"+site] = true
					o.Fail("C19:handler-panic:"+site, "bft.HandleMessage panics on a validly signed "+desc+": "+res,
						map[string]any{"kind": kind, "field": v.path, "change": v.what, "message": drv.Hex(wire), "sender": e.From, "recipient": e.To, "panic": res})
				}
			case res == "hang":
				if !failed["h"+kind] {
					failed["h"+kind] = true
					o.Fail("C19:handler-hang:"+kind, "bft.HandleMessage did not return within 5s on a validly signed "+desc, map[string]any{"message": drv.Hex(wire)})
				}
			case stored && v.malformed && votePayloadOnly(kind, v.path):
				o.Count("handler-observed:vote-with-odd-proposer-key-accepted:" + kind)
				if _, ok := o.Extra["observation_vote_proposer_key_unchecked"]; !ok {
					o.Extra["observation_vote_proposer_key_unchecked"] = map[string]any{"kind": kind, "change": v.what, "message": drv.Hex(wire), "sender": e.From, "recipient": e.To}
				}
			case stored && v.malformed:
				accepted++
				where := "accepted"
				if inProposals(s.Nodes[e.To].B, in) {
					where = "stored in Proposals"
				}
				o.Count("handler-malformed-accepted:" + kind + ":" + v.path)
				if !failed["a"+kind+v.path] {
					failed["a"+kind+v.path] = true
					o.Fail("C19:malformed-consensus-message-accepted:"+kind+":"+v.path, "a validly signed "+desc+" was "+where+" by bft.HandleMessage",
						map[string]any{"kind": kind, "field": v.path, "change": v.what, "message": drv.Hex(wire), "sender": e.From, "recipient": e.To})
				}
			default:
				r := "rejected"
				if stored {
					r = "accepted"
				}
				m := "benign"
				if v.malformed {
					m = "malformed"
				}
				o.Count("handler:" + kind + ":" + m + ":" + r)
			}
		}
	}
	o.Extra["handler_variants"] = total
	o.Extra["handler_panics"] = panics
	o.Extra["handler_malformed_accepted"] = accepted
}
