package c19

import (
	"bytes"
	"fmt"
	"runtime/debug"
	"strings"

	"github.com/canopy-network/canopy/lib"
	"github.com/canopy-network/canopy/lib/crypto"

	"verifharness/drv"
)

// Merkle roots (transaction root of a block, validator-set root): the root of n > 0 items is a
// 32-byte hash, and two different lists of the SAME length never share it. The real crypto.MerkleTree
// lays the tree out in a linear array padded to the next power of two, so the lengths around every
// power of two (and the whole ranges just above 2048 and 4096, where a wrong padding leaves the last
// slot unwritten) are the interesting ones.
//
// Two independent parts: the correspondence op `merkle` (the model recomputes the root level by level
// with its own SHA-256), and a Go-side oracle that needs no model at all.
func RunMerkle(o *drv.Out) {
	o.Case("merkle")
	r := o.Rng
	failed := map[string]bool{}
	fail := func(sig, desc string, replay any) {
		o.Count("oracle-fail:" + sig)
		if !failed[sig] {
			failed[sig] = true
			o.Fail(sig, desc, replay)
		}
	}
	const sigCollide = "C19:identity-hash-collision:merkle-root"

	// real root under a panic trap
	rootOf := func(items [][]byte) (root []byte, site string) {
		defer func() {
			if rec := recover(); rec != nil {
				site = panicSite(string(debug.Stack()))
				if site == "unknown-site" {
					site = "lib/crypto.MerkleTree"
				}
				root = nil
			}
		}()
		root, _, err := crypto.MerkleTree(items)
		if err != nil {
			panic(err)
		}
		return root, ""
	}

	for _, n := range merkleLengths(o.Tier) {
		// short random items (an occasional empty one, occasional duplicates); 2 bytes above 300 to keep lines small
		items := make([][]byte, n)
		for i := range items {
			l := 2
			if n <= 300 {
				l = r.Intn(6)
			}
			items[i] = drv.Bytes(r, l)
			if n <= 300 && i > 0 && r.Intn(16) == 0 {
				items[i] = items[r.Intn(i)]
			}
		}
		root, site := rootOf(items)
		if site != "" {
			fail("C19:handler-panic:"+site, fmt.Sprintf("crypto.MerkleTree panics on %d items", n), map[string]any{"length": n, "items": hexList(items)})
			continue
		}
		var sb strings.Builder
		sb.WriteString("merkle")
		for _, it := range items {
			sb.WriteByte(' ')
			sb.WriteString(drv.Hex(it))
		}
		o.Op(sb.String(), "bytes "+drv.Hex(root))
		o.Count("merkle:" + merkleClass(n))
		o.Nontrivial("merkle|" + merkleClass(n))
		if n == 0 {
			if len(root) != 0 {
				fail("C19:merkle-empty-list-root-not-empty", "the root of the empty list is not the empty placeholder", map[string]any{"root": drv.Hex(root)})
			}
			continue
		}
		// (1) the root of a non-empty list is a hash
		if len(root) != crypto.HashSize {
			fail(sigCollide, fmt.Sprintf("the Merkle root of %d items is %q (%d bytes), not a %d-byte hash: every list of that length has the same root", n, drv.Hex(root), len(root), crypto.HashSize),
				map[string]any{"length": n, "root": drv.Hex(root), "items": hexList(items)})
			continue
		}
		// (2) one item replaced (first, last, middle, two random positions): another root
		pos := []int{0, n - 1, n / 2, r.Intn(n), r.Intn(n)}
		for _, p := range pos {
			alt := make([][]byte, n)
			copy(alt, items)
			alt[p] = append(append([]byte{}, items[p]...), 0x01)
			root2, site2 := rootOf(alt)
			o.Count("merkle-replace")
			if site2 == "" && bytes.Equal(root, root2) {
				fail(sigCollide, fmt.Sprintf("two lists of %d items that differ in item %d have the same Merkle root %s", n, p, drv.Hex(root)),
					map[string]any{"length": n, "position": p, "root": drv.Hex(root), "items": hexList(items), "other_item": drv.Hex(alt[p])})
				break
			}
		}
	}

	// (3) the two real callers: transaction root of a block result, validator-set root
	callers := []int{1, 2, 3, 5, 64, 65, 255, 256, 257, 258, 513, 514, 1025, 1028, 2049, 2056, 4097, 4112}
	if o.Tier != "quick" {
		for n := 4098; n < 4112; n++ {
			callers = append(callers, n)
		}
		callers = append(callers, 8193, 8200)
	}
	for _, n := range callers {
		// transaction results: opaque byte strings; the second list differs from the first in ONE result
		a, b := make([][]byte, n), make([][]byte, n)
		for i := range a {
			a[i] = make([]byte, 40)
			r.Read(a[i])
			b[i] = a[i]
		}
		q := r.Intn(n)
		b[q] = append(append([]byte{}, a[q]...), 0x01)
		ra, ea := (&lib.ApplyBlockResults{ResultsBz: a}).TransactionRoot()
		rb, eb := (&lib.ApplyBlockResults{ResultsBz: b}).TransactionRoot()
		o.Count("merkle-caller:TransactionRoot")
		if ea != nil || eb != nil {
			fail("C19:merkle-root-error", fmt.Sprintf("TransactionRoot fails on %d results: %v %v", n, ea, eb), map[string]any{"length": n})
		} else if bytes.Equal(ra, rb) {
			fail(sigCollide, fmt.Sprintf("ApplyBlockResults.TransactionRoot: two lists of %d transaction results that differ in result %d have the same root %q", n, q, drv.Hex(ra)),
				map[string]any{"caller": "TransactionRoot", "length": n, "position": q, "root": drv.Hex(ra), "items": hexList(a), "other_item": drv.Hex(b[q])})
		}
		// validator sets: the second differs from the first in ONE validator's voting power
		mk := func() *lib.ConsensusValidators {
			vs := &lib.ConsensusValidators{}
			for i := 0; i < n; i++ {
				vs.ValidatorSet = append(vs.ValidatorSet, &lib.ConsensusValidator{PublicKey: drv.Bytes(r, 48), VotingPower: 1 + uint64(r.Intn(1000)), NetAddress: fmt.Sprintf("tcp://v%d", i)})
			}
			return vs
		}
		va := mk()
		vb := &lib.ConsensusValidators{}
		for _, v := range va.ValidatorSet {
			vb.ValidatorSet = append(vb.ValidatorSet, &lib.ConsensusValidator{PublicKey: v.PublicKey, VotingPower: v.VotingPower, NetAddress: v.NetAddress})
		}
		p := r.Intn(n)
		vb.ValidatorSet[p].VotingPower += 1_000_000
		rva, eva := va.Root()
		rvb, evb := vb.Root()
		o.Count("merkle-caller:ConsensusValidators.Root")
		if eva != nil || evb != nil {
			fail("C19:merkle-root-error", fmt.Sprintf("ConsensusValidators.Root fails on %d validators: %v %v", n, eva, evb), map[string]any{"length": n})
		} else if bytes.Equal(rva, rvb) {
			fail(sigCollide, fmt.Sprintf("ConsensusValidators.Root: two validator sets of %d members that differ in the voting power of member %d have the same root %q", n, p, drv.Hex(rva)),
				map[string]any{"caller": "ConsensusValidators.Root", "length": n, "position": p, "root": drv.Hex(rva)})
		}
	}
}

// merkleLengths: 0..70, the four lengths around every power of two up to 4096, the ranges just above
// 2048 and 4096 (a few of the latter in the quick tier), 8193 in the thorough tier.
func merkleLengths(tier string) []int {
	seen := map[int]bool{}
	var out []int
	add := func(n int) {
		if n >= 0 && !seen[n] {
			seen[n] = true
			out = append(out, n)
		}
	}
	for n := 0; n <= 70; n++ {
		add(n)
	}
	for k := 1; k <= 12; k++ {
		p := 1 << k
		add(p - 1)
		add(p)
		add(p + 1)
		add(p + 2)
	}
	for n := 2049; n <= 2056; n++ {
		add(n)
	}
	if tier == "quick" {
		add(4104)
		add(4112)
	} else {
		for n := 4097; n <= 4113; n++ {
			add(n)
		}
		add(8191)
		add(8192)
		add(8193)
	}
	return out
}

func merkleClass(n int) string {
	switch {
	case n == 0:
		return "empty"
	case n == 1:
		return "single"
	}
	size := "n<=256"
	switch {
	case n > 4096:
		size = "n>4096"
	case n > 2048:
		size = "n>2048"
	case n > 256:
		size = "n>256"
	}
	shape := "between"
	switch {
	case n&(n-1) == 0:
		shape = "pow2"
	case (n-1)&(n-2) == 0:
		shape = "pow2+1"
	case (n+1)&n == 0:
		shape = "pow2-1"
	case n%2 == 1:
		shape = "odd"
	}
	return size + "|" + shape
}

func hexList(items [][]byte) []string {
	const max = 24
	out := make([]string, 0, len(items))
	for i, it := range items {
		if i == max {
			out = append(out, fmt.Sprintf("... (%d more; regenerate from the seed)", len(items)-max))
			break
		}
		out = append(out, drv.Hex(it))
	}
	return out
}
