// Package c19 drives the real key builders, length-prefix codec, sign-bytes and decoders (C19).
package c19

import (
	"bytes"
	"encoding/binary"
	"fmt"
	"sort"
	"strings"

	"github.com/canopy-network/canopy/fsm"
	"github.com/canopy-network/canopy/lib"
	"github.com/canopy-network/canopy/lib/crypto"
	"github.com/canopy-network/canopy/store"

	"verifharness/drv"
)

type arg struct {
	isU bool
	u   uint64
	b   []byte
}

func (a arg) String() string {
	if a.isU {
		return fmt.Sprintf("u:%d", a.u)
	}
	return "b:" + drv.Hex(a.b)
}

func be8(u uint64) []byte { b := make([]byte, 8); binary.BigEndian.PutUint64(b, u); return b }

// fam describes one real key builder: its parameter kinds, how to call it, and — for the oracle,
// written independently of the model — the segment list it is meant to denote.
type fam struct {
	ns, name string
	kinds    string // 'u' uint64, 'b' bytes, 'a' address
	call     func(a []arg) []byte
	segs     func(a []arg) [][]byte
	isPrefix bool
}

func addr(b []byte) crypto.AddressI { return crypto.NewAddressFromBytes(b) }

func idx(name string, us []int, bs []int) func(a []arg) []byte {
	return func(a []arg) []byte {
		var u []uint64
		var b [][]byte
		for _, i := range us {
			u = append(u, a[i].u)
		}
		for _, i := range bs {
			b = append(b, a[i].b)
		}
		k, ok := store.VerifIndexerKey(name, u, b)
		if !ok {
			panic("unknown indexer key " + name)
		}
		return k
	}
}

func families() []fam {
	p := func(n byte) []byte { return []byte{n} }
	return []fam{
		{"fsm", "AccountPrefix", "", func(a []arg) []byte { return fsm.AccountPrefix() }, func(a []arg) [][]byte { return [][]byte{p(1)} }, true},
		{"fsm", "PoolPrefix", "", func(a []arg) []byte { return fsm.PoolPrefix() }, func(a []arg) [][]byte { return [][]byte{p(2)} }, true},
		{"fsm", "SupplyPrefix", "", func(a []arg) []byte { return fsm.SupplyPrefix() }, func(a []arg) [][]byte { return [][]byte{p(10)} }, true},
		{"fsm", "ValidatorPrefix", "", func(a []arg) []byte { return fsm.ValidatorPrefix() }, func(a []arg) [][]byte { return [][]byte{p(3)} }, true},
		{"fsm", "NonSignerPrefix", "", func(a []arg) []byte { return fsm.NonSignerPrefix() }, func(a []arg) [][]byte { return [][]byte{p(8)} }, true},
		{"fsm", "LastProposersPrefix", "", func(a []arg) []byte { return fsm.LastProposersPrefix() }, func(a []arg) [][]byte { return [][]byte{p(9)} }, true},
		{"fsm", "CommitteesDataPrefix", "", func(a []arg) []byte { return fsm.CommitteesDataPrefix() }, func(a []arg) [][]byte { return [][]byte{p(12)} }, true},
		{"fsm", "RetiredCommitteesPrefix", "", func(a []arg) []byte { return fsm.RetiredCommitteesPrefix() }, func(a []arg) [][]byte { return [][]byte{p(14)} }, true},
		{"fsm", "UnstakingPrefix", "u", func(a []arg) []byte { return fsm.UnstakingPrefix(a[0].u) }, func(a []arg) [][]byte { return [][]byte{p(5), be8(a[0].u)} }, true},
		{"fsm", "PausedPrefix", "u", func(a []arg) []byte { return fsm.PausedPrefix(a[0].u) }, func(a []arg) [][]byte { return [][]byte{p(6), be8(a[0].u)} }, true},
		{"fsm", "CommitteePrefix", "u", func(a []arg) []byte { return fsm.CommitteePrefix(a[0].u) }, func(a []arg) [][]byte { return [][]byte{p(4), be8(a[0].u)} }, true},
		{"fsm", "DelegatePrefix", "u", func(a []arg) []byte { return fsm.DelegatePrefix(a[0].u) }, func(a []arg) [][]byte { return [][]byte{p(11), be8(a[0].u)} }, true},
		{"fsm", "OrderBookPrefix", "u", func(a []arg) []byte { return fsm.OrderBookPrefix(a[0].u) }, func(a []arg) [][]byte { return [][]byte{p(13), be8(a[0].u)} }, true},
		{"fsm", "KeyForPool", "u", func(a []arg) []byte { return fsm.KeyForPool(a[0].u) }, func(a []arg) [][]byte { return [][]byte{p(2), be8(a[0].u)} }, false},
		{"fsm", "KeyForNonSigner", "b", func(a []arg) []byte { return fsm.KeyForNonSigner(a[0].b) }, func(a []arg) [][]byte { return [][]byte{p(8), a[0].b} }, false},
		{"fsm", "KeyForOrder", "ub", func(a []arg) []byte { return fsm.KeyForOrder(a[0].u, a[1].b) }, func(a []arg) [][]byte { return [][]byte{p(13), be8(a[0].u), a[1].b} }, false},
		{"fsm", "KeyForUnstaking", "ua", func(a []arg) []byte { return fsm.KeyForUnstaking(a[0].u, addr(a[1].b)) }, func(a []arg) [][]byte { return [][]byte{p(5), be8(a[0].u), a[1].b} }, false},
		{"fsm", "KeyForPaused", "ua", func(a []arg) []byte { return fsm.KeyForPaused(a[0].u, addr(a[1].b)) }, func(a []arg) [][]byte { return [][]byte{p(6), be8(a[0].u), a[1].b} }, false},
		{"fsm", "KeyForCommittee", "uau", func(a []arg) []byte { return fsm.KeyForCommittee(a[0].u, addr(a[1].b), a[2].u) }, func(a []arg) [][]byte { return [][]byte{p(4), be8(a[0].u), be8(a[2].u), a[1].b} }, false},
		{"fsm", "KeyForDelegate", "uau", func(a []arg) []byte { return fsm.KeyForDelegate(a[0].u, addr(a[1].b), a[2].u) }, func(a []arg) [][]byte { return [][]byte{p(11), be8(a[0].u), be8(a[2].u), a[1].b} }, false},
		{"fsm", "KeyForRetiredCommittee", "u", func(a []arg) []byte { return fsm.KeyForRetiredCommittee(a[0].u) }, func(a []arg) [][]byte { return [][]byte{p(14), be8(a[0].u)} }, false},
		{"fsm", "KeyForAccount", "a", func(a []arg) []byte { return fsm.KeyForAccount(addr(a[0].b)) }, func(a []arg) [][]byte { return [][]byte{p(1), a[0].b} }, false},
		{"fsm", "KeyForValidator", "a", func(a []arg) []byte { return fsm.KeyForValidator(addr(a[0].b)) }, func(a []arg) [][]byte { return [][]byte{p(3), a[0].b} }, false},
		{"fsm", "KeyForLockedBatch", "u", func(a []arg) []byte { return fsm.KeyForLockedBatch(a[0].u) }, func(a []arg) [][]byte { return [][]byte{p(15), p(1), be8(a[0].u)} }, false},
		{"fsm", "KeyForNextBatch", "u", func(a []arg) []byte { return fsm.KeyForNextBatch(a[0].u) }, func(a []arg) [][]byte { return [][]byte{p(15), p(2), be8(a[0].u)} }, false},

		{"indexer", "txHashKey", "b", idx("txHashKey", nil, []int{0}), func(a []arg) [][]byte { return [][]byte{p(1), a[0].b} }, false},
		{"indexer", "txHeightKey", "u", idx("txHeightKey", []int{0}, nil), func(a []arg) [][]byte { return [][]byte{p(2), be8(a[0].u)} }, true},
		{"indexer", "txHeightAndIndexKey", "uu", idx("txHeightAndIndexKey", []int{0, 1}, nil), func(a []arg) [][]byte { return [][]byte{p(2), be8(a[0].u), be8(a[1].u)} }, false},
		{"indexer", "txSenderKey", "bb", idx("txSenderKey", nil, []int{0, 1}), func(a []arg) [][]byte { return [][]byte{p(3), a[0].b, a[1].b} }, false},
		{"indexer", "txRecipientKey", "bb", idx("txRecipientKey", nil, []int{0, 1}), func(a []arg) [][]byte { return [][]byte{p(4), a[0].b, a[1].b} }, false},
		{"indexer", "blockHashKey", "b", idx("blockHashKey", nil, []int{0}), func(a []arg) [][]byte { return [][]byte{p(5), a[0].b} }, false},
		{"indexer", "blockHeightKey", "u", idx("blockHeightKey", []int{0}, nil), func(a []arg) [][]byte { return [][]byte{p(6), be8(a[0].u)} }, false},
		{"indexer", "qcHeightKey", "u", idx("qcHeightKey", []int{0}, nil), func(a []arg) [][]byte { return [][]byte{p(7), be8(a[0].u)} }, false},
		{"indexer", "doubleSignerHeightKey", "bu", idx("doubleSignerHeightKey", []int{1}, []int{0}), func(a []arg) [][]byte { return [][]byte{p(8), a[0].b, be8(a[1].u)} }, false},
		{"indexer", "checkpointsCommitteeKey", "u", idx("checkpointsCommitteeKey", []int{0}, nil), func(a []arg) [][]byte { return [][]byte{p(9), be8(a[0].u)} }, true},
		{"indexer", "checkpointKey", "uu", idx("checkpointKey", []int{0, 1}, nil), func(a []arg) [][]byte { return [][]byte{p(9), be8(a[0].u), be8(a[1].u)} }, false},
		{"indexer", "eventAddressKey", "bb", idx("eventAddressKey", nil, []int{0, 1}), func(a []arg) [][]byte { return [][]byte{p(10), a[0].b, a[1].b} }, false},
		{"indexer", "eventHeightKey", "u", idx("eventHeightKey", []int{0}, nil), func(a []arg) [][]byte { return [][]byte{p(11), be8(a[0].u)} }, true},
		{"indexer", "eventBlockHeightKey", "u", idx("eventBlockHeightKey", []int{0}, nil), func(a []arg) [][]byte { return [][]byte{p(11), be8(a[0].u)} }, true},
		{"indexer", "eventHeightAndIndexKey", "uu", idx("eventHeightAndIndexKey", []int{0, 1}, nil), func(a []arg) [][]byte { return [][]byte{p(11), be8(a[0].u), be8(a[1].u)} }, false},
		{"indexer", "eventChainIdKey", "ub", idx("eventChainIdKey", []int{0}, []int{1}), func(a []arg) [][]byte { return [][]byte{p(12), be8(a[0].u), a[1].b} }, false},
		{"indexer", "stateChangeVersionPrefix", "u", idx("stateChangeVersionPrefix", []int{0}, nil), func(a []arg) [][]byte { return [][]byte{p(14), be8(a[0].u)} }, true},
	}
}

func segKey(segs [][]byte) string {
	var s []string
	for _, x := range segs {
		s = append(s, drv.Hex(x))
	}
	return strings.Join(s, "/")
}

type produced struct {
	ns, name string
	key      []byte
	segs     [][]byte
	op       string
}

// RunKeys: correspondence of every key builder and of the segment codec, plus the oracle
// "different components never collide and never fall into each other's prefix range" evaluated
// on the real keys of this run.
func RunKeys(o *drv.Out) {
	r := o.Rng
	fams := families()
	n := 4000
	if o.Tier == "thorough" {
		n = 60000
	}
	lens := []int{0, 1, 2, 8, 19, 20, 21, 32, 64, 254, 255}
	var all []produced
	// a small pool of shared component values so that keys genuinely share leading segments
	poolU := []uint64{0, 1, 2, 255, 256, 1 << 32, ^uint64(0)}
	poolB := [][]byte{{}, {0}, {1}, {20}, bytes.Repeat([]byte{0xFF}, 20), bytes.Repeat([]byte{0}, 20), be8(1)}
	o.Case("keys")
	for i := 0; i < n; i++ {
		f := fams[r.Intn(len(fams))]
		var as []arg
		wf := true
		for _, k := range f.kinds {
			if k == 'u' {
				if r.Intn(3) == 0 {
					as = append(as, arg{isU: true, u: poolU[r.Intn(len(poolU))]})
				} else {
					as = append(as, arg{isU: true, u: drv.Uint64(r)})
				}
			} else {
				var b []byte
				switch r.Intn(12) {
				case 0, 1, 2:
					b = poolB[r.Intn(len(poolB))]
				case 3: // beyond the one-byte length prefix: model and code must still agree (truncation)
					b = drv.Bytes(r, 256+r.Intn(300))
					wf = false
				default:
					b = drv.Bytes(r, lens[r.Intn(len(lens))])
				}
				if b == nil {
					b = []byte{}
				}
				as = append(as, arg{b: b})
			}
		}
		var parts []string
		for _, a := range as {
			parts = append(parts, a.String())
		}
		op := strings.TrimSpace(fmt.Sprintf("key %s %s %s", f.ns, f.name, strings.Join(parts, " ")))
		key := f.call(as)
		o.Op(op, "key "+drv.Hex(key))
		o.Count("key:" + f.ns + "." + f.name)
		if wf {
			all = append(all, produced{f.ns, f.name, key, f.segs(as), op})
			if len(as) > 0 {
				o.Nontrivial(op)
			}
		} else {
			o.Count("key:oversize-component")
		}
		if i < 3 {
			o.Sample(op + " -> " + drv.Hex(key))
		}
	}
	// oracle on the implementation, per store namespace: collisions and prefix ranges
	for _, ns := range []string{"fsm", "indexer"} {
		byKey := map[string]produced{}
		var list []produced
		for _, p := range all {
			if p.ns != ns {
				continue
			}
			if q, ok := byKey[string(p.key)]; ok {
				if segKey(q.segs) != segKey(p.segs) {
					o.Fail("C19:key-collision", fmt.Sprintf("%s and %s encode to the same key %s", q.op, p.op, drv.Hex(p.key)),
						map[string]any{"op1": q.op, "op2": p.op, "key": drv.Hex(p.key)})
				}
				continue
			}
			byKey[string(p.key)] = p
			list = append(list, p)
		}
		sort.Slice(list, func(i, j int) bool { return bytes.Compare(list[i].key, list[j].key) < 0 })
		// in sorted order every byte-prefix relation is between a key and a run of successors
		checked := 0
		for i := range list {
			for j := i + 1; j < len(list) && bytes.HasPrefix(list[j].key, list[i].key); j++ {
				checked++
				a, b := list[i].segs, list[j].segs
				ok := len(a) <= len(b)
				for k := 0; ok && k < len(a); k++ {
					ok = bytes.Equal(a[k], b[k])
				}
				if !ok {
					o.Fail("C19:key-prefix-range", fmt.Sprintf("%s is a byte-prefix of %s but not a segment-prefix", list[i].op, list[j].op),
						map[string]any{"op1": list[i].op, "op2": list[j].op})
				}
			}
		}
		o.Hist["oracle:prefix-pairs:"+ns] = checked
		o.Hist["oracle:distinct-keys:"+ns] = len(list)
	}
	// segment codec: JoinLenPrefix with nil / empty / long segments, DecodeLengthPrefixed on valid and arbitrary bytes
	o.Case("codec")
	m := n / 2
	for i := 0; i < m; i++ {
		k := r.Intn(5)
		var segs [][]byte
		var words []string
		for j := 0; j < k; j++ {
			switch r.Intn(8) {
			case 0:
				segs = append(segs, nil)
				words = append(words, "nil")
			case 1:
				b := drv.Bytes(r, 255+r.Intn(3))
				segs = append(segs, b)
				words = append(words, drv.Hex(b))
			default:
				b := drv.Bytes(r, r.Intn(6))
				if b == nil {
					b = []byte{}
				}
				segs = append(segs, b)
				words = append(words, drv.Hex(b))
			}
		}
		key := lib.JoinLenPrefix(segs...)
		o.Op(strings.TrimSpace("join "+strings.Join(words, " ")), "key "+drv.Hex(key))
		o.Count("join")
		// decode: the joined key, a mutation of it, or random bytes
		var in []byte
		switch r.Intn(3) {
		case 0:
			in = key
		case 1:
			in = append([]byte{}, key...)
			if len(in) > 0 {
				in[r.Intn(len(in))] = byte(r.Intn(256))
			}
			if r.Intn(2) == 0 && len(in) > 0 {
				in = in[:r.Intn(len(in))]
			}
		default:
			in = drv.Bytes(r, r.Intn(12))
		}
		res := drv.Recover(func() string {
			out := lib.DecodeLengthPrefixed(in)
			var s []string
			for _, x := range out {
				s = append(s, drv.Hex(x))
			}
			return strings.TrimSpace(fmt.Sprintf("segs %d %s", len(out), strings.Join(s, " ")))
		})
		if len(in) > 0 {
			o.Op("decode "+drv.Hex(in), res)
			if res == "panic" {
				o.Count("decode:panic")
			} else {
				o.Count("decode:ok")
			}
			o.Nontrivial("decode " + drv.Hex(in))
		}
	}
}
