package c19

// (a') The index keys as the indexer USES them: the key builders are proved injective on well-formed component
// tuples (Props/C19 IdxKey.encode_injective), but a caller that hands a builder an absent component (JoinLenPrefix
// drops nil segments without a marker) writes a key that is byte-for-byte another tuple's prefix. This family runs
// the real Indexer: transactions with and without recipient are indexed (IndexBlock, then commit; then after a
// delete/re-index) and EVERY address that could alias a key tail - every real sender and recipient, and every
// 20-byte window of every raw height/index key - is queried through GetTxsByRecipient / GetTxsBySender: the answer
// must be exactly the indexed transactions whose recipient (sender) IS that address.

import (
	"bytes"
	"encoding/binary"
	"fmt"
	"sort"

	"github.com/canopy-network/canopy/lib"
	"github.com/canopy-network/canopy/lib/crypto"
	"github.com/canopy-network/canopy/store"

	"verifharness/drv"
)

type idxTx struct {
	h, i      uint64
	sender    []byte
	recipient []byte // nil: the message kind has no recipient (stake, pause, …)
	hash      []byte
}

func RunIndexUse(o *drv.Out) {
	r := o.Rng
	o.Case("index-use")
	ncases := 6
	if o.Tier == "thorough" {
		ncases = 40
	}
	for ci := 0; ci < ncases; ci++ {
		sI, err := store.NewStoreInMemory(lib.NewNullLogger())
		if err != nil {
			panic(err)
		}
		st := sI.(*store.Store)
		var all []idxTx
		nblocks := 2 + r.Intn(3)
		hs := []uint64{1, 2, 3, 7, 255, 256, 65536, 1 << 32}
		for b := 0; b < nblocks; b++ {
			h := uint64(b + 1)
			var trs []*lib.TxResult
			ntx := 1 + r.Intn(5)
			for i := 0; i < ntx; i++ {
				hash := make([]byte, 32)
				for k := range hash {
					hash[k] = byte(r.Intn(256))
				}
				t := idxTx{h: h, i: uint64(i), sender: append([]byte{}, hash[:20]...), hash: hash}
				switch r.Intn(4) {
				case 0: // no recipient
				case 1: // the recipient is itself shaped like a height/index key of this block (an address anyone may own)
					t.recipient = heightIndexAlias(hs[r.Intn(len(hs))], uint64(r.Intn(4)))
				default:
					t.recipient = append([]byte{}, hash[12:32]...)
				}
				tr := &lib.TxResult{Sender: t.sender, Recipient: t.recipient, MessageType: "send", Height: h, Index: uint64(i),
					Transaction: &lib.Transaction{MessageType: "send", Signature: &lib.Signature{PublicKey: hash, Signature: hash}, CreatedHeight: h, Time: 1, Fee: 1, NetworkId: 1, ChainId: 1},
					TxHash:      lib.BytesToString(hash)}
				trs = append(trs, tr)
				all = append(all, t)
			}
			bh := make([]byte, 32)
			binary.BigEndian.PutUint64(bh, h)
			bh[31] = byte(ci)
			if e := st.IndexBlock(&lib.BlockResult{BlockHeader: &lib.BlockHeader{Height: h, Hash: bh, NetworkId: 1}, Transactions: trs}); e != nil {
				panic(e)
			}
			checkIndexUse(o, st, all, fmt.Sprintf("case %d pending block %d", ci, h))
			if _, e := st.Commit(); e != nil {
				panic(e)
			}
			checkIndexUse(o, st, all, fmt.Sprintf("case %d committed block %d", ci, h))
		}
		// delete the transactions of the last height again (what a re-index / rollback of the index does)
		last := uint64(nblocks)
		if e := st.DeleteTxsForHeight(last); e == nil {
			var kept []idxTx
			for _, t := range all {
				if t.h != last {
					kept = append(kept, t)
				}
			}
			checkIndexUse(o, st, kept, fmt.Sprintf("case %d after DeleteTxsForHeight(%d)", ci, last))
			o.Count("index-use:delete")
		}
		st.Close()
	}
}

// heightIndexAlias: the 20 bytes of JoinLenPrefix(txHeightPrefix, BE(height), BE(index)) - a perfectly legal address
func heightIndexAlias(h, i uint64) []byte {
	out := []byte{1, 2, 8}
	out = binary.BigEndian.AppendUint64(out, h)
	out = append(out, 8)
	out = binary.BigEndian.AppendUint64(out, i)
	return out
}

func checkIndexUse(o *drv.Out, st *store.Store, all []idxTx, where string) {
	probes := map[string]bool{}
	for _, t := range all {
		probes[string(t.sender)] = true
		if t.recipient != nil {
			probes[string(t.recipient)] = true
		}
		probes[string(heightIndexAlias(t.h, t.i))] = true
	}
	var ps []string
	for p := range probes {
		ps = append(ps, p)
	}
	sort.Strings(ps)
	for _, p := range ps {
		addr := crypto.NewAddressFromBytes([]byte(p))
		for _, side := range []string{"recipient", "sender"} {
			var want []string
			for _, t := range all {
				f := t.recipient
				if side == "sender" {
					f = t.sender
				}
				if f != nil && bytes.Equal(f, []byte(p)) {
					want = append(want, drv.Hex(t.hash))
				}
			}
			sort.Strings(want)
			var page *lib.Page
			var e lib.ErrorI
			msg := drv.Recover(func() string {
				if side == "recipient" {
					page, e = st.GetTxsByRecipient(addr, false, lib.PageParams{PageNumber: 1, PerPage: 1000})
				} else {
					page, e = st.GetTxsBySender(addr, false, lib.PageParams{PageNumber: 1, PerPage: 1000})
				}
				return ""
			})
			o.Count("index-use:query")
			if msg != "" {
				o.Fail("C19:handler-panic:index-query", fmt.Sprintf("%s: GetTxsBy%s(%x) panicked: %s", where, side, p, msg), map[string]any{"where": where, "address": drv.Hex([]byte(p)), "side": side})
				continue
			}
			var got []string
			if e == nil && page != nil {
				if trs, ok := page.Results.(*lib.TxResults); ok && trs != nil {
					for _, tr := range *trs {
						hb, _ := lib.StringToBytes(tr.TxHash)
						got = append(got, drv.Hex(hb))
					}
				}
			}
			sort.Strings(got)
			if fmt.Sprint(got) != fmt.Sprint(want) {
				o.Fail("C19:index-key-in-foreign-prefix-range:tx-by-"+side,
					fmt.Sprintf("%s: GetTxsBy%s(%x) returns %d transaction(s) %v; the indexed transactions with that %s are %v", where, side, p, len(got), got, side, want),
					map[string]any{"where": where, "address": drv.Hex([]byte(p)), "side": side, "got": got, "want": want})
			}
			if len(want) > 0 {
				o.Count("index-use:query-nonempty")
			}
		}
	}
}
