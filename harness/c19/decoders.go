package c19

import (
	"fmt"
	"math/rand"
	"runtime/debug"
	"strings"
	"time"

	"github.com/canopy-network/canopy/bft"
	"github.com/canopy-network/canopy/fsm"
	"github.com/canopy-network/canopy/lib"
	"github.com/canopy-network/canopy/lib/codec"
	"github.com/canopy-network/canopy/lib/crypto"
	"github.com/canopy-network/canopy/p2p"

	"verifharness/c06"
	"verifharness/drv"
)

// guarded runs f under a panic trap and a timeout. Result: "ok", "err", "panic:<msg>", "hang".
func guarded(timeout time.Duration, f func() error) string {
	done := make(chan string, 1)
	go func() {
		defer func() {
			if r := recover(); r != nil {
				done <- fmt.Sprintf("panic:%s:%v", panicSite(string(debug.Stack())), r)
			}
		}()
		if err := f(); err != nil {
			if _, isDec := err.(errDecode); isDec {
				done <- "rejected-by-decoder"
			} else {
				done <- "rejected-by-handler"
			}
			return
		}
		done <- "ok"
	}()
	select {
	case r := <-done:
		return r
	case <-time.After(timeout):
		return "hang"
	}
}

// panicSite names the innermost function of the repository on the panicking stack (the mechanism).
func panicSite(stack string) string {
	lines := strings.Split(stack, "\n")
	seenPanic := false
	for _, l := range lines {
		if strings.HasPrefix(l, "panic(") {
			seenPanic = true
			continue
		}
		if seenPanic && strings.HasPrefix(l, "github.com/canopy-network/canopy/") {
			fn := strings.TrimPrefix(l, "github.com/canopy-network/canopy/")
			if i := strings.LastIndex(fn, "("); i > 0 {
				fn = fn[:i]
			}
			return fn
		}
	}
	return "unknown-site"
}

func asErr(e lib.ErrorI) error {
	if e == nil {
		return nil
	}
	return e
}

type decoder struct {
	name string
	run  func(b []byte) error
}

// errDecode marks a failure of the decoder itself (as opposed to the handler behind it)
type errDecode struct{ error }

func dec(e lib.ErrorI) error {
	if e == nil {
		return nil
	}
	return errDecode{e}
}

var preflightMsgs = []string{"invalid protobuf tag at offset", "invalid varint at offset", "truncated fixed32 field", "truncated fixed64 field",
	"invalid length-delimited size at offset", "length-delimited field exceeds max size", "length-delimited field exceeds buffer bounds", "unsupported wire type"}

// preflightVerdict observes lib.preflightProtoBytes through the public API: lib.Unmarshal of a
// critical message fails with one of the scan's own messages exactly when the scan refuses.
func preflightVerdict(b []byte) string {
	err := lib.Unmarshal(b, new(lib.QuorumCertificate))
	if err != nil {
		for _, m := range preflightMsgs {
			if strings.Contains(err.Error(), m) {
				return "err"
			}
		}
	}
	return "ok"
}

// the decoders of untrusted bytes and the stateless handlers right behind them
func decoders(probe *c06.Probe) []decoder {
	return []decoder{
		{"transaction+CheckTx", func(b []byte) error {
			tx := new(lib.Transaction)
			if err := lib.Unmarshal(b, tx); err != nil {
				return dec(err)
			}
			_ = tx.CheckBasic()
			_, _ = tx.GetSignBytes()
			_, _ = tx.GetHash()
			_ = lib.NewFailedTx(b, fmt.Errorf("x"))
			return asErr(probe.CheckTx(b, crypto.HashString(b)))
		}},
		{"block+Check", func(b []byte) error {
			blk := new(lib.Block)
			if err := lib.Unmarshal(b, blk); err != nil {
				return dec(err)
			}
			_, _ = new(lib.Block).BytesToBlockHash(b)
			return asErr(blk.Check(1, 1))
		}},
		{"certificate+CheckBasic", func(b []byte) error {
			qc := new(lib.QuorumCertificate)
			if err := lib.Unmarshal(b, qc); err != nil {
				return dec(err)
			}
			_ = qc.SignBytes()
			_ = qc.EqualPayloads(qc)
			if err := qc.CheckBasic(); err != nil {
				return err
			}
			_, err := qc.CheckProposalBasic(1, 1, 1)
			return asErr(err)
		}},
		{"consensus-message+SignBytes", func(b []byte) error {
			m := new(bft.Message)
			if err := lib.Unmarshal(b, m); err != nil {
				return dec(err)
			}
			_ = m.SignBytes()
			_, _, _ = m.IsProposerMessage(), m.IsReplicaMessage(), m.IsPacemakerMessage()
			if m.Qc != nil {
				_ = m.Qc.CheckBasic()
			}
			if m.HighQc != nil {
				_ = m.HighQc.CheckBasic()
			}
			for _, d := range m.LastDoubleSignEvidence {
				if d != nil && d.VoteA != nil && d.VoteB != nil {
					_ = d.VoteA.SignBytes()
					_ = d.VoteB.SignBytes()
				}
			}
			return nil
		}},
		{"block-message", func(b []byte) error {
			m := new(lib.BlockMessage)
			if err := lib.Unmarshal(b, m); err != nil {
				return dec(err)
			}
			if err := m.BlockAndCertificate.CheckBasic(); err != nil {
				return err
			}
			_, err := m.BlockAndCertificate.CheckProposalBasic(1, 1, 1)
			return asErr(err)
		}},
		{"tx-message", func(b []byte) error {
			m := new(lib.TxMessage)
			if err := lib.Unmarshal(b, m); err != nil {
				return dec(err)
			}
			for _, t := range m.Txs {
				_ = probe.CheckTx(t, crypto.HashString(t))
			}
			return nil
		}},
		{"peer-envelope+FromAny", func(b []byte) error {
			e := new(p2p.Envelope)
			if err := lib.Unmarshal(b, e); err != nil {
				return dec(err)
			}
			_, err := lib.FromAny(e.Payload)
			return asErr(err)
		}},
		{"peer-book-response", func(b []byte) error {
			return dec(lib.Unmarshal(b, new(p2p.PeerBookResponseMessage)))
		}},
		{"public-key", func(b []byte) error {
			pk, err := crypto.NewPublicKeyFromBytes(b)
			if err != nil {
				return errDecode{err}
			}
			_ = pk.Address()
			_ = pk.Bytes()
			_ = pk.VerifyBytes([]byte("m"), b)
			return nil
		}},
		{"raw-proto-field", func(b []byte) error {
			_, err := codec.GetRawProtoField(b, 1+len(b)%5)
			if err != nil {
				return errDecode{err}
			}
			return nil
		}},
		{"rlp-transaction", func(b []byte) error {
			_, e1 := fsm.RLPToCanopyTransaction(b)
			_, e2 := fsm.RLPToCanopyTransactionV2(b)
			if e1 != nil && e2 != nil {
				return errDecode{e1}
			}
			return nil
		}},
		{"any-payload", func(b []byte) error {
			// the payload of a transaction: Any -> registered message -> Check
			tx := new(lib.Transaction)
			if err := lib.Unmarshal(b, tx); err != nil {
				return dec(err)
			}
			if tx.Msg == nil {
				return nil
			}
			m, err := lib.FromAny(tx.Msg)
			if err != nil {
				return err
			}
			if mi, ok := m.(lib.MessageI); ok {
				// as CheckTx does: Recipient() only for a message that passed Check()
				if mi.Check() == nil {
					_ = mi.Recipient()
				}
			}
			return nil
		}},
	}
}

func fill(n int, b byte) []byte {
	out := make([]byte, n)
	for i := range out {
		out[i] = b
	}
	return out
}

// goodBlockAndQC builds a block at height 1 and a certificate for it that pass the stateless checks.
func goodBlockAndQC(r *rand.Rand) ([]byte, *lib.QuorumCertificate) {
	hdr := &lib.BlockHeader{Height: 1, NetworkId: 1, Time: 1 + smallU(r), ProposerAddress: fill(20, 7), StateRoot: fill(32, 1), TransactionRoot: fill(32, 2),
		ValidatorRoot: fill(32, 3), NextValidatorRoot: fill(32, 4), LastBlockHash: fill(32, 5)}
	if _, err := hdr.SetHash(); err != nil {
		panic(err)
	}
	bb := mustMarshal(&lib.Block{BlockHeader: hdr, Transactions: [][]byte{c06.HonestSend("good-block", "")}})
	results := &lib.CertificateResult{RewardRecipients: &lib.RewardRecipients{PaymentPercents: []*lib.PaymentPercents{{Address: fill(20, 9), Percent: 100, ChainId: 1}}}}
	qc := &lib.QuorumCertificate{Header: &lib.View{NetworkId: 1, ChainId: 1, Height: 1, RootHeight: 1, Phase: lib.Phase_PRECOMMIT_VOTE},
		Results: results, ResultsHash: crypto.Hash(mustMarshal(results)), Block: bb, BlockHash: hdr.Hash, ProposerKey: fill(48, 6),
		Signature: &lib.AggregateSignature{Signature: fill(96, 8), Bitmap: []byte{1}}}
	return bb, qc
}

// validInputs builds well-formed encodings of every decoded type (to be mutated).
func validInputs(r *rand.Rand) [][]byte {
	var out [][]byte
	for i := 0; i < 3; i++ {
		bb, qc := goodBlockAndQC(r)
		out = append(out, bb, mustMarshal(qc), mustMarshal(&lib.BlockMessage{ChainId: 1, MaxHeight: 1, BlockAndCertificate: qc}),
			mustMarshal(&bft.Message{Header: &lib.View{NetworkId: 1, ChainId: 1, Height: 1, RootHeight: 1, Phase: lib.Phase_PROPOSE}, Qc: qc, HighQc: qc}),
			mustMarshal(&bft.Message{Qc: &lib.QuorumCertificate{Header: qc.Header, BlockHash: qc.BlockHash, ResultsHash: qc.ResultsHash, ProposerKey: qc.ProposerKey}}))
	}
	for _, memo := range []string{"", "m", "RLP"} {
		out = append(out, c06.HonestSend("decoders", memo))
	}
	for i := 0; i < 6; i++ {
		q := randQC(r, nil)
		out = append(out, mustMarshal(q))
		out = append(out, mustMarshal(randMsg(r)))
		blk := &lib.Block{BlockHeader: &lib.BlockHeader{Height: smallU(r), Hash: hashish(r), NetworkId: 1, Time: smallU(r), LastBlockHash: hashish(r), StateRoot: hashish(r),
			TransactionRoot: hashish(r), ValidatorRoot: hashish(r), NextValidatorRoot: hashish(r), ProposerAddress: fill(20, byte(r.Intn(3))),
			LastQuorumCertificate: randQC(r, votePhases)}, Transactions: [][]byte{c06.HonestSend("blk", "")}}
		bb := mustMarshal(blk)
		out = append(out, bb)
		q2 := randQC(r, votePhases)
		q2.Block = bb
		out = append(out, mustMarshal(&lib.BlockMessage{ChainId: 1, MaxHeight: smallU(r), BlockAndCertificate: q2}))
		out = append(out, mustMarshal(&lib.TxMessage{ChainId: 1, Txs: [][]byte{c06.HonestSend("txm", ""), drv.Bytes(r, r.Intn(8))}}))
	}
	// crafted: length fields near 2^64 and 2^63 inside the byte strings that handlers re-scan by hand
	// (QuorumCertificate.block -> Block.BytesToBlockHash -> codec.GetRawProtoField / NullifyProtoField)
	for _, l := range []uint64{^uint64(0), ^uint64(0) - 1, 1 << 63, 1<<63 - 1, 1 << 62, 1 << 32, 1<<31 - 1} {
		for _, field := range []byte{0x0a, 0x12} {
			evil := append([]byte{field}, encodeVarint(l)...)
			evil = append(evil, 1, 2, 3)
			inner := append([]byte{0x0a, byte(len(evil))}, evil...) // the same, one level down (inside the header)
			for _, blk := range [][]byte{evil, inner} {
				_, qc := goodBlockAndQC(r)
				qc.Results = nil
				qc.Block = blk
				out = append(out, blk, mustMarshal(qc), mustMarshal(&lib.BlockMessage{ChainId: 1, BlockAndCertificate: qc}),
					mustMarshal(&bft.Message{Header: &lib.View{NetworkId: 1, ChainId: 1, Height: 1, Phase: lib.Phase_PROPOSE}, Qc: qc}))
			}
		}
	}
	a, _ := lib.NewAny(&p2p.PeerBookRequestMessage{})
	out = append(out, mustMarshal(&p2p.Envelope{Payload: a}))
	return out
}

func min(a, b int) int {
	if a < b {
		return a
	}
	return b
}

// RunDecoders: (1) the modelled decoders against the model (`dectx`, `preflight` ops); (2) every
// decoder of untrusted bytes, and the stateless handlers behind it, under a panic trap and a timeout.
func RunDecoders(o *drv.Out) {
	r := o.Rng
	probe := c06.NewProbe()
	defer probe.Close()
	n := 2500
	if o.Tier == "thorough" {
		n = 40000
	}
	valid := validInputs(r)
	for _, memo := range []string{"", "m", "RLP"} {
		valid = append(valid, c06.Reencodings(c06.HonestSend("decoders", memo), r)[:40]...)
	}
	valid = append(valid, c06.HonestEthTxs()...)
	valid = append(valid, c06.GroupInputs()...) // protobuf groups, well-formed and malformed (run once each, then mutated)
	decs := decoders(probe)
	o.Case("decoders")
	panics, hangs := 0, 0
	failed := map[string]bool{}
	boundary := boundaryLengths(valid)
	for i := 0; i < n+len(valid)+len(boundary); i++ {
		var b []byte
		kind := ""
		switch {
		case i < len(valid):
			b, kind = valid[i], "valid" // every well-formed input once, unmodified
		case i < len(valid)+len(boundary):
			b, kind = boundary[i-len(valid)], "boundary-length"
		default:
		}
		if kind == "" {
			switch r.Intn(5) {
			case 0:
				b, kind = valid[r.Intn(len(valid))], "valid"
			case 1, 2:
				b, kind = c06.Mutate(r, valid[r.Intn(len(valid))]), "mutated"
			case 3:
				b, kind = c06.RandWire(r, 1+r.Intn(5)), "generated"
			default:
				b, kind = drv.Bytes(r, r.Intn(40)), "random"
			}
		}
		if b == nil {
			b = []byte{}
		}
		// (1) modelled: Transaction decoding (accept / reject / unknown fields) and the pre-flight scan
		// (both run under the same trap as the other decoders: a panic or a hang of the real scan is a
		// finding with this input as replay, not a crash of the driver)
		var res, pre string
		if g := guarded(5*time.Second, func() error { res = c06.DecodeTxReal(b); return nil }); g != "ok" {
			res = modelledTrap(o, failed, "Transaction-decode", g, b, kind, &panics, &hangs)
		}
		if g := guarded(5*time.Second, func() error { pre = preflightVerdict(b); return nil }); g != "ok" {
			pre = modelledTrap(o, failed, "Unmarshal-preflight", g, b, kind, &panics, &hangs)
		}
		o.Op("dectx "+drv.Hex(b), res)
		o.Op("preflight "+drv.Hex(b), pre)
		if hangs > 12 {
			// every hang leaves a spinning goroutine behind: stop here, the findings are recorded
			o.Count("decoders:stopped-after-hangs")
			break
		}
		o.Count("dectx:" + kind + ":" + strings.SplitN(res, " ", 2)[0])
		o.Nontrivial("dec " + drv.Hex(b))
		// (2) every decoder + handler
		for _, d := range decs {
			out := guarded(5*time.Second, func() error { return d.run(b) })
			switch {
			case strings.HasPrefix(out, "panic"):
				panics++
				site := strings.SplitN(out, ":", 3)[1]
				o.Count("decoder-panic:" + d.name + ":" + site)
				// one signature per panic site (the mechanism), first reproducer kept
				if !failed["panic:"+site] {
					failed["panic:"+site] = true
					o.Fail("C19:decoder-panic:"+site, fmt.Sprintf("%s panics in %s on %d bytes (%s): %s", d.name, site, len(b), kind, out),
						map[string]any{"decoder": d.name, "input": drv.Hex(b), "panic": out})
				}
			case out == "hang":
				hangs++
				o.Count("decoder-hang:" + d.name)
				o.Fail("C19:decoder-hang:"+d.name, fmt.Sprintf("%s did not return within 5s on %d bytes (%s)", d.name, len(b), kind), map[string]any{"decoder": d.name, "input": drv.Hex(b)})
			default:
				o.Count("decoder:" + d.name + ":" + out)
			}
		}
	}
	// oversize elements: one length-delimited field just over / at protoMaxFieldBytes (not sent to the
	// model: the input is 32 MB; the model's statement is the theorem oversize_element_rejected)
	for _, extra := range []int{0, 1} {
		l := 32*1024*1024 + extra
		b := append([]byte{0x3a}, encodeVarint(uint64(l))...) // Transaction.memo
		b = append(b, make([]byte, l)...)
		for j := range b[len(b)-l:] {
			b[len(b)-l+j] = 'a'
		}
		err := lib.Unmarshal(b, new(lib.Transaction))
		verdict := "accepted"
		if err != nil {
			verdict = "rejected"
		}
		o.Count(fmt.Sprintf("oversize:memo-%d-bytes:%s", l, verdict))
		if extra == 1 && err == nil {
			o.Fail("C19:oversize-element-accepted", "a length-delimited element of protoMaxFieldBytes+1 bytes was decoded", map[string]any{"length": l})
		}
		if extra == 0 && err != nil && strings.Contains(err.Error(), "exceeds max size") {
			o.Fail("C19:oversize-limit-off-by-one", "an element of exactly protoMaxFieldBytes bytes was refused as oversize", map[string]any{"length": l})
		}
	}
	o.Extra["decoder_panics"] = panics
	o.Extra["decoder_hangs"] = hangs
	o.Extra["decoders_exercised"] = len(decs)
}

// boundaryLengths: length-delimited fields whose declared length sits at the integer boundaries of the
// scanners (int32/int64/uint64 edges, and lengths that make `offset + length` wrap back onto the field
// itself), alone and appended to a well-formed message.
func boundaryLengths(valid [][]byte) [][]byte {
	var out [][]byte
	lens := []uint64{1<<31 - 1, 1 << 31, 1<<32 - 1, 1 << 32, 1<<63 - 1, 1 << 63, 1<<63 + 1, ^uint64(0), ^uint64(0) - 1}
	for k := uint64(2); k <= 24; k++ {
		lens = append(lens, ^uint64(0)-k+1) // 2^64 - k: rewinds the offset by k bytes
	}
	for _, tag := range []byte{0x0a, 0x12, 0x1a, 0x3a} {
		for _, l := range lens {
			f := append([]byte{tag}, encodeVarint(l)...)
			out = append(out, f, append(append([]byte{}, f...), 0x00, 0x01))
			if len(valid) > 0 {
				out = append(out, append(append([]byte{}, valid[0]...), f...))
			}
		}
	}
	return out
}

// modelledTrap records a panic/hang of one of the two modelled decoders and returns the result line
// handed to the comparison (the model never answers "panic"/"hang", so the line disagrees as well).
func modelledTrap(o *drv.Out, failed map[string]bool, name, g string, b []byte, kind string, panics, hangs *int) string {
	if g == "hang" {
		*hangs++
		o.Count("decoder-hang:" + name)
		if !failed["hang:"+name] {
			failed["hang:"+name] = true
			o.Fail("C19:decoder-hang:"+name, fmt.Sprintf("%s did not return within 5s on %d bytes (%s)", name, len(b), kind), map[string]any{"decoder": name, "input": drv.Hex(b)})
		}
		return "hang"
	}
	*panics++
	site := "unknown-site"
	if parts := strings.SplitN(g, ":", 3); len(parts) > 1 {
		site = parts[1]
	}
	o.Count("decoder-panic:" + name + ":" + site)
	if !failed["panic:"+site] {
		failed["panic:"+site] = true
		o.Fail("C19:decoder-panic:"+site, fmt.Sprintf("%s panics in %s on %d bytes (%s): %s", name, site, len(b), kind, g), map[string]any{"decoder": name, "input": drv.Hex(b), "panic": g})
	}
	return "panic"
}

func encodeVarint(v uint64) []byte {
	var b []byte
	for v >= 0x80 {
		b = append(b, byte(v)|0x80)
		v >>= 7
	}
	return append(b, byte(v))
}
