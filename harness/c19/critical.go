package c19

import (
	"bytes"
	"fmt"
	"strings"

	"github.com/canopy-network/canopy/lib"
	"google.golang.org/protobuf/encoding/protowire"
	"google.golang.org/protobuf/proto"
	"google.golang.org/protobuf/reflect/protoreflect"

	"verifharness/c06"
	"verifharness/drv"
)

// Critical messages with repeated message fields (QuorumCertificate / CertificateResult, Block with its
// last certificate): lib.Unmarshal must refuse an unknown field at EVERY nesting position — top level,
// singular sub-message, element of a repeated message field, recursively — and a list longer than
// protoMaxListLen at every list position. Everything here is reflection-driven, so a field added to
// the schemas is populated, walked and attacked automatically.

// populate fills every field of m: scalars non-zero, byte strings non-empty, sub-messages recursively,
// repeated fields with two elements.
func populate(m protoreflect.Message, depth int, seed *int) {
	fields := m.Descriptor().Fields()
	for i := 0; i < fields.Len(); i++ {
		fd := fields.Get(i)
		if fd.ContainingOneof() != nil || fd.IsMap() {
			continue
		}
		*seed++
		scalar := func() (protoreflect.Value, bool) {
			switch fd.Kind() {
			case protoreflect.Uint64Kind, protoreflect.Fixed64Kind:
				return protoreflect.ValueOfUint64(uint64(*seed)), true
			case protoreflect.Uint32Kind, protoreflect.Fixed32Kind:
				return protoreflect.ValueOfUint32(uint32(*seed)), true
			case protoreflect.Int64Kind, protoreflect.Sint64Kind, protoreflect.Sfixed64Kind:
				return protoreflect.ValueOfInt64(int64(*seed)), true
			case protoreflect.Int32Kind, protoreflect.Sint32Kind, protoreflect.Sfixed32Kind:
				return protoreflect.ValueOfInt32(int32(*seed)), true
			case protoreflect.BoolKind:
				return protoreflect.ValueOfBool(true), true
			case protoreflect.EnumKind:
				return protoreflect.ValueOfEnum(1), true
			case protoreflect.StringKind:
				return protoreflect.ValueOfString(fmt.Sprintf("s%d", *seed)), true
			case protoreflect.BytesKind:
				return protoreflect.ValueOfBytes([]byte{byte(*seed), 2, 3}), true
			}
			return protoreflect.Value{}, false
		}
		switch {
		case fd.IsList():
			l := m.Mutable(fd).List()
			for k := 0; k < 2; k++ {
				if fd.Kind() == protoreflect.MessageKind {
					if depth < 6 {
						e := l.NewElement()
						populate(e.Message(), depth+1, seed)
						l.Append(e)
					}
				} else if v, ok := scalar(); ok {
					l.Append(v)
				}
			}
		case fd.Kind() == protoreflect.MessageKind:
			if depth < 6 && string(fd.Message().FullName()) != "types.QuorumCertificate" || depth < 2 {
				populate(m.Mutable(fd).Message(), depth+1, seed)
			}
		default:
			if v, ok := scalar(); ok {
				m.Set(fd, v)
			}
		}
	}
}

type node struct {
	path string
	get  func(root protoreflect.Message) protoreflect.Message
}

type listPos struct {
	path string
	get  func(root protoreflect.Message) protoreflect.Message // the message holding the list
	fd   protoreflect.FieldDescriptor
}

// positions enumerates every message node and every list of the populated tree.
func positions(root protoreflect.Message) (nodes []node, lists []listPos) {
	var walk func(cur protoreflect.Message, path string, get func(r protoreflect.Message) protoreflect.Message)
	walk = func(cur protoreflect.Message, path string, get func(r protoreflect.Message) protoreflect.Message) {
		nodes = append(nodes, node{path, get})
		fields := cur.Descriptor().Fields()
		for i := 0; i < fields.Len(); i++ {
			fd := fields.Get(i)
			if !cur.Has(fd) {
				continue
			}
			p := path + "." + string(fd.Name())
			switch {
			case fd.IsList():
				lists = append(lists, listPos{p, get, fd})
				if fd.Kind() == protoreflect.MessageKind {
					l := cur.Get(fd).List()
					for k := 0; k < l.Len(); k++ {
						k := k
						walk(l.Get(k).Message(), fmt.Sprintf("%s[%d]", p, k), func(r protoreflect.Message) protoreflect.Message {
							return get(r).Mutable(fd).List().Get(k).Message()
						})
					}
				}
			case fd.Kind() == protoreflect.MessageKind:
				walk(cur.Get(fd).Message(), p, func(r protoreflect.Message) protoreflect.Message { return get(r).Mutable(fd).Message() })
			}
		}
	}
	walk(root, string(root.Descriptor().Name()), func(r protoreflect.Message) protoreflect.Message { return r })
	return
}

func critVerdict(typ string, b []byte) string {
	var m proto.Message
	switch typ {
	case "QuorumCertificate":
		m = new(lib.QuorumCertificate)
	case "Block":
		m = new(lib.Block)
	default:
		m = new(lib.Transaction)
	}
	return drv.Recover(func() string {
		err := lib.Unmarshal(b, m)
		switch {
		case err == nil:
			return "ok"
		case strings.Contains(err.Error(), "unknown protobuf fields"), strings.Contains(err.Error(), "exceeds max") && strings.Contains(err.Error(), "protobuf list"):
			return "err walk"
		}
		return "err"
	})
}

// RunCritical: unknown fields and oversize lists at every nesting position of the critical messages.
func RunCritical(o *drv.Out) {
	o.Case("critical-messages")
	failed := map[string]bool{}
	fail := func(sig, desc string, replay any) {
		o.Count("oracle-fail:" + sig)
		if !failed[sig] {
			failed[sig] = true
			o.Fail(sig, desc, replay)
		}
	}
	seed := 0
	qc := new(lib.QuorumCertificate)
	populate(qc.ProtoReflect(), 0, &seed)
	blk := new(lib.Block)
	populate(blk.ProtoReflect(), 0, &seed)
	tx := new(lib.Transaction)
	if err := lib.Unmarshal(c06.HonestSend("critical", "m"), tx); err != nil {
		panic(err)
	}
	type subject struct {
		typ string
		msg proto.Message
	}
	op := func(typ string, b []byte) string {
		res := critVerdict(typ, b)
		o.Op("deccrit "+typ+" "+drv.Hex(b), res)
		return res
	}
	for _, sub := range []subject{{"QuorumCertificate", qc}, {"Block", blk}, {"Transaction", tx}} {
		base := mustMarshal(sub.msg)
		if res := op(sub.typ, base); res != "ok" {
			fail("C19:wellformed-critical-message-refused:"+sub.typ, "a fully populated, well-formed "+sub.typ+" is refused: "+res, map[string]any{"input": drv.Hex(base)})
			continue
		}
		nodes, lists := positions(sub.msg.ProtoReflect())
		o.Hist["critical:"+sub.typ+":message-positions"] = len(nodes)
		o.Hist["critical:"+sub.typ+":list-positions"] = len(lists)
		baseDigest := digestOf(sub.msg)
		for _, nd := range nodes {
			cur := nd.get(proto.Clone(sub.msg).ProtoReflect())
			first := cur.Descriptor().Fields().Get(0)
			wrong := protowire.BytesType
			if first.Kind() == protoreflect.MessageKind || first.Kind() == protoreflect.BytesKind || first.Kind() == protoreflect.StringKind || first.IsList() {
				wrong = protowire.Fixed32Type
			}
			wrongBytes := protowire.AppendTag(nil, first.Number(), wrong)
			if wrong == protowire.BytesType {
				wrongBytes = append(wrongBytes, 1, 0x41)
			} else {
				wrongBytes = append(wrongBytes, 1, 2, 3, 4)
			}
			injections := []struct {
				name string
				raw  []byte
			}{
				{"undeclared-varint-field", append(protowire.AppendTag(nil, 1000, protowire.VarintType), 1)},
				{"undeclared-bytes-field", append(protowire.AppendTag(nil, 999, protowire.BytesType), 2, 0x61, 0x62)},
				{"declared-number-other-wire-type", wrongBytes},
				{"group", protowire.AppendTag(protowire.AppendTag(nil, 998, protowire.StartGroupType), 998, protowire.EndGroupType)},
			}
			for _, inj := range injections {
				c := proto.Clone(sub.msg)
				nd.get(c.ProtoReflect()).SetUnknown(inj.raw)
				b, err := proto.MarshalOptions{Deterministic: true}.Marshal(c)
				if err != nil {
					panic(err)
				}
				res := op(sub.typ, b)
				kind := "nested"
				if nd.path == sub.typ {
					kind = "top"
				} else if strings.Contains(nd.path, "[") {
					kind = "list-element"
				}
				o.Count("critical:" + inj.name + ":" + kind + ":" + strings.ReplaceAll(res, " ", "-"))
				o.Nontrivial("crit|" + nd.path + "|" + inj.name)
				if res == "ok" {
					fail("C19:unknown-field-accepted:"+stripIdx(nd.path), fmt.Sprintf("lib.Unmarshal(%s) accepts an unknown field (%s) at %s", sub.typ, inj.name, nd.path),
						map[string]any{"type": sub.typ, "path": nd.path, "injection": inj.name, "input": drv.Hex(b), "wellformed": drv.Hex(base)})
					// same meaning, different digest?
					var dec proto.Message
					if sub.typ == "QuorumCertificate" {
						dec = new(lib.QuorumCertificate)
					} else if sub.typ == "Block" {
						dec = new(lib.Block)
					} else {
						dec = new(lib.Transaction)
					}
					if lib.Unmarshal(b, dec) == nil && sameMeaning(dec, sub.msg) {
						if d := digestOf(dec); !bytes.Equal(d, baseDigest) {
							fail("C19:same-meaning-different-digest", fmt.Sprintf("two accepted %s byte strings with field-for-field equal content have different digests (results hash / sign bytes / header hash): unknown field at %s", sub.typ, nd.path),
								map[string]any{"type": sub.typ, "path": nd.path, "a": drv.Hex(base), "b": drv.Hex(b), "digest_a": drv.Hex(baseDigest), "digest_b": drv.Hex(d)})
						}
					}
				}
			}
		}
		// lists: protoMaxListLen (accepted) and protoMaxListLen+1 (refused) elements at each list position
		for li, lp := range lists {
			sizes := []int{100001}
			if li == 0 || o.Tier == "thorough" {
				sizes = []int{100000, 100001}
			}
			if o.Tier != "thorough" && li >= 6 && !strings.Contains(lp.path, "[") {
				continue // quick: the first lists and every list inside a list element
			}
			for _, n := range sizes {
				c := proto.Clone(sub.msg)
				l := lp.get(c.ProtoReflect()).Mutable(lp.fd).List()
				l.Truncate(0)
				for k := 0; k < n; k++ {
					if lp.fd.Kind() == protoreflect.MessageKind {
						l.Append(l.NewElement())
					} else if lp.fd.Kind() == protoreflect.BytesKind {
						l.Append(protoreflect.ValueOfBytes([]byte{1}))
					} else {
						l.Append(protoreflect.ValueOfUint64(1))
					}
				}
				b, err := proto.MarshalOptions{Deterministic: true}.Marshal(c)
				if err != nil {
					panic(err)
				}
				res := op(sub.typ, b)
				o.Count(fmt.Sprintf("critical:list-%d:%s", n, strings.ReplaceAll(res, " ", "-")))
				o.Nontrivial(fmt.Sprintf("crit-list|%s|%d", lp.path, n))
				if n > 100000 && res == "ok" {
					fail("C19:oversize-list-accepted:"+stripIdx(lp.path), fmt.Sprintf("lib.Unmarshal(%s) accepts %d elements in %s", sub.typ, n, lp.path), map[string]any{"type": sub.typ, "path": lp.path, "elements": n})
				}
				if n <= 100000 && res != "ok" {
					fail("C19:list-at-limit-refused:"+stripIdx(lp.path), fmt.Sprintf("lib.Unmarshal(%s) refuses %d elements in %s: %s", sub.typ, n, lp.path, res), map[string]any{"type": sub.typ, "path": lp.path, "elements": n})
				}
			}
		}
	}
}

func stripIdx(p string) string {
	for {
		i := strings.Index(p, "[")
		if i < 0 {
			return p
		}
		j := strings.Index(p[i:], "]")
		p = p[:i] + p[i+j+1:]
	}
}

// sameMeaning: field-for-field equality ignoring unknown fields (what accessors and Equals see).
func sameMeaning(a, b proto.Message) bool {
	ca, cb := proto.Clone(a), proto.Clone(b)
	dropUnknown(ca.ProtoReflect())
	dropUnknown(cb.ProtoReflect())
	return proto.Equal(ca, cb)
}

func dropUnknown(m protoreflect.Message) {
	m.SetUnknown(nil)
	m.Range(func(fd protoreflect.FieldDescriptor, v protoreflect.Value) bool {
		switch {
		case fd.IsList() && fd.Kind() == protoreflect.MessageKind:
			for i := 0; i < v.List().Len(); i++ {
				dropUnknown(v.List().Get(i).Message())
			}
		case fd.Kind() == protoreflect.MessageKind && !fd.IsMap() && !fd.IsList():
			dropUnknown(v.Message())
		}
		return true
	})
}

// digestOf: the digests the protocol takes of a critical message.
func digestOf(m proto.Message) []byte {
	switch x := m.(type) {
	case *lib.QuorumCertificate:
		var out []byte
		if x.Results != nil {
			out = append(out, x.Results.Hash()...)
		}
		return append(out, x.SignBytes()...)
	case *lib.Block:
		bz, _ := lib.Marshal(x)
		return bz
	case *lib.Transaction:
		h, _ := x.GetHash()
		return h
	}
	return nil
}
