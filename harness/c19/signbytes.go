package c19

import (
	"bytes"
	"fmt"
	"math/rand"
	"strings"

	"github.com/canopy-network/canopy/bft"
	"github.com/canopy-network/canopy/lib"
	"github.com/canopy-network/canopy/lib/crypto"
	"google.golang.org/protobuf/proto"
	"google.golang.org/protobuf/reflect/protoreflect"

	"verifharness/drv"
)

// ---- text encoding of certificates / messages for the model (see lean/Driver/C19.lean) ------------

func viewTok(v *lib.View) string {
	if v == nil {
		return "-"
	}
	return fmt.Sprintf("%d,%d,%d,%d,%d,%d", v.NetworkId, v.ChainId, v.Height, v.RootHeight, v.Round, uint64(v.Phase))
}

// optTok: nil -> "nil", present -> hex of its canonical bytes ("-" when those are empty)
func optTok(present bool, bz []byte) string {
	if !present {
		return "nil"
	}
	return drv.Hex(bz)
}

func mustMarshal(m any) []byte {
	bz, err := lib.Marshal(m)
	if err != nil {
		panic(err)
	}
	return bz
}

func qcTok(q *lib.QuorumCertificate) string {
	if q == nil {
		return "nil"
	}
	var res, sig []byte
	if q.Results != nil {
		res = mustMarshal(q.Results)
	}
	if q.Signature != nil {
		sig = mustMarshal(q.Signature)
	}
	return strings.Join([]string{viewTok(q.Header), optTok(q.Results != nil, res), drv.Hex(q.ResultsHash), drv.Hex(q.Block),
		drv.Hex(q.BlockHash), drv.Hex(q.ProposerKey), optTok(q.Signature != nil, sig)}, "|")
}

func sigTok(s *lib.Signature) string {
	if s == nil {
		return "nil"
	}
	return drv.Hex(s.PublicKey) + ":" + drv.Hex(s.Signature)
}

func msgTok(m *bft.Message) string {
	var ev []string
	for _, d := range m.LastDoubleSignEvidence {
		if d == nil {
			d = &bft.DoubleSignEvidence{}
		}
		ev = append(ev, qcTok(d.VoteA)+"~"+qcTok(d.VoteB))
	}
	evs := "none"
	if len(ev) > 0 {
		evs = strings.Join(ev, ";")
	}
	var vdf []byte
	if m.Vdf != nil {
		vdf = mustMarshal(m.Vdf)
	}
	return strings.Join([]string{viewTok(m.Header), sigTok(m.Vrf), qcTok(m.Qc), qcTok(m.HighQc), evs,
		optTok(m.Vdf != nil, vdf), sigTok(m.Signature), fmt.Sprint(m.Timestamp), fmt.Sprint(m.RcBuildHeight)}, " ")
}

// ---- generators ---------------------------------------------------------------------------------------

func smallU(r *rand.Rand) uint64 {
	switch r.Intn(6) {
	case 0:
		return 0
	case 1:
		return 1
	case 2:
		return uint64(r.Intn(4))
	case 3:
		return drv.Uint64(r)
	default:
		return uint64(1 + r.Intn(20))
	}
}

func randView(r *rand.Rand, phases []lib.Phase) *lib.View {
	if r.Intn(12) == 0 {
		return nil
	}
	p := lib.Phase(r.Intn(11))
	if len(phases) > 0 && r.Intn(8) != 0 {
		p = phases[r.Intn(len(phases))]
	}
	return &lib.View{NetworkId: smallU(r), ChainId: smallU(r), Height: smallU(r), RootHeight: smallU(r), Round: smallU(r), Phase: p}
}

func hashish(r *rand.Rand) []byte {
	switch r.Intn(6) {
	case 0:
		return nil
	case 1:
		return []byte{byte(r.Intn(3))}
	default:
		b := make([]byte, 32)
		// few distinct values so that equal components are common
		for i := range b {
			b[i] = byte(r.Intn(2))
		}
		b[0] = byte(r.Intn(3))
		return b
	}
}

func randResults(r *rand.Rand) *lib.CertificateResult {
	switch r.Intn(4) {
	case 0:
		return nil
	case 1:
		return &lib.CertificateResult{}
	default:
		return &lib.CertificateResult{
			RewardRecipients: &lib.RewardRecipients{PaymentPercents: []*lib.PaymentPercents{{Address: hashish(r), Percent: smallU(r), ChainId: smallU(r)}}, NumberOfSamples: smallU(r)},
			Retired:          r.Intn(2) == 0,
		}
	}
}

func randAgg(r *rand.Rand) *lib.AggregateSignature {
	switch r.Intn(3) {
	case 0:
		return nil
	default:
		return &lib.AggregateSignature{Signature: hashish(r), Bitmap: []byte{byte(r.Intn(8))}}
	}
}

func randQC(r *rand.Rand, phases []lib.Phase) *lib.QuorumCertificate {
	q := &lib.QuorumCertificate{Header: randView(r, phases), Results: randResults(r), ResultsHash: hashish(r), BlockHash: hashish(r),
		ProposerKey: hashish(r), Signature: randAgg(r)}
	if r.Intn(3) == 0 {
		q.Block = drv.Bytes(r, r.Intn(12))
	}
	return q
}

func randSig(r *rand.Rand) *lib.Signature {
	if r.Intn(3) == 0 {
		return nil
	}
	return &lib.Signature{PublicKey: hashish(r), Signature: hashish(r)}
}

var (
	leaderPhases = []lib.Phase{lib.Phase_ELECTION, lib.Phase_PROPOSE, lib.Phase_PRECOMMIT, lib.Phase_COMMIT}
	votePhases   = []lib.Phase{lib.Phase_ELECTION_VOTE, lib.Phase_PROPOSE_VOTE, lib.Phase_PRECOMMIT_VOTE}
)

func randMsg(r *rand.Rand) *bft.Message {
	m := &bft.Message{}
	switch r.Intn(4) {
	case 0: // leader
		m.Header = randView(r, leaderPhases)
		m.Vrf = randSig(r)
		if r.Intn(4) != 0 {
			m.Qc = randQC(r, votePhases)
		}
		if r.Intn(2) == 0 {
			m.HighQc = randQC(r, votePhases)
		}
		for i := 0; i < r.Intn(3); i++ {
			m.LastDoubleSignEvidence = append(m.LastDoubleSignEvidence, &bft.DoubleSignEvidence{VoteA: randQC(r, votePhases), VoteB: randQC(r, votePhases)})
		}
	case 1: // replica vote
		m.Qc = randQC(r, votePhases)
		if r.Intn(10) == 0 {
			m.Header = randView(r, nil)
		}
	case 2: // pacemaker
		m.Qc = &lib.QuorumCertificate{Header: randView(r, []lib.Phase{lib.Phase_ROUND_INTERRUPT})}
	default: // anything
		m.Header = randView(r, nil)
		if r.Intn(2) == 0 {
			m.Qc = randQC(r, nil)
		}
	}
	if r.Intn(3) == 0 {
		m.Vdf = &crypto.VDF{Proof: hashish(r), Output: hashish(r), Iterations: smallU(r)}
	}
	if r.Intn(2) == 0 {
		m.Signature = randSig(r)
	}
	if r.Intn(2) == 0 {
		m.Timestamp = smallU(r)
	}
	if r.Intn(2) == 0 {
		m.RcBuildHeight = smallU(r)
	}
	return m
}

// ---- the oracle's own notion of meaning (written from the property, not from SignBytes) -----------

func viewMeaning(v *lib.View) string {
	if v == nil {
		return "noview"
	}
	return fmt.Sprintf("net%d/chain%d/h%d/rh%d/r%d/p%d", v.NetworkId, v.ChainId, v.Height, v.RootHeight, v.Round, v.Phase)
}

// a vote (or certificate payload) means: this view, this proposer, and — except while electing — this
// block and these results
func qcMeaning(q *lib.QuorumCertificate) string {
	s := viewMeaning(q.Header) + "|pk=" + drv.Hex(q.ProposerKey)
	if q.Header == nil || q.Header.Phase != lib.Phase_ELECTION_VOTE {
		s += "|bh=" + drv.Hex(q.BlockHash) + "|rh=" + drv.Hex(q.ResultsHash)
	}
	return s
}

func fullQC(q *lib.QuorumCertificate) string {
	if q == nil {
		return "nil"
	}
	return drv.Hex(mustMarshal(q))
}

// msgMeaning: kind and what a receiver acts on that the sender vouches for
func msgMeaning(m *bft.Message) (kind, meaning string) {
	switch {
	case m.IsProposerMessage():
		s := "leader|" + viewMeaning(m.Header) + "|vrf=" + sigTok(m.Vrf) + "|hqc=" + fullQC(m.HighQc)
		if m.Qc != nil {
			s += "|qc=" + qcMeaning(&lib.QuorumCertificate{Header: m.Qc.Header, ProposerKey: m.Qc.ProposerKey, BlockHash: m.Qc.BlockHash, ResultsHash: m.Qc.ResultsHash})
			// in a leader message the certificate's hashes count in every phase
			s += "|bh=" + drv.Hex(m.Qc.BlockHash) + "|rh=" + drv.Hex(m.Qc.ResultsHash)
			if m.Qc.Signature != nil {
				s += "|agg=" + drv.Hex(mustMarshal(m.Qc.Signature))
			}
		} else {
			s += "|noqc"
		}
		for _, d := range m.LastDoubleSignEvidence {
			s += "|ev=" + fullQC(d.VoteA) + "~" + fullQC(d.VoteB)
		}
		return "leader", s
	case m.IsReplicaMessage():
		return "vote", "vote|" + qcMeaning(m.Qc)
	case m.IsPacemakerMessage():
		return "pacemaker", "pacemaker|" + viewMeaning(m.Qc.Header)
	}
	return "none", ""
}

type seen struct {
	meaning string
	op      string
}

// RunSignBytes: correspondence of View / QuorumCertificate / bft.Message marshalling and sign bytes
// with the model, and the oracle "different meaning never shares sign bytes" on the real functions.
// runTxSignBytes: two transactions that differ in exactly one signed-content field (every field of
// lib.Transaction except the signature itself) never share sign bytes; enumerated by reflection over
// the message so a field added later is covered without touching this file. Oracle only: the field
// list of GetSignBytes is tied to the model in C06 (sign_bytes_fields).
func runTxSignBytes(o *drv.Out) {
	r := o.Rng
	a, _ := lib.NewAny(&lib.View{Height: 7})
	a2, _ := lib.NewAny(&lib.View{Height: 8})
	base := func() *lib.Transaction {
		return &lib.Transaction{MessageType: "send", Msg: a, Signature: &lib.Signature{PublicKey: []byte{1}, Signature: []byte{2}},
			CreatedHeight: 5, Time: 11, Fee: 3, Memo: "m", NetworkId: 1, ChainId: 2, Nonce: 9}
	}
	rounds := 8
	if o.Tier == "thorough" {
		rounds = 200
	}
	for k := 0; k < rounds; k++ {
		t0 := base()
		if k > 0 { // randomised bases, incl. zero values (proto3 omits them)
			t0.CreatedHeight, t0.Time, t0.Fee, t0.NetworkId, t0.ChainId, t0.Nonce = smallU(r), smallU(r), smallU(r), smallU(r), smallU(r), smallU(r)
			if r.Intn(2) == 0 {
				t0.Memo = ""
			}
		}
		sb0, e0 := t0.GetSignBytes()
		if e0 != nil {
			continue
		}
		fields := t0.ProtoReflect().Descriptor().Fields()
		for i := 0; i < fields.Len(); i++ {
			fd := fields.Get(i)
			name := string(fd.Name())
			if name == "signature" {
				continue
			}
			t1 := proto.Clone(t0).(*lib.Transaction)
			m := t1.ProtoReflect()
			switch fd.Kind() {
			case protoreflect.Uint64Kind, protoreflect.Uint32Kind:
				m.Set(fd, protoreflect.ValueOfUint64(m.Get(fd).Uint()+1+uint64(r.Intn(3))))
			case protoreflect.StringKind:
				m.Set(fd, protoreflect.ValueOfString(m.Get(fd).String()+"x"))
			case protoreflect.BytesKind:
				m.Set(fd, protoreflect.ValueOfBytes(append(append([]byte{}, m.Get(fd).Bytes()...), 1)))
			case protoreflect.MessageKind:
				if name == "msg" {
					t1.Msg = a2
				} else {
					o.Count("tx-signbytes:unhandled-message-field:" + name)
					continue
				}
			default:
				o.Count("tx-signbytes:unhandled-kind:" + name)
				continue
			}
			sb1, e1 := t1.GetSignBytes()
			o.Count("tx-signbytes:field:" + name)
			if e1 == nil && bytes.Equal(sb0, sb1) {
				o.Fail("C19:signbytes-collision:tx."+name, fmt.Sprintf("two transactions that differ only in %s share sign bytes %s", name, drv.Hex(sb0)),
					map[string]any{"tx1": drv.Hex(mustMarshal(t0)), "tx2": drv.Hex(mustMarshal(t1)), "field": name, "signbytes": drv.Hex(sb0)})
			}
		}
	}
}

func RunSignBytes(o *drv.Out) {
	runTxSignBytes(o)
	r := o.Rng
	n := 3000
	if o.Tier == "thorough" {
		n = 40000
	}
	o.Case("signbytes")
	bySB := map[string]seen{}
	check := func(kind string, sb []byte, meaning, op string) {
		if len(sb) == 0 {
			return
		}
		key := kind[:1] + string(sb) // certificates and messages are signed by different roles: compare within and across below
		if p, ok := bySB[key]; ok {
			if p.meaning != meaning {
				o.Fail("C19:signbytes-collision", fmt.Sprintf("two %ss with different meaning share sign bytes %s", kind, drv.Hex(sb)),
					map[string]any{"op1": p.op, "op2": op, "meaning1": p.meaning, "meaning2": meaning, "signbytes": drv.Hex(sb)})
			}
			o.Count("signbytes:same-bytes-same-meaning")
			return
		}
		bySB[key] = seen{meaning, op}
	}
	crossKind := map[string]seen{} // sign bytes -> kind, across message kinds
	for i := 0; i < n; i++ {
		switch r.Intn(5) {
		case 0:
			v := randView(r, nil)
			if v == nil {
				continue
			}
			op := "view " + viewTok(v)
			o.Op(op, "bytes "+drv.Hex(mustMarshal(v)))
			o.Count("view")
			o.Nontrivial(op)
		case 1, 2:
			// a certificate and a near copy differing in one component
			q := randQC(r, nil)
			qs := []*lib.QuorumCertificate{q, mutateQC(r, q)}
			for _, x := range qs {
				op := "qcsb " + qcTok(x)
				sb := drv.Recover(func() string { return "bytes " + drv.Hex(x.SignBytes()) })
				o.Op(op, sb)
				o.Op("qc "+qcTok(x), "bytes "+drv.Hex(mustMarshal(x)))
				o.Count("qc")
				o.Nontrivial(op)
				check("certificate", x.SignBytes(), qcMeaning(x), op)
			}
		default:
			m := randMsg(r)
			ms := []*bft.Message{m, mutateMsg(r, m)}
			for _, x := range ms {
				op := "msgsb " + msgTok(x)
				var sbz []byte
				res := drv.Recover(func() string { sbz = x.SignBytes(); return "bytes " + drv.Hex(sbz) })
				o.Op(op, res)
				kind, meaning := msgMeaning(x)
				o.Count("msg:" + kind)
				o.Nontrivial(op)
				if kind == "none" || len(sbz) == 0 {
					continue
				}
				check("message-"+kind, sbz, meaning, op)
				if p, ok := crossKind[string(sbz)]; ok && p.meaning != kind {
					o.Fail("C19:signbytes-collision", fmt.Sprintf("a %s message and a %s message share sign bytes %s", p.meaning, kind, drv.Hex(sbz)),
						map[string]any{"op1": p.op, "op2": op})
				} else if !ok {
					crossKind[string(sbz)] = seen{kind, op}
				}
			}
		}
	}
	// crafted cross-type attempts: a certificate shaped like a leader message
	mimic, forged := 0, 0
	for i := 0; i < n/10; i++ {
		v := randView(r, leaderPhases)
		if v == nil {
			continue
		}
		inner := randQC(r, votePhases)
		m := &bft.Message{Header: v, Qc: inner}
		msb := m.SignBytes()
		// what the leader case marshals under field 3
		proj := &lib.QuorumCertificate{Header: inner.Header, BlockHash: inner.BlockHash, ResultsHash: inner.ResultsHash, ProposerKey: inner.ProposerKey, Signature: inner.Signature}
		for _, ph := range []lib.Phase{v.Phase, votePhases[r.Intn(len(votePhases))]} {
			q := &lib.QuorumCertificate{Header: &lib.View{NetworkId: v.NetworkId, ChainId: v.ChainId, Height: v.Height, RootHeight: v.RootHeight, Round: v.Round, Phase: ph},
				ResultsHash: mustMarshal(proj)}
			op := "qcsb " + qcTok(q)
			o.Op(op, "bytes "+drv.Hex(q.SignBytes()))
			o.Op("msgsb "+msgTok(m), "bytes "+drv.Hex(msb))
			mimic++
			if bytes.Equal(q.SignBytes(), msb) && len(msb) > 0 {
				if ph != v.Phase {
					o.Fail("C19:signbytes-collision", "a certificate in a vote phase shares sign bytes with a leader message",
						map[string]any{"op1": op, "op2": "msgsb " + msgTok(m)})
				} else {
					forged++ // same bytes only because the certificate carries a LEADER phase: not a vote
				}
			}
		}
	}
	o.Hist["signbytes:mimic-attempts"] = mimic
	o.Hist["signbytes:mimic-equal-only-with-forged-leader-phase"] = forged
	o.Hist["signbytes:distinct-signbytes"] = len(bySB)
}

func mutateQC(r *rand.Rand, q *lib.QuorumCertificate) *lib.QuorumCertificate {
	c := &lib.QuorumCertificate{Header: q.Header, Results: q.Results, ResultsHash: q.ResultsHash, Block: q.Block, BlockHash: q.BlockHash, ProposerKey: q.ProposerKey, Signature: q.Signature}
	switch r.Intn(8) {
	case 0:
		if c.Header != nil {
			o := c.Header
			h := &lib.View{NetworkId: o.NetworkId, ChainId: o.ChainId, Height: o.Height, RootHeight: o.RootHeight, Round: o.Round, Phase: o.Phase}
			switch r.Intn(6) {
			case 0:
				h.NetworkId++
			case 1:
				h.ChainId++
			case 2:
				h.Height++
			case 3:
				h.RootHeight++
			case 4:
				h.Round++
			default:
				h.Phase = lib.Phase((uint64(h.Phase) + 1) % 11)
			}
			c.Header = h
		}
	case 1:
		c.ResultsHash = hashish(r)
	case 2:
		c.BlockHash = hashish(r)
	case 3:
		c.ProposerKey = hashish(r)
	case 4:
		c.Results = randResults(r)
	case 5:
		c.Block = drv.Bytes(r, r.Intn(6))
	case 6:
		c.Signature = randAgg(r)
	case 7:
		// swap the two hashes
		c.ResultsHash, c.BlockHash = c.BlockHash, c.ResultsHash
	}
	return c
}

func mutateMsg(r *rand.Rand, m *bft.Message) *bft.Message {
	c := &bft.Message{Header: m.Header, Vrf: m.Vrf, Qc: m.Qc, HighQc: m.HighQc, LastDoubleSignEvidence: m.LastDoubleSignEvidence,
		Vdf: m.Vdf, Signature: m.Signature, Timestamp: m.Timestamp, RcBuildHeight: m.RcBuildHeight}
	switch r.Intn(9) {
	case 0:
		c.Header = randView(r, leaderPhases)
	case 1:
		c.Vrf = randSig(r)
	case 2:
		if c.Qc != nil {
			c.Qc = mutateQC(r, c.Qc)
		}
	case 3:
		if c.HighQc != nil {
			c.HighQc = mutateQC(r, c.HighQc)
		} else {
			c.HighQc = randQC(r, votePhases)
		}
	case 4:
		c.LastDoubleSignEvidence = append([]*bft.DoubleSignEvidence{{VoteA: randQC(r, votePhases), VoteB: randQC(r, votePhases)}}, c.LastDoubleSignEvidence...)
	case 5:
		c.Timestamp++
	case 6:
		c.RcBuildHeight++
	case 7:
		c.Signature = randSig(r)
	case 8:
		// move the certificate to the high-QC slot and vice versa
		c.Qc, c.HighQc = c.HighQc, c.Qc
	}
	return c
}
