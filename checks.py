"""Per-property configuration of ./check (what to build, what is trusted, how cases are counted)."""

AXIOMS = "Lean 4.33.0 kernel; axioms allowed in any property theorem: propext, Classical.choice, Quot.sound (audited on every run with collectAxioms; no native_decide, no bv_decide, no sorry)"
TRANSLATOR = "harness/gotolean + harness/cmd/facts (Go source -> Lean defs in lean/Canopy/Gen, regenerated on every run; cross-checked by the correspondence run)"
CORR = "correspondence harness (harness/cmd/drive runs the real code built with -tags verif; lean/Driver runs the model on the same op lines; outputs compared line by line)"

PROPS = {
    "C19": dict(
        lean_modules=["Canopy.Props.C19"],
        driver=True,
        level="proof",
        trusted_base=[AXIOMS, TRANSLATOR, CORR,
                      "hash functions are not modelled in the key theorems (keys are compared as byte strings)"],
        assumptions=["caller-supplied key components are non-nil and at most 255 bytes (explicit hypothesis WF; witness join_collides_at_256 shows it is necessary)",
                     "KeyForParams is outside the translator's subset (string -> param-space prefix) and is covered by the correspondence run only"],
        rule="cases: every generated key builder (fsm/key.go, store/indexer.go) called on boundary-heavy uint64/byte arguments incl. components > 255 bytes; JoinLenPrefix with nil/empty/long segments; DecodeLengthPrefixed on valid, mutated and random bytes. distinct_nontrivial = distinct op lines with at least one component (keys) or a non-empty input (decode), hash-counted.",
        technique="Lean 4 proof over generated key builders + differential correspondence",
        level_text="Machine-checked theorems (injectivity, prefix-range exactness) about the Lean definitions regenerated from fsm/key.go and store/indexer.go on every run; the generated definitions and the hand model of JoinLenPrefix/DecodeLengthPrefixed are additionally run against the real functions on thousands of boundary-heavy inputs.",
        level_note="Trusts Lean's kernel, the ~500-line translator (cross-checked by the differential run), and the hypothesis that key components are non-nil and <= 255 bytes (shown necessary by a witness). Sign-bytes and decoder clauses: see evidence.",
        explanation="(a) store keys: generated builders + proofs of injectivity/prefix-range; (b) sign bytes and (c) decoding are added by later stages and listed in `theorems` when present.",
    ),
}

HOOK_COMMITS = ["8f1db09"]

_PENDING = "no check registered in this commit yet (machinery under construction; see DESIGN.md §12)"
NOT_APPLICABLE = {p: _PENDING for p in
                  ["C01", "C02", "C03", "C04", "C05", "C06", "C07", "C08", "C09", "C10", "C11", "C12", "C13",
                   "C14", "C15", "C16", "C17", "C18", "C20"]}
