#!/bin/sh
# tools/mutcheck.sh <repo-worktree> <Cxx> [tier]
# Runs ./check <Cxx> against a scratch copy of the repository (e.g. one with a seeded breaking change applied)
# from an isolated copy of /verif, so that neither /repo nor the shared Gen/ and build outputs are disturbed.
set -e
WT="$1"; PROP="$2"; TIER="${3:-quick}"
SRC="$(cd "$(dirname "$0")/.." && pwd)"
DST="/tmp/verif-mut-$$"
rsync -a --exclude .work --exclude replays --exclude harness/bin --exclude .git "$SRC/" "$DST/" || [ $? -eq 24 ]  # 24 = files vanished while copying (concurrent builds)
sed -i "s#=> /repo#=> $WT#" "$DST/harness/go.mod"
cd "$DST"
set +e
VERIF_REPO="$WT" ./check "$PROP" --tier "$TIER"
RC=$?
if ls replays/*.json >/dev/null 2>&1; then
  echo "--- replay files:"; for f in replays/*.json; do echo "$f"; head -c 1500 "$f"; echo; done
fi
cd /; rm -rf "$DST"
exit $RC
