#!/usr/bin/env python3
"""tools/finalize_seed.py <pending-dir-name> <final-name> <demo pkg+regex> <detected_by text>
Moves seeded/<pending> to seeded/<final>, records confirmed_by/detected_by in meta.json, removes the scratch worktree."""
import json, os, shutil, subprocess, sys
pend, final, demo, det = sys.argv[1:5]
os.chdir('/verif/seeded')
if os.path.exists(final): shutil.rmtree(final)
shutil.move(pend, final)
m = json.load(open(f'{final}/meta.json'))
prop = m.get('property', final[:3])
rnd = ('seed' + pend[7]) if pend.startswith('pending') and pend[7].isdigit() else 'seed2'
m['confirmed_by'] = f'tools/confirm_seed.sh /tmp/{rnd}-{prop} {demo} : build ok, demo fails with the change, passes without, existing tests of the touched packages pass with it'
m['detected_by'] = det
json.dump(m, open(f'{final}/meta.json', 'w'), indent=1)
wt = f'/tmp/{rnd}-{prop}'
if os.path.isdir(wt):
    subprocess.run(['git', '-C', '/repo', 'worktree', 'remove', '--force', wt])
print('kept', final)
