#!/bin/sh
# tools/seedcheck.sh <seed-id> <Cxx> [tier]: apply seeded/<id>/patch.diff on a fresh worktree of /repo's HEAD
# (outside /repo and /verif), run ./check <Cxx> against it from an isolated copy of /verif, remove the worktree.
ID="$1"; PROP="$2"; TIER="${3:-quick}"
SRC="$(cd "$(dirname "$0")/.." && pwd)"
WT="/tmp/seedwt-$ID-$$"
git -C /repo worktree add -q --detach "$WT" HEAD || exit 2
if ! git -C "$WT" apply "$SRC/seeded/$ID/patch.diff" 2>/dev/null && ! git -C "$WT" apply -3 "$SRC/seeded/$ID/patch.diff"; then
  echo "SEEDCHECK: patch of $ID no longer applies to HEAD"; git -C /repo worktree remove --force "$WT"; exit 3
fi
"$SRC/tools/mutcheck.sh" "$WT" "$PROP" "$TIER"
RC=$?
git -C /repo worktree remove --force "$WT"
echo "SEEDCHECK $ID $PROP: exit $RC (1 = detected)"
exit $RC
