#!/bin/sh
# tools/confirm_seed.sh <worktree> <pkg of demo, e.g. ./fsm/> <demo test regex> [packages to test...]
# Confirms a seeded change: builds, demo FAILS with the change, demo PASSES without it, existing tests pass with it.
WT="$1"; PKG="$2"; RX="$3"; shift 3
PKGS="${*:-./bft/ ./controller/ ./fsm/ ./lib/... ./store/}"
cd "$WT" || exit 2
DEMO=$(git status --short | grep '^??' | grep '_test.go' | awk '{print $2}')
echo "demo files: $DEMO"
go build ./bft/ ./controller/ ./fsm/ ./lib/... ./p2p/ ./store/ || { echo "CONFIRM: build FAILED"; exit 1; }
if go test -count=1 -run "$RX" $PKG >/tmp/confirm_with.$$ 2>&1; then echo "CONFIRM: demo PASSES with the change (bad)"; R1=bad; else echo "CONFIRM: demo fails with the change (good)"; R1=ok; fi
git diff > /tmp/confirm_patch.$$ && git checkout -- .
if go test -count=1 -run "$RX" $PKG >/tmp/confirm_without.$$ 2>&1; then echo "CONFIRM: demo passes without the change (good)"; R2=ok; else echo "CONFIRM: demo FAILS without the change (bad)"; tail -5 /tmp/confirm_without.$$; R2=bad; fi
git apply /tmp/confirm_patch.$$
mkdir -p /tmp/demo_aside.$$; for f in $DEMO; do mv "$f" /tmp/demo_aside.$$/; done
if go test -count=1 $PKGS >/tmp/confirm_suite.$$ 2>&1; then echo "CONFIRM: existing tests pass with the change (good)"; R3=ok; else echo "CONFIRM: existing tests FAIL with the change:"; grep -E "^(--- FAIL|FAIL)" /tmp/confirm_suite.$$ | head; R3=bad; fi
for f in $DEMO; do mv /tmp/demo_aside.$$/$(basename $f) "$f"; done
rm -rf /tmp/demo_aside.$$ /tmp/confirm_*.$$
[ "$R1$R2$R3" = "okokok" ] && echo "CONFIRMED" || echo "NOT CONFIRMED"
