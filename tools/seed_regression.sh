#!/bin/sh
# tools/seed_regression.sh [parallelism] : run every kept seed (seeded/Cxx-*) through tools/seedcheck.sh at the quick
# tier and summarise: detected with a concrete input / detected only as no-failing-input-found / MISSED.
P="${1:-3}"
cd "$(dirname "$0")/.."
OUT=/tmp/seedreg-$$; mkdir -p $OUT
ls seeded | grep -E '^C[0-9][0-9]-' | xargs -P "$P" -I{} sh -c '
  id={}; prop=$(echo $id | cut -c1-3)
  ./tools/seedcheck.sh $id $prop quick > '$OUT'/$id.log 2>&1
  rc=$?
  if [ $rc -eq 1 ]; then
    if grep -q "^VIOLATION.*no-failing-input-found" '$OUT'/$id.log; then echo "$id OBLIGATION-ONLY"; else echo "$id DETECTED $(grep -m1 -o "\"signature\": \"[^\"]*\"" '$OUT'/$id.log)"; fi
  elif [ $rc -eq 0 ]; then echo "$id MISSED"; else echo "$id ERROR rc=$rc"; fi'
rm -rf $OUT
