#!/bin/sh
# tools/runall.sh [tier]: run every claimed check on /repo, print one summary line per property
TIER="${1:-quick}"
cd "$(dirname "$0")/.."
for f in checks/C*.py; do
  P=$(basename $f .py)
  START=$(date +%s)
  ./check $P --tier $TIER > .work/runall-$P.log 2>&1
  RC=$?
  END=$(date +%s)
  echo "$P rc=$RC $((END-START))s $(grep -E 'VIOLATION|KNOWN-FINDING' .work/runall-$P.log | head -3 | tr '\n' ' ') | $(tail -1 .work/runall-$P.log)"
done
