#!/bin/sh
# tools/keep_seed.sh <worktree> <seed-id> : copy a confirmed seeded change into /verif/seeded/<id>/ and drop the worktree
set -e
WT="$1"; ID="$2"
mkdir -p /verif/seeded/$ID
cp "$WT/SEED/patch.diff" "$WT/SEED/meta.json" /verif/seeded/$ID/
cp "$WT/SEED/demo_test.go.txt" /verif/seeded/$ID/ 2>/dev/null || true
git -C /repo worktree remove --force "$WT"
echo kept $ID
