#!/bin/sh
# MANIFEST.setup_cmd: build the framework from files on disk only (offline).
set -e
cd "$(dirname "$0")"
export GOFLAGS=-mod=mod GOPROXY=off
mkdir -p harness/bin
cp /repo/go.sum harness/go.sum
(cd harness && go build -o bin/facts ./cmd/facts && for d in cmd/c[0-9]*/; do n=$(basename $d); [ -f ../checks/$(echo $n | tr c C).py ] && go build -tags verif -o bin/$n ./cmd/$n; done; true)
rm -f lean/Canopy/Gen/*.lean
./harness/bin/facts -repo /repo -out "$(pwd)/lean/Canopy/Gen"
# build the Lean modules and drivers of every claimed property (checks/Cxx.py)
TARGETS=$(python3 -c "
import sys; sys.path.insert(0, '.')
from checks import PROPS
t = []
for p, c in sorted(PROPS.items()):
    t += c['lean_modules']
    if c.get('driver'): t.append('driver_' + p)
print(' '.join(dict.fromkeys(t)))")
(cd lean && lake build $TARGETS)
echo "setup ok"
