#!/bin/sh
# MANIFEST.setup_cmd: build the framework from files on disk only (offline).
set -e
cd "$(dirname "$0")"
export GOFLAGS=-mod=mod GOPROXY=off
mkdir -p harness/bin
cp /repo/go.sum harness/go.sum
(cd harness && go build -o bin/facts ./cmd/facts && go build -tags verif -o bin/drive ./cmd/drive)
rm -f lean/Canopy/Gen/*.lean
./harness/bin/facts -repo /repo -out "$(pwd)/lean/Canopy/Gen"
(cd lean && lake build Canopy driver)
echo "setup ok"
