import Canopy.Model.BftExec
import Canopy.Model.BftLive
/-!
The C15 driver state: the C01 world (history + per-replica handlers, same op lines) plus the liveness ops:

* `wait <phase> <round> <sleepMS>`            → `Gen.Bft.waitTime` (ms)
* `msleft <phase> <round> <t1> .. <t7>`       → `Gen.Bft.msLeftInRound` over `waitTime` of the seven configured timeouts
* `pm <r> <round> <v:claimedRound,...|->`     → the round `Pacemaker()` moves replica `r` to (`pacemakerStep` with the
                                                 generated threshold test)
* `good-begin <root.round> <leader> <H csv>`  → the locks of the correct replicas at the start of a round that the
                                                 simulator's ground truth calls good; the model remembers them
* `good-end <root.round> <extra certs|->`     → what `leaderProposal` predicts for that round (block of the highest
                                                 reported lock + its view, or a fresh block) and that it commits
Core Lean only.
-/
namespace Canopy.Bft

structure Snap where
  view : View
  leader : Nat
  H : List Nat
  hist : List Ev
  locks : List (View × Nat)

structure LWorld where
  w : World := {}
  snap : Option Snap := none

def LWorld.init : LWorld := {}

def parseClaims (s : String) : Option (List (Nat × Nat)) :=
  if s == "-" then some [] else
  (s.splitOn ",").mapM fun c =>
    match c.splitOn ":" with
    | [a, b] => do some (← parseNat a, ← parseNat b)
    | _ => none

/-- `<root>.<round>/<bh>.<rh>` -/
def parseLockCert (s : String) : Option (View × Nat) :=
  match s.splitOn "/" with
  | [v, b] => do some (← parseView v, ← parseBlk b)
  | _ => none

def parseLockCerts (s : String) : Option (List (View × Nat)) :=
  if s == "-" then some [] else (s.splitOn ",").mapM parseLockCert

def showLocks (w : World) (H : List Nat) : String :=
  String.intercalate ";" (H.map fun r =>
    toString r ++ ":" ++ (match (w.reps[r]?).bind (·.lock) with
      | none => "-"
      | some (v, _, b) => showView v ++ "/" ++ showBlk b))

def LWorld.step (lw : LWorld) (ws : List String) : LWorld × String :=
  match ws with
  | ["wait", _phase, round, sleep] =>
    match parseNat round, parseNat sleep with
    | some r, some s => (lw, toString (Gen.Bft.waitTime s r))
    | _, _ => (lw, "bad-op")
  | ["msleft", phase, round, t1, t2, t3, t4, t5, t6, t7] =>
    match parseNat phase, parseNat round, [t1, t2, t3, t4, t5, t6, t7].mapM parseNat with
    | some p, some r, some [a, b, c, d, e, f, g] =>
      let t : Timeouts := { election := a, electionVote := b, propose := c, proposeVote := d, precommit := e, precommitVote := f, commit := g }
      (lw, toString (Gen.Bft.msLeftInRound p (t.wait r)))
    | _, _, _ => (lw, "bad-op")
  | ["pm", r, round, claims] =>
    match parseNat r, parseNat round, parseClaims claims with
    | some r, some rd, some cl =>
      if r ≥ lw.w.n then (lw, "bad-op") else
      let pw := fun i => lw.w.pw.getD i 0
      (lw, toString (pacemakerStep pw (genReached lw.w.cfg.total) cl rd))
    | _, _, _ => (lw, "bad-op")
  | ["good-begin", v, leader, hs] =>
    match parseView v, parseNat leader, parseList hs with
    | some v, some l, some H =>
      if H.any (· ≥ lw.w.n) || l ≥ lw.w.n then (lw, "bad-op") else
      let locks := H.filterMap fun r => Cfg.lock lw.w.hist r
      -- the per-replica state and the history must agree on the locks
      let agree := H.all fun r => lw.w.lockAgrees r
      ({ lw with snap := some { view := v, leader := l, H := H, hist := lw.w.hist, locks := locks } },
        (if agree then "ok " else "lock-mismatch ") ++ showLocks lw.w H)
    | _, _, _ => (lw, "bad-op")
  | ["good-end", v, extras] =>
    match parseView v, parseLockCerts extras, lw.snap with
    | some v, some ex, some sn =>
      if sn.view != v then (lw, "bad-op") else
      let c := lw.w.cfg
      -- certificates a Byzantine validator handed the leader count only if they are real
      let real := ex.filter fun x => decide (c.proposeQC sn.hist x.1 x.2)
      let p := leaderProposal c (sn.locks ++ real) 0
      let res := match p.2 with
        | some y => "commit blk=" ++ showBlk p.1 ++ " hq=" ++ showView y
        | none => "commit blk=fresh hq=-"
      ({ lw with snap := none }, res)
    | _, _, _ => (lw, "bad-op")
  | _ =>
    match parseOp ws with
    | some op => let (w', r) := lw.w.apply op; ({ lw with w := w' }, r)
    | none => (lw, "bad-op")

end Canopy.Bft
