import Canopy.Gen.Transport
import Canopy.Model.Bytes
/-!
M-handshake (C17): `p2p.NewHandshake` as a symbolic (Dolev-Yao) term model. Core Lean only.

Terms are a free algebra; the cryptographic assumptions are exactly the shape of the algebra and of
the attacker's deduction rules (`DY` below), nothing else:

* X25519 is symbolic Diffie-Hellman: the only way to the shared secret of scalars `a`,`b` is to know
  one scalar and the other public key (`dh a b`, normalised so that `dh a b = dh b a`); every group
  element on the wire is the public key of some scalar (typed model; low-order points excluded).
* HKDF is an injective one-way function of the secret: `kdf 0`, `kdf 1` (the two AEAD keys),
  `kdf 2` (the challenge). It takes the DH secret ONLY (`src_hkdfCall`): both ends sign the SAME
  challenge, nothing in it says who signs or in which role.
* signatures are unforgeable (`sig sk m` needs `sk`), the AEAD is ideal (`enc k n m` opens only
  with `k`, at message number `n`).

`Party.finish` is the acceptance logic of `NewHandshake`, statement by statement.
-/
namespace Canopy.Handshake

inductive Term
  /-- a private scalar: ephemeral or identity private key, honest or the attacker's own -/
  | atom (n : Nat)
  | pk (t : Term)
  /-- X25519 shared secret of the scalars `a ≤ b` -/
  | dh (a b : Nat)
  | kdf (i : Nat) (s : Term)
  | sig (sk m : Term)
  | enc (k : Term) (n : Nat) (m : Term)
  | pair (a b : Term)
  /-- the sign-bytes of a `PeerMeta` -/
  | pmeta (net chain : Nat)
  deriving DecidableEq, Repr

open Term

def mkDh (a b : Nat) : Term := dh (min a b) (max a b)

def chal (s : Term) : Term := kdf 2 s

/-- one run of `NewHandshake` by a protocol-following node -/
structure Party where
  id : Nat      -- identity private key
  eph : Nat     -- ephemeral private key of this run (`tempPrivateKey`)
  net : Nat
  chain : Nat
  deriving DecidableEq, Repr

inductive HsErr
  | dh            -- ErrFailedDiffieHellman (not a group element)
  | sigSwap       -- ErrFailedSignatureSwap (frame does not open / does not parse)
  | invalidPub    -- ErrInvalidPublicKey
  | ownKey        -- refusal of our own identity key (present iff `Gen.Transport.rejectsOwnKey`)
  | challenge     -- ErrFailedChallenge
  | metaSwap      -- ErrFailedMetaSwap
  | incompatible  -- ErrIncompatiblePeer
  deriving DecidableEq, Repr

/-- `HKDFSecretsAndChallenge`: `if bytes.Compare(ePub, ePeerPub) < 0 { first = receive, second = send }
else { first = send, second = receive }` (the byte order of public keys is the order of the atoms) -/
def sendKey (own peer : Nat) : Term := if own < peer then kdf 1 (mkDh own peer) else kdf 0 (mkDh own peer)
def recvKey (own peer : Nat) : Term := if own < peer then kdf 0 (mkDh own peer) else kdf 1 (mkDh own peer)

/-- first message, in clear: the ephemeral public key -/
def Party.msg1 (p : Party) : Term := pk (atom p.eph)

/-- second message, first frame of the channel: `Signature{PublicKey, Sign(challenge)}` -/
def Party.msg2 (p : Party) (peer : Nat) : Term :=
  enc (sendKey p.eph peer) 0 (pair (pk (atom p.id)) (sig (atom p.id) (chal (mkDh p.eph peer))))

/-- third message, second frame: the signed `PeerMeta` -/
def Party.msg3 (p : Party) (peer : Nat) : Term :=
  enc (sendKey p.eph peer) 1 (pair (pmeta p.net p.chain) (sig (atom p.id) (pmeta p.net p.chain)))

def openEnc (k : Term) (n : Nat) : Term → Option Term
  | enc k' n' m => if k' = k ∧ n' = n then some m else none
  | _ => none

/-- the acceptance logic of `NewHandshake` after the key swap delivered `peerEph`, on the two frames
received inside the channel. Returns the authenticated identity public key. `rejectOwn` = the code
refuses a peer that presents our own identity key. -/
def Party.finish (rejectOwn : Bool) (p : Party) (peerEph f1 f2 : Term) : Except HsErr Term :=
  match peerEph with
  | pk (atom x) =>
    match openEnc (recvKey p.eph x) 0 f1 with
    | some (pair (pk (atom j)) s) =>
      if rejectOwn ∧ j = p.id then .error .ownKey
      else if s ≠ sig (atom j) (chal (mkDh p.eph x)) then .error .challenge
      else match openEnc (recvKey p.eph x) 1 f2 with
        | some (pair (pmeta n c) ms) =>
          if ms ≠ sig (atom j) (pmeta n c) then .error .challenge
          else if n ≠ p.net then .error .incompatible
          else if c ≠ p.chain then .error .incompatible
          else .ok (pk (atom j))
        | _ => .error .metaSwap
    | some (pair _ _) => .error .invalidPub
    | _ => .error .sigSwap
  | _ => .error .dh

/-! ### the Dolev-Yao world: honest runs, attacker knowledge -/

/-- one honest run: the node and the ephemeral scalar whose public key it received in the key swap
(typed model: every group element on the wire is `pk (atom x)` for some scalar `x`) -/
structure Session where
  party : Party
  peer : Nat
  deriving DecidableEq, Repr

/-- The world an attacker operates in. The two proof fields ARE the Dolev-Yao freshness/secrecy
assumptions, carried as hypotheses. -/
structure World where
  /-- every honest run that ever takes place (any number, any inputs the attacker chose for them) -/
  sessions : List Session
  /-- the private scalars the attacker does NOT know initially (uncompromised identity keys, honest ephemeral keys) -/
  sec : Nat → Prop
  /-- the ephemeral private key of an honest run is not known to the attacker -/
  ephSecret : ∀ s ∈ sessions, sec s.party.eph
  /-- ephemeral keys are fresh: two runs with the same ephemeral key are the same run -/
  ephFresh : ∀ s ∈ sessions, ∀ s' ∈ sessions, s.party.eph = s'.party.eph → s = s'

/-- everything honest runs ever send inside their channels (sent unconditionally here: an
over-approximation of the real code, which sends message 3 only after verifying message 2) -/
def World.outputs (W : World) (t : Term) : Prop :=
  ∃ s ∈ W.sessions, t = s.party.msg2 s.peer ∨ t = s.party.msg3 s.peer

/-- what a Dolev-Yao attacker can derive -/
inductive DY (W : World) : Term → Prop
  /-- it sees everything honest runs send -/
  | out {t} : W.outputs t → DY W t
  /-- it knows every scalar that is not secret (its own, compromised ones) -/
  | atom {n} : ¬ W.sec n → DY W (atom n)
  /-- every public key is public (identity keys are published, ephemeral keys travel in clear) -/
  | pub (n) : DY W (pk (atom n))
  | pk {t} : DY W t → DY W (pk t)
  /-- X25519: with ONE of the two scalars (and the other public key, always known) the shared secret -/
  | dh {a} (b) : DY W (atom a) → DY W (mkDh a b)
  | kdf {s} (i) : DY W s → DY W (kdf i s)
  | sig {sk m} : DY W sk → DY W m → DY W (sig sk m)
  /-- signatures do not hide the message -/
  | unsig {sk m} : DY W (sig sk m) → DY W m
  | enc {k m} (n) : DY W k → DY W m → DY W (enc k n m)
  | dec {k n m} : DY W (enc k n m) → DY W k → DY W m
  | pair {a b} : DY W a → DY W b → DY W (pair a b)
  | fst {a b} : DY W (pair a b) → DY W a
  | snd {a b} : DY W (pair a b) → DY W b
  | pmeta (n c) : DY W (pmeta n c)

/-! ### the signature cache in front of every `VerifyBytes`

`peerPublicKey.VerifyBytes(challenge, sig)` first asks the process-wide signature cache
(`crypto.CheckCache`): a hit returns `true` without verifying. The symbolic model's exact-match
verification (`s ≠ sig (atom j) (chal …)` in `Party.finish`) is faithful only if a hit can come from
nothing but an earlier verification of this very (key, message, signature) triple. -/

/-- `BatchTuple.Key()`: public key ‖ message ‖ signature -/
def cacheKey (pk m sg : Canopy.Bytes) : Canopy.Bytes := pk ++ m ++ sg

/-- `CheckCache` against the triples verified (and remembered) so far -/
def cacheHit (remembered : List (Canopy.Bytes × Canopy.Bytes × Canopy.Bytes)) (pk m sg : Canopy.Bytes) : Bool :=
  (remembered.map fun t => cacheKey t.1 t.2.1 t.2.2).contains (cacheKey pk m sg)

end Canopy.Handshake
