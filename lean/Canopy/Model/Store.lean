import Canopy.Model.Bytes
/-!
M-store (C10, C09): the layered store of `/repo/store`.

* **Spec** (`VMap`, `readAt`, `IsScan`, `scan`): a plain versioned map.
* **Implementation model**, executable and driven against the real code by `Driver/C10.lean`:
  - the pebble key space as a strictly sorted list of `(physicalKey, rawValue)` with
    `physicalKey = userKey ++ ^version` (8 bytes big-endian, inverted) and `rawValue = tombstone ++ value`
    (`versioned_store.go`);
  - a pebble iterator as a cursor into the bounded list (`PCur`: `SeekGE/SeekLT/Next/Prev`);
  - `VersionedStore.getRaw/get` and the `VersionedIterator` (`first`, `advanceToNextKey`,
    `rewindToLatestVersion`, `step`) — one function per Go function, covering the four strategies
    seek/linear × forward/reverse;
  - `Txn` = overlay (`ops` map + sorted key tree, here one sorted association list) over a parent
    reader, nested arbitrarily; `TxnIterator`'s merge (`Valid/Next` with `useTxn`) as `mergeRun`;
  - `Store`: `Commit` (LSS at version 2^64-1 under `s/`, HSS at `version+1` under `h/`, tombstone
    purge), `NewReadOnly`, `Copy`, `NewTxn`/`Flush`/`Discard`, `Rollback`.

Core Lean only.
-/
namespace Canopy.Store
open Canopy

/-! ## byte order (`bytes.Compare`) -/

/-- `bytes.Compare a b < 0` -/
def blt : Bytes → Bytes → Bool
  | [], [] => false
  | [], _ :: _ => true
  | _ :: _, [] => false
  | a :: as, b :: bs => decide (a.toNat < b.toNat) || (decide (a.toNat = b.toNat) && blt as bs)

/-- `bytes.Compare a b ≤ 0` -/
def ble (a b : Bytes) : Bool := !blt b a

/-- `bytes.HasPrefix k p` -/
def hasPrefix (p k : Bytes) : Bool := p.isPrefixOf k

/-! ## versions, physical keys, raw values -/

/-- `lssVersion = math.MaxUint64` -/
def maxVer : Nat := 18446744073709551615

/-- `binary.BigEndian.PutUint64` on a natural number `< 2^64` -/
def be8 (n : Nat) : Bytes :=
  [UInt8.ofNat (n / 72057594037927936 % 256), UInt8.ofNat (n / 281474976710656 % 256),
   UInt8.ofNat (n / 1099511627776 % 256), UInt8.ofNat (n / 4294967296 % 256),
   UInt8.ofNat (n / 16777216 % 256), UInt8.ofNat (n / 65536 % 256),
   UInt8.ofNat (n / 256 % 256), UInt8.ofNat (n % 256)]

/-- `binary.BigEndian.Uint64` -/
def beNat (b : Bytes) : Nat := b.foldl (fun acc x => acc * 256 + x.toNat) 0

/-- the inverted version suffix `^version` -/
def invVer (v : Nat) : Bytes := be8 (maxVer - v)

/-- `makeVersionedKey` (the length-prefix validation is `keyOK`, checked by the callers below) -/
def mkKey (userKey : Bytes) (v : Nat) : Bytes := userKey ++ invVer v

/-- `parseVersion`: the version in the last 8 bytes (0 when shorter) -/
def versionOf (pk : Bytes) : Nat :=
  if pk.length < 8 then 0 else maxVer - beNat (pk.drop (pk.length - 8))

/-- `parseVersionedKey(k, false)`: the user key, `none` = `ErrInvalidKey` (`len - 8 ≤ 0`) -/
def userKeyOf? (pk : Bytes) : Option Bytes :=
  if pk.length ≤ 8 then none else some (pk.take (pk.length - 8))

def deadTomb : UInt8 := 1
def aliveTomb : UInt8 := 0

/-- `valueWithTombstone` -/
def rawAlive (v : Bytes) : Bytes := aliveTomb :: v
def rawDead : Bytes := [deadTomb]

/-- `parseValueWithTombstone` -/
def parseVal : Bytes → UInt8 × Bytes
  | [] => (deadTomb, [])
  | t :: v => (t, v)

/-- `endBytes`: 257 × 0xFF -/
def endBytes : Bytes := List.replicate 257 255

/-- `prefixEnd` -/
def prefixEnd (p : Bytes) : Bytes := p ++ endBytes

/-- keys accepted by `lib.DecodeLengthPrefixed` (anything else panics in the real code) -/
def keyOK (k : Bytes) : Bool := (decodeLenPrefixed k).isSome

/-! ## the pebble key space -/

abbrev Entry := Bytes × Bytes
/-- strictly sorted by physical key -/
abbrev DB := List Entry

/-- insert or replace in a sorted association list -/
def smSet {α : Type} : List (Bytes × α) → Bytes → α → List (Bytes × α)
  | [], k, v => [(k, v)]
  | (k', v') :: r, k, v =>
    if blt k k' then (k, v) :: (k', v') :: r
    else if k = k' then (k, v) :: r
    else (k', v') :: smSet r k v

def smDel {α : Type} : List (Bytes × α) → Bytes → List (Bytes × α)
  | [], _ => []
  | (k', v') :: r, k => if k = k' then r else (k', v') :: smDel r k

def smGet {α : Type} : List (Bytes × α) → Bytes → Option α
  | [], _ => none
  | (k', v') :: r, k => if k = k' then some v' else smGet r k

inductive BatchOp
  | put (k v : Bytes)
  | del (k : Bytes)
  deriving Repr, DecidableEq

/-- a pebble batch applies its operations in order (the last write to a key wins) -/
def applyBatch (db : DB) (b : List BatchOp) : DB :=
  b.foldl (fun d op => match op with
    | .put k v => smSet d k v
    | .del k => smDel d k) db

/-- iterator bounds `[lo, hi)` -/
def bound (db : DB) (lo hi : Bytes) : List Entry :=
  db.filter fun e => ble lo e.1 && blt e.1 hi

/-! ## pebble iterator: a cursor into the bounded list -/

/-- `rpre` = entries before the position (nearest first), `post` = entries at and after it;
`bof` = exhausted in the backward direction (positioned before the first entry). -/
structure PCur where
  rpre : List Entry := []
  post : List Entry := []
  bof : Bool := false
  deriving Repr

namespace PCur
def valid (c : PCur) : Bool := !c.bof && !c.post.isEmpty
def cur? (c : PCur) : Option Entry := if c.bof then none else c.post.head?
def next (c : PCur) : PCur :=
  if c.bof then { c with bof := false } else
  match c.post with
  | [] => c
  | e :: p => { rpre := e :: c.rpre, post := p, bof := false }
def prev (c : PCur) : PCur :=
  if c.bof then c else
  match c.rpre with
  | [] => { c with bof := true }
  | e :: r => { rpre := r, post := e :: c.post, bof := false }
/-- `SeekGE(t)`: first entry with key ≥ t -/
def seekGE (all : List Entry) (t : Bytes) : PCur :=
  { rpre := (all.takeWhile fun e => blt e.1 t).reverse, post := all.dropWhile fun e => blt e.1 t, bof := false }
/-- `SeekLT(t)`: last entry with key < t -/
def seekLT (all : List Entry) (t : Bytes) : PCur :=
  match (all.takeWhile fun e => blt e.1 t).reverse with
  | [] => { rpre := [], post := all, bof := true }
  | e :: r => { rpre := r, post := e :: all.dropWhile fun e => blt e.1 t, bof := false }
end PCur

/-! ## VersionedStore -/

/-- a `VersionedStore` reader: a pebble snapshot and the read version -/
structure VS where
  db : DB
  version : Nat

/-- `getRaw`: `SeekGE(userKey ++ ^version)` inside `[userKey, prefixEnd userKey)`, then check that the
entry found has exactly this user key and a version ≤ the read version. -/
def VS.getRaw (vs : VS) (userKey : Bytes) : Option (UInt8 × Bytes) :=
  let all := bound vs.db userKey (prefixEnd userKey)
  match (PCur.seekGE all (mkKey userKey vs.version)).cur? with
  | none => none
  | some e =>
    match userKeyOf? e.1 with
    | none => none
    | some fk =>
      if fk ≠ userKey then none
      else if versionOf e.1 > vs.version then none
      else some (parseVal e.2)

/-- `get`: tombstoned = absent -/
def VS.get (vs : VS) (userKey : Bytes) : Option Bytes :=
  match vs.getRaw userKey with
  | none => none
  | some (t, v) => if t = deadTomb then none else some v

/-- `VersionedIterator` -/
structure VIt where
  all : List Entry
  cur : PCur
  version : Nat
  reverse : Bool
  seek : Bool
  last : Option Bytes := none      -- lastUserKey
  vbuf : Bytes := []               -- valueBuff
  snp : Bool := false              -- shouldNotPrev
  isValid : Bool := false
  key : Bytes := []
  value : Bytes := []

/-- the linear branch of `rewindToLatestVersion`: `for iter.Prev() { … }` -/
def rewindLin (version : Nat) (last : Bytes) :
    (rpre post : List Entry) → (vbuf : Bytes) → (snp : Bool) → PCur × Bytes × Bool
  | [], post, vbuf, snp => ({ rpre := [], post := post, bof := true }, vbuf, snp)
  | e :: r, post, vbuf, _ =>
    -- Prev() succeeded: positioned at e, shouldNotPrev := true
    if versionOf e.1 > version then ({ rpre := r, post := e :: post }, vbuf, true)
    else if userKeyOf? e.1 ≠ some last then ({ rpre := r, post := e :: post }, vbuf, true)
    else rewindLin version last r (e :: post) e.2 true

/-- `rewindToLatestVersion` -/
def VIt.rewind (it : VIt) (userKey : Bytes) : VIt :=
  if it.seek then
    let c := PCur.seekGE it.all (mkKey userKey it.version)
    match c.cur? with
    | none => { it with cur := c }
    | some e =>
      if userKeyOf? e.1 ≠ it.last then { it with cur := c }
      else { it with cur := c, vbuf := e.2 }
  else
    if it.cur.bof then it else
    let (c, vb, snp) := rewindLin it.version userKey it.cur.rpre it.cur.post it.vbuf it.snp
    { it with cur := c, vbuf := vb, snp := snp }

/-- `step` -/
def VIt.step (it : VIt) : VIt :=
  let normal : VIt :=
    if it.reverse then
      if it.snp then { it with snp := false } else { it with cur := it.cur.prev }
    else { it with cur := it.cur.next }
  if it.seek then
    match it.cur.cur?, it.last with
    | some e, some last =>
      match userKeyOf? e.1 with
      | none => { it with isValid := false }
      | some ck =>
        if ck = last then
          if it.reverse then { it with cur := PCur.seekLT it.all last }
          else { it with cur := PCur.seekGE it.all (prefixEnd last) }
        else normal
    | _, _ => normal
  else normal

/-- `advanceToNextKey`; the `for` loop is bounded by `fuel` (2·|all|+4 always suffices) -/
def VIt.advance : Nat → VIt → VIt
  | 0, it => { it with isValid := false, key := [], value := [] }
  | fuel + 1, it =>
    let it := { it with isValid := false, key := [], value := [] }
    match it.cur.cur? with
    | none => it
    | some e =>
      if versionOf e.1 > it.version then VIt.advance fuel it.step
      else match userKeyOf? e.1 with
        | none => VIt.advance fuel it.step
        | some uk =>
          if it.last = some uk then VIt.advance fuel it.step
          else
            let it1 := { it with last := some uk, vbuf := e.2 }
            let it2 := if it1.reverse then it1.rewind uk else it1
            let (tomb, val) := parseVal it2.vbuf
            if tomb = deadTomb then VIt.advance fuel it2.step
            else { it2 with key := uk, value := val, isValid := true }

def iterFuel (all : List Entry) : Nat := 2 * all.length + 4

/-- `newVersionedIterator` + `first()` -/
def VS.newIter (vs : VS) (pfx : Bytes) (reverse seek : Bool) : VIt :=
  let all := bound vs.db pfx (prefixEnd pfx)
  let c := if reverse then PCur.seekLT all (prefixEnd pfx) else PCur.seekGE all pfx
  let it : VIt := { all := all, cur := c, version := vs.version, reverse := reverse, seek := seek }
  if c.valid then it.advance (iterFuel all) else it

/-- `for ; it.Valid(); it.Next() { out = append(out, (it.Key(), it.Value())) }` -/
def VIt.collect : Nat → VIt → List (Bytes × Bytes)
  | 0, _ => []
  | n + 1, it => if it.isValid then (it.key, it.value) :: VIt.collect n (it.advance (iterFuel it.all)) else []

/-- everything a `VersionedIterator` yields -/
def VS.iter (vs : VS) (pfx : Bytes) (reverse seek : Bool) : List (Bytes × Bytes) :=
  (vs.newIter pfx reverse seek).collect ((bound vs.db pfx (prefixEnd pfx)).length + 1)

/-! ## Txn: overlay over a parent reader -/

inductive TOp
  | set (v : Bytes)
  | del
  deriving Repr, DecidableEq

/-- `txn.ops` + `txn.sorted`: one association list, strictly sorted by key -/
abbrev Overlay := List (Bytes × TOp)

/-- what `Txn.Get` answers from its own operations -/
def TOp.read : TOp → Option Bytes
  | .set v => some v
  | .del => none

/-- start of the in-memory side of a `TxnIterator` (`BTreeIterator.Move`) followed by the latched
`txnInvalid` test (`len(key) == 0 || !HasPrefix(key, prefix)`) -/
def txnItems (ov : Overlay) (pfx : Bytes) (reverse : Bool) : Overlay :=
  let start : Overlay :=
    if reverse then
      let pe := prefixEnd pfx
      if (smGet ov pe).isSome then (ov.takeWhile fun x => ble x.1 pe).reverse
      else (ov.takeWhile fun x => blt x.1 (pe ++ endBytes)).reverse
    else ov.dropWhile fun x => blt x.1 pfx
  start.takeWhile fun x => !x.1.isEmpty && hasPrefix pfx x.1

/-- `TxnIterator.compare` -/
def cmpDir (reverse : Bool) (a b : Bytes) : Ordering :=
  let c := if blt a b then Ordering.lt else if a = b then Ordering.eq else Ordering.gt
  if reverse then c.swap else c

/-- the `for ; it.Valid(); it.Next()` run of a `TxnIterator` over its in-memory items and the
sequence its parent iterator yields (`Valid` skips deleted entries, `Next` advances the side(s) used) -/
def mergeRun (reverse : Bool) : Overlay → List (Bytes × Bytes) → List (Bytes × Bytes)
  | [], ps => ps
  | (tk, top) :: ts, [] =>
    match top with
    | .del => mergeRun reverse ts []
    | .set v => (tk, v) :: mergeRun reverse ts []
  | (tk, top) :: ts, (pk, pv) :: ps =>
    match cmpDir reverse tk pk with
    | .gt => (pk, pv) :: mergeRun reverse ((tk, top) :: ts) ps
    | .eq =>
      match top with
      | .del => mergeRun reverse ts ps
      | .set v => (tk, v) :: mergeRun reverse ts ps
    | .lt =>
      match top with
      | .del => mergeRun reverse ts ((pk, pv) :: ps)
      | .set v => (tk, v) :: mergeRun reverse ts ((pk, pv) :: ps)

/-- one `Txn` (its pending operations and its `seek` flag) -/
structure Layer where
  ov : Overlay := []
  seek : Bool := true
  deriving Repr

/-- a readable/writable store handle: a bottom `VersionedStore` reader (snapshot, read version, key
prefix of the bottom `Txn`) under a stack of `Txn`s; `layers.head` is the innermost nested txn,
the last element is the store's own `Txn`. -/
structure Handle where
  snap : DB
  rver : Nat
  pfx : Bytes
  layers : List Layer

/-- `Txn.Get` through every layer, then `VersionedStore.Get(prefix ++ key)`;
`none` (outer) = the real code panics (`DecodeLengthPrefixed`) -/
def Handle.get (h : Handle) (k : Bytes) : Option (Option Bytes) :=
  let rec go : List Layer → Option (Option Bytes)
    | [] => if keyOK k then some ((VS.mk h.snap h.rver).get (h.pfx ++ k)) else none
    | l :: ls => match smGet l.ov k with
      | some op => some op.read
      | none => go ls
  go h.layers

/-- `Txn.Iterator/RevIterator` through every layer; `none` = panic on a malformed prefix -/
def Handle.iter (h : Handle) (p : Bytes) (reverse : Bool) : Option (List (Bytes × Bytes)) :=
  if !keyOK p then none else
  let seek := match h.layers with
    | [] => true
    | l :: _ => l.seek
  let base := ((VS.mk h.snap h.rver).iter (h.pfx ++ p) reverse seek).map
    fun kv => (kv.1.drop h.pfx.length, kv.2)
  some (h.layers.foldr (fun l acc => mergeRun reverse (txnItems l.ov p reverse) acc) base)

/-- `Txn.Set/Delete` on the innermost layer -/
def Handle.write (h : Handle) (k : Bytes) (op : TOp) : Handle :=
  match h.layers with
  | [] => h
  | l :: ls => { h with layers := { l with ov := smSet l.ov k op } :: ls }

/-! ## Store -/

def lssPrefix : Bytes := joinLenPrefix [[115, 47]]   -- "s/"
def hssPrefix : Bytes := joinLenPrefix [[104, 47]]   -- "h/"

/-- `Txn.write`: a pending operation as a raw value (`valueWithTombstone`) -/
def rawOf : TOp → Bytes
  | .set v => rawAlive v
  | .del => rawDead

/-- the deletion `purgeLssTombstones` issues for a pending delete -/
def delOf (F : Bytes → Bytes) (e : Bytes × TOp) : Option BatchOp :=
  match e.2 with
  | .set _ => none
  | .del => some (BatchOp.del (F e.1))

/-- what `Txn.Commit` of the state txn (`state = true`) writes — every pending operation to the latest
state (`s/`, version 2^64-1) and to the historical state (`h/`, version `next`) — followed by
`purgeLssTombstones` -/
def commitBatch (ov : Overlay) (next : Nat) : List BatchOp :=
  (ov.map fun e => BatchOp.put (mkKey (lssPrefix ++ e.1) maxVer) (rawOf e.2)) ++
  (ov.map fun e => BatchOp.put (mkKey (hssPrefix ++ e.1) next) (rawOf e.2)) ++
  (ov.filterMap (delOf fun k => mkKey (lssPrefix ++ k) maxVer))

/-- `pruneVersionWindow` over the historical-state prefix: the deletions and the affected state keys -/
def pruneWindow (db : DB) (lo hi : Nat) : List BatchOp × List Bytes :=
  let hit := (bound db hssPrefix (prefixEnd hssPrefix)).filter fun e =>
    lo ≤ versionOf e.1 && versionOf e.1 ≤ hi
  (hit.map fun e => BatchOp.del e.1,
   (hit.filterMap fun e => match userKeyOf? e.1 with
     | some uk => if hasPrefix hssPrefix uk then some (uk.drop hssPrefix.length) else none
     | none => none).eraseDups)

/-- the latest-state patch of `Rollback` -/
def rollbackPatch (db : DB) (target : Nat) (keys : List Bytes) : List BatchOp :=
  keys.map fun sk =>
    match (VS.mk db target).getRaw (hssPrefix ++ sk) with
    | some (t, v) =>
      if t = deadTomb then BatchOp.del (mkKey (lssPrefix ++ sk) maxVer)
      else BatchOp.put (mkKey (lssPrefix ++ sk) maxVer) (rawAlive v)
    | none => BatchOp.del (mkKey (lssPrefix ++ sk) maxVer)

structure State where
  db : DB := []
  version : Nat := 0
  /-- the store's `Txn` (last) and the nested `NewTxn()` stores above it (head = innermost) -/
  main : List Layer := [{}]
  copies : List Handle := []
  held : List Handle := []

def State.handle (s : State) : Handle := { snap := s.db, rver := maxVer, pfx := lssPrefix, layers := s.main }

/-- `NewReadOnly(v)` -/
def State.readOnly (s : State) (v : Nat) : Handle :=
  if s.version = v then { snap := s.db, rver := maxVer, pfx := lssPrefix, layers := [{}] }
  else { snap := s.db, rver := v, pfx := hssPrefix, layers := [{}] }

/-- `Commit` (state part): one batch, applied atomically; `version+1`; fresh txn -/
def State.commit (s : State) : State :=
  match s.main with
  | [l] => { s with db := applyBatch s.db (commitBatch l.ov (s.version + 1)), version := s.version + 1, main := [{}] }
  | _ => s

/-- `Rollback(target)`; `none` = the error return -/
def State.rollback (s : State) (target : Nat) : Option State :=
  if target = 0 then none
  else if target > s.version then none
  else if target = s.version then some s
  else
    let (dels, keys) := pruneWindow s.db (target + 1) s.version
    some { s with db := applyBatch s.db (dels ++ rollbackPatch s.db target keys), version := target, main := [{}] }

/-- nested `Store.Flush()`: `Txn.Commit` writes every pending operation into the parent txn, then clears -/
def flushLayers : List Layer → Option (List Layer)
  | top :: below :: rest =>
    some ({ top with ov := [] } :: { below with ov := top.ov.foldl (fun o (k, op) => smSet o k op) below.ov } :: rest)
  | _ => none

/-- `Store.Copy()` of the base store: its pending operations over a fresh snapshot; the `seek` flag is
not carried over by `Txn.Copy` -/
def State.copy (s : State) : Handle :=
  { snap := s.db, rver := maxVer, pfx := lssPrefix,
    layers := [{ ov := (s.main.getLast?.map (·.ov)).getD [], seek := false }] }

/-- the state-changing operations of the store API (reads are `Handle.get` / `Handle.iter` on
`State.handle`, `State.readOnly v`, a copy or a held read-only view) -/
inductive Op
  | set (k v : Bytes)
  | del (k : Bytes)
  | nest
  | flush
  | discard
  | pop
  | commit
  | rollback (t : Nat)
  | copy
  | cset (i : Nat) (k v : Bytes)
  | cdel (i : Nat) (k : Bytes)
  | hold (v : Nat)

/-- one operation; an operation that does not apply (flush without a nested txn, commit or rollback
under a nested txn, rollback to an invalid height, unknown copy) leaves the state unchanged -/
def State.apply (s : State) : Op → State
  | .set k v => { s with main := (s.handle.write k (.set v)).layers }
  | .del k => { s with main := (s.handle.write k .del).layers }
  | .nest => { s with main := {} :: s.main }
  | .flush => match flushLayers s.main with
    | some m => { s with main := m }
    | none => s
  | .discard => match s.main with
    | top :: below :: rest => { s with main := { top with ov := [] } :: below :: rest }
    | _ => s
  | .pop => match s.main with
    | _ :: below :: rest => { s with main := below :: rest }
    | _ => s
  | .commit => s.commit
  | .rollback t => match s.main with
    | [_] => (s.rollback t).getD s
    | _ => s
  | .copy => { s with copies := s.copies ++ [s.copy] }
  | .cset i k v => match s.copies[i]? with
    | some h => { s with copies := s.copies.set i (h.write k (.set v)) }
    | none => s
  | .cdel i k => match s.copies[i]? with
    | some h => { s with copies := s.copies.set i (h.write k .del) }
    | none => s
  | .hold v => { s with held := s.held ++ [s.readOnly v] }

/-! ## Spec: a simple versioned map -/

/-- the committed writes: `(key, version, value)`, `none` = deletion. For a key `k` the property's
`Key → List (Version × Option Val)` is `hist m k`. -/
abbrev VMap := List (Bytes × Nat × Option Bytes)

def hist (m : VMap) (k : Bytes) : List (Nat × Option Bytes) :=
  m.filterMap fun (k', v, x) => if k' = k then some (v, x) else none

/-- the entry with the greatest version among those ≤ `v` -/
def newestLE (v : Nat) : List (Nat × Option Bytes) → Option (Nat × Option Bytes)
  | [] => none
  | (w, x) :: r =>
    match newestLE v r with
    | none => if w ≤ v then some (w, x) else none
    | some (w', x') => if w ≤ v && w' < w then some (w, x) else some (w', x')

/-- what a reader as of version `v` sees at key `k` -/
def readAt (m : VMap) (v : Nat) (k : Bytes) : Option Bytes :=
  match newestLE v (hist m k) with
  | some (_, x) => x
  | none => none

/-- pending operations applied on top of a view -/
def applyOv (ov : Overlay) (f : Bytes → Option Bytes) : Bytes → Option Bytes :=
  fun k => match smGet ov k with
    | some op => op.read
    | none => f k

/-- strictly ascending (`reverse = false`) or strictly descending key order -/
def KeysSorted (reverse : Bool) (ks : List Bytes) : Prop :=
  ks.Pairwise fun a b => if reverse then blt b a = true else blt a b = true

/-- `out` is *the* prefix scan of the view `f`: exactly the live keys under `p`, each once, in order -/
def IsScan (f : Bytes → Option Bytes) (p : Bytes) (reverse : Bool) (out : List (Bytes × Bytes)) : Prop :=
  KeysSorted reverse (out.map (·.1)) ∧ ∀ k x, (k, x) ∈ out ↔ (hasPrefix p k = true ∧ f k = some x)

end Canopy.Store
