import Canopy.Model.Store
/-!
M-crash (C09): the database as the list of atomic batches applied so far; one block commit as the
batches it applies; reopening after a crash.

`Store.Commit` flushes every partition into the single pebble batch `s.writer` — commit-id records
(`setCommitID`), the SMT's transaction (`s.sc.store`, built in `Root()` over `s.ss.writer`), the state
transaction (`s.ss`: latest + historical state), the indexer transaction (`s.Indexer.db`: QC, block,
txs, events, written by `IndexQC`/`IndexBlock` before `Commit`) and the tombstone purge — and calls
`s.db.Apply(s.writer, pebble.NoSync)` once. That shape is not assumed here: `Props/C09.lean` derives it
from facts regenerated from the source (`Canopy.Gen.Store`); `Shape.split` is what the model would be
if the indexer were applied separately.

Assumption about pebble (sampled by the crash harness, not proved): a batch is applied atomically and
after a crash the surviving database is the result of a prefix of the applied batches.
Core Lean only.
-/
namespace Canopy.Crash
open Canopy Canopy.Store

def idxPrefix : Bytes := joinLenPrefix [[105, 47]]    -- "i/"  indexerPrefix
def cidPrefix : Bytes := joinLenPrefix [[120, 47]]    -- "x/"  stateCommitIDPrefix (commit ids; and the SMT nodes, as `Root()` is written)
def lastPrefix : Bytes := joinLenPrefix [[97, 47]]    -- "a/"  lastCommitIDPrefix

/-- what one block writes -/
structure BlockIn where
  ops : Overlay                    -- pending state operations
  smt : List (Bytes × Bytes) := [] -- SMT node writes (opaque here; C08 relates them to `ops`)
  idx : List (Bytes × Bytes) := [] -- indexer entries: block, txs, QC, events
  root : Bytes := []               -- the state root recorded in the commit id

/-- the commit-id value: height and root (the real value is the protobuf `CommitID{Height, Root}`) -/
def cidVal (h : Nat) (root : Bytes) : Bytes := rawAlive (be8 h ++ root)
def heightOf (raw : Bytes) : Nat := beNat ((parseVal raw).2.take 8)
def rootOf (raw : Bytes) : Bytes := (parseVal raw).2.drop 8

def decimal (n : Nat) : Bytes := (Nat.repr n).toList.map fun c => UInt8.ofNat c.toNat

/-- `commitIDKey(version)` -/
def commitIDKey (h : Nat) : Bytes := cidPrefix ++ joinLenPrefix [decimal h]

/-- `setCommitID`: the latest commit id (version 2^64-1) and the commit id of this version -/
def cidPart (next : Nat) (b : BlockIn) : List BatchOp :=
  [.put (mkKey lastPrefix maxVer) (cidVal next b.root), .put (mkKey (commitIDKey next) next) (cidVal next b.root)]
def smtPart (next : Nat) (b : BlockIn) : List BatchOp :=
  b.smt.map fun e => .put (mkKey (cidPrefix ++ e.1) next) (rawAlive e.2)
/-- latest + historical state + tombstone purge: exactly C10's `commitBatch` -/
def statePart (next : Nat) (b : BlockIn) : List BatchOp := commitBatch b.ops next
def idxPart (next : Nat) (b : BlockIn) : List BatchOp :=
  b.idx.map fun e => .put (mkKey (idxPrefix ++ e.1) next) (rawAlive e.2)

inductive Shape
  | single   -- everything through `s.writer`, one `db.Apply`
  | split    -- (hypothetical) the indexer applied as a second batch
  deriving DecidableEq, Repr

/-- the batches one block commit applies to the database -/
def blockBatches (sh : Shape) (next : Nat) (b : BlockIn) : List (List BatchOp) :=
  match sh with
  | .single => [cidPart next b ++ smtPart next b ++ statePart next b ++ idxPart next b]
  | .split => [cidPart next b ++ smtPart next b ++ statePart next b, idxPart next b]

/-- the batches applied so far, in order -/
abbrev Disk := List (List BatchOp)

def dbOf (d : Disk) : DB := d.foldl applyBatch []

/-- `getLatestCommitID`: the height the store opens at -/
def version (d : Disk) : Nat :=
  match smGet (dbOf d) (mkKey lastPrefix maxVer) with
  | some raw => heightOf raw
  | none => 0

def commitBlock (sh : Shape) (d : Disk) (b : BlockIn) : Disk := d ++ blockBatches sh (version d + 1) b

def run (sh : Shape) (d : Disk) (bs : List BlockIn) : Disk := bs.foldl (commitBlock sh) d

/-! observations on a (re)opened store -/

/-- full scan of the latest state -/
def stateScan (d : Disk) : List (Bytes × Bytes) :=
  ((VS.mk (dbOf d) maxVer).iter lssPrefix false true).map fun kv => (kv.1.drop lssPrefix.length, kv.2)
/-- full scan of the state as of height `v` -/
def stateScanAt (d : Disk) (v : Nat) : List (Bytes × Bytes) :=
  ((VS.mk (dbOf d) v).iter hssPrefix false true).map fun kv => (kv.1.drop hssPrefix.length, kv.2)
/-- an indexer entry, read at the store's version -/
def idxGet (d : Disk) (k : Bytes) : Option Bytes := (VS.mk (dbOf d) (version d)).get (idxPrefix ++ k)
/-- the root recorded for height `h` -/
def rootAt (d : Disk) (h : Nat) : Option Bytes :=
  ((VS.mk (dbOf d) (version d)).getRaw (commitIDKey h)).map fun tv => (rawAlive tv.2 |> rootOf)
/-- the root of the latest commit id -/
def latestRoot (d : Disk) : Bytes :=
  match smGet (dbOf d) (mkKey lastPrefix maxVer) with
  | some raw => rootOf raw
  | none => []

end Canopy.Crash
