import Canopy.Model.Store
/-!
M-crash (C09): the database as the list of atomic batches applied so far; one block commit as the
batches it applies; reopening after a crash.

`Store.Commit` flushes every partition into the single pebble batch `s.writer` — commit-id records
(`setCommitID`), the SMT's transaction (`s.sc.store`, built in `Root()` over `s.ss.writer`), the state
transaction (`s.ss`: latest + historical state), the indexer transaction (`s.Indexer.db`: QC, block,
txs, events, written by `IndexQC`/`IndexBlock` before `Commit`) and the tombstone purge — and calls
`s.db.Apply(s.writer, pebble.NoSync)` once. That shape is not assumed here: `Props/C09.lean` derives it
from facts regenerated from the source (`Canopy.Gen.Store`); `Shape.split` is what the model would be
if the indexer were applied separately.

Assumption about pebble (sampled by the crash harness, not proved): a batch is applied atomically and
after a crash the surviving database is the result of a prefix of the applied batches.
Core Lean only.
-/
namespace Canopy.Crash
open Canopy Canopy.Store

def idxPrefix : Bytes := joinLenPrefix [[105, 47]]    -- "i/"  indexerPrefix
def cidPrefix : Bytes := joinLenPrefix [[120, 47]]    -- "x/"  stateCommitIDPrefix (commit ids; and the SMT nodes, as `Root()` is written)
def lastPrefix : Bytes := joinLenPrefix [[97, 47]]    -- "a/"  lastCommitIDPrefix

/-- what one block writes -/
structure BlockIn where
  ops : Overlay                    -- pending state operations
  smt : List (Bytes × Bytes) := [] -- SMT node writes (opaque here; C08 relates them to `ops`)
  idx : List (Bytes × Bytes) := [] -- indexer entries: block, txs, QC, events, checkpoints, double signers
  idxDel : List Bytes := []        -- indexer deletions (`DeleteCheckpointsForChain`): tombstones at the block's version
  root : Bytes := []               -- the state root recorded in the commit id

/-- the commit-id value: height and root (the real value is the protobuf `CommitID{Height, Root}`) -/
def cidVal (h : Nat) (root : Bytes) : Bytes := rawAlive (be8 h ++ root)
def heightOf (raw : Bytes) : Nat := beNat ((parseVal raw).2.take 8)
def rootOf (raw : Bytes) : Bytes := (parseVal raw).2.drop 8

def decimal (n : Nat) : Bytes := (Nat.repr n).toList.map fun c => UInt8.ofNat c.toNat

/-- `commitIDKey(version)` -/
def commitIDKey (h : Nat) : Bytes := cidPrefix ++ joinLenPrefix [decimal h]

/-- the version `setCommitID` writes the latest-commit pointer (`a/`) at: the reserved latest-state version
2^64-1 (`SetAt(lastCommitIDPrefix, value, lssVersion)`, the code as it stands — derived from a generated fact in
`Props/C09.lean`), or the version being committed (what a `Set` on the commit's versioned store would do) -/
inductive PtrAt
  | lss
  | commitVersion
  deriving DecidableEq, Repr

def PtrAt.version (p : PtrAt) (next : Nat) : Nat :=
  match p with
  | .lss => maxVer
  | .commitVersion => next

/-- `setCommitID`: the latest-commit pointer and the commit id of this version -/
def cidPart (ptr : PtrAt) (next : Nat) (b : BlockIn) : List BatchOp :=
  [.put (mkKey lastPrefix (ptr.version next)) (cidVal next b.root), .put (mkKey (commitIDKey next) next) (cidVal next b.root)]
def smtPart (next : Nat) (b : BlockIn) : List BatchOp :=
  b.smt.map fun e => .put (mkKey (cidPrefix ++ e.1) next) (rawAlive e.2)
/-- latest + historical state + tombstone purge: exactly C10's `commitBatch` -/
def statePart (next : Nat) (b : BlockIn) : List BatchOp := commitBatch b.ops next
def idxPart (next : Nat) (b : BlockIn) : List BatchOp :=
  (b.idx.map fun e => .put (mkKey (idxPrefix ++ e.1) next) (rawAlive e.2)) ++
  (b.idxDel.map fun k => .put (mkKey (idxPrefix ++ k) next) rawDead)

inductive Shape
  | single   -- everything through `s.writer`, one `db.Apply`
  | split    -- (hypothetical) the indexer applied as a second batch
  deriving DecidableEq, Repr

/-- the batches one block commit applies to the database -/
def blockBatches (sh : Shape) (ptr : PtrAt) (next : Nat) (b : BlockIn) : List (List BatchOp) :=
  match sh with
  | .single => [cidPart ptr next b ++ smtPart next b ++ statePart next b ++ idxPart next b]
  | .split => [cidPart ptr next b ++ smtPart next b ++ statePart next b, idxPart next b]

/-- the batches applied so far, in order -/
abbrev Disk := List (List BatchOp)

def dbOf (d : Disk) : DB := d.foldl applyBatch []

/-- the record `getLatestCommitID` finds: `Get(lastCommitIDPrefix)` through a `VersionedStore` bound to the
reserved version 2^64-1, i.e. C10's versioned read — the NEWEST `a/` record (a record at 2^64-1 sorts before,
and so shadows, every record written at a block height) -/
def latestPointer (d : Disk) : Option Bytes :=
  ((VS.mk (dbOf d) maxVer).getRaw lastPrefix).map fun tv => rawAlive tv.2

/-- `getLatestCommitID`: the height the store opens at -/
def version (d : Disk) : Nat :=
  match latestPointer d with
  | some raw => heightOf raw
  | none => 0

def commitBlock (sh : Shape) (ptr : PtrAt) (d : Disk) (b : BlockIn) : Disk :=
  d ++ blockBatches sh ptr (version d + 1) b

def run (sh : Shape) (ptr : PtrAt) (d : Disk) (bs : List BlockIn) : Disk := bs.foldl (commitBlock sh ptr) d

/-! ## `Rollback(target)`: one more batch -/

/-- `pruneVersionWindow` over a prefix: delete every entry of that prefix whose version is in `[lo, hi]` -/
def pruneDels (db : DB) (pfx : Bytes) (lo hi : Nat) : List BatchOp :=
  ((bound db pfx (prefixEnd pfx)).filter fun e => lo ≤ versionOf e.1 && versionOf e.1 ≤ hi).map fun e => BatchOp.del e.1

/-- the batch of `Store.Rollback(target)` on a store at `version d`: prune the version window
`(target, version]` under the historical-state, indexer and commit-id/SMT prefixes (the separate commitment
prefix `c/` holds nothing, as `Root()` is written), patch the latest state of the affected keys from the
historical view at `target` (C10's `pruneWindow`/`rollbackPatch`), and re-point the latest commit id — at the
reserved version — to the commit id recorded for `target`.
`none`: an error return; `some none`: `target = version`, nothing applied. -/
def rollbackBatch (d : Disk) (target : Nat) : Option (Option (List BatchOp)) :=
  let ver := version d
  let db := dbOf d
  if target = 0 ∨ target > ver then none
  else if target = ver then some none
  else
    match (VS.mk db target).get (commitIDKey target) with
    | none => none   -- "missing commit id at height"
    | some cid =>
      let win := pruneWindow db (target + 1) ver
      some (some (win.1 ++ pruneDels db idxPrefix (target + 1) ver ++ pruneDels db cidPrefix (target + 1) ver ++
        rollbackPatch db target win.2 ++ [.put (mkKey lastPrefix maxVer) (rawAlive cid)]))

/-- one step of a node's life -/
inductive Ev
  | block (b : BlockIn)
  | rollback (target : Nat)

def applyEv (sh : Shape) (ptr : PtrAt) (d : Disk) : Ev → Disk
  | .block b => commitBlock sh ptr d b
  | .rollback t =>
    match rollbackBatch d t with
    | some (some batch) => d ++ [batch]
    | _ => d

def runEv (sh : Shape) (ptr : PtrAt) (d : Disk) (evs : List Ev) : Disk := evs.foldl (applyEv sh ptr) d

/-! ## a block's transactions, each in its own nested store

`fsm.ApplyTransactions` runs every transaction in its own `Store.NewTxn()` (a nested state transaction and a
nested indexer transaction over the block's store), and `Flush()`es it into the block's store when the
transaction succeeded or discards it. The block that is committed is the block's own writes with the flushed
transactions' writes on top. -/

/-- what `Store.Flush()` on a nested store hands to its parent: the nested state transaction AND the nested
indexer transaction (the code as it stands — derived from generated facts in `Props/C09.lean`), or the state
transaction only -/
inductive NestedFlush
  | both
  | stateOnly
  deriving DecidableEq, Repr

/-- one transaction: its state operations and its index operations (checkpoints, double signers,
`DeleteCheckpointsForChain`), in program order, and whether it is flushed or discarded -/
structure TxIn where
  ops : List (Bytes × TOp) := []
  idx : List (Bytes × TOp) := []
  flush : Bool := true

/-- `Txn.Commit` of a nested transaction: every operation written into the parent, later ones winning -/
def writeAll (acc : Overlay) (ws : List (Bytes × TOp)) : Overlay := ws.foldl (fun o e => smSet o e.1 e.2) acc

def applyTx (nf : NestedFlush) (acc : Overlay × Overlay) (tx : TxIn) : Overlay × Overlay :=
  if tx.flush then
    (writeAll acc.1 tx.ops, match nf with
      | .both => writeAll acc.2 tx.idx
      | .stateOnly => acc.2)
  else acc

/-- the pending state and index operations of the block's store after its transactions -/
def pendingOfTxs (nf : NestedFlush) (own : BlockIn) (txs : List TxIn) : Overlay × Overlay :=
  txs.foldl (applyTx nf) (own.ops, writeAll [] (own.idx.map (fun e => (e.1, TOp.set e.2)) ++ own.idxDel.map (fun k => (k, TOp.del))))

/-- the block that `Commit` writes -/
def blockOfTxs (nf : NestedFlush) (own : BlockIn) (txs : List TxIn) : BlockIn :=
  let acc := pendingOfTxs nf own txs
  { own with
    ops := acc.1
    idx := acc.2.filterMap fun e => match e.2 with
      | .set v => some (e.1, v)
      | .del => none
    idxDel := acc.2.filterMap fun e => match e.2 with
      | .del => some e.1
      | .set _ => none }

/-! observations on a (re)opened store -/

/-- full scan of the latest state -/
def stateScan (d : Disk) : List (Bytes × Bytes) :=
  ((VS.mk (dbOf d) maxVer).iter lssPrefix false true).map fun kv => (kv.1.drop lssPrefix.length, kv.2)
/-- full scan of the state as of height `v` -/
def stateScanAt (d : Disk) (v : Nat) : List (Bytes × Bytes) :=
  ((VS.mk (dbOf d) v).iter hssPrefix false true).map fun kv => (kv.1.drop hssPrefix.length, kv.2)
/-- an indexer entry, read at the store's version -/
def idxGet (d : Disk) (k : Bytes) : Option Bytes := (VS.mk (dbOf d) (version d)).get (idxPrefix ++ k)
/-- the root recorded for height `h` -/
def rootAt (d : Disk) (h : Nat) : Option Bytes :=
  ((VS.mk (dbOf d) (version d)).getRaw (commitIDKey h)).map fun tv => (rawAlive tv.2 |> rootOf)
/-- the root of the latest commit id -/
def latestRoot (d : Disk) : Bytes :=
  match latestPointer d with
  | some raw => rootOf raw
  | none => []

end Canopy.Crash
