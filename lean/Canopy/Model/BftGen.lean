import Canopy.Model.Bft
import Canopy.Gen.Bft
/-!
The abstract model instantiated with the decision functions regenerated from `/repo`
(`Canopy.Gen.Bft`, written by `harness/cmd/facts/gen_bft.go` on every run). Core Lean only.
-/
namespace Canopy.Bft
open Canopy.Gen.Bft (phase_PROPOSE_VOTE phase_PRECOMMIT_VOTE phase_PRECOMMIT)

/-- the single target-chain height of the model -/
def modelHeight : Nat := 1

/-- the `lib.View` header a vote or certificate of the modelled height carries in view `v` and phase `phase` -/
def hdrOf (v : View) (phase : Nat) : Gen.Bft.View :=
  { NetworkId := 1, ChainId := 1, Height := modelHeight, RootHeight := v.root, Round := v.round, Phase := phase }

/-- `SafeNode`'s LIVENESS comparison on the headers of two PROPOSE_VOTE certificates -/
def genUnlock (w y : View) : Bool :=
  Gen.Bft.safeNodeUnlock (hdrOf w phase_PROPOSE_VOTE) (hdrOf y phase_PROPOSE_VOTE)

/-- `handleHighQCVDFAndEvidence`'s replacement test for a replica that holds a lock -/
def genAdoptOk (w y : View) : Bool :=
  Gen.Bft.adoptHigher true (hdrOf w phase_PROPOSE_VOTE) (hdrOf y phase_PROPOSE_VOTE)
    (hdrOf ⟨y.root, y.round + 1⟩ Gen.Bft.phase_ELECTION_VOTE)  -- the header of the ELECTION_VOTE that carries it (a later round)

/-- `CheckProposerMessage` on a non-partial PRECOMMIT message fetched by a replica in view `v`
    (`GetProposal` looks it up under the replica's round and phase PRECOMMIT; the replica's root height is
    `v.root`; it holds the block it propose-voted for; the sender is the leader it follows): header checks, then the
    PRECOMMIT/COMMIT branch. -/
def genCertBound (q : View) (qp : Bool) (v : View) : Bool :=
  let qc := hdrOf q (if qp then phase_PROPOSE_VOTE else phase_PRECOMMIT_VOTE)
  let hdr := hdrOf v phase_PRECOMMIT
  !(Gen.Bft.leaderMsgHeaderRejected qc hdr v.root modelHeight 0) &&
    (Gen.Bft.leaderMsgChecks qc hdr 1 1 true 0 0 0 0).isNone

/-- the model over the generated decisions -/
def genCfg (committee : List Nat) (pw : Nat → Nat) (byz : Nat → Bool) : Cfg :=
  { committee, pw, byz, unlock := genUnlock, adoptOk := genAdoptOk, certBound := genCertBound }

/-! ### the per-entry check used by the driver: which guard (if any) an honest entry violates -/

def checkEntry (c : Cfg) (tr : List Ev) (e : Ev) : String :=
  if c.byz e.rep then "ok" else
  match e with
  | .propose r v b hq =>
    if !(Cfg.viewsUpToB tr r v) then "guard-violated:view-regress"
    else if !(tr.all fun x => !(x.isProposeAt r v)) then "guard-violated:double-vote"
    else if !(decide (c.safeCond tr b hq (Cfg.lock tr r))) then "guard-violated:safenode"
    else "ok"
  | .precommit r v b q qp =>
    if !(Cfg.viewsUpToB tr r v) then "guard-violated:view-regress"
    else if !(tr.all fun x => !(x.isPrecommitAt r v)) then "guard-violated:double-vote"
    else if !(c.certBound q qp v) then "guard-violated:cert-bound"
    else if !(decide (c.certQC tr q qp b)) then "guard-violated:no-cert"
    else "ok"
  | .adopt r q b =>
    if !(decide (c.proposeQC tr q b)) then "guard-violated:no-cert"
    else if !(decide (c.adoptCond q (Cfg.lock tr r))) then "guard-violated:not-higher"
    else "ok"

/-- all (view, block) pairs that appear in PRECOMMIT_VOTEs -/
def precommitTargets (tr : List Ev) : List (View × Nat) :=
  (tr.filterMap fun e => match e with | .precommit _ v b _ _ => some (v, b) | _ => none).eraseDups

/-- the blocks for which the history contains a commit certificate -/
def committedBlocks (c : Cfg) (tr : List Ev) : List Nat :=
  ((precommitTargets tr).filter fun (v, b) => decide (c.precommitQC tr v b)).map (·.2) |>.eraseDups

end Canopy.Bft
