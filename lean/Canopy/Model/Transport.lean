import Canopy.Model.Bytes
import Canopy.Gen.Transport
/-!
M-transport (C17): the framing of `p2p.EncryptedConn` over an ideal AEAD. Core Lean only.

* constants and the nonce increment are *generated* from `lib/crypto/aead.go` / `p2p/encrypt.go`
  (`Canopy.Gen.Transport`);
* `chunks` is the loop of `EncryptedConn.Write`; `mkFrame` is the frame plaintext
  `le32 len ‖ chunk ‖ padding` of exactly `frameSize` bytes — the padding is *arbitrary* (the real
  code takes it from an un-zeroed pooled buffer, DESIGN §8-F9), so it is a parameter (`junk`);
* ChaCha20-Poly1305 is the ideal AEAD of DESIGN §5: `Wire.sealed k n p` is an opaque constructor and
  `openWire k n w = some p ↔ w = sealed k n p` (with `p` of frame size);
* `Reader.read` is `EncryptedConn.Read` with `checkUnread` / `holdUnread`.
-/
namespace Canopy.Transport
open Canopy

abbrev dataMax : Nat := Gen.Transport.maxDataSize
abbrev headerSize : Nat := Gen.Transport.lengthHeaderSize
abbrev frameSize : Nat := Gen.Transport.frameSize
abbrev encFrameSize : Nat := Gen.Transport.encryptedFrameSize

/-- `binary.LittleEndian.PutUint32` -/
def le32 (n : Nat) : Bytes :=
  [UInt8.ofNat n, UInt8.ofNat (n / 256), UInt8.ofNat (n / 65536), UInt8.ofNat (n / 16777216)]

/-- `binary.LittleEndian.Uint32` of the first four bytes -/
def le32Decode : Bytes → Nat
  | b0 :: b1 :: b2 :: b3 :: _ => b0.toNat + 256 * b1.toNat + 65536 * b2.toNat + 16777216 * b3.toNat
  | _ => 0

/-- exactly `n` bytes of padding taken from whatever the pooled buffer held (`junk`), zero-extended -/
def fitPad (junk : Bytes) (n : Nat) : Bytes := (junk ++ List.replicate n 0).take n

/-- frame plaintext: length header ‖ chunk ‖ padding up to the fixed frame size -/
def mkFrame (chunk junk : Bytes) : Bytes :=
  le32 chunk.length ++ chunk ++ fitPad junk (dataMax - chunk.length)

/-- the chunking loop of `EncryptedConn.Write`:
`for len(data) > 0 { if len(data) < MaxDataSize { chunk = data; data = nil } else { chunk = data[:Max]; data = data[Max:] } … }` -/
def chunks (data : Bytes) : List Bytes :=
  if data.length = 0 then []
  else if data.length < dataMax then [data]
  else data.take dataMax :: chunks (data.drop dataMax)
termination_by data.length
decreasing_by
  simp only [List.length_drop]
  have : 0 < dataMax := by decide
  omega

/-- what travels on the wire, frame-aligned -/
inductive Wire
  /-- ideal AEAD output: nothing but `openWire` with the same key and nonce looks inside -/
  | sealed (key : Nat) (nonce : UInt64) (plain : Bytes)
  /-- a bit string that is not the output of `seal` (a modified or fabricated ciphertext) -/
  | garbage (id : Nat)
  /-- a truncated frame followed by the end of the stream -/
  | cut
  deriving DecidableEq, Repr

/-- ideal AEAD `Open` on one `encFrameSize` read: succeeds only on an exact (key, nonce) match -/
def openWire (key : Nat) (nonce : UInt64) : Wire → Option Bytes
  | .sealed k n p => if k = key ∧ n = nonce ∧ p.length = frameSize then some p else none
  | _ => none

structure Writer where
  key : Nat
  nonce : UInt64
  deriving DecidableEq, Repr

/-- seal the given chunks under consecutive nonces -/
def sealChunks (key : Nat) (junk : Bytes) : UInt64 → List Bytes → UInt64 × List Wire
  | n, [] => (n, [])
  | n, c :: cs =>
    let (n', ws) := sealChunks key junk (Gen.Transport.incrementNonce n) cs
    (n', Wire.sealed key n (mkFrame c junk) :: ws)

/-- `EncryptedConn.Write`: returns the new state, the frames put on the wire and `n` -/
def Writer.write (w : Writer) (junk data : Bytes) : Writer × List Wire × Nat :=
  let (n', ws) := sealChunks w.key junk w.nonce (chunks data)
  ({ w with nonce := n' }, ws, data.length)

inductive ReadErr
  | decrypt   -- ErrConnDecryptFailed
  | tooLarge  -- ErrChunkLargerThanMax
  | eof       -- io.EOF from io.ReadFull (stream closed at a frame boundary)
  | short     -- io.ErrUnexpectedEOF (stream closed inside a frame)
  deriving DecidableEq, Repr

inductive ReadRes
  | data (b : Bytes)
  | err (e : ReadErr)
  /-- no complete frame available and the stream is open: the real `Read` blocks -/
  | blocked
  deriving DecidableEq, Repr

structure Reader where
  key : Nat
  nonce : UInt64
  unread : Bytes
  deriving DecidableEq, Repr

/-- header check and chunk extraction of `Read` -/
def parseFrame (plain : Bytes) : Except ReadErr Bytes :=
  let len := le32Decode plain
  if len > dataMax then .error .tooLarge else .ok ((plain.drop headerSize).take len)

/-- one direction of an established connection: frames in flight and whether the stream was closed -/
structure Chan where
  wire : List Wire
  closed : Bool
  deriving DecidableEq, Repr

/-- `EncryptedConn.Read(data)` with `len(data) = n` -/
def Reader.read (r : Reader) (n : Nat) (ch : Chan) : ReadRes × Reader × Chan :=
  if r.unread ≠ [] then
    -- checkUnread
    (.data (r.unread.take n), { r with unread := r.unread.drop n }, ch)
  else match ch.wire with
    | [] => (if ch.closed then .err .eof else .blocked, r, ch)
    | .cut :: rest =>
      -- a truncated frame: at the end of the stream `io.ReadFull` reports a short read; when more
      -- bytes follow, the next frame-sized read is misaligned (never a ciphertext) and the fragment
      -- moves on to the next read
      match rest with
      | [] => (.err .short, r, { ch with wire := [] })
      | _ :: rest' => (.err .decrypt, r, { ch with wire := .cut :: rest' })
    | w :: rest =>
      let ch' := { ch with wire := rest }
      match openWire r.key r.nonce w with
      | none => (.err .decrypt, r, ch')
      | some plain =>
        let r' := { r with nonce := Gen.Transport.incrementNonce r.nonce }
        match parseFrame plain with
        | .error e => (.err e, r', ch')
        | .ok chunk => (.data (chunk.take n), { r' with unread := chunk.drop n }, ch') -- holdUnread

/-! ### frame-level faults an intermediary without the key can apply -/

inductive Fault
  | flip (i : Nat) (id : Nat)     -- modify any bit(s) of frame i: it becomes a non-ciphertext
  | swap (i j : Nat)              -- reorder
  | dup (i : Nat)                 -- deliver frame i twice in a row
  | replay (h j : Nat)            -- re-insert the h-th frame ever sent at position j
  | drop (i : Nat)
  | inject (i : Nat) (id : Nat)   -- insert fabricated bytes at position i
  | trunc (i : Nat) (mid : Bool)  -- cut the stream after i frames (inside the next one if `mid`)
  | close                         -- end of stream at a frame boundary
  deriving DecidableEq, Repr

def listSet {α} (l : List α) (i : Nat) (a : α) : List α := l.set i a

def insertAt {α} (l : List α) (i : Nat) (a : α) : List α := l.take i ++ a :: l.drop i

/-- apply one fault to the frames in flight (`hist` = every frame ever sent on this direction);
`none` = index out of range -/
def applyFault (hist : List Wire) (ch : Chan) : Fault → Option Chan
  | .flip i id => if i < ch.wire.length then some { ch with wire := ch.wire.set i (.garbage id) } else none
  | .swap i j =>
    match ch.wire[i]?, ch.wire[j]? with
    | some a, some b => some { ch with wire := (ch.wire.set i b).set j a }
    | _, _ => none
  | .dup i =>
    match ch.wire[i]? with
    | some a => some { ch with wire := insertAt ch.wire i a }
    | none => none
  | .replay h j =>
    match hist[h]? with
    | some a => if j ≤ ch.wire.length then some { ch with wire := insertAt ch.wire j a } else none
    | none => none
  | .drop i => if i < ch.wire.length then some { ch with wire := ch.wire.eraseIdx i } else none
  | .inject i id => if i ≤ ch.wire.length then some { ch with wire := insertAt ch.wire i (.garbage id) } else none
  | .trunc i mid =>
    if i ≤ ch.wire.length then
      some { wire := ch.wire.take i ++ (if mid ∧ i < ch.wire.length then [.cut] else []), closed := true }
    else none
  | .close => some { ch with closed := true }

/-- the nonce of the `j`-th frame after `n0` -/
def nonceAt (n0 : UInt64) : Nat → UInt64
  | 0 => n0
  | j + 1 => nonceAt (Gen.Transport.incrementNonce n0) j

/-! ### a whole direction, as driven by the correspondence harness -/

structure Dir where
  w : Writer
  r : Reader
  ch : Chan
  hist : List Wire
  deriving Repr

def Dir.init (key : Nat) : Dir :=
  { w := ⟨key, 0⟩, r := ⟨key, 0, []⟩, ch := ⟨[], false⟩, hist := [] }

/-- a direction at the start of the SESSION: the encrypted part of the handshake has already used the
first `k` nonces of this direction (the signature frame and the meta frame), and the session goes on
with the same AEAD states — `NewHandshake` returns the very `EncryptedConn` it handshook on
(generated fact `sessionKeepsHandshakeState`). A recorded handshake frame is therefore just an old
frame of the same stream. -/
def Dir.afterHandshake (key k : Nat) : Dir :=
  { w := ⟨key, nonceAt 0 k⟩, r := ⟨key, nonceAt 0 k, []⟩, ch := ⟨[], false⟩, hist := [] }

def Dir.write (d : Dir) (junk data : Bytes) : Dir × Nat × Nat :=
  let (w', ws, n) := d.w.write junk data
  ({ d with w := w', ch := { d.ch with wire := d.ch.wire ++ ws }, hist := d.hist ++ ws }, n, ws.length)

def Dir.read (d : Dir) (n : Nat) : ReadRes × Dir :=
  let (res, r', ch') := d.r.read n d.ch
  (res, { d with r := r', ch := ch' })

def Dir.fault (d : Dir) (f : Fault) : Option Dir :=
  (applyFault d.hist d.ch f).map fun ch' => { d with ch := ch' }

/-- bytes delivered by a list of read results -/
def delivered : List ReadRes → Bytes
  | [] => []
  | .data b :: rest => b ++ delivered rest
  | _ :: rest => delivered rest

/-- read with the given buffer sizes, in order -/
def readMany (r : Reader) (ch : Chan) : List Nat → List ReadRes × Reader × Chan
  | [] => ([], r, ch)
  | n :: ns =>
    let (res, r', ch') := r.read n ch
    let (rs, r'', ch'') := readMany r' ch' ns
    (res :: rs, r'', ch'')

/-- as `readMany`, but the caller stops at the first error (what `MultiConn` and the handshake do) -/
def readUntilErr (r : Reader) (ch : Chan) : List Nat → List ReadRes × Reader × Chan
  | [] => ([], r, ch)
  | n :: ns =>
    let (res, r', ch') := r.read n ch
    match res with
    | .err _ => ([res], r', ch')
    | _ =>
      let (rs, r'', ch'') := readUntilErr r' ch' ns
      (res :: rs, r'', ch'')

/-- deterministic test pattern shared with the Go driver: byte i of pattern `seed` -/
def pattern (seed len : Nat) : Bytes :=
  (List.range len).map fun i => UInt8.ofNat ((seed + i * 7 + i / 251) % 256)

end Canopy.Transport

namespace Canopy.Transport

/-- honest use of one direction: any interleaving of writes (any sizes, any padding) and reads (any buffer sizes) -/
inductive Op
  | write (junk data : Bytes)
  | read (n : Nat)
  deriving Repr

/-- run the operations; returns the read results in order -/
def run (d : Dir) : List Op → List ReadRes × Dir
  | [] => ([], d)
  | .write junk data :: ops => run (d.write junk data).1 ops
  | .read n :: ops =>
    let (res, d') := d.read n
    let (rs, d'') := run d' ops
    (res :: rs, d'')

/-- concatenation of everything written -/
def written : List Op → Bytes
  | [] => []
  | .write _ data :: ops => data ++ written ops
  | .read _ :: ops => written ops

/-- length of the longest common prefix -/
def lcp [DecidableEq α] : List α → List α → Nat
  | a :: as, b :: bs => if a = b then lcp as bs + 1 else 0
  | _, _ => 0

/-- the frames a writer puts on the wire for a sequence of writes `(padding, data)` -/
def writeMany (w : Writer) : List (Bytes × Bytes) → Writer × List Wire
  | [] => (w, [])
  | (junk, data) :: rest =>
    let (w', ws, _) := w.write junk data
    let (w'', ws') := writeMany w' rest
    (w'', ws ++ ws')

/-- the chunks those writes are cut into, in order -/
def chunksOf (ds : List (Bytes × Bytes)) : List Bytes := ds.flatMap fun d => chunks d.2

/-- apply a fault schedule; faults whose index is out of range are skipped -/
def applyFaults (hist : List Wire) (ch : Chan) : List Fault → Chan
  | [] => ch
  | f :: fs => applyFaults hist ((applyFault hist ch f).getD ch) fs

end Canopy.Transport
