import Canopy.Model.Bytes
import Canopy.Model.Sha256
import Canopy.Model.DexArith
/-!
# Executable model of the sell-order book, escrow, and the cross-chain DEX (C20)

A literal transcription of `fsm/swap.go`, `fsm/dex.go`, the six order/DEX handlers of `fsm/message.go`
and the account/pool primitives of `fsm/account.go` they call, for ONE `StateMachine`:

* accounts and pools are finite maps (association lists); a missing entry reads as zero/empty exactly as
  `unmarshalAccount(nil)` / `unmarshalPool(nil)` do;
* amounts are `Nat` values `< 2^64`; every place where the Go code wraps (`PoolAdd`: unguarded `+=`) or
  guards (`AccountAdd`, `PoolSub`, `AddUint64`) is modelled literally;
* an operation that returns an error leaves the state unchanged (the harness runs every operation inside
  `TxnWrap` and discards the transaction on error, as `ApplyTransactions` does);
* errors are the constructor names of `fsm/error.go` / `lib/error.go`.

Core Lean only (linked into `driver_C20`). The handler bodies this file was written against are pinned by
digest in `Canopy.C20.handlers_pinned`.
-/
namespace Canopy.Dex
open Canopy

/-! ## finite maps -/
namespace AM
variable {κ ν : Type} [DecidableEq κ]

def get? : List (κ × ν) → κ → Option ν
  | [], _ => none
  | (k', v) :: m, k => if k' = k then some v else get? m k

def set : List (κ × ν) → κ → ν → List (κ × ν)
  | [], k, v => [(k, v)]
  | (k', v') :: m, k, v => if k' = k then (k, v) :: m else (k', v') :: set m k v

def del : List (κ × ν) → κ → List (κ × ν)
  | [], _ => []
  | (k', v') :: m, k => if k' = k then m else (k', v') :: del m k

end AM

/-! ## errors (names as in the Go constructors `Err<Name>()`) -/
inductive Err
  | InvalidChainId | InvalidOpcode | InvalidAmount | AddressEmpty | AddressSize
  | MinimumOrderSize | InsufficientFunds | OrderNotFound | OrderLocked | InvalidLockOrder
  | InvalidLiquidityPool | MaxDexBatchSize | PointHolderNotFound | ZeroLiquidityPool
  | RemotePoolSizeDebit | NilBlock | InvalidPercentAllocation | InvalidArgument | InvalidAddress
  | TooManyDexDeposits | TooManyDexWithdraws | TooManyDexOrders | TooManyDexReceipts
  | TooManyLiquidityProviders | InvalidBlockHash | NonNilPoolPoints
  deriving DecidableEq, Repr

/-! ## state -/

structure Pool where
  amount : Nat := 0
  /-- `Pool.Points` in slice order -/
  points : List (Bytes × Nat) := []
  /-- `Pool.TotalPoolPoints` -/
  total : Nat := 0
  deriving DecidableEq, Repr, Inhabited

structure SellOrder where
  id : Bytes
  committee : Nat
  data : Bytes
  amount : Nat
  requested : Nat
  sellerRecv : Bytes
  seller : Bytes
  buyerRecv : Bytes := []
  buyerSend : Bytes := []
  deadline : Nat := 0
  deriving DecidableEq, Repr

structure LimitOrder where
  amount : Nat
  requested : Nat
  addr : Bytes
  id : Bytes
  deriving DecidableEq, Repr

structure Deposit where
  amount : Nat
  addr : Bytes
  id : Bytes
  deriving DecidableEq, Repr

structure Withdraw where
  percent : Nat
  addr : Bytes
  id : Bytes
  deriving DecidableEq, Repr

/-- `lib.DexBatch` -/
structure Batch where
  committee : Nat := 0
  receiptHash : Bytes := []
  orders : List LimitOrder := []
  deposits : List Deposit := []
  withdrawals : List Withdraw := []
  poolSize : Nat := 0
  counterPoolSize : Nat := 0
  poolPoints : List (Bytes × Nat) := []
  totalPoolPoints : Nat := 0
  receipts : List Nat := []
  lockedHeight : Nat := 0
  livenessFallback : Bool := false
  deriving DecidableEq, Repr, Inhabited

structure State where
  /-- `Config.ChainId` -/
  self : Nat := 1
  /-- consensus parameter `RootChainId` -/
  root : Nat := 1
  height : Nat := 2
  /-- validator parameter `MinimumOrderSize` -/
  minOrder : Nat := 0
  accounts : List (Bytes × Nat) := []
  pools : List (Nat × Pool) := []
  /-- order book, keyed as `KeyForOrder(chainId, orderId)` -/
  orders : List ((Nat × Bytes) × SellOrder) := []
  /-- stored next batches (`KeyForNextBatch`) -/
  next : List (Nat × Batch) := []
  /-- stored locked batches (`KeyForLockedBatch`) -/
  locked : List (Nat × Batch) := []
  deriving Repr, Inhabited

abbrev M := Except Err

/-! ## accounts and pools (`fsm/account.go`) -/

def maxU64 : Nat := U64 - 1

def balance (s : State) (a : Bytes) : Nat := (AM.get? s.accounts a).getD 0

/-- `SetAccount`: a zero balance deletes the record -/
def setBalance (s : State) (a : Bytes) (v : Nat) : State :=
  { s with accounts := if v = 0 then AM.del s.accounts a else AM.set s.accounts a v }

/-- `AccountAdd` -/
def accountAdd (s : State) (a : Bytes) (n : Nat) : M State :=
  if n = 0 then .ok s
  else if balance s a > maxU64 - n then .error .InvalidAmount
  else .ok (setBalance s a (balance s a + n))

/-- `AccountSub` (no vesting schedules in this model: spendable = amount) -/
def accountSub (s : State) (a : Bytes) (n : Nat) : M State :=
  if n = 0 then .ok s
  else if balance s a < n then .error .InsufficientFunds
  else .ok (setBalance s a (balance s a - n))

def getPool (s : State) (id : Nat) : Pool := (AM.get? s.pools id).getD {}

/-- `SetPool`. A pool whose amount is zero is deleted from the store (its points with it) but stays in the
FSM cache until `ResetCaches`; `normalize` is that reset. -/
def setPool (s : State) (id : Nat) (p : Pool) : State := { s with pools := AM.set s.pools id p }

/-- `PoolAdd`: `pool.Amount += amountToAdd` — unguarded, wraps modulo 2^64 -/
def poolAdd (s : State) (id : Nat) (n : Nat) : State :=
  let p := getPool s id
  setPool s id { p with amount := (p.amount + n) % U64 }

/-- `PoolSub` -/
def poolSub (s : State) (id : Nat) (n : Nat) : M State :=
  let p := getPool s id
  if p.amount < n then .error .InsufficientFunds
  else .ok (setPool s id { p with amount := p.amount - n })

/-- `ResetCaches` as far as it is observable here: a zero-amount pool exists only in the cache, so after the
reset it reads as the empty pool (its points are gone) -/
def normalize (s : State) : State :=
  { s with pools := s.pools.map fun e => if e.2.amount = 0 then (e.1, {}) else e }

/-- pool ids (`fsm/key.go`), computed in `uint64` -/
def escrowId (chain : Nat) : Nat := (chain + Gen.Dex.EscrowPoolAddend) % U64
def holdingId (chain : Nat) : Nat := (chain + Gen.Dex.HoldingPoolAddend) % U64
def liquidityId (chain : Nat) : Nat := (chain + Gen.Dex.LiquidityPoolAddend) % U64

/-! ## stateless message checks (`fsm/message_helpers.go`) -/

/-- `MaxChainId = MaxUint16 / 4`; reserved: `UnknownChainId = 0`, `DAOPoolID = 2*MaxUint16+1` (> MaxChainId) -/
def maxChainId : Nat := 16383

def checkChainId (c : Nat) : M Unit :=
  if c = 0 ∨ c = 131071 then .error .InvalidChainId
  else if c > maxChainId then .error .InvalidChainId else .ok ()

/-- `checkAddress`; the wire protocol cannot distinguish nil from empty: both are `[]` and both are rejected
(`ErrAddressEmpty` for nil, `ErrAddressSize` for empty non-nil — the harness always sends nil for empty). -/
def checkAddress (a : Bytes) : M Unit :=
  if a = [] then .error .AddressEmpty else if a.length ≠ 20 then .error .AddressSize else .ok ()

def checkExternalAddress (a : Bytes) : M Unit :=
  if a.length = 0 ∨ a.length > 255 then .error .AddressSize else .ok ()

/-! ## sell orders (`fsm/message.go`, `fsm/swap.go`) -/

def getOrder (s : State) (chain : Nat) (id : Bytes) : M SellOrder :=
  match AM.get? s.orders (chain, id) with
  | some o => .ok o
  | none => .error .OrderNotFound

def setOrder (s : State) (chain : Nat) (o : SellOrder) : State :=
  { s with orders := AM.set s.orders (chain, o.id) o }

def deleteOrder (s : State) (chain : Nat) (id : Bytes) : State :=
  { s with orders := AM.del s.orders (chain, id) }

structure CreateOrder where
  chain : Nat
  id : Bytes
  data : Bytes
  amount : Nat
  requested : Nat
  sellerRecv : Bytes
  seller : Bytes

/-- `MessageCreateOrder.Check` then `HandleMessageCreateOrder` (the order id is populated between the two,
from the transaction hash, by `PopulateSpecialMessageFields`) -/
def createOrder (s : State) (m : CreateOrder) : M State := do
  checkChainId m.chain
  if m.data.length > 100 then throw .InvalidOpcode
  if m.amount = 0 ∨ m.requested = 0 then throw .InvalidAmount
  checkAddress m.seller
  checkExternalAddress m.sellerRecv
  if m.amount < s.minOrder then throw .MinimumOrderSize
  let s ← accountSub s m.seller m.amount
  let s := poolAdd s (escrowId m.chain) m.amount
  pure (setOrder s m.chain
    { id := m.id, committee := m.chain, data := m.data, amount := m.amount, requested := m.requested,
      sellerRecv := m.sellerRecv, seller := m.seller })

structure EditOrder where
  chain : Nat
  id : Bytes
  data : Bytes
  amount : Nat
  requested : Nat
  sellerRecv : Bytes

/-- `MessageEditOrder.Check`, `GetAuthorizedSignersFor` (order must exist), `HandleMessageEditOrder` -/
def editOrder (s : State) (m : EditOrder) : M State := do
  checkChainId m.chain
  if m.data.length > 100 then throw .InvalidOpcode
  if m.amount = 0 ∨ m.requested = 0 then throw .InvalidAmount
  checkExternalAddress m.sellerRecv
  let o ← getOrder s m.chain m.id
  if o.buyerRecv ≠ [] then throw .OrderLocked
  if m.amount < s.minOrder then throw .MinimumOrderSize
  let s ←
    if m.amount > o.amount then do
      let s ← accountSub s o.seller (m.amount - o.amount)
      pure (poolAdd s (escrowId m.chain) (m.amount - o.amount))
    else if m.amount < o.amount then do
      let s ← poolSub s (escrowId m.chain) (o.amount - m.amount)
      accountAdd s o.seller (o.amount - m.amount)
    else pure s
  pure (setOrder s m.chain
    { id := o.id, committee := m.chain, data := m.data, amount := m.amount, requested := m.requested,
      sellerRecv := m.sellerRecv, seller := o.seller })

/-- `MessageDeleteOrder.Check`, `HandleMessageDeleteOrder` -/
def deleteOrderMsg (s : State) (chain : Nat) (id : Bytes) : M State := do
  checkChainId chain
  let o ← getOrder s chain id
  if o.buyerRecv ≠ [] then throw .OrderLocked
  let s ← poolSub s (escrowId chain) o.amount
  let s ← accountAdd s o.seller o.amount
  pure (deleteOrder s chain id)

structure LockOrder where
  id : Bytes
  buyerRecv : Bytes
  buyerSend : Bytes
  deadline : Nat
  deriving DecidableEq, Repr

/-- `LockOrder` -/
def lockOrder (s : State) (chain : Nat) (l : LockOrder) : M State := do
  let o ← getOrder s chain l.id
  if o.buyerRecv ≠ [] then throw .OrderLocked
  pure (setOrder s chain { o with buyerRecv := l.buyerRecv, buyerSend := l.buyerSend, deadline := l.deadline })

/-- `ResetOrder` -/
def resetOrder (s : State) (chain : Nat) (id : Bytes) : M State := do
  let o ← getOrder s chain id
  pure (setOrder s chain { o with buyerRecv := [], buyerSend := [], deadline := 0 })

/-- `CloseOrder`: both legs are pre-checked, then escrow → buyer, then the order is deleted -/
def closeOrder (s : State) (chain : Nat) (id : Bytes) : M State := do
  let o ← getOrder s chain id
  if o.buyerRecv = [] then throw .InvalidLockOrder
  if balance s o.buyerRecv > maxU64 - o.amount then throw .InvalidAmount
  if (getPool s (escrowId chain)).amount < o.amount then throw .InsufficientFunds
  let s ← poolSub s (escrowId chain) o.amount
  let s ← accountAdd s o.buyerRecv o.amount
  pure (deleteOrder s chain id)

/-- an instruction that fails is logged and skipped -/
def orSkip (s : State) (r : M State) : State :=
  match r with
  | .ok s' => s'
  | .error _ => s

/-- `lib.Orders`; a `nil` lock order is `none` -/
structure Orders where
  locks : List (Option LockOrder) := []
  resets : List Bytes := []
  closes : List Bytes := []

/-- `HandleCommitteeSwaps`: all locks, then all resets that are not also closes, then all closes; in list
order; each failing instruction skipped -/
def handleCommitteeSwaps (s : State) (chain : Nat) (o : Orders) : State :=
  let s := o.locks.foldl (fun s l => match l with
    | none => s
    | some l => orSkip s (lockOrder s chain l)) s
  let s := o.resets.foldl (fun s id => if o.closes.contains id then s else orSkip s (resetOrder s chain id)) s
  o.closes.foldl (fun s id => orSkip s (closeOrder s chain id)) s

/-! ## DEX: wire encoding and hashes (`lib/dex.go`)

`DexBatch.Hash()` is SHA-256 of the deterministic protobuf encoding of `Copy()` (which omits
`CounterPoolSize`, `PoolPoints`, `TotalPoolPoints`); the order-shuffle key of `HashKey` is SHA-256 of
`blockHash ‖ be64(index) ‖ proto(order without OrderId)`. Both are computed here byte for byte. -/

def varint (n : Nat) : Bytes :=
  if h : n < 128 then [UInt8.ofNat n] else UInt8.ofNat (n % 128 + 128) :: varint (n / 128)
termination_by n
decreasing_by omega

/-- proto3 scalar field: omitted when zero -/
def pVarint (field n : Nat) : Bytes := if n = 0 then [] else varint (field * 8) ++ varint n
/-- proto3 bytes field: omitted when empty -/
def pBytes (field : Nat) (b : Bytes) : Bytes := if b = [] then [] else varint (field * 8 + 2) ++ varint b.length ++ b
/-- embedded message (always present as a repeated element) -/
def pMsg (field : Nat) (b : Bytes) : Bytes := varint (field * 8 + 2) ++ varint b.length ++ b

def LimitOrder.proto (o : LimitOrder) : Bytes :=
  pVarint 1 o.amount ++ pVarint 2 o.requested ++ pBytes 3 o.addr ++ pBytes 4 o.id
def Deposit.proto (d : Deposit) : Bytes := pBytes 1 d.addr ++ pVarint 2 d.amount ++ pBytes 4 d.id
def Withdraw.proto (w : Withdraw) : Bytes := pBytes 1 w.addr ++ pVarint 2 w.percent ++ pBytes 4 w.id

/-- Σ amounts of the orders and deposits of a batch (what the holding pool holds for it) -/
def Batch.pending (b : Batch) : Nat := (b.orders.map (·.amount)).sum + (b.deposits.map (·.amount)).sum

/-- `Batch.IsEmpty` -/
def Batch.isEmpty (b : Batch) : Bool :=
  b.receiptHash.isEmpty && b.receipts.isEmpty && b.orders.isEmpty && b.withdrawals.isEmpty && b.deposits.isEmpty

/-- `lib.EmptyReceiptsHash`: 32 × 'F' -/
def emptyReceiptsHash : Bytes := List.replicate 32 70

/-- encoding of `x.Copy()` -/
def Batch.protoCopy (b : Batch) : Bytes :=
  pVarint 1 b.committee ++ pBytes 2 b.receiptHash ++
  (b.orders.flatMap fun o => pMsg 3 o.proto) ++ (b.deposits.flatMap fun d => pMsg 4 d.proto) ++
  (b.withdrawals.flatMap fun w => pMsg 5 w.proto) ++ pVarint 6 b.poolSize ++
  (if b.receipts = [] then [] else pMsg 10 (b.receipts.flatMap varint)) ++
  pVarint 11 b.lockedHeight ++ pVarint 12 (if b.livenessFallback then 1 else 0)

/-- `DexBatch.Hash()` (an empty batch is hashed with `ReceiptHash := EmptyReceiptsHash`) -/
def Batch.hash (b : Batch) : Bytes :=
  let b := if b.isEmpty then { b with receiptHash := emptyReceiptsHash } else b
  sha256 b.protoCopy

def be64 (n : Nat) : Bytes := (List.range 8).map fun i => UInt8.ofNat (n / 256 ^ (7 - i) % 256)

/-- `HashKey(i, blockHash)` of `order.Copy()` (the copy drops the order id) -/
def orderKeyInput (blockHash : Bytes) (i : Nat) (o : LimitOrder) : Bytes :=
  blockHash ++ be64 i ++ ({ o with id := [] } : LimitOrder).proto

/-- the shuffle/payout key of order `i`: the hash of `orderKeyInput`, paired with the index it was computed for.
The real key is the hash string alone; the index is written into the hashed bytes at full 64-bit width
(`binary.BigEndian.PutUint64(idxBz, uint64(index))`, pinned by `Canopy.C20.hashKey_source`), so the input determines
the index (`orderKeyInput_index_injective`) and, SHA-256 being collision-free, so does the key. Carrying the index
makes that explicit: two orders never share a payout slot, whatever their contents. -/
abbrev OrderKey := Nat × Bytes

def orderKey (blockHash : Bytes) (i : Nat) (o : LimitOrder) : OrderKey :=
  (i, sha256 (orderKeyInput blockHash i o))

/-! ## DEX: batches in the store -/

def bytesLt : Bytes → Bytes → Bool
  | [], [] => false
  | [], _ :: _ => true
  | _ :: _, [] => false
  | a :: as, b :: bs => a < b || (a == b && bytesLt as bs)

/-- `GetDexBatch(chainId, locked)`: the stored batch, or `{Committee, PoolSize: liquidity pool}` when nothing
(or an all-default batch, whose encoding is empty) is stored -/
def getBatch (s : State) (chain : Nat) (locked : Bool) : Batch :=
  let dflt : Batch := { committee := chain, poolSize := (getPool s (liquidityId chain)).amount }
  match AM.get? (if locked then s.locked else s.next) chain with
  | some b => if b = {} then dflt else b
  | none => dflt

def setNext (s : State) (chain : Nat) (b : Batch) : State := { s with next := AM.set s.next chain b }
def delNext (s : State) (chain : Nat) : State := { s with next := AM.del s.next chain }
def setLocked (s : State) (chain : Nat) (b : Batch) : State := { s with locked := AM.set s.locked chain b }
def delLocked (s : State) (chain : Nat) : State := { s with locked := AM.del s.locked chain }

/-! ## DEX: the three user messages (`fsm/message.go`) -/

def checkAmount (n : Nat) : M Unit := if n = 0 then .error .InvalidAmount else .ok ()
def checkPercent (n : Nat) : M Unit := if n = 0 ∨ n > 100 then .error .InvalidPercentAllocation else .ok ()

/-- `Pool.GetPointsFor`: first entry with the address -/
def pointsFor (p : Pool) (a : Bytes) : Option Nat := AM.get? p.points a

def dexLimitOrder (s : State) (chain : Nat) (o : LimitOrder) : M State := do
  checkAddress o.addr
  checkAmount o.amount
  checkAmount o.requested
  checkChainId chain
  let b := getBatch s chain false
  if b.poolSize = 0 ∨ s.self = chain then throw .InvalidLiquidityPool
  if b.orders.length ≥ Gen.Dex.MaxOrdersPerDexBatch then throw .MaxDexBatchSize
  let s ← accountSub s o.addr o.amount
  let s := poolAdd s (holdingId chain) o.amount
  pure (setNext s chain { b with orders := b.orders ++ [o] })

def dexDeposit (s : State) (chain : Nat) (d : Deposit) : M State := do
  checkAddress d.addr
  checkAmount d.amount
  checkChainId chain
  let b := getBatch s chain false
  if (getPool s (liquidityId chain)).amount = 0 ∨ s.self = chain then throw .InvalidLiquidityPool
  if b.deposits.length ≥ Gen.Dex.MaxDepositsPerDexBatch then throw .MaxDexBatchSize
  let s ← accountSub s d.addr d.amount
  let s := poolAdd s (holdingId chain) d.amount
  pure (setNext s chain { b with deposits := b.deposits ++ [d] })

def dexWithdraw (s : State) (chain : Nat) (w : Withdraw) : M State := do
  checkAddress w.addr
  checkPercent w.percent
  checkChainId chain
  let b := getBatch s chain false
  if b.poolSize = 0 ∨ s.self = chain then throw .InvalidLiquidityPool
  if b.withdrawals.length ≥ Gen.Dex.MaxWithdrawsPerDexBatch then throw .MaxDexBatchSize
  match pointsFor (getPool s (liquidityId chain)) w.addr with
  | none => throw .PointHolderNotFound
  | some _ => pure (setNext s chain { b with withdrawals := b.withdrawals ++ [w] })

/-! ## DEX: liquidity points (`fsm/account.go`) -/

/-- `0xdead…dead` (20 bytes) -/
def deadAddr : Bytes := (List.range 20).map fun i => if i % 2 = 0 then 0xde else 0xad

def subU64 (a b : Nat) : Nat := (a + U64 - b) % U64

/-- `Pool.AddPoints` -/
def addPoints (p : Pool) (a : Bytes) (n : Nat) : M Pool :=
  if n = 0 then .ok p else
  match AM.get? p.points a with
  | some cur =>
    if p.total > maxU64 - n then .error .InvalidAmount
    else if cur > maxU64 - n then .error .InvalidAmount
    else .ok { p with total := p.total + n, points := AM.set p.points a (cur + n) }
  | none =>
    if p.total > maxU64 - n then .error .InvalidAmount
    else if p.points.length ≥ Gen.Dex.MaxLiquidityProviders then .error .InvalidLiquidityPool
    else .ok { p with total := p.total + n, points := p.points ++ [(a, n)] }

def dropZero (pts : List (Bytes × Nat)) : List (Bytes × Nat) := pts.filter (·.2 ≠ 0)

/-- index of the LAST entry with the address (`pointsByAddress` is filled in slice order, later wins) -/
def lastIdx (pts : List (Bytes × Nat)) (a : Bytes) : Option Nat :=
  let rec go : List (Bytes × Nat) → Nat → Option Nat → Option Nat
    | [], _, acc => acc
    | (k, _) :: rest, i, acc => go rest (i + 1) (if k = a then some i else acc)
  go pts 0 none

def ptsAt (pts : List (Bytes × Nat)) (i : Nat) : Nat := (pts[i]?.map (·.2)).getD 0
def setPtsAt (pts : List (Bytes × Nat)) (i v : Nat) : List (Bytes × Nat) :=
  match pts[i]? with
  | some (k, _) => pts.set i (k, v)
  | none => pts

/-! ## DEX: withdrawals (`handleBatchWithdraw`) -/

/-- first pass: total points the batch removes -/
def withdrawTotal (pts : List (Bytes × Nat)) : List Withdraw → Nat → M Nat
  | [], acc => .ok acc
  | w :: ws, acc =>
    match lastIdx pts w.addr with
    | none => withdrawTotal pts ws acc
    | some i =>
      let r := addUint64 acc (safeMulDiv (ptsAt pts i) w.percent 100)
      if r.2 then .error .InvalidLiquidityPool else withdrawTotal pts ws r.1

structure WState where
  s : State
  p : Pool
  paidX : Nat := 0
  paidY : Nat := 0

/-- second pass: burn points, pay the shares -/
def withdrawPay (totalX totalY T : Nat) (isLocal : Bool) : List Withdraw → WState → M WState
  | [], st => .ok st
  | w :: ws, st =>
    match lastIdx st.p.points w.addr with
    | none => withdrawPay totalX totalY T isLocal ws st
    | some i => do
      let held := ptsAt st.p.points i
      let points := safeMulDiv held w.percent 100
      let yShare := safeMulDiv totalY points T
      let xShare := safeMulDiv totalX points T
      let p := { st.p with total := subU64 st.p.total points, points := setPtsAt st.p.points i (subU64 held points) }
      let payout := if isLocal then xShare else yShare
      let s ← accountAdd st.s w.addr payout
      withdrawPay totalX totalY T isLocal ws
        { s := s, p := p, paidX := (st.paidX + xShare) % U64, paidY := (st.paidY + yShare) % U64 }

/-- the ledgers `x`, `y` are in/out parameters (`*uint64`) -/
structure Ledger where
  s : State
  p : Pool
  x : Nat
  y : Nat

/-- `handleBatchWithdraw(batch, chain, x, y, local, p, persist)`; `p0 = none` loads the liquidity pool -/
def batchWithdraw (s : State) (ws : List Withdraw) (chain : Nat) (x y : Nat) (isLocal : Bool)
    (p0 : Option Pool) (persist : Bool) : M Ledger := do
  let pIn := p0.getD (getPool s (liquidityId chain))
  if ws = [] then return { s, p := pIn, x, y }
  let p : Pool := { pIn with points := dropZero pIn.points }
  let T ← withdrawTotal p.points ws 0
  if T = 0 ∨ p.total = 0 then
    return { s := if persist then setPool s (liquidityId chain) p else s, p, x, y }
  let totalY := safeMulDiv y T p.total
  let totalX := safeMulDiv x T p.total
  let st ← withdrawPay totalX totalY T isLocal ws { s, p }
  let p : Pool := { st.p with points := dropZero st.p.points }
  if p.total = 0 then throw .ZeroLiquidityPool
  let y := subU64 y st.paidY
  let x := subU64 x st.paidX
  let p := { p with amount := if isLocal then x else y }
  return { s := if persist then setPool st.s (liquidityId chain) p else st.s, p, x, y }

/-! ## DEX: deposits (`handleBatchDeposit`, `handleCappedBatchDeposit`) -/

def sumDeposits : List Deposit → Nat → M Nat
  | [], acc => .ok acc
  | d :: ds, acc =>
    let r := addUint64 acc d.amount
    if r.2 then .error .InvalidLiquidityPool else sumDeposits ds r.1

structure P1 where
  s : State
  accepted : List Bool := []
  seen : List Bytes := []
  projected : Nat
  total : Nat := 0

/-- PASS 1: per-deposit holder cap; a new LP at capacity is refunded (local side) and skipped -/
def depositPass1 (p : Pool) (chain : Nat) (isLocal : Bool) : List Deposit → P1 → M P1
  | [], st => .ok st
  | d :: ds, st => do
    let isNew := decide (d.amount > 0) && (pointsFor p d.addr).isNone && !st.seen.contains d.addr
    if isNew && decide (st.projected ≥ Gen.Dex.MaxLiquidityProviders) then
      let s ← if isLocal then do
          let s ← poolSub st.s (holdingId chain) d.amount
          accountAdd s d.addr d.amount
        else pure st.s
      depositPass1 p chain isLocal ds { st with s := s, accepted := st.accepted ++ [false] }
    else
      let r := addUint64 st.total d.amount
      if r.2 then throw .InvalidLiquidityPool
      depositPass1 p chain isLocal ds
        { st with accepted := st.accepted ++ [true], total := r.1,
                  seen := if isNew then st.seen ++ [d.addr] else st.seen,
                  projected := if isNew then st.projected + 1 else st.projected }

structure P2 where
  s : State
  p : Pool
  x : Nat
  distributed : Nat := 0

/-- the local leg of one accepted deposit: holding pool → liquidity pool (`p.Amount += amount`, guarded) -/
def depositLocal (s : State) (p : Pool) (chain : Nat) (d : Deposit) (isLocal : Bool) : M (State × Pool) :=
  if isLocal then
    match poolSub s (holdingId chain) d.amount with
    | .error e => .error e
    | .ok s =>
      if (addUint64 p.amount d.amount).2 then .error .InvalidLiquidityPool
      else .ok (s, { p with amount := (addUint64 p.amount d.amount).1 })
  else .ok (s, p)

/-- PASS 2: pro-rata points for the accepted deposits; local deposits move holding → liquidity -/
def depositPass2 (totalDL totalDeposit chain : Nat) (isLocal : Bool) : List (Deposit × Bool) → P2 → M P2
  | [], st => .ok st
  | (_, false) :: ds, st => depositPass2 totalDL totalDeposit chain isLocal ds st
  | (d, true) :: ds, st =>
    match addPoints st.p d.addr (safeMulDiv totalDL d.amount totalDeposit) with
    | .error e => .error e
    | .ok p =>
      match depositLocal st.s p chain d isLocal with
      | .error e => .error e
      | .ok sp =>
        if (addUint64 st.x d.amount).2 then .error .InvalidLiquidityPool
        else depositPass2 totalDL totalDeposit chain isLocal ds
          { s := sp.1, p := sp.2, x := (addUint64 st.x d.amount).1,
            distributed := (st.distributed + safeMulDiv totalDL d.amount totalDeposit) % U64 }

def mapErr (r : Except DepErr Nat) : M Nat :=
  match r with
  | .ok v => .ok v
  | .error _ => .error .InvalidLiquidityPool

/-- `L`: the pool's points, initialised to `√(x·y)` for the dead address when there are none yet -/
def initDead (p : Pool) (x y : Nat) : M (Nat × Pool) :=
  if p.total = 0 then
    match addPoints p deadAddr (sqrtProduct x y) with
    | .error e => .error e
    | .ok p' => .ok (sqrtProduct x y, p')
  else .ok (p.total, p)

/-- the minting part of `handleBatchDeposit` once PASS 1 accepted deposits worth `p1.total` -/
def mintDeposits (p1 : P1) (p : Pool) (ds : List Deposit) (chain x y : Nat) (isLocal persist : Bool) : M Ledger :=
  match initDead p x y with
  | .error e => .error e
  | .ok lp =>
    match mapErr (liquidityDepositPoints lp.1 x y p1.total) with
    | .error e => .error e
    | .ok totalDL =>
      match depositPass2 totalDL p1.total chain isLocal (ds.zip p1.accepted) { s := p1.s, p := lp.2, x := x } with
      | .error e => .error e
      | .ok p2 =>
        match addPoints p2.p deadAddr (totalDL - p2.distributed) with
        | .error e => .error e
        | .ok pf => .ok { s := if persist then setPool p2.s (liquidityId chain) pf else p2.s, p := pf, x := p2.x, y := y }

/-- `handleBatchDeposit` with `checkCap = false` (the capped wrapper is `batchDeposit` below) -/
def batchDepositCore (s : State) (ds : List Deposit) (chain : Nat) (x y : Nat) (isLocal : Bool)
    (p0 : Option Pool) (persist : Bool) : M Ledger :=
  let p := p0.getD (getPool s (liquidityId chain))
  if ds = [] then .ok { s, p, x, y } else
  match sumDeposits ds 0 with
  | .error e => .error e
  | .ok raw =>
    if raw = 0 ∨ x = 0 ∨ y = 0 then .ok { s, p, x, y } else
    match depositPass1 p chain isLocal ds { s, projected := p.points.length } with
    | .error e => .error e
    | .ok p1 =>
      if p1.total = 0 then .ok { s := p1.s, p, x, y }
      else mintDeposits p1 p ds chain x y isLocal persist

structure Newcomer where
  amount : Nat
  deposits : List Deposit

/-- classify deposits: incumbents (existing provider or zero amount) and per-address newcomers, in batch order -/
def classify (providers : List Bytes) : List Deposit → List Deposit → List (Bytes × Newcomer) → M (List Deposit × List (Bytes × Newcomer))
  | [], inc, nc => .ok (inc, nc)
  | d :: ds, inc, nc =>
    if providers.contains d.addr || d.amount = 0 then classify providers ds (inc ++ [d]) nc
    else
      let cur := (AM.get? nc d.addr).getD { amount := 0, deposits := [] }
      let r := addUint64 cur.amount d.amount
      if r.2 then .error .InvalidLiquidityPool
      else
        let nc' := match AM.get? nc d.addr with
          | some _ => AM.set nc d.addr { amount := r.1, deposits := cur.deposits ++ [d] }
          | none => nc ++ [(d.addr, { amount := r.1, deposits := [d] })]
        classify providers ds inc nc'

/-- stable insertion sort (`sort.SliceStable`) -/
def insertSorted {α} (lt : α → α → Bool) (a : α) : List α → List α
  | [] => [a]
  | b :: bs => if lt b a then b :: insertSorted lt a bs else a :: b :: bs

def stableSort {α} (lt : α → α → Bool) (l : List α) : List α :=
  l.foldr (fun a acc => insertSorted lt a acc) []

/-- first non-dead holder with the fewest points -/
def lowestHolder (pts : List (Bytes × Nat)) : Option (Bytes × Nat) :=
  pts.foldl (fun acc e => if e.1 ≠ deadAddr && (match acc with | none => true | some l => decide (e.2 < l.2)) then some e else acc) none

def newcomerShare (totalShare amount : Nat) (ds : List Deposit) : Nat :=
  ds.foldl (fun acc d => (acc + safeMulDiv totalShare d.amount amount) % U64) 0

/-- `lowest` is computed once and kept until an eviction resets it -/
def pickLowest (cur : Option (Bytes × Nat)) (pts : List (Bytes × Nat)) : Option (Bytes × Nat) :=
  match cur with
  | some e => some e
  | none => lowestHolder pts

/-- a newcomer meets a full pool: compare with the lowest holder `low`; reject the newcomer or evict `low` -/
def cappedEvict (chain : Nat) (isLocal : Bool) (nc : Newcomer) (l : Ledger) (low : Bytes × Nat) :
    M (Ledger × Option (Bytes × Nat)) := do
  let xOut := safeMulDiv l.x low.2 l.p.total
  let yOut := safeMulDiv l.y low.2 l.p.total
  let totalShare ← mapErr (liquidityDepositPoints (subU64 l.p.total low.2) (subU64 l.x xOut) (subU64 l.y yOut) nc.amount)
  let share := newcomerShare totalShare nc.amount nc.deposits
  if share ≤ low.2 then
    let s ← if isLocal then do
        let s ← poolSub l.s (holdingId chain) nc.amount
        accountAdd s ((nc.deposits.head?.map (·.addr)).getD []) nc.amount
      else pure l.s
    pure ({ l with s := s }, some low)
  else
    let l ← batchWithdraw l.s [{ percent := 100, addr := low.1, id := [] }] chain l.x l.y isLocal (some l.p) false
    let l ← batchDepositCore l.s nc.deposits chain l.x l.y isLocal (some l.p) false
    pure (l, none)

/-- one iteration of the newcomer loop of `handleCappedBatchDeposit`: the ledger and the `lowest` pointer after it -/
def cappedStep (chain : Nat) (isLocal : Bool) (nc : Newcomer) (l : Ledger) (lowest : Option (Bytes × Nat)) :
    M (Ledger × Option (Bytes × Nat)) :=
  if l.p.points.length < Gen.Dex.MaxLiquidityProviders then
    match batchDepositCore l.s nc.deposits chain l.x l.y isLocal (some l.p) false with
    | .error e => .error e
    | .ok l => .ok (l, lowest)
  else
    match pickLowest lowest l.p.points with
    | none => .error .InvalidLiquidityPool
    | some low => cappedEvict chain isLocal nc l low

/-- the newcomer loop of `handleCappedBatchDeposit` -/
def cappedLoop (chain : Nat) (isLocal : Bool) : List Newcomer → Ledger → Option (Bytes × Nat) → M Ledger
  | [], l, _ => .ok l
  | nc :: rest, l, lowest =>
    match cappedStep chain isLocal nc l lowest with
    | .error e => .error e
    | .ok r => cappedLoop chain isLocal rest r.1 r.2

/-- `handleBatchDeposit(…, checkCap = true, nil, true)` -/
def batchDeposit (s : State) (b : Batch) (chain : Nat) (x y : Nat) (isLocal : Bool) : M Ledger := do
  let p := getPool s (liquidityId chain)
  if b.deposits = [] then return { s, p, x, y }
  let (inc, ncs) ← classify (p.points.map (·.1)) b.deposits [] []
  if p.points.length + ncs.length ≤ Gen.Dex.MaxLiquidityProviders then
    batchDepositCore s b.deposits chain x y isLocal (some p) true
  else
    let l ← batchDepositCore s inc chain x y isLocal (some p) false
    let tie (n : Newcomer) : Bytes := sha256 (b.receiptHash ++ (n.deposits.head?.map (·.addr)).getD [])
    let sorted := stableSort (fun (a c : Newcomer) => decide (a.amount > c.amount) || (a.amount == c.amount && bytesLt (tie a) (tie c))) (ncs.map (·.2))
    let l ← cappedLoop chain isLocal sorted l none
    return { l with s := setPool l.s (liquidityId chain) l.p }

/-! ## DEX: receipts for our locked batch, orders of the remote batch -/

/-- `HandleOrderReceipts` -/
def orderReceipts (chain : Nat) : List LimitOrder → List Nat → State → Nat → Nat → M (State × Nat × Nat)
  | [], _, s, x, y => .ok (s, x, y)
  | o :: os, rs, s, x, y => do
    let s ← poolSub s (holdingId chain) o.amount
    let dY := rs.head?.getD 0
    if dY ≠ 0 then
      if y ≤ dY then throw .RemotePoolSizeDebit
      let s := poolAdd s (liquidityId chain) o.amount
      orderReceipts chain os rs.tail s ((x + o.amount) % U64) (y - dY)
    else
      let s ← accountAdd s o.addr o.amount
      orderReceipts chain os rs.tail s x y

/-- the AMM loop over the shuffled orders, capped per block -/
def ammLoop : List (OrderKey × LimitOrder) → Nat → Nat → Nat → List (OrderKey × Nat) → M (Nat × Nat × List (OrderKey × Nat))
  | [], _, x, y, res => .ok (x, y, res)
  | (k, o) :: rest, i, x, y, res =>
    if i ≥ Gen.Dex.MaxOrdersSettledPerBlock then .ok (x, y, res)
    else
      match computeDY x y o.amount with
      | none => .error .NilBlock -- unreachable: `x ≠ 0` is checked before the loop (would be a panic)
      | some dY0 =>
        let dY := if dY0 < o.requested then 0 else dY0
        if dY ≠ 0 then
          let r := addUint64 x o.amount
          if r.2 then .error .InvalidLiquidityPool
          else ammLoop rest (i + 1) r.1 (y - dY) (res ++ [(k, dY)])
        else ammLoop rest (i + 1) x y (res ++ [(k, 0)])

def payReceipts (chain : Nat) : List (OrderKey × LimitOrder) → List (OrderKey × Nat) → State → List Nat → M (State × List Nat)
  | [], _, s, acc => .ok (s, acc)
  | (k, o) :: rest, res, s, acc => do
    let out := (AM.get? res k).getD 0
    if out ≠ 0 then
      let s ← poolSub s (liquidityId chain) out
      let s ← accountAdd s o.addr out
      payReceipts chain rest res s (acc ++ [out])
    else payReceipts chain rest res s (acc ++ [out])

/-- `HandleDexBatchOrders`; `blockHash` is the hash of the block at `height − 1` -/
def dexBatchOrders (s : State) (orders : List LimitOrder) (blockHash : Bytes) (x y chain : Nat) : M (State × Nat × Nat × List Nat) := do
  let keyed := (List.range orders.length).zip orders |>.map fun (i, o) => (orderKey blockHash i o, o)
  let sorted := stableSort (fun a b => bytesLt a.1.2 b.1.2) keyed
  if x = 0 ∨ y = 0 then throw .InvalidLiquidityPool
  let (x, y, res) ← ammLoop sorted 0 x y []
  let (s, receipts) ← payReceipts chain keyed res s []
  pure (s, x, y, receipts)

/-- `RotateDexBatches` -/
def rotate (s : State) (receiptsHash : Bytes) (lPoolSize counterPoolSize chain : Nat) (receipts : List Nat) : State :=
  if !(getBatch s chain true).isEmpty then s else
  let n := getBatch s chain false
  let n := { n with poolSize := lPoolSize, receiptHash := receiptsHash, counterPoolSize := counterPoolSize,
                    lockedHeight := s.height, receipts := if receipts = [] then n.receipts else receipts }
  setLocked (delNext s chain) chain n

/-- steps 2 and 3 of `HandleRemoteDexBatch`: execute the remote chain's locked batch against
(`mirror` = shadow of the counter pool, our liquidity pool), then rotate -/
def executeRemote (s : State) (remote : Batch) (chain : Nat) (blockHash : Bytes) (mirror : Nat) : M State := do
  let mid := (getPool s (liquidityId chain)).amount
  let r ← dexBatchOrders s remote.orders blockHash mirror mid chain
  let l ← batchWithdraw r.1 remote.withdrawals chain r.2.1 r.2.2.1 false none true
  let l ← batchDeposit l.s remote chain l.x l.y false
  let canon := { remote with livenessFallback := false }
  pure (rotate l.s canon.hash mid l.x chain r.2.2.2)

/-- step 1 of `HandleRemoteDexBatch` (`HandleReceiptsForOurLockedBatch`) once the receipt hash matched:
the new state and the advanced mirror of the counter pool -/
def applyReceipts (s : State) (lb remote : Batch) (chain : Nat) : M (State × Nat) := do
  let r ← orderReceipts chain lb.orders remote.receipts s (getPool s (liquidityId chain)).amount remote.poolSize
  let l ← batchWithdraw r.1 lb.withdrawals chain r.2.1 r.2.2 true none true
  let l ← batchDeposit l.s lb chain l.x l.y true
  pure (delLocked l.s chain, l.y)

/-- `HandleRemoteDexBatch` -/
def remoteDexBatch (s : State) (remote : Batch) (chain : Nat) (blockHash : Bytes) : M State :=
  if remote.isEmpty then
    .ok (rotate s ({ remote with livenessFallback := false } : Batch).hash (getPool s (liquidityId chain)).amount remote.poolSize chain [])
  else
    let lb := getBatch s chain true
    if lb.isEmpty then executeRemote s remote chain blockHash remote.poolSize
    else if remote.receiptHash ≠ lb.hash ∨ lb.orders.length ≠ remote.receipts.length then
      .ok s -- still waiting for the counter chain: nothing happens, no rotation
    else
      match applyReceipts s lb remote chain with
      | .error e => .error e
      | .ok r => executeRemote r.1 remote chain blockHash r.2

/-- refund `amount` from the holding pool to `a` -/
def refund (chain : Nat) (s : State) (a : Bytes) (n : Nat) : M State := do
  let s ← poolSub s (holdingId chain) n
  accountAdd s a n

def refundAll (chain : Nat) : List (Bytes × Nat) → State → M State
  | [], s => .ok s
  | (a, n) :: rest, s =>
    match refund chain s a n with
    | .error e => .error e
    | .ok s => refundAll chain rest s

/-- `HandleLivenessFallback` -/
def livenessFallback (s : State) (chain : Nat) (lb remote : Batch) : M State := do
  let s ← refundAll chain (lb.orders.map fun o => (o.addr, o.amount)) s
  let s ← refundAll chain (lb.deposits.map fun d => (d.addr, d.amount)) s
  let p := getPool s (liquidityId chain)
  let s := setPool s (liquidityId chain) { p with points := remote.poolPoints, total := remote.totalPoolPoints }
  pure (setLocked s chain {})

/-- `DexBatch.CheckBasic` (+ the `PoolPoints == nil` rule of `CertificateResult.CheckBasic` for `DexBatch`) -/
def checkBasic (b : Batch) : M Unit := do
  if b.deposits.length > Gen.Dex.MaxDepositsPerDexBatch then throw .TooManyDexDeposits
  if b.withdrawals.length > Gen.Dex.MaxWithdrawsPerDexBatch then throw .TooManyDexWithdraws
  if b.withdrawals.any (fun w => w.percent = 0 ∨ w.percent > 100) then throw .InvalidPercentAllocation
  if b.orders.length > Gen.Dex.MaxOrdersPerDexBatch then throw .TooManyDexOrders
  if b.receipts.length > Gen.Dex.MaxOrdersPerDexBatch then throw .TooManyDexReceipts
  if b.poolPoints.length > Gen.Dex.MaxLiquidityProviders then throw .TooManyLiquidityProviders
  if b.poolPoints.any (fun e => e.1.length ≠ 20) then throw .InvalidAddress
  if b.receiptHash.length > 100 then throw .InvalidBlockHash

/-- `CheckBasic`, then `HandleDexBatch` once the chain id is resolved and the batch is not nil -/
def dexBatchOn (s : State) (chain : Nat) (nested : Bool) (remote : Batch) (blockHash : Bytes) : M State :=
  match checkBasic remote with
  | .error e => .error e
  | .ok _ =>
    if !nested ∧ remote.poolPoints ≠ [] then .error .NonNilPoolPoints
    else if (getPool s (liquidityId chain)).amount = 0 then .ok s
    else if remote.livenessFallback then
      match livenessFallback s chain (getBatch s chain true) remote with
      | .error e => .error e
      | .ok s1 => remoteDexBatch s1 remote chain blockHash
    else remoteDexBatch s remote chain blockHash

/-- `HandleDexBatch(chainId, results, isNested)` after `CheckBasic`; `remote = none` is a nil batch; a nested
chain works on its root chain id -/
def handleDexBatch (s : State) (chain : Nat) (nested : Bool) (remote : Option Batch) (blockHash : Bytes) : M State :=
  match remote with
  | none => .ok s
  | some remote => dexBatchOn s (if nested then s.root else chain) nested remote blockHash

/-- how many items of the next batch still fit into the locked one -/
def canMove (lockedLen nextLen max : Nat) : Nat :=
  if nextLen = 0 ∨ lockedLen ≥ max then 0 else min nextLen (max - lockedLen)

/-- `IncludeSameBlockDex` for one stored locked batch -/
def includeOne (s : State) (key : Nat) (b : Batch) : State :=
  if b.lockedHeight ≠ s.height then s else
  let n := getBatch s b.committee false
  let om := canMove b.orders.length n.orders.length Gen.Dex.MaxOrdersPerDexBatch
  let dm := canMove b.deposits.length n.deposits.length Gen.Dex.MaxDepositsPerDexBatch
  let wm := canMove b.withdrawals.length n.withdrawals.length Gen.Dex.MaxWithdrawsPerDexBatch
  if om = 0 ∧ dm = 0 ∧ wm = 0 then s else
  let b' := { b with orders := b.orders ++ n.orders.take om, deposits := b.deposits ++ n.deposits.take dm,
                     withdrawals := b.withdrawals ++ n.withdrawals.take wm }
  let n' := { n with orders := n.orders.drop om, deposits := n.deposits.drop dm, withdrawals := n.withdrawals.drop wm }
  let s := setLocked s key b'
  if n'.orders = [] ∧ n'.deposits = [] ∧ n'.withdrawals = [] then delNext s b.committee
  else setNext s b.committee n'

/-- end of block: `IncludeSameBlockDex` over every stored locked batch (key order), then the height advances -/
def endBlock (s : State) : State :=
  let keys := (s.locked.map (·.1)).mergeSort (fun a b => a ≤ b)
  let s := keys.foldl (fun s k => match AM.get? s.locked k with
    | some b => includeOne s k b
    | none => s) s
  { s with height := s.height + 1 }

/-- `MessageSubsidy.Check` (address, chain id, opcode length) and `HandleMessageSubsidy` (no committee is retired in this
model): sender → `PoolAdd(msg.ChainId, amount)`, the reward pool of that chain -/
def subsidy (s : State) (a : Bytes) (poolId amount : Nat) (opcode : Bytes) : M State := do
  checkAddress a
  checkChainId poolId
  if opcode.length > 100 then throw .InvalidOpcode
  let s ← accountSub s a amount
  pure (poolAdd s poolId amount)

/-- the subsidy as it was before commit eca9d8a: `Check` did not look at `ChainId`, so `pools[ChainId]` could be any
pool — kept for the witnesses `subsidy_breaks_escrow_eq` / `subsidy_breaks_holding_eq` -/
def subsidyUnchecked (s : State) (a : Bytes) (poolId amount : Nat) (opcode : Bytes) : M State := do
  checkAddress a
  if opcode.length > 100 then throw .InvalidOpcode
  let s ← accountSub s a amount
  pure (poolAdd s poolId amount)

/-! ## operations and the step function (what the driver runs, what the theorems quantify over) -/

inductive Op
  /-- harness set-up, not a chain operation: mint to an account (`AccountAdd`) -/
  | fund (a : Bytes) (n : Nat)
  /-- harness set-up, not a chain operation: write a pool (`SetPool`) -/
  | setPool (id : Nat) (p : Pool)
  /-- harness set-up, not a chain operation: store a next batch (`SetDexBatch`) and mint its pending amounts into
  the holding pool (`PoolAdd`) — used to start a case with a batch near the per-batch caps -/
  | seedNext (chain : Nat) (b : Batch)
  /-- `MessageSubsidy.Check` (incl. `checkChainId`) + `HandleMessageSubsidy`: the amount goes to `pools[ChainId]` -/
  | subsidy (a : Bytes) (poolId : Nat) (amount : Nat) (opcode : Bytes)
  | create (m : CreateOrder)
  | edit (m : EditOrder)
  | delete (chain : Nat) (id : Bytes)
  /-- `HandleCommitteeSwaps(orders, chain)` -/
  | swaps (chain : Nat) (o : Orders)
  | limit (chain : Nat) (o : LimitOrder)
  | deposit (chain : Nat) (d : Deposit)
  | withdraw (chain : Nat) (w : Withdraw)
  /-- `DexBatch.CheckBasic` + `HandleDexBatch(chain, results, nested)`; `blockHash` = hash of block `height-1` -/
  | dexBatch (chain : Nat) (nested : Bool) (remote : Option Batch) (blockHash : Bytes)
  /-- `IncludeSameBlockDex`, then the next height -/
  | endBlock

def apply (s : State) : Op → M State
  | .fund a n => accountAdd s a n
  | .setPool id p => .ok (setPool s id p)
  | .seedNext c b => .ok (setNext (poolAdd s (holdingId c) b.pending) c b)
  | .subsidy a id n op => subsidy s a id n op
  | .create m => createOrder s m
  | .edit m => editOrder s m
  | .delete c id => deleteOrderMsg s c id
  | .swaps c o => .ok (handleCommitteeSwaps s c o)
  | .limit c o => dexLimitOrder s c o
  | .deposit c d => dexDeposit s c d
  | .withdraw c w => dexWithdraw s c w
  | .dexBatch c nested remote bh => handleDexBatch s c nested remote bh
  | .endBlock => .ok (endBlock s)

/-- one operation: an error rolls everything back; caches are reset after every operation -/
def step (s : State) (op : Op) : State :=
  match apply s op with
  | .ok s' => normalize s'
  | .error _ => normalize s

def run (s : State) : List Op → State
  | [] => s
  | op :: ops => run (step s op) ops

end Canopy.Dex
