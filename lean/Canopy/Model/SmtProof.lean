import Canopy.Model.Smt
/-!
M-smt, proofs (C16). Core Lean only.

* `prove t k` — `GetMerkleProof` on the L1 tree: the leaf or the insertion point the traversal ends at, then
  the siblings bottom-up with their side bit.
* `V.verify` — `VerifyProof` as the code had it BEFORE the repair (still run by the driver when `facts` finds the
  old algorithm in store/smt.go), transcribed at the level where its behaviour is decided:
  the `key` objects with their cached `bitCount` / `length` fields (`totalBits`, `size`, `bitAt`, `addBit`,
  `greatestCommonPrefix`), the node cache of the throw-away tree (`NewSMT` puts the root and the two sentinels
  in it; `setNode` adds `proof[0]` and the reconstructed parents — never the siblings), and the re-traversal.
  Every Go slice index and shift is bounds-checked here; a violated bound is the Go panic and gives `crash`.
  The loop of `traverse()` has no bound in Go; the model gives `hang` when `fuel` iterations were not enough.
  The hash is a parameter (`H`): the drivers run it with SHA-256, the witness theorems with an injective toy hash.
-/
namespace Canopy.Smt

/-- one element of a proof (`lib.Node` with Key, Value, Bitmask) -/
structure PNode where
  key : Bytes
  value : Bytes
  bitmask : Nat      -- 0 = the sibling is the LEFT child, anything else = right
deriving Repr, DecidableEq, Inhabited

/-! ## L1: honest proof generation -/

/-- the path `traverse()` walks towards `k`: (the node it stops at, the siblings passed on the way, top-down,
each with its side: `true` = the sibling is the right child) -/
def descend (k : Key) : Trie → List (Trie × Bool) → Trie × List (Trie × Bool)
  | .leaf k' v', acc => (.leaf k' v', acc)
  | .node p l r, acc =>
    -- the loop of traverse() goes on only while the current key is a full prefix of the target
    if (p ++ [false]) <+: k then descend k l ((r, true) :: acc)
    else if (p ++ [true]) <+: k then descend k r ((l, false) :: acc)
    else (.node p l r, acc)

/-- the node hash the code uses, over a byte hash `H` (`crypto.Hash`): `H(lk ‖ lv ‖ rk ‖ rv)` -/
def h4 (H : Bytes → Bytes) (a b c d : Bytes) : Bytes := H (a ++ b ++ (c ++ d))

/-- a sibling as a proof element: its key bytes, its value, `Bitmask` = 1 when it is the right child -/
def toPNode (H4 : Bytes → Bytes → Bytes → Bytes → Bytes) (s : Trie × Bool) : PNode :=
  { key := encodeKey s.1.key, value := s.1.value H4, bitmask := if s.2 then 1 else 0 }

/-- where the traversal from the root stops, and the siblings on the way (bottom-up) -/
def descendTop (k : Key) (l r : Trie) : Trie × List (Trie × Bool) :=
  -- from the root the first step is taken unconditionally by bit 0 of the target
  if k.headD false = false then descend k l [(r, true)] else descend k r [(l, false)]

/-- `GetMerkleProof` on a tree whose top node is the root (the root's own prefix is never compared) -/
def prove (H4 : Bytes → Bytes → Bytes → Bytes → Bytes) (t : Trie) (k : Key) : List PNode :=
  match t with
  | .leaf _ _ => []
  | .node _ l r =>
    { key := encodeKey (descendTop k l r).1.key, value := (descendTop k l r).1.value H4, bitmask := 0 } ::
      (descendTop k l r).2.map (toPNode H4)

/-! ## store wiring -/

/-- the tree `Store.NewReadOnly(v)` serves proofs from: the tree committed for `v` when it opens the prefix that
`Root()` / `Commit()` write the tree under, an empty tree (nothing was ever written there) otherwise -/
def storeProofTree (writtenPrefix readPrefix : Bytes) (n : Nat) (committed : Trie) : Trie :=
  if writtenPrefix == readPrefix then committed else empty n

/-- the commitment object of the store `NewReadOnly(v)` returns: a fresh tree over the database (`fromDb`) when the `sc`
field of its `&Store{…}` literal is `NewDefaultSMT(NewTxn(…))` (generated fact `readOnlyBuildsFreshCommitment`); a
`NewReadOnly` that shares the live store's `s.sc` for `v = s.version` would serve `live`, which between `Root()` and
`Commit()` is the speculative tree of the NEXT, uncommitted block -/
def readOnlyServes (fresh : Bool) (live : Option Trie) (sameVersion : Bool) (fromDb : Trie) : Trie :=
  if fresh then fromDb else
  match live with
  | some t => if sameVersion then t else fromDb
  | none => fromDb

/-! ## `VerifyProof` before the repair (commit 9904ec4) -/
namespace V

/-- the Go `key` struct -/
structure KeyObj where
  key : Bytes := []
  bitCount : Nat := 0
  length : Nat := 0
deriving Repr, Inhabited

/-- the Go panics the verifier can run into -/
inductive Why where
  | indexOutOfRange     -- `runtime error: index out of range`
  | negativeShift       -- `runtime error: negative shift amount`
  | modelBug            -- never produced for inputs the driver can express (dangling object id)
deriving Repr, DecidableEq, Inhabited

/-- heap of key objects (they are shared between variables and cached nodes, and mutated through both) -/
abbrev M := StateT (Array KeyObj) (Except Why)

def panic {α : Type} (w : Why) : M α := throw w

def alloc (k : KeyObj) : M Nat := modifyGet fun h => (h.size, h.push k)

def getK (id : Nat) : M KeyObj := do
  match (← get)[id]? with
  | some k => pure k
  | none => panic .modelBug

def setK (id : Nat) (k : KeyObj) : M Unit := modify fun h => h.setIfInBounds id k

/-- `b[i]` with Go's bounds check -/
def at' (b : Bytes) (i : Int) : M UInt8 :=
  if i < 0 then panic .indexOutOfRange else
  match b[i.toNat]? with
  | some x => pure x
  | none => panic .indexOutOfRange

/-- `key.size()` -/
def size (id : Nat) : M Nat := do
  let k ← getK id
  if k.length = 0 then
    setK id { k with length := k.key.length }
    pure k.key.length
  else pure k.length

/-- `bits.Len8` -/
def len8 (b : UInt8) : Nat :=
  let x := b.toNat
  if x = 0 then 0 else if x < 2 then 1 else if x < 4 then 2 else if x < 8 then 3 else if x < 16 then 4
  else if x < 32 then 5 else if x < 64 then 6 else if x < 128 then 7 else 8

/-- `key.totalBits()` -/
def totalBits (id : Nat) : M Nat := do
  let k ← getK id
  if k.bitCount != 0 then pure k.bitCount else
  let sz ← size id
  if sz = 0 then
    let k ← getK id
    setK id { k with key := [0, 0], length := 2 }
    pure 0
  else
    let k ← getK id
    let lz ← at' k.key ((sz : Int) - 1)
    let lastData ← at' (k.key.take (sz - 1)) ((sz : Int) - 2)
    let bl := if len8 lastData = 0 then 1 else len8 lastData
    -- sz ≥ 2 here (sz = 1 panicked above), so everything is non-negative
    let bc := (sz - 2) * 8 + lz.toNat + bl
    setK id { k with bitCount := bc }
    pure bc

/-- `key.bitAt(bitPos)` -/
def bitAt (id : Nat) (bitPos : Nat) : M Nat := do
  let k ← getK id
  let byteIndex := bitPos / 8
  let byt ← at' k.key byteIndex
  let sz ← size id
  let pos := bitPos % 8
  if (byteIndex : Int) ≠ (sz : Int) - 2 then
    pure ((byt.toNat >>> (7 - pos)) % 2)
  else
    let k ← getK id
    let lp ← at' k.key ((sz : Int) - 1)
    if (lp.toNat = 0 ∧ byt.toNat = 0) ∨ pos < lp.toNat then pure 0 else
    let tb ← totalBits id
    -- Go: ((tb - 1) % 8) + 1 on ints; tb = 0 gives (-1 % 8) + 1 = 0
    let lastByteBitsCount : Int := if tb = 0 then 0 else (((tb - 1) % 8 + 1 : Nat) : Int)
    let shift : Int := lastByteBitsCount - pos - 1
    if shift < 0 then panic .negativeShift else
    pure ((byt.toNat >>> shift.toNat) % 2)

/-- `key.addBit(bit)` -/
def addBit (id : Nat) (bit : Nat) : M Unit := do
  let tb ← totalBits id
  let sz ← size id
  let k ← getK id
  let bitPos := if tb % 8 = 0 ∧ k.bitCount ≠ 0 then 8 else tb % 8
  let lastByte ← at' k.key ((sz : Int) - 2)
  let lp0 ← at' k.key ((sz : Int) - 1)
  let lp := if k.bitCount ≠ 0 ∧ lastByte.toNat = 0 then lp0.toNat + 1 else lp0.toNat
  if bitPos = 8 then
    let key' := k.key ++ [0]
    let sz' := sz + 1
    -- lastByte, bitPos, leftPadding = 0, 0, 0
    let key'' := (key'.set (sz' - 2) (UInt8.ofNat bit)).set (sz' - 1) 0
    setK id { key := key'', bitCount := k.bitCount + 1, length := k.length + 1 }
  else
    let key' := (k.key.set (sz - 2) (UInt8.ofNat ((lastByte.toNat * 2 + bit) % 256))).set (sz - 1) (UInt8.ofNat (lp % 256))
    setK id { k with key := key', bitCount := k.bitCount + 1 }

/-- `k.greatestCommonPrefix(&bitPos, gcp, current)`; returns the new `bitPos` -/
def gcpLoop (kId gcpId curId : Nat) : Nat → Nat → Nat → M Nat
  | 0, bitPos, _ => pure bitPos
  | fuel + 1, bitPos, tb =>
    if bitPos < tb then do
      let b1 ← bitAt kId bitPos
      let b2 ← bitAt curId bitPos
      if b1 ≠ b2 then pure bitPos else
      addBit gcpId b1
      gcpLoop kId gcpId curId fuel (bitPos + 1) tb
    else pure bitPos

def greatestCommonPrefix (kId : Nat) (bitPos : Nat) (gcpId curId : Nat) : M Nat := do
  let tb ← totalBits curId
  gcpLoop kId gcpId curId (tb + 1) bitPos tb

/-- `newNodeKey(data, n)` as a key object (`bitCount` is set, `length` is not) -/
def newNodeKeyObj (n : Nat) (data : Bytes) : KeyObj :=
  { key := encodeKey (keyOfBytes n data), bitCount := n, length := 0 }

/-- a cached node: its key object and the protobuf fields the traversal reads -/
structure NodeRec where
  kid : Nat
  value : Bytes := []
  left : Bytes := []
  right : Bytes := []
deriving Repr, Inhabited

abbrev Cache := List (Bytes × NodeRec)

def cacheSet (c : Cache) (k : Bytes) (n : NodeRec) : Cache :=
  (k, n) :: c.filter (fun e => e.1 != k)

def cacheGet (c : Cache) (k : Bytes) : Option NodeRec := (c.find? (fun e => e.1 == k)).map (·.2)

inductive Verdict where
  | accept
  | reject
  | errInvalidProof         -- (false, ErrInvalidMerkleTreeProof): fewer than two proof nodes
  | errReserved             -- (false, ErrReserveKeyWrite): the target is the tree's root key or a sentinel
  | crash (why : Why)       -- Go panic
  | hang                    -- traverse() did not terminate within the model's fuel
deriving Repr, DecidableEq

/-- the loop of `traverse()` on the throw-away tree; returns the final `gcp` object id -/
def traverseLoop (cache : Cache) (targetId gcpId : Nat) : Nat → NodeRec → Nat → M (Option Unit)
  | 0, _, _ => pure none
  | fuel + 1, cur, bitPos => do
    let bit ← bitAt targetId bitPos
    let childKey := if bit = 0 then cur.left else cur.right
    -- getNode: cache hit = the shared node object; miss = a fresh empty node (the memory store holds the same keys)
    let next ← match cacheGet cache childKey with
      | some n => pure n
      | none => do
        let kid ← alloc {}
        pure ({ kid := kid } : NodeRec)
    -- s.current.Key.fromBytes(currentKey): only the byte slice is replaced; cached length / bitCount stay
    let ko ← getK next.kid
    setK next.kid { ko with key := childKey }
    let bitPos' ← greatestCommonPrefix targetId bitPos gcpId next.kid
    let curKey ← getK next.kid
    let g ← getK gcpId
    let t ← getK targetId
    if curKey.key != g.key || t.key == g.key then pure (some ())
    else traverseLoop cache targetId gcpId fuel next bitPos'

/-- `VerifyProof(k, v, validateMembership, root, proof)` for key length `n`; `H` is `crypto.Hash` -/
def verifyM (H : Bytes → Bytes) (n fuel : Nat) (userKey value : Bytes) (membership : Bool) (root : Bytes)
    (proof : List PNode) : M Verdict := do
  match proof with
  | [] | [_] => pure .errInvalidProof
  | p0 :: rest =>
    -- NewSMT(RootKey, n, memStore): root + sentinels are in the cache
    let minId ← alloc (newNodeKeyObj n (List.replicate 20 0))
    let maxId ← alloc (newNodeKeyObj n (List.replicate 20 255))
    let rootKeyBytes := encodeKey (rootKey n)
    let rkId ← alloc { key := rootKeyBytes, bitCount := n, length := 0 }
    let minB := encodeKey (minKey n)
    let maxB := encodeKey (maxKey n)
    let cache0 : Cache := cacheSet (cacheSet (cacheSet [] minB { kid := minId, value := minVal })
      maxB { kid := maxId, value := maxVal }) rootKeyBytes { kid := rkId, left := minB, right := maxB }
    -- the node being proven
    let curId0 ← alloc { key := p0.key }
    let cache1 := cacheSet cache0 p0.key { kid := curId0, value := p0.value }
    -- bottom-up reconstruction
    let mut cache := cache1
    let mut hash := p0.value
    let mut curId := curId0
    let mut rootRec : NodeRec := { kid := curId0 }
    for pi in rest do
      let curBytes := (← getK curId).key
      let (h', l, r) :=
        if pi.bitmask = 0 then (H (pi.key ++ pi.value ++ (curBytes ++ hash)), pi.key, curBytes)
        else (H (curBytes ++ hash ++ (pi.key ++ pi.value)), curBytes, pi.key)
      hash := h'
      let nodeKeyId ← alloc { key := pi.key }
      let gcpId ← alloc {}
      -- `if currentKey.totalBits() < currentKey.totalBits()` — two calls on the same object
      let a ← totalBits curId
      let b ← totalBits curId
      if a < b then
        let _ ← greatestCommonPrefix curId 0 gcpId nodeKeyId
      else
        let _ ← greatestCommonPrefix nodeKeyId 0 gcpId curId
      curId := gcpId
      let gBytes := (← getK gcpId).key
      rootRec := { kid := gcpId, value := hash, left := l, right := r }
      cache := cacheSet cache gBytes rootRec
    if hash != root then pure .reject else
    let target := newNodeKeyObj n (H userKey)
    let targetId ← alloc target
    -- validateTarget
    let rootBytes := (← getK rootRec.kid).key
    if rootBytes == target.key then pure .errReserved else
    if minB == target.key then pure .errReserved else
    if maxB == target.key then pure .errReserved else
    -- reset(); traverse()
    let gcpId ← alloc {}
    match ← traverseLoop cache targetId gcpId fuel rootRec 0 with
    | none => pure .hang
    | some () =>
      let g ← getK gcpId
      let t ← getK targetId
      let nodeExists := t.key == g.key
      if (!nodeExists && membership) || (nodeExists && !membership) then pure .reject
      else if !nodeExists && !membership then pure .accept
      else pure (if p0.value == H value then .accept else .reject)

def verify (H : Bytes → Bytes) (n : Nat) (userKey value : Bytes) (membership : Bool) (root : Bytes)
    (proof : List PNode) (fuel : Nat := 4096) : Verdict :=
  match (verifyM H n fuel userKey value membership root proof).run #[] with
  | .ok (v, _) => v
  | .error e => .crash e

end V

/-! ## the proposed repair of `VerifyProof` (see the report / `checks/C16.py`)

No throw-away tree and no re-traversal: validate every proof key, fold the hashes exactly as before, and decide
from key arithmetic whether the traversal towards the target ends at `proof[0]`:
the target must lie on `proof[0]`'s side below `proof[0]`'s parent (share `|gcp(proof[0], proof[1])| + 1`
leading bits with it), and either equal `proof[0]`'s key (membership) or part ways inside it (non-membership). -/

/-- `validNodeKey(data, maxBits)`: the encoding of a key of 1..n bits -/
def validNodeKey (n : Nat) (b : Bytes) : Bool :=
  match b.reverse with
  | pad :: last :: _ =>
    let lastBits := pad.toNat + max (V.len8 last) 1
    lastBits ≤ 8 && (b.length - 2) * 8 + lastBits ≤ n
  | _ => false

/-- the stricter value check (proposed hardening): a node value is a hash (32 bytes), or the 20-byte value of one of the
two reserved leaves. With fixed value lengths the boundary between a node's key and value inside the unframed parent
hash input `lk ‖ lv ‖ rk ‖ rv` cannot be moved. -/
def valueLenOk (n : Nat) (p : PNode) : Bool :=
  p.value.length == 32 || (p.value.length == 20 && (p.key == encodeKey (minKey n) || p.key == encodeKey (maxKey n)))

/-- what `VerifyProof` demands of every proof node before anything else (`strict` = with the value-length check) -/
def nodeOk (strict : Bool) (n : Nat) (p : PNode) : Bool := validNodeKey n p.key && (!strict || valueLenOk n p)

/-- the hash fold of the repaired verifier over the siblings (current key bits, hash so far);
`none` = `ErrInvalidMerkleTreeProof` (a child key is a prefix of the other, or an empty prefix below the top) -/
def foldFixed (H4 : Bytes → Bytes → Bytes → Bytes → Bytes) : Key → Bytes → List PNode → Option Bytes
  | _, hash, [] => some hash
  | cur, hash, p :: rest =>
    let sib := decodeKey p.key
    let hash' := if p.bitmask = 0 then H4 p.key p.value (encodeKey cur) hash
                 else H4 (encodeKey cur) hash p.key p.value
    let g := gcp cur sib
    if g.length = min cur.length sib.length then none
    else if (g.length = 0) != rest.isEmpty then none
    else foldFixed H4 g hash' rest

/-- `branchBits`: the length of the shortest prefix that identifies `proof[0]`'s side below its parent -/
def branchBits (proven : Key) : List PNode → Nat
  | [] => 0
  | p1 :: _ => (gcp proven (decodeKey p1.key)).length + 1

/-- the outcomes the repaired verifier can have: no panic, no unbounded loop -/
inductive FVerdict where
  | accept | reject | errInvalidProof | errReserved
deriving Repr, DecidableEq

def FVerdict.toVerdict : FVerdict → V.Verdict
  | .accept => .accept
  | .reject => .reject
  | .errInvalidProof => .errInvalidProof
  | .errReserved => .errReserved

def verifyFixedF (strict : Bool) (H : Bytes → Bytes) (H4 : Bytes → Bytes → Bytes → Bytes → Bytes) (n : Nat) (userKey value : Bytes) (membership : Bool) (root : Bytes)
    (proof : List PNode) : FVerdict :=
  match proof with
  | [] | [_] => .errInvalidProof
  | p0 :: rest =>
    if !(proof.all fun p => nodeOk strict n p) then .errInvalidProof else
    let target := keyOfBytes n (H userKey)
    if target == rootKey n || target == minKey n || target == maxKey n then .errReserved else
    let proven := decodeKey p0.key
    match foldFixed H4 proven p0.value rest with
    | none => .errInvalidProof
    | some hash =>
      if hash != root then .reject else
      let shared := (gcp target proven).length
      if shared < branchBits proven rest then .reject else
      let nodeExists := encodeKey target == p0.key
      if !nodeExists && shared = proven.length then .reject
      else if (!nodeExists && membership) || (nodeExists && !membership) then .reject
      else if !nodeExists && !membership then .accept
      else if p0.value == H value then .accept else .reject

/-- `H` is `crypto.Hash` on user keys and values; `H4` the node hash (`h4 H` in the code: the hash of the unframed
concatenation — kept as a separate parameter because the soundness theorem needs it injective on 4-tuples, which no
function of a concatenation is) -/
def verifyFixed (strict : Bool) (H : Bytes → Bytes) (H4 : Bytes → Bytes → Bytes → Bytes → Bytes) (n : Nat) (userKey value : Bytes)
    (membership : Bool) (root : Bytes) (proof : List PNode) : V.Verdict :=
  (verifyFixedF strict H H4 n userKey value membership root proof).toVerdict

end Canopy.Smt
