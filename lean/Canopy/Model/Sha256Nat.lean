import Canopy.Model.Bytes
/-!
SHA-256 (FIPS 180-4) over `Nat` words with structural recursion on lists only. Same function as
`Canopy.sha256` (`Model/Sha256.lean`, arrays and `UInt32`), written so that the *kernel* evaluates it
quickly (`Nat.land/lor/xor/shiftLeft/shiftRight/add/mod` on literals are accelerated): theorems
proved by `decide` about concrete transaction identities need the hash of a few hundred bytes.
Validated on every run against Go's `crypto.HashString` (driver op `txid`) and against
`Canopy.sha256` (same op).
-/
namespace Canopy.Sha256Nat

def m32 : Nat := 4294967296

def K : List Nat := [
  0x428a2f98, 0x71374491, 0xb5c0fbcf, 0xe9b5dba5, 0x3956c25b, 0x59f111f1, 0x923f82a4, 0xab1c5ed5,
  0xd807aa98, 0x12835b01, 0x243185be, 0x550c7dc3, 0x72be5d74, 0x80deb1fe, 0x9bdc06a7, 0xc19bf174,
  0xe49b69c1, 0xefbe4786, 0x0fc19dc6, 0x240ca1cc, 0x2de92c6f, 0x4a7484aa, 0x5cb0a9dc, 0x76f988da,
  0x983e5152, 0xa831c66d, 0xb00327c8, 0xbf597fc7, 0xc6e00bf3, 0xd5a79147, 0x06ca6351, 0x14292967,
  0x27b70a85, 0x2e1b2138, 0x4d2c6dfc, 0x53380d13, 0x650a7354, 0x766a0abb, 0x81c2c92e, 0x92722c85,
  0xa2bfe8a1, 0xa81a664b, 0xc24b8b70, 0xc76c51a3, 0xd192e819, 0xd6990624, 0xf40e3585, 0x106aa070,
  0x19a4c116, 0x1e376c08, 0x2748774c, 0x34b0bcb5, 0x391c0cb3, 0x4ed8aa4a, 0x5b9cca4f, 0x682e6ff3,
  0x748f82ee, 0x78a5636f, 0x84c87814, 0x8cc70208, 0x90befffa, 0xa4506ceb, 0xbef9a3f7, 0xc67178f2]

/-- evaluate `n` before continuing (keeps the kernel's terms small: the match forces the literal) -/
@[inline] def force {α : Type} (n : Nat) (k : Nat → α) : α :=
  match n with
  | 0 => k 0
  | m+1 => k (m+1)

def rotr (x n : Nat) : Nat := ((x >>> n) ||| (x <<< (32 - n))) % m32

structure St where
  a : Nat
  b : Nat
  c : Nat
  d : Nat
  e : Nat
  f : Nat
  g : Nat
  h : Nat

def H0 : St := ⟨0x6a09e667, 0xbb67ae85, 0x3c6ef372, 0xa54ff53a, 0x510e527f, 0x9b05688c, 0x1f83d9ab, 0x5be0cd19⟩

/-- big-endian words of a block (the input has a multiple of 4 bytes) -/
def words : List UInt8 → List Nat
  | b0 :: b1 :: b2 :: b3 :: rest =>
    (b0.toNat * 16777216 + b1.toNat * 65536 + b2.toNat * 256 + b3.toNat) :: words rest
  | _ => []

/-- extend the schedule; `w` holds the words so far, most recent first -/
def extend : Nat → List Nat → List Nat
  | 0, w => w
  | n+1, w =>
    let w2 := w.getD 1 0
    let w7 := w.getD 6 0
    let w15 := w.getD 14 0
    let w16 := w.getD 15 0
    let s0 := rotr w15 7 ^^^ rotr w15 18 ^^^ (w15 >>> 3)
    let s1 := rotr w2 17 ^^^ rotr w2 19 ^^^ (w2 >>> 10)
    force ((w16 + s0 + w7 + s1) % m32) fun x => extend n (x :: w)

def round (s : St) (k w : Nat) : St :=
  let S1 := rotr s.e 6 ^^^ rotr s.e 11 ^^^ rotr s.e 25
  let ch := (s.e &&& s.f) ^^^ ((m32 - 1 - s.e) &&& s.g)
  let t1 := (s.h + S1 + ch + k + w) % m32
  let S0 := rotr s.a 2 ^^^ rotr s.a 13 ^^^ rotr s.a 22
  let maj := (s.a &&& s.b) ^^^ (s.a &&& s.c) ^^^ (s.b &&& s.c)
  let t2 := (S0 + maj) % m32
  force ((t1 + t2) % m32) fun a' => force ((s.d + t1) % m32) fun e' =>
  ⟨a', s.a, s.b, s.c, e', s.e, s.f, s.g⟩

def rounds : St → List Nat → List Nat → St
  | s, k :: ks, w :: ws => rounds (round s k w) ks ws
  | s, _, _ => s

def compress (h : St) (block : List UInt8) : St :=
  let w := (extend 48 (words block).reverse).reverse
  let s := rounds h K w
  ⟨(h.a + s.a) % m32, (h.b + s.b) % m32, (h.c + s.c) % m32, (h.d + s.d) % m32,
   (h.e + s.e) % m32, (h.f + s.f) % m32, (h.g + s.g) % m32, (h.h + s.h) % m32⟩

def blocks : Nat → St → List UInt8 → St
  | 0, h, _ => h
  | n+1, h, p => blocks n (compress h (p.take 64)) (p.drop 64)

def pad (msg : List UInt8) : List UInt8 :=
  let l := msg.length
  let zeros := (119 - l % 64) % 64
  msg ++ [0x80] ++ List.replicate zeros 0 ++ formatUint64 (UInt64.ofNat (8 * l))

def wordBytes (w : Nat) : List UInt8 :=
  [UInt8.ofNat (w / 16777216), UInt8.ofNat (w / 65536 % 256), UInt8.ofNat (w / 256 % 256), UInt8.ofNat (w % 256)]

def hash (msg : List UInt8) : List UInt8 :=
  let p := pad msg
  let s := blocks (p.length / 64) H0 p
  [s.a, s.b, s.c, s.d, s.e, s.f, s.g, s.h].flatMap wordBytes

end Canopy.Sha256Nat
