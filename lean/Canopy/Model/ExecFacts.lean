import Canopy.Gen.Exec
import Canopy.Model.Atomic
import Canopy.Model.SigCache
/-! Mechanism switches of the execution models, computed from the facts regenerated from `/repo`
(`Gen/Exec.lean`). The models (`Model/Exec.lean`, `Model/Atomic.lean`) are parametric in these
switches; the property theorems are stated for the switched-on mechanism and each switch is proved
`= true` from the generated source facts (`Props/C03.lean`, `Props/C07.lean`), so removing the
corresponding statement from the Go source breaks that obligation. Core Lean only. -/
namespace Canopy.Exec
open Canopy.Gen.Exec

/-- every reset of the controller's FSM goes through `Controller.resetFSM`, and `resetFSM` drops the
BFT's cached block result before resetting -/
def resetClearsCacheFact : Bool :=
  controllerFsmResets == ["resetFSM: c.FSM.Reset()"] &&
  resetFSMBody == ["if c.Consensus != nil { c.Consensus.BlockResult = nil }", "c.FSM.Reset()"]

/-- the header's last certificate is written into the working store for every height > 1 on every
path: the one write site is guarded by the height test alone (not by the syncing test) -/
def indexesLastCertFact : Bool :=
  lastCertIndexSites ==
    ["candidate.Height > 1 => err = c.FSM.Store().(lib.StoreI).IndexQC(candidate.LastQuorumCertificate)"] &&
  applyAndValidateFirst == ["c.CheckAndSetLastCertificate", "c.FSM.ApplyBlock"]

/-- `ProduceProposal` patches the cached header, hashes it, and only then sets the block result's header
and finalises the certificate results (slash recipients, checkpoint = (height, block hash)): the
results the leader ships quote the FINAL header hash, the one every replica recomputes -/
def resultsFinalisedAfterHashFact : Bool :=
  produceProposalFinalise ==
    ["header.LastQuorumCertificate, header.Vdf = ...", "SetHash", "Marshal(block)",
     "BlockResult.BlockHeader = header", "CalculateSlashRecipients", "CalculateCheckpoint(BlockResult)"]

/-- `ProduceProposal` never updates a field of the cached proposal's header from that field's own
previous value (no `+=`, `++`, `x = x + …`): every header field it sets is assigned from its inputs
(last certificate, VDF, the last committed block), so serving one cached proposal to several calls —
a leader that leads again at the same height with an unchanged mempool — gives each call the header a
fresh build would give -/
def headerAssignedFromInputsFact : Bool :=
  produceProposalHeaderReadModifyWrite == [] &&
  produceProposalHeaderAssigns ==
    ["p.Block.BlockHeader.LastQuorumCertificate, p.Block.BlockHeader.Vdf = lastCertificate, vdf",
     "p.Block.BlockHeader.TotalVdfIterations = vdf.GetIterations() + lastBlock.BlockHeader.TotalVdfIterations"]

/-- what `honest_proposal_accepted` needs of `ProduceProposal` -/
def proposalBuildFact : Bool := resultsFinalisedAfterHashFact && headerAssignedFromInputsFact

/-- every write of the process-wide signature cache in `lib/crypto` sits under a positive verification
of the tuple it writes: the four `VerifyBytes` call `addToCache()` inside `if valid = …; valid`, the
batch verifier's one-by-one pass writes inside `if ok := tuple.PublicKey.VerifyBytes(…); ok`, and its
ed25519 batch pass writes the batched tuples only in the `else` of `if !verifier.VerifyBatchOnly(…)`,
i.e. when the whole batch verified -/
def signatureCacheFact : Bool :=
  signatureCacheWrites ==
    ["bls.go BLS12381PublicKey.VerifyBytes / if valid = b.scheme.Verify(b.Point, msg, sig) == nil; valid => addToCache()",
     "ed25519.go ED25519PublicKey.VerifyBytes / if valid = ed25519.Verify(p.PublicKey, msg, sig); valid => addToCache()",
     "eth_secp256k1.go ETHSECP256K1PublicKey.VerifyBytes / if valid = ethCrypto.VerifySignature(s.BytesWithPrefix(), Hash(msg), sig); valid => addToCache()",
     "key_batch.go BatchVerifier.verifyAll / func verifyBatch / for _, tuple := range tuples / if ok := tuple.PublicKey.VerifyBytes(tuple.Message, tuple.Signature); ok => SignatureCache.Set(tuple.Key(), []byte{0})",
     "key_batch.go BatchVerifier.verifyAll / if len(b.ed25519[idx]) != 0 / if len(notInCache) != 0 / else of if !verifier.VerifyBatchOnly(rand.Reader) / for i := range notInCache => SignatureCache.Set(cacheKeys[i], []byte{0})",
     "key_batch.go CheckCache / func addToCache => SignatureCache.Set(key, []byte{0})",
     "secp256k1.go SECP256K1PublicKey.VerifyBytes / if valid = ethCrypto.VerifySignature(s.Bytes(), Hash(msg), sig); valid => addToCache()"]

/-- `ValidateProposal` registers the restore of the governance-proposal mode (`defer
resetProposalConfig()`) directly after the statement that switches both state machines into the strict
mode: no return can lie between the switch and the registration -/
def proposalModeRestoredFact : Bool :=
  validateProposalModeScope ==
    ["resetProposalConfig := c.SetFSMInConsensusModeForProposals()", "defer resetProposalConfig()"]

/-- the signature-cache mechanism of the source tree -/
def sigCacheCfgOfFacts : Canopy.SigCache.Cfg := ⟨signatureCacheFact⟩

end Canopy.Exec

namespace Canopy.Atomic
open Canopy.Gen.Exec

/-- the failure branch of the sequential pass of `ApplyTransactions` -/
def failResetsCachesFact : Bool := failureBranch.contains "s.ResetCaches()"
def failResetsEventsFact : Bool := failureBranch.contains "s.events.Reset()"
def failRestoresTrackerFact : Bool :=
  failureBranch.contains "s.slashTracker = preTxSlashTracker" &&
  seqBody.contains "preTxSlashTracker := s.slashTracker.Clone()"
def failRestoresStoreFact : Bool :=
  failureBranch.contains "s.SetStore(currentStore)" && seqBody.contains "currentStore := s.Store().(lib.StoreI)"

/-- after the loop, an oversize remainder's traces in caches and tracker are dropped -/
def oversizeRestoresFact : Bool :=
  afterLoop.contains "if oversize { s.ResetCaches(); s.slashTracker = preOversizeSlashTracker }" &&
  oversizeEnter.contains "preOversizeSlashTracker = s.slashTracker.Clone()"

/-- the pre-check pass discards its nested store transaction and restores the store pointer -/
def precheckDiscardsFact : Bool :=
  preCheckBody.contains "checkTxn.Discard()" && preCheckBody.contains "s.SetStore(checkStore)" &&
  preCheckBody.contains "checkStore := s.Store().(lib.StoreI)"

/-- the mechanism the source tree has: which restorations the extracted statements contain -/
def cfgOfFacts : Cfg :=
  ⟨failResetsCachesFact, failResetsEventsFact, failRestoresTrackerFact, failRestoresStoreFact, oversizeRestoresFact⟩

end Canopy.Atomic
