/-!
# M-atomic — mechanism model of `fsm.ApplyTransactions` (C07; reused by C03/C11)

Read off `fsm/state.go` (`ApplyTransactions`, `TxnWrap`, `Reset`, `ResetCaches`), `fsm/transaction.go`
(`ApplyTransaction`, `CheckTx`) and `fsm/account.go`/`fsm/gov.go` (the read-through caches).

**Mechanism** (`Fsm`, `run`): the state machine holds a store pointer (`store`: what reads through
the current, possibly nested, store transaction return), read-through caches (`cache`: accounts, pools,
parameter spaces — written through on every set, filled on some reads), the per-transaction event
tracker and the slash tracker. `ApplyTransactions` first checks every transaction against the
post-begin-block state (nested store transaction, discarded), then runs the sequential pass: per
transaction it remembers the store pointer and a clone of the tracker, wraps the store, runs the
handler — which may fail after partial writes — and on failure restores by hand what the extracted
failure branch restores (caches, events, tracker, store pointer), on success flushes. When the block
becomes oversize (proposer path only) the rest runs in one more nested store transaction that is never
flushed; after the loop its traces in caches and tracker are dropped.
Which of the manual restorations exist is a parameter (`Cfg`), set from the generated source facts
(`Model/ExecFacts.lean`).

**Specification** (`Pure`, `specRun`): no caches, no pointers: states are values, a failing
transaction is skipped, the oversize remainder runs on a scratch copy.

Handlers are arbitrary programs over `Act` (reads go through the cache, writes are write-through,
`guard` aborts leaving the partial writes behind). Core Lean only.
-/
namespace Canopy.Atomic

abbrev Key := Nat
abbrev Val := Nat
/-- a store view: `none` = absent -/
abbrev View := Key → Option Val

def View.set (v : View) (k : Key) (x : Option Val) : View := fun k' => if k' = k then x else v k'

/-- the state machine -/
structure Fsm where
  store : View
  /-- read-through cache: `some x` = the cached value (possibly "absent") for the key -/
  cache : Key → Option (Option Val)
  events : List Nat
  tracker : List Nat

def noCache : Key → Option (Option Val) := fun _ => none

/-- a read as the handlers do it: cache first, then the store -/
def Fsm.get (F : Fsm) : View := fun k => match F.cache k with
  | some x => x
  | none => F.store k

/-- a caching read (`GetPool`, `GetParams*`) -/
def Fsm.touch (F : Fsm) (k : Key) : Fsm :=
  { F with cache := fun k' => if k' = k then some (F.get k) else F.cache k' }

/-- a write (`SetAccount`, `SetPool`, `SetParams*`): store and cache -/
def Fsm.put (F : Fsm) (k : Key) (x : Option Val) : Fsm :=
  { F with store := F.store.set k x, cache := fun k' => if k' = k then some x else F.cache k' }

/-- every cached value is what a store read returns -/
def Coherent (F : Fsm) : Prop := ∀ k x, F.cache k = some x → F.store k = x

/-- handler steps -/
inductive Act where
  /-- write a value computed from reads -/
  | put (k : Key) (f : View → Option Val)
  /-- caching read -/
  | touch (k : Key)
  | emit (e : Nat)
  /-- slash-tracker update -/
  | slash (i : Nat)
  /-- abort unless the predicate holds; earlier writes of the handler stay where they are -/
  | guard (p : View → Bool)

abbrev Handler := List Act

/-- run a handler on the mechanism; `false` = failed (partial writes left behind) -/
def runActs : Fsm → Handler → Fsm × Bool
  | F, [] => (F, true)
  | F, .put k f :: r => runActs (F.put k (f F.get)) r
  | F, .touch k :: r => runActs (F.touch k) r
  | F, .emit e :: r => runActs { F with events := F.events ++ [e] } r
  | F, .slash i :: r => runActs { F with tracker := F.tracker ++ [i] } r
  | F, .guard p :: r => if p F.get then runActs F r else (F, false)

/-- the cache-free state -/
structure Pure where
  view : View
  events : List Nat
  tracker : List Nat

def Fsm.pure (F : Fsm) : Pure := ⟨F.store, F.events, F.tracker⟩

/-- run a handler on the specification state; `none` = failed, nothing happened -/
def specActs : Pure → Handler → Option Pure
  | P, [] => some P
  | P, .put k f :: r => specActs { P with view := P.view.set k (f P.view) } r
  | P, .touch _ :: r => specActs P r
  | P, .emit e :: r => specActs { P with events := P.events ++ [e] } r
  | P, .slash i :: r => specActs { P with tracker := P.tracker ++ [i] } r
  | P, .guard p :: r => if p P.view then specActs P r else none

/-- a transaction: the `CheckTx` verdict (a predicate of reads), the caching reads `CheckTx` makes,
what `ApplyTransaction` does after its own `CheckTx` (fee deduction, message handler), its size -/
structure Tx where
  id : Nat
  check : View → Bool
  checkTouches : List Key
  acts : Handler
  size : Nat

/-- `ApplyTransaction`: `CheckTx` again on the current state, then fee and handler -/
def Tx.fullActs (t : Tx) : Handler := t.checkTouches.map .touch ++ [.guard t.check] ++ t.acts

/-- which manual restorations the code performs (set from the extracted source facts) -/
structure Cfg where
  failResetCaches : Bool
  failResetEvents : Bool
  failRestoreTracker : Bool
  failRestoreStore : Bool
  oversizeRestore : Bool
deriving DecidableEq, Repr

def Cfg.all : Cfg := ⟨true, true, true, true, true⟩

/-- state of the sequential pass -/
structure Loop where
  F : Fsm
  included : List Tx
  failed : List Tx
  oversized : List Tx
  blockEvents : List Nat
  size : Nat
  oversize : Bool
  /-- store content and tracker at the moment the block became oversize -/
  preOver : View × List Nat

/-- first pass: `CheckTx` of every transaction against the post-begin-block state, each in a nested
store transaction that is discarded; only caching reads remain -/
def precheck : Fsm → List Tx → Fsm × List Bool
  | F, [] => (F, [])
  | F, t :: r =>
    let F1 := t.checkTouches.foldl Fsm.touch F
    let ok := t.check F1.get
    let (F2, oks) := precheck F1 r
    (F2, ok :: oks)

/-- one iteration of the sequential pass (`none` = the whole block is rejected: oversize while
validating) -/
def stepTx (cfg : Cfg) (max : Nat) (allowOversize : Bool) (L : Loop) (t : Tx) (pre : Bool) : Option Loop :=
  if !pre then some { L with failed := L.failed ++ [t] } else
  let enter := decide (t.size + L.size > max) && !L.oversize
  if enter && !allowOversize then none else
  let L := if enter then { L with oversize := true, preOver := (L.F.store, L.F.tracker) } else L
  let cur := L.F.store
  let preTr := L.F.tracker
  match runActs L.F t.fullActs with
  | (F', true) =>
    -- flush; `ApplyTransaction` returns and clears the per-transaction events
    let F'' := { F' with events := [] }
    if L.oversize then some { L with F := F'', oversized := L.oversized ++ [t] }
    else some { L with F := F'', included := L.included ++ [t], blockEvents := L.blockEvents ++ F'.events,
                       size := L.size + t.size }
  | (F', false) =>
    some { L with failed := L.failed ++ [t],
                  F := { store := if cfg.failRestoreStore then cur else F'.store,
                         cache := if cfg.failResetCaches then noCache else F'.cache,
                         events := if cfg.failResetEvents then [] else F'.events,
                         tracker := if cfg.failRestoreTracker then preTr else F'.tracker } }

def loopTxs (cfg : Cfg) (max : Nat) (allow : Bool) : Loop → List Tx → List Bool → Option Loop
  | L, t :: r, p :: ps => match stepTx cfg max allow L t p with
    | some L' => loopTxs cfg max allow L' r ps
    | none => none
  | L, _, _ => some L

/-- after the loop: the deferred `SetStore(originalStore)` drops the oversize remainder's writes; its
traces in caches and tracker are dropped when the code says so -/
def finishLoop (cfg : Cfg) (L : Loop) : Loop :=
  if L.oversize then
    { L with F := { store := L.preOver.1,
                    cache := if cfg.oversizeRestore then noCache else L.F.cache,
                    events := L.F.events,
                    tracker := if cfg.oversizeRestore then L.preOver.2 else L.F.tracker } }
  else L

def Loop.start (F : Fsm) : Loop := ⟨F, [], [], [], [], 0, false, (F.store, F.tracker)⟩

/-- `ApplyTransactions` -/
def run (cfg : Cfg) (max : Nat) (allow : Bool) (F : Fsm) (txs : List Tx) : Option Loop :=
  let (F1, pres) := precheck F txs
  (loopTxs cfg max allow (Loop.start F1) txs pres).map (finishLoop cfg)

/-! ## specification -/

structure SLoop where
  /-- the state the next transaction sees -/
  cur : Pure
  /-- the state of the block (frozen when the block becomes oversize) -/
  blk : Pure
  included : List Tx
  failed : List Tx
  oversized : List Tx
  blockEvents : List Nat
  size : Nat
  oversize : Bool

def specStep (max : Nat) (allow : Bool) (L : SLoop) (t : Tx) (pre : Bool) : Option SLoop :=
  if !pre then some { L with failed := L.failed ++ [t] } else
  let enter := decide (t.size + L.size > max) && !L.oversize
  if enter && !allow then none else
  let L := if enter then { L with oversize := true, blk := L.cur } else L
  match specActs L.cur t.fullActs with
  | some P' =>
    let P'' := { P' with events := [] }
    if L.oversize then some { L with cur := P'', oversized := L.oversized ++ [t] }
    else some { L with cur := P'', blk := P'', included := L.included ++ [t],
                       blockEvents := L.blockEvents ++ P'.events, size := L.size + t.size }
  | none => some { L with failed := L.failed ++ [t] }

def specLoop (max : Nat) (allow : Bool) : SLoop → List Tx → List Bool → Option SLoop
  | L, t :: r, p :: ps => match specStep max allow L t p with
    | some L' => specLoop max allow L' r ps
    | none => none
  | L, _, _ => some L

def SLoop.start (P : Pure) : SLoop := ⟨P, P, [], [], [], [], 0, false⟩

/-- the specification of `ApplyTransactions`: the verdicts of `CheckTx` on the post-begin-block state
select the candidates; candidates are applied one after the other, a failing one is skipped; what
does not fit is executed on a scratch copy -/
def specRun (max : Nat) (allow : Bool) (P : Pure) (txs : List Tx) : Option SLoop :=
  specLoop max allow (SLoop.start P) txs (txs.map fun t => t.check P.view)

/-- the state of the block after `ApplyTransactions` according to the specification -/
def SLoop.final (L : SLoop) : Pure := L.blk

/-! ## blocks -/

/-- `ApplyBlock` on the mechanism: begin-block handler, transactions, end-block handler; the header is
whatever an observer computes from the reads of the final state (`obs`) -/
def applyBlock (cfg : Cfg) (max : Nat) (allow : Bool) (F : Fsm) (beginActs : Handler) (txs : List Tx)
    (endActs : Handler) : Option (Fsm × List Tx) :=
  match runActs F beginActs with
  | (F1, true) => match run cfg max allow { F1 with events := [] } txs with
    | some L => match runActs L.F endActs with
      | (F2, true) => some (F2, L.included)
      | _ => none
    | none => none
  | _ => none

def specBlock (max : Nat) (allow : Bool) (P : Pure) (beginActs : Handler) (txs : List Tx)
    (endActs : Handler) : Option (Pure × List Tx) :=
  match specActs P beginActs with
  | some P1 => match specRun max allow { P1 with events := [] } txs with
    | some L => match specActs L.final endActs with
      | some P2 => some (P2, L.included)
      | none => none
    | none => none
  | none => none

end Canopy.Atomic
