/-!
# M-exec — mechanism model of the execution paths of one node (C03, C11)

What is modelled (read off `controller/block.go`, `controller/tx.go`, `bft/bft.go`):

* a node holds a **committed** state (the store as of the last `Commit()`), the controller FSM's
  **working copy** (store writer + read-through caches; `FSM.Reset()` throws it away), the mempool
  FSM's separate working copy, the BFT's **cached block result** (`Consensus.BlockResult`, chosen in
  `HandlePeerBlock` by block-hash equality) and the archive of committed blocks;
* block execution itself is an abstract deterministic function `applyBlock : σ → β → Except ε (σ × ρ)`
  (`ρ` = the header and certificate results an execution computes); a block carries the result its
  proposer claims (`claim`) and its height. An execution that fails midway leaves `partialState`
  in the working copy;
* the paths: `produce` (leader: mempool copy, then the deferred `c.FSM.Reset()`), `validate`
  (replica: begins with `c.FSM.Reset()`, compares the computed result with the claim; followed by the
  BFT's bookkeeping: cache the result, or round-interrupt on error), `commit` (`HandlePeerBlock` →
  `CommitCertificate`: cached result on hash match — no execution, the working copy is committed as
  it is — otherwise reset + replay; a deferred reset on every exit), `roundInterrupt`, `restart`.

Nothing here says what `applyBlock` computes; the theorems in `Props/C03.lean` say that every path
computes *it*, on the committed state, whatever happened to the working copies before.
Core Lean only (linked into the C03/C11 drivers).
-/
namespace Canopy.Exec

/-- abstract deterministic execution of blocks -/
structure Sys (σ β ρ ε : Type) where
  applyBlock : σ → β → Except ε (σ × ρ)
  /-- what a failing execution leaves in the working copy it ran on -/
  partialState : σ → β → σ
  /-- the result (header hash, results hash) the block / certificate claims -/
  claim : β → ρ
  height : β → Nat
  /-- mechanism switch: does the controller's FSM reset also drop the BFT's cached block result?
  (`Controller.resetFSM`; `true` on the repaired tree — tied to the source by the generated fact
  `Canopy.Exec.resetClearsCacheFact`; `false` is the mechanism before the repair, kept for the
  counterexample theorems) -/
  resetClearsCache : Bool
  /-- the version (signer set) of the previous height's commit certificate that the block's header
  embeds as `LastQuorumCertificate`; `applyBlock` is the execution whose begin-block consumes THAT
  version (non-signer counters, reward reduction) -/
  lastCertOf : β → Nat
  /-- the execution whose begin-block consumes another version of that certificate: the one the node
  happened to store when it committed the previous height -/
  applyStale : σ → β → Nat → Except ε (σ × ρ)
  /-- mechanism switch: does `CheckAndSetLastCertificate` write the header's certificate into the
  working store on EVERY path (`true` on the source tree — generated fact
  `Canopy.Exec.indexesLastCertFact`), or only outside sync? -/
  indexesLastCert : Bool

/-- one node -/
structure Node (σ β ρ : Type) where
  height : Nat
  committed : σ
  working : σ
  mem : σ
  cached : Option β
  /-- the version of the commit certificate stored for the last committed height -/
  lastCert : Nat
  /-- committed blocks with the result archived for them, newest first -/
  archive : List (β × ρ)

inductive Outcome (ρ : Type) where
  | ok (r : ρ)
  | mismatch
  | failed
  | wrongHeight
deriving DecidableEq, Repr

variable {σ β ρ ε : Type} [DecidableEq β] [DecidableEq ρ]

def init (s : σ) (h : Nat) : Node σ β ρ :=
  { height := h, committed := s, working := s, mem := s, cached := none, lastCert := 0, archive := [] }

/-- the post-state of an *accepted* execution of `b` on `s` -/
def exec (S : Sys σ β ρ ε) (s : σ) (b : β) : Option σ :=
  match S.applyBlock s b with
  | .ok (s', r) => if r = S.claim b then some s' else none
  | .error _ => none

/-- what a correct node answers for block `b` on committed state `s` -/
def verdict (S : Sys σ β ρ ε) (s : σ) (b : β) : Outcome ρ :=
  match S.applyBlock s b with
  | .ok (_, r) => if r = S.claim b then .ok r else .mismatch
  | .error _ => .failed

/-- the controller-level reset of the FSM working copy (`c.resetFSM()`; before the repair a bare
`c.FSM.Reset()` that left the cached block result in place) -/
def reset (S : Sys σ β ρ ε) (n : Node σ β ρ) : Node σ β ρ :=
  { n with working := n.committed, cached := if S.resetClearsCache then none else n.cached }

/-- `bft.RoundInterrupt`: `b.BlockResult = nil; b.ResetFSM()` -/
def roundInterrupt (n : Node σ β ρ) : Node σ β ρ := { n with working := n.committed, cached := none }

/-- process restart: every in-memory copy is rebuilt from the store -/
def restart (n : Node σ β ρ) : Node σ β ρ :=
  { n with working := n.committed, mem := n.committed, cached := none }

/-- leader path: `Mempool.FSM.Reset()`; `CheckMempool` on the mempool copy; deferred controller reset -/
def produce (S : Sys σ β ρ ε) (n : Node σ β ρ) (b : β) : Node σ β ρ × Except ε ρ :=
  match S.applyBlock n.committed b with
  | .ok (s', r) => (reset S { n with mem := s' }, .ok r)
  | .error e => (reset S { n with mem := S.partialState n.committed b }, .error e)

/-- `ValidateProposal` alone (no BFT bookkeeping): reset, height check, execute, compare. An error
leaves the working copy as the execution left it. -/
def validateRaw (S : Sys σ β ρ ε) (n : Node σ β ρ) (b : β) : Node σ β ρ × Outcome ρ :=
  let n := reset S n
  if S.height b ≠ n.height then (n, .wrongHeight) else
  match S.applyBlock n.working b with
  | .ok (s', r) => ({ n with working := s' }, if r = S.claim b then .ok r else .mismatch)
  | .error _ => ({ n with working := S.partialState n.working b }, .failed)

/-- replica path as the BFT runs it (`StartProposeVotePhase`): the answer becomes the cached block
result; on error the round is interrupted. -/
def validate (S : Sys σ β ρ ε) (n : Node σ β ρ) (b : β) : Node σ β ρ × Outcome ρ :=
  match validateRaw S n b with
  | (n', .ok r) => ({ n' with cached := some b }, .ok r)
  | (n', o) => (roundInterrupt n', o)

/-- bookkeeping after `store.Commit()`: new FSM and mempool copy from the committed store, then the
deferred controller reset -/
def finish (S : Sys σ β ρ ε) (n : Node σ β ρ) (s' : σ) (b : β) (r : ρ) (v : Nat) : Node σ β ρ :=
  reset S { height := n.height + 1, committed := s', working := s', mem := s', cached := n.cached,
            lastCert := v, archive := (b, r) :: n.archive }

/-- does the replay of `b` consume the node's stored version of the last certificate instead of the
header's? Only on the sync path, only when the header's certificate is not written first, and only
when the two versions differ. -/
def stale (S : Sys σ β ρ ε) (n : Node σ β ρ) (b : β) (sync : Bool) : Bool :=
  sync && !S.indexesLastCert && n.lastCert != S.lastCertOf b

/-- the execution a replay on this node performs -/
def replayExec (S : Sys σ β ρ ε) (n : Node σ β ρ) (b : β) (sync : Bool) : Except ε (σ × ρ) :=
  if stale S n b sync then S.applyStale n.committed b n.lastCert else S.applyBlock n.committed b

/-- `HandlePeerBlock` → `CommitCertificate`, outside sync (`sync = false`) or on the sync path; `v` is
the version of the block's own commit certificate as delivered (stored on success).
Cached result on block-hash match: nothing is executed, the working copy is committed as it is.
Otherwise reset and replay. Every exit resets the working copy (deferred). -/
def commit (S : Sys σ β ρ ε) (n : Node σ β ρ) (b : β) (sync : Bool := false) (v : Nat := 0) :
    Node σ β ρ × Outcome ρ :=
  if S.height b ≠ n.height then (n, .wrongHeight) else
  if n.cached = some b then
    (finish S n n.working b (S.claim b) v, .ok (S.claim b))
  else
    let n := reset S n
    match replayExec S n b sync with
    | .ok (s', r) => if r = S.claim b then (finish S n s' b r v, .ok r) else (reset S n, .mismatch)
    | .error _ => (reset S n, .failed)

/-- operations of a node, for histories -/
inductive Op (β : Type) where
  | produce (b : β)
  | validate (b : β)
  | commit (b : β) (sync : Bool) (v : Nat)
  | interrupt
  | restart
deriving Repr

def step (S : Sys σ β ρ ε) (n : Node σ β ρ) : Op β → Node σ β ρ
  | .produce b => (produce S n b).1
  | .validate b => (validate S n b).1
  | .commit b sync v => (commit S n b sync v).1
  | .interrupt => roundInterrupt n
  | .restart => restart n

def run (S : Sys σ β ρ ε) (n : Node σ β ρ) (ops : List (Op β)) : Node σ β ρ := ops.foldl (step S) n

/-- the invariant that makes the cached commit right: a cached block is not ahead of the node, and
a cached block of the current height was executed on the committed state with the working copy
holding its post-state -/
def Coherent (S : Sys σ β ρ ε) (n : Node σ β ρ) : Prop :=
  match n.cached with
  | none => True
  | some c => S.height c ≤ n.height ∧ (S.height c = n.height → exec S n.committed c = some n.working)

/-- chain semantics: the committed state after committing a list of blocks (oldest first) -/
def chainState (S : Sys σ β ρ ε) (s : σ) : List β → Option σ
  | [] => some s
  | b :: rest => match exec S s b with
    | some s' => chainState S s' rest
    | none => none

end Canopy.Exec
